(* C10 — proofs about model/ExtDefs.v against spec/ExtDefsS.v. *)
From Coq Require Import NArith ZArith List Bool Arith Lia Sorting.Sorted.
Import ListNotations.
From HV Require Import lib.PyDict lib.Harness model.Types model.ExtDefs spec.ExtDefsS.

(* ------------------------------------------------------------------ canonical sets *)
Definition sorted := StronglySorted N.lt.

Lemma sins_in x l y : In y (sins x l) <-> y = x \/ In y l.
Proof.
  induction l as [|z r IH]; cbn [sins In]. { intuition. }
  destruct (N.compare_spec x z) as [->|H|H]; cbn [In].
  - intuition.
  - intuition.
  - rewrite IH. intuition.
Qed.
Lemma canon_in l y : In y (canon l) <-> In y l.
Proof.
  induction l as [|z r IH]; cbn [canon fold_right In]. { tauto. }
  change (fold_right sins [] r) with (canon r). rewrite sins_in, IH. intuition.
Qed.
Lemma sins_idem x l : sins x (sins x l) = sins x l.
Proof.
  induction l as [|z r IH]; cbn [sins]. { now rewrite N.compare_refl. }
  destruct (x ?= z)%N eqn:E; cbn [sins]; rewrite ?E.
  - reflexivity.
  - now rewrite N.compare_refl.
  - now rewrite IH.
Qed.
Lemma sins_sorted x l : sorted l -> sorted (sins x l).
Proof.
  induction 1 as [|z r Hs IH Hall]; cbn [sins]. { constructor; constructor. }
  destruct (N.compare_spec x z) as [->|H|H].
  - now constructor.
  - constructor; [now constructor|]. constructor; [assumption|].
    eapply Forall_impl; [|exact Hall]. intros; lia.
  - constructor; [assumption|]. rewrite Forall_forall in *. intros y Hy.
    apply sins_in in Hy. destruct Hy as [->|Hy]; [assumption|auto].
Qed.
Lemma canon_sorted l : sorted (canon l).
Proof. induction l; cbn [canon fold_right]; [constructor|now apply sins_sorted]. Qed.
Lemma sins_head x l : sorted (x :: l) -> sins x l = x :: l.
Proof.
  intros H. apply StronglySorted_inv in H as [_ Hall].
  destruct l as [|z r]; [reflexivity|]. inversion Hall; subst. cbn [sins].
  now rewrite (proj2 (N.compare_lt_iff _ _)) by assumption.
Qed.
Lemma canon_id l : sorted l -> canon l = l.
Proof.
  induction l as [|z r IH]; intros H; [reflexivity|]. cbn [canon fold_right].
  change (fold_right sins [] r) with (canon r).
  rewrite IH by (apply StronglySorted_inv in H; tauto). now apply sins_head.
Qed.
Lemma canon_idem l : canon (canon l) = canon l.
Proof. apply canon_id, canon_sorted. Qed.
Lemma sins_present x l : sorted l -> In x l -> sins x l = l.
Proof.
  induction l as [|z r IH]; intros Hs Hin; [destruct Hin|].
  apply StronglySorted_inv in Hs as [Hs Hall]. cbn [sins].
  destruct (N.compare_spec x z) as [->|H|H]; [reflexivity| |].
  - exfalso. destruct Hin as [->|Hin]; [lia|]. rewrite Forall_forall in Hall.
    specialize (Hall _ Hin). lia.
  - f_equal. apply IH; [assumption|]. destruct Hin as [->|Hin]; [lia|assumption].
Qed.
Lemma set_union_one_in (rs : list name) (n x : name) : In x (set_union rs [n]) <-> x = n \/ In x rs.
Proof. unfold set_union. cbn [fold_right]. now rewrite sins_in, canon_in. Qed.
Lemma set_union_one_sorted (rs : list name) (n : name) : sorted (set_union rs [n]).
Proof. unfold set_union. cbn [fold_right]. apply sins_sorted, canon_sorted. Qed.
Lemma set_union_self (rs : list name) (n : name) : sorted rs -> In n rs -> set_union rs [n] = rs.
Proof.
  intros Hs Hin. unfold set_union. cbn [fold_right]. rewrite canon_id by assumption.
  now apply sins_present.
Qed.

(* ------------------------------------------------------------------ type parameters *)
Section TPInd.
  Variable P : typaram -> Prop.
  Hypothesis HType : forall b, P (PType b).
  Hypothesis HNat : forall ub, P (PNat ub).
  Hypothesis HString : P PString.
  Hypothesis HList : forall q, P q -> P (PList q).
  Hypothesis HTuple : forall ps, Forall P ps -> P (PTuple ps).
  Hypothesis HExts : P PExts.
  Fixpoint typaram_ind2 (p : typaram) : P p :=
    match p with
    | PType b => HType b
    | PNat ub => HNat ub
    | PString => HString
    | PList q => HList q (typaram_ind2 q)
    | PTuple ps => HTuple ps ((fix go (l : list typaram) : Forall P l :=
                                 match l with
                                 | [] => Forall_nil _
                                 | x :: r => Forall_cons x (typaram_ind2 x) (go r)
                                 end) ps)
    | PExts => HExts
    end.
End TPInd.
Section SPInd.
  Variable P : sparam -> Prop.
  Hypothesis HType : forall b, P (SPType b).
  Hypothesis HNat : forall ub, P (SPNat ub).
  Hypothesis HString : P SPString.
  Hypothesis HList : forall q, P q -> P (SPList q).
  Hypothesis HTuple : forall ps, Forall P ps -> P (SPTuple ps).
  Hypothesis HExts : P SPExts.
  Fixpoint sparam_ind2 (p : sparam) : P p :=
    match p with
    | SPType b => HType b
    | SPNat ub => HNat ub
    | SPString => HString
    | SPList q => HList q (sparam_ind2 q)
    | SPTuple ps => HTuple ps ((fix go (l : list sparam) : Forall P l :=
                                  match l with
                                  | [] => Forall_nil _
                                  | x :: r => Forall_cons x (sparam_ind2 x) (go r)
                                  end) ps)
    | SPExts => HExts
    end.
End SPInd.

Lemma map_id_Forall {A} (f : A -> A) l : Forall (fun x => f x = x) l -> map f l = l.
Proof. induction 1; cbn; congruence. Qed.
(* TypeParam: deserialize (to_serial p) = p, and the other way round *)
Lemma param_roundtrip p : param_deser (param_ser p) = p.
Proof.
  induction p using typaram_ind2; cbn; try congruence.
  f_equal. rewrite map_map. now apply map_id_Forall.
Qed.
Lemma sparam_roundtrip p : param_ser (param_deser p) = p.
Proof.
  induction p using sparam_ind2; cbn; try congruence.
  f_equal. rewrite map_map. now apply map_id_Forall.
Qed.
Lemma params_roundtrip ps : map param_deser (map param_ser ps) = ps.
Proof. rewrite map_map. apply map_id_Forall, Forall_forall. intros; apply param_roundtrip. Qed.
Lemma sparams_roundtrip ps : map param_ser (map param_deser ps) = ps.
Proof. rewrite map_map. apply map_id_Forall, Forall_forall. intros; apply sparam_roundtrip. Qed.
Lemma bound_roundtrip b : bound_deser (bound_ser b) = b.
Proof. now destruct b. Qed.
Lemma sbound_roundtrip b : bound_ser (bound_deser b) = b.
Proof. now destruct b. Qed.

(* ------------------------------------------------------------------ dictionaries *)
Lemma dset_dset_same {A} (d : list (name * A)) k v v' :
  dset N.eqb (dset N.eqb d k v) k v' = dset N.eqb d k v'.
Proof.
  induction d as [|[k' w] r IH]; cbn. { now rewrite N.eqb_refl. }
  destruct (N.eqb k k') eqn:E; cbn; rewrite ?N.eqb_refl, ?E; [reflexivity|now rewrite IH].
Qed.
Lemma dset_fresh {A} (d : list (name * A)) k v : ~ In k (keys d) -> dset N.eqb d k v = d ++ [(k, v)].
Proof.
  induction d as [|[k' w] r IH]; cbn; intros H; [reflexivity|].
  destruct (N.eqb_spec k k') as [->|Hne]; [exfalso; apply H; now left|].
  rewrite IH; [reflexivity|]. intros Hin; apply H; now right.
Qed.
Lemma Forall_dset {A} (P : name * A -> Prop) d k v :
  Forall P d -> P (k, v) -> Forall P (dset N.eqb d k v).
Proof.
  induction d as [|[k' w] r IH]; cbn; intros H Hp; [constructor; auto|].
  inversion H; subst. destruct (N.eqb k k'); constructor; auto.
Qed.
Lemma keys_app {A} (a b : list (name * A)) : keys (a ++ b) = keys a ++ keys b.
Proof. unfold keys. apply map_app. Qed.
Lemma fold_dset_fresh {A B} (g : name * B -> A) (l : list (name * B)) : forall d,
  NoDup (keys d ++ keys l) ->
  fold_left (fun d kt => dset N.eqb d (fst kt) (g kt)) l d = d ++ map (fun kt => (fst kt, g kt)) l.
Proof.
  induction l as [|[k b] r IH]; intros d H; cbn [fold_left map]. { now rewrite app_nil_r. }
  cbn [keys map fst] in H. fold (keys r) in H.
  rewrite dset_fresh.
  - rewrite IH. { now rewrite <- app_assoc. }
    rewrite keys_app. cbn [keys map fst]. now rewrite <- app_assoc.
  - apply NoDup_remove_2 in H. intros Hin; apply H, in_or_app; now left.
Qed.
Lemma keys_map_snd {A B} (f : name * A -> B) (l : list (name * A)) :
  keys (map (fun kt => (fst kt, f kt)) l) = keys l.
Proof. unfold keys. rewrite map_map. reflexivity. Qed.
Lemma Forall2_map_r {A B} (R : A -> B -> Prop) (f : A -> B) l :
  Forall (fun x => R x (f x)) l -> Forall2 R l (map f l).
Proof. induction 1; cbn; constructor; auto. Qed.
Lemma foldM_inv {A S} (f : S -> A -> res S) (P : S -> Prop) :
  (forall s x s', f s x = Ok s' -> P s -> P s') ->
  forall l s s', foldM f l s = Ok s' -> P s -> P s'.
Proof.
  intros Hf l. induction l as [|x r IH]; cbn; intros s s' H Hp; [now inversion H; subst|].
  destruct (f s x) as [s1|] eqn:E; cbn in H; [|discriminate]. eauto.
Qed.
Lemma dict_to_serial_ok {A B} (f : A -> res B) (g : A -> B) (d : list (name * A)) :
  Forall (fun kv => f (snd kv) = Ok (g (snd kv))) d ->
  dict_to_serial f d = Ok (map (fun kv => (fst kv, g (snd kv))) d).
Proof.
  unfold dict_to_serial. induction 1 as [|x r Hx Hr IH]; cbn; [reflexivity|].
  rewrite Hx. cbn. rewrite IH. reflexivity.
Qed.

(* ------------------------------------------------------------------ the extension model *)
Section Proofs.
  Context {T ST V SV M : Type}.
  Variables (ser_t : T -> ST) (deser_t : ST -> T) (ser_v : V -> SV) (deser_v : SV -> V).
  (* the type / value codec is a fixed point after one round trip (property C05) *)
  Hypothesis ser_t_fix : forall t, ser_t (deser_t (ser_t t)) = ser_t t.
  Hypothesis ser_v_fix : forall v, ser_v (deser_v (ser_v v)) = ser_v v.

  Let ext := extension T V M.
  Let sext := sextension ST SV M.

  (* ---- owner invariant, unguarded ---- *)
  Definition own (e : ext) : Prop :=
    Forall (fun ko : name * aopdef T M => op_names_owner (e_name e) (snd ko)) (e_ops e).
  Lemma step_name (e : ext) c : e_name (step e c) = e_name e.
  Proof. now destruct c. Qed.
  Lemma own_step (e : ext) c : own e -> own (step e c).
  Proof.
    unfold own. destruct c as [td|od|v]; cbn; try tauto.
    intros H. apply Forall_dset; [assumption|]. split; cbn; [reflexivity|].
    intros p. destruct (sig_poly (aod_sig od)); [|discriminate]. intros [= <-]. cbn.
    apply set_union_one_in. now left.
  Qed.
  Lemma own_build cs : forall e : ext, own e -> own (build e cs).
  Proof. induction cs as [|c r IH]; cbn; intros e H; [assumption|]. apply IH, own_step, H. Qed.
  Lemma own_names_owner (e : ext) : own e <-> names_owner e.
  Proof.
    unfold own, names_owner. rewrite Forall_forall. split.
    - intros H k od Hin. exact (H (k, od) Hin).
    - intros H [k od] Hin. exact (H k od Hin).
  Qed.
  Lemma names_owner_history n v r (cs : list (cmd T V M)) : names_owner (build (new_ext n v r) cs).
  Proof. apply own_names_owner, own_build. constructor. Qed.

  (* ---- well-formed extensions: what every history through the public API produces ---- *)
  Definition sig_valid (s : opdefsig T) : Prop := sig_poly s = None -> sig_binary s = true.
  Definition td_wf (n : name) (kt : name * atypedef) : Prop :=
    atd_name (snd kt) = fst kt /\ atd_owner (snd kt) = Some n.
  Definition v_wf (n : name) (kv : name * avalue V) : Prop :=
    av_name (snd kv) = fst kv /\ av_owner (snd kv) = Some n.
  Definition od_wf (n : name) (ko : name * aopdef T M) : Prop :=
    aod_name (snd ko) = fst ko /\ aod_owner (snd ko) = Some n /\ sig_valid (aod_sig (snd ko)) /\
    forall p, sig_poly (aod_sig (snd ko)) = Some p -> sorted (pf_reqs p) /\ In n (pf_reqs p).
  Definition wf (e : ext) : Prop :=
    NoDup (keys (e_types e)) /\ NoDup (keys (e_values e)) /\ NoDup (keys (e_ops e)) /\
    Forall (td_wf (e_name e)) (e_types e) /\ Forall (v_wf (e_name e)) (e_values e) /\
    Forall (od_wf (e_name e)) (e_ops e).
  (* OpDefSig's constructor refuses "no signature and not binary" *)
  Definition cmd_ok (c : cmd T V M) : Prop :=
    match c with AddOp od => sig_valid (aod_sig od) | _ => True end.

  Lemma wf_new n v r : wf (new_ext n v r).
  Proof. unfold wf; cbn. repeat split; constructor. Qed.
  Lemma wf_step (e : ext) c : wf e -> cmd_ok c -> wf (step e c).
  Proof.
    intros (H1 & H2 & H3 & H4 & H5 & H6) Hc. unfold wf.
    destruct c as [td|od|v]; cbn; repeat split; try assumption.
    - now apply nodup_dset; [apply N.eqb_spec|].
    - apply Forall_dset; [assumption|]. now split.
    - now apply nodup_dset; [apply N.eqb_spec|].
    - apply Forall_dset; [assumption|]. cbn in Hc. repeat split; cbn.
      + unfold sig_valid in *. cbn. destruct (sig_poly (aod_sig od)); [discriminate|auto].
      + destruct (sig_poly (aod_sig od)); [|discriminate]. injection H as <-. cbn.
        apply set_union_one_sorted.
      + destruct (sig_poly (aod_sig od)); [|discriminate]. injection H as <-. cbn.
        apply set_union_one_in. now left.
    - now apply nodup_dset; [apply N.eqb_spec|].
    - apply Forall_dset; [assumption|]. now split.
  Qed.
  Lemma wf_build cs : forall e : ext, wf e -> Forall cmd_ok cs -> wf (build e cs).
  Proof.
    induction cs as [|c r IH]; cbn; intros e H Hc; [assumption|]. inversion Hc; subst.
    apply IH; [now apply wf_step|assumption].
  Qed.
  Lemma wf_names_owner (e : ext) : wf e -> names_owner e.
  Proof.
    intros (_ & _ & _ & _ & _ & H6). apply own_names_owner. unfold own.
    eapply Forall_impl; [|exact H6]. intros ko (_ & Ho & _ & Hp). split; [assumption|].
    intros p Hs. now apply Hp.
  Qed.

  (* ---- _to_serial on well-formed extensions ---- *)
  Definition td_ser (n : name) (t : atypedef) : stypedef :=
    {| std_extension := n; std_name := atd_name t; std_descr := atd_descr t;
       std_params := map param_ser (atd_params t); std_bound := bound_ser (atd_bound t) |}.
  Definition od_ser (n : name) (o : aopdef T M) : sopdef ST M :=
    {| so_extension := n; so_name := aod_name o; so_descr := aod_descr o;
       so_misc := Some (aod_misc o);
       so_signature := option_map (poly_to_serial ser_t) (sig_poly (aod_sig o));
       so_binary := sig_binary (aod_sig o) |}.
  Definition v_ser (n : name) (v : avalue V) : svalue SV :=
    {| sv_extension := n; sv_name := av_name v; sv_typed_value := ser_v (av_val v) |}.
  Definition ext_ser (e : ext) : sext :=
    {| se_version := e_version e; se_name := e_name e; se_reqs := canon (e_reqs e);
       se_types := map (fun kt => (fst kt, td_ser (e_name e) (snd kt))) (e_types e);
       se_values := map (fun kv => (fst kv, v_ser (e_name e) (snd kv))) (e_values e);
       se_ops := map (fun ko => (fst ko, od_ser (e_name e) (snd ko))) (e_ops e) |}.
  Lemma to_serial_ok (e : ext) : wf e -> to_serial ser_t ser_v e = Ok (ext_ser e).
  Proof.
    intros (_ & _ & _ & H4 & H5 & H6). unfold to_serial.
    rewrite (dict_to_serial_ok _ (td_ser (e_name e))).
    2:{ eapply Forall_impl; [|exact H4]. intros kt [_ Ho]. unfold td_to_serial. now rewrite Ho. }
    cbn [bind].
    rewrite (dict_to_serial_ok _ (v_ser (e_name e))).
    2:{ eapply Forall_impl; [|exact H5]. intros kv [_ Ho]. unfold v_to_serial. now rewrite Ho. }
    cbn [bind].
    rewrite (dict_to_serial_ok _ (od_ser (e_name e))).
    2:{ eapply Forall_impl; [|exact H6]. intros ko (_ & Ho & _). unfold od_to_serial. now rewrite Ho. }
    reflexivity.
  Qed.

  (* ---- deserialize on well-keyed documents ---- *)
  Definition td_back (n : name) (t : stypedef) : atypedef :=
    {| atd_owner := Some n; atd_name := std_name t; atd_descr := std_descr t;
       atd_params := map param_deser (std_params t); atd_bound := bound_deser (std_bound t) |}.
  Definition v_back (n : name) (v : svalue SV) : avalue V :=
    {| av_owner := Some n; av_name := sv_name v; av_val := deser_v (sv_typed_value v) |}.
  (* the owner is added three times: in OpDef.deserialize, in the add_op_def it calls, and in the
     add_op_def of Extension.deserialize *)
  Definition od_back (n : name) (o : sopdef ST M) : aopdef T M :=
    {| aod_owner := Some n; aod_name := so_name o;
       aod_sig := {| sig_poly := option_map (fun p => with_reqs (with_reqs (with_reqs (poly_deser deser_t p) [n]) [n]) [n])
                                            (so_signature o);
                     sig_binary := so_binary o |};
       aod_descr := so_descr o;
       aod_misc := match so_misc o with Some m => m | None => [] end |}.
  Definition ext_back (s : sext) : ext :=
    {| e_name := se_name s; e_version := se_version s; e_reqs := canon (se_reqs s);
       e_types := map (fun kt => (fst kt, td_back (se_name s) (snd kt))) (se_types s);
       e_values := map (fun kv => (fst kv, v_back (se_name s) (snd kv))) (se_values s);
       e_ops := map (fun ko => (fst ko, od_back (se_name s) (snd ko))) (se_ops s) |}.
  Definition so_valid (o : sopdef ST M) : Prop := so_signature o = None -> so_binary o = true.
  (* a document whose dictionaries are keyed by the names of their entries, without duplicate keys
     (JSON objects parsed by pydantic never have any), every operation with a signature or binary *)
  Definition doc_ok (s : sext) : Prop :=
    NoDup (keys (se_types s)) /\ NoDup (keys (se_values s)) /\ NoDup (keys (se_ops s)) /\
    Forall (fun kt => std_name (snd kt) = fst kt) (se_types s) /\
    Forall (fun kv => sv_name (snd kv) = fst kv) (se_values s) /\
    Forall (fun ko => so_name (snd ko) = fst ko /\ so_valid (snd ko)) (se_ops s).

  Definition set_types (e : ext) d : ext :=
    {| e_name := e_name e; e_version := e_version e; e_reqs := e_reqs e; e_types := d;
       e_values := e_values e; e_ops := e_ops e |}.
  Definition set_values (e : ext) d : ext :=
    {| e_name := e_name e; e_version := e_version e; e_reqs := e_reqs e; e_types := e_types e;
       e_values := d; e_ops := e_ops e |}.
  Definition set_ops (e : ext) d : ext :=
    {| e_name := e_name e; e_version := e_version e; e_reqs := e_reqs e; e_types := e_types e;
       e_values := e_values e; e_ops := d |}.

  Lemma types_phase l : forall e : ext,
    Forall (fun kt : name * stypedef => std_name (snd kt) = fst kt) l ->
    foldM type_step l e =
    Ok (set_types e (fold_left (fun d kt => dset N.eqb d (fst kt) (td_back (e_name e) (snd kt))) l (e_types e))).
  Proof.
    induction l as [|[k t] r IH]; intros e H. { now destruct e. }
    inversion H as [|? ? Hk Hr]; subst. cbn [fst snd] in Hk. subst k.
    cbn [foldM]. unfold type_step at 1. cbn [fst snd]. rewrite N.eqb_refl.
    unfold td_deser, add_type_def. cbn [fst snd bind atd_name atd_descr atd_params atd_bound e_name e_types e_version e_reqs e_values e_ops].
    rewrite IH by assumption. cbn [fold_left fst snd e_name e_types]. rewrite dset_dset_same.
    reflexivity.
  Qed.
  Lemma values_phase l : forall e : ext,
    Forall (fun kv : name * svalue SV => sv_name (snd kv) = fst kv) l ->
    foldM (value_step deser_v) l e =
    Ok (set_values e (fold_left (fun d kv => dset N.eqb d (fst kv) (v_back (e_name e) (snd kv))) l (e_values e))).
  Proof.
    induction l as [|[k t] r IH]; intros e H. { now destruct e. }
    inversion H as [|? ? Hk Hr]; subst. cbn [fst snd] in Hk. subst k.
    cbn [foldM]. unfold value_step at 1. cbn [fst snd]. rewrite N.eqb_refl.
    unfold v_deser, add_extension_value. cbn [fst snd bind av_name av_val e_name e_types e_version e_reqs e_values e_ops].
    rewrite IH by assumption. cbn [fold_left fst snd e_name e_values]. rewrite dset_dset_same.
    reflexivity.
  Qed.
  Lemma ops_phase l : forall e : ext,
    Forall (fun ko : name * sopdef ST M => so_name (snd ko) = fst ko /\ so_valid (snd ko)) l ->
    foldM (op_step deser_t) l e =
    Ok (set_ops e (fold_left (fun d ko => dset N.eqb d (fst ko) (od_back (e_name e) (snd ko))) l (e_ops e))).
  Proof.
    induction l as [|[k o] r IH]; intros e H. { now destruct e. }
    inversion H as [|? ? [Hk Hv] Hr]; subst. cbn [fst snd] in Hk, Hv. subst k.
    cbn [foldM]. unfold op_step at 1. cbn [fst snd]. rewrite N.eqb_refl.
    unfold od_deser.
    assert (Hs : mk_sig (option_map (fun p => with_reqs (poly_deser deser_t p) [e_name e]) (so_signature o)) (so_binary o)
                 = Ok {| sig_poly := option_map (fun p => with_reqs (poly_deser deser_t p) [e_name e]) (so_signature o);
                         sig_binary := so_binary o |}).
    { unfold mk_sig. unfold so_valid in Hv. destruct (so_signature o); cbn; [now destruct (so_binary o)|].
      rewrite Hv by reflexivity. reflexivity. }
    rewrite Hs. unfold add_op_def.
    cbn [fst snd bind aod_name aod_sig aod_descr aod_misc sig_poly sig_binary e_name e_types e_version e_reqs e_values e_ops].
    rewrite IH by assumption. cbn [fold_left fst snd e_name e_ops]. rewrite dset_dset_same.
    unfold od_back. destruct (so_signature o); reflexivity.
  Qed.

  Lemma deserialize_ok (s : sext) : doc_ok s -> deserialize deser_t deser_v s = Ok (ext_back s).
  Proof.
    intros (H1 & H2 & H3 & H4 & H5 & H6). unfold deserialize.
    rewrite types_phase by assumption. cbn [bind].
    rewrite ops_phase by assumption. cbn [bind].
    rewrite values_phase by assumption.
    unfold set_types, set_ops, set_values, new_ext, ext_back.
    cbn [e_name e_version e_reqs e_types e_values e_ops].
    rewrite !fold_dset_fresh by (cbn [keys map app]; assumption).
    reflexivity.
  Qed.

  (* a loaded document is a well-formed extension *)
  Lemma type_step_wf (e e' : ext) kt : type_step e kt = Ok e' -> wf e -> wf e'.
  Proof.
    unfold type_step, td_deser. destruct (N.eqb _ _); [|discriminate]. cbn. intros [= <-] Hwf.
    match goal with |- wf ?x => match x with context [dset N.eqb (dset N.eqb _ _ ?a) _ ?b] =>
      change (wf (step (step e (AddType a)) (AddType b))) end end.
    repeat apply wf_step; cbn; auto.
  Qed.
  Lemma value_step_wf (e e' : ext) kv : value_step deser_v e kv = Ok e' -> wf e -> wf e'.
  Proof.
    unfold value_step, v_deser. destruct (N.eqb _ _); [|discriminate]. cbn. intros [= <-] Hwf.
    match goal with |- wf ?x => match x with context [dset N.eqb (dset N.eqb _ _ ?a) _ ?b] =>
      change (wf (step (step e (AddValue a)) (AddValue b))) end end.
    repeat apply wf_step; cbn; auto.
  Qed.
  Lemma op_step_wf (e e' : ext) ko : op_step deser_t e ko = Ok e' -> wf e -> wf e'.
  Proof.
    unfold op_step. destruct (N.eqb _ _); [|discriminate]. unfold od_deser.
    destruct (mk_sig _ _) as [sg|] eqn:Es; cbn [bind]; [|discriminate]. intros H Hwf.
    assert (Hsv : sig_valid sg).
    { unfold mk_sig in Es. destruct (option_map _ _) eqn:Eo.
      - injection Es as <-. intros Hn; cbn in Hn; discriminate.
      - destruct (so_binary (snd ko)) eqn:Eb; [|discriminate]. injection Es as <-. now intros _. }
    match type of H with context [add_op_def e ?a] => set (od0 := a) in * end.
    destruct (add_op_def e od0) as [e1 od1] eqn:E. injection H as <-.
    replace e1 with (fst (add_op_def e od0)) by now rewrite E.
    replace od1 with (snd (add_op_def e od0)) by now rewrite E.
    change (wf (step (step e (AddOp od0)) (AddOp (snd (add_op_def e od0))))).
    apply wf_step; [apply wf_step; [assumption|exact Hsv]|].
    cbn. unfold sig_valid in *. cbn. destruct (sig_poly sg); [discriminate|auto].
  Qed.
  Lemma deserialize_wf (s : sext) e : deserialize deser_t deser_v s = Ok e -> wf e.
  Proof.
    unfold deserialize.
    destruct (foldM type_step _ _) as [e1|] eqn:E1; cbn [bind]; [|discriminate].
    destruct (foldM (op_step deser_t) _ _) as [e2|] eqn:E2; cbn [bind]; [|discriminate].
    intros E3.
    eapply (foldM_inv _ wf (fun s x s' => value_step_wf s s' x)); [exact E3|].
    eapply (foldM_inv _ wf (fun s x s' => op_step_wf s s' x)); [exact E2|].
    eapply (foldM_inv _ wf (fun s x s' => type_step_wf s s' x)); [exact E1|].
    apply wf_new.
  Qed.
  Lemma deserialize_names_owner (s : sext) e : deserialize deser_t deser_v s = Ok e -> names_owner e.
  Proof. intros H. eapply wf_names_owner, deserialize_wf, H. Qed.

  (* ---- the round trip ---- *)
  Lemma ext_ser_doc_ok (e : ext) : wf e -> doc_ok (ext_ser e).
  Proof.
    intros (H1 & H2 & H3 & H4 & H5 & H6). unfold doc_ok, ext_ser; cbn [se_types se_values se_ops].
    rewrite !keys_map_snd. repeat split; try assumption.
    - apply Forall_map. eapply Forall_impl; [|exact H4]. now intros kt [Hn _].
    - apply Forall_map. eapply Forall_impl; [|exact H5]. now intros kt [Hn _].
    - apply Forall_map. eapply Forall_impl; [|exact H6]. intros ko (Hn & _ & Hv & _). split; [exact Hn|].
      unfold so_valid; cbn. intros Hnone. apply Hv. now destruct (sig_poly (aod_sig (snd ko))).
  Qed.
  Lemma td_ser_back n t : td_ser n (td_back n (td_ser n t)) = td_ser n t.
  Proof. unfold td_ser, td_back; cbn. now rewrite params_roundtrip, bound_roundtrip. Qed.
  Lemma v_ser_back n v : v_ser n (v_back n (v_ser n v)) = v_ser n v.
  Proof. unfold v_ser, v_back; cbn. now rewrite ser_v_fix. Qed.
  Lemma map_ser_fix l : map ser_t (map deser_t (map ser_t l)) = map ser_t l.
  Proof. rewrite !map_map. apply map_ext. intros; apply ser_t_fix. Qed.
  Opaque set_union.
  Lemma od_ser_back n ko : od_wf n ko -> od_ser n (od_back n (od_ser n (snd ko))) = od_ser n (snd ko).
  Proof.
    intros (_ & _ & _ & Hp). unfold od_ser, od_back; cbn. f_equal.
    destruct (sig_poly (aod_sig (snd ko))) as [p|]; [|reflexivity]. cbn.
    destruct (Hp p eq_refl) as [Hs Hin]. unfold poly_to_serial, with_reqs, poly_deser; cbn.
    rewrite !(set_union_self _ _ Hs Hin).
    now rewrite sparams_roundtrip, !map_ser_fix.
  Qed.
  Lemma map_map_fix {A B} (f : A -> B) (g : B -> A) (P : name * A -> Prop) (l : list (name * A)) :
    Forall P l -> (forall ka, P ka -> f (g (f (snd ka))) = f (snd ka)) ->
    map (fun kb => (fst kb, f (snd kb))) (map (fun kb => (fst kb, g (snd kb))) (map (fun ka => (fst ka, f (snd ka))) l))
    = map (fun ka => (fst ka, f (snd ka))) l.
  Proof.
    intros H Hf. rewrite !map_map. cbn [fst snd]. induction H as [|x r Hx Hr IH]; cbn; [reflexivity|].
    rewrite IH, (Hf _ Hx). reflexivity.
  Qed.
  Lemma ext_ser_back (e : ext) : wf e -> ext_ser (ext_back (ext_ser e)) = ext_ser e.
  Proof.
    intros (H1 & H2 & H3 & H4 & H5 & H6). unfold ext_ser at 1. unfold ext_back.
    cbn [e_name e_version e_reqs e_types e_values e_ops].
    unfold ext_ser. cbn [se_name se_version se_reqs se_types se_values se_ops].
    rewrite !canon_idem. f_equal.
    - apply (map_map_fix (td_ser (e_name e)) (td_back (e_name e)) (fun _ => True)).
      + apply Forall_forall; auto.
      + intros; apply td_ser_back.
    - apply (map_map_fix (v_ser (e_name e)) (v_back (e_name e)) (fun _ => True)).
      + apply Forall_forall; auto.
      + intros; apply v_ser_back.
    - apply (map_map_fix (od_ser (e_name e)) (od_back (e_name e)) (od_wf (e_name e))); [assumption|].
      intros; now apply od_ser_back.
  Qed.

  Lemma preserved_back (e : ext) : wf e -> preserved ser_t ser_v e (ext_back (ext_ser e)).
  Proof.
    intros (H1 & H2 & H3 & H4 & H5 & H6). unfold preserved, ext_back.
    cbn [e_name e_version e_reqs e_types e_values e_ops se_name se_version se_reqs se_types se_values se_ops ext_ser].
    split; [reflexivity|]. split; [reflexivity|].
    split; [intros x; rewrite !canon_in; tauto|]. split; [|split].
    - rewrite map_map. apply Forall2_map_r. eapply Forall_impl; [|exact H4].
      intros kt [Hn Ho]. unfold td_preserved; cbn.
      now rewrite params_roundtrip, bound_roundtrip.
    - rewrite map_map. apply Forall2_map_r. eapply Forall_impl; [|exact H6].
      intros ko (Hn & Ho & Hv & Hp). unfold od_preserved, sig_preserved; cbn.
      repeat split; try assumption.
      destruct (sig_poly (aod_sig (snd ko))) as [p|]; cbn; [|exact I].
      destruct (Hp p eq_refl) as [Hs Hin]. rewrite !(set_union_self _ _ Hs Hin).
      unfold same_types. rewrite params_roundtrip, !map_ser_fix. repeat split; auto.
    - rewrite map_map. apply Forall2_map_r. eapply Forall_impl; [|exact H5].
      intros kv [Hn Ho]. unfold v_preserved; cbn. now rewrite ser_v_fix.
  Qed.

  (* serializing a well-formed extension and loading it back: succeeds, preserves every field, and
     re-serializes to the same document *)
  Theorem roundtrip_wf (e : ext) : wf e ->
    exists s e', to_serial ser_t ser_v e = Ok s /\ deserialize deser_t deser_v s = Ok e' /\
                 to_serial ser_t ser_v e' = Ok s /\ preserved ser_t ser_v e e' /\ names_owner e'.
  Proof.
    intros Hwf. exists (ext_ser e), (ext_back (ext_ser e)).
    assert (Hd : deserialize deser_t deser_v (ext_ser e) = Ok (ext_back (ext_ser e)))
      by now apply deserialize_ok, ext_ser_doc_ok.
    pose proof (deserialize_wf _ _ Hd) as Hwf'.
    split; [|split; [|split; [|split]]].
    - now apply to_serial_ok.
    - exact Hd.
    - rewrite to_serial_ok by assumption. now rewrite ext_ser_back.
    - now apply preserved_back.
    - now apply wf_names_owner.
  Qed.
  Theorem roundtrip_history n v r (cs : list (cmd T V M)) : Forall cmd_ok cs ->
    let e := build (new_ext n v r) cs in
    exists s e', to_serial ser_t ser_v e = Ok s /\ deserialize deser_t deser_v s = Ok e' /\
                 to_serial ser_t ser_v e' = Ok s /\ preserved ser_t ser_v e e' /\ names_owner e'.
  Proof. intros H. apply roundtrip_wf, wf_build; [apply wf_new|exact H]. Qed.

  (* any document that loads: writing it and loading again is a fixed point *)
  Theorem reload_fixed_point (s : sext) e : deserialize deser_t deser_v s = Ok e ->
    exists s', to_serial ser_t ser_v e = Ok s' /\ reload ser_t deser_t ser_v deser_v s' = Ok s' /\
               s_names_owner s'.
  Proof.
    intros H. pose proof (deserialize_wf _ _ H) as Hwf.
    destruct (roundtrip_wf e Hwf) as (s' & e' & Hs & Hd & Hs' & _ & _).
    exists s'. split; [assumption|]. split.
    - unfold reload. rewrite Hd. exact Hs'.
    - rewrite to_serial_ok in Hs by assumption. injection Hs as <-.
      destruct Hwf as (_ & _ & _ & _ & _ & H6). rewrite Forall_forall in H6.
      intros k o Hin. unfold ext_ser in Hin; cbn in Hin. apply in_map_iff in Hin as [[k' od] [[= <- <-] Hin]].
      destruct (H6 _ Hin) as (_ & _ & _ & Hp). cbn [snd] in Hp. cbn. split; [reflexivity|].
      intros p. cbn. destruct (sig_poly (aod_sig od)) as [q|]; [|discriminate]. intros [= <-]. cbn.
      now apply (Hp q eq_refl).
  Qed.

  (* ---- one Extension object over time (model Section Session, seeded round 4) ----
     `sim e f`: two well-formed extensions that write the same document.  Adding a definition keeps them
     similar; an extension and its loaded copy are similar.  Hence whatever was serialised or loaded in
     between, the document written at a point is the one-shot document of the additions so far. *)
  Definition sim (e f : ext) : Prop := wf e /\ wf f /\ ext_ser e = ext_ser f.
  Lemma map_dset_snd {A B} (g : A -> B) (d : list (name * A)) k v :
    map (fun kv => (fst kv, g (snd kv))) (dset N.eqb d k v)
    = dset N.eqb (map (fun kv => (fst kv, g (snd kv))) d) k (g v).
  Proof.
    induction d as [|[k' w] r IH]; cbn; [reflexivity|].
    destruct (N.eqb k k'); cbn; [reflexivity|now rewrite IH].
  Qed.
  Lemma ext_ser_step (e f : ext) c : ext_ser e = ext_ser f -> ext_ser (step e c) = ext_ser (step f c).
  Proof.
    unfold ext_ser. intros H. injection H as Hv Hn Hr Ht Hvs Ho.
    destruct c as [td|od|v]; cbn [step fst add_type_def add_op_def add_extension_value
                                 e_name e_version e_reqs e_types e_values e_ops];
      rewrite ?map_dset_snd; rewrite Ht, Hvs, Ho, Hr, Hv, ?Hn; reflexivity.
  Qed.
  Lemma sim_step (e f : ext) c : sim e f -> cmd_ok c -> sim (step e c) (step f c).
  Proof.
    intros (He & Hf & H) Hc. split; [now apply wf_step|]. split; [now apply wf_step|now apply ext_ser_step].
  Qed.
  Lemma sim_back (e : ext) : wf e ->
    deserialize deser_t deser_v (ext_ser e) = Ok (ext_back (ext_ser e)) /\ sim (ext_back (ext_ser e)) e.
  Proof.
    intros Hwf.
    assert (Hd : deserialize deser_t deser_v (ext_ser e) = Ok (ext_back (ext_ser e)))
      by now apply deserialize_ok, ext_ser_doc_ok.
    split; [exact Hd|]. split; [exact (deserialize_wf _ _ Hd)|]. split; [exact Hwf|now apply ext_ser_back].
  Qed.
  Lemma session_sim (e0 : ext) p : forall (e : ext) acc,
    sim e (build e0 acc) -> Forall cmd_ok (adds p) ->
    session ser_t deser_t ser_v deser_v e p
    = map (fun cs => to_serial ser_t ser_v (build e0 cs)) (points acc p).
  Proof.
    induction p as [|s r IH]; intros e acc Hs Hok; [reflexivity|].
    destruct s as [c| |]; cbn [session points map].
    - cbn [adds flat_map app] in Hok. inversion Hok as [|? ? Hc Hr]; subst.
      apply IH; [|exact Hr]. unfold build. rewrite fold_left_app. cbn [fold_left].
      now apply sim_step.
    - destruct Hs as (He & Hf & H). rewrite (IH e acc); [|exact (conj He (conj Hf H))|exact Hok].
      now rewrite !to_serial_ok, H by assumption.
    - destruct Hs as (He & Hf & H). rewrite !to_serial_ok by assumption. cbn [bind].
      destruct (sim_back e He) as [Hd (Hb1 & _ & Hb3)]. rewrite Hd.
      rewrite (IH (ext_back (ext_ser e)) acc); [now rewrite H| |exact Hok].
      split; [exact Hb1|]. split; [exact Hf|now rewrite Hb3].
  Qed.
  Theorem session_documents n v r (p : list (sstep T V M)) : Forall cmd_ok (adds p) ->
    session_transparent (fun cs => to_serial ser_t ser_v (build (new_ext n v r) cs)) p
                        (session ser_t deser_t ser_v deser_v (new_ext n v r) p).
  Proof.
    intros H. unfold session_transparent. apply session_sim; [|exact H].
    split; [apply wf_new|]. split; [apply wf_new|reflexivity].
  Qed.
End Proofs.

(* ------------------------------------------------------------------ shared definition objects *)
Section SharedP.
  Context {T V M : Type}.
  Lemma Forall_update {A} (P : A -> Prop) l i x : Forall P l -> P x -> Forall P (update l i x).
  Proof.
    intros H Hx. revert i. induction H as [|y r Hy Hr IH]; intros i; cbn; [destruct i; constructor|].
    destruct i; constructor; auto.
  Qed.
  Lemma nth_error_update_other {A} (l : list A) i k x : k <> i -> nth_error (update l i x) k = nth_error l k.
  Proof.
    revert i k. induction l as [|y r IH]; intros i k Hne; cbn; [now destruct i|].
    destruct i, k; cbn; try congruence; auto.
  Qed.
  Lemma add_obj_step (e : extension T V M) (o : obj T V M) : exists c, fst (add_obj e o) = step e c.
  Proof.
    destruct o as [t|d|v]; [exists (AddType t)|exists (AddOp d)|exists (AddValue v)]; reflexivity.
  Qed.
  (* every extension of the world keeps the owner invariant, whatever is shared *)
  Lemma share_step_own (w : world T V M) ij : Forall own (w_exts w) -> Forall own (w_exts (share_step w ij)).
  Proof.
    intros H. unfold share_step.
    destruct (nth_error (w_exts w) (fst ij)) as [e|] eqn:Ee; [|assumption].
    destruct (nth_error (w_objs w) (snd ij)) as [o|]; [|assumption]. cbn [w_exts].
    apply Forall_update; [assumption|]. destruct (add_obj_step e o) as [c ->].
    apply own_step. rewrite Forall_forall in H. apply H. eapply nth_error_In, Ee.
  Qed.
  Lemma share_run_own p : forall w : world T V M, Forall own (w_exts w) -> Forall own (w_exts (share_run w p)).
  Proof.
    induction p as [|ij r IH]; cbn; intros w H; [assumption|]. apply IH, share_step_own, H.
  Qed.
  Theorem shared_names_owner (hdrs : list (name * version * list name)) (objs : list (obj T V M)) p :
    let w := {| w_exts := map (fun h => new_ext (fst (fst h)) (snd (fst h)) (snd h)) hdrs; w_objs := objs |} in
    forall e, In e (w_exts (share_run w p)) -> names_owner e.
  Proof.
    intros w e Hin. apply own_names_owner.
    assert (H : Forall own (w_exts (share_run w p))).
    { apply share_run_own. cbn. apply Forall_forall. intros x Hx. apply in_map_iff in Hx as [h [<- _]]. constructor. }
    rewrite Forall_forall in H. now apply H.
  Qed.
  (* frame: adding an object to one extension leaves every other extension as it was *)
  Theorem share_frame (w : world T V M) ij k : k <> fst ij ->
    nth_error (w_exts (share_step w ij)) k = nth_error (w_exts w) k.
  Proof.
    intros Hne. unfold share_step.
    destruct (nth_error (w_exts w) (fst ij)); [|reflexivity].
    destruct (nth_error (w_objs w) (snd ij)); [|reflexivity]. cbn [w_exts].
    now apply nth_error_update_other.
  Qed.
End SharedP.

(* ------------------------------------------------------------------ the world with object identity *)
Lemma In_dset {A} (d : list (name * A)) k v k0 v0 :
  In (k0, v0) (dset N.eqb d k v) -> (k0 = k /\ v0 = v) \/ In (k0, v0) d.
Proof.
  induction d as [|[k' w] r IH]; cbn.
  - intros [[= <- <-]|[]]. now left.
  - destruct (N.eqb k k'); cbn.
    + intros [[= <- <-]|H]; [now left|right; now right].
    + intros [H|H]; [right; now left|]. destruct (IH H) as [?|?]; [now left|right; now right].
Qed.
Lemma nth_error_update_same {A} (l : list A) i x y :
  nth_error l i = Some y -> nth_error (update l i x) i = Some x.
Proof.
  revert i. induction l as [|z r IH]; intros i; destruct i; cbn; try discriminate; auto.
Qed.
Lemma nth_error_app_old {A} (l : list A) x a y :
  nth_error l a = Some y -> nth_error (l ++ [x]) a = Some y.
Proof.
  intros H. rewrite nth_error_app1; [assumption|]. apply nth_error_Some. congruence.
Qed.
Lemma nth_error_app_new {A} (l : list A) x : nth_error (l ++ [x]) (length l) = Some x.
Proof. rewrite nth_error_app2 by lia. now rewrite Nat.sub_diag. Qed.

Section HeapP.
  Context {T V M : Type}.
  Local Notation cel := (cell T V M).
  Local Notation hw := (heapw T V M).

  Definition all_refs (x : rext) : list (name * nat) := r_types x ++ r_values x ++ r_ops x.
  (* the cell at address a is live and its `_extension` pointer is the Extension object number i *)
  Definition owned (h : list cel) (i a : nat) : Prop :=
    exists c, nth_error h a = Some c /\ c_ext c = Some i.
  Definition is_op_cell (h : list cel) (a : nat) : Prop :=
    exists c d, nth_error h a = Some c /\ c_obj c = OOp d.
  Definition stamped (n : name) (o : obj T V M) : Prop :=
    match o with OOp d => op_names_owner n d | _ => True end.
  Definition cell_ok (xs : list rext) (c : cel) : Prop :=
    match c_ext c with
    | Some i => exists x, nth_error xs i = Some x /\ stamped (r_name x) (c_obj c)
    | None => True
    end.
  (* the invariant of the heap world: every owned cell carries its owner's stamp; every address held by
     an Extension object is a live cell owned by that very object; operation entries hold operations *)
  Record hinv (w : hw) : Prop := {
    hi_cells : Forall (cell_ok (hw_exts w)) (hw_heap w);
    hi_owned : forall i x, nth_error (hw_exts w) i = Some x ->
               forall k a, In (k, a) (all_refs x) -> owned (hw_heap w) i a;
    hi_ops : forall i x, nth_error (hw_exts w) i = Some x ->
             forall k a, In (k, a) (r_ops x) -> is_op_cell (hw_heap w) a }.

  Lemma stamp_op (x : rext) (d : aopdef T M) :
    stamp x (OOp d : obj T V M) = OOp (snd (add_op_def (@hdr_of T V M x) d)).
  Proof. reflexivity. Qed.
  Lemma stamp_stamped (x : rext) (o : obj T V M) : stamped (r_name x) (stamp x o).
  Proof.
    destruct o as [t|d|v]; cbn; try exact I. split; cbn; [reflexivity|].
    intros p. destruct (sig_poly (aod_sig d)); [|discriminate]. intros [= <-]. cbn.
    apply set_union_one_in. now left.
  Qed.
  Lemma store_name (x : rext) (o : obj T V M) a : r_name (store x o a) = r_name x.
  Proof. now destruct o. Qed.
  Lemma store_refs (x : rext) (o : obj T V M) a' k a :
    In (k, a) (all_refs (store x o a')) -> a = a' \/ In (k, a) (all_refs x).
  Proof.
    unfold all_refs. destruct o; cbn [store r_types r_values r_ops]; rewrite !in_app_iff;
      intros [H|[H|H]]; try (right; tauto);
      apply In_dset in H as [[_ ->]|H]; try (now left); right; tauto.
  Qed.
  Lemma store_ops (x : rext) (o : obj T V M) a' k a :
    In (k, a) (r_ops (store x o a')) ->
    (a = a' /\ exists d, o = OOp d) \/ In (k, a) (r_ops x).
  Proof.
    destruct o as [t|d|v]; cbn [store r_ops]; try (intros H; now right).
    intros H. apply In_dset in H as [[_ ->]|H]; [left; split; [reflexivity|now exists d]|now right].
  Qed.
  Lemma ops_in_refs (x : rext) k a : In (k, a) (r_ops x) -> In (k, a) (all_refs x).
  Proof. unfold all_refs. rewrite !in_app_iff. tauto. Qed.

  (* names of the Extension objects never change *)
  Lemma cell_ok_update (xs : list rext) i x x' (c : cel) :
    nth_error xs i = Some x -> r_name x' = r_name x -> cell_ok xs c -> cell_ok (update xs i x') c.
  Proof.
    intros Hx Hn. unfold cell_ok. destruct (c_ext c) as [j|]; [|trivial].
    intros [y [Hy Hs]]. destruct (Nat.eq_dec j i) as [->|Hne].
    - exists x'. split; [eapply nth_error_update_same, Hx|]. rewrite Hn. congruence.
    - exists y. split; [now rewrite nth_error_update_other|assumption].
  Qed.

  (* a cell held by ANOTHER Extension object is not touched by exts[i].add_*(handle r) *)
  Lemma hstep_keeps_cell (w : hw) ij k a :
    k <> fst ij -> owned (hw_heap w) k a ->
    nth_error (hw_heap (hstep w ij)) a = nth_error (hw_heap w) a.
  Proof.
    intros Hne [c0 [Ha Hk]]. unfold hstep.
    destruct (nth_error (hw_exts w) (fst ij)) as [x|]; [|reflexivity].
    destruct (nth_error (hw_heap w) (snd ij)) as [c|] eqn:Ec; [|reflexivity]. cbn [hw_heap].
    destruct (c_ext c) as [j|] eqn:Ej.
    - destruct (Nat.eqb_spec j (fst ij)) as [->|Hj]; cbn [negb].
      + destruct (Nat.eq_dec a (snd ij)) as [->|Hd]; [|now apply nth_error_update_other].
        exfalso. rewrite Ha in Ec. injection Ec as ->. rewrite Hk in Ej. now injection Ej.
      + rewrite Ha. eapply nth_error_app_old, Ha.
    - destruct (Nat.eq_dec a (snd ij)) as [->|Hd]; [|now apply nth_error_update_other].
      exfalso. rewrite Ha in Ec. injection Ec as ->. rewrite Hk in Ej. discriminate Ej.
  Qed.

  Lemma hstep_inv (w : hw) ij : hinv w -> hinv (hstep w ij).
  Proof.
    intros [Hc Ho Hp]. destruct ij as [i r]. unfold hstep. cbn [fst snd].
    destruct (nth_error (hw_exts w) i) as [x|] eqn:Ex; [|now split].
    destruct (nth_error (hw_heap w) r) as [c|] eqn:Ec; [|now split].
    set (copied := match c_ext c with None => false | Some k => negb (Nat.eqb k i) end).
    set (a' := if copied then length (hw_heap w) else r).
    set (c' := {| c_obj := stamp x (c_obj c); c_ext := Some i |}).
    set (h' := if copied then hw_heap w ++ [c'] else update (hw_heap w) r c').
    (* the new cell sits at a' *)
    assert (Hnew : nth_error h' a' = Some c').
    { unfold h', a'. destruct copied; [apply nth_error_app_new|eapply nth_error_update_same, Ec]. }
    (* a cell that was live stays live; if it is the one mutated in place it was unowned or owned by i *)
    assert (Hold : forall a c0, nth_error (hw_heap w) a = Some c0 ->
                   nth_error h' a = Some c0 \/
                   (a = r /\ c0 = c /\ copied = false /\ nth_error h' a = Some c')).
    { intros a c0 Ha. unfold h'. destruct copied eqn:Ecp.
      - left. eapply nth_error_app_old, Ha.
      - destruct (Nat.eq_dec a r) as [->|Hd].
        + right. repeat split; [congruence|eapply nth_error_update_same, Ec].
        + left. now rewrite nth_error_update_other. }
    assert (Hcp : copied = false -> c_ext c = None \/ c_ext c = Some i).
    { unfold copied. destruct (c_ext c) as [j|]; [|now left].
      destruct (Nat.eqb_spec j i) as [E|]; cbn; [right; now rewrite E|discriminate]. }
    split; cbn [hw_exts hw_heap]; fold copied; fold a'; fold c'; fold h'.
    - (* cells *)
      assert (Hc' : cell_ok (update (hw_exts w) i (store x (c_obj c) a')) c').
      { unfold cell_ok. cbn [c_ext c' c_obj]. exists (store x (c_obj c) a').
        split; [eapply nth_error_update_same, Ex|]. rewrite store_name. apply stamp_stamped. }
      assert (Hc0 : Forall (cell_ok (update (hw_exts w) i (store x (c_obj c) a'))) (hw_heap w)).
      { eapply Forall_impl; [|exact Hc]. intros c0. eapply cell_ok_update; [exact Ex|apply store_name]. }
      unfold h'. destruct copied.
      + apply Forall_app. split; [assumption|now constructor].
      + now apply Forall_update.
    - (* owned *)
      intros k y Hy k0 a Hin. destruct (Nat.eq_dec k i) as [->|Hne].
      + rewrite (nth_error_update_same _ _ _ _ Ex) in Hy. injection Hy as <-.
        apply store_refs in Hin as [->|Hin].
        * exists c'. now split.
        * destruct (Ho i x Ex k0 a Hin) as [c0 [Ha Hi]].
          destruct (Hold a c0 Ha) as [H|[_ [_ [_ H]]]]; [now exists c0|exists c'; now split].
      + rewrite nth_error_update_other in Hy by assumption.
        destruct (Ho k y Hy k0 a Hin) as [c0 [Ha Hk]].
        destruct (Hold a c0 Ha) as [H|[-> [-> [Hf _]]]]; [now exists c0|].
        destruct (Hcp Hf); congruence.
    - (* operation entries hold operations *)
      intros k y Hy k0 a Hin. destruct (Nat.eq_dec k i) as [->|Hne].
      + rewrite (nth_error_update_same _ _ _ _ Ex) in Hy. injection Hy as <-.
        apply store_ops in Hin as [[-> [d Hd]]|Hin].
        * exists c', (snd (add_op_def (@hdr_of T V M x) d)). split; [assumption|].
          cbn [c' c_obj]. now rewrite Hd.
        * destruct (Hp i x Ex k0 a Hin) as [c0 [d [Ha Hd]]].
          destruct (Hold a c0 Ha) as [H|[_ [-> [_ H]]]]; [now exists c0, d|].
          exists c', (snd (add_op_def (@hdr_of T V M x) d)). split; [assumption|].
          cbn [c' c_obj]. now rewrite Hd.
      + rewrite nth_error_update_other in Hy by assumption.
        destruct (Hp k y Hy k0 a Hin) as [c0 [d [Ha Hd]]].
        destruct (Ho k y Hy k0 a (ops_in_refs _ _ _ Hin)) as [c1 [Ha1 Hk]].
        assert (c1 = c0) by congruence. subst c1.
        destruct (Hold a c0 Ha) as [H|[-> [-> [Hf _]]]]; [now exists c0, d|].
        destruct (Hcp Hf); congruence.
  Qed.
  Lemma hrun_inv p : forall w : hw, hinv w -> hinv (hrun w p).
  Proof. induction p as [|ij r IH]; cbn; intros w H; [assumption|]. apply IH, hstep_inv, H. Qed.
  Lemma new_heapw_inv hdrs (objs : list (obj T V M)) : hinv (new_heapw hdrs objs).
  Proof.
    split; cbn.
    - apply Forall_forall. intros c Hin. apply in_map_iff in Hin as [o [<- _]]. exact I.
    - intros i x Hx k a Hin. apply nth_error_In, in_map_iff in Hx as [h [<- _]]. destruct Hin.
    - intros i x Hx k a Hin. apply nth_error_In, in_map_iff in Hx as [h [<- _]]. destruct Hin.
  Qed.
  Lemma hinv_names_owner (w : hw) : hinv w -> heap_names_owner w.
  Proof.
    intros [Hc Ho Hp] i x Hx k a Hin.
    destruct (Hp i x Hx k a Hin) as [c [d [Ha Hd]]].
    destruct (Ho i x Hx k a (ops_in_refs _ _ _ Hin)) as [c1 [Ha1 Hi]].
    assert (c1 = c) by congruence. subst c1.
    exists c, d. repeat split; try assumption.
    - rewrite Forall_forall in Hc. specialize (Hc c (nth_error_In _ _ Ha)).
      unfold cell_ok in Hc. rewrite Hi in Hc. destruct Hc as [y [Hy Hs]].
      assert (y = x) by congruence. subst y. rewrite Hd in Hs. apply Hs.
    - rewrite Forall_forall in Hc. specialize (Hc c (nth_error_In _ _ Ha)).
      unfold cell_ok in Hc. rewrite Hi in Hc. destruct Hc as [y [Hy Hs]].
      assert (y = x) by congruence. subst y. rewrite Hd in Hs. apply Hs.
  Qed.

  (* whatever is added to whichever Extension object, in any order, including the same definition object to
     several Extension objects that carry the SAME name: every operation definition held by an Extension
     object reports that object as its owner and names it among its requirements *)
  Theorem heap_names_owner_run hdrs (objs : list (obj T V M)) p :
    heap_names_owner (hrun (new_heapw hdrs objs) p).
  Proof. apply hinv_names_owner, hrun_inv, new_heapw_inv. Qed.

  (* frame: exts[i].add_*(...) leaves every other Extension object as it was — its dictionaries, every
     definition it holds (fields and owner pointer) *)
  Lemma deref_ext {A} (h h' : list cel) (pick : obj T V M -> option A) d :
    (forall k a, In (k, a) d -> nth_error h' a = nth_error h a) -> deref h' pick d = deref h pick d.
  Proof.
    induction d as [|[k a] r IH]; cbn; intros H; [reflexivity|].
    rewrite (H k a) by now left. f_equal. apply IH. intros k0 a0 Hin. apply (H k0 a0). now right.
  Qed.
  Theorem heap_frame (w : hw) ij k x : hinv w -> k <> fst ij -> nth_error (hw_exts w) k = Some x ->
    nth_error (hw_exts (hstep w ij)) k = Some x /\
    view (hw_heap (hstep w ij)) x = view (hw_heap w) x /\
    held_owners (hw_heap (hstep w ij)) x = held_owners (hw_heap w) x.
  Proof.
    intros Hi Hne Hx.
    assert (Hk : forall k0 a, In (k0, a) (all_refs x) ->
                 nth_error (hw_heap (hstep w ij)) a = nth_error (hw_heap w) a).
    { intros k0 a Hin. eapply hstep_keeps_cell; [exact Hne|]. eapply (hi_owned w Hi), Hin. exact Hx. }
    split; [|split].
    - unfold hstep. destruct (nth_error (hw_exts w) (fst ij)); [|assumption].
      destruct (nth_error (hw_heap w) (snd ij)); [|assumption]. cbn [hw_exts].
      now rewrite nth_error_update_other.
    - unfold view. f_equal; apply deref_ext; intros k0 a Hin; apply (Hk k0);
        unfold all_refs; rewrite !in_app_iff; tauto.
    - unfold held_owners.
      assert (H : forall k0 a, In (k0, a) (r_ops x) ->
                  nth_error (hw_heap (hstep w ij)) a = nth_error (hw_heap w) a).
      { intros k0 a Hin. apply (Hk k0), ops_in_refs, Hin. }
      revert H. generalize (r_ops x). intros d. induction d as [|[k0 a] r IH]; cbn; intros H; [reflexivity|].
      rewrite (H k0 a) by now left. f_equal. apply IH. intros k1 a1 Hin. apply (H k1 a1). now right.
  Qed.
  Theorem heap_frame_run hdrs (objs : list (obj T V M)) p :
    let w := hrun (new_heapw hdrs objs) p in
    forall ij k x, k <> fst ij -> nth_error (hw_exts w) k = Some x ->
    nth_error (hw_exts (hstep w ij)) k = Some x /\
    view (hw_heap (hstep w ij)) x = view (hw_heap w) x /\
    held_owners (hw_heap (hstep w ij)) x = held_owners (hw_heap w) x.
  Proof. intros w ij k x. apply heap_frame, hrun_inv, new_heapw_inv. Qed.
End HeapP.

(* non-vacuity, and the breakage the identity test prevents: two Extension objects with the SAME name 7;
   one operation definition is added to the first and then to the second.  With the code's test (object
   identity) the first keeps a definition that reports the first; deciding by NAME instead re-parents the
   object in place and the first Extension object then holds a definition that reports the second. *)
Definition hstep_by_name {T V M} (w : heapw T V M) (ij : nat * nat) : heapw T V M :=
  match nth_error (hw_exts w) (fst ij), nth_error (hw_heap w) (snd ij) with
  | Some x, Some c =>
      let copied := match c_ext c with
                    | None => false
                    | Some k => match nth_error (hw_exts w) k with
                                | Some y => negb (N.eqb (r_name y) (r_name x))
                                | None => true
                                end
                    end in
      let a := if copied then length (hw_heap w) else snd ij in
      let c' := {| c_obj := stamp x (c_obj c); c_ext := Some (fst ij) |} in
      {| hw_exts := update (hw_exts w) (fst ij) (store x (c_obj c) a);
         hw_heap := if copied then hw_heap w ++ [c'] else update (hw_heap w) (snd ij) c' |}
  | _, _ => w
  end.
Definition ex_ver (m : N) := {| v_major := 0; v_minor := m; v_patch := 0; v_pre := None; v_build := None |}.
Definition ex_world : heapw N N N :=
  new_heapw [(7%N, ex_ver 1, []); (7%N, ex_ver 2, [])]
            [OOp {| aod_owner := None; aod_name := 20%N;
                    aod_sig := {| sig_poly := Some {| pf_params := []; pf_input := []; pf_output := []; pf_reqs := [] |};
                                  sig_binary := false |};
                    aod_descr := 0%N; aod_misc := [] |}].
Example heap_example :
  map (held_owners (hw_heap (hrun ex_world [(0, 0); (1, 0)]))) (hw_exts (hrun ex_world [(0, 0); (1, 0)]))
  = [[(20%N, Some 0, Some [7%N])]; [(20%N, Some 1, Some [7%N])]].
Proof. vm_compute. reflexivity. Qed.
Example by_name_refuted :
  let w := fold_left hstep_by_name [(0, 0); (1, 0)] ex_world in
  ~ heap_names_owner w /\
  map (held_owners (hw_heap w)) (hw_exts w) = [[(20%N, Some 1, Some [7%N])]; [(20%N, Some 1, Some [7%N])]].
Proof.
  split; [|vm_compute; reflexivity].
  intros H. specialize (H 0 _ eq_refl 20%N 0 (or_introl eq_refl)).
  destruct H as [c [d [Hc [_ [He _]]]]]. vm_compute in Hc. injection Hc as <-. discriminate He.
Qed.

(* ------------------------------------------------------------------ non-vacuity *)
(* payloads instantiated with numbers and the identity codec *)
Definition ex_sig : opdefsig N :=
  {| sig_poly := Some {| pf_params := [PType Any; PList (PTuple [PNat (Some 7%N); PString])];
                         pf_input := [1%N]; pf_output := [2%N; 3%N]; pf_reqs := [9%N; 4%N; 9%N] |};
     sig_binary := false |}.
Definition ex_cmds : list (cmd N N N) :=
  [AddType {| atd_owner := None; atd_name := 10%N; atd_descr := 11%N; atd_params := [PNat None];
              atd_bound := FromParams [0] |};
   AddOp {| aod_owner := None; aod_name := 20%N; aod_sig := ex_sig; aod_descr := 21%N;
            aod_misc := [(1%N, 2%N)] |};
   AddOp {| aod_owner := None; aod_name := 22%N; aod_sig := {| sig_poly := None; sig_binary := true |};
            aod_descr := 0%N; aod_misc := [] |};
   AddValue {| av_owner := None; av_name := 30%N; av_val := 31%N |};
   AddOp {| aod_owner := None; aod_name := 20%N; aod_sig := ex_sig; aod_descr := 23%N; aod_misc := [] |}].
Definition ex_version := {| v_major := 1; v_minor := 2; v_patch := 3; v_pre := Some 5%N; v_build := None |}.
Example roundtrip_example :
  Forall (@cmd_ok N N N) ex_cmds /\
  let e := build (new_ext 5%N ex_version [8%N; 6%N; 8%N]) ex_cmds in
  exists s, to_serial id id e = Ok s /\ reload id id id id s = Ok s /\
            length (se_ops s) = 2 /\ se_reqs s = [6%N; 8%N] /\
            option_map (fun o => option_map (fun p => sf_reqs (sp_body p)) (so_signature o))
                       (dget N.eqb (se_ops s) 20%N) = Some (Some [4%N; 5%N; 9%N]).
Proof.
  split.
  - repeat constructor; cbn; unfold sig_valid; cbn; congruence.
  - eexists. repeat split; vm_compute; reflexivity.
Qed.

(* one Extension object over time (seeded round 4): the first three additions of ex_cmds, a document, the value,
   a document, the session goes on with the LOADED object, the last addition, a document.  The three documents
   hold 0 / 1 / 1 values and the third shows the re-added operation; and the breakage: a document kept from one
   `to_json` to the next and dropped by add_type_def / add_op_def only (`session_stale`) gives a second document
   without the value -- it is not the document of the additions so far. *)
Definition ex_session : list (sstep N N N) :=
  map (@SAdd N N N) (firstn 3 ex_cmds) ++ [@SSer N N N] ++ map (@SAdd N N N) (firstn 1 (skipn 3 ex_cmds)) ++
  [@SLoad N N N] ++ map (@SAdd N N N) (skipn 4 ex_cmds) ++ [@SSer N N N].
Definition res_values (r : res (sextension N N N)) : option (list name) :=
  match r with Ok s => Some (map fst (se_values s)) | Err _ => None end.
Example session_example :
  Forall (@cmd_ok N N N) (adds ex_session) /\
  let outs := session id id id id (new_ext 5%N ex_version [8%N; 6%N; 8%N]) ex_session in
  map res_values outs = [Some []; Some [30%N]; Some [30%N]] /\
  nth_error outs 2 = Some (to_serial id id (build (new_ext 5%N ex_version [8%N; 6%N; 8%N]) ex_cmds)).
Proof.
  split.
  - repeat constructor; cbn; unfold sig_valid; cbn; congruence.
  - split; vm_compute; reflexivity.
Qed.
Example stale_document_refuted :
  let e0 := new_ext 5%N ex_version [8%N; 6%N; 8%N] in
  let outs := session_stale id id e0 None ex_session in
  ~ session_transparent (fun cs => to_serial id id (build e0 cs)) ex_session outs /\
  map res_values outs = [Some []; Some []; Some [30%N]].
Proof.
  split; [|vm_compute; reflexivity].
  unfold session_transparent. intros H. apply (f_equal (map res_values)) in H. vm_compute in H. discriminate H.
Qed.
