(* C01 (fourth pass) — rule 2 (first / second child: Input and Output nodes of dataflow containers, entry and exit block of
   a CFG, a Conditional has a Case) for EVERY program of the third builder language (model/Builder3.v), with NO premise.

   The check of one node depends on the ordered list of its children.  A child that is neither Input nor Output nor an
   exit block can be appended to ANY node whose check holds (fs_check_snoc_any), whatever the kind of the parent; what needs
   care are the moments when a freshly created container does not have its first two children yet.  Those moments are
   INSIDE one builder call each: the container is exempt from the check (a predicate of exempt nodes, fsp) from its
   add_node call until its second child is there:
     - DFG / TailLoop / Case / FuncDefn / DataflowBlock: until the Output node is added (init_io);
     - CFG: until the exit block is added (Cfg._init_impl: entry block, its Input / Output, exit block: two nodes are
       exempt at once);
     - Conditional: until the first Case (Conditional._init_impl creates all cases at once; a Conditional over an empty sum
       cannot be completed, the builders raise).
   Completion steps (set_outputs, branch_exit) keep constructors and parents, hence all child lists. *)
From Coq Require Import NArith List Bool Arith Lia.
Import ListNotations.
From HV Require Import lib.Harness model.Validity model.Builder model.Builder2 model.Builder3 spec.BuilderS
  proofs.BuilderP proofs.BuilderExtP proofs.BuilderFrameP proofs.BuilderRulesP proofs.Builder2UnfoldP proofs.Builder2InvP proofs.Builder2P
  spec.Builder2WFS spec.Builder3S proofs.Builder2FrameP proofs.Builder3UnfoldP proofs.Builder3IndexP proofs.Builder3TagsP.
Local Open Scope N_scope.

(* ------------------------------------------------------------------ the rule with a predicate of exempt nodes *)
Definition fsp (ex : N -> bool) (l : list vnode) : bool :=
  forallb (fun x => ex (fst x) || fs_check (n_op (snd x)) (child_ops (Gn l) (fst x))) (indexed l).
Definition none : N -> bool := fun _ => false.
Definition plus (ex : N -> bool) (d : N) : N -> bool := fun i => ex i || (i =? d).
Lemma fsp_none l : fsp none l = r_first_second (Gn l). Proof. reflexivity. Qed.
Lemma fsp_canon ex l : fsp ex (map cnode l) = fsp ex l.
Proof.
  unfold fsp, indexed. rewrite index_from_map, forallb_map. apply forallb_ext_in. intros [i x] _.
  cbn [fst snd cnode n_op]. f_equal. rewrite child_ops_canon. apply fs_check_canon.
Qed.

Definition nio (o : vop) : bool := negb (is_input o) && negb (is_output o) && negb (is_exit o).
Lemma nio_canon o : nio (canon o) = nio o. Proof. now destruct o. Qed.
Lemma fs_check_snoc_any ox cs o : nio o = true -> fs_check ox cs = true -> fs_check ox (cs ++ [o]) = true.
Proof.
  unfold nio, fs_check. intros H. apply andb_true_iff in H. destruct H as [H He]. apply andb_true_iff in H. destruct H as [Hi Ho].
  destruct (is_dfparent ox).
  - destruct cs as [|a [|b rest]]; try discriminate. cbn [app]. intros C. apply andb_true_iff in C. destruct C as [C1 C2].
    rewrite C1. cbn [andb]. rewrite forallb_app, C2. cbn [forallb andb]. now rewrite Hi, Ho.
  - destruct (is_cfg ox).
    + destruct cs as [|a [|b rest]]; try discriminate. cbn [app]. intros C. apply andb_true_iff in C. destruct C as [C1 C2].
      rewrite C1. cbn [andb]. rewrite forallb_app, C2. cbn [forallb andb]. now rewrite He.
    + destruct (is_cond ox); [now destruct cs|reflexivity].
Qed.

Lemma fsp_app_one ex ex' l o p pn :
  fsp ex l = true -> bounded l = true -> nthN l p = Some pn ->
  (ex' p = true \/
   ((ex p = false -> fs_check (n_op pn) (child_ops (Gn l) p) = true) ->
    fs_check (n_op pn) (child_ops (Gn l) p ++ [o]) = true)) ->
  (ex' (lenN l) = true \/ (fs_check o [] = true)) ->
  (forall i, i <> p -> i < lenN l -> ex i = true -> ex' i = true) ->
  fsp ex' (l ++ [mk o p]) = true.
Proof.
  intros Hf Hb Hp Hpar Hnew Hex. pose proof (nthN_lt _ _ _ Hp) as Hlt.
  unfold fsp in *. rewrite indexed_app, forallb_app. apply andb_true_iff. split.
  - rewrite forallb_forall in Hf. apply forallb_forall. intros [i x] Hin. specialize (Hf _ Hin). cbn [fst snd] in *.
    pose proof (nthN_lt _ _ _ (in_indexed _ _ _ Hin)) as Hi.
    rewrite child_ops_app. cbn [index_from flat_map]. rewrite (app_nil_r (sel i (lenN l, mk o p))).
    unfold sel. cbn [fst snd mk n_parent n_op].
    destruct (negb (lenN l =? 0) && (p =? i)) eqn:E.
    + apply andb_true_iff in E. destruct E as [_ E]. apply N.eqb_eq in E. subst i.
      rewrite (nthN_inj_indexed _ _ _ _ Hin Hp) in *. apply orb_true_iff.
      destruct Hpar as [Hpar|Hpar]; [now left|right]. apply Hpar. intros Hne. rewrite Hne in Hf. exact Hf.
    + rewrite app_nil_r. apply orb_true_iff in Hf. destruct Hf as [Hf|Hf]; [|now rewrite Hf, orb_true_r].
      assert (Hip : i <> p).
      { intros ->. rewrite N.eqb_refl, andb_true_r in E. apply negb_false_iff, N.eqb_eq in E. lia. }
      now rewrite (Hex i Hip Hi Hf).
  - cbn [index_from forallb fst snd mk n_op]. rewrite andb_true_r. destruct Hnew as [Hn|Hn].
    + now rewrite Hn.
    + apply orb_true_iff. right. rewrite child_ops_app, (child_ops_beyond l (lenN l) Hb) by lia.
      cbn [index_from flat_map app]. unfold sel. cbn [fst snd mk n_parent].
      replace (p =? lenN l) with false by (symmetry; apply N.eqb_neq; lia). now rewrite andb_false_r.
Qed.

(* the children of a node just appended *)
Lemma child_ops_new l o p : bounded l = true -> p < lenN l -> child_ops (Gn (l ++ [mk o p])) (lenN l) = [].
Proof.
  intros Hb Hp. rewrite child_ops_app, (child_ops_beyond l (lenN l) Hb) by lia.
  cbn [index_from flat_map app]. unfold sel. cbn [fst snd mk n_parent].
  replace (p =? lenN l) with false by (symmetry; apply N.eqb_neq; lia). now rewrite andb_false_r.
Qed.

(* ------------------------------------------------------------------ the invariant *)
Definition FB (ex : N -> bool) (st : store) : Prop := fsp ex (s_nodes st) = true /\ bounded (s_nodes st) = true.
Definition BIn (st : store) (b : dfb) : Prop := b_parent b < s_len st /\ kindp is_output (s_nodes st) (b_out b).
Lemma BIn_ext st st' b : Ext st st' -> BIn st b -> BIn st' b.
Proof. intros X [A B]. split; [pose proof (Ext_len _ _ X); lia|eapply kindp_Ext; eauto]. Qed.
Lemma FB_sk ex st st' : map cnode (s_nodes st') = map cnode (s_nodes st) -> FB ex st -> FB ex st'.
Proof. intros E [A B]. split; [now rewrite <- fsp_canon, E, fsp_canon|now rewrite <- bounded_canon, E, bounded_canon]. Qed.
Lemma FB_nodes ex st st' : s_nodes st' = s_nodes st -> FB ex st -> FB ex st'.
Proof. unfold FB. now intros ->. Qed.

Lemma FB_add ex ex' st o p st' n :
  add_node st o p = Ok (st', n) -> FB ex st ->
  (forall pn, nthN (s_nodes st) p = Some pn ->
     ex' p = true \/ ((ex p = false -> fs_check (n_op pn) (child_ops (Gn (s_nodes st)) p) = true) ->
                      fs_check (n_op pn) (child_ops (Gn (s_nodes st)) p ++ [o]) = true)) ->
  (ex' (s_len st) = true \/ fs_check o [] = true) ->
  (forall i, i <> p -> i < s_len st -> ex i = true -> ex' i = true) ->
  FB ex' st' /\ Ext st st' /\ n = s_len st /\ s_nodes st' = s_nodes st ++ [mk o p] /\ p < s_len st.
Proof.
  intros H [F B] Hpar Hnew Hmono. apply add_node_ok in H. destruct H as (Hlt & Hn & En & _).
  destruct (nthN_some_lt (s_nodes st) p Hlt) as (pn & Hp).
  split; [|split; [exists (map cnode [mk o p]); now rewrite En, map_app|auto]].
  split; rewrite En; [eapply fsp_app_one; eauto|now apply bounded_app].
Qed.
(* a node that is neither Input, Output nor exit block, under any node; the set of exempt nodes stays *)
Lemma FB_add_any ex st o p st' n :
  add_node st o p = Ok (st', n) -> FB ex st -> nio o = true -> (ex (s_len st) = true \/ fs_check o [] = true) ->
  FB ex st' /\ Ext st st' /\ n = s_len st /\ s_nodes st' = s_nodes st ++ [mk o p] /\ p < s_len st.
Proof.
  intros H I Hn Hnew. eapply FB_add; eauto.
  intros pn Hp. destruct (ex p) eqn:Ep; [now left|right]. intros Hc. apply fs_check_snoc_any; auto.
Qed.

(* a dataflow container with its Input / Output nodes *)
Lemma FB_triple ex ex' st p co ti st1 d st2 i st3 o :
  add_node st co p = Ok (st1, d) -> add_node st1 (Input ti) d = Ok (st2, i) -> add_node st2 (Output []) d = Ok (st3, o) ->
  FB ex st -> is_dfparent co = true ->
  (forall pn, nthN (s_nodes st) p = Some pn ->
     ex' p = true \/ ((ex p = false -> fs_check (n_op pn) (child_ops (Gn (s_nodes st)) p) = true) ->
                      fs_check (n_op pn) (child_ops (Gn (s_nodes st)) p ++ [co]) = true)) ->
  (forall j, j <> p -> j < s_len st -> ex j = true -> ex' j = true) ->
  FB ex' st3 /\ Ext st st3 /\ BIn st3 (mkb d i o) /\ d = s_len st /\
  s_nodes st3 = s_nodes st ++ [mk co p; mk (Input ti) d; mk (Output []) d].
Proof.
  intros H1 H2 H3 I Hdf Hpar Hmono.
  destruct (FB_add ex (plus ex' (s_len st)) _ _ _ _ _ H1 I) as (I1 & X1 & -> & E1 & Lp).
  { intros pn Hp. destruct (Hpar pn Hp) as [Q|Q]; [left; unfold plus; now rewrite Q|now right]. }
  { left. unfold plus. now rewrite N.eqb_refl, orb_true_r. }
  { intros j Hj Hlt Hx. unfold plus. now rewrite (Hmono j Hj Hlt Hx). }
  set (d := s_len st) in *.
  assert (Hs1 : s_len st1 = d + 1) by (unfold s_len; rewrite E1, lenN_app; reflexivity).
  destruct (FB_add (plus ex' d) (plus ex' d) _ _ _ _ _ H2 I1) as (I2 & X2 & -> & E2 & _).
  { intros pn Hp. left. unfold plus. now rewrite N.eqb_refl, orb_true_r. }
  { right. reflexivity. }
  { intros j _ _ Hx. exact Hx. }
  assert (C2 : child_ops (Gn (s_nodes st2)) d = [Input ti]).
  { rewrite E2, child_ops_app. fold (s_len st1). rewrite Hs1. rewrite E1, (child_ops_new _ _ _ (proj2 I) Lp).
    cbn [index_from flat_map app]. unfold sel. cbn [fst snd mk n_parent n_op]. rewrite N.eqb_refl.
    replace (d + 1 =? 0) with false by (symmetry; apply N.eqb_neq; lia). reflexivity. }
  assert (X1d : nthN (s_nodes st2) d = Some (mk co p)).
  { rewrite E2. apply nthN_app1. rewrite E1. apply nthN_len. }
  destruct (FB_add (plus ex' d) ex' _ _ _ _ _ H3 I2) as (I3 & X3 & -> & E3 & _).
  { intros pn Hp. right. intros _. rewrite X1d in Hp. inversion Hp; subst pn. rewrite C2. cbn [mk n_op app].
    unfold fs_check. rewrite Hdf. reflexivity. }
  { right. reflexivity. }
  { intros j Hj _ Hx. unfold plus in Hx. apply orb_true_iff in Hx. destruct Hx as [Hx|Hx]; [exact Hx|]. apply N.eqb_eq in Hx. congruence. }
  assert (EQ : s_nodes st3 = s_nodes st ++ [mk co p; mk (Input ti) d; mk (Output []) d]) by (rewrite E3, E2, E1, <- !app_assoc; reflexivity).
  split; [exact I3|]. split; [eapply Ext_trans; [exact X1|eapply Ext_trans; eauto]|]. split; [|split; [reflexivity|exact EQ]].
  split; cbn [b_parent b_out mkb].
  - unfold s_len at 1. rewrite EQ, lenN_app. fold (s_len st). fold d. unfold lenN. cbn [length]. lia.
  - eapply kindp_new; [exact E3|reflexivity].
Qed.

(* ------------------------------------------------------------------ the builders' steps, no node exempt before and after *)
Lemma dfparent_nio co : is_dfparent co = true -> nio co = true. Proof. now destruct co. Qed.

(* a container under any node whose check holds *)
Lemma FB_container ex st p co ti st1 d st3 io :
  add_node st co p = Ok (st1, d) -> init_io st1 d ti = Ok (st3, io) -> is_dfparent co = true -> FB ex st ->
  FB ex st3 /\ Ext st st3 /\ BIn st3 io.
Proof.
  intros A I Hdf F. destruct (init_io_inv _ _ _ _ _ I) as (st2 & i & o & A1 & A2 & ->).
  destruct (FB_triple ex ex _ _ _ _ _ _ _ _ _ _ A A1 A2 F Hdf) as (F3 & X3 & B3 & _); auto.
  intros pn Hp. destruct (ex p) eqn:Ep; [now left|right]. intros Hc. apply fs_check_snoc_any; auto. now apply dfparent_nio.
Qed.

Lemma FB_make_cases others : forall rows st c st' bs ex,
  make_cases st c rows others = Ok (st', bs) -> FB ex st -> kindp is_cond (s_nodes st) c -> (forall i, ex i = true -> i = c) ->
  FB (match rows with [] => ex | _ => none end) st' /\ Ext st st' /\ (forall cb f, In (cb, f) bs -> BIn st' cb) /\ (rows = [] -> bs = []).
Proof.
  induction rows as [|r rest IH]; intros st c st' bs ex H F K Hex; cbn [make_cases] in H.
  - inversion H; subst. split; [exact F|]. split; [apply Ext_refl|]. split; [intros cb f []|reflexivity].
  - bd H. destruct v as [st1 n]. cbn [fst snd] in H. bd H. destruct v as [st3 io]. cbn [fst snd] in H.
    bd H. destruct v as [st4 bs4]. cbn [fst snd] in H. inversion H; subst; clear H.
    destruct (init_io_inv _ _ _ _ _ E0) as (st2 & i & o & A1 & A2 & ->).
    destruct (kindp_cond_op _ _ K) as (pc & Hpc & Hc).
    destruct (FB_triple ex none _ _ _ _ _ _ _ _ _ _ E A1 A2 F eq_refl) as (F3 & X3 & B3 & _).
    { intros pn Hp. right. intros _. rewrite Hpc in Hp. inversion Hp; subst pn. now apply fs_check_snoc_cond. }
    { intros j Hj _ Hx. elim Hj. now apply Hex. }
    destruct (IH _ _ _ _ none E1 F3 (kindp_Ext _ _ _ _ X3 K)) as (F4 & X4 & B4 & _); [intros j Q; discriminate Q|].
    split; [destruct rest; exact F4|]. split; [eapply Ext_trans; eauto|]. split; [|intros Q; discriminate Q].
    intros cb f [Hin|Hin]; [inversion Hin; subst; eapply BIn_ext; eauto|eauto].
Qed.

Section FS3.
  Variable tys : list tyinfo.
  Variable sigs : list sinfo.

  Lemma FB_set_outputs3 ex cf st b ws st' : set_outputs3 tys sigs cf st b ws = Ok st' -> BIn st b -> FB ex st -> FB ex st' /\ Ext st st'.
  Proof.
    unfold set_outputs3. intros H [_ Ko] T. bd H. destruct v as [st0 ts]. cbn [fst snd] in H. bd H. rename v into st1.
    destruct (s_op st1 (b_parent b)) as [po|] eqn:Ep; [|discriminate]. bd H. rename v into po'.
    pose proof (wire_up3_nodes _ _ _ _ _ _ E) as En0.
    destruct (kindp_s_op _ _ _ (kindp_Ext _ _ _ _ (Ext_nodes _ _ En0) Ko)) as (oo & Eo & Hk).
    assert (S1 : map cnode (s_nodes st1) = map cnode (s_nodes st0)).
    { eapply set_op_sk; [exact E0|exact Eo|]. destruct oo; try discriminate Hk; reflexivity. }
    assert (S2 : map cnode (s_nodes st') = map cnode (s_nodes st1)).
    { eapply set_op_sk; [exact H|exact Ep|]. eapply set_out_types3_canon; eauto. }
    split.
    - eapply FB_sk; [exact S2|]. eapply FB_sk; [exact S1|]. eapply FB_nodes; eauto.
    - eapply Ext_trans; [apply Ext_nodes; exact En0|]. eapply Ext_trans; [apply Ext_sk; exact S1|apply Ext_sk; exact S2].
  Qed.

  (* ---------------------------------------------------------------- Cfg *)
  Record CF (st : store) (cb : cfgb) : Prop := { cf_entry : BIn st (c_entry cb); cf_exit : kindp is_exit (s_nodes st) (c_exit cb) }.
  Lemma CF_ext st st' cb : Ext st st' -> CF st cb -> CF st' cb.
  Proof. intros X [A B]. constructor; [eapply BIn_ext; eauto|eapply kindp_Ext; eauto]. Qed.

  (* Cfg._init_impl on a CFG node that has no child yet and is exempt *)
  Lemma FB_init_cfg ex st cfg ins st' cb : init_cfg st cfg ins = Ok (st', cb) -> FB ex st -> kindp is_cfg (s_nodes st) cfg ->
    ex cfg = true -> (forall i, ex i = true -> i = cfg) -> child_ops (Gn (s_nodes st)) cfg = [] ->
    FB none st' /\ Ext st st' /\ CF st' cb.
  Proof.
    unfold init_cfg. intros H F K Hc Hex Hch. bd H. destruct v as [st1 n]. cbn [fst snd] in H. bd H. destruct v as [st3 io]. cbn [fst snd] in H.
    bd H. destruct v as [st4 x]. cbn [fst snd] in H. inversion H; subst; clear H.
    destruct (init_io_inv _ _ _ _ _ E0) as (st2 & i & o & A1 & A2 & ->).
    destruct (FB_triple ex ex _ _ _ _ _ _ _ _ _ _ E A1 A2 F eq_refl) as (F3 & X3 & B3 & Hn & EQ); [intros pn _; now left|auto|].
    destruct K as (pc & Hpc & Hk). rewrite is_cfg_canon in Hk. pose proof (nthN_lt _ _ _ Hpc) as Hlt. fold (s_len st) in Hlt.
    assert (C3 : child_ops (Gn (s_nodes st3)) cfg = [Block ins [] [] 0]).
    { rewrite EQ, child_ops_app, Hch. fold (s_len st). rewrite <- Hn. cbn [index_from flat_map app]. unfold sel. cbn [fst snd mk n_parent n_op].
      rewrite N.eqb_refl. replace (n =? 0) with false by (symmetry; apply N.eqb_neq; lia).
      replace (n =? cfg) with false by (symmetry; apply N.eqb_neq; lia). rewrite !andb_false_r. reflexivity. }
    destruct (FB_add ex none _ _ _ _ _ E1 F3) as (F4 & X4 & -> & E4 & _).
    { intros pn Hp. right. intros _. rewrite EQ, (nthN_app1 _ _ _ _ Hpc) in Hp. inversion Hp; subst pn. rewrite C3. cbn [app].
      destruct (n_op pc); try discriminate Hk. reflexivity. }
    { right. reflexivity. }
    { intros j Hj _ Hx. elim Hj. now apply Hex. }
    split; [exact F4|]. split; [eapply Ext_trans; eauto|]. constructor; cbn [c_entry c_exit].
    - eapply BIn_ext; eauto.
    - eapply kindp_new; [exact E4|reflexivity].
  Qed.

  Lemma FB_branch_exit ex st cb cs p st' cs' : branch_exit st cb cs p = Ok (st', cs') -> CF st cb -> FB ex st -> FB ex st' /\ Ext st st'.
  Proof.
    unfold branch_exit. intros H CKb T. bd H. rename v into st1. bd H. rename v into rows.
    pose proof (proj1 (add_link_ok _ _ _ _ _ _ E)) as En1.
    destruct (cs_outs cs) as [o|]; [destruct (row_eqb o rows); inversion H; subst; split; [eapply FB_nodes; eauto|now apply Ext_nodes]|].
    bd H. rename v into st2. destruct (s_op st2 (c_node cb)) as [[]|] eqn:Ec; try discriminate. bd H. inversion H; subst; clear H.
    destruct (kindp_s_op _ _ _ (kindp_Ext _ _ _ _ (Ext_nodes _ _ En1) (cf_exit _ _ CKb))) as (oo & Eo & Hk).
    assert (S1 : map cnode (s_nodes st2) = map cnode (s_nodes st1)).
    { eapply set_op_sk; [exact E1|exact Eo|]. destruct oo; try discriminate Hk; reflexivity. }
    assert (S2 : map cnode (s_nodes st') = map cnode (s_nodes st2)).
    { eapply set_op_sk; [exact E2|exact Ec|reflexivity]. }
    split.
    - eapply FB_sk; [exact S2|]. eapply FB_sk; [exact S1|]. eapply FB_nodes; eauto.
    - eapply Ext_trans; [apply Ext_nodes; exact En1|]. eapply Ext_trans; [apply Ext_sk; exact S1|apply Ext_sk; exact S2].
  Qed.
  Lemma FB_do_branches ex : forall l st e cb cs st' cs', do_branches st e cb cs l = Ok (st', cs') -> CF st cb -> FB ex st -> FB ex st' /\ Ext st st'.
  Proof.
    induction l as [|br r IH]; intros st e cb cs st' cs' H CKb T; cbn [do_branches] in H; [inversion H; subst; split; [exact T|apply Ext_refl]|].
    bd H. destruct v as [st1 cs1]. cbn [fst snd] in H.
    assert (X : FB ex st1 /\ Ext st st1).
    { unfold do_branch in E. bd E. rename v into p. destruct (snd br) as [s|]; [|eapply FB_branch_exit; eauto].
      destruct (lookup (e_stmts (e_env e)) s) as [n|] eqn:En; [|discriminate].
      destruct (n =? c_exit cb); [eapply FB_branch_exit; eauto|]. bd E. inversion E; subst.
      pose proof (proj1 (add_link_ok _ _ _ _ _ _ E1)) as En1. split; [eapply FB_nodes; eauto|now apply Ext_nodes]. }
    destruct X as [T1 X1]. destruct (IH _ _ _ _ _ _ H (CF_ext _ _ _ X1 CKb) T1) as [T2 X2]. split; [exact T2|eapply Ext_trans; eauto].
  Qed.

  (* ---------------------------------------------------------------- Module *)
  Lemma FB_add_consts : forall vs st e st' e', add_consts vs st e = Ok (st', e') -> FB none st -> FB none st' /\ Ext st st'.
  Proof.
    induction vs as [|v r IH]; intros st e st' e' H T; cbn [add_consts] in H; [inversion H; subst; split; [exact T|apply Ext_refl]|].
    bd H. destruct v0 as [st1 n]. cbn [fst snd] in H.
    destruct (FB_add_any none _ _ _ _ _ E T eq_refl (or_intror eq_refl)) as (T1 & X1 & _).
    destruct (IH _ _ _ _ H T1) as [T2 X2]. split; [exact T2|eapply Ext_trans; eauto].
  Qed.
  Lemma FB_decl_funcs : forall fs st e st' e' bs, decl_funcs sigs fs st e = Ok (st', e', bs) -> FB none st ->
    FB none st' /\ Ext st st' /\ forall b, In (Some b) bs -> BIn st' b.
  Proof.
    induction fs as [|f sg rest IH|f params ins douts body rest IH]; intros st e st' e' bs H T; cbn [decl_funcs] in H.
    - inversion H; subst. split; [exact T|]. split; [apply Ext_refl|intros b []].
    - bd H. destruct v as [st1 n]. cbn [fst snd] in H. bd H. destruct v as [[st2 e2] bs2]. inversion H; subst; clear H.
      destruct (FB_add_any none _ _ _ _ _ E T eq_refl (or_intror eq_refl)) as (T1 & X1 & _).
      destruct (IH _ _ _ _ _ E0 T1) as (T2 & X2 & F2).
      split; [exact T2|]. split; [eapply Ext_trans; eauto|]. intros b [Q|Q]; [discriminate Q|eauto].
    - bd H. rename v into o. bd H. destruct v as [st1 n]. cbn [fst snd] in H. bd H. destruct v as [st3 io]. cbn [fst snd] in H.
      bd H. destruct v as [[st4 e4] bs4]. inversion H; subst; clear H.
      destruct (new_funcdefn_is _ _ _ _ _ E) as (fa & fb & fc & ->).
      destruct (FB_container none _ _ _ _ _ _ _ _ E0 E1 eq_refl T) as (T3 & X3 & B3).
      destruct (IH _ _ _ _ _ E2 T3) as (T4 & X4 & F4).
      split; [exact T4|]. split; [eapply Ext_trans; eauto|]. intros b [Q|Q]; [inversion Q; subst; eapply BIn_ext; eauto|eauto].
  Qed.
End FS3.

(* ------------------------------------------------------------------ Hugr.insert_hugr *)
Lemma FB_insert st sti st1 parent m :
  insert_hugr st sti parent = Ok (st1, m) -> FB none st -> FB none sti -> parent < s_len st -> kindp nio (s_nodes sti) 0 ->
  FB none st1 /\ Ext st st1.
Proof.
  intros H [B C] [B' C'] Hlt (ro & Hr & Hrk). pose proof (insert_hugr_nodes _ _ _ _ _ H) as A.
  split; [|exists (map cnode (map (shiftn (s_len st) parent) (indexed (s_nodes sti)))); now rewrite A, map_app].
  rewrite nio_canon in Hrk. destruct (nthN_some_lt _ _ Hlt) as (pn & Hp).
  unfold FB. rewrite A. unfold s_len in *. set (l := s_nodes st) in *. set (inner := s_nodes sti) in *.
  assert (Er : exists rest, inner = ro :: rest).
  { destruct inner as [|r0 rest]; [discriminate Hr|]. exists rest. cbn in Hr. now inversion Hr. }
  destruct Er as (rest & Er). split.
  - unfold fsp in *. rewrite indexed_app, forallb_app. apply andb_true_iff. split.
    + rewrite forallb_forall in B. apply forallb_forall. intros [i x] Hin. specialize (B _ Hin). cbn [fst snd] in *.
      unfold none in *. cbn [orb] in *. pose proof (nthN_lt _ _ _ (in_indexed _ _ _ Hin)) as Hi.
      rewrite (child_ops_comb_old l inner parent i ro rest Er Hi). destruct (N.eqb_spec parent i) as [<-|Hne]; [|now rewrite app_nil_r].
      apply fs_check_snoc_any; auto.
    + rewrite (index_from_sh l inner parent), forallb_map. apply forallb_forall. intros [j nd] Hin. cbn [fst snd].
      unfold none in *. cbn [orb] in *. rewrite (child_ops_comb_new l inner parent pn Hp j C). unfold shiftn. cbn [mk n_op snd].
      rewrite forallb_forall in B'. exact (B' _ Hin).
  - unfold bounded in *. rewrite indexed_app, forallb_app. apply andb_true_iff. split; [exact C|].
    rewrite (index_from_sh l inner parent), forallb_map. apply forallb_forall. intros [j nd] Hin. cbn [fst snd].
    apply orb_true_iff. right. apply N.ltb_lt. unfold shiftn. cbn [fst snd mk n_parent].
    destruct (N.eqb_spec j 0) as [->|Hj]; [lia|].
    destruct (bounded_in _ _ _ C' Hin) as [?|Hlt']; [contradiction|lia].
Qed.

(* ------------------------------------------------------------------ the induction *)
Lemma FB_new o : bounded (s_nodes (new_store o)) = true. Proof. reflexivity. Qed.
Lemma nio_initial o : nio (initial_op o) = true. Proof. now destruct o. Qed.
Lemma fs_nil_initial o : fs_check (initial_op o) [] = true. Proof. now destruct o. Qed.

Section Main3.
  Variable tys : list tyinfo.
  Variable sigs : list sinfo.

  Definition F_stmt (s : stmt3) : Prop := forall cf b st e st' e',
    exec_stmt3 tys sigs s cf b st e = Ok (st', e') -> FB none st -> BIn st b -> FB none st' /\ Ext st st'.
  Definition F_region (r : region3) : Prop := forall single cf b st e st' e',
    exec_region3 tys sigs r single cf b st e = Ok (st', e') -> FB none st -> BIn st b -> FB none st' /\ Ext st st'.
  Definition F_stmts (l : stmts3) : Prop := forall cf b st e st' e',
    exec_stmts3 tys sigs l cf b st e = Ok (st', e') -> FB none st -> BIn st b -> FB none st' /\ Ext st st'.
  Definition F_cases (cs : cases3) : Prop := forall c bs cur st e st' e' bs' cur',
    exec_cases3 tys sigs cs c bs cur st e = Ok (st', e', bs', cur') -> FB none st ->
    (forall cb f, In (cb, f) bs -> BIn st cb) -> FB none st' /\ Ext st st'.
  Definition F_blocks (bl : blocks3) : Prop := forall cb ent st e st' e' ent',
    exec_blocks3 tys sigs bl cb ent st e = Ok (st', e', ent') -> FB none st -> CF st cb -> FB none st' /\ Ext st st'.
  Definition F_prog (p : prog3) : Prop := forall e st' e',
    exec_prog3 tys sigs p e = Ok (st', e') -> FB none st' /\ kindp nio (s_nodes st') 0.
  Definition F_funcs (fs : funcs3) : Prop := forall bs st e st' e',
    exec_funcs3 tys sigs fs bs st e = Ok (st', e') -> FB none st -> (forall b, In (Some b) bs -> BIn st b) -> FB none st' /\ Ext st st'.

  Lemma FB_leaf cf st p o st1 n ws st2 ts op' st' :
    add_node st o p = Ok (st1, n) -> wire_up3 cf st1 n ws = Ok (st2, ts) -> set_op st2 n op' = Ok st' ->
    canon op' = canon o -> nio o = true -> fs_check o [] = true -> FB none st -> FB none st' /\ Ext st st'.
  Proof.
    intros A Wu S Hc Hn Hf T. destruct (FB_add_any none _ _ _ _ _ A T Hn (or_intror Hf)) as (T1 & X1 & -> & En1 & _).
    pose proof (wire_up3_nodes _ _ _ _ _ _ Wu) as En2.
    assert (Eo : s_op st2 (s_len st) = Some o).
    { unfold s_op. rewrite En2, En1. unfold s_len. now rewrite nthN_len. }
    pose proof (set_op_sk _ _ _ _ _ S Eo Hc) as S3.
    split; [eapply FB_sk; [exact S3|]; eapply FB_nodes; eauto|].
    eapply Ext_trans; [exact X1|]. eapply Ext_trans; [apply Ext_nodes; exact En2|apply Ext_sk; exact S3].
  Qed.
  Lemma FB_node st p o st1 n : add_node st o p = Ok (st1, n) -> nio o = true -> fs_check o [] = true -> FB none st ->
    FB none st1 /\ Ext st st1.
  Proof. intros A Hn Hf T. destruct (FB_add_any none _ _ _ _ _ A T Hn (or_intror Hf)) as (T1 & X1 & _). auto. Qed.
  Lemma FB_link st s so d do_ st' : add_link st s so d do_ = Ok st' -> FB none st -> FB none st' /\ Ext st st'.
  Proof. intros H T. pose proof (proj1 (add_link_ok _ _ _ _ _ _ H)) as En. split; [eapply FB_nodes; eauto|now apply Ext_nodes]. Qed.
  Lemma FB_wire' ex cf st n ws st' ts : wire_up3 cf st n ws = Ok (st', ts) -> FB ex st -> FB ex st' /\ Ext st st'.
  Proof. intros H T. pose proof (wire_up3_nodes _ _ _ _ _ _ H) as En. split; [eapply FB_nodes; eauto|now apply Ext_nodes]. Qed.
  Lemma FB_wire cf st n ws st' ts : wire_up3 cf st n ws = Ok (st', ts) -> FB none st -> FB none st' /\ Ext st st'.
  Proof. intros H T. pose proof (wire_up3_nodes _ _ _ _ _ _ H) as En. split; [eapply FB_nodes; eauto|now apply Ext_nodes]. Qed.

  Lemma FB_root_io o ins st0 io : init_io (new_store o) 0 ins = Ok (st0, io) -> is_dfparent o = true ->
    FB none st0 /\ Ext (new_store o) st0 /\ BIn st0 io.
  Proof.
    intros I Hk. destruct (init_io_inv _ _ _ _ _ I) as (st2 & i & oo & A1 & A2 & ->).
    assert (F0 : FB (plus none 0) (new_store o)).
    { split; [|reflexivity]. unfold fsp. cbn. reflexivity. }
    destruct (FB_add (plus none 0) (plus none 0) _ _ _ _ _ A1 F0) as (F1 & X1 & -> & E1 & _).
    { intros pn _. now left. } { right. reflexivity. } { intros j _ _ Hx. exact Hx. }
    destruct (FB_add (plus none 0) none _ _ _ _ _ A2 F1) as (F2 & X2 & -> & E2 & _).
    { intros pn Hp. right. intros _. rewrite E1 in Hp. cbn in Hp. inversion Hp; subst pn. rewrite E1. cbn.
      unfold fs_check. cbn [mk n_op]. rewrite Hk. reflexivity. }
    { right. reflexivity. }
    { intros j Hj _ Hx. unfold plus, none in Hx. cbn [orb] in Hx. apply N.eqb_eq in Hx. congruence. }
    split; [exact F2|]. split; [eapply Ext_trans; eauto|]. split; cbn [b_parent b_out mkb].
    - unfold s_len. rewrite E2, E1. cbn. lia.
    - eapply kindp_new; [exact E2|reflexivity].
  Qed.

  Lemma exec_cases3_no_builders cs c cur st e st' e' bs' cur' :
    exec_cases3 tys sigs cs c [] cur st e = Ok (st', e', bs', cur') -> cur' = cur /\ bs' = [].
  Proof.
    destruct cs as [|i r rest]; intros H.
    - rewrite exec_cases3_KNil in H. now inversion H.
    - rewrite exec_cases3_KCons in H. unfold nthN in H. destruct (N.to_nat i); discriminate H.
  Qed.

  Lemma exec3_first_second : (forall s, F_stmt s) /\ (forall r, F_region r) /\ (forall l, F_stmts l) /\ (forall cs, F_cases cs) /\
    (forall bl, F_blocks bl) /\ (forall p, F_prog p) /\ (forall fs, F_funcs fs).
  Proof.
    apply prog3_mutind; unfold F_stmt, F_region, F_stmts, F_cases, F_blocks, F_prog, F_funcs.
    - (* UOp *)
      intros id o args rs cf b st e st' e' H T KB. rewrite exec_stmt3_UOp in H. bd H. rename v into ws. bd H. destruct v as [st1 n].
      cbn [fst snd] in H. bd H. destruct v as [st2 ts]. cbn [fst snd] in H. bd H. bd H. inversion H; subst; clear H.
      eapply FB_leaf; [exact E0|exact E1|exact E3|exact (completed_canon tys _ _ _ E2)|apply nio_initial|apply fs_nil_initial|exact T].
    - (* ULoad *)
      intros id v cp r cf b st e st' e' H T KB. rewrite exec_stmt3_ULoad in H. bd H. destruct v0 as [st1 c]. cbn [fst snd] in H.
      bd H. destruct v0 as [st2 l]. cbn [fst snd] in H. bd H. inversion H; subst; clear H.
      destruct (FB_node _ _ _ _ _ E eq_refl eq_refl T) as [T1 X1]. destruct (FB_node _ _ _ _ _ E0 eq_refl eq_refl T1) as [T2 X2].
      destruct (FB_link _ _ _ _ _ _ E1 T2) as [T3 X3]. split; [exact T3|]. eapply Ext_trans; [exact X1|eapply Ext_trans; eauto].
    - (* UNested *)
      intros id args body IH rs cf b st e st' e' H T KB. rewrite exec_stmt3_UNested in H. bd H. rename v into ws. bd H. bd H.
      destruct v0 as [st1 d]. cbn [fst snd] in H. bd H. destruct v0 as [st3 io]. cbn [fst snd] in H. bd H. destruct v0 as [st4 ts4].
      cbn [fst snd] in H. bd H. destruct v0 as [st5 e5]. cbn [fst snd] in H. inversion H; subst; clear H.
      destruct (FB_container none _ _ _ _ _ _ _ _ E1 E2 eq_refl T) as (T3 & X3 & KBi).
      destruct (FB_wire _ _ _ _ _ _ E3 T3) as [T4 X4].
      destruct (IH _ _ _ _ _ _ _ E4 T4 (BIn_ext _ _ _ X4 KBi)) as [T5 X5].
      split; [exact T5|]. eapply Ext_trans; [exact X3|eapply Ext_trans; eauto].
    - (* UOrder *)
      intros src dst cf b st e st' e' H T KB. rewrite exec_stmt3_UOrder in H. bd H. bd H. bd H. inversion H; subst; clear H.
      pose proof (proj1 (add_order_link_cases _ _ _ _ E1)) as En. split; [eapply FB_nodes; eauto|now apply Ext_nodes].
    - (* ULoop *)
      intros id just rest body IH rs cf b st e st' e' H T KB. rewrite exec_stmt3_ULoop in H. bd H. rename v into jw. bd H. rename v into rw.
      bd H. bd H. bd H. destruct v1 as [st1 d]. cbn [fst snd] in H. bd H. destruct v1 as [st3 io]. cbn [fst snd] in H.
      bd H. destruct v1 as [st4 ts4]. cbn [fst snd] in H. bd H. destruct v1 as [st5 e5]. cbn [fst snd] in H. inversion H; subst; clear H.
      destruct (FB_container none _ _ _ _ _ _ _ _ E3 E4 eq_refl T) as (T3 & X3 & KBi).
      destruct (FB_wire _ _ _ _ _ _ E5 T3) as [T4 X4].
      destruct (IH _ _ _ _ _ _ _ E6 T4 (BIn_ext _ _ _ X4 KBi)) as [T5 X5].
      split; [exact T5|]. eapply Ext_trans; [exact X3|eapply Ext_trans; eauto].
    - (* UCond *)
      intros id cond args cs IH rs cf b st e st' e' H T KB. rewrite exec_stmt3_UCond in H. bd H. rename v into cw. bd H. rename v into ws.
      bd H. destruct v as [|t others]; [discriminate|]. destruct (nthN tys t) as [[cp rows| |]|]; try discriminate.
      bd H. destruct v as [st1 c]. cbn [fst snd] in H. bd H. destruct v as [st2 bs]. cbn [fst snd] in H. bd H. destruct v as [st3 ts3].
      cbn [fst snd] in H. bd H. destruct v as [[[st4 e4] bs'] cur']. destruct (cases_done bs' cur') eqn:Hd; [|discriminate]. inversion H; subst; clear H.
      destruct (FB_add none (plus none (s_len st)) _ _ _ _ _ E2 T) as (T1 & X1 & -> & En1 & _).
      { intros pn Hp. right. intros Hc. apply fs_check_snoc_any; [reflexivity|now apply Hc]. }
      { left. unfold plus. now rewrite N.eqb_refl, orb_true_r. }
      { intros j _ _ Q. discriminate Q. }
      destruct (FB_make_cases _ _ _ _ _ _ _ E3 T1 (kindp_new is_cond _ _ _ _ En1 eq_refl)) as (T2 & X2 & F2 & Hnil).
      { intros j Q. unfold plus, none in Q. cbn [orb] in Q. now apply N.eqb_eq in Q. }
      destruct (FB_wire' _ _ _ _ _ _ _ E4 T2) as [T3 X3].
      destruct rows as [|r0 rows'].
      { rewrite (Hnil eq_refl) in E5. destruct (exec_cases3_no_builders _ _ _ _ _ _ _ _ _ E5) as [-> ->]. discriminate Hd. }
      destruct (IH _ _ _ _ _ _ _ _ _ E5 T3 (fun cb f Hin => BIn_ext _ _ _ X3 (F2 cb f Hin))) as [T4 X4].
      split; [exact T4|]. eapply Ext_trans; [exact X1|]. eapply Ext_trans; [exact X2|eapply Ext_trans; eauto].
    - (* UInsert *)
      intros id sub IH args rs cf b st e st' e' H T KB. rewrite exec_stmt3_UInsert in H. bd H. destruct v as [sti e1]. cbn [fst snd] in H.
      bd H. rename v into ws. bd H. destruct v as [st1 m]. cbn [fst snd] in H. destruct (nthN m 0) as [r|] eqn:Er; [|discriminate].
      bd H. destruct v as [st2 ts]. cbn [fst snd] in H. inversion H; subst; clear H.
      destruct (IH _ _ _ E) as [Ti Hroot].
      destruct (FB_insert _ _ _ _ _ E1 T Ti (proj1 KB) Hroot) as [T1 X1].
      destruct (FB_wire _ _ _ _ _ _ E2 T1) as [T2 X2]. split; [exact T2|eapply Ext_trans; eauto].
    - (* UCallInd *)
      intros id args rs cf b st e st' e' H T KB. rewrite exec_stmt3_UCallInd in H. bd H. rename v into ws. bd H. destruct v as [st1 n].
      cbn [fst snd] in H. bd H. destruct v as [st2 ts]. cbn [fst snd] in H. bd H. bd H. inversion H; subst; clear H.
      eapply FB_leaf; [exact E0|exact E1|exact E3| |reflexivity|reflexivity|exact T]. rewrite (completed_callind_canon _ _ _ E2). reflexivity.
    - (* UCall *)
      intros id f args rs inst cf b st e st' e' H T KB. rewrite exec_stmt3_UCall in H. bd H. rename v into fn. bd H. rename v into ws.
      bd H. bd H. bd H. destruct v1 as [st1 n]. cbn [fst snd] in H. bd H. rename v1 into st2. bd H. destruct v1 as [st3 ts]. cbn [fst snd] in H.
      inversion H; subst; clear H.
      destruct (FB_node _ _ _ _ _ E3 eq_refl eq_refl T) as [T1 X1]. destruct (FB_link _ _ _ _ _ _ E4 T1) as [T2 X2].
      destruct (FB_wire _ _ _ _ _ _ E5 T2) as [T3 X3]. split; [exact T3|]. eapply Ext_trans; [exact X1|eapply Ext_trans; eauto].
    - (* ULoadFn *)
      intros id f r inst fnty cf b st e st' e' H T KB. rewrite exec_stmt3_ULoadFn in H. bd H. rename v into fn. bd H. bd H.
      bd H. destruct v1 as [st1 n]. cbn [fst snd] in H. bd H. inversion H; subst; clear H.
      destruct (FB_node _ _ _ _ _ E2 eq_refl eq_refl T) as [T1 X1]. destruct (FB_link _ _ _ _ _ _ E3 T1) as [T2 X2].
      split; [exact T2|eapply Ext_trans; eauto].
    - (* ULoadC *)
      intros id c r cf b st e st' e' H T KB. rewrite exec_stmt3_ULoadC in H. destruct (nthN (e_consts e) c) as [cn|] eqn:Ec; [|discriminate].
      destruct (s_op st cn) as [[]|]; try discriminate. bd H. destruct v0 as [st1 l]. cbn [fst snd] in H. bd H. inversion H; subst; clear H.
      destruct (FB_node _ _ _ _ _ E eq_refl eq_refl T) as [T1 X1]. destruct (FB_link _ _ _ _ _ _ E0 T1) as [T2 X2].
      split; [exact T2|eapply Ext_trans; eauto].
    - (* ULocalFn *)
      intros id f params ins douts body IH cf b st e st' e' H T KB. rewrite exec_stmt3_ULocalFn in H. bd H. rename v into o.
      bd H. destruct v as [st1 n]. cbn [fst snd] in H. bd H. destruct v as [st3 io]. cbn [fst snd] in H. bd H. destruct v as [st5 e5].
      cbn [fst snd] in H. inversion H; subst; clear H. destruct (new_funcdefn_is _ _ _ _ _ E) as (fa & fb & fc & ->).
      destruct (FB_container none _ _ _ _ _ _ _ _ E0 E1 eq_refl T) as (T3 & X3 & KBi).
      destruct (IH _ _ _ _ _ _ _ E2 T3 KBi) as [T5 X5].
      split; [exact T5|eapply Ext_trans; eauto].
    - (* UCfg *)
      intros id args blocks IH branches rs cf b st e st' e' H T KB. rewrite exec_stmt3_UCfg in H. bd H. rename v into ws. bd H.
      bd H. destruct v0 as [st1 c]. cbn [fst snd] in H. bd H. destruct v0 as [st2 cb]. cbn [fst snd] in H. bd H. destruct v0 as [st3 ts3].
      cbn [fst snd] in H. bd H. destruct v0 as [[st4 e4] ent]. bd H. destruct v0 as [st5 cs5]. cbn [fst snd] in H.
      destruct (cfg_done cs5); [|discriminate]. inversion H; subst; clear H.
      destruct (FB_add none (plus none (s_len st)) _ _ _ _ _ E1 T) as (T1 & X1 & -> & En1 & Lp).
      { intros pn Hp. right. intros Hc. apply fs_check_snoc_any; [reflexivity|now apply Hc]. }
      { left. unfold plus. now rewrite N.eqb_refl, orb_true_r. }
      { intros j _ _ Q. discriminate Q. }
      destruct (FB_init_cfg _ _ _ _ _ _ E2 T1 (kindp_new is_cfg _ _ _ _ En1 eq_refl)) as (T2 & X2 & CK2).
      { unfold plus. now rewrite N.eqb_refl, orb_true_r. }
      { intros j Q. unfold plus, none in Q. cbn [orb] in Q. now apply N.eqb_eq in Q. }
      { rewrite En1. apply child_ops_new; [exact (proj2 T)|exact Lp]. }
      destruct (FB_wire _ _ _ _ _ _ E3 T2) as [T3 X3].
      destruct (IH _ _ _ _ _ _ _ E4 T3 (CF_ext _ _ _ X3 CK2)) as [T4 X4].
      destruct (FB_do_branches none _ _ _ _ _ _ _ E5 (CF_ext _ _ _ (Ext_trans _ _ _ X3 X4) CK2) T4) as [T5 X5].
      split; [exact T5|]. eapply Ext_trans; [exact X1|]. eapply Ext_trans; [exact X2|]. eapply Ext_trans; [exact X3|eapply Ext_trans; eauto].
    - (* Rg *)
      intros ins body IH outs single cf b st e st' e' H T KB. rewrite exec_region3_Rg in H. bd H. destruct v as [st1 e1]. cbn [fst snd] in H.
      bd H. rename v into ws. destruct (IH _ _ _ _ _ _ E T KB) as [T1 X1]. pose proof (BIn_ext _ _ _ X1 KB) as KB1.
      destruct single.
      + bd H. bd H. destruct v0 as [st2 c]. cbn [fst snd] in H. bd H. destruct v0 as [st3 l]. cbn [fst snd] in H. bd H. bd H.
        inversion H; subst; clear H.
        destruct (FB_node _ _ _ _ _ E2 eq_refl eq_refl T1) as [T2 X2]. destruct (FB_node _ _ _ _ _ E3 eq_refl eq_refl T2) as [T3 X3].
        destruct (FB_link _ _ _ _ _ _ E4 T3) as [T4 X4]. pose proof (Ext_trans _ _ _ X2 (Ext_trans _ _ _ X3 X4)) as X14.
        destruct (FB_set_outputs3 _ _ none _ _ _ _ _ E5 (BIn_ext _ _ _ X14 KB1) T4) as [T5 X5].
        split; [exact T5|]. eapply Ext_trans; [exact X1|eapply Ext_trans; eauto].
      + bd H. inversion H; subst; clear H. destruct (FB_set_outputs3 _ _ none _ _ _ _ _ E1 KB1 T1) as [T5 X5].
        split; [exact T5|eapply Ext_trans; eauto].
    - (* UNil *)
      intros cf b st e st' e' H T KB. rewrite exec_stmts3_UNil in H. inversion H; subst. split; [exact T|apply Ext_refl].
    - (* UCons *)
      intros s IHs r IHr cf b st e st' e' H T KB. rewrite exec_stmts3_UCons in H. bd H. destruct v as [st1 e1]. cbn [fst snd] in H.
      destruct (IHs _ _ _ _ _ _ E T KB) as [T1 X1].
      destruct (IHr _ _ _ _ _ _ H T1 (BIn_ext _ _ _ X1 KB)) as [T2 X2].
      split; [exact T2|eapply Ext_trans; eauto].
    - (* KNil *)
      intros c bs cur st e st' e' bs' cur' H T F. rewrite exec_cases3_KNil in H. inversion H; subst. split; [exact T|apply Ext_refl].
    - (* KCons *)
      intros i r IHr rest IHrest c bs cur st e st' e' bs' cur' H T F. rewrite exec_cases3_KCons in H.
      destruct (nthN bs i) as [[cb [|]]|] eqn:Eb; try discriminate. bd H. destruct v as [st1 e1]. cbn [fst snd] in H. bd H. bd H.
      destruct v0 as [st2 cur2]. cbn [fst snd] in H.
      destruct (IHr _ _ _ _ _ _ _ E T (F _ _ (nthN_In _ _ _ Eb))) as [T1 X1].
      pose proof (update_outputs_same _ _ _ _ _ _ E1) as S2. pose proof (Ext_trans _ _ _ X1 (Same_Ext _ _ S2)) as X02.
      destruct (IHrest _ _ _ _ _ _ _ _ _ H (FB_sk _ _ _ (proj1 S2) T1)) as [T3 X3].
      + intros cb' f Hin. apply in_set_nth in Hin. eapply BIn_ext; [exact X02|].
        destruct Hin as [Hin|Hin]; [inversion Hin; subst; exact (F _ _ (nthN_In _ _ _ Eb))|eauto].
      + split; [exact T3|eapply Ext_trans; eauto].
    - (* BNil *)
      intros cb ent st e st' e' ent' H T CKb. rewrite exec_blocks3_BNil in H. inversion H; subst. split; [exact T|apply Ext_refl].
    - (* BCons *)
      intros id k body IHb single bw rest IHrest cb ent st e st' e' ent' H T CKb. rewrite exec_blocks3_BCons in H.
      bd H. destruct v as [st1 bb]. cbn [fst snd] in H. bd H. destruct v as [st2 e2]. cbn [fst snd] in H.
      assert (X : FB none st1 /\ Ext st st1 /\ BIn st1 bb).
      { destruct k as [|ins|pred].
        - inversion E; subst. split; [exact T|]. split; [apply Ext_refl|exact (cf_entry _ _ CKb)].
        - bd E. destruct v as [sta n]. cbn [fst snd] in E. eapply FB_container; eauto.
        - bd E. rename v into p. bd E. bd E. destruct v0 as [sta n]. cbn [fst snd] in E. bd E. destruct v0 as [stb io]. cbn [fst snd] in E.
          bd E. inversion E; subst; clear E. destruct (FB_container none _ _ _ _ _ _ _ _ E3 E4 eq_refl T) as (T3 & X3 & KBb).
          destruct (FB_link _ _ _ _ _ _ E5 T3) as [T4 X4]. split; [exact T4|]. split; [eapply Ext_trans; eauto|eapply BIn_ext; eauto]. }
      destruct X as (T1 & X1 & KBb).
      destruct (IHb _ _ _ _ _ _ _ E0 T1 KBb) as [T2 X2]. pose proof (Ext_trans _ _ _ X1 X2) as X02.
      destruct (IHrest _ _ _ _ _ _ _ H T2 (CF_ext _ _ _ X02 CKb)) as [T3 X3].
      split; [exact T3|eapply Ext_trans; eauto].
    - (* RDfg *)
      intros ins body IH e st' e' H. rewrite exec_prog3_RDfg in H. bd H. destruct v as [st0 io]. cbn [fst snd] in H.
      destruct (FB_root_io _ _ _ _ E eq_refl) as (T0 & X0 & KB0). destruct (IH _ _ _ _ _ _ _ H T0 KB0) as [T1 X1].
      split; [exact T1|]. eapply kindp_Ext; [exact (Ext_trans _ _ _ X0 X1)|]. exact (kindp_root_new nio (DFG ins []) eq_refl).
    - (* RLoop *)
      intros just rest body IH e st' e' H. rewrite exec_prog3_RLoop in H. bd H. destruct v as [st0 io]. cbn [fst snd] in H.
      destruct (FB_root_io _ _ _ _ E eq_refl) as (T0 & X0 & KB0). destruct (IH _ _ _ _ _ _ _ H T0 KB0) as [T1 X1].
      split; [exact T1|]. eapply kindp_Ext; [exact (Ext_trans _ _ _ X0 X1)|]. exact (kindp_root_new nio (TailLoop (just ++ rest) [] [] (lenN just)) eq_refl).
    - (* RCond *)
      intros rows others sumty cs IH e st' e' H. rewrite exec_prog3_RCond in H. bd H. destruct v as [st1 bs]. cbn [fst snd] in H.
      bd H. destruct v as [[[st4 e4] bs'] cur']. destruct (cases_done bs' cur') eqn:Hd; [|discriminate]. inversion H; subst; clear H.
      assert (F0 : FB (plus none 0) (new_store (Conditional rows others [] sumty))) by (split; reflexivity).
      destruct (FB_make_cases _ _ _ _ _ _ _ E F0 (kindp_root_new is_cond (Conditional rows others [] sumty) eq_refl)) as (T1 & X1 & F1 & Hnil).
      { intros j Q. unfold plus, none in Q. cbn [orb] in Q. now apply N.eqb_eq in Q. }
      destruct rows as [|r0 rows'].
      { rewrite (Hnil eq_refl) in E0. destruct (exec_cases3_no_builders _ _ _ _ _ _ _ _ _ E0) as [-> ->]. discriminate Hd. }
      destruct (IH _ _ _ _ _ _ _ _ _ E0 T1 F1) as [T2 X2].
      split; [exact T2|]. eapply kindp_Ext; [exact (Ext_trans _ _ _ X1 X2)|]. exact (kindp_root_new nio (Conditional (r0 :: rows') others [] sumty) eq_refl).
    - (* RFunc *)
      intros params ins douts body IH e st' e' H. rewrite exec_prog3_RFunc in H. bd H. bd H. destruct v0 as [st0 io]. cbn [fst snd] in H.
      destruct (new_funcdefn_is _ _ _ _ _ E) as (fa & fb & fc & ->).
      destruct (FB_root_io _ _ _ _ E0 eq_refl) as (T0 & X0 & KB0). destruct (IH _ _ _ _ _ _ _ H T0 KB0) as [T1 X1].
      split; [exact T1|]. eapply kindp_Ext; [exact (Ext_trans _ _ _ X0 X1)|]. exact (kindp_root_new nio (FuncDefn fa fb fc) eq_refl).
    - (* RCfg *)
      intros ins blocks IH branches e st' e' H. rewrite exec_prog3_RCfg in H. bd H. destruct v as [st1 cb]. cbn [fst snd] in H.
      bd H. destruct v as [[st2 e2] ent]. bd H. destruct v as [st3 cs3]. cbn [fst snd] in H. destruct (cfg_done cs3); [|discriminate].
      inversion H; subst; clear H.
      assert (F0 : FB (plus none 0) (new_store (CFG ins []))) by (split; reflexivity).
      destruct (FB_init_cfg _ _ _ _ _ _ E F0 (kindp_root_new is_cfg (CFG ins []) eq_refl)) as (T1 & X1 & CK1); [reflexivity| |reflexivity|].
      { intros j Q. unfold plus, none in Q. cbn [orb] in Q. now apply N.eqb_eq in Q. }
      destruct (IH _ _ _ _ _ _ _ E0 T1 CK1) as [T2 X2].
      destruct (FB_do_branches none _ _ _ _ _ _ _ E1 (CF_ext _ _ _ X2 CK1) T2) as [T3 X3].
      split; [exact T3|]. eapply kindp_Ext; [exact (Ext_trans _ _ _ X1 (Ext_trans _ _ _ X2 X3))|]. exact (kindp_root_new nio (CFG ins []) eq_refl).
    - (* RModule *)
      intros consts funcs IH e st' e' H. rewrite exec_prog3_RModule in H. bd H. destruct v as [st1 e1]. cbn [fst snd] in H.
      bd H. destruct v as [[st2 e2] bs].
      assert (F0 : FB none (new_store Module)) by (split; reflexivity).
      destruct (FB_add_consts _ _ _ _ _ E F0) as [T1 X1].
      destruct (FB_decl_funcs _ _ _ _ _ _ _ E0 T1) as (T2 & X2 & F2).
      destruct (IH _ _ _ _ _ H T2 F2) as [T3 X3].
      split; [exact T3|]. eapply kindp_Ext; [exact (Ext_trans _ _ _ X1 (Ext_trans _ _ _ X2 X3))|]. exact (kindp_root_new nio Module eq_refl).
    - (* FNil *)
      intros bs st e st' e' H T F. rewrite exec_funcs3_FNil in H. inversion H; subst. split; [exact T|apply Ext_refl].
    - (* FDecl *)
      intros f sg rest IH bs st e st' e' H T F. destruct bs as [|b0 bs]; [discriminate H|]. rewrite exec_funcs3_FDecl in H.
      eapply IH; eauto. intros b Hb. apply F. now right.
    - (* FDefn *)
      intros f params ins douts body IHb rest IH bs st e st' e' H T F. destruct bs as [|[b0|] bs]; try discriminate H.
      rewrite exec_funcs3_FDefn in H. bd H. destruct v as [st1 e1]. cbn [fst snd] in H.
      destruct (IHb _ _ _ _ _ _ _ E T (F _ (or_introl eq_refl))) as [T1 X1].
      destruct (IH _ _ _ _ _ H T1) as [T2 X2].
      + intros b Hb. eapply BIn_ext; [exact X1|]. apply F. now right.
      + split; [exact T2|eapply Ext_trans; eauto].
  Qed.
End Main3.

(* ------------------------------------------------------------------ the theorems *)
Theorem run3_first_second tys sigs p g : run3 tys sigs p = Ok g -> r_first_second g = true.
Proof.
  unfold run3. intros H. bd H. destruct v as [st e1]. cbn [fst] in H. inversion H; subst; clear H.
  destruct (exec3_first_second tys sigs) as (_ & _ & _ & _ & _ & HP & _). rewrite fs_to_serial, <- fsp_none.
  exact (proj1 (proj1 (HP p _ _ _ E))).
Qed.
(* also for the sub-programs of function-valued constants *)
Theorem run3s_first_second tys sigs p subs g gs : run3s tys sigs p subs = Ok (g, gs) ->
  r_first_second g = true /\ forall x, In x gs -> r_first_second x = true.
Proof.
  unfold run3s. intros H. bd H. rename v into g0. bd H. rename v into gs0. inversion H; subst; clear H.
  split; [eapply run3_first_second; eauto|]. clear E. revert gs E0. induction subs as [|q r IH]; intros gs H; cbn [run3_list] in H.
  - inversion H; subst. intros x [].
  - bd H. bd H. inversion H; subst. intros x [<-|Hx]; [eapply run3_first_second; eauto|eauto].
Qed.

(* the structural rules together *)
Theorem run3_structural tys sigs p g : run3 tys sigs p = Ok g -> croot3 p = true ->
  r_index g = true /\ r_child_tags g = true /\ r_first_second g = true /\ r_root_no_edges g = true.
Proof.
  intros H C. destruct (run3_index_root _ _ _ _ H) as [A B]. split; [exact A|]. split; [eapply run3_child_tags; eauto|].
  split; [eapply run3_first_second; eauto|exact B].
Qed.
