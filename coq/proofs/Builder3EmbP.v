(* C01 (fourth pass) — model/Builder3.v is conservative over model/Builder2.v: the embedding `emb2` of the second language
   into the third runs to the same result, run3 tys sigs (emb2 p) = run2 tys p, for every program, every type table and
   every signature table.  Hence every theorem of props/C01.v about `run2` (and, through run2_emb, about `run`) transfers
   to `run3` on embedded programs.

   The interpreters differ in (1) the environment (the third one also carries the function / constant dictionaries: they
   are not touched by embedded programs), (2) the wiring of a Block builder (never the case here: cf = None), (3)
   set_outputs, which dispatches _set_out_types also on FuncDefn and DataflowBlock: embedded programs never create those
   operations (ModelOps2, kept by every step of the second interpreter). *)
From Coq Require Import NArith List Bool Arith Lia.
Import ListNotations.
From HV Require Import lib.Harness model.Validity model.Builder model.Builder2 model.Builder3 spec.BuilderS
  proofs.BuilderP proofs.BuilderExtP proofs.BuilderFrameP proofs.Builder2UnfoldP proofs.Builder2InvP proofs.Builder2P
  spec.Builder2WFS proofs.Builder2FrameP proofs.Builder3UnfoldP.
Local Open Scope N_scope.

Definition mk3 (e : env) (fs : list (fname * N)) (cs : list N) : env3 := {| e_env := e; e_funcs := fs; e_consts := cs |}.
Definition lift3 (fs : list (fname * N)) (cs : list N) (r : res (store * env)) : res (store * env3) :=
  match r with Ok x => Ok (fst x, mk3 (snd x) fs cs) | Err x => Err x end.
Definition lift3c (fs : list (fname * N)) (cs : list N) (r : res (store * env * list (dfb * bool) * option row))
  : res (store * env3 * list (dfb * bool) * option row) :=
  match r with Ok (st, e, bs, cur) => Ok (st, mk3 e fs cs, bs, cur) | Err x => Err x end.

(* ------------------------------------------------------------------ only operations of the second model *)
Lemma MO_nodes st st' : s_nodes st' = s_nodes st -> ModelOps2 (s_nodes st) -> ModelOps2 (s_nodes st').
Proof. now intros ->. Qed.
Lemma MO_add_node st o p st' n : add_node st o p = Ok (st', n) -> model_op2 o = true -> ModelOps2 (s_nodes st) -> ModelOps2 (s_nodes st').
Proof.
  intros H Ho M. apply add_node_ok in H. destruct H as (_ & _ & En & _). rewrite En. apply ModelOps2_app; [exact M|].
  unfold ModelOps2. cbn. now rewrite Ho.
Qed.
Lemma MO_set_op st n o st' : set_op st n o = Ok st' -> model_op2 o = true -> ModelOps2 (s_nodes st) -> ModelOps2 (s_nodes st').
Proof. intros H Ho M. destruct (set_op_ok _ _ _ _ H) as (nd & _ & En & _). rewrite En. now apply ModelOps2_set. Qed.
Lemma MO_add_link st s so d do_ st' : add_link st s so d do_ = Ok st' -> ModelOps2 (s_nodes st) -> ModelOps2 (s_nodes st').
Proof. intros H. apply add_link_ok in H. apply MO_nodes. exact (proj1 H). Qed.
Lemma MO_wire_up st node ws st' ts : wire_up st node ws = Ok (st', ts) -> ModelOps2 (s_nodes st) -> ModelOps2 (s_nodes st').
Proof. intros H. apply wire_up_spec in H. apply MO_nodes. exact (proj1 H). Qed.
Lemma MO_order st a c st' : add_order_link st a c = Ok st' -> ModelOps2 (s_nodes st) -> ModelOps2 (s_nodes st').
Proof. intros H. apply MO_nodes. exact (proj1 (add_order_link_cases _ _ _ _ H)). Qed.
Lemma MO_init_io st p ins st' b : init_io st p ins = Ok (st', b) -> ModelOps2 (s_nodes st) -> ModelOps2 (s_nodes st').
Proof.
  intros H M. destruct (init_io_inv _ _ _ _ _ H) as (st1 & i & o & A1 & A2 & _).
  eapply MO_add_node; [exact A2|reflexivity|]. eapply MO_add_node; [exact A1|reflexivity|exact M].
Qed.
Lemma MO_make_cases others : forall rows st c st' bs, make_cases st c rows others = Ok (st', bs) ->
  ModelOps2 (s_nodes st) -> ModelOps2 (s_nodes st').
Proof.
  intros rows st c st' bs H M. destruct (make_cases_spec _ _ _ _ _ _ H) as (En & _). rewrite En.
  apply ModelOps2_app; [exact M|apply case_blocks_model].
Qed.
Lemma MO_insert_nodes parent : forall l st m i st' m', insert_nodes st parent m l i = Ok (st', m') ->
  ModelOps2 (s_nodes st) -> ModelOps2 l -> ModelOps2 (s_nodes st').
Proof.
  induction l as [|nd r IH]; intros st m i st' m' H M Ml; cbn [insert_nodes] in H; [inversion H; subst; exact M|].
  unfold ModelOps2 in Ml. cbn [forallb] in Ml. apply andb_true_iff in Ml. destruct Ml as [Mn Mr].
  bd H. bd H. destruct v0 as [st1 n1]. cbn [fst snd] in H. eapply IH; [exact H| |exact Mr]. eapply MO_add_node; eauto.
Qed.
Lemma MO_insert_links : forall l st m st', insert_links st m l = Ok st' -> ModelOps2 (s_nodes st) -> ModelOps2 (s_nodes st').
Proof.
  induction l as [|e r IH]; intros st m st' H M; cbn [insert_links] in H; [inversion H; subst; exact M|].
  destruct (nthN m (e_src e)); [|discriminate]. destruct (nthN m (e_dst e)); [|discriminate]. bd H.
  eapply IH; [exact H|]. eapply MO_add_link; eauto.
Qed.
Lemma MO_insert_hugr st inner parent st' m : insert_hugr st inner parent = Ok (st', m) ->
  ModelOps2 (s_nodes st) -> ModelOps2 (s_nodes inner) -> ModelOps2 (s_nodes st').
Proof.
  intros H M Mi. destruct (insert_hugr_inv _ _ _ _ _ H) as (st1 & E1 & E2).
  eapply MO_insert_links; [exact E2|]. eapply MO_insert_nodes; eauto.
Qed.
Lemma set_out_types2_model tys po ts po' : set_out_types2 tys po ts = Ok po' -> model_op2 po = true -> model_op2 po' = true.
Proof.
  intros H M. pose proof (set_out_types2_canon _ _ _ _ H) as C. now rewrite <- model_op2_canon, C, model_op2_canon.
Qed.
Lemma s_op_model st n o : ModelOps2 (s_nodes st) -> s_op st n = Some o -> model_op2 o = true.
Proof.
  intros M H. unfold s_op in H. destruct (nthN (s_nodes st) n) as [nd|] eqn:E; [|discriminate]. inversion H; subst.
  exact (forallb_nthN _ _ _ _ M E).
Qed.
Lemma MO_set_outputs2 tys st b ws st' : set_outputs2 tys st b ws = Ok st' -> ModelOps2 (s_nodes st) -> ModelOps2 (s_nodes st').
Proof.
  intros H M. destruct (set_outputs2_inv _ _ _ _ _ H) as (st0 & ts & st1 & po & po' & E0 & E1 & E2 & E3 & E4).
  pose proof (MO_wire_up _ _ _ _ _ E0 M) as M0. pose proof (MO_set_op _ _ _ _ E1 eq_refl M0) as M1.
  eapply MO_set_op; [exact E4| |exact M1]. eapply set_out_types2_model; [exact E3|]. eapply s_op_model; eauto.
Qed.
Lemma MO_update_outputs st c cur ts st' cur' : update_outputs st c cur ts = Ok (st', cur') -> ModelOps2 (s_nodes st) -> ModelOps2 (s_nodes st').
Proof.
  intros H M. destruct (update_outputs_inv _ _ _ _ _ _ H) as [(_ & _ & rows & others & o & s & _ & Es)|(_ & _ & ->)]; [|exact M].
  eapply MO_set_op; [exact Es|reflexivity|exact M].
Qed.

Section Emb3.
  Variable tys : list tyinfo.
  Variable sigs : list sinfo.

  Lemma set_out_types3_model o outs : model_op2 o = true -> set_out_types3 tys sigs o outs = set_out_types2 tys o outs.
  Proof. destruct o; try discriminate; reflexivity. Qed.
  Lemma set_outputs3_model st b ws : ModelOps2 (s_nodes st) -> set_outputs3 tys sigs None st b ws = set_outputs2 tys st b ws.
  Proof.
    intros M. unfold set_outputs3, set_outputs2. cbn [wire_up3].
    destruct (wire_up st (b_out b) ws) as [[st0 ts]|] eqn:E; cbn [bind fst snd]; [|reflexivity].
    destruct (set_op st0 (b_out b) (Output ts)) as [st1|] eqn:E0; cbn [bind]; [|reflexivity].
    destruct (s_op st1 (b_parent b)) as [po|] eqn:E1; [|reflexivity].
    rewrite set_out_types3_model; [reflexivity|]. eapply s_op_model; [|exact E1].
    eapply MO_set_op; [exact E0|reflexivity|]. eapply MO_wire_up; eauto.
  Qed.

  Definition E_stmt (s : stmt2) : Prop := forall b st e fs cs, ModelOps2 (s_nodes st) ->
    exec_stmt3 tys sigs (emb2_stmt s) None b st (mk3 e fs cs) = lift3 fs cs (exec_stmt2 tys s b st e) /\
    (forall st' e', exec_stmt2 tys s b st e = Ok (st', e') -> ModelOps2 (s_nodes st')).
  Definition E_region (r : region2) : Prop := forall b st e fs cs, ModelOps2 (s_nodes st) ->
    exec_region3 tys sigs (emb2_region r) false None b st (mk3 e fs cs) = lift3 fs cs (exec_region2 tys r b st e) /\
    (forall st' e', exec_region2 tys r b st e = Ok (st', e') -> ModelOps2 (s_nodes st')).
  Definition E_stmts (l : stmts2) : Prop := forall b st e fs cs, ModelOps2 (s_nodes st) ->
    exec_stmts3 tys sigs (emb2_stmts l) None b st (mk3 e fs cs) = lift3 fs cs (exec_stmts2 tys l b st e) /\
    (forall st' e', exec_stmts2 tys l b st e = Ok (st', e') -> ModelOps2 (s_nodes st')).
  Definition E_cases (cs0 : cases2) : Prop := forall c bs cur st e fs cs, ModelOps2 (s_nodes st) ->
    exec_cases3 tys sigs (emb2_cases cs0) c bs cur st (mk3 e fs cs) = lift3c fs cs (exec_cases2 tys cs0 c bs cur st e) /\
    (forall st' e' bs' cur', exec_cases2 tys cs0 c bs cur st e = Ok (st', e', bs', cur') -> ModelOps2 (s_nodes st')).
  Definition E_prog (p : prog2) : Prop := forall e fs cs,
    exec_prog3 tys sigs (emb2 p) (mk3 e fs cs) = lift3 fs cs (exec_prog2 tys p e) /\
    (forall st' e', exec_prog2 tys p e = Ok (st', e') -> ModelOps2 (s_nodes st')).

  Ltac bs H := let v := fresh "v" in let E := fresh "E" in
    match type of H with bind ?a _ = _ => destruct a as [v|] eqn:E; cbn [bind] in H; [|discriminate H] end.

  Lemma emb2_exec : (forall s, E_stmt s) /\ (forall r, E_region r) /\ (forall l, E_stmts l) /\ (forall cs, E_cases cs) /\ (forall p, E_prog p).
  Proof.
    apply prog2_mutind; unfold E_stmt, E_region, E_stmts, E_cases, E_prog.
    - (* TOp *)
      intros id o args rs b st e fs cs M. cbn [emb2_stmt]. rewrite exec_stmt3_UOp, exec_stmt2_TOp. cbn [e_env mk3 wire_up3]. split.
      + destruct (get_wires e args) as [ws|]; cbn [bind lift3]; [|reflexivity].
        destruct (add_node st (initial_op o) (b_parent b)) as [[st1 n]|]; cbn [bind fst snd lift3]; [|reflexivity].
        destruct (wire_up st1 n ws) as [[st2 ts]|]; cbn [bind fst snd lift3]; [|reflexivity].
        destruct (completed_op tys o ts) as [op'|]; cbn [bind lift3]; [|reflexivity].
        destruct (set_op st2 n op') as [st3|]; cbn [bind lift3]; reflexivity.
      + intros st' e' H. bs H. bs H. destruct v0 as [st1 n]. cbn [fst snd] in *. bs H. destruct v0 as [st2 ts]. cbn [fst snd] in *.
        bs H. bs H. inversion H; subst. eapply MO_set_op; [exact E3| |].
        * pose proof (completed_canon tys _ _ _ E2) as C. rewrite <- model_op2_canon, C, model_op2_canon. apply initial_model2.
        * eapply MO_wire_up; [exact E1|]. eapply MO_add_node; [exact E0|apply initial_model2|exact M].
    - (* TLoad *)
      intros id v cp r b st e fs cs M. cbn [emb2_stmt]. rewrite exec_stmt3_ULoad, exec_stmt2_TLoad. split.
      + destruct (add_node st (Const v) _) as [[st1 c]|]; cbn [bind fst snd lift3]; [|reflexivity].
        destruct (add_node st1 (LoadConst (value_ty v)) (b_parent b)) as [[st2 l]|]; cbn [bind fst snd lift3]; [|reflexivity].
        destruct (add_link st2 c (Some 0) l (Some 0)) as [st3|]; cbn [bind lift3]; reflexivity.
      + intros st' e' H. bs H. destruct v0 as [st1 c]. cbn [fst snd] in *. bs H. destruct v0 as [st2 l]. cbn [fst snd] in *. bs H.
        inversion H; subst. eapply MO_add_link; [exact E1|]. eapply MO_add_node; [exact E0|reflexivity|].
        eapply MO_add_node; [exact E|reflexivity|exact M].
    - (* TNested *)
      intros id args body IH rs b st e fs cs M. cbn [emb2_stmt]. rewrite exec_stmt3_UNested, exec_stmt2_TNested. cbn [e_env mk3 wire_up3].
      destruct (get_wires e args) as [ws|]; cbn [bind lift3]; [|split; [reflexivity|intros ? ? Q; discriminate Q]].
      destruct (wire_types st ws) as [ts|]; cbn [bind lift3]; [|split; [reflexivity|intros ? ? Q; discriminate Q]].
      destruct (add_node st (DFG ts []) (b_parent b)) as [[st1 d]|] eqn:E0; cbn [bind fst snd lift3]; [|split; [reflexivity|intros ? ? Q; discriminate Q]].
      destruct (init_io st1 d ts) as [[st3 io]|] eqn:E1; cbn [bind fst snd lift3]; [|split; [reflexivity|intros ? ? Q; discriminate Q]].
      destruct (wire_up st3 d ws) as [[st4 ts4]|] eqn:E2; cbn [bind fst snd lift3]; [|split; [reflexivity|intros ? ? Q; discriminate Q]].
      assert (M4 : ModelOps2 (s_nodes st4)).
      { eapply MO_wire_up; [exact E2|]. eapply MO_init_io; [exact E1|]. eapply MO_add_node; [exact E0|reflexivity|exact M]. }
      destruct (IH io st4 e fs cs M4) as [IH1 IH2]. rewrite IH1.
      destruct (exec_region2 tys body io st4 e) as [[st5 e5]|] eqn:E3; cbn [bind fst snd lift3 mk3]; [|split; [reflexivity|intros ? ? Q; discriminate Q]].
      split; [reflexivity|]. intros st' e' H. inversion H; subst. eauto.
    - (* TOrder *)
      intros src dst b st e fs cs M. cbn [emb2_stmt]. rewrite exec_stmt3_UOrder, exec_stmt2_TOrder. cbn [e_env mk3]. split.
      + destruct (node_of b e src); cbn [bind lift3]; [|reflexivity]. destruct (node_of b e dst); cbn [bind lift3]; [|reflexivity].
        destruct (add_order_link st a a0); cbn [bind lift3]; reflexivity.
      + intros st' e' H. bs H. bs H. bs H. inversion H; subst. eapply MO_order; eauto.
    - (* TLoop *)
      intros id just rest body IH rs b st e fs cs M. cbn [emb2_stmt]. rewrite exec_stmt3_ULoop, exec_stmt2_TLoop. cbn [e_env mk3 wire_up3].
      destruct (get_wires e just) as [jw|]; cbn [bind lift3]; [|split; [reflexivity|intros ? ? Q; discriminate Q]].
      destruct (get_wires e rest) as [rw|]; cbn [bind lift3]; [|split; [reflexivity|intros ? ? Q; discriminate Q]].
      destruct (wire_types st jw) as [jt|]; cbn [bind lift3]; [|split; [reflexivity|intros ? ? Q; discriminate Q]].
      destruct (wire_types st rw) as [rt|]; cbn [bind lift3]; [|split; [reflexivity|intros ? ? Q; discriminate Q]].
      destruct (add_node st (TailLoop (jt ++ rt) [] [] (lenN jt)) (b_parent b)) as [[st1 d]|] eqn:E0; cbn [bind fst snd lift3]; [|split; [reflexivity|intros ? ? Q; discriminate Q]].
      destruct (init_io st1 d (jt ++ rt)) as [[st3 io]|] eqn:E1; cbn [bind fst snd lift3]; [|split; [reflexivity|intros ? ? Q; discriminate Q]].
      destruct (wire_up st3 d (jw ++ rw)) as [[st4 ts4]|] eqn:E2; cbn [bind fst snd lift3]; [|split; [reflexivity|intros ? ? Q; discriminate Q]].
      assert (M4 : ModelOps2 (s_nodes st4)).
      { eapply MO_wire_up; [exact E2|]. eapply MO_init_io; [exact E1|]. eapply MO_add_node; [exact E0|reflexivity|exact M]. }
      destruct (IH io st4 e fs cs M4) as [IH1 IH2]. rewrite IH1.
      destruct (exec_region2 tys body io st4 e) as [[st5 e5]|] eqn:E3; cbn [bind fst snd lift3 mk3]; [|split; [reflexivity|intros ? ? Q; discriminate Q]].
      split; [reflexivity|]. intros st' e' H. inversion H; subst. eauto.
    - (* TCond *)
      intros id cond args cs0 IH rs b st e fs cs M. cbn [emb2_stmt]. rewrite exec_stmt3_UCond, exec_stmt2_TCond. cbn [e_env mk3 wire_up3].
      destruct (get_wire e cond) as [cw|]; cbn [bind lift3]; [|split; [reflexivity|intros ? ? Q; discriminate Q]].
      destruct (get_wires e args) as [ws|]; cbn [bind lift3]; [|split; [reflexivity|intros ? ? Q; discriminate Q]].
      destruct (wire_types st (cw :: ws)) as [ts|]; cbn [bind lift3]; [|split; [reflexivity|intros ? ? Q; discriminate Q]].
      destruct ts as [|t others]; [split; [reflexivity|intros ? ? Q; discriminate Q]|].
      destruct (nthN tys t) as [[cp rows| |]|]; try (split; [reflexivity|intros ? ? Q; discriminate Q]).
      destruct (add_node st (Conditional rows others [] t) (b_parent b)) as [[st1 c]|] eqn:E0; cbn [bind fst snd lift3]; [|split; [reflexivity|intros ? ? Q; discriminate Q]].
      destruct (make_cases st1 c rows others) as [[st2 bs]|] eqn:E1; cbn [bind fst snd lift3]; [|split; [reflexivity|intros ? ? Q; discriminate Q]].
      destruct (wire_up st2 c (cw :: ws)) as [[st3 ts3]|] eqn:E2; cbn [bind fst snd lift3]; [|split; [reflexivity|intros ? ? Q; discriminate Q]].
      assert (M3 : ModelOps2 (s_nodes st3)).
      { eapply MO_wire_up; [exact E2|]. eapply MO_make_cases; [exact E1|]. eapply MO_add_node; [exact E0|reflexivity|exact M]. }
      destruct (IH c bs None st3 e fs cs M3) as [IH1 IH2]. rewrite IH1.
      destruct (exec_cases2 tys cs0 c bs None st3 e) as [[[[st4 e4] bs'] cur']|] eqn:E3; cbn [bind lift3c]; [|split; [reflexivity|intros ? ? Q; discriminate Q]].
      destruct (cases_done bs' cur'); cbn [lift3 fst snd mk3]; [|split; [reflexivity|intros ? ? Q; discriminate Q]].
      split; [reflexivity|]. intros st' e' H. inversion H; subst. eauto.
    - (* TInsert *)
      intros id sub IH args rs b st e fs cs M. cbn [emb2_stmt]. rewrite exec_stmt3_UInsert, exec_stmt2_TInsert. cbn [wire_up3].
      destruct (IH e fs cs) as [IH1 IH2]. rewrite IH1.
      destruct (exec_prog2 tys sub e) as [[sti e1]|] eqn:E0; cbn [bind fst snd lift3 mk3 e_env]; [|split; [reflexivity|intros ? ? Q; discriminate Q]].
      destruct (get_wires e1 args) as [ws|]; cbn [bind lift3]; [|split; [reflexivity|intros ? ? Q; discriminate Q]].
      destruct (insert_hugr st sti (b_parent b)) as [[st1 m]|] eqn:E1; cbn [bind fst snd lift3]; [|split; [reflexivity|intros ? ? Q; discriminate Q]].
      destruct (nthN m 0) as [r|]; [|split; [reflexivity|intros ? ? Q; discriminate Q]].
      destruct (wire_up st1 r ws) as [[st2 ts]|] eqn:E2; cbn [bind fst snd lift3 mk3]; [|split; [reflexivity|intros ? ? Q; discriminate Q]].
      split; [reflexivity|]. intros st' e' H. inversion H; subst. eapply MO_wire_up; [exact E2|]. eapply MO_insert_hugr; eauto.
    - (* TCallInd *)
      intros id args rs b st e fs cs M. cbn [emb2_stmt]. rewrite exec_stmt3_UCallInd, exec_stmt2_TCallInd. cbn [e_env mk3 wire_up3]. split.
      + destruct (get_wires e args) as [ws|]; cbn [bind lift3]; [|reflexivity].
        destruct (add_node st (CallIndirect [] [] 0) (b_parent b)) as [[st1 n]|]; cbn [bind fst snd lift3]; [|reflexivity].
        destruct (wire_up st1 n ws) as [[st2 ts]|]; cbn [bind fst snd lift3]; [|reflexivity].
        destruct (completed_callind tys ts) as [op'|]; cbn [bind lift3]; [|reflexivity].
        destruct (set_op st2 n op') as [st3|]; cbn [bind lift3]; reflexivity.
      + intros st' e' H. bs H. bs H. destruct v0 as [st1 n]. cbn [fst snd] in *. bs H. destruct v0 as [st2 ts]. cbn [fst snd] in *.
        bs H. bs H. inversion H; subst. eapply MO_set_op; [exact E3| |].
        * pose proof (completed_callind_canon tys _ _ E2) as C. now rewrite <- model_op2_canon, C.
        * eapply MO_wire_up; [exact E1|]. eapply MO_add_node; [exact E0|reflexivity|exact M].
    - (* Reg *)
      intros ins body IH outs b st e fs cs M. cbn [emb2_region]. rewrite exec_region3_Rg, exec_region2_Reg.
      change (with_env (mk3 e fs cs) (bind_outs (e_env (mk3 e fs cs)) (b_in b) ins)) with (mk3 (bind_outs e (b_in b) ins) fs cs).
      destruct (IH b st (bind_outs e (b_in b) ins) fs cs M) as [IH1 IH2]. rewrite IH1.
      destruct (exec_stmts2 tys body b st (bind_outs e (b_in b) ins)) as [[st1 e1]|] eqn:E0; cbn [bind fst snd lift3 mk3 e_env]; [|split; [reflexivity|intros ? ? Q; discriminate Q]].
      destruct (get_wires e1 outs) as [ws|]; cbn [bind lift3]; [|split; [reflexivity|intros ? ? Q; discriminate Q]].
      rewrite (set_outputs3_model _ _ _ (IH2 _ _ eq_refl)).
      destruct (set_outputs2 tys st1 b ws) as [st2|] eqn:E1; cbn [bind lift3 fst snd mk3]; [|split; [reflexivity|intros ? ? Q; discriminate Q]].
      split; [reflexivity|]. intros st' e' H. inversion H; subst. eapply MO_set_outputs2; eauto.
    - (* TNil *)
      intros b st e fs cs M. cbn [emb2_stmts]. rewrite exec_stmts3_UNil, exec_stmts2_TNil. split; [reflexivity|]. intros st' e' H. now inversion H; subst.
    - (* TCons *)
      intros s IHs r IHr b st e fs cs M. cbn [emb2_stmts]. rewrite exec_stmts3_UCons, exec_stmts2_TCons.
      destruct (IHs b st e fs cs M) as [IH1 IH2]. rewrite IH1.
      destruct (exec_stmt2 tys s b st e) as [[st1 e1]|] eqn:E0; cbn [bind fst snd lift3]; [|split; [reflexivity|intros ? ? Q; discriminate Q]].
      exact (IHr b st1 e1 fs cs (IH2 _ _ eq_refl)).
    - (* CNil *)
      intros c bs cur st e fs cs M. cbn [emb2_cases]. rewrite exec_cases3_KNil, exec_cases2_CNil. split; [reflexivity|].
      intros st' e' bs' cur' H. now inversion H; subst.
    - (* CCons *)
      intros i r IHr rest IHrest c bs cur st e fs cs M. cbn [emb2_cases]. rewrite exec_cases3_KCons, exec_cases2_CCons.
      destruct (nthN bs i) as [[cb [|]]|]; try (split; [reflexivity|intros ? ? ? ? Q; discriminate Q]).
      destruct (IHr cb st e fs cs M) as [IH1 IH2]. rewrite IH1.
      destruct (exec_region2 tys r cb st e) as [[st1 e1]|] eqn:E0; cbn [bind fst snd lift3 lift3c]; [|split; [reflexivity|intros ? ? ? ? Q; discriminate Q]].
      destruct (out_types st1 cb) as [ts|]; cbn [bind lift3c]; [|split; [reflexivity|intros ? ? ? ? Q; discriminate Q]].
      destruct (update_outputs st1 c cur ts) as [[st2 cur2]|] eqn:E1; cbn [bind fst snd lift3c]; [|split; [reflexivity|intros ? ? ? ? Q; discriminate Q]].
      apply IHrest. eapply MO_update_outputs; eauto.
    - (* QDfg *)
      intros ins body IH e fs cs. cbn [emb2]. rewrite exec_prog3_RDfg, exec_prog2_QDfg.
      destruct (init_io (new_store (DFG ins [])) 0 ins) as [[st0 io]|] eqn:E0; cbn [bind fst snd lift3]; [|split; [reflexivity|intros ? ? Q; discriminate Q]].
      apply IH. eapply MO_init_io; [exact E0|reflexivity].
    - (* QLoop *)
      intros just rest body IH e fs cs. cbn [emb2]. rewrite exec_prog3_RLoop, exec_prog2_QLoop.
      destruct (init_io (new_store (TailLoop (just ++ rest) [] [] (lenN just))) 0 (just ++ rest)) as [[st0 io]|] eqn:E0; cbn [bind fst snd lift3]; [|split; [reflexivity|intros ? ? Q; discriminate Q]].
      apply IH. eapply MO_init_io; [exact E0|reflexivity].
    - (* QCond *)
      intros rows others sumty cs0 IH e fs cs. cbn [emb2]. rewrite exec_prog3_RCond, exec_prog2_QCond.
      destruct (make_cases (new_store (Conditional rows others [] sumty)) 0 rows others) as [[st1 bs]|] eqn:E0; cbn [bind fst snd lift3]; [|split; [reflexivity|intros ? ? Q; discriminate Q]].
      assert (M1 : ModelOps2 (s_nodes st1)) by (eapply MO_make_cases; [exact E0|reflexivity]).
      destruct (IH 0 bs None st1 e fs cs M1) as [IH1 IH2]. rewrite IH1.
      destruct (exec_cases2 tys cs0 0 bs None st1 e) as [[[[st4 e4] bs'] cur']|] eqn:E3; cbn [bind lift3c]; [|split; [reflexivity|intros ? ? Q; discriminate Q]].
      destruct (cases_done bs' cur'); cbn [lift3 fst snd]; [|split; [reflexivity|intros ? ? Q; discriminate Q]].
      split; [reflexivity|]. intros st' e' H. inversion H; subst. eauto.
  Qed.
End Emb3.

Theorem run3_emb2 tys sigs p : run3 tys sigs (emb2 p) = run2 tys p.
Proof.
  unfold run3, run2. destruct (emb2_exec tys sigs) as (_ & _ & _ & _ & HP).
  destruct (HP p env0 [] []) as [H _]. change env3_0 with (mk3 env0 [] []). rewrite H.
  destruct (exec_prog2 tys p env0) as [[st e]|]; reflexivity.
Qed.

(* every theorem about `run2` transfers; the full validity theorem of the extended language, restated for run3 *)
From HV Require Import spec.Builder2LiveS proofs.Builder2ValidP.
Theorem run3_emb2_valid tys sigs p g :
  r_table tys = true -> wf_prog2 tys p = true -> run3 tys sigs (emb2 p) = Ok g ->
  valid {| v_tys := tys; v_main := g; v_subs := [] |} = true.
Proof. rewrite run3_emb2. apply run2_valid. Qed.

(* non-vacuity for the third language: a module with a declaration and a definition; the body calls the declared
   function, loads it as a value, and runs a CFG of two blocks whose second block uses a value computed in the entry
   block (a Dom wire: no order edge is added); `valid` accepts the document (21 nodes) *)
Definition ex9_tys : list tyinfo := [TAtom true; TSum true [[]]; TSum true [[]; []]; TFn [0] [0] 0].
Definition ex9_sigs : list sinfo := [{| si_params := 0; si_ins := [0]; si_outs := [0] |}].
Definition ex9_prog : prog3 :=
  RModule [] (FDecl 1 0 (FDefn 2 0 [0] None (Rg [1]
    (UCons (UCall 1 1 [1] [2] None)
    (UCons (ULoadFn 2 1 3 None 3)
    (UCons (UCfg 3 [2]
       (BCons 10 BEntry (Rg [4] (UCons (UOp 4 ONoop [4] [5]) UNil) [4]) true [6]
       (BCons 11 (BSucc 6) (Rg [7] (UCons (UOp 5 (OFixed [0; 0] [0]) [7; 5] [8]) UNil) [8]) true [9] BNil))
       [(9, BExit)] [10])
     UNil))) [10]) FNil)).
Example ex9_runs : exists g, run3 ex9_tys ex9_sigs ex9_prog = Ok g /\
  valid {| v_tys := ex9_tys; v_main := g; v_subs := [] |} = true /\ length (g_nodes g) = 21%nat /\
  existsb (fun n => match n_op n with CFG _ _ => true | _ => false end) (g_nodes g) = true /\
  existsb (fun n => match n_op n with Call _ _ _ => true | _ => false end) (g_nodes g) = true /\
  existsb (fun r => ecode_eqb (classify ex9_tys g (redges g) r) EOk && negb (is_static (r_kind r))) (redges g) = true.
Proof.
  eexists. split; [vm_compute; reflexivity|]. split; [vm_compute; reflexivity|]. split; [vm_compute; reflexivity|].
  split; [vm_compute; reflexivity|]. split; vm_compute; reflexivity.
Qed.
