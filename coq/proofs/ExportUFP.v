(* C12, second pass — proofs about the union-find of the code (model/ExportUF.v): find with path splitting
   and union by size compute the components of the links; the fuel is never exhausted; the lookups made
   while exporting do not change any root; the export named by the code's procedure is, up to the renaming
   of the correspondence check, the export of model/Export.v, and satisfies the whole specification. *)
From Coq Require Import ZArith List Bool Arith Lia Relations.
Import ListNotations.
From HV Require Import lib.Harness model.Export model.ExportNum model.ExportUF spec.ExportS spec.ExportCanon
  proofs.ExportP proofs.ExportOrderP proofs.ExportNumP proofs.ExportCanonP.
Open Scope Z_scope.

Lemma upd_same {A} (m : port -> A) k v : upd m k v k = v.
Proof. unfold upd. rewrite port_eqb_refl. reflexivity. Qed.
Lemma upd_other {A} (m : port -> A) k v x : x <> k -> upd m k v x = m x.
Proof.
  unfold upd. intros H. destruct (port_eqb x k) eqn:E; [apply port_eqb_spec in E; congruence | reflexivity].
Qed.

(* ------------------------------------------------------------------ the forest invariant *)

(* root: the root of every item; d: its distance bound to the root; n: number of unions so far *)
Record Inv (par root : port -> port) (d : port -> nat) (n : nat) : Prop := {
  inv_a : forall x, root (par x) = root x;
  inv_b : forall x, par x = x -> root x = x;
  inv_c : forall x, par x <> x -> (d (par x) < d x)%nat;
  inv_d : forall x, (d x <= n)%nat;
  inv_e : forall x, root (root x) = root x;
  inv_f : forall x, par (root x) = root x;
  inv_g : forall x, par x = x -> d x = 0%nat
}.

Lemma grandparent_not_self par root d n x : Inv par root d n -> par x <> x -> par (par x) <> x.
Proof.
  intros HI Hne Hy. pose proof (inv_c _ _ _ _ HI x Hne) as Hlt.
  destruct (port_eqb_reflect (par (par x)) (par x)) as [E2|N2].
  - apply Hne. rewrite <- E2. exact Hy.
  - pose proof (inv_c _ _ _ _ HI (par x) N2) as H2. rewrite Hy in H2. lia.
Qed.

(* path splitting keeps the invariant, with the same roots *)
Lemma split_inv par root d n x :
  Inv par root d n -> par x <> x -> Inv (upd par x (par (par x))) root d n.
Proof.
  intros HI Hne. pose proof (inv_c _ _ _ _ HI x Hne) as Hlt.
  pose proof (grandparent_not_self par root d n x HI Hne) as Hgp.
  constructor.
  - intros y. destruct (port_eqb_reflect y x) as [->|Hy].
    + rewrite upd_same. rewrite !(inv_a _ _ _ _ HI). reflexivity.
    + rewrite upd_other by exact Hy. apply (inv_a _ _ _ _ HI).
  - intros y Hy. destruct (port_eqb_reflect y x) as [->|Hyx].
    + rewrite upd_same in Hy. contradiction.
    + rewrite upd_other in Hy by exact Hyx. apply (inv_b _ _ _ _ HI). exact Hy.
  - intros y Hy. destruct (port_eqb_reflect y x) as [->|Hyx].
    + rewrite upd_same. destruct (port_eqb_reflect (par (par x)) (par x)) as [E2|N2].
      * rewrite E2. exact Hlt.
      * pose proof (inv_c _ _ _ _ HI (par x) N2). lia.
    + rewrite upd_other in * by exact Hyx. apply (inv_c _ _ _ _ HI). exact Hy.
  - apply (inv_d _ _ _ _ HI).
  - apply (inv_e _ _ _ _ HI).
  - intros y. destruct (port_eqb_reflect (root y) x) as [E3|N3].
    + exfalso. apply Hne. rewrite <- E3. apply (inv_f _ _ _ _ HI).
    + rewrite upd_other by exact N3. apply (inv_f _ _ _ _ HI).
  - intros y Hy. destruct (port_eqb_reflect y x) as [->|Hyx].
    + rewrite upd_same in Hy. contradiction.
    + rewrite upd_other in Hy by exact Hyx. apply (inv_g _ _ _ _ HI). exact Hy.
Qed.

(* find returns the root, keeps the invariant, and never runs out of fuel when fuel > d x *)
Lemma find_spec root d n : forall fuel par x,
  Inv par root d n -> (d x < fuel)%nat ->
  fst (uf_find fuel par x) = root x /\ Inv (snd (uf_find fuel par x)) root d n.
Proof.
  induction fuel as [|k IH]; intros par x HI Hd; [lia|].
  cbn [uf_find]. destruct (port_eqb (par x) x) eqn:E.
  - apply port_eqb_spec in E. cbn [fst snd]. split; [symmetry; apply (inv_b _ _ _ _ HI); exact E | exact HI].
  - assert (Hne : par x <> x) by (intros H; rewrite H, port_eqb_refl in E; discriminate).
    pose proof (inv_c _ _ _ _ HI x Hne) as Hlt.
    pose proof (split_inv par root d n x HI Hne) as HI'.
    destruct (IH (upd par x (par (par x))) (par x) HI') as [A B]; [lia|].
    split; [rewrite A; apply (inv_a _ _ _ _ HI) | exact B].
Qed.

(* ------------------------------------------------------------------ merging two classes *)

Definition merge (f : port -> port) (a b : port) : port -> port :=
  fun z => if port_eqb (f z) b then a else f z.

Lemma conn_ext ls ls' p q : (forall l, In l ls -> In l ls') -> conn ls p q -> conn ls' p q.
Proof.
  intros H Hc. induction Hc as [x y [l0 [Hin [-> ->]]] | x | x y _ IH | x y z _ IH1 _ IH2].
  - apply rst_step. exists l0. split; [apply H; exact Hin | split; reflexivity].
  - apply rst_refl.
  - apply rst_sym. exact IH.
  - eapply rst_trans; eassumption.
Qed.

Lemma merge_spec f r l u v :
  (forall p q, f p = f q <-> conn r p q) ->
  (u = srcp l /\ v = dstp l) \/ (u = dstp l /\ v = srcp l) ->
  forall p q, merge f (f u) (f v) p = merge f (f u) (f v) q <-> conn (l :: r) p q.
Proof.
  intros Hf Huv p q.
  assert (Hab : conn (l :: r) u v).
  { destruct Huv as [[-> ->]|[-> ->]]; [|apply rst_sym]; apply rst_step; exists l;
      (split; [left; reflexivity | split; reflexivity]). }
  unfold merge. split.
  - intros H. destruct (port_eqb (f p) (f v)) eqn:Ep; destruct (port_eqb (f q) (f v)) eqn:Eq.
    + apply port_eqb_spec in Ep, Eq. apply conn_mono. apply Hf. congruence.
    + apply port_eqb_spec in Ep.
      assert (conn r p v) by (apply Hf; exact Ep). assert (conn r u q) by (apply Hf; exact H).
      eapply rst_trans; [apply conn_mono; eassumption|].
      eapply rst_trans; [apply rst_sym; exact Hab|]. apply conn_mono; assumption.
    + apply port_eqb_spec in Eq.
      assert (conn r q v) by (apply Hf; exact Eq). assert (conn r p u) by (apply Hf; congruence).
      eapply rst_trans; [apply conn_mono; eassumption|].
      eapply rst_trans; [exact Hab|]. apply rst_sym. apply conn_mono; assumption.
    + apply conn_mono. apply Hf. exact H.
  - intros H.
    assert (Huv' : (if port_eqb (f u) (f v) then f u else f u) = (if port_eqb (f v) (f v) then f u else f v)).
    { rewrite port_eqb_refl. destruct (port_eqb (f u) (f v)); reflexivity. }
    induction H as [x y [l0 [[<-|Hin] [-> ->]]] | x | x y _ IH' | x y z _ IH1 _ IH2].
    + destruct Huv as [[-> ->]|[-> ->]]; [exact Huv' | symmetry; exact Huv'].
    + assert (E : f (srcp l0) = f (dstp l0)) by (apply Hf; apply rst_step; exists l0; auto).
      rewrite E. reflexivity.
    + reflexivity.
    + symmetry. exact IH'.
    + congruence.
Qed.

(* attaching one root below another *)
Lemma link_inv par root d n big small :
  Inv par root d n -> root big = big -> root small = small -> big <> small ->
  Inv (upd par small big) (merge root big small)
      (fun y => if port_eqb (root y) small then S (d y) else d y) (S n).
Proof.
  intros HI Hb Hs Hne.
  assert (Pb : par big = big) by (rewrite <- Hb; apply (inv_f _ _ _ _ HI)).
  assert (Ebs : port_eqb big small = false).
  { destruct (port_eqb big small) eqn:E; [apply port_eqb_spec in E; contradiction | reflexivity]. }
  constructor.
  - intros y. unfold merge. destruct (port_eqb_reflect y small) as [->|Hy].
    + rewrite upd_same, Hb, Hs, Ebs, port_eqb_refl. reflexivity.
    + rewrite upd_other by exact Hy. rewrite (inv_a _ _ _ _ HI). reflexivity.
  - intros y Hy. unfold merge. destruct (port_eqb_reflect y small) as [->|Hys].
    + rewrite upd_same in Hy. contradiction.
    + rewrite upd_other in Hy by exact Hys. rewrite (inv_b _ _ _ _ HI y Hy).
      destruct (port_eqb y small) eqn:E; [apply port_eqb_spec in E; contradiction | reflexivity].
  - intros y Hy. destruct (port_eqb_reflect y small) as [->|Hys].
    + rewrite upd_same, Hb, Hs, Ebs, port_eqb_refl.
      rewrite (inv_g _ _ _ _ HI big Pb). lia.
    + rewrite upd_other in * by exact Hys. rewrite (inv_a _ _ _ _ HI).
      pose proof (inv_c _ _ _ _ HI y Hy). destruct (port_eqb (root y) small); lia.
  - intros y. pose proof (inv_d _ _ _ _ HI y). destruct (port_eqb (root y) small); lia.
  - intros y. unfold merge. destruct (port_eqb (root y) small) eqn:E.
    + rewrite Hb, Ebs. reflexivity.
    + rewrite (inv_e _ _ _ _ HI), E. reflexivity.
  - intros y. unfold merge. destruct (port_eqb (root y) small) eqn:E.
    + rewrite upd_other by exact Hne. exact Pb.
    + rewrite upd_other; [apply (inv_f _ _ _ _ HI)|]. intros H. rewrite H, port_eqb_refl in E. discriminate.
  - intros y Hy. destruct (port_eqb_reflect y small) as [->|Hys].
    + rewrite upd_same in Hy. contradiction.
    + rewrite upd_other in Hy by exact Hys. rewrite (inv_b _ _ _ _ HI y Hy).
      destruct (port_eqb y small) eqn:E; [apply port_eqb_spec in E; contradiction|].
      apply (inv_g _ _ _ _ HI). exact Hy.
Qed.

Lemma inv_weaken par root d n : Inv par root d n -> Inv par root d (S n).
Proof.
  intros HI. constructor; try apply HI. intros x. pose proof (inv_d _ _ _ _ HI x). lia.
Qed.

Lemma merge_sym_spec f r l :
  (forall p q, f p = f q <-> conn r p q) ->
  forall p q, merge f (f (dstp l)) (f (srcp l)) p = merge f (f (dstp l)) (f (srcp l)) q <-> conn (l :: r) p q.
Proof. intros Hf. apply merge_spec; [exact Hf | right; split; reflexivity]. Qed.

(* one union: invariant and components *)
Lemma union_spec fuel u root d n pre l :
  Inv (parents u) root d n -> (n < fuel)%nat ->
  (forall p q, root p = root q <-> conn pre p q) ->
  exists root' d',
    Inv (parents (uf_union fuel u (srcp l) (dstp l))) root' d' (S n) /\
    (forall p q, root' p = root' q <-> conn (l :: pre) p q).
Proof.
  intros HI Hn Hc. unfold uf_union.
  destruct (find_spec root d n fuel (parents u) (srcp l) HI) as [A1 B1];
    [pose proof (inv_d _ _ _ _ HI (srcp l)); lia|].
  destruct (uf_find fuel (parents u) (srcp l)) as [ra p1]. cbn [fst snd] in A1, B1.
  destruct (find_spec root d n fuel p1 (dstp l) B1) as [A2 B2];
    [pose proof (inv_d _ _ _ _ HI (dstp l)); lia|].
  destruct (uf_find fuel p1 (dstp l)) as [rb p2]. cbn [fst snd] in A2, B2. subst ra rb.
  destruct (port_eqb (root (srcp l)) (root (dstp l))) eqn:E.
  - (* already in one class *)
    apply port_eqb_spec in E. exists root, d. cbn [parents]. split; [apply inv_weaken; exact B2|].
    intros p q. rewrite <- (merge_spec root pre l (srcp l) (dstp l) Hc (or_introl (conj eq_refl eq_refl)) p q).
    unfold merge. rewrite <- E.
    assert (Hm : forall z, (if port_eqb (root z) (root (srcp l)) then root (srcp l) else root z) = root z).
    { intros z. destruct (port_eqb (root z) (root (srcp l))) eqn:Ez; [|reflexivity].
      apply port_eqb_spec in Ez. congruence. }
    rewrite !Hm. tauto.
  - assert (Hne : root (srcp l) <> root (dstp l)).
    { intros H. rewrite H, port_eqb_refl in E. discriminate. }
    destruct (Nat.ltb (sizes u (root (srcp l))) (sizes u (root (dstp l)))); cbn [parents].
    + (* big = root of the target, small = root of the source *)
      exists (merge root (root (dstp l)) (root (srcp l))),
             (fun y => if port_eqb (root y) (root (srcp l)) then S (d y) else d y).
      split; [apply link_inv; try apply (inv_e _ _ _ _ B2); [exact B2 | intros H; apply Hne; symmetry; exact H]|].
      apply merge_sym_spec. exact Hc.
    + exists (merge root (root (srcp l)) (root (dstp l))),
             (fun y => if port_eqb (root y) (root (dstp l)) then S (d y) else d y).
      split; [apply link_inv; try apply (inv_e _ _ _ _ B2); [exact B2 | exact Hne]|].
      apply merge_spec; [exact Hc | left; split; reflexivity].
Qed.

Lemma empty_inv : Inv (parents uf_empty) (fun x => x) (fun _ => 0%nat) 0.
Proof. constructor; cbn; intros; try reflexivity; try lia; try contradiction. Qed.

Lemma conn_nil p q : p = q <-> conn [] p q.
Proof. exact (rep_spec [] p q). Qed.

(* after any prefix of the links: a forest whose classes are the components of that prefix *)
Lemma build_inv fuel : forall pre, (length pre < fuel)%nat ->
  exists root d,
    Inv (parents (fold_left (fun u l => uf_union fuel u (srcp l) (dstp l)) pre uf_empty)) root d (length pre) /\
    (forall p q, root p = root q <-> conn pre p q).
Proof.
  induction pre as [|l pre IH] using rev_ind; intros Hlen.
  - exists (fun x => x), (fun _ => 0%nat). split; [exact empty_inv | intros p q; apply conn_nil].
  - rewrite app_length in Hlen. cbn [length] in Hlen.
    destruct IH as (root & d & HI & Hc); [lia|].
    rewrite fold_left_app. cbn [fold_left].
    destruct (union_spec fuel _ root d (length pre) pre l HI ltac:(lia) Hc) as (root' & d' & HI' & Hc').
    exists root', d'. rewrite app_length. cbn [length]. rewrite Nat.add_1_r. split; [exact HI'|].
    intros p q. rewrite Hc'. split; apply conn_ext; intros l0 Hl0.
    + apply in_or_app. destruct Hl0 as [<-|H]; [right; left; reflexivity | left; exact H].
    + apply in_app_or in Hl0. destruct Hl0 as [H|[<-|[]]]; [right; exact H | left; reflexivity].
Qed.

Lemma built_inv ls : exists root d,
  Inv (parents (uf_build ls)) root d (length ls) /\ (forall p q, root p = root q <-> conn ls p q) /\
  (forall x, uf_root ls x = root x).
Proof.
  destruct (build_inv (uf_fuel ls) ls ltac:(unfold uf_fuel; lia)) as (root & d & HI & Hc).
  exists root, d. split; [exact HI|]. split; [exact Hc|]. intros x. unfold uf_root.
  apply (find_spec root d (length ls) (uf_fuel ls) _ x HI).
  pose proof (inv_d _ _ _ _ HI x). unfold uf_fuel. lia.
Qed.

(* ---- the union-find of the code computes the components of the links *)
Theorem uf_components ls p q : uf_root ls p = uf_root ls q <-> conn ls p q.
Proof.
  destruct (built_inv ls) as (root & d & _ & Hc & Hr). rewrite !Hr. apply Hc.
Qed.

(* ------------------------------------------------------------------ link_name over the union-find *)

Lemma link_names_ext (R1 R2 : port -> port) : (forall x, R1 x = R2 x) ->
  forall ps st, link_names R1 st ps = link_names R2 st ps.
Proof.
  intros H. induction ps as [|p q IH]; intros st; [reflexivity|].
  cbn [link_names]. unfold link_name. rewrite (H p). cbv zeta.
  destruct (known (R2 p) st); rewrite IH; reflexivity.
Qed.

(* lookups during the export rewrite parents but never change a root: the names are those of the
   pure root function *)
Lemma link_names_uf_spec root d n fuel : (n < fuel)%nat -> forall ps par st,
  Inv par root d n -> fst (link_names_uf fuel par st ps) = fst (link_names root st ps).
Proof.
  intros Hn. induction ps as [|p q IH]; intros par st HI; [reflexivity|].
  cbn [link_names_uf link_names].
  destruct (find_spec root d n fuel par p HI) as [A B]; [pose proof (inv_d _ _ _ _ HI p); lia|].
  destruct (uf_find fuel par p) as [r par1]. cbn [fst snd] in A, B. subst r.
  change (link_name root st p) with (name_of_root st (root p)).
  destruct (name_of_root st (root p)) as [k st1]. specialize (IH par1 st1 B).
  destruct (link_names_uf fuel par1 st1 q) as [ks rest]. destruct (link_names root st1 q) as [ks' st2].
  cbn [fst] in *. rewrite IH. reflexivity.
Qed.

Theorem code_names_are_num_uf h : code_names h = map (num_uf h) (visits h).
Proof.
  unfold code_names, num_uf. cbv zeta.
  destruct (built_inv (h_links h)) as (root & d & HI & _ & Hr).
  rewrite (link_names_uf_spec root d (length (h_links h)) (uf_fuel (h_links h)) ltac:(unfold uf_fuel; lia) _ _ _ HI).
  rewrite <- (link_names_ext (uf_root (h_links h)) root Hr).
  destruct (link_names_spec (uf_root (h_links h)) (visits h) []) as (_ & _ & H). exact H.
Qed.

Lemma idx_final (R : port -> port) ps p q :
  In p ps -> In q ps ->
  (idx (R p) (snd (link_names R [] ps)) = idx (R q) (snd (link_names R [] ps)) <-> R p = R q).
Proof.
  intros Hp Hq. destruct (link_names_spec R ps []) as (_ & Hmem & _).
  split; [|intros ->; reflexivity]. apply idx_inj; apply Hmem; assumption.
Qed.

(* ------------------------------------------------------------------ any numbering that is a renaming *)

Section Renamed.
  Variable h : hugr.
  Hypothesis Hv : valid_b h = true.
  Variable nu : port -> nat.
  Hypothesis Hnu : forall p q, In p (listed_ports h) -> In q (listed_ports h) ->
                               (nu p = nu q <-> conn (h_links h) p q).
  Notation ls := (h_links h).
  Notation M := (named_module h nu idZ).

  Lemma renamed_link_names : link_names_iff_connected Nat.eqb h M.
  Proof.
    unfold link_names_iff_connected. intros p n q n' Hp Hq.
    rewrite (all_occ_export h nu idZ Hv) in Hp, Hq.
    apply in_map_iff in Hp, Hq. destruct Hp as [p0 [Ep Hp]]. destruct Hq as [q0 [Eq Hq]].
    unfold pf in Ep, Eq. inversion Ep; inversion Eq; subst. rewrite Nat.eqb_eq. apply Hnu; assumption.
  Qed.

  Lemma renamed_single_producer : stars_b h = true -> single_producer_or_single_consumer Nat.eqb h M = true.
  Proof.
    intros Hs. unfold single_producer_or_single_consumer. cbv zeta.
    rewrite (all_occ_export h nu idZ Hv).
    unfold stars_b, ideal_occ in Hs. cbv zeta in Hs.
    change (map (fun p => (p, rep (h_links h) p)) (listed_ports h)) with (map (pf (rep ls)) (listed_ports h)) in Hs.
    rewrite forallb_forall in Hs. apply forallb_forall. intros o Ho. apply in_map_iff in Ho. destruct Ho as [p [<- Hp]].
    specialize (Hs (pf (rep ls) p) (in_map _ _ _ Hp)).
    cbn [pf snd] in Hs |- *. unfold sp_name in Hs |- *. cbv zeta in Hs |- *.
    rewrite filter_occ in Hs. rewrite filter_occ.
    rewrite (filter_ext_in (fun q => Nat.eqb (nu q) (nu p)) (fun q => port_eqb (rep ls q) (rep ls p))); [exact Hs|].
    intros q Hq. destruct (port_eqb (rep ls q) (rep ls p)) eqn:E.
    - apply port_eqb_spec in E. apply Nat.eqb_eq. apply Hnu; [assumption..|]. apply rep_spec. exact E.
    - apply Nat.eqb_neq. intros En. apply Hnu in En; [|assumption..]. apply rep_spec in En.
      apply port_eqb_spec in En. congruence.
  Qed.

  Theorem renamed_spec :
    valid_order_b h = true -> order_ports_b h = true -> stars_b h = true -> spec_b Nat.eqb Z.eqb h M = true.
  Proof.
    intros Ho Hp Hs. unfold spec_b.
    rewrite (model_regions_mirror_hierarchy h nu idZ Hv), (model_ports_exactly_signature h nu idZ Hv),
      (link_names_b_complete Nat.eqb h _ renamed_link_names), (renamed_single_producer Hs),
      (model_applied_symbols_defined h nu idZ Z.eqb Zeqb_spec' (fun a b H => H) Hv),
      (model_order_hints_complete_and_keyed h nu idZ Hv Hp Ho), (model_metadata_carried h nu idZ Hv).
    reflexivity.
  Qed.
End Renamed.

(* ------------------------------------------------------------------ the export as the code names it *)

Section Code.
  Variable h : hugr.
  Hypothesis Hv : valid_b h = true.
  Notation ls := (h_links h).

  Lemma num_uf_visited p q :
    In p (visits h) -> In q (visits h) -> (num_uf h p = num_uf h q <-> conn ls p q).
  Proof.
    intros Hp Hq. unfold num_uf. cbv zeta. rewrite (idx_final (uf_root ls) (visits h) p q Hp Hq).
    apply uf_components.
  Qed.

  Theorem code_spec :
    valid_order_b h = true -> order_ports_b h = true -> stars_b h = true ->
    spec_b Nat.eqb Z.eqb h (export_code h) = true.
  Proof.
    apply (renamed_spec h Hv (num_uf h)). intros p q Hp Hq.
    apply num_uf_visited; apply (listed_visited h Hv); assumption.
  Qed.

  (* the correspondence check cannot tell the export named by the code's procedure from export h *)
  Theorem canon_code : canon Nat.eqb Z.eqb (export_code h) = canon port_eqb Z.eqb (export h).
  Proof.
    unfold export_code, export. cbv zeta. apply canon_renaming. intros p q Hp Hq.
    apply (export_names_visited h Hv) in Hp, Hq.
    destruct (num_uf_visited p q Hp Hq) as [A B].
    destruct (port_eqb (rep ls p) (rep ls q)) eqn:E.
    - apply port_eqb_spec in E. apply Nat.eqb_eq. apply B. apply rep_spec. exact E.
    - apply Nat.eqb_neq. intros En. apply A in En. apply rep_spec in En. apply port_eqb_spec in En. congruence.
  Qed.
End Code.

(* on the example the literal procedure hands out the same names as the specification-level one *)
Example ex_code_names : code_names ex_hugr = [0; 1; 0; 2; 2; 1]%nat.
Proof. vm_compute. reflexivity. Qed.
