(* Proofs for C08: insert_hugr (model/Graph.v) is an isomorphic embedding of the inserted HUGR and a frame
   for the target. *)
From Coq Require Import List Bool Arith ZArith Lia Permutation.
Import ListNotations.
From HV Require Import lib.PyDict lib.Harness model.BiMapM proofs.BiMapP model.Graph spec.GraphS
     proofs.GraphP proofs.GraphInvP.

Section Ins.
  Context {Op Meta : Type}.
  Notation hugr := (hugr Op Meta).
  Notation node_data := (node_data Op Meta).
  Notation agraph := (agraph Op Meta).
  Notation aget := (dget Nat.eqb).
  Notation mget := (dget Nat.eqb).

  (* ---------------------------------------------------------------- every state represents some graph *)
  Fixpoint abs_from (l : list (option node_data)) (i : nat) : list (nid * anode Op Meta) :=
    match l with
    | [] => []
    | Some d :: r => (i, anode_of d) :: abs_from r (S i)
    | None :: r => abs_from r (S i)
    end.
  Definition abs (h : hugr) : agraph :=
    {| a_nodes := abs_from (nodes h) 0; a_links := lm_links (links h); a_root := root h |}.
  Lemma abs_from_keys l : forall i, map fst (abs_from l i) = live_from l i.
  Proof. induction l as [|[d|] r IH]; intros i; cbn; [reflexivity| |]; now rewrite IH. Qed.
  Lemma abs_from_get l : forall i n,
    aget (abs_from l i) n =
    if Nat.ltb n i then None
    else option_map anode_of (match nth_error l (n - i) with Some (Some d) => Some d | _ => None end).
  Proof.
    induction l as [|[d|] r IH]; intros i n; cbn [abs_from dget].
    - destruct (Nat.ltb n i); [reflexivity|]. now destruct (n - i).
    - destruct (Nat.eqb_spec n i) as [->|Hne].
      + rewrite Nat.ltb_irrefl, Nat.sub_diag. reflexivity.
      + rewrite IH. destruct (Nat.ltb_spec n i); destruct (Nat.ltb_spec n (S i)); try lia; [reflexivity|].
        replace (n - i) with (S (n - S i)) by lia. reflexivity.
    - rewrite IH. destruct (Nat.ltb_spec n i); destruct (Nat.ltb_spec n (S i)); try lia; [reflexivity| |].
      + assert (n = i) as -> by lia. now rewrite Nat.sub_diag.
      + replace (n - i) with (S (n - S i)) by lia. reflexivity.
  Qed.
  Lemma Rep_abs (h : hugr) : Rep h (abs h).
  Proof.
    split; [|split; [|split]]; cbn [abs a_nodes a_links a_root]; try reflexivity.
    - intros n. rewrite abs_from_get. cbn. now rewrite Nat.sub_0_r.
    - rewrite abs_from_keys. apply live_from_NoDup.
  Qed.
  Lemma abs_live (h : hugr) n : a_live (abs h) n = true <-> get_node h n <> None.
  Proof. apply rep_live, Rep_abs. Qed.

  Lemma mget_dset (m : mapping) k v k' : mget (dset Nat.eqb m k v) k' = if Nat.eqb k' k then Some v else mget m k'.
  Proof.
    destruct (Nat.eqb_spec k' k) as [->|Hne].
    - apply (dget_dset_same Nat.eqb Nat.eqb_spec).
    - now apply (dget_dset_other Nat.eqb Nat.eqb_spec).
  Qed.
  Definition is_mapped (m : mapping) (c : nid) : bool := match mget m c with Some _ => true | None => false end.

  (* ---------------------------------------------------------------- phase 1: copying the nodes *)
  Section Phase1.
    Variables (A B : hugr) (parent : option nid).
    Let p := match parent with Some x => x | None => root A end.
    Hypothesis HpA : get_node A p <> None.
    Hypothesis HrootB : exists rb, get_node B (root B) = Some rb /\ nd_parent rb = None.

    Definition pimg (m : mapping) (b : node_data) : nid :=
      match nd_parent b with None => p | Some q => mapn m q end.

    Record P1 (Ak : hugr) (mk : mapping) : Prop := {
      p1_free : FreeOK Ak;
      p1_links : links Ak = links A;
      p1_root : root Ak = root A;
      p1_keys : NoDup (map fst mk);
      p1_old : forall x d, get_node A x = Some d ->
                 get_node Ak x = Some (if Nat.eqb x p && is_mapped mk (root B) then add_child (mapn mk (root B)) d else d);
      p1_copy : forall c c', mget mk c = Some c' ->
                 get_node A c' = None /\
                 exists b d', get_node B c = Some b /\ get_node Ak c' = Some d' /\
                   nd_op d' = nd_op b /\ nd_meta d' = nd_meta b /\ nd_outs d' = nd_outs b /\ nd_inps d' = 0%Z /\
                   nd_parent d' = Some (pimg mk b) /\ (forall q, nd_parent b = Some q -> mget mk q <> None);
      p1_inj : forall c1 c2 v, mget mk c1 = Some v -> mget mk c2 = Some v -> c1 = c2;
      p1_only : forall x, get_node Ak x <> None -> get_node A x <> None \/ exists c, mget mk c = Some x
    }.

    Lemma P1_init : Inv A -> P1 A [].
    Proof.
      intros (_ & HF & _). constructor; try reflexivity; try assumption.
      - constructor.
      - intros x d E. rewrite E. unfold is_mapped. cbn. now rewrite andb_false_r.
      - intros c c'. cbn. discriminate.
      - intros c1 c2 v. cbn. discriminate.
      - intros x H. now left.
    Qed.

    (* one node of B whose parent is already copied (or which is the root) *)
    Lemma ins_one Ak mk c b : P1 Ak mk -> get_node B c = Some b -> mget mk c = None ->
      (forall q, nd_parent b = Some q -> mget mk q <> None) -> (nd_parent b = None -> c = root B) ->
      exists A1 n', insert_chain Ak B mk parent [c] = (A1, dset Nat.eqb mk c n', Ok) /\ P1 A1 (dset Nat.eqb mk c n').
    Proof.
      intros HP Hb Hc Hpar Hcroot. destruct HrootB as (rb & Erb & Prb).
      cbn [insert_chain]. rewrite Hb.
      set (pp := pimg mk b).
      assert (Hnp : match nd_parent b with
                    | Some bp => match mget mk bp with Some x => inl (Some x) | None => inr EKey end
                    | None => inl parent
                    end = inl (match nd_parent b with Some _ => Some pp | None => parent end)
                    /\ match (match nd_parent b with Some _ => Some pp | None => parent end) with Some x => x | None => root Ak end = pp).
      { subst pp. unfold pimg, mapn. destruct (nd_parent b) as [q|] eqn:Eq.
        - specialize (Hpar q eq_refl). destruct (mget mk q); [split; reflexivity|congruence].
        - split; [reflexivity|]. unfold p. rewrite (p1_root _ _ HP). reflexivity. }
      destruct Hnp as [-> Hpp].
      assert (Hpplive : exists ppd, get_node Ak pp = Some ppd).
      { subst pp. unfold pimg, mapn. destruct (nd_parent b) as [q|] eqn:Eq.
        - specialize (Hpar q eq_refl). destruct (mget mk q) as [x|] eqn:Ex; [|congruence].
          destruct (p1_copy _ _ HP q x Ex) as (_ & bq & dq & _ & E & _). eauto.
        - destruct (get_node A p) as [d|] eqn:Ed; [|congruence]. rewrite (p1_old _ _ HP p d Ed). eauto. }
      destruct Hpplive as (ppd & Eppd).
      unfold add_node. rewrite Hpp.
      destruct (add_node_effect Ak (nd_op b) pp (Some (nd_outs b)) (nd_meta b) ppd (p1_free _ _ HP) Eppd)
        as (A1 & n' & Hadd & Hdead & Hget & Hlk & Hrt & HF1).
      rewrite Hadd. cbn [insert_chain]. exists A1, n'. split; [reflexivity|].
      assert (HnA : get_node A n' = None).
      { destruct (get_node A n') as [d|] eqn:E; [|reflexivity]. rewrite (p1_old _ _ HP n' d E) in Hdead. discriminate. }
      assert (Hnval : forall y, mget mk y <> Some n').
      { intros y E. destruct (p1_copy _ _ HP y n' E) as (_ & _ & d' & _ & E' & _). congruence. }
      (* the root of B is touched only when c is the root *)
      assert (Hrootcase : nd_parent b <> None -> c <> root B) by (intros H ->; congruence).
      assert (Hppcopy : nd_parent b <> None -> get_node A pp = None).
      { intros H. subst pp. unfold pimg, mapn. destruct (nd_parent b) as [q|] eqn:Eq; [|congruence].
        specialize (Hpar q eq_refl). destruct (mget mk q) as [x|] eqn:Ex; [|congruence].
        now destruct (p1_copy _ _ HP q x Ex). }
      constructor.
      - exact HF1.
      - now rewrite Hlk, (p1_links _ _ HP).
      - now rewrite Hrt, (p1_root _ _ HP).
      - apply (nodup_dset Nat.eqb Nat.eqb_spec). exact (p1_keys _ _ HP).
      - (* nodes of A *)
        intros x d Ex. pose proof (p1_old _ _ HP x d Ex) as Hx.
        assert (Hxn : x <> n') by (intros ->; congruence).
        rewrite Hget. destruct (Nat.eqb_spec x n'); [contradiction|].
        unfold is_mapped, mapn in *. rewrite !mget_dset.
        destruct (nd_parent b) as [q|] eqn:Eq.
        + (* c is not the root: pp is a copy, the root's status is unchanged *)
          assert (Hcr : root B <> c) by (intros E; apply (Hrootcase ltac:(discriminate)); auto).
          destruct (Nat.eqb_spec (root B) c); [contradiction|].
          destruct (Nat.eqb_spec x pp) as [->|]; [|exact Hx].
          rewrite (Hppcopy ltac:(discriminate)) in Ex. discriminate.
        + (* c is the root, pp = p *)
          assert (c = root B) as -> by now apply Hcroot.
          rewrite Nat.eqb_refl. rewrite Hc in Hx. rewrite andb_false_r in Hx.
          assert (pp = p) as Hppp by (subst pp; unfold pimg; now rewrite Eq). rewrite Hppp in *.
          destruct (Nat.eqb_spec x p) as [->|]; cbn [andb].
          * rewrite Hx in Eppd. injection Eppd as <-. reflexivity.
          * exact Hx.
      - (* copies *)
        intros y y'. rewrite mget_dset. destruct (Nat.eqb_spec y c) as [->|Hyc].
        + intros [= <-]. split; [exact HnA|]. exists b. eexists. split; [exact Hb|]. split.
          * rewrite Hget, Nat.eqb_refl. reflexivity.
          * cbn. repeat split.
            -- f_equal. subst pp. unfold pimg, mapn. destruct (nd_parent b) as [q|] eqn:Eq; [|reflexivity].
               rewrite mget_dset. destruct (Nat.eqb_spec q c) as [->|]; [|reflexivity].
               exfalso. now apply (Hpar c).
            -- intros q Eq. rewrite mget_dset. destruct (Nat.eqb q c); [discriminate|now apply Hpar].
        + intros Ey. destruct (p1_copy _ _ HP y y' Ey) as (HyA & by_ & dy & Eby & Edy & F1 & F2 & F3 & F4 & F5 & F6).
          split; [exact HyA|]. exists by_.
          assert (Hyn : y' <> n') by (intros ->; congruence).
          assert (Hpimg : pimg (dset Nat.eqb mk c n') by_ = pimg mk by_).
          { unfold pimg, mapn. destruct (nd_parent by_) as [q|] eqn:Eq; [|reflexivity].
            rewrite mget_dset. destruct (Nat.eqb_spec q c) as [->|]; [|reflexivity].
            exfalso. now apply (F6 c). }
          rewrite Hpimg.
          assert (Hpar' : forall q, nd_parent by_ = Some q -> mget (dset Nat.eqb mk c n') q <> None).
          { intros q Eq. rewrite mget_dset. destruct (Nat.eqb q c); [discriminate|now apply F6]. }
          rewrite Hget. destruct (Nat.eqb_spec y' n'); [contradiction|].
          destruct (Nat.eqb_spec y' pp) as [->|].
          * rewrite Edy in Eppd. injection Eppd as <-. eexists. split; [exact Eby|]. split; [reflexivity|].
            cbn. repeat split; assumption.
          * exists dy. repeat split; assumption.
      - intros c1 c2 v. rewrite !mget_dset.
        destruct (Nat.eqb_spec c1 c) as [->|]; destruct (Nat.eqb_spec c2 c) as [->|]; intros E1 E2; try reflexivity.
        + injection E1 as <-. exfalso. now apply (Hnval c2).
        + injection E2 as <-. exfalso. now apply (Hnval c1).
        + eapply (p1_inj _ _ HP); eassumption.
      - intros x. rewrite Hget. destruct (Nat.eqb_spec x n') as [->|].
        + intros _. right. exists c. now rewrite mget_dset, Nat.eqb_refl.
        + intros Hx.
          assert (Hlive : get_node Ak x <> None) by (destruct (Nat.eqb_spec x pp) as [->|]; [congruence|exact Hx]).
          destruct (p1_only _ _ HP x Hlive) as [|(y & Ey)]; [now left|right].
          exists y. rewrite mget_dset. destruct (Nat.eqb_spec y c) as [->|]; [congruence|exact Ey].
    Qed.

    Lemma insert_chain_app l1 : forall Ak mk l2,
      insert_chain Ak B mk parent (l1 ++ l2) =
      match insert_chain Ak B mk parent l1 with
      | (A1, m1, Ok) => insert_chain A1 B m1 parent l2
      | r => r
      end.
    Proof.
      induction l1 as [|c r IH]; intros Ak mk l2; cbn [app insert_chain]; [reflexivity|].
      destruct (get_node B c) as [d|]; [|reflexivity].
      destruct (nd_parent d) as [bp|]; [destruct (mget mk bp) as [x|]; [|reflexivity]|].
      - destruct (add_node Ak (nd_op d) (Some x) (Some (nd_outs d)) (nd_meta d)) as [[A1 n] [| | | |]]; try reflexivity.
        apply IH.
      - destruct (add_node Ak (nd_op d) parent (Some (nd_outs d)) (nd_meta d)) as [[A1 n] [| | | |]]; try reflexivity.
        apply IH.
    Qed.

    (* the hierarchy of B: parents are live, only the root has none, and it is well founded *)
    Variable depth : nid -> nat.
    Hypothesis Hdepth : forall n d q, get_node B n = Some d -> nd_parent d = Some q -> depth q < depth n.
    Hypothesis Hparlive : forall n d q, get_node B n = Some d -> nd_parent d = Some q -> get_node B q <> None.
    Hypothesis Honlyroot : forall n d, get_node B n = Some d -> nd_parent d = None -> n = root B.

    (* the not yet copied ancestors of a node, outermost first *)
    Inductive Chain (m : mapping) : list nid -> option nid -> Prop :=
    | Ch_none : Chain m [] None
    | Ch_mapped c v : mget m c = Some v -> Chain m [] (Some c)
    | Ch_step c d pre : mget m c = None -> get_node B c = Some d -> Chain m pre (nd_parent d) ->
                        Chain m (pre ++ [c]) (Some c).
    Lemma Chain_depth m pre cur : Chain m pre cur ->
      forall x, In x pre -> match cur with Some c => depth x <= depth c | None => False end.
    Proof.
      induction 1 as [|c v E|c d pre Hc Hd Hch IH]; intros x Hx; try destruct Hx.
      apply in_app_iff in Hx. destruct Hx as [Hx|[<-|[]]]; [|lia].
      specialize (IH x Hx). destruct (nd_parent d) as [q|] eqn:Eq; [|contradiction].
      pose proof (Hdepth c d q Hd Eq). lia.
    Qed.

    Lemma anc_ok (m : mapping) fuel : forall cur acc,
      (forall c, cur = Some c -> get_node B c <> None) ->
      NoDup acc -> (forall x, In x acc -> x < length (nodes B) /\ forall c, cur = Some c -> depth c < depth x) ->
      length (nodes B) < fuel + length acc ->
      exists pre, ancestors_todo fuel B m cur acc = inl (pre ++ acc) /\ Chain m pre cur.
    Proof.
      induction fuel as [|f IH]; intros cur acc Hlive Hnd Hacc Hfuel.
      - exfalso. cbn in Hfuel.
        assert (length acc <= length (seq 0 (length (nodes B)))).
        { apply NoDup_incl_length; [assumption|]. intros x Hx. apply in_seq. destruct (Hacc x Hx). lia. }
        rewrite seq_length in H. lia.
      - cbn [ancestors_todo]. destruct cur as [c|]; [|exists []; split; [reflexivity|constructor]].
        destruct (mget m c) as [v|] eqn:Em; [exists []; split; [reflexivity|econstructor; eassumption]|].
        destruct (get_node B c) as [d|] eqn:Ed; [|exfalso; now apply (Hlive c)].
        destruct (IH (nd_parent d) (c :: acc)) as (pre & Hanc & Hch).
        + intros q Eq. eapply Hparlive; eassumption.
        + constructor; [|assumption]. intros Hin. destruct (Hacc c Hin) as [_ H]. specialize (H c eq_refl). lia.
        + intros x [<-|Hx].
          * split; [eapply get_node_lt; eassumption|]. intros q Eq. eapply Hdepth; eassumption.
          * destruct (Hacc x Hx) as [Hl H]. split; [assumption|]. intros q Eq.
            specialize (H c eq_refl). pose proof (Hdepth c d q Ed Eq). lia.
        + cbn [length]. lia.
        + exists (pre ++ [c]). split; [rewrite Hanc; now rewrite <- app_assoc|]. econstructor; eassumption.
    Qed.

    Definition mono (m m1 : mapping) : Prop := forall y v, mget m y = Some v -> mget m1 y = Some v.

    Lemma chain_ok m pre cur : Chain m pre cur -> forall Ak, P1 Ak m ->
      exists A1 m1, insert_chain Ak B m parent pre = (A1, m1, Ok) /\ P1 A1 m1 /\ mono m m1 /\
        (forall y, mget m1 y <> None -> mget m y <> None \/ In y pre) /\
        (forall c, cur = Some c -> mget m1 c <> None).
    Proof.
      induction 1 as [|c v E|c d pre Hc Hd Hch IH]; intros Ak HP.
      - exists Ak, m. cbn. split; [reflexivity|]. split; [assumption|]. split; [intros y v H; exact H|].
        split; [intros y H; now left|]. intros c; discriminate.
      - exists Ak, m. cbn. split; [reflexivity|]. split; [assumption|]. split; [intros y v0 H; exact H|].
        split; [intros y H; now left|]. intros c' [= <-]. congruence.
      - destruct (IH Ak HP) as (A1 & m1 & Hins & HP1 & Hmono & Honly & Hcur).
        rewrite insert_chain_app, Hins.
        assert (Hc1 : mget m1 c = None).
        { destruct (mget m1 c) eqn:E; [|reflexivity]. exfalso.
          destruct (Honly c ltac:(congruence)) as [H|H]; [congruence|].
          pose proof (Chain_depth _ _ _ Hch c H) as Hd'. destruct (nd_parent d) as [q|] eqn:Eq; [|contradiction].
          pose proof (Hdepth c d q Hd Eq). lia. }
        destruct (ins_one A1 m1 c d HP1 Hd Hc1) as (A2 & n' & Hone & HP2).
        { intros q Eq. now apply Hcur. }
        { intros Eq. eapply Honlyroot; eassumption. }
        exists A2, (dset Nat.eqb m1 c n'). split; [exact Hone|]. split; [exact HP2|]. split; [|split].
        + intros y v Ey. rewrite mget_dset. destruct (Nat.eqb_spec y c) as [->|]; [congruence|now apply Hmono].
        + intros y. rewrite mget_dset. destruct (Nat.eqb_spec y c) as [->|].
          * intros _. right. apply in_or_app. right. now left.
          * intros Hy. destruct (Honly y Hy); [now left|right]. apply in_or_app. now left.
        + intros c' [= <-]. rewrite mget_dset, Nat.eqb_refl. discriminate.
    Qed.

    Lemma nodes_ok todo : forall Ak mk, P1 Ak mk -> (forall n, In n todo -> get_node B n <> None) ->
      exists A1 m1, insert_nodes Ak B mk parent todo = (A1, m1, Ok) /\ P1 A1 m1 /\ mono mk m1 /\
        (forall n, In n todo -> mget m1 n <> None).
    Proof.
      induction todo as [|n rest IH]; intros Ak mk HP Hlive; cbn [insert_nodes].
      - exists Ak, mk. split; [reflexivity|]. split; [assumption|]. split; [intros y v H; exact H|]. intros n [].
      - assert (Hex : exists pre, ancestors_todo (S (length (nodes B))) B mk (Some n) [] = inl (pre ++ []) /\ Chain mk pre (Some n)).
        { apply anc_ok.
          - intros c [= <-]. apply Hlive. now left.
          - constructor.
          - intros x [].
          - cbn. lia. }
        destruct Hex as (pre & Hanc & Hch).
        + rewrite Hanc, app_nil_r.
          destruct (chain_ok mk pre (Some n) Hch Ak HP) as (A1 & m1 & Hins & HP1 & Hmono & _ & Hcur).
          rewrite Hins.
          destruct (IH A1 m1 HP1) as (A2 & m2 & Hrest & HP2 & Hmono2 & Hall).
          { intros x Hx. apply Hlive. now right. }
          exists A2, m2. split; [exact Hrest|]. split; [exact HP2|]. split.
          * intros y v Ey. apply Hmono2, Hmono, Ey.
          * intros x [Ex|Hx]; [subst x|now apply Hall].
            destruct (mget m1 n) as [v|] eqn:E; [|exfalso; now apply (Hcur n)].
            rewrite (Hmono2 n v E). discriminate.
    Qed.
  End Phase1.
End Ins.
