(* Proofs for C08: insert_hugr (model/Graph.v) is an isomorphic embedding of the inserted HUGR and a frame
   for the target. *)
From Coq Require Import List Bool Arith ZArith Lia Permutation.
Import ListNotations.
From HV Require Import lib.PyDict lib.Harness model.BiMapM proofs.BiMapP model.Graph spec.GraphS
     spec.InsertS proofs.GraphP proofs.GraphInvP.

Section Ins.
  Context {Op Meta : Type}.
  Notation hugr := (hugr Op Meta).
  Notation node_data := (node_data Op Meta).
  Notation agraph := (agraph Op Meta).
  Notation aget := (dget Nat.eqb).
  Notation mget := (dget Nat.eqb).

  (* ---------------------------------------------------------------- every state represents some graph *)
  Fixpoint abs_from (l : list (option node_data)) (i : nat) : list (nid * anode Op Meta) :=
    match l with
    | [] => []
    | Some d :: r => (i, anode_of d) :: abs_from r (S i)
    | None :: r => abs_from r (S i)
    end.
  Definition abs (h : hugr) : agraph :=
    {| a_nodes := abs_from (nodes h) 0; a_links := lm_links (links h); a_root := root h |}.
  Lemma abs_from_keys l : forall i, map fst (abs_from l i) = live_from l i.
  Proof. induction l as [|[d|] r IH]; intros i; cbn; [reflexivity| |]; now rewrite IH. Qed.
  Lemma abs_from_get l : forall i n,
    aget (abs_from l i) n =
    if Nat.ltb n i then None
    else option_map anode_of (match nth_error l (n - i) with Some (Some d) => Some d | _ => None end).
  Proof.
    induction l as [|[d|] r IH]; intros i n; cbn [abs_from dget].
    - destruct (Nat.ltb n i); [reflexivity|]. now destruct (n - i).
    - destruct (Nat.eqb_spec n i) as [->|Hne].
      + rewrite Nat.ltb_irrefl, Nat.sub_diag. reflexivity.
      + rewrite IH. destruct (Nat.ltb_spec n i); destruct (Nat.ltb_spec n (S i)); try lia; [reflexivity|].
        replace (n - i) with (S (n - S i)) by lia. reflexivity.
    - rewrite IH. destruct (Nat.ltb_spec n i); destruct (Nat.ltb_spec n (S i)); try lia; [reflexivity| |].
      + assert (n = i) as -> by lia. now rewrite Nat.sub_diag.
      + replace (n - i) with (S (n - S i)) by lia. reflexivity.
  Qed.
  Lemma Rep_abs (h : hugr) : Rep h (abs h).
  Proof.
    split; [|split; [|split]]; cbn [abs a_nodes a_links a_root]; try reflexivity.
    - intros n. rewrite abs_from_get. cbn. now rewrite Nat.sub_0_r.
    - rewrite abs_from_keys. apply live_from_NoDup.
  Qed.
  Lemma abs_live (h : hugr) n : a_live (abs h) n = true <-> get_node h n <> None.
  Proof. apply rep_live, Rep_abs. Qed.

  Lemma mget_dset (m : mapping) k v k' : mget (dset Nat.eqb m k v) k' = if Nat.eqb k' k then Some v else mget m k'.
  Proof.
    destruct (Nat.eqb_spec k' k) as [->|Hne].
    - apply (dget_dset_same Nat.eqb Nat.eqb_spec).
    - now apply (dget_dset_other Nat.eqb Nat.eqb_spec).
  Qed.
  Definition is_mapped (m : mapping) (c : nid) : bool := match mget m c with Some _ => true | None => false end.

  (* ---------------------------------------------------------------- phase 1: copying the nodes *)
  Section Phase1.
    Variables (A B : hugr) (parent : option nid) (om : mapping).
    Let p := match parent with Some x => x | None => root A end.
    Hypothesis HpA : get_node A p <> None.
    Hypothesis HrootB : exists rb, get_node B (root B) = Some rb /\ nd_parent rb = None.

    Definition pimg (m : mapping) (b : node_data) : nid :=
      match nd_parent b with None => p | Some q => mapn m q end.

    Record P1 (Ak : hugr) (mk : mapping) : Prop := {
      p1_free : FreeOK Ak;
      p1_links : links Ak = links A;
      p1_root : root Ak = root A;
      p1_keys : NoDup (map fst mk);
      p1_old : forall x d, get_node A x = Some d ->
                 get_node Ak x = Some (if Nat.eqb x p && is_mapped mk (root B) then add_child (mapn mk (root B)) d else d);
      p1_copy : forall c c', mget mk c = Some c' ->
                 get_node A c' = None /\
                 exists b d', get_node B c = Some b /\ get_node Ak c' = Some d' /\
                   nd_op d' = nd_op b /\ nd_meta d' = nd_meta b /\ nd_outs d' = nd_outs b /\ nd_inps d' = 0%Z /\
                   nd_parent d' = Some (pimg mk b) /\ (forall q, nd_parent b = Some q -> mget mk q <> None);
      p1_inj : forall c1 c2 v, mget mk c1 = Some v -> mget mk c2 = Some v -> c1 = c2;
      p1_only : forall x, get_node Ak x <> None -> get_node A x <> None \/ exists c, mget mk c = Some x
    }.

    Lemma P1_init : Inv A -> P1 A [].
    Proof.
      intros (_ & HF & _). constructor; try reflexivity; try assumption.
      - constructor.
      - intros x d E. rewrite E. unfold is_mapped. cbn. now rewrite andb_false_r.
      - intros c c'. cbn. discriminate.
      - intros c1 c2 v. cbn. discriminate.
      - intros x H. now left.
    Qed.

    (* one node of B whose parent is already copied (or which is the root) *)
    Lemma ins_one Ak mk c b : P1 Ak mk -> get_node B c = Some b -> mget mk c = None ->
      (forall q, nd_parent b = Some q -> mget mk q <> None) -> (nd_parent b = None -> c = root B) ->
      exists A1 n', insert_chain om Ak B mk parent [c] = (A1, dset Nat.eqb mk c n', Ok) /\ P1 A1 (dset Nat.eqb mk c n').
    Proof.
      intros HP Hb Hc Hpar Hcroot. destruct HrootB as (rb & Erb & Prb).
      cbn [insert_chain]. rewrite Hb.
      set (pp := pimg mk b).
      assert (Hnp : match nd_parent b with
                    | Some bp => match mget mk bp with Some x => inl (Some x) | None => inr EKey end
                    | None => inl parent
                    end = inl (match nd_parent b with Some _ => Some pp | None => parent end)
                    /\ match (match nd_parent b with Some _ => Some pp | None => parent end) with Some x => x | None => root Ak end = pp).
      { subst pp. unfold pimg, mapn. destruct (nd_parent b) as [q|] eqn:Eq.
        - specialize (Hpar q eq_refl). destruct (mget mk q); [split; reflexivity|congruence].
        - split; [reflexivity|]. unfold p. rewrite (p1_root _ _ HP). reflexivity. }
      destruct Hnp as [-> Hpp].
      assert (Hpplive : exists ppd, get_node Ak pp = Some ppd).
      { subst pp. unfold pimg, mapn. destruct (nd_parent b) as [q|] eqn:Eq.
        - specialize (Hpar q eq_refl). destruct (mget mk q) as [x|] eqn:Ex; [|congruence].
          destruct (p1_copy _ _ HP q x Ex) as (_ & bq & dq & _ & E & _). eauto.
        - destruct (get_node A p) as [d|] eqn:Ed; [|congruence]. rewrite (p1_old _ _ HP p d Ed). eauto. }
      destruct Hpplive as (ppd & Eppd).
      unfold add_node. rewrite prefer_root, Hpp.
      destruct (add_node_effect (prefer (mget om c) Ak) (nd_op b) pp (Some (nd_outs b)) (nd_meta b) ppd
                  (FreeOK_prefer _ _ (p1_free _ _ HP)) ltac:(rewrite prefer_get; exact Eppd))
        as (A1 & n' & Hadd & Hdead & Hget & Hlk & Hrt & HF1).
      rewrite prefer_get in Hdead. rewrite prefer_links in Hlk. rewrite prefer_root in Hrt.
      assert (Hget' : forall x, get_node A1 x =
                 if Nat.eqb x n' then Some (set_outs (new_node (nd_op b) pp (nd_meta b)) (zdflt (Some (nd_outs b))))
                 else if Nat.eqb x pp then Some (add_child n' ppd) else get_node Ak x).
      { intros x. rewrite Hget. now rewrite prefer_get. }
      clear Hget. rename Hget' into Hget.
      rewrite Hadd. cbn [insert_chain]. exists A1, n'. split; [reflexivity|].
      assert (HnA : get_node A n' = None).
      { destruct (get_node A n') as [d|] eqn:E; [|reflexivity]. rewrite (p1_old _ _ HP n' d E) in Hdead. discriminate. }
      assert (Hnval : forall y, mget mk y <> Some n').
      { intros y E. destruct (p1_copy _ _ HP y n' E) as (_ & _ & d' & _ & E' & _). congruence. }
      (* the root of B is touched only when c is the root *)
      assert (Hrootcase : nd_parent b <> None -> c <> root B) by (intros H ->; congruence).
      assert (Hppcopy : nd_parent b <> None -> get_node A pp = None).
      { intros H. subst pp. unfold pimg, mapn. destruct (nd_parent b) as [q|] eqn:Eq; [|congruence].
        specialize (Hpar q eq_refl). destruct (mget mk q) as [x|] eqn:Ex; [|congruence].
        now destruct (p1_copy _ _ HP q x Ex). }
      constructor.
      - exact HF1.
      - now rewrite Hlk, (p1_links _ _ HP).
      - now rewrite Hrt, (p1_root _ _ HP).
      - apply (nodup_dset Nat.eqb Nat.eqb_spec). exact (p1_keys _ _ HP).
      - (* nodes of A *)
        intros x d Ex. pose proof (p1_old _ _ HP x d Ex) as Hx.
        assert (Hxn : x <> n') by (intros ->; congruence).
        rewrite Hget. destruct (Nat.eqb_spec x n'); [contradiction|].
        unfold is_mapped, mapn in *. rewrite !mget_dset.
        destruct (nd_parent b) as [q|] eqn:Eq.
        + (* c is not the root: pp is a copy, the root's status is unchanged *)
          assert (Hcr : root B <> c) by (intros E; apply (Hrootcase ltac:(discriminate)); auto).
          destruct (Nat.eqb_spec (root B) c); [contradiction|].
          destruct (Nat.eqb_spec x pp) as [->|]; [|exact Hx].
          rewrite (Hppcopy ltac:(discriminate)) in Ex. discriminate.
        + (* c is the root, pp = p *)
          assert (c = root B) as -> by now apply Hcroot.
          rewrite Nat.eqb_refl. rewrite Hc in Hx. rewrite andb_false_r in Hx.
          assert (pp = p) as Hppp by (subst pp; unfold pimg; now rewrite Eq). rewrite Hppp in *.
          destruct (Nat.eqb_spec x p) as [->|]; cbn [andb].
          * rewrite Hx in Eppd. injection Eppd as <-. reflexivity.
          * exact Hx.
      - (* copies *)
        intros y y'. rewrite mget_dset. destruct (Nat.eqb_spec y c) as [->|Hyc].
        + intros [= <-]. split; [exact HnA|]. exists b. eexists. split; [exact Hb|]. split.
          * rewrite Hget, Nat.eqb_refl. reflexivity.
          * cbn. repeat split.
            -- f_equal. subst pp. unfold pimg, mapn. destruct (nd_parent b) as [q|] eqn:Eq; [|reflexivity].
               rewrite mget_dset. destruct (Nat.eqb_spec q c) as [->|]; [|reflexivity].
               exfalso. now apply (Hpar c).
            -- intros q Eq. rewrite mget_dset. destruct (Nat.eqb q c); [discriminate|now apply Hpar].
        + intros Ey. destruct (p1_copy _ _ HP y y' Ey) as (HyA & by_ & dy & Eby & Edy & F1 & F2 & F3 & F4 & F5 & F6).
          split; [exact HyA|]. exists by_.
          assert (Hyn : y' <> n') by (intros ->; congruence).
          assert (Hpimg : pimg (dset Nat.eqb mk c n') by_ = pimg mk by_).
          { unfold pimg, mapn. destruct (nd_parent by_) as [q|] eqn:Eq; [|reflexivity].
            rewrite mget_dset. destruct (Nat.eqb_spec q c) as [->|]; [|reflexivity].
            exfalso. now apply (F6 c). }
          rewrite Hpimg.
          assert (Hpar' : forall q, nd_parent by_ = Some q -> mget (dset Nat.eqb mk c n') q <> None).
          { intros q Eq. rewrite mget_dset. destruct (Nat.eqb q c); [discriminate|now apply F6]. }
          rewrite Hget. destruct (Nat.eqb_spec y' n'); [contradiction|].
          destruct (Nat.eqb_spec y' pp) as [->|].
          * rewrite Edy in Eppd. injection Eppd as <-. eexists. split; [exact Eby|]. split; [reflexivity|].
            cbn. repeat split; assumption.
          * exists dy. repeat split; assumption.
      - intros c1 c2 v. rewrite !mget_dset.
        destruct (Nat.eqb_spec c1 c) as [->|]; destruct (Nat.eqb_spec c2 c) as [->|]; intros E1 E2; try reflexivity.
        + injection E1 as <-. exfalso. now apply (Hnval c2).
        + injection E2 as <-. exfalso. now apply (Hnval c1).
        + eapply (p1_inj _ _ HP); eassumption.
      - intros x. rewrite Hget. destruct (Nat.eqb_spec x n') as [->|].
        + intros _. right. exists c. now rewrite mget_dset, Nat.eqb_refl.
        + intros Hx.
          assert (Hlive : get_node Ak x <> None) by (destruct (Nat.eqb_spec x pp) as [->|]; [congruence|exact Hx]).
          destruct (p1_only _ _ HP x Hlive) as [|(y & Ey)]; [now left|right].
          exists y. rewrite mget_dset. destruct (Nat.eqb_spec y c) as [->|]; [congruence|exact Ey].
    Qed.

    Lemma insert_chain_app l1 : forall Ak mk l2,
      insert_chain om Ak B mk parent (l1 ++ l2) =
      match insert_chain om Ak B mk parent l1 with
      | (A1, m1, Ok) => insert_chain om A1 B m1 parent l2
      | r => r
      end.
    Proof.
      induction l1 as [|c r IH]; intros Ak mk l2; cbn [app insert_chain]; [reflexivity|].
      destruct (get_node B c) as [d|]; [|reflexivity].
      destruct (nd_parent d) as [bp|]; [destruct (mget mk bp) as [x|]; [|reflexivity]|].
      - destruct (add_node (prefer (mget om c) Ak) (nd_op d) (Some x) (Some (nd_outs d)) (nd_meta d)) as [[A1 n] [| | | |]]; try reflexivity.
        apply IH.
      - destruct (add_node (prefer (mget om c) Ak) (nd_op d) parent (Some (nd_outs d)) (nd_meta d)) as [[A1 n] [| | | |]]; try reflexivity.
        apply IH.
    Qed.

    (* the hierarchy of B: parents are live, only the root has none, and it is well founded *)
    Variable depth : nid -> nat.
    Hypothesis Hdepth : forall n d q, get_node B n = Some d -> nd_parent d = Some q -> depth q < depth n.
    Hypothesis Hparlive : forall n d q, get_node B n = Some d -> nd_parent d = Some q -> get_node B q <> None.
    Hypothesis Honlyroot : forall n d, get_node B n = Some d -> nd_parent d = None -> n = root B.

    (* the not yet copied ancestors of a node, outermost first *)
    Inductive Chain (m : mapping) : list nid -> option nid -> Prop :=
    | Ch_none : Chain m [] None
    | Ch_mapped c v : mget m c = Some v -> Chain m [] (Some c)
    | Ch_step c d pre : mget m c = None -> get_node B c = Some d -> Chain m pre (nd_parent d) ->
                        Chain m (pre ++ [c]) (Some c).
    Lemma Chain_depth m pre cur : Chain m pre cur ->
      forall x, In x pre -> match cur with Some c => depth x <= depth c | None => False end.
    Proof.
      induction 1 as [|c v E|c d pre Hc Hd Hch IH]; intros x Hx; try destruct Hx.
      apply in_app_iff in Hx. destruct Hx as [Hx|[<-|[]]]; [|lia].
      specialize (IH x Hx). destruct (nd_parent d) as [q|] eqn:Eq; [|contradiction].
      pose proof (Hdepth c d q Hd Eq). lia.
    Qed.

    Lemma anc_ok (m : mapping) fuel : forall cur acc,
      (forall c, cur = Some c -> get_node B c <> None) ->
      NoDup acc -> (forall x, In x acc -> x < length (nodes B) /\ forall c, cur = Some c -> depth c < depth x) ->
      length (nodes B) < fuel + length acc ->
      exists pre, ancestors_todo fuel B m cur acc = inl (pre ++ acc) /\ Chain m pre cur.
    Proof.
      induction fuel as [|f IH]; intros cur acc Hlive Hnd Hacc Hfuel.
      - exfalso. cbn in Hfuel.
        assert (length acc <= length (seq 0 (length (nodes B)))).
        { apply NoDup_incl_length; [assumption|]. intros x Hx. apply in_seq. destruct (Hacc x Hx). lia. }
        rewrite seq_length in H. lia.
      - cbn [ancestors_todo]. destruct cur as [c|]; [|exists []; split; [reflexivity|constructor]].
        destruct (mget m c) as [v|] eqn:Em; [exists []; split; [reflexivity|econstructor; eassumption]|].
        destruct (get_node B c) as [d|] eqn:Ed; [|exfalso; now apply (Hlive c)].
        destruct (IH (nd_parent d) (c :: acc)) as (pre & Hanc & Hch).
        + intros q Eq. eapply Hparlive; eassumption.
        + constructor; [|assumption]. intros Hin. destruct (Hacc c Hin) as [_ H]. specialize (H c eq_refl). lia.
        + intros x [<-|Hx].
          * split; [eapply get_node_lt; eassumption|]. intros q Eq. eapply Hdepth; eassumption.
          * destruct (Hacc x Hx) as [Hl H]. split; [assumption|]. intros q Eq.
            specialize (H c eq_refl). pose proof (Hdepth c d q Ed Eq). lia.
        + cbn [length]. lia.
        + exists (pre ++ [c]). split; [rewrite Hanc; now rewrite <- app_assoc|]. econstructor; eassumption.
    Qed.

    Definition mono (m m1 : mapping) : Prop := forall y v, mget m y = Some v -> mget m1 y = Some v.

    Lemma chain_ok m pre cur : Chain m pre cur -> forall Ak, P1 Ak m ->
      exists A1 m1, insert_chain om Ak B m parent pre = (A1, m1, Ok) /\ P1 A1 m1 /\ mono m m1 /\
        (forall y, mget m1 y <> None -> mget m y <> None \/ In y pre) /\
        (forall c, cur = Some c -> mget m1 c <> None).
    Proof.
      induction 1 as [|c v E|c d pre Hc Hd Hch IH]; intros Ak HP.
      - exists Ak, m. cbn. split; [reflexivity|]. split; [assumption|]. split; [intros y v H; exact H|].
        split; [intros y H; now left|]. intros c; discriminate.
      - exists Ak, m. cbn. split; [reflexivity|]. split; [assumption|]. split; [intros y v0 H; exact H|].
        split; [intros y H; now left|]. intros c' [= <-]. congruence.
      - destruct (IH Ak HP) as (A1 & m1 & Hins & HP1 & Hmono & Honly & Hcur).
        rewrite insert_chain_app, Hins.
        assert (Hc1 : mget m1 c = None).
        { destruct (mget m1 c) eqn:E; [|reflexivity]. exfalso.
          destruct (Honly c ltac:(congruence)) as [H|H]; [congruence|].
          pose proof (Chain_depth _ _ _ Hch c H) as Hd'. destruct (nd_parent d) as [q|] eqn:Eq; [|contradiction].
          pose proof (Hdepth c d q Hd Eq). lia. }
        destruct (ins_one A1 m1 c d HP1 Hd Hc1) as (A2 & n' & Hone & HP2).
        { intros q Eq. now apply Hcur. }
        { intros Eq. eapply Honlyroot; eassumption. }
        exists A2, (dset Nat.eqb m1 c n'). split; [exact Hone|]. split; [exact HP2|]. split; [|split].
        + intros y v Ey. rewrite mget_dset. destruct (Nat.eqb_spec y c) as [->|]; [congruence|now apply Hmono].
        + intros y. rewrite mget_dset. destruct (Nat.eqb_spec y c) as [->|].
          * intros _. right. apply in_or_app. right. now left.
          * intros Hy. destruct (Honly y Hy); [now left|right]. apply in_or_app. now left.
        + intros c' [= <-]. rewrite mget_dset, Nat.eqb_refl. discriminate.
    Qed.

    Lemma nodes_ok todo : forall Ak mk, P1 Ak mk -> (forall n, In n todo -> get_node B n <> None) ->
      exists A1 m1, insert_nodes om Ak B mk parent todo = (A1, m1, Ok) /\ P1 A1 m1 /\ mono mk m1 /\
        (forall n, In n todo -> mget m1 n <> None).
    Proof.
      induction todo as [|n rest IH]; intros Ak mk HP Hlive; cbn [insert_nodes].
      - exists Ak, mk. split; [reflexivity|]. split; [assumption|]. split; [intros y v H; exact H|]. intros n [].
      - assert (Hex : exists pre, ancestors_todo (S (length (nodes B))) B mk (Some n) [] = inl (pre ++ []) /\ Chain mk pre (Some n)).
        { apply anc_ok.
          - intros c [= <-]. apply Hlive. now left.
          - constructor.
          - intros x [].
          - cbn. lia. }
        destruct Hex as (pre & Hanc & Hch).
        + rewrite Hanc, app_nil_r.
          destruct (chain_ok mk pre (Some n) Hch Ak HP) as (A1 & m1 & Hins & HP1 & Hmono & _ & Hcur).
          rewrite Hins.
          destruct (IH A1 m1 HP1) as (A2 & m2 & Hrest & HP2 & Hmono2 & Hall).
          { intros x Hx. apply Hlive. now right. }
          exists A2, m2. split; [exact Hrest|]. split; [exact HP2|]. split.
          * intros y v Ey. apply Hmono2, Hmono, Ey.
          * intros x [Ex|Hx]; [subst x|now apply Hall].
            destruct (mget m1 n) as [v|] eqn:E; [|exfalso; now apply (Hcur n)].
            rewrite (Hmono2 n v E). discriminate.
    Qed.
  End Phase1.

  (* ---------------------------------------------------------------- phase 2: copying the children order *)
  Fixpoint pre_in (m : mapping) (todo : list nid) (x : nid) : option nid :=
    match todo with
    | [] => None
    | n :: r => match mget m n with
                | Some v => if Nat.eqb v x then Some n else pre_in m r x
                | None => pre_in m r x
                end
    end.
  Lemma pre_in_sound m todo x n : pre_in m todo x = Some n -> In n todo /\ mget m n = Some x.
  Proof.
    induction todo as [|k r IH]; cbn; [discriminate|].
    destruct (mget m k) as [v|] eqn:E.
    - destruct (Nat.eqb_spec v x) as [->|]; [intros [= <-]; auto|intros H; apply IH in H; tauto].
    - intros H; apply IH in H; tauto.
  Qed.
  Lemma pre_in_complete m todo x n : In n todo -> mget m n = Some x -> pre_in m todo x <> None.
  Proof.
    induction todo as [|k r IH]; cbn; [tauto|]. intros [->|Hin] E.
    - rewrite E, Nat.eqb_refl. discriminate.
    - destruct (mget m k) as [v|]; [destruct (Nat.eqb v x); [discriminate|]|]; auto.
  Qed.
  Lemma map_opt_mapn (m : mapping) l : (forall c, In c l -> mget m c <> None) ->
    map_opt (mget m) l = Some (map (mapn m) l).
  Proof.
    induction l as [|c r IH]; cbn; [reflexivity|]. intros H. unfold mapn at 1.
    destruct (mget m c) as [v|] eqn:E; [|exfalso; apply (H c); auto].
    rewrite IH; [reflexivity|]. intros x Hx. apply H. now right.
  Qed.
  Definition kids (B : hugr) (n : nid) : list nid :=
    match get_node B n with Some d => nd_children d | None => [] end.

  Lemma copy_children_ok (B : hugr) (m : mapping) :
    (forall c1 c2 v, mget m c1 = Some v -> mget m c2 = Some v -> c1 = c2) ->
    forall todo Ak,
    (forall n, In n todo -> exists d n' d', get_node B n = Some d /\ mget m n = Some n' /\ get_node Ak n' = Some d' /\
                                            forall c, In c (nd_children d) -> mget m c <> None) ->
    exists A2, copy_children Ak B m todo = (A2, Ok) /\ links A2 = links Ak /\ root A2 = root Ak /\
      free A2 = free Ak /\ length (nodes A2) = length (nodes Ak) /\
      forall x, get_node A2 x = match pre_in m todo x, get_node Ak x with
                                | Some n, Some d => Some (set_children d (map (mapn m) (kids B n)))
                                | _, o => o
                                end.
  Proof.
    intros Hinj. induction todo as [|n rest IH]; intros Ak Hall; cbn [copy_children].
    - exists Ak. repeat split; try reflexivity.
    - destruct (Hall n ltac:(now left)) as (d & n' & d' & Ed & Em & Ed' & Hch).
      rewrite Ed, Em, Ed', (map_opt_mapn m _ Hch).
      set (Ak' := set_node Ak n' (set_children d' (map (mapn m) (nd_children d)))).
      assert (Hget' : forall x, get_node Ak' x = if Nat.eqb x n' then Some (set_children d' (map (mapn m) (nd_children d))) else get_node Ak x).
      { intros x. subst Ak'. apply get_set_node. eapply get_node_lt; eassumption. }
      destruct (IH Ak') as (A2 & Hc & Hl & Hr & Hf & Hlen & Hget).
      { intros k Hk. destruct (Hall k ltac:(now right)) as (dk & k' & dk' & E1 & E2 & E3 & E4).
        exists dk, k'. rewrite Hget'. destruct (Nat.eqb k' n'); eauto. }
      exists A2. split; [exact Hc|]. split; [rewrite Hl; reflexivity|]. split; [rewrite Hr; reflexivity|].
      split; [rewrite Hf; reflexivity|]. split; [rewrite Hlen; subst Ak'; apply length_set_nth|].
      intros x. rewrite Hget, Hget'. cbn [pre_in]. rewrite Em.
      destruct (Nat.eqb_spec n' x) as [->|Hne].
      + rewrite Nat.eqb_refl, Ed'. unfold kids at 2. rewrite Ed.
        destruct (pre_in m rest x) as [n2|] eqn:Ep; [|reflexivity].
        apply pre_in_sound in Ep. destruct Ep as [_ Ep]. assert (n2 = n) by (eapply Hinj; eassumption). subst n2.
        unfold kids. rewrite Ed. reflexivity.
      + destruct (Nat.eqb_spec x n'); [congruence|]. reflexivity.
  Qed.

  (* ---------------------------------------------------------------- the state after phases 1 and 2 *)
  Definition WF (B : hugr) : Prop :=
    exists depth : nid -> nat, forall n d q, get_node B n = Some d -> nd_parent d = Some q -> depth q < depth n.

  Record Shape (A B : hugr) (p : nid) (m : mapping) (A2 : hugr) : Prop := {
    sh_free : FreeOK A2;
    sh_links : links A2 = links A;
    sh_root : root A2 = root A;
    sh_keys : NoDup (map fst m);
    sh_dom : forall c, mget m c <> None <-> get_node B c <> None;
    sh_inj : forall c1 c2 v, mget m c1 = Some v -> mget m c2 = Some v -> c1 = c2;
    sh_fresh : forall c c', mget m c = Some c' -> get_node A c' = None;
    sh_old : forall x d, get_node A x = Some d ->
               get_node A2 x = Some (if Nat.eqb x p then add_child (mapn m (root B)) d else d);
    sh_copy : forall c c' b, mget m c = Some c' -> get_node B c = Some b ->
               exists d', get_node A2 c' = Some d' /\ nd_op d' = nd_op b /\ nd_meta d' = nd_meta b /\
                 nd_outs d' = nd_outs b /\ nd_inps d' = 0%Z /\
                 nd_parent d' = Some (match nd_parent b with None => p | Some q => mapn m q end) /\
                 nd_children d' = map (mapn m) (nd_children b);
    sh_only : forall x, get_node A2 x <> None -> get_node A x <> None \/ exists c, mget m c = Some x
  }.

  Lemma tree_facts (B : hugr) : Tree B ->
    (exists rb, get_node B (root B) = Some rb /\ nd_parent rb = None) /\
    (forall n d q, get_node B n = Some d -> nd_parent d = Some q -> get_node B q <> None) /\
    (forall n d, get_node B n = Some d -> nd_parent d = None -> n = root B).
  Proof.
    intros (T1 & T2 & T3 & T4). split; [exact T1|]. split.
    - intros n d q E P. destruct T1 as (rb & Er & Pr).
      destruct (Nat.eq_dec n (root B)) as [->|Hne]; [congruence|].
      destruct (T2 n d E Hne) as (p0 & pd & P0 & Ep & _). congruence.
    - intros n d E P. destruct (Nat.eq_dec n (root B)) as [|Hne]; [assumption|].
      destruct (T2 n d E Hne) as (p0 & pd & P0 & _). congruence.
  Qed.

  Lemma phase12 (om : mapping) (A B : hugr) (parent : option nid) :
    let p := match parent with Some x => x | None => root A end in
    Inv A -> Inv B -> WF B -> get_node A p <> None ->
    exists A1 A2 m, insert_nodes om A B [] parent (iter_nodes B) = (A1, m, Ok) /\
                    copy_children A1 B m (iter_nodes B) = (A2, Ok) /\ Shape A B p m A2.
  Proof.
    intros p HIA HIB (depth & Hdepth) HpA. pose proof HIB as (_ & _ & _ & HTB).
    destruct (tree_facts B HTB) as (HrootB & Hparlive & Honlyroot).
    destruct (nodes_ok A B parent om HpA HrootB depth Hdepth Hparlive Honlyroot (iter_nodes B) A []
                (P1_init A B parent HIA)) as (A1 & m & Hins & HP & _ & Hall).
    { intros n Hn. now apply iter_nodes_In. }
    fold p in HP.
    assert (Hdom : forall c, mget m c <> None <-> get_node B c <> None).
    { intros c. split.
      - intros H. destruct (mget m c) as [c'|] eqn:E; [|congruence].
        destruct (p1_copy _ _ _ _ _ HP c c' E) as (_ & b & _ & Eb & _). congruence.
      - intros H. apply Hall. now apply iter_nodes_In. }
    destruct (copy_children_ok B m (p1_inj _ _ _ _ _ HP) (iter_nodes B) A1) as (A2 & Hcc & Hl2 & Hr2 & Hf2 & Hlen2 & Hget2).
    { intros n Hn. apply iter_nodes_In in Hn. destruct (get_node B n) as [d|] eqn:Ed; [|congruence].
      destruct (mget m n) as [n'|] eqn:Em; [|exfalso; apply (proj2 (Hdom n)); congruence].
      destruct (p1_copy _ _ _ _ _ HP n n' Em) as (_ & b & d' & Eb & Ed' & _).
      exists d, n', d'. repeat split; try assumption. intros c Hc. apply Hdom.
      destruct HTB as (_ & _ & T3 & _). destruct (T3 n d c Ed Hc) as (dc & Ec & _). congruence. }
    exists A1, A2, m. split; [exact Hins|]. split; [exact Hcc|].
    assert (Hrootm : is_mapped m (root B) = true).
    { unfold is_mapped. destruct HrootB as (rb & Er & _). destruct (mget m (root B)) eqn:E; [reflexivity|].
      exfalso. apply (proj2 (Hdom (root B))); congruence. }
    constructor.
    - apply (FreeOK_ext A1); [|exact Hf2|exact Hlen2|exact (p1_free _ _ _ _ _ HP)].
      intros x. rewrite Hget2. destruct (pre_in m (iter_nodes B) x); destruct (get_node A1 x); split; congruence.
    - now rewrite Hl2, (p1_links _ _ _ _ _ HP).
    - now rewrite Hr2, (p1_root _ _ _ _ _ HP).
    - exact (p1_keys _ _ _ _ _ HP).
    - exact Hdom.
    - exact (p1_inj _ _ _ _ _ HP).
    - intros c c' E. now destruct (p1_copy _ _ _ _ _ HP c c' E).
    - intros x d Ex. rewrite Hget2.
      assert (pre_in m (iter_nodes B) x = None) as ->.
      { destruct (pre_in m (iter_nodes B) x) as [n|] eqn:E; [|reflexivity]. apply pre_in_sound in E.
        destruct E as [_ E]. destruct (p1_copy _ _ _ _ _ HP n x E) as (H & _). congruence. }
      rewrite (p1_old _ _ _ _ _ HP x d Ex), Hrootm, andb_true_r. reflexivity.
    - intros c c' b Em Eb. rewrite Hget2.
      destruct (p1_copy _ _ _ _ _ HP c c' Em) as (_ & b0 & d' & Eb0 & Ed' & F1 & F2 & F3 & F4 & F5 & _).
      assert (b0 = b) by congruence. subst b0.
      destruct (pre_in m (iter_nodes B) c') as [n|] eqn:E.
      + apply pre_in_sound in E. destruct E as [_ E].
        assert (n = c) by (eapply (p1_inj _ _ _ _ _ HP); eassumption). subst n.
        rewrite Ed'. eexists. split; [reflexivity|]. cbn. unfold kids. rewrite Eb. repeat split; assumption.
      + exfalso. apply (pre_in_complete m (iter_nodes B) c' c); [apply iter_nodes_In; congruence|assumption|assumption].
    - intros x. rewrite Hget2. intros H. apply (p1_only _ _ _ _ _ HP).
      destruct (pre_in m (iter_nodes B) x); destruct (get_node A1 x); congruence.
  Qed.

  Lemma mapn_get (m : mapping) c c' : mget m c = Some c' -> mapn m c = c'.
  Proof. unfold mapn. now intros ->. Qed.
  Lemma NoDup_map_inj_in {X Y} (f : X -> Y) (l : list X) :
    (forall a b, In a l -> In b l -> f a = f b -> a = b) -> NoDup l -> NoDup (map f l).
  Proof.
    induction l as [|x r IH]; cbn; intros Hf Hnd; [constructor|]. inversion Hnd; subst. constructor.
    - intros Hin. apply in_map_iff in Hin. destruct Hin as (y & Ey & Hy).
      assert (y = x) by (apply Hf; auto). subst y. contradiction.
    - apply IH; [|assumption]. intros a b Ha Hb. apply Hf; auto.
  Qed.

  Lemma shape_inv (A B : hugr) p m A2 : Inv A -> Inv B -> get_node A p <> None -> Shape A B p m A2 -> Inv A2.
  Proof.
    intros (HLA & HFA & HCA & HTA) (HLB & HFB & HCB & HTB) HpA HS.
    destruct (tree_facts B HTB) as ((rb & Erb & Prb) & Hparlive & Honlyroot).
    pose proof HTA as (TA1 & TA2 & TA3 & TA4). pose proof HTB as (TB1 & TB2 & TB3 & TB4).
    destruct (get_node A p) as [dp|] eqn:Edp; [|congruence].
    (* images *)
    assert (Himg : forall c b, get_node B c = Some b -> exists c', mget m c = Some c' /\ mapn m c = c').
    { intros c b E. destruct (mget m c) as [c'|] eqn:Em; [exists c'; split; [reflexivity|now apply mapn_get]|].
      exfalso. apply (proj2 (sh_dom _ _ _ _ _ HS c)); congruence. }
    destruct (Himg _ _ Erb) as (r' & Emr & Hr').
    split; [|split; [|split]].
    - rewrite (sh_links _ _ _ _ _ HS). exact HLA.
    - exact (sh_free _ _ _ _ _ HS).
    - intros s t Hin. rewrite (sh_links _ _ _ _ _ HS) in Hin.
      destruct (HCA s t Hin) as ((d & E & Bd) & (d2 & E2 & Bd2)). split.
      + rewrite (sh_old _ _ _ _ _ HS _ _ E). eexists. split; [reflexivity|]. destruct (Nat.eqb (fst s) p); exact Bd.
      + rewrite (sh_old _ _ _ _ _ HS _ _ E2). eexists. split; [reflexivity|]. destruct (Nat.eqb (fst t) p); exact Bd2.
    - unfold Tree. rewrite (sh_root _ _ _ _ _ HS). split; [|split; [|split]].
      + destruct TA1 as (d & E & P). rewrite (sh_old _ _ _ _ _ HS _ _ E). eexists. split; [reflexivity|].
        destruct (Nat.eqb (root A) p); exact P.
      + intros x dx Ex Hxr.
        destruct (sh_only _ _ _ _ _ HS x ltac:(congruence)) as [Hlive|(c & Ec)].
        * destruct (get_node A x) as [d|] eqn:Ed; [|congruence].
          rewrite (sh_old _ _ _ _ _ HS _ _ Ed) in Ex. injection Ex as <-.
          destruct (TA2 x d Ed Hxr) as (q & qd & Pq & Eq & Hin).
          exists q. eexists. split; [destruct (Nat.eqb x p); exact Pq|].
          split; [exact (sh_old _ _ _ _ _ HS _ _ Eq)|].
          destruct (Nat.eqb q p); [cbn; apply in_or_app; now left|exact Hin].
        * assert (Hb : exists b, get_node B c = Some b).
          { destruct (get_node B c) as [b|] eqn:E; [eauto|]. exfalso. apply (proj1 (sh_dom _ _ _ _ _ HS c)); congruence. }
          destruct Hb as (b & Eb).
          destruct (sh_copy _ _ _ _ _ HS c x b Ec Eb) as (d' & Ed' & _ & _ & _ & _ & Pd' & _).
          assert (dx = d') by congruence. subst dx.
          destruct (nd_parent b) as [q|] eqn:Eq.
          -- (* parent is the image of q *)
             assert (Hcr : c <> root B) by (intros ->; congruence).
             destruct (TB2 c b Eb Hcr) as (q0 & qd & Pq & Eqd & Hin). assert (q0 = q) by congruence. subst q0.
             destruct (Himg _ _ Eqd) as (q' & Emq & Hq').
             destruct (sh_copy _ _ _ _ _ HS q q' qd Emq Eqd) as (dq & Edq & _ & _ & _ & _ & _ & Cdq).
             exists q', dq. rewrite Hq' in Pd'. split; [exact Pd'|]. split; [exact Edq|].
             rewrite Cdq. apply in_map_iff. exists c. split; [now apply mapn_get|exact Hin].
          -- assert (c = root B) by (eapply Honlyroot; eassumption). subst c.
             exists p. eexists. split; [exact Pd'|]. split; [exact (sh_old _ _ _ _ _ HS _ _ Edp)|].
             rewrite Nat.eqb_refl. cbn. apply in_or_app. right. left. now apply mapn_get.
      + intros x dx y Ex Hy.
        destruct (sh_only _ _ _ _ _ HS x ltac:(congruence)) as [Hlive|(c & Ec)].
        * destruct (get_node A x) as [d|] eqn:Ed; [|congruence].
          rewrite (sh_old _ _ _ _ _ HS _ _ Ed) in Ex. injection Ex as <-.
          assert (Hcase : In y (nd_children d) \/ (x = p /\ y = r')).
          { destruct (Nat.eqb_spec x p) as [->|]; [|now left]. cbn in Hy. apply in_app_or in Hy.
            destruct Hy as [Hy|[Hy|[]]]; [now left|right]. split; [reflexivity|]. now rewrite <- Hy, Hr'. }
          destruct Hcase as [Hin|[-> ->]].
          -- destruct (TA3 x d y Ed Hin) as (dy & Edy & Pdy). rewrite (sh_old _ _ _ _ _ HS _ _ Edy).
             eexists. split; [reflexivity|]. destruct (Nat.eqb y p); exact Pdy.
          -- destruct (sh_copy _ _ _ _ _ HS _ _ _ Emr Erb) as (d' & Ed' & _ & _ & _ & _ & Pd' & _).
             exists d'. split; [exact Ed'|]. now rewrite Prb in Pd'.
        * assert (Hb : exists b, get_node B c = Some b).
          { destruct (get_node B c) as [b|] eqn:E; [eauto|]. exfalso. apply (proj1 (sh_dom _ _ _ _ _ HS c)); congruence. }
          destruct Hb as (b & Eb).
          destruct (sh_copy _ _ _ _ _ HS c x b Ec Eb) as (d' & Ed' & _ & _ & _ & _ & _ & Cd').
          assert (dx = d') by congruence. subst dx. rewrite Cd' in Hy. apply in_map_iff in Hy.
          destruct Hy as (c2 & <- & Hc2). destruct (TB3 c b c2 Eb Hc2) as (b2 & Eb2 & Pb2).
          destruct (Himg _ _ Eb2) as (c2' & Em2 & Hc2').
          destruct (sh_copy _ _ _ _ _ HS c2 c2' b2 Em2 Eb2) as (d2 & Ed2 & _ & _ & _ & _ & Pd2 & _).
          rewrite Hc2'. exists d2. split; [exact Ed2|]. rewrite Pb2 in Pd2. now rewrite (mapn_get _ _ _ Ec) in Pd2.
      + intros x dx Ex.
        destruct (sh_only _ _ _ _ _ HS x ltac:(congruence)) as [Hlive|(c & Ec)].
        * destruct (get_node A x) as [d|] eqn:Ed; [|congruence].
          rewrite (sh_old _ _ _ _ _ HS _ _ Ed) in Ex. injection Ex as <-.
          destruct (Nat.eqb_spec x p) as [->|]; [|eapply TA4; eassumption].
          cbn. assert (Hnd : NoDup (nd_children d)) by (eapply TA4; eassumption).
          assert (Hnin : ~ In (mapn m (root B)) (nd_children d)).
          { intros Hin. destruct (TA3 p d _ Ed Hin) as (dy & Edy & _). rewrite Hr' in Edy.
            rewrite (sh_fresh _ _ _ _ _ HS _ _ Emr) in Edy. discriminate. }
          clear - Hnd Hnin. induction (nd_children d) as [|a r IH]; cbn; [repeat constructor; auto|].
          inversion Hnd; subst. constructor; [|apply IH; [assumption|intros H; apply Hnin; now right]].
          rewrite in_app_iff. cbn. intros [H|[H|[]]]; [contradiction|]. apply Hnin. now left.
        * assert (Hb : exists b, get_node B c = Some b).
          { destruct (get_node B c) as [b|] eqn:E; [eauto|]. exfalso. apply (proj1 (sh_dom _ _ _ _ _ HS c)); congruence. }
          destruct Hb as (b & Eb).
          destruct (sh_copy _ _ _ _ _ HS c x b Ec Eb) as (d' & Ed' & _ & _ & _ & _ & _ & Cd').
          assert (dx = d') by congruence. subst dx. rewrite Cd'.
          apply NoDup_map_inj_in; [|eapply TB4; eassumption].
          intros a1 a2 H1 H2 E.
          destruct (TB3 c b a1 Eb H1) as (b1 & E1 & _). destruct (TB3 c b a2 Eb H2) as (b2 & E2 & _).
          destruct (Himg _ _ E1) as (v1 & Em1 & Hv1). destruct (Himg _ _ E2) as (v2 & Em2 & Hv2).
          eapply (sh_inj _ _ _ _ _ HS); [exact Em1|]. rewrite Em2. f_equal. congruence.
  Qed.

  (* ---------------------------------------------------------------- phase 3: re-adding the links *)
  Definition bump (s t : port) (x : nid) (a : anode Op Meta) : anode Op Meta :=
    a_with_nin (a_with_nout a (if Nat.eqb x (fst s) then Z.max (a_nout a) (snd s + 1) else a_nout a))
               (if Nat.eqb x (fst t) then Z.max (a_nin a) (snd t + 1) else a_nin a).
  Lemma s_add_link_get (g : agraph) s t x :
    aget (a_nodes (s_add_link g s t)) x = option_map (bump s t x) (aget (a_nodes g) x).
  Proof.
    unfold s_add_link. cbn [a_nodes]. rewrite !a_upd_get. unfold bump.
    destruct (Nat.eqb_spec x (fst t)) as [->|Hxt].
    - destruct (Nat.eqb_spec (fst t) (fst s)) as [E|Hts].
      + rewrite E. destruct (aget (a_nodes g) (fst s)) as [a|]; [|reflexivity]. reflexivity.
      + destruct (aget (a_nodes g) (fst t)) as [a|]; [|reflexivity]. cbn. now destruct a.
    - destruct (Nat.eqb_spec x (fst s)) as [->|Hxs].
      + destruct (aget (a_nodes g) (fst s)) as [a|]; [|reflexivity]. cbn. now destruct a.
      + destruct (aget (a_nodes g) x) as [a|]; [|reflexivity]. cbn. now destruct a.
  Qed.

  Lemma add_link_pt (h : hugr) s t : Inv h -> get_node h (fst s) <> None -> get_node h (fst t) <> None ->
    (-1 <= snd s)%Z -> (-1 <= snd t)%Z ->
    exists h', add_link h s t = (h', Ok) /\ Inv h' /\ root h' = root h /\
      Permutation (q_links h') (q_links h ++ [(s, t)]) /\
      forall x, option_map anode_of (get_node h' x) = option_map (bump s t x) (option_map anode_of (get_node h x)).
  Proof.
    intros HI Hs Ht Hso Hto.
    destruct (add_link_refines h (abs h) s t HI (Rep_abs h)) as (h' & Hadd & HI' & HR').
    - unfold port_ok. apply andb_true_iff. split; [now apply abs_live|now apply Z.leb_le].
    - unfold port_ok. apply andb_true_iff. split; [now apply abs_live|now apply Z.leb_le].
    - exists h'. split; [exact Hadd|]. split; [exact HI'|]. destruct HR' as (HN & _ & HP & Hroot). split; [|split].
      + rewrite Hroot. unfold s_add_link. cbn [a_root]. now rewrite !a_upd_root.
      + unfold q_links. rewrite HP. unfold s_add_link. cbn [a_links]. now rewrite !a_upd_links.
      + intros x. rewrite HN, s_add_link_get. f_equal. symmetry. apply (get_refines h (abs h) x (Rep_abs h)).
  Qed.

  Definition same3 (A : hugr) (d d2 : node_data) (x : nid) : Prop :=
    nd_op d = nd_op d2 /\ nd_parent d = nd_parent d2 /\ nd_children d = nd_children d2 /\ nd_meta d = nd_meta d2 /\
    nd_outs d = nd_outs d2 /\ (get_node A x <> None -> nd_inps d = nd_inps d2).
  Definition R3 (A A2 Ak : hugr) : Prop :=
    Inv Ak /\ root Ak = root A2 /\
    forall x, match get_node Ak x, get_node A2 x with
              | Some d, Some d2 => same3 A d d2 x
              | None, None => True
              | _, _ => False
              end.

  Lemma copy_links_ok (A B : hugr) p m A2 : Shape A B p m A2 -> forall ls Ak, R3 A A2 Ak ->
    (forall s t, In (s, t) ls ->
       (exists bs, get_node B (fst s) = Some bs /\ (-1 <= snd s < nd_outs bs)%Z) /\
       (get_node B (fst t) <> None /\ (-1 <= snd t)%Z)) ->
    exists A3, copy_links Ak m ls = (A3, Ok) /\ R3 A A2 A3 /\
               Permutation (q_links A3) (q_links Ak ++ map (mapl m) ls).
  Proof.
    intros HS. induction ls as [|[s t] rest IH]; intros Ak HR Hls; cbn [copy_links].
    - exists Ak. split; [reflexivity|]. split; [exact HR|]. cbn. now rewrite app_nil_r.
    - destruct (Hls s t ltac:(now left)) as ((bs & Ebs & Hbs) & (Hbt & Hto)).
      destruct (mget m (fst s)) as [s'|] eqn:Ems; [|exfalso; apply (proj2 (sh_dom _ _ _ _ _ HS (fst s))); congruence].
      destruct (mget m (fst t)) as [t'|] eqn:Emt; [|exfalso; now apply (proj2 (sh_dom _ _ _ _ _ HS (fst t)))].
      destruct (get_node B (fst t)) as [bt|] eqn:Ebt; [|congruence].
      destruct HR as (HI & Hroot & Hsame).
      destruct (sh_copy _ _ _ _ _ HS _ _ _ Ems Ebs) as (ds2 & Eds2 & _ & _ & Hout2 & _).
      destruct (sh_copy _ _ _ _ _ HS _ _ _ Emt Ebt) as (dt2 & Edt2 & _).
      assert (Hslive : exists ds, get_node Ak s' = Some ds /\ nd_outs ds = nd_outs bs).
      { specialize (Hsame s'). rewrite Eds2 in Hsame. destruct (get_node Ak s') as [ds|]; [|contradiction].
        exists ds. split; [reflexivity|]. destruct Hsame as (_ & _ & _ & _ & Ho & _). congruence. }
      destruct Hslive as (ds & Eds & Houts).
      assert (Htlive : get_node Ak t' <> None).
      { specialize (Hsame t'). rewrite Edt2 in Hsame. destruct (get_node Ak t'); [discriminate|contradiction]. }
      destruct (add_link_pt Ak (s', snd s) (t', snd t) HI) as (h' & Hadd & HI' & Hroot' & HP' & Hpt);
        cbn [fst snd]; try lia; try congruence.
      rewrite Hadd.
      destruct (IH h') as (A3 & Hcl & HR3 & HP3).
      + split; [exact HI'|]. split; [now rewrite Hroot'|]. intros x. specialize (Hsame x). specialize (Hpt x).
        cbn [fst snd] in Hpt.
        destruct (get_node Ak x) as [d|] eqn:Ed; destruct (get_node A2 x) as [d2|] eqn:Ed2; try contradiction.
        * destruct (get_node h' x) as [d'|]; [|discriminate]. cbn in Hpt. injection Hpt as H1 H2 H3 H4 H5 H6.
          destruct Hsame as (S1 & S2 & S3 & S4 & S5 & S6). unfold same3. repeat split; try congruence.
          -- rewrite H6, <- S5. destruct (Nat.eqb_spec x s') as [->|]; [|reflexivity].
             assert (d = ds) by congruence. subst d. lia.
          -- intros Hlive. rewrite H5, <- (S6 Hlive). destruct (Nat.eqb_spec x t') as [->|]; [|reflexivity].
             exfalso. apply Hlive. exact (sh_fresh _ _ _ _ _ HS _ _ Emt).
        * destruct (get_node h' x); [discriminate|exact I].
      + intros s0 t0 Hin. apply Hls. now right.
      + exists A3. split; [exact Hcl|]. split; [exact HR3|]. rewrite HP3, HP'. cbn [map].
        rewrite <- app_assoc. cbn [app]. unfold mapl, mapp. cbn [fst snd].
        now rewrite (mapn_get _ _ _ Ems), (mapn_get _ _ _ Emt).
  Qed.

  (* ---------------------------------------------------------------- the theorem *)
  Record IsoFrame (A B : hugr) (p : nid) (m : mapping) (A' : hugr) : Prop := {
    (* the mapping is a bijection from the live nodes of B onto nodes that were not live in A *)
    if_keys : NoDup (map fst m);
    if_dom : forall c, mget m c <> None <-> get_node B c <> None;
    if_inj : forall c1 c2 v, mget m c1 = Some v -> mget m c2 = Some v -> c1 = c2;
    if_fresh : forall c c', mget m c = Some c' -> get_node A c' = None;
    (* isomorphism: operation, metadata, output port count, parent (the root hangs under p), ordered children *)
    if_copy : forall c c' b, mget m c = Some c' -> get_node B c = Some b ->
               exists d', get_node A' c' = Some d' /\ nd_op d' = nd_op b /\ nd_meta d' = nd_meta b /\
                 nd_outs d' = nd_outs b /\
                 nd_parent d' = Some (match nd_parent b with None => p | Some q => mapn m q end) /\
                 nd_children d' = map (mapn m) (nd_children b);
    (* every link of B with its offsets and multiplicity, next to the links A had *)
    if_links : Permutation (q_links A') (q_links A ++ map (mapl m) (q_links B));
    (* frame: every node of A is unchanged, except that p gains the image of B's root as its last child *)
    if_root : root A' = root A;
    if_old : forall x d, get_node A x = Some d ->
               get_node A' x = Some (if Nat.eqb x p then add_child (mapn m (root B)) d else d);
    if_only : forall x, get_node A' x <> None -> get_node A x <> None \/ exists c, mget m c = Some x
  }.

  Theorem insert_ok (om : mapping) (A B : hugr) (parent : option nid) :
    let p := match parent with Some x => x | None => root A end in
    Inv A -> Inv B -> WF B -> get_node A p <> None ->
    exists A' m, insert_hugr om A B parent = (A', m, Ok) /\ Inv A' /\ IsoFrame A B p m A'.
  Proof.
    intros p HIA HIB HWF HpA.
    destruct (phase12 om A B parent HIA HIB HWF HpA) as (A1 & A2 & m & Hins & Hcc & HS). fold p in HS.
    pose proof (shape_inv A B p m A2 HIA HIB HpA HS) as HI2.
    destruct (copy_links_ok A B p m A2 HS (q_links B) A2) as (A3 & Hcl & (HI3 & Hroot3 & Hsame3) & HP3).
    - split; [exact HI2|]. split; [reflexivity|]. intros x. destruct (get_node A2 x); [|exact I].
      unfold same3. repeat split; reflexivity.
    - intros s t Hin. destruct HIB as (_ & _ & HCB & _). destruct (HCB s t Hin) as ((bs & E & Bd) & (bt & E2 & Bd2)).
      split; [eauto|]. split; [congruence|lia].
    - exists A3, m. unfold insert_hugr. rewrite Hins, Hcc, Hcl. split; [reflexivity|]. split; [exact HI3|].
      constructor.
      + exact (sh_keys _ _ _ _ _ HS).
      + exact (sh_dom _ _ _ _ _ HS).
      + exact (sh_inj _ _ _ _ _ HS).
      + exact (sh_fresh _ _ _ _ _ HS).
      + intros c c' b Em Eb. destruct (sh_copy _ _ _ _ _ HS c c' b Em Eb) as (d2 & Ed2 & F1 & F2 & F3 & _ & F5 & F6).
        specialize (Hsame3 c'). rewrite Ed2 in Hsame3. destruct (get_node A3 c') as [d|]; [|contradiction].
        destruct Hsame3 as (S1 & S2 & S3 & S4 & S5 & _). exists d. split; [reflexivity|]. repeat split; congruence.
      + rewrite HP3. unfold q_links. now rewrite (sh_links _ _ _ _ _ HS).
      + rewrite Hroot3. exact (sh_root _ _ _ _ _ HS).
      + intros x d Ex. pose proof (sh_old _ _ _ _ _ HS x d Ex) as E2. specialize (Hsame3 x). rewrite E2 in Hsame3.
        destruct (get_node A3 x) as [d3|]; [|contradiction]. f_equal.
        destruct Hsame3 as (S1 & S2 & S3 & S4 & S5 & S6). specialize (S6 ltac:(congruence)).
        destruct d3, (if Nat.eqb x p then add_child (mapn m (root B)) d else d). cbn in *. congruence.
      + intros x Hx. apply (sh_only _ _ _ _ _ HS). specialize (Hsame3 x).
        destruct (get_node A3 x); [|congruence]. destruct (get_node A2 x); [discriminate|contradiction].
  Qed.

  (* ---------------------------------------------------------------- per-port listings *)
  Lemma filter_nil {X} (f : X -> bool) (l : list X) : (forall x, In x l -> f x = false) -> filter f l = [].
  Proof.
    induction l as [|x r IH]; cbn; [reflexivity|]. intros H. rewrite (H x) by now left. apply IH.
    intros y Hy. apply H. now right.
  Qed.
  Lemma lo_app2 (L1 L2 : list (port * port)) q : lo (L1 ++ L2) q = lo L1 q ++ lo L2 q.
  Proof. unfold lo. now rewrite filter_app, map_app. Qed.
  Lemma li_app2 (L1 L2 : list (port * port)) q : li (L1 ++ L2) q = li L1 q ++ li L2 q.
  Proof. unfold li. now rewrite filter_app, map_app. Qed.

  Section Ports.
    Variables (A B A' : hugr) (p : nid) (m : mapping).
    Hypothesis HIA : Inv A.
    Hypothesis HIB : Inv B.
    Hypothesis HIA' : Inv A'.
    Hypothesis HIF : IsoFrame A B p m A'.

    Lemma mapn_inj a b : get_node B a <> None -> get_node B b <> None -> mapn m a = mapn m b -> a = b.
    Proof.
      intros Ha Hb E. apply (if_dom _ _ _ _ _ HIF) in Ha, Hb.
      destruct (mget m a) as [a'|] eqn:Ea; [|congruence]. destruct (mget m b) as [b'|] eqn:Eb; [|congruence].
      rewrite (mapn_get _ _ _ Ea), (mapn_get _ _ _ Eb) in E. subst b'. eapply (if_inj _ _ _ _ _ HIF); eassumption.
    Qed.
    Lemma mapn_fresh a : get_node B a <> None -> get_node A (mapn m a) = None.
    Proof.
      intros Ha. apply (if_dom _ _ _ _ _ HIF) in Ha. destruct (mget m a) as [a'|] eqn:Ea; [|congruence].
      rewrite (mapn_get _ _ _ Ea). eapply (if_fresh _ _ _ _ _ HIF); eassumption.
    Qed.
    Lemma mapp_eqb (q1 q2 : port) : get_node B (fst q1) <> None -> get_node B (fst q2) <> None ->
      port_eqb (mapp m q1) (mapp m q2) = port_eqb q1 q2.
    Proof.
      intros H1 H2. destruct (port_eqb_spec q1 q2) as [->|Hne].
      - destruct (port_eqb_spec (mapp m q2) (mapp m q2)); congruence.
      - destruct (port_eqb_spec (mapp m q1) (mapp m q2)) as [E|]; [|reflexivity]. exfalso. apply Hne.
        destruct q1 as [n1 o1], q2 as [n2 o2]. unfold mapp in E. cbn [fst snd] in *. injection E as E1 E2.
        f_equal; [now apply mapn_inj|assumption].
    Qed.

    (* every link of B with its port offsets and multiplicity, seen from either end *)
    Theorem insert_linked_out_iso q : get_node B (fst q) <> None ->
      Permutation (linked_out A' (mapp m q)) (map (mapp m) (linked_out B q)).
    Proof.
      intros Hq. destruct HIA' as (HLA' & _). destruct HIB as (HLB & _ & HCB & _). destruct HIA as (_ & _ & HCA & _).
      rewrite (linked_out_refines (links A') _ (mapp m q) HLA' (if_links _ _ _ _ _ HIF)).
      rewrite (Permutation_map (mapp m) (linked_out_refines (links B) _ q HLB (Permutation_refl _))).
      rewrite lo_app2.
      assert (lo (q_links A) (mapp m q) = []) as ->.
      { unfold lo. rewrite filter_nil; [reflexivity|]. intros [s t] Hin. cbn [fst].
        destruct (port_eqb_spec s (mapp m q)) as [->|]; [|reflexivity]. exfalso.
        destruct (HCA _ _ Hin) as ((d & E & _) & _). cbn [mapp fst] in E. rewrite (mapn_fresh _ Hq) in E. discriminate. }
      cbn [app]. unfold lo. rewrite filter_map_comm, !map_map. apply Permutation_refl'.
      rewrite (filter_ext_in _ (fun l => port_eqb (fst l) q)); [reflexivity|].
      intros [s t] Hin. cbn [mapl fst]. apply mapp_eqb; [|assumption].
      destruct (HCB _ _ Hin) as ((d & E & _) & _). congruence.
    Qed.
    Theorem insert_linked_in_iso q : get_node B (fst q) <> None ->
      Permutation (linked_in A' (mapp m q)) (map (mapp m) (linked_in B q)).
    Proof.
      intros Hq. destruct HIA' as (HLA' & _). destruct HIB as (HLB & _ & HCB & _). destruct HIA as (_ & _ & HCA & _).
      rewrite (linked_in_refines (links A') _ (mapp m q) HLA' (if_links _ _ _ _ _ HIF)).
      rewrite (Permutation_map (mapp m) (linked_in_refines (links B) _ q HLB (Permutation_refl _))).
      rewrite li_app2.
      assert (li (q_links A) (mapp m q) = []) as ->.
      { unfold li. rewrite filter_nil; [reflexivity|]. intros [s t] Hin. cbn [snd].
        destruct (port_eqb_spec t (mapp m q)) as [->|]; [|reflexivity]. exfalso.
        destruct (HCA _ _ Hin) as (_ & (d & E & _)). cbn [mapp fst] in E. rewrite (mapn_fresh _ Hq) in E. discriminate. }
      cbn [app]. unfold li. rewrite filter_map_comm, !map_map. apply Permutation_refl'.
      rewrite (filter_ext_in _ (fun l => port_eqb (snd l) q)); [reflexivity|].
      intros [s t] Hin. cbn [mapl snd]. apply mapp_eqb; [|assumption].
      destruct (HCB _ _ Hin) as (_ & (d & E & _)). congruence.
    Qed.
    (* frame: the ports of A's nodes list what they listed before *)
    Theorem insert_linked_out_frame q : get_node A (fst q) <> None ->
      Permutation (linked_out A' q) (linked_out A q).
    Proof.
      intros Hq. destruct HIA' as (HLA' & _). destruct HIB as (_ & _ & HCB & _). destruct HIA as (HLA & _).
      rewrite (linked_out_refines (links A') _ q HLA' (if_links _ _ _ _ _ HIF)).
      rewrite (linked_out_refines (links A) _ q HLA (Permutation_refl _)).
      rewrite lo_app2.
      assert (lo (map (mapl m) (q_links B)) q = []) as ->; [|now rewrite app_nil_r].
      unfold lo. rewrite filter_nil; [reflexivity|]. intros l Hin. apply in_map_iff in Hin.
      destruct Hin as ([s t] & <- & Hin). cbn [mapl fst].
      destruct (port_eqb_spec (mapp m s) q) as [<-|]; [|reflexivity]. exfalso. apply Hq. cbn [mapp fst].
      apply mapn_fresh. destruct (HCB _ _ Hin) as ((d & E & _) & _). congruence.
    Qed.
    Theorem insert_linked_in_frame q : get_node A (fst q) <> None ->
      Permutation (linked_in A' q) (linked_in A q).
    Proof.
      intros Hq. destruct HIA' as (HLA' & _). destruct HIB as (_ & _ & HCB & _). destruct HIA as (HLA & _).
      rewrite (linked_in_refines (links A') _ q HLA' (if_links _ _ _ _ _ HIF)).
      rewrite (linked_in_refines (links A) _ q HLA (Permutation_refl _)).
      rewrite li_app2.
      assert (li (map (mapl m) (q_links B)) q = []) as ->; [|now rewrite app_nil_r].
      unfold li. rewrite filter_nil; [reflexivity|]. intros l Hin. apply in_map_iff in Hin.
      destruct Hin as ([s t] & <- & Hin). cbn [mapl snd].
      destruct (port_eqb_spec (mapp m t) q) as [<-|]; [|reflexivity]. exfalso. apply Hq. cbn [mapp fst].
      apply mapn_fresh. destruct (HCB _ _ Hin) as (_ & (d & E & _)). congruence.
    Qed.
  End Ports.

  (* ---------------------------------------------------------------- well-foundedness of the hierarchy *)
  Lemma WF_ext (h h' : hugr) :
    (forall x d', get_node h' x = Some d' -> exists d, get_node h x = Some d /\ nd_parent d = nd_parent d') ->
    WF h -> WF h'.
  Proof.
    intros Hb (depth & Hd). exists depth. intros n d' q E P. destruct (Hb n d' E) as (d & E0 & P0).
    eapply Hd; [exact E0|congruence].
  Qed.

  Lemma s_bstep_back (g : agraph) c rt g' x a' : NoDup (map fst (a_nodes g)) ->
    s_bstep g c rt = Next g' -> (forall o p k m, c <> AddNode o p k m) -> (forall o p m, c <> AddConst o p m) ->
    aget (a_nodes g') x = Some a' -> exists a, aget (a_nodes g) x = Some a /\ a_parent a = a_parent a'.
  Proof.
    intros HND Hs Hn1 Hn2 Ha.
    assert (Hlink : forall s t, aget (a_nodes (s_add_link g s t)) x = Some a' ->
                                exists a, aget (a_nodes g) x = Some a /\ a_parent a = a_parent a').
    { intros s t H. rewrite s_add_link_get in H. destruct (aget (a_nodes g) x) as [a|]; [|discriminate].
      exists a. split; [reflexivity|]. cbn in H. injection H as <-. reflexivity. }
    destruct c as [o p k m|o p m|s t|y z|s t|n]; cbn [s_bstep] in Hs.
    - exfalso. eapply Hn1. reflexivity.
    - exfalso. eapply Hn2. reflexivity.
    - destruct (port_ok g s && port_ok g t); [|discriminate]. injection Hs as <-. eauto.
    - destruct (a_live g y && a_live g z); [|discriminate]. injection Hs as <-.
      destruct (s_has_link g (y, (-1)%Z) (z, (-1)%Z)); eauto.
    - injection Hs as <-. unfold s_delete_link in Ha. destruct (remove1 link_eqb (s, t) (a_links g)); cbn in Ha; eauto.
    - destruct (aget (a_nodes g) n) as [an|] eqn:En; [|discriminate]. destruct (a_children an); [|discriminate].
      destruct (Nat.eqb n (a_root g)); [discriminate|]. injection Hs as <-. unfold s_delete_node in Ha. cbn [a_nodes] in Ha.
      destruct (a_parent an) as [pp|].
      + rewrite aget_ddel in Ha by now apply a_upd_nodup. destruct (Nat.eqb x n); [discriminate|].
        rewrite a_upd_get in Ha. destruct (Nat.eqb_spec x pp) as [->|]; [|eauto].
        destruct (aget (a_nodes g) pp) as [pa|] eqn:Ep; [|discriminate]. cbn in Ha. injection Ha as <-.
        exists pa. split; reflexivity.
      + rewrite aget_ddel in Ha by assumption. destruct (Nat.eqb x n); [discriminate|eauto].
  Qed.

  Lemma add_node_WF (h : hugr) o pp k m h' n : Inv h -> WF h -> get_node h pp <> None ->
    add_node_raw h o (Some pp) k m = (h', n, Ok) -> WF h'.
  Proof.
    intros (_ & HF & _ & HT) (depth & Hd) Hpp Hadd.
    destruct (get_node h pp) as [pd|] eqn:Ep; [|congruence].
    destruct (add_node_effect h o pp k m pd HF Ep) as (h1 & n1 & Hadd1 & Hdead & Hget & _).
    rewrite Hadd in Hadd1. injection Hadd1 as <- <-.
    destruct (tree_facts h HT) as (_ & Hparlive & _).
    exists (fun x => if Nat.eqb x n then S (depth pp) else depth x).
    intros x d q. rewrite Hget.
    assert (Hppn : pp <> n) by (intros ->; congruence).
    assert (Hq : forall y dy, get_node h y = Some dy -> nd_parent dy = Some q -> q <> n).
    { intros y dy Ey Py ->. apply (Hparlive y dy n Ey Py). exact Hdead. }
    destruct (Nat.eqb_spec x n) as [->|Hxn].
    - intros [= <-]. cbn. intros [= <-]. destruct (Nat.eqb_spec pp n); [contradiction|]. lia.
    - destruct (Nat.eqb_spec x pp) as [->|].
      + intros [= <-]. cbn. intros P. pose proof (Hq pp pd Ep P). destruct (Nat.eqb_spec q n); [contradiction|].
        eapply Hd; eassumption.
      + intros E P. pose proof (Hq x d E P). destruct (Nat.eqb_spec q n); [contradiction|]. eapply Hd; eassumption.
  Qed.

  Lemma abs_dflt (h : hugr) p : dflt (abs h) p = match p with Some x => x | None => root h end.
  Proof. reflexivity. Qed.

  Theorem bstep_WF_rep h g c h' rt r g' : Inv h -> Rep h g -> WF h -> bstep h c = (h', rt, r) ->
    s_bstep g c rt = Next g' -> WF h'.
  Proof.
    intros HI HR HW Hb Hs.
    assert (Hdf : forall p, dflt g p = match p with Some x => x | None => root h end).
    { intros [x|]; [reflexivity|]. cbn. destruct HR as (_ & _ & _ & E). now rewrite E. }
    assert (Hgen : (forall o p k m, c <> AddNode o p k m) -> (forall o p m, c <> AddConst o p m) -> WF h').
    { intros Hn1 Hn2. pose proof (bstep_refines h g c h' rt r HI HR Hb) as H. rewrite Hs in H.
      destruct H as (_ & _ & HR'). apply (WF_ext h); [|exact HW]. intros x d' E.
      pose proof (get_refines h' g' x HR') as Hx. rewrite E in Hx. cbn in Hx. symmetry in Hx.
      destruct (s_bstep_back g c rt g' x _ ltac:(apply HR) Hs Hn1 Hn2 Hx) as (a & Ea & Pa).
      pose proof (get_refines h g x HR) as Hx0. rewrite Ea in Hx0.
      destruct (get_node h x) as [d|]; [|discriminate]. exists d. split; [reflexivity|].
      cbn in Hx0. injection Hx0 as <-. exact Pa. }
    destruct c as [o p k m|o p m|s t|y z|s t|n]; try (apply Hgen; intros; discriminate).
    - cbn [bstep s_bstep] in *. destruct (a_live g (dflt g p)) eqn:Hp; [|discriminate].
      pose proof Hp as Hp'. apply (rep_live h g _ HR) in Hp'. rewrite Hdf in Hp'.
      destruct (add_node h o p k m) as [[h1 n1] r1] eqn:E. injection Hb as <- <- <-.
      destruct (add_node_refines h g o p k m HI HR Hp) as (h2 & n2 & E2 & _).
      rewrite E in E2. injection E2 as <- <- ->. unfold add_node in E. eapply add_node_WF; eassumption.
    - cbn [bstep s_bstep] in *. destruct (a_live g (dflt g p)) eqn:Hp; [|discriminate].
      pose proof Hp as Hp'. apply (rep_live h g _ HR) in Hp'. rewrite Hdf in Hp'.
      destruct (add_node h o p None m) as [[h1 n1] r1] eqn:E. injection Hb as <- <- <-.
      destruct (add_node_refines h g o p None m HI HR Hp) as (h2 & n2 & E2 & _).
      rewrite E in E2. injection E2 as <- <- ->. unfold add_node in E. eapply add_node_WF; eassumption.
  Qed.
  Theorem bstep_WF h c h' rt r g' : Inv h -> WF h -> bstep h c = (h', rt, r) ->
    s_bstep (abs h) c rt = Next g' -> WF h'.
  Proof. intros HI HW. exact (bstep_WF_rep h (abs h) c h' rt r g' HI (Rep_abs h) HW). Qed.

  Lemma init_WF o m : WF (init o m).
  Proof.
    exists (fun _ => 0). intros n d q. unfold init, add_node_raw. cbn.
    destruct n as [|[|n]]; cbn; try discriminate. intros [= <-]. cbn. discriminate.
  Qed.

  Fixpoint rev_lookup (m : mapping) (x : nid) : option nid :=
    match m with [] => None | (c, v) :: r => if Nat.eqb v x then Some c else rev_lookup r x end.
  Lemma rev_lookup_some m x c : rev_lookup m x = Some c -> In (c, x) m.
  Proof.
    induction m as [|[c0 v] r IH]; cbn; [discriminate|]. destruct (Nat.eqb_spec v x) as [->|]; [intros [= <-]; now left|].
    intros H. right. auto.
  Qed.
  Lemma rev_lookup_none m x c : rev_lookup m x = None -> ~ In (c, x) m.
  Proof.
    induction m as [|[c0 v] r IH]; cbn; [tauto|]. destruct (Nat.eqb_spec v x) as [->|]; [discriminate|].
    intros H [[= -> ->]|Hin]; [congruence|]. now apply IH.
  Qed.

  Theorem insert_WF (A B : hugr) p m A' : Inv A -> Inv B -> get_node A p <> None -> WF A -> WF B ->
    IsoFrame A B p m A' -> WF A'.
  Proof.
    intros (_ & _ & _ & HTA) (_ & _ & _ & HTB) HpA (dA & HdA) (dB & HdB) HIF.
    destruct (tree_facts A HTA) as (_ & HparliveA & _). destruct (tree_facts B HTB) as (_ & HparliveB & _).
    pose proof (if_keys _ _ _ _ _ HIF) as Hk.
    assert (Hrl : forall c c', mget m c = Some c' -> rev_lookup m c' = Some c).
    { intros c c' E. destruct (rev_lookup m c') as [c2|] eqn:R.
      - apply rev_lookup_some in R. apply (dget_In_iff Nat.eqb Nat.eqb_spec) in R; [|exact Hk].
        f_equal. eapply (if_inj _ _ _ _ _ HIF); eassumption.
      - exfalso. apply (rev_lookup_none m c' c R). now apply (dget_In_pair Nat.eqb Nat.eqb_spec). }
    assert (Hrl2 : forall x, get_node A x <> None -> rev_lookup m x = None).
    { intros x Hx. destruct (rev_lookup m x) as [c|] eqn:R; [|reflexivity]. apply rev_lookup_some in R.
      apply (dget_In_iff Nat.eqb Nat.eqb_spec) in R; [|exact Hk]. now rewrite (if_fresh _ _ _ _ _ HIF _ _ R) in Hx. }
    exists (fun x => match rev_lookup m x with Some c => S (dA p + dB c) | None => dA x end).
    intros x d q Ex Pq.
    destruct (if_only _ _ _ _ _ HIF x ltac:(congruence)) as [Hlive|(c & Ec)].
    - destruct (get_node A x) as [d0|] eqn:E0; [|congruence].
      rewrite (if_old _ _ _ _ _ HIF x d0 E0) in Ex. injection Ex as <-.
      assert (Pq0 : nd_parent d0 = Some q) by (destruct (Nat.eqb x p); exact Pq).
      rewrite (Hrl2 x ltac:(congruence)), (Hrl2 q (HparliveA x d0 q E0 Pq0)). eapply HdA; eassumption.
    - rewrite (Hrl _ _ Ec).
      assert (Hb : exists b, get_node B c = Some b).
      { destruct (get_node B c) as [b|] eqn:E; [eauto|]. exfalso. apply (proj1 (if_dom _ _ _ _ _ HIF c)); congruence. }
      destruct Hb as (b & Eb). destruct (if_copy _ _ _ _ _ HIF c x b Ec Eb) as (d' & Ed' & _ & _ & _ & Pd' & _).
      assert (d = d') by congruence. subst d'. rewrite Pq in Pd'. injection Pd' as Pd'.
      destruct (nd_parent b) as [qb|] eqn:Eqb.
      + assert (Hqb : get_node B qb <> None) by (eapply HparliveB; eassumption).
        apply (if_dom _ _ _ _ _ HIF) in Hqb. destruct (mget m qb) as [q'|] eqn:Em; [|congruence].
        rewrite (mapn_get _ _ _ Em) in Pd'. subst q'. rewrite (Hrl _ _ Em).
        pose proof (HdB c b qb Eb Eqb). lia.
      + subst q. rewrite (Hrl2 p HpA). lia.
  Qed.

  (* ---------------------------------------------------------------- all histories, insert_hugr included *)
  (* a call is inside the property's guard when the specification accepts it on the abstraction of the state:
     live node arguments, offsets >= -1, deletion of a non-root leaf; insert_hugr of a HUGR that was itself
     built inside the guard, under a live parent *)
  (* the free-index choices come with the commands (model/Graph.v, [prefer]): a basic command is paired with the
     choice for its add_node (any value; only an admissible one has an effect), an insert_hugr with the mapping
     that names the choices for its copies.  Every statement below is for EVERY such oracle. *)
  Lemma WF_prefer pick (h : hugr) : WF h -> WF (prefer pick h).
  Proof. intros (depth & H). exists depth. intros n d q. rewrite prefer_get. apply H. Qed.
  Lemma abs_from_grow (l : list (option node_data)) k : forall i, abs_from (l ++ repeat None k) i = abs_from l i.
  Proof.
    induction l as [|[d|] r IH]; intros i; cbn [app abs_from]; [|now rewrite IH|apply IH].
    revert i. induction k as [|k IHk]; intros i; cbn [repeat abs_from]; [reflexivity|apply IHk].
  Qed.
  Lemma abs_prefer pick (h : hugr) : abs (prefer pick h) = abs h.
  Proof.
    destruct pick as [f|]; [|reflexivity]. unfold prefer. destruct (Nat.ltb f (length (nodes h))); [reflexivity|].
    unfold abs. cbn [nodes links root]. now rewrite abs_from_grow.
  Qed.
  Fixpoint bguarded (h : hugr) (cs : list (bcmd Op Meta * ret)) : Prop :=
    match cs with
    | [] => True
    | (c, pick) :: r =>
        let '(h', rt, _) := bstep_at pick h c in (exists g', s_bstep (abs h) c rt = Next g') /\ bguarded h' r
    end.
  Definition guarded1 (pick : ret) (h : hugr) (c : cmd Op Meta) : Prop :=
    match c with
    | Basic b => let '(_, rt, _) := bstep_at pick h b in exists g', s_bstep (abs h) b rt = Next g'
    | Insert o m _ src p =>
        bguarded (init o m) src /\ get_node h (match p with Some x => x | None => root h end) <> None
    end.
  Fixpoint guarded (h : hugr) (cs : list (cmd Op Meta * ret)) : Prop :=
    match cs with
    | [] => True
    | (c, pick) :: r => guarded1 pick h c /\ guarded (fst (fst (step pick h c))) r
    end.
  Definition run (h : hugr) (cs : list (cmd Op Meta * ret)) : hugr :=
    fold_left (fun s c => fst (fst (step (snd c) s (fst c)))) cs h.

  Lemma bstep_inv h c h' rt r : Inv h -> WF h -> bstep h c = (h', rt, r) ->
    (exists g', s_bstep (abs h) c rt = Next g') -> r = Ok /\ Inv h' /\ WF h'.
  Proof.
    intros HI HW Hb (g' & Hs). pose proof (bstep_refines h (abs h) c h' rt r HI (Rep_abs h) Hb) as H.
    rewrite Hs in H. destruct H as (Hr & HI' & _). split; [exact Hr|]. split; [exact HI'|].
    exact (bstep_WF h c h' rt r g' HI HW Hb Hs).
  Qed.
  Lemma bstep_at_inv pick h c h' rt r : Inv h -> WF h -> bstep_at pick h c = (h', rt, r) ->
    (exists g', s_bstep (abs h) c rt = Next g') -> r = Ok /\ Inv h' /\ WF h'.
  Proof.
    intros HI HW Hb Hs. unfold bstep_at in Hb. rewrite <- (abs_prefer (pick_of pick) h) in Hs.
    exact (bstep_inv _ c h' rt r (Inv_prefer _ h HI) (WF_prefer _ h HW) Hb Hs).
  Qed.
  Lemma brun_inv cs : forall h, Inv h -> WF h -> bguarded h cs -> Inv (brun_at h cs) /\ WF (brun_at h cs).
  Proof.
    induction cs as [|[c pick] r IH]; intros h HI HW HG; cbn [brun_at fold_left]; [auto|].
    cbn [bguarded] in HG. cbn [fst snd]. destruct (bstep_at pick h c) as [[h' rt] res] eqn:E. destruct HG as [Hg HG].
    destruct (bstep_at_inv pick h c h' rt res HI HW E Hg) as (_ & HI' & HW'). cbn [fst]. now apply IH.
  Qed.

  Theorem step_inv pick h c : Inv h -> WF h -> guarded1 pick h c ->
    snd (step pick h c) = Ok /\ Inv (fst (fst (step pick h c))) /\ WF (fst (fst (step pick h c))).
  Proof.
    intros HI HW HG. destruct c as [b|o m br src p]; cbn [step guarded1] in *.
    - destruct (bstep_at pick h b) as [[h' rt] r] eqn:E. cbn [fst snd]. exact (bstep_at_inv pick h b h' rt r HI HW E HG).
    - destruct HG as [HGs Hp]. destruct (init_inv o m) as [HI0 _].
      destruct (brun_inv src (init o m) HI0 (init_WF o m) HGs) as [HIB HWB].
      destruct (insert_ok (om_of pick) h (brun_at (init o m) src) p HI HIB HWB Hp) as (A' & mp & Hins & HI' & HIF).
      rewrite Hins. cbn [fst snd]. split; [reflexivity|]. split; [exact HI'|].
      exact (insert_WF h _ _ mp A' HI HIB Hp HW HWB HIF).
  Qed.
  Theorem run_inv cs : forall h, Inv h -> WF h -> guarded h cs -> Inv (run h cs) /\ WF (run h cs).
  Proof.
    induction cs as [|[c pick] r IH]; intros h HI HW HG; cbn [run fold_left]; [auto|].
    destruct HG as [Hg HG]. cbn [fst snd]. destruct (step_inv pick h c HI HW Hg) as (_ & HI' & HW'). now apply IH.
  Qed.
  Theorem store_inv_reachable o m cs : guarded (init o m) cs -> Inv (run (init o m) cs) /\ WF (run (init o m) cs).
  Proof. intros HG. destruct (init_inv o m) as [HI _]. exact (run_inv cs _ HI (init_WF o m) HG). Qed.

  (* ---------------------------------------------------------------- insert_hugr refines the specification's insertion *)
  Definition fold_sl (g : agraph) (L : list (port * port)) : agraph :=
    fold_left (fun acc l => s_add_link acc (fst l) (snd l)) L g.
  Lemma fold_sl_links L : forall g, a_links (fold_sl g L) = a_links g ++ L.
  Proof.
    induction L as [|l r IH]; intros g; cbn; [now rewrite app_nil_r|]. unfold fold_sl in IH. rewrite IH.
    unfold s_add_link. cbn [a_links]. rewrite !a_upd_links, <- app_assoc. now destruct l.
  Qed.
  Lemma fold_sl_root L : forall g, a_root (fold_sl g L) = a_root g.
  Proof.
    induction L as [|l r IH]; intros g; cbn; [reflexivity|]. unfold fold_sl in IH. rewrite IH.
    unfold s_add_link. cbn [a_root]. now rewrite !a_upd_root.
  Qed.
  Lemma fold_sl_nodup L : forall g, NoDup (map fst (a_nodes g)) -> NoDup (map fst (a_nodes (fold_sl g L))).
  Proof.
    induction L as [|l r IH]; intros g H; cbn; [assumption|]. apply IH. unfold s_add_link. cbn [a_nodes].
    now apply a_upd_nodup, a_upd_nodup.
  Qed.
  Definition bumps (L : list (port * port)) (x : nid) (a : anode Op Meta) : anode Op Meta :=
    fold_left (fun acc l => bump (fst l) (snd l) x acc) L a.
  Lemma fold_sl_get L : forall g x, aget (a_nodes (fold_sl g L)) x = option_map (bumps L x) (aget (a_nodes g) x).
  Proof.
    induction L as [|l r IH]; intros g x; cbn; [now destruct (aget (a_nodes g) x)|].
    unfold fold_sl in IH. rewrite IH, s_add_link_get. now destruct (aget (a_nodes g) x).
  Qed.
  Lemma bump_comm s t s' t' x (a : anode Op Meta) : bump s t x (bump s' t' x a) = bump s' t' x (bump s t x a).
  Proof.
    unfold bump, a_with_nin, a_with_nout. destruct a as [o pa ch me ni no]. cbn.
    destruct (Nat.eqb x (fst s)), (Nat.eqb x (fst t)), (Nat.eqb x (fst s')), (Nat.eqb x (fst t')); cbn; f_equal; lia.
  Qed.
  Lemma fold_left_perm {X Y} (f : X -> Y -> X) (l1 l2 : list Y) :
    (forall a x y, f (f a x) y = f (f a y) x) -> Permutation l1 l2 -> forall a, fold_left f l1 a = fold_left f l2 a.
  Proof.
    intros Hc. induction 1 as [|x l l' _ IH|x y l|l l' l'' _ IH1 _ IH2]; intros a; cbn; auto.
    - now rewrite Hc.
    - now rewrite IH1.
  Qed.
  Lemma Rep_fold_perm (h : hugr) g L1 L2 : Permutation L1 L2 -> Rep h (fold_sl g L1) -> Rep h (fold_sl g L2).
  Proof.
    intros HP (HN & HND & HL & HR). split; [|split; [|split]].
    - intros x. rewrite HN, !fold_sl_get. destruct (aget (a_nodes g) x) as [a|]; [|reflexivity]. cbn. f_equal.
      unfold bumps. apply fold_left_perm; [|exact HP]. intros a0 l1 l2. apply bump_comm.
    - rewrite fold_sl_get in HN || idtac. clear HN.
      assert (Hg : NoDup (map fst (a_nodes g))).
      { clear - HND. revert g HND. induction L1 as [|l r IH]; intros g H; cbn in H; [assumption|].
        apply IH in H. unfold s_add_link in H. cbn [a_nodes] in H.
        (* keys are unchanged by a_upd *)
        assert (Hk : forall (g0 : agraph) n f, map fst (a_nodes (a_upd g0 n f)) = map fst (a_nodes g0)).
        { intros g0 n f. unfold a_upd. destruct (aget (a_nodes g0) n) as [a|] eqn:E; [|reflexivity]. cbn [a_nodes].
          clear - E. induction (a_nodes g0) as [|[k v] r' IH']; cbn in *; [discriminate|].
          destruct (Nat.eqb_spec n k) as [->|]; [reflexivity|]. cbn. f_equal. now apply IH'. }
        now rewrite !Hk in H. }
      now apply fold_sl_nodup.
    - rewrite HL, !fold_sl_links. now apply Permutation_app_head.
    - now rewrite HR, !fold_sl_root.
  Qed.

  Lemma copy_links_rep (m : mapping) :
    forall (ls : list (port * port)) Ak gk, Inv Ak -> Rep Ak gk ->
    (forall (s t : port), In (s, t) ls -> (exists s', mget m (fst s) = Some s' /\ get_node Ak s' <> None) /\
                                 (exists t', mget m (fst t) = Some t' /\ get_node Ak t' <> None) /\
                                 (-1 <= snd s)%Z /\ (-1 <= snd t)%Z) ->
    exists A3, copy_links Ak m ls = (A3, Ok) /\ Inv A3 /\ Rep A3 (fold_sl gk (map (mapl m) ls)) /\
               (forall x, get_node A3 x <> None <-> get_node Ak x <> None).
  Proof.
    induction ls as [|[s t] rest IH]; intros Ak gk HI HR Hls; cbn [copy_links map].
    - exists Ak. split; [reflexivity|]. split; [assumption|]. split; [assumption|]. tauto.
    - destruct (Hls s t ltac:(now left)) as ((s' & Ems & Hs') & (t' & Emt & Ht') & Hso & Hto).
      rewrite Ems, Emt.
      destruct (add_link_refines Ak gk (s', snd s) (t', snd t) HI HR) as (h' & Hadd & HI' & HR').
      { unfold port_ok. cbn [fst snd]. apply andb_true_iff. split; [now apply (rep_live Ak gk _ HR)|now apply Z.leb_le]. }
      { unfold port_ok. cbn [fst snd]. apply andb_true_iff. split; [now apply (rep_live Ak gk _ HR)|now apply Z.leb_le]. }
      rewrite Hadd.
      assert (Hlive' : forall x, get_node h' x <> None <-> get_node Ak x <> None).
      { intros x. rewrite <- (rep_live h' _ x HR'), <- (rep_live Ak gk x HR). unfold a_live.
        rewrite s_add_link_get. destruct (aget (a_nodes gk) x); cbn; tauto. }
      destruct (IH h' (s_add_link gk (s', snd s) (t', snd t)) HI' HR') as (A3 & Hcl & HI3 & HR3 & Hlive3).
      + intros s0 t0 Hin. destruct (Hls s0 t0 ltac:(now right)) as ((s0' & E1 & L1) & (t0' & E2 & L2) & B1 & B2).
        split; [exists s0'; split; [assumption|now apply Hlive']|]. split; [exists t0'; split; [assumption|now apply Hlive']|]. tauto.
      + exists A3. split; [exact Hcl|]. split; [exact HI3|]. split.
        * assert (E : mapl m (s, t) = ((s', snd s), (t', snd t))).
          { unfold mapl, mapp. cbn [fst snd]. now rewrite (mapn_get _ _ _ Ems), (mapn_get _ _ _ Emt). }
          unfold fold_sl. cbn [fold_left]. rewrite E. exact HR3.
        * intros x. rewrite Hlive3. apply Hlive'.
  Qed.

  Lemma aget_app (l1 l2 : list (nid * anode Op Meta)) x :
    aget (l1 ++ l2) x = match aget l1 x with Some a => Some a | None => aget l2 x end.
  Proof. induction l1 as [|[k v] r IH]; cbn; [reflexivity|]. destruct (Nat.eqb x k); [reflexivity|exact IH]. Qed.
  Lemma aget_map_some (f : nid -> nid) (G : nid * anode Op Meta -> anode Op Meta) (l : list (nid * anode Op Meta)) k a :
    (forall k1 k2, In k1 (map fst l) -> In k2 (map fst l) -> f k1 = f k2 -> k1 = k2) ->
    aget l k = Some a -> aget (map (fun na => (f (fst na), G na)) l) (f k) = Some (G (k, a)).
  Proof.
    induction l as [|[k0 a0] r IH]; cbn; [discriminate|]. intros Hinj.
    destruct (Nat.eqb_spec k k0) as [->|Hne].
    - intros [= <-]. now rewrite Nat.eqb_refl.
    - intros Ha. assert (Hin : In k (map fst r)) by (eapply (dget_In Nat.eqb Nat.eqb_spec); eassumption).
      destruct (Nat.eqb_spec (f k) (f k0)) as [E|_].
      + exfalso. apply Hne. apply Hinj; [now right|now left|exact E].
      + apply IH; [|exact Ha]. intros k1 k2 H1 H2. apply Hinj; now right.
  Qed.
  Lemma aget_map_none (f : nid -> nid) (G : nid * anode Op Meta -> anode Op Meta) (l : list (nid * anode Op Meta)) x :
    (forall k, In k (map fst l) -> f k <> x) -> aget (map (fun na => (f (fst na), G na)) l) x = None.
  Proof.
    induction l as [|[k0 a0] r IH]; cbn; [reflexivity|]. intros H.
    destruct (Nat.eqb_spec x (f k0)) as [->|]; [exfalso; apply (H k0); auto|]. apply IH. intros k Hk. apply H. now right.
  Qed.
  Lemma NoDup_app_intro {X} (l1 l2 : list X) : NoDup l1 -> NoDup l2 -> (forall x, In x l1 -> ~ In x l2) -> NoDup (l1 ++ l2).
  Proof.
    induction l1 as [|a r IH]; cbn; intros H1 H2 Hd; [assumption|]. inversion H1; subst. constructor.
    - rewrite in_app_iff. intros [H|H]; [contradiction|]. apply (Hd a); auto.
    - apply IH; auto.
  Qed.
  Lemma fold_left_map' {X Y Z} (f : X -> Z -> X) (g : Y -> Z) (l : list Y) : forall a,
    fold_left f (map g l) a = fold_left (fun a y => f a (g y)) l a.
  Proof. induction l as [|y r IH]; intros a; cbn; [reflexivity|apply IH]. Qed.

  Definition copy_anode (m : mapping) (p : nid) (na : nid * anode Op Meta) : anode Op Meta :=
    {| a_op := a_op (snd na);
       a_parent := match a_parent (snd na) with Some q => Some (mapn m q) | None => Some p end;
       a_children := map (mapn m) (a_children (snd na)); a_meta := a_meta (snd na);
       a_nin := 0; a_nout := a_nout (snd na) |}.
  Definition g2_of (gA gB : agraph) (m : mapping) (p : nid) : agraph :=
    let g1 := a_upd gA p (fun a => a_with_children a (a_children a ++ [mapn m (a_root gB)])) in
    {| a_nodes := a_nodes g1 ++ map (fun na => (mapn m (fst na), copy_anode m p na)) (a_nodes gB);
       a_links := a_links g1; a_root := a_root g1 |}.
  Lemma s_insert_eq gA gB m p : s_insert gA gB m p = fold_sl (g2_of gA gB m p) (map (mapl m) (a_links gB)).
  Proof.
    unfold s_insert, fold_sl, g2_of. rewrite fold_left_map'. f_equal. f_equal. f_equal. apply map_ext. now intros [n a].
  Qed.

  Lemma shape_rep (A B : hugr) gA gB p m A2 : Inv A -> Inv B -> Rep A gA -> Rep B gB -> get_node A p <> None ->
    Shape A B p m A2 -> Rep A2 (g2_of gA gB m p).
  Proof.
    intros HIA HIB (HNA & HNDA & HLA & HRA) (HNB & HNDB & HLB & HRB) HpA HS.
    pose proof (sh_keys _ _ _ _ _ HS) as Hk.
    assert (HkeysB : forall k, In k (map fst (a_nodes gB)) <-> get_node B k <> None).
    { intros k. split.
      - intros H. apply aget_in in H. rewrite <- HNB in H. destruct (get_node B k); [discriminate|exfalso; now apply H].
      - intros H. specialize (HNB k). destruct (get_node B k) as [b|]; [|congruence]. cbn in HNB. symmetry in HNB.
        eapply (dget_In Nat.eqb Nat.eqb_spec); eassumption. }
    assert (Hinj : forall k1 k2, In k1 (map fst (a_nodes gB)) -> In k2 (map fst (a_nodes gB)) -> mapn m k1 = mapn m k2 -> k1 = k2).
    { intros k1 k2 H1 H2 E. apply HkeysB in H1, H2. apply (sh_dom _ _ _ _ _ HS) in H1, H2.
      destruct (mget m k1) as [v1|] eqn:E1; [|congruence]. destruct (mget m k2) as [v2|] eqn:E2; [|congruence].
      rewrite (mapn_get _ _ _ E1), (mapn_get _ _ _ E2) in E. subst v2. eapply (sh_inj _ _ _ _ _ HS); eassumption. }
    assert (Hg1 : forall x, aget (a_nodes (a_upd gA p (fun a => a_with_children a (a_children a ++ [mapn m (a_root gB)])))) x =
                            option_map (fun d => anode_of (if Nat.eqb x p then add_child (mapn m (root B)) d else d)) (get_node A x)).
    { intros x. rewrite a_upd_get, <- !HNA, HRB. destruct (Nat.eqb_spec x p) as [->|].
      - destruct (get_node A p); reflexivity.
      - destruct (get_node A x); reflexivity. }
    split; [|split; [|split]]; unfold g2_of; cbn [a_nodes a_links a_root].
    - intros x. rewrite aget_app, Hg1.
      destruct (get_node A x) as [d|] eqn:Ed; cbn [option_map].
      + now rewrite (sh_old _ _ _ _ _ HS x d Ed).
      + destruct (rev_lookup m x) as [c|] eqn:R.
        * apply rev_lookup_some in R. apply (dget_In_iff Nat.eqb Nat.eqb_spec) in R; [|exact Hk].
          assert (Hb : exists b, get_node B c = Some b).
          { destruct (get_node B c) as [b|] eqn:E; [eauto|]. exfalso. apply (proj1 (sh_dom _ _ _ _ _ HS c)); congruence. }
          destruct Hb as (b & Eb). destruct (sh_copy _ _ _ _ _ HS c x b R Eb) as (d' & Ed' & F1 & F2 & F3 & F4 & F5 & F6).
          rewrite Ed'. cbn [option_map]. rewrite <- (mapn_get _ _ _ R).
          assert (Hab : aget (a_nodes gB) c = Some (anode_of b)) by (rewrite <- HNB, Eb; reflexivity).
          rewrite (aget_map_some (mapn m) (copy_anode m p) (a_nodes gB) c (anode_of b) Hinj Hab). f_equal.
          unfold copy_anode. cbn [snd anode_of a_op a_parent a_children a_meta a_nout].
          destruct d' as [o1 p1 i1 u1 c1 m1]. cbn in *. subst. destruct (nd_parent b); reflexivity.
        * assert (Hno : forall c, mget m c <> Some x).
          { intros c E. apply (rev_lookup_none m x c R). now apply (dget_In_pair Nat.eqb Nat.eqb_spec). }
          rewrite aget_map_none.
          -- destruct (get_node A2 x) eqn:E2; [|reflexivity]. exfalso.
             destruct (sh_only _ _ _ _ _ HS x ltac:(congruence)) as [H|(c & Ec)]; [congruence|]. now apply (Hno c).
          -- intros k Hkk E. apply HkeysB in Hkk. apply (sh_dom _ _ _ _ _ HS) in Hkk.
             destruct (mget m k) as [v|] eqn:Ev; [|congruence]. rewrite (mapn_get _ _ _ Ev) in E. subst v. now apply (Hno k).
    - rewrite map_app, map_map. cbn [fst]. apply NoDup_app_intro.
      + now apply a_upd_nodup.
      + rewrite <- (map_map fst (mapn m)). apply NoDup_map_inj_in; assumption.
      + intros x Hx Hin. apply aget_in in Hx. rewrite Hg1 in Hx.
        rewrite <- (map_map fst (mapn m)) in Hin. apply in_map_iff in Hin. destruct Hin as (k & <- & Hkk).
        apply HkeysB in Hkk. apply (sh_dom _ _ _ _ _ HS) in Hkk. destruct (mget m k) as [v|] eqn:Ev; [|congruence].
        rewrite (mapn_get _ _ _ Ev), (sh_fresh _ _ _ _ _ HS k v Ev) in Hx. now apply Hx.
    - rewrite a_upd_links, (sh_links _ _ _ _ _ HS). exact HLA.
    - rewrite a_upd_root, (sh_root _ _ _ _ _ HS). exact HRA.
  Qed.

  Lemma NoDup_values (m : mapping) : NoDup (map fst m) ->
    (forall c1 c2 v, mget m c1 = Some v -> mget m c2 = Some v -> c1 = c2) -> NoDup (map snd m).
  Proof.
    induction m as [|[c v] r IH]; cbn [map fst snd]; intros Hk Hinj; [constructor|]. inversion Hk; subst.
    constructor.
    - intros Hin. apply in_map_iff in Hin. destruct Hin as ([c2 v2] & E & Hin). cbn in E. subst v2.
      assert (Hc2 : In c2 (map fst r)) by (change c2 with (fst (c2, v)); now apply in_map).
      assert (c2 <> c) by (intros ->; contradiction).
      assert (c = c2); [|congruence]. apply (Hinj c c2 v).
      + cbn. now rewrite Nat.eqb_refl.
      + cbn. destruct (Nat.eqb_spec c2 c); [contradiction|]. now apply (dget_In_iff Nat.eqb Nat.eqb_spec).
    - apply IH; [assumption|]. intros c1 c2 v0 E1 E2.
      assert (Hin1 : In c1 (map fst r)) by (eapply (dget_In Nat.eqb Nat.eqb_spec); eassumption).
      assert (Hin2 : In c2 (map fst r)) by (eapply (dget_In Nat.eqb Nat.eqb_spec); eassumption).
      apply (Hinj c1 c2 v0); cbn.
      + destruct (Nat.eqb_spec c1 c) as [->|]; [contradiction|exact E1].
      + destruct (Nat.eqb_spec c2 c) as [->|]; [contradiction|exact E2].
  Qed.
  Lemma mget_keys (m : mapping) c : In c (map fst m) <-> mget m c <> None.
  Proof.
    split.
    - induction m as [|[k v] r IH]; cbn; [tauto|]. destruct (Nat.eqb_spec c k) as [->|]; [discriminate|].
      intros [E|H]; [congruence|auto].
    - intros H. destruct (mget m c) eqn:E; [|congruence]. eapply (dget_In Nat.eqb Nat.eqb_spec); eassumption.
  Qed.

  Theorem insert_rep (om : mapping) (A B : hugr) gA gB (parent : option nid) :
    let p := match parent with Some x => x | None => root A end in
    Inv A -> Inv B -> WF B -> Rep A gA -> Rep B gB -> get_node A p <> None ->
    exists A' m, insert_hugr om A B parent = (A', m, Ok) /\ Inv A' /\
                 mapping_ok gA gB m = true /\ Rep A' (s_insert gA gB m p).
  Proof.
    intros p HIA HIB HWF HRA HRB HpA.
    destruct (phase12 om A B parent HIA HIB HWF HpA) as (A1 & A2 & m & Hins & Hcc & HS). fold p in HS.
    pose proof (shape_inv A B p m A2 HIA HIB HpA HS) as HI2.
    pose proof (shape_rep A B gA gB p m A2 HIA HIB HRA HRB HpA HS) as HR2.
    destruct (copy_links_rep m (q_links B) A2 _ HI2 HR2) as (A3 & Hcl & HI3 & HR3 & _).
    { intros s t Hin. destruct HIB as (_ & _ & HCB & _). destruct (HCB s t Hin) as ((bs & E & Bd) & (bt & E2 & Bd2)).
      assert (Hm : forall c b, get_node B c = Some b -> exists c', mget m c = Some c' /\ get_node A2 c' <> None).
      { intros c b Eb. destruct (mget m c) as [c'|] eqn:Em; [|exfalso; apply (proj2 (sh_dom _ _ _ _ _ HS c)); congruence].
        exists c'. split; [reflexivity|]. destruct (sh_copy _ _ _ _ _ HS c c' b Em Eb) as (d' & Ed' & _). congruence. }
      split; [eapply Hm; eassumption|]. split; [eapply Hm; eassumption|]. lia. }
    exists A3, m. unfold insert_hugr. rewrite Hins, Hcc, Hcl. split; [reflexivity|]. split; [exact HI3|]. split.
    - unfold mapping_ok. pose proof (sh_keys _ _ _ _ _ HS) as Hk.
      pose proof (NoDup_values m Hk (sh_inj _ _ _ _ _ HS)) as Hv.
      destruct (nodupb_spec Nat.eqb Nat.eqb_spec (map fst m)); [|contradiction].
      destruct (nodupb_spec Nat.eqb Nat.eqb_spec (map snd m)); [|contradiction]. cbn [andb].
      destruct HRB as (HNB & _). destruct HRA as (HNA & _).
      assert (Hset : seteq_b Nat.eqb (map fst m) (map fst (a_nodes gB)) = true).
      { unfold seteq_b, incl_b. apply andb_true_iff. split; apply forallb_forall; intros c Hc.
        - destruct (mem_spec Nat.eqb Nat.eqb_spec c (map fst (a_nodes gB))) as [|Hn]; [reflexivity|]. exfalso. apply Hn.
          apply mget_keys in Hc. apply (sh_dom _ _ _ _ _ HS) in Hc. specialize (HNB c).
          destruct (get_node B c); [|congruence]. cbn in HNB. symmetry in HNB. eapply (dget_In Nat.eqb Nat.eqb_spec); eassumption.
        - destruct (mem_spec Nat.eqb Nat.eqb_spec c (map fst m)) as [|Hn]; [reflexivity|]. exfalso. apply Hn.
          apply mget_keys. apply (sh_dom _ _ _ _ _ HS). apply aget_in in Hc. rewrite <- HNB in Hc.
          destruct (get_node B c); [discriminate|]. exfalso. now apply Hc. }
      rewrite Hset. cbn [andb]. apply forallb_forall. intros v Hvin. apply in_map_iff in Hvin.
      destruct Hvin as ([c v'] & E & Hin). cbn in E. subst v'.
      apply (dget_In_iff Nat.eqb Nat.eqb_spec) in Hin; [|exact Hk].
      unfold a_live. rewrite <- HNA, (sh_fresh _ _ _ _ _ HS c v Hin). reflexivity.
    - rewrite s_insert_eq. eapply Rep_fold_perm; [|exact HR3]. apply Permutation_map. now destruct HRB as (_ & _ & HL & _).
  Qed.

  (* one command of a full history: insert_hugr carries the history of the source with the values returned while
     building it (what the harness records), and these are the model's own under the choices they name *)
  Definition annot_ok (c : cmd Op Meta) : Prop :=
    match c with
    | Basic _ => True
    | Insert o m br src _ => br = 0 /\ src = trace_at (init o m) src
    end.

  Lemma bstep_at_WF_rep pick h g c h' rt r g' : Inv h -> Rep h g -> WF h -> bstep_at pick h c = (h', rt, r) ->
    s_bstep g c rt = Next g' -> WF h'.
  Proof.
    intros HI HR HW. unfold bstep_at.
    exact (bstep_WF_rep _ g c h' rt r g' (Inv_prefer _ h HI) (Rep_prefer _ h g HR) (WF_prefer _ h HW)).
  Qed.
  Lemma brun_refines_wf cs : forall h g g', Inv h -> WF h -> Rep h g ->
    s_brun g (trace_at h cs) = Next g' -> Inv (brun_at h cs) /\ WF (brun_at h cs) /\ Rep (brun_at h cs) g'.
  Proof.
    induction cs as [|[c pick] cs IH]; intros h g g' HI HW HR; cbn [trace_at s_brun brun_at fold_left].
    - intros [= <-]. auto.
    - cbn [fst snd]. destruct (bstep_at pick h c) as [[h1 rt] r] eqn:E. cbn [s_brun fst].
      pose proof (bstep_at_refines pick h g c h1 rt r HI HR E) as Hs.
      destruct (s_bstep g c rt) as [| |g1] eqn:Es; try discriminate.
      destruct Hs as (_ & HI1 & HR1). intros H.
      exact (IH h1 g1 g' HI1 (bstep_at_WF_rep pick h g c h1 rt r g1 HI HR HW E Es) HR1 H).
  Qed.

  Theorem step_refines pick h g c h' rt r : Inv h -> WF h -> Rep h g -> annot_ok c -> step pick h c = (h', rt, r) ->
    match s_step g c rt with
    | OutOfScope => True
    | Bad => False
    | Next g' => r = Ok /\ Inv h' /\ WF h' /\ Rep h' g'
    end.
  Proof.
    intros HI HW HR Han Hst. destruct c as [b|o m br src p]; cbn [step s_step] in *.
    - pose proof (bstep_at_refines pick h g b h' rt r HI HR Hst) as H.
      destruct (s_bstep g b rt) as [| |g'] eqn:Es; try exact H.
      destruct H as (Hr & HI' & HR'). split; [exact Hr|]. split; [exact HI'|]. split; [|exact HR'].
      exact (bstep_at_WF_rep pick h g b h' rt r g' HI HR HW Hst Es).
    - destruct Han as [-> Hsrc].
      destruct (s_brun (s_init 0 o m) src) as [| |gB] eqn:EB; try exact I.
      destruct (a_live g (dflt g p)) eqn:Hp; [|exact I].
      destruct (init_inv o m) as [HI0 HR0]. rewrite Hsrc in EB.
      destruct (brun_refines_wf src (init o m) _ gB HI0 (init_WF o m) HR0 EB) as (HIB & HWB & HRB).
      assert (Hdf : dflt g p = match p with Some x => x | None => root h end).
      { destruct p; [reflexivity|]. cbn. destruct HR as (_ & _ & _ & E). now rewrite E. }
      assert (HpA : get_node h (match p with Some x => x | None => root h end) <> None).
      { rewrite <- Hdf. now apply (rep_live h g _ HR). }
      destruct (insert_rep (om_of pick) h (brun_at (init o m) src) g gB p HI HIB HWB HR HRB HpA) as (A' & mp & Hins & HI' & Hmok & HR').
      rewrite Hins in Hst. injection Hst as <- <- <-. rewrite Hmok. split; [reflexivity|]. split; [exact HI'|].
      split; [|now rewrite Hdf].
      destruct (insert_ok (om_of pick) h (brun_at (init o m) src) p HI HIB HWB HpA) as (A'' & mp' & Hins' & _ & HIF).
      rewrite Hins in Hins'. injection Hins' as <- <-.
      exact (insert_WF h _ _ mp A' HI HIB HpA HW HWB HIF).
  Qed.

  (* a history with its choices, as the specification sees it: every command with the value the model returned *)
  Fixpoint ctrace (h : hugr) (cs : list (cmd Op Meta * ret)) : list (cmd Op Meta * ret) :=
    match cs with
    | [] => []
    | (c, pick) :: r => let '(h', rt, _) := step pick h c in (c, rt) :: ctrace h' r
    end.
  Fixpoint s_run (g : agraph) (l : list (cmd Op Meta * ret)) : sres Op Meta :=
    match l with
    | [] => Next g
    | (c, rt) :: r => match s_step g c rt with Next g' => s_run g' r | e => e end
    end.
  Theorem run_refines cs : forall h g g', Inv h -> WF h -> Rep h g -> Forall annot_ok (map fst cs) ->
    s_run g (ctrace h cs) = Next g' -> Inv (run h cs) /\ WF (run h cs) /\ Rep (run h cs) g'.
  Proof.
    induction cs as [|[c pick] cs IH]; intros h g g' HI HW HR Han; cbn [ctrace s_run run fold_left].
    - intros [= <-]. auto.
    - cbn [map fst snd] in *. inversion Han; subst. destruct (step pick h c) as [[h1 rt] r] eqn:E. cbn [s_run fst].
      pose proof (step_refines pick h g c h1 rt r HI HW HR H1 E) as Hs.
      destruct (s_step g c rt) as [| |g1]; try discriminate.
      destruct Hs as (_ & HI1 & HW1 & HR1). intros H. exact (IH h1 g1 g' HI1 HW1 HR1 H2 H).
  Qed.
  Theorem run_never_bad cs : forall h g, Inv h -> WF h -> Rep h g -> Forall annot_ok (map fst cs) -> s_run g (ctrace h cs) <> Bad.
  Proof.
    induction cs as [|[c pick] cs IH]; intros h g HI HW HR Han; cbn [ctrace s_run]; [discriminate|].
    cbn [map fst] in Han. inversion Han; subst. destruct (step pick h c) as [[h1 rt] r] eqn:E. cbn [s_run].
    pose proof (step_refines pick h g c h1 rt r HI HW HR H1 E) as Hs.
    destruct (s_step g c rt) as [| |g1]; [discriminate|contradiction|].
    destruct Hs as (_ & HI1 & HW1 & HR1). now apply IH.
  Qed.
  Theorem store_refines_spec o m cs g' : Forall annot_ok (map fst cs) ->
    s_run (s_init 0 o m) (ctrace (init o m) cs) = Next g' ->
    Inv (run (init o m) cs) /\ WF (run (init o m) cs) /\ Rep (run (init o m) cs) g'.
  Proof. destruct (init_inv o m) as [HI HR]. exact (run_refines cs _ _ g' HI (init_WF o m) HR). Qed.
  Theorem spec_never_rejects o m cs : Forall annot_ok (map fst cs) -> s_run (s_init 0 o m) (ctrace (init o m) cs) <> Bad.
  Proof. destruct (init_inv o m) as [HI HR]. exact (run_never_bad cs _ _ HI (init_WF o m) HR). Qed.

  (* ---------------------------------------------------------------- the monitored predicate holds of the model *)
  Lemma perm_eqb_complete {X} (eqb : X -> X -> bool) (Heq : forall a b, reflect (a = b) (eqb a b)) (l1 : list X) :
    forall l2, Permutation l1 l2 -> perm_eqb eqb l1 l2 = true.
  Proof.
    induction l1 as [|x r IH]; intros l2 HP; cbn.
    - apply Permutation_nil in HP. now subst.
    - destruct (remove1 eqb x l2) as [l2'|] eqn:E.
      + apply IH. apply (remove1_perm eqb Heq) in E. apply (Permutation_cons_inv (a := x)). now rewrite HP, E.
      + exfalso. apply (remove1_none eqb Heq) in E. apply E. eapply Permutation_in; [exact HP|now left].
  Qed.
  Lemma seteq_b_intro (l1 l2 : list nid) : (forall x, In x l1 <-> In x l2) -> seteq_b Nat.eqb l1 l2 = true.
  Proof.
    intros H. unfold seteq_b, incl_b. apply andb_true_iff. split; apply forallb_forall; intros x Hx.
    - destruct (mem_spec Nat.eqb Nat.eqb_spec x l2) as [|Hn]; [reflexivity|]. exfalso. apply Hn. now apply H.
    - destruct (mem_spec Nat.eqb Nat.eqb_spec x l1) as [|Hn]; [reflexivity|]. exfalso. apply Hn. now apply H.
  Qed.
  Lemma abs_keys (h : hugr) x : In x (map fst (a_nodes (abs h))) <-> get_node h x <> None.
  Proof. cbn [abs a_nodes]. rewrite abs_from_keys. apply iter_nodes_In. Qed.
  Lemma abs_get (h : hugr) x : aget (a_nodes (abs h)) x = option_map anode_of (get_node h x).
  Proof. symmetry. apply (get_refines h (abs h) x (Rep_abs h)). Qed.
  Lemma abs_in (h : hugr) n a : In (n, a) (a_nodes (abs h)) -> exists d, get_node h n = Some d /\ a = anode_of d.
  Proof.
    intros Hin. apply (dget_In_iff Nat.eqb Nat.eqb_spec) in Hin; [|destruct (Rep_abs h) as (_ & Hnd0 & _); exact Hnd0].
    rewrite abs_get in Hin. destruct (get_node h n) as [d|]; [|discriminate]. exists d. split; [reflexivity|].
    cbn in Hin. congruence.
  Qed.

  Section Monitor.
    Variables (op_eqb : Op -> Op -> bool) (meta_eqb : Meta -> Meta -> bool).
    Hypothesis op_eqb_refl : forall o, op_eqb o o = true.
    Hypothesis meta_eqb_refl : forall o, meta_eqb o o = true.

    Theorem insert_satisfies_monitored_spec (A B A' : hugr) p m :
      Inv A -> Inv B -> get_node A p <> None -> IsoFrame A B p m A' ->
      insert_spec_b op_eqb meta_eqb (abs A) (abs B) (abs A') m p false [] = true.
    Proof.
      intros HIA HIB HpA HIF. pose proof HIB as (_ & _ & _ & HTB).
      destruct (tree_facts B HTB) as ((rb & Erb & Prb) & HparliveB & HonlyrootB).
      pose proof (if_keys _ _ _ _ _ HIF) as Hk.
      assert (Hvals : forall v, In v (map snd m) <-> exists c, mget m c = Some v).
      { intros v. rewrite in_map_iff. split.
        - intros ([c v'] & E & Hin). cbn in E. subst v'. exists c. now apply (dget_In_iff Nat.eqb Nat.eqb_spec).
        - intros (c & E). exists (c, v). split; [reflexivity|]. now apply (dget_In_pair Nat.eqb Nat.eqb_spec). }
      assert (B1 : nodupb Nat.eqb (map fst m) = true)
        by (destruct (nodupb_spec Nat.eqb Nat.eqb_spec (map fst m)); [reflexivity|contradiction]).
      assert (B2 : nodupb Nat.eqb (map snd m) = true).
      { destruct (nodupb_spec Nat.eqb Nat.eqb_spec (map snd m)) as [|Hn]; [reflexivity|]. exfalso. apply Hn.
        apply NoDup_values; [exact Hk|exact (if_inj _ _ _ _ _ HIF)]. }
      assert (B3 : seteq_b Nat.eqb (map fst m) (map fst (a_nodes (abs B))) = true).
      { apply seteq_b_intro. intros c. rewrite mget_keys, abs_keys. apply (if_dom _ _ _ _ _ HIF). }
      assert (B4 : forallb (fun x => negb (a_live (abs A) x)) (map snd m) = true).
      { apply forallb_forall. intros v Hv. apply Hvals in Hv. destruct Hv as (c & E).
        unfold a_live. rewrite abs_get, (if_fresh _ _ _ _ _ HIF c v E). reflexivity. }
      assert (B5 : seteq_b Nat.eqb (map fst (a_nodes (abs A'))) (map fst (a_nodes (abs A)) ++ map snd m) = true).
      { apply seteq_b_intro. intros x. rewrite in_app_iff, !abs_keys, Hvals. split.
        - apply (if_only _ _ _ _ _ HIF).
        - intros [H|(c & E)].
          + destruct (get_node A x) as [d|] eqn:Ed; [|congruence]. rewrite (if_old _ _ _ _ _ HIF x d Ed). discriminate.
          + assert (Hb : exists b, get_node B c = Some b).
            { destruct (get_node B c) as [b|] eqn:Eb; [eauto|]. exfalso. apply (proj1 (if_dom _ _ _ _ _ HIF c)); congruence. }
            destruct Hb as (b & Eb). destruct (if_copy _ _ _ _ _ HIF c x b E Eb) as (d' & Ed' & _). congruence. }
      assert (B6 : nodupb Nat.eqb (map fst (a_nodes (abs A'))) = true).
      { destruct (nodupb_spec Nat.eqb Nat.eqb_spec (map fst (a_nodes (abs A')))) as [|Hn]; [reflexivity|].
        exfalso. apply Hn. destruct (Rep_abs A') as (_ & Hnd0 & _). exact Hnd0. }
      assert (H1 : mapping_bij_b (abs A) (abs B) (abs A') m = true).
      { unfold mapping_bij_b. now rewrite B1, B2, B3, B4, B5, B6. }
      assert (H2 : forallb (iso_node_b op_eqb meta_eqb (abs B) (abs A') m p false) (a_nodes (abs B)) = true).
      { apply forallb_forall. intros [n a] Hin. apply abs_in in Hin. destruct Hin as (b & Eb & ->).
        assert (Hm : exists n', mget m n = Some n').
        { destruct (mget m n) as [n'|] eqn:E; [eauto|]. exfalso. apply (proj2 (if_dom _ _ _ _ _ HIF n)); congruence. }
        destruct Hm as (n' & Em). destruct (if_copy _ _ _ _ _ HIF n n' b Em Eb) as (d' & Ed' & F1 & F2 & F3 & F4 & F5).
        unfold iso_node_b. rewrite (mapn_get _ _ _ Em), abs_get, Ed'.
        cbn [option_map anode_of a_op a_meta a_parent a_children a_nout].
        rewrite F1, F2, F3, F4, F5, op_eqb_refl, meta_eqb_refl, Z.eqb_refl. cbn [andb orb].
        rewrite (proj1 (reflect_iff _ _ (list_eqb_spec Nat.eqb Nat.eqb_spec _ _)) eq_refl). rewrite !andb_true_r.
        cbn [abs a_root]. destruct (Nat.eqb_spec n (root B)) as [->|Hne].
        - assert (b = rb) by congruence. subst b. rewrite Prb. cbn. apply Nat.eqb_refl.
        - destruct (nd_parent b) as [q|] eqn:Eq; [cbn; apply Nat.eqb_refl|].
          exfalso. apply Hne. eapply HonlyrootB; eassumption. }
      assert (H3 : links_b (abs A) (abs B) (abs A') m [] = true).
      { unfold links_b. apply (perm_eqb_complete link_eqb link_eqb_spec). cbn [abs a_links]. rewrite app_nil_r.
        exact (if_links _ _ _ _ _ HIF). }
      assert (H4 : a_live (abs A) p = true).
      { unfold a_live. rewrite abs_get. destruct (get_node A p); [reflexivity|congruence]. }
      assert (H5 : forallb (frame_node_b op_eqb meta_eqb (abs B) (abs A') m p []) (a_nodes (abs A)) = true).
      { apply forallb_forall. intros [n a] Hin. apply abs_in in Hin. destruct Hin as (d & Ed & ->).
        unfold frame_node_b. rewrite abs_get, (if_old _ _ _ _ _ HIF n d Ed). cbn [option_map].
        unfold bump_in, bump_out. cbn [fold_left abs a_root].
        destruct (Nat.eqb n p); cbn [anode_of add_child set_children a_op a_meta a_parent a_children a_nin a_nout
                                      nd_op nd_meta nd_parent nd_children nd_inps nd_outs];
          rewrite op_eqb_refl, meta_eqb_refl, !Z.eqb_refl;
          rewrite (proj1 (reflect_iff _ _ (list_eqb_spec Nat.eqb Nat.eqb_spec _ _)) eq_refl);
          destruct (nd_parent d); cbn; rewrite ?Nat.eqb_refl; reflexivity. }
      assert (H6 : Nat.eqb (a_root (abs A')) (a_root (abs A)) = true).
      { cbn [abs a_root]. rewrite (if_root _ _ _ _ _ HIF). apply Nat.eqb_refl. }
      unfold insert_spec_b, insert_iso_b, insert_frame_b. now rewrite H1, H2, H3, H4, H5, H6.
    Qed.
  End Monitor.

  (* ---------------------------------------------------------------- the builders' wrappers *)
  Definition shape4 (d : node_data) := (nd_op d, nd_parent d, nd_children d, nd_meta d).

  Lemma bump_shape4 (h h' : hugr) s t x :
    option_map anode_of (get_node h' x) = option_map (bump s t x) (option_map anode_of (get_node h x)) ->
    option_map shape4 (get_node h' x) = option_map shape4 (get_node h x).
  Proof.
    destruct (get_node h' x) as [d'|], (get_node h x) as [d|]; cbn; try discriminate; [|reflexivity].
    intros [= H1 H2 H3 H4 _ _]. unfold shape4. congruence.
  Qed.
  Lemma shape4_parent (h h' : hugr) x : option_map shape4 (get_node h' x) = option_map shape4 (get_node h x) ->
    option_map nd_parent (get_node h' x) = option_map nd_parent (get_node h x).
  Proof.
    destruct (get_node h' x) as [d'|], (get_node h x) as [d|]; cbn; try discriminate; [|reflexivity].
    unfold shape4. intros [= _ H _ _]. now rewrite H.
  Qed.

  (* --- lists: membership, filters, first occurrences *)
  Lemma mem_app {X} (eqb : X -> X -> bool) x (a b : list X) : mem eqb x (a ++ b) = mem eqb x a || mem eqb x b.
  Proof. induction a as [|y r IH]; cbn; [reflexivity|]. now rewrite IH, orb_assoc. Qed.
  Lemma mem_link_perm (L L' : list (port * port)) l : Permutation L L' -> mem link_eqb l L = mem link_eqb l L'.
  Proof.
    intros HP. destruct (mem_spec link_eqb link_eqb_spec l L) as [H|H];
      destruct (mem_spec link_eqb link_eqb_spec l L') as [H'|H']; try reflexivity; exfalso.
    - apply H'. eapply Permutation_in; eassumption.
    - apply H. eapply Permutation_in; [symmetry|]; eassumption.
  Qed.
  Lemma filter_filter2 {X} (f g : X -> bool) (l : list X) :
    filter f (filter g l) = filter (fun x => g x && f x) l.
  Proof.
    induction l as [|x r IH]; cbn; [reflexivity|]. destruct (g x); cbn; [destruct (f x); now rewrite IH|exact IH].
  Qed.
  Lemma dedup_incl {X} (eqb : X -> X -> bool) (l : list X) x : In x (dedup eqb l) -> In x l.
  Proof.
    revert x. induction l as [|y r IH]; intros x; cbn; [tauto|]. intros [->|H]; [now left|].
    apply filter_In in H. right. apply IH, H.
  Qed.

  Definition is_ord (l : port * port) : Prop := snd (snd l) = (-1)%Z.
  Definition notin (L : list (port * port)) (l : port * port) : bool := negb (mem link_eqb l L).

  (* the sequential "add the order link unless it is there, then add the wire" against the set formulation *)
  Lemma order_step_lists (L C X : list (port * port)) (wl : port * port) :
    (C = [] \/ exists l, C = [l]) -> (0 <= snd (snd wl))%Z -> (forall y, In y X -> is_ord y) ->
    filter (notin L) (dedup link_eqb (C ++ X)) =
    filter (notin L) C ++ filter (notin (L ++ filter (notin L) C ++ [wl])) (dedup link_eqb X).
  Proof.
    intros HC Hwl HX.
    assert (Hne : forall y, In y (dedup link_eqb X) -> link_eqb y wl = false).
    { intros y Hy. apply dedup_incl, HX in Hy. unfold is_ord in Hy.
      destruct (link_eqb_spec y wl) as [->|]; [lia|reflexivity]. }
    destruct HC as [->|(l & ->)].
    - cbn [app filter]. apply filter_ext_in. intros y Hy. unfold notin. rewrite mem_app. cbn [mem].
      now rewrite (Hne y Hy), !orb_false_r.
    - cbn [app dedup filter]. rewrite filter_filter2.
      assert (En : notin L l = negb (mem link_eqb l L)) by reflexivity. rewrite En.
      destruct (mem link_eqb l L) eqn:El; cbn [negb app].
      + apply filter_ext_in. intros y Hy. unfold notin. rewrite mem_app. cbn [mem]. rewrite (Hne y Hy), !orb_false_r.
        destruct (link_eqb_spec y l) as [->|]; cbn; [now rewrite El|reflexivity].
      + f_equal. apply filter_ext_in. intros y Hy. unfold notin. rewrite !mem_app. cbn [mem].
        rewrite (Hne y Hy), !orb_false_r.
        destruct (link_eqb y l), (mem link_eqb y L); reflexivity.
  Qed.

  Lemma add_order_link_pt (h : hugr) a b L : Inv h -> get_node h a <> None -> get_node h b <> None ->
    Permutation (q_links h) L ->
    exists h', add_order_link h a b = (h', Ok) /\ Inv h' /\ root h' = root h /\
      Permutation (q_links h') (L ++ filter (notin L) [((a, (-1)%Z), (b, (-1)%Z))]) /\
      forall x, option_map shape4 (get_node h' x) = option_map shape4 (get_node h x).
  Proof.
    intros HI Ha Hb HP. unfold add_order_link.
    assert (Hh : has_link h (a, (-1)%Z) (b, (-1)%Z) = mem link_eqb ((a, (-1)%Z), (b, (-1)%Z)) L).
    { unfold has_link, linked_out. apply has_link_refines; [apply HI|exact HP]. }
    rewrite Hh. cbn [filter]. unfold notin. destruct (mem link_eqb ((a, (-1)%Z), (b, (-1)%Z)) L); cbn [negb].
    - exists h. split; [reflexivity|]. split; [assumption|]. split; [reflexivity|]. split; [now rewrite app_nil_r|reflexivity].
    - destruct (add_link_pt h (a, (-1)%Z) (b, (-1)%Z) HI Ha Hb) as (h1 & Hadd & HI1 & Hr1 & HP1 & Hpt1); cbn; try lia.
      exists h1. split; [exact Hadd|]. split; [exact HI1|]. split; [exact Hr1|]. split.
      + rewrite HP1. now apply Permutation_app_tail.
      + intros x. eapply bump_shape4. apply Hpt1.
  Qed.

  (* --- _ancestral_sibling reads parent pointers only, and on the nodes A had it walks as the specification does *)
  Section Wires.
    Variables (A : hugr) (p r' : nid).
    (* a state in which the nodes of A have the parents they had and r' hangs under p *)
    Definition Ctx (h : hugr) : Prop :=
      (forall x d, get_node A x = Some d -> option_map nd_parent (get_node h x) = Some (nd_parent d)) /\
      option_map nd_parent (get_node h r') = Some (Some p).
    Lemma Ctx_step h h' : (forall x, option_map shape4 (get_node h' x) = option_map shape4 (get_node h x)) ->
      Ctx h -> Ctx h'.
    Proof.
      intros Hs [H1 H2]. split.
      - intros x d E. rewrite (shape4_parent _ _ _ (Hs x)). now apply H1.
      - now rewrite (shape4_parent _ _ _ (Hs r')).
    Qed.
    Lemma Ctx_len h : Ctx h -> length (a_nodes (abs A)) <= length (nodes h).
    Proof.
      intros [H1 _]. rewrite <- (map_length fst), <- (seq_length (length (nodes h)) 0).
      apply NoDup_incl_length; [destruct (Rep_abs A) as (_ & Hnd & _); exact Hnd|].
      intros x Hx. apply abs_keys in Hx. destruct (get_node A x) as [d|] eqn:E; [|congruence].
      specialize (H1 x d E). destruct (get_node h x) as [d'|] eqn:E'; [|discriminate].
      apply in_seq. pose proof (get_node_lt _ _ _ E'). lia.
    Qed.
    Lemma walk_agrees h sp a : Ctx h -> forall f t, sibling_ancestor f (abs A) sp t = Some a ->
      forall f', f <= f' -> anc_sib_from f' h (Some sp) t = inl (Some a) /\ get_node A a <> None.
    Proof.
      intros [H1 _]. induction f as [|f IH]; intros t; cbn [sibling_ancestor]; [discriminate|].
      rewrite abs_get. destruct (get_node A t) as [d|] eqn:Ed; cbn [option_map]; [|discriminate].
      cbn [anode_of a_parent]. destruct (nd_parent d) as [tp|] eqn:Ep; [|discriminate].
      intros H [|f'] Hle; [lia|]. cbn [anc_sib_from]. specialize (H1 t d Ed).
      destruct (get_node h t) as [d'|]; [|discriminate]. cbn in H1. injection H1 as ->. rewrite Ep.
      cbn [option_eqb]. destruct (Nat.eqb tp sp).
      - injection H as <-. split; [reflexivity|congruence].
      - apply IH; [exact H|lia].
    Qed.

    Lemma wire_up_port_ok (h : hugr) i w L : get_node A r' = None -> Inv h -> Ctx h -> (0 <= i)%Z ->
      Permutation (q_links h) L ->
      (match wire_anchor (abs A) p (fst w) with Some _ => Z.leb (-1) (snd w) | None => false end) = true ->
      exists h', wire_up_port h r' i w = (h', Ok) /\ Inv h' /\ root h' = root h /\
        Permutation (q_links h') (L ++ filter (notin L) (order_of_wire (abs A) p w) ++ [(w, (r', i))]) /\
        forall x, option_map shape4 (get_node h' x) = option_map shape4 (get_node h x).
    Proof.
      intros Hfresh HI HC Hi HP Hg. pose proof HC as [H1 H2].
      unfold wire_anchor in Hg. unfold order_of_wire, wire_anchor. rewrite abs_get in *.
      destruct (get_node A (fst w)) as [ds|] eqn:Eds; cbn [option_map] in *; [|discriminate].
      cbn [anode_of a_parent] in *. destruct (nd_parent ds) as [sp|] eqn:Esp; [|discriminate].
      pose proof (H1 _ _ Eds) as Hs. destruct (get_node h (fst w)) as [ds'|] eqn:Eds'; [|discriminate].
      cbn in Hs. injection Hs as Hs. rewrite Esp in Hs.
      destruct (get_node h r') as [dr|] eqn:Edr; [|discriminate]. cbn in H2. injection H2 as H2.
      assert (Hlw : get_node h (fst w) <> None) by congruence.
      assert (Hlr : get_node h r' <> None) by congruence.
      unfold wire_up_port, ancestral_sibling. rewrite Eds', Hs. cbn [anc_sib_from]. rewrite Edr, H2. cbn [option_eqb].
      rewrite (Nat.eqb_sym p sp). destruct (Nat.eqb sp p) eqn:Epp.
      - (* a sibling of the inserted root *)
        rewrite Nat.eqb_refl. apply Z.leb_le in Hg.
        destruct (add_link_pt h w (r', i) HI Hlw Hlr Hg) as (h1 & Hadd & HI1 & Hr1 & HP1 & Hpt1); [cbn; lia|].
        exists h1. split; [exact Hadd|]. split; [exact HI1|]. split; [exact Hr1|]. split.
        + cbn [filter app]. rewrite HP1. now apply Permutation_app_tail.
        + intros x. eapply bump_shape4. apply Hpt1.
      - (* from an enclosing region *)
        destruct (sibling_ancestor (length (a_nodes (abs A))) (abs A) sp p) as [a|] eqn:Ea; cbn [option_map] in *;
          [|discriminate].
        apply Z.leb_le in Hg.
        destruct (walk_agrees h sp a HC _ _ Ea (length (nodes h)) (Ctx_len h HC)) as [Hw Hla]. rewrite Hw.
        assert (Har : Nat.eqb a r' = false) by (apply Nat.eqb_neq; congruence). rewrite Har.
        assert (Hlah : get_node h a <> None).
        { destruct (get_node A a) as [da|] eqn:Eda; [|congruence]. specialize (H1 _ _ Eda).
          destruct (get_node h a); [discriminate|discriminate]. }
        destruct (add_order_link_pt h (fst w) a L HI Hlw Hlah HP) as (h1 & Hadd & HI1 & Hr1 & HP1 & Hs1).
        rewrite Hadd.
        assert (Hlw1 : get_node h1 (fst w) <> None).
        { intros E. specialize (Hs1 (fst w)). rewrite E, Eds' in Hs1. discriminate. }
        assert (Hlr1 : get_node h1 r' <> None).
        { intros E. specialize (Hs1 r'). rewrite E, Edr in Hs1. discriminate. }
        destruct (add_link_pt h1 w (r', i) HI1 Hlw1 Hlr1 Hg) as (h2 & Hadd2 & HI2 & Hr2 & HP2 & Hpt2); [cbn; lia|].
        exists h2. split; [exact Hadd2|]. split; [exact HI2|]. split; [congruence|]. split.
        + rewrite HP2, HP1, <- app_assoc. reflexivity.
        + intros x. rewrite (bump_shape4 _ _ _ _ _ (Hpt2 x)). apply Hs1.
    Qed.

    Lemma order_of_wire_shape w : order_of_wire (abs A) p w = [] \/ exists l, order_of_wire (abs A) p w = [l].
    Proof. unfold order_of_wire. destruct (wire_anchor (abs A) p (fst w)) as [[a|]|]; eauto. Qed.
    Lemma order_of_wire_ord ws y : In y (flat_map (order_of_wire (abs A) p) ws) -> is_ord y.
    Proof.
      intros H. apply in_flat_map in H. destruct H as (w & _ & H). unfold order_of_wire in H.
      destruct (wire_anchor (abs A) p (fst w)) as [[a|]|]; try destruct H as [<-|[]]; try destruct H. reflexivity.
    Qed.

    Lemma wire_up_ok ws : forall (h : hugr) i L, get_node A r' = None -> Inv h -> Ctx h -> (0 <= i)%Z ->
      Permutation (q_links h) L -> wires_guard (abs A) p ws = true ->
      exists h', wire_up h r' i ws = (h', Ok) /\ Inv h' /\ root h' = root h /\
        Permutation (q_links h')
                    (L ++ wire_links r' i ws ++
                     filter (notin L) (dedup link_eqb (flat_map (order_of_wire (abs A) p) ws))) /\
        forall x, option_map shape4 (get_node h' x) = option_map shape4 (get_node h x).
    Proof.
      induction ws as [|w rest IH]; intros h i L Hfresh HI HC Hi HP Hg; cbn [wire_up wire_links flat_map].
      - exists h. split; [reflexivity|]. split; [assumption|]. split; [reflexivity|].
        split; [cbn; now rewrite app_nil_r|reflexivity].
      - cbn [wires_guard forallb] in Hg. apply andb_true_iff in Hg. destruct Hg as [Hgw Hgr].
        destruct (wire_up_port_ok h i w L Hfresh HI HC Hi HP Hgw) as (h1 & Hwp & HI1 & Hr1 & HP1 & Hs1).
        rewrite Hwp.
        destruct (IH h1 (i + 1)%Z _ Hfresh HI1 (Ctx_step _ _ Hs1 HC) ltac:(lia) HP1 Hgr)
          as (h' & Hw' & HI' & Hr' & HP' & Hs').
        exists h'. split; [exact Hw'|]. split; [exact HI'|]. split; [congruence|]. split.
        + rewrite HP'.
          rewrite (order_step_lists L (order_of_wire (abs A) p w) (flat_map (order_of_wire (abs A) p) rest)
                                    (w, (r', i)) (order_of_wire_shape w) ltac:(cbn; lia) (order_of_wire_ord rest)).
          rewrite <- !app_assoc. apply Permutation_app_head.
          set (C := filter (notin L) (order_of_wire (abs A) p w)).
          set (Y := filter _ (dedup link_eqb (flat_map (order_of_wire (abs A) p) rest))).
          cbn [app]. rewrite (Permutation_app_comm C). cbn [app]. apply perm_skip.
          rewrite <- !app_assoc. apply Permutation_app_head, Permutation_app_comm.
        + intros x. now rewrite Hs', Hs1.
    Qed.
  End Wires.

  Lemma update_port_count_ok (h : hugr) n ki ko : get_node h n <> None ->
    exists h', update_port_count h n ki ko = (h', Ok) /\ links h' = links h /\ root h' = root h /\
      forall x, option_map shape4 (get_node h' x) = option_map shape4 (get_node h x).
  Proof.
    intros Hn. destruct (get_node h n) as [d|] eqn:Ed; [|congruence]. unfold update_port_count.
    assert (Hset : forall (h0 : hugr) d0 d1, get_node h0 n = Some d0 -> shape4 d1 = shape4 d0 ->
              forall x, option_map shape4 (get_node (set_node h0 n d1) x) = option_map shape4 (get_node h0 x)).
    { intros h0 d0 d1 E S x. rewrite get_set_node by (eapply get_node_lt; eassumption).
      destruct (Nat.eqb_spec x n) as [->|]; [|reflexivity]. rewrite E. cbn. now rewrite S. }
    destruct ki as [ki|], ko as [ko|].
    - rewrite Ed. rewrite get_set_node by (eapply get_node_lt; eassumption). rewrite Nat.eqb_refl.
      eexists. split; [reflexivity|]. split; [reflexivity|]. split; [reflexivity|]. intros x.
      assert (E1 : get_node (set_node h n (set_inps d ki)) n = Some (set_inps d ki))
        by (rewrite get_set_node by (eapply get_node_lt; eassumption); now rewrite Nat.eqb_refl).
      rewrite (Hset (set_node h n (set_inps d ki)) (set_inps d ki) (set_outs (set_inps d ki) ko) E1 eq_refl).
      now rewrite (Hset h d (set_inps d ki) Ed eq_refl).
    - rewrite Ed. eexists. split; [reflexivity|]. split; [reflexivity|]. split; [reflexivity|]. now apply (Hset h d).
    - rewrite Ed. eexists. split; [reflexivity|]. split; [reflexivity|]. split; [reflexivity|]. now apply (Hset h d).
    - exists h. repeat split; reflexivity.
  Qed.

  (* insert_nested / insert_cfg / insert_conditional / insert_tail_loop: the insertion of C08_insert_iso_and_frame,
     then exactly the links wires_extra of spec/InsertS.v computed on A as it was: one link per wire into the image
     of the root at offsets 0, 1, ..., and, for the wires that come from an enclosing region, the state order link
     from the wire's source to the ancestor of the inserted root that is its sibling (once, and only if A did not
     have it); operations, hierarchy and metadata of all nodes are those of the plain insertion (only port counts
     may be re-declared) *)
  Theorem insert_wrappers_attach_wires (om : mapping) (A B : hugr) (p : nid) (ws : list port) ki ko :
    Inv A -> Inv B -> WF B -> get_node A p <> None -> wires_guard (abs A) p ws = true ->
    exists A' A'' m r',
      insert_hugr om A B (Some p) = (A', m, Ok) /\ IsoFrame A B p m A' /\ mget m (root B) = Some r' /\
      insert_wrapped om A B p ws ki ko = (A'', m, Ok) /\ root A'' = root A /\
      Permutation (q_links A'') (q_links A' ++ wires_extra (abs A) p r' ws) /\
      forall x, option_map shape4 (get_node A'' x) = option_map shape4 (get_node A' x).
  Proof.
    intros HIA HIB HWF HpA Hws.
    destruct (insert_ok om A B (Some p) HIA HIB HWF HpA) as (A' & m & Hins & HI' & HIF). cbn in HIF.
    pose proof HIB as (_ & _ & HCB & ((rb & Erb & Prb) & _)).
    assert (Hr : exists r', mget m (root B) = Some r').
    { destruct (mget m (root B)) as [r'|] eqn:E; [eauto|]. exfalso. apply (proj2 (if_dom _ _ _ _ _ HIF (root B))); congruence. }
    destruct Hr as (r' & Er).
    destruct (if_copy _ _ _ _ _ HIF _ _ _ Er Erb) as (dr & Edr & _ & _ & _ & Pdr & _). rewrite Prb in Pdr.
    pose proof (if_fresh _ _ _ _ _ HIF _ _ Er) as Hfresh.
    assert (HC : Ctx A p r' A').
    { split; [|now rewrite Edr; cbn; rewrite Pdr]. intros x d E. rewrite (if_old _ _ _ _ _ HIF _ _ E). cbn.
      now destruct (Nat.eqb x p). }
    destruct (wire_up_ok A p r' ws A' 0%Z (q_links A') Hfresh HI' HC ltac:(lia) (Permutation_refl _) Hws)
      as (A2 & Hwu & HI2 & Hr2 & HP2 & Hsh2).
    assert (Hlive2 : get_node A2 r' <> None).
    { intros E. specialize (Hsh2 r'). rewrite E, Edr in Hsh2. discriminate. }
    destruct (update_port_count_ok A2 r' ki ko Hlive2) as (A3 & Hup & Hl3 & Hr3 & Hsh3).
    exists A', A3, m, r'. split; [exact Hins|]. split; [exact HIF|]. split; [exact Er|].
    unfold insert_wrapped. rewrite Hins, Er, Hwu, Hup. split; [reflexivity|].
    split; [now rewrite Hr3, Hr2, (if_root _ _ _ _ _ HIF)|]. split.
    - unfold q_links at 1. rewrite Hl3. fold (q_links A2). rewrite HP2. apply Permutation_app_head.
      unfold wires_extra, wires_order. apply Permutation_app_head.
      (* a candidate order link joins two nodes of A: it is a link of A' iff it is a link of A *)
      match goal with |- Permutation ?a ?b => assert (E : a = b); [|rewrite E; reflexivity] end.
      apply filter_ext_in. intros y Hy. apply dedup_incl, in_flat_map in Hy. destruct Hy as (w & _ & Hy).
      unfold notin. f_equal. rewrite (mem_link_perm _ _ y (if_links _ _ _ _ _ HIF)), mem_app.
      cbn [abs a_links]. fold (q_links A).
      destruct (mem_spec link_eqb link_eqb_spec y (map (mapl m) (q_links B))) as [Hin|]; [|now rewrite orb_false_r].
      exfalso. apply in_map_iff in Hin. destruct Hin as ([s t] & <- & Hin).
      destruct (HCB s t Hin) as ((bs & Ebs & _) & _).
      destruct (mget m (fst s)) as [c'|] eqn:Em; [|apply (proj2 (if_dom _ _ _ _ _ HIF (fst s))); congruence].
      pose proof (if_fresh _ _ _ _ _ HIF _ _ Em) as Hc'.
      unfold order_of_wire, wire_anchor in Hy. rewrite abs_get in Hy.
      destruct (get_node A (fst w)) as [ds|] eqn:Eds; cbn [option_map] in Hy; [|destruct Hy].
      destruct (a_parent (anode_of ds)) as [sp|]; [|destruct Hy]. destruct (Nat.eqb sp p); [destruct Hy|].
      destruct (sibling_ancestor _ _ sp p) as [a|]; cbn [option_map] in Hy; [|destruct Hy].
      destruct Hy as [Hy|[]]. unfold mapl, mapp, mapn in Hy. cbn [fst snd] in Hy. rewrite Em in Hy.
      injection Hy as Hy _. congruence.
    - intros x. now rewrite Hsh3, Hsh2.
  Qed.

  (* wires from siblings only: nothing but one link per wire (the earlier statement of this theorem) *)
  Lemma wires_extra_local (g : agraph) (p r' : nid) (ws : list port) :
    (forall w, In w ws -> exists d, aget (a_nodes g) (fst w) = Some d /\ a_parent d = Some p) ->
    wires_extra g p r' ws = wire_links r' 0 ws.
  Proof.
    intros H. unfold wires_extra, wires_order.
    assert (E : flat_map (order_of_wire g p) ws = []).
    { induction ws as [|w r IH]; [reflexivity|]. cbn [flat_map]. rewrite IH by (intros; apply H; now right).
      destruct (H w ltac:(now left)) as (d & Ed & Ep). unfold order_of_wire, wire_anchor. now rewrite Ed, Ep, Nat.eqb_refl. }
    rewrite E. cbn. now rewrite app_nil_r.
  Qed.
  Theorem insert_wrappers_attach_sibling_wires (om : mapping) (A B : hugr) (p : nid) (ws : list port) ki ko :
    Inv A -> Inv B -> WF B -> get_node A p <> None ->
    (forall w, In w ws -> (exists d, get_node A (fst w) = Some d /\ nd_parent d = Some p) /\ (-1 <= snd w)%Z) ->
    exists A' A'' m r',
      insert_hugr om A B (Some p) = (A', m, Ok) /\ IsoFrame A B p m A' /\ mget m (root B) = Some r' /\
      insert_wrapped om A B p ws ki ko = (A'', m, Ok) /\ root A'' = root A /\
      Permutation (q_links A'') (q_links A' ++ wire_links r' 0 ws) /\
      forall x, option_map shape4 (get_node A'' x) = option_map shape4 (get_node A' x).
  Proof.
    intros HIA HIB HWF HpA Hws.
    assert (Hloc : forall w, In w ws -> exists d, aget (a_nodes (abs A)) (fst w) = Some d /\ a_parent d = Some p).
    { intros w Hin. destruct (Hws w Hin) as [(d & Ed & Ep) _]. exists (anode_of d). rewrite abs_get, Ed. now split. }
    assert (Hg : wires_guard (abs A) p ws = true).
    { apply forallb_forall. intros w Hin. destruct (Hloc w Hin) as (d & Ed & Ep). unfold wire_anchor.
      rewrite Ed, Ep, Nat.eqb_refl. apply Z.leb_le. apply (Hws w Hin). }
    destruct (insert_wrappers_attach_wires om A B p ws ki ko HIA HIB HWF HpA Hg) as (A' & A'' & m & r' & H).
    exists A', A'', m, r'. now rewrite (wires_extra_local (abs A) p r' ws Hloc) in H.
  Qed.
End Ins.
