(* Proofs for C07, seeded round 3: the reported bound survives every operation that hands the same type back. *)
From Coq Require Import NArith List Bool Arith Lia.
Import ListNotations.
From HV Require Import lib.Harness model.Types spec.TypesS gen.StdBounds proofs.TypesP
  model.TypesSame spec.TypesSameS.

(* ------------------------------------------------------------------ induction on types and arguments at once *)
Lemma ty_arg_ind (P : ty -> Prop) (Q : tyarg -> Prop) :
  (forall rows, Forall (Forall P) rows -> P (TSum rows)) ->
  (forall n, P (TUnitSum n)) -> (forall i b, P (TVar i b)) -> (forall i b, P (TRowVar i b)) ->
  P TUSize -> P TQubit -> (forall n b, P (TAlias n b)) ->
  (forall i o r, Forall P i -> Forall P o -> P (TFunc i o r)) ->
  (forall ps i o r, Forall P i -> Forall P o -> P (TPoly ps i o r)) ->
  (forall e id args b, Forall Q args -> P (TOpaque e id args b)) ->
  (forall d args c, Forall Q args -> P (TExt d args c)) ->
  (forall t, P t -> Q (AType t)) -> (forall n, Q (ANat n)) -> (forall s, Q (AString s)) ->
  (forall l, Forall Q l -> Q (ASeq l)) -> (forall es, Q (AExts es)) -> (forall i p, Q (AVar i p)) ->
  (forall t, P t) /\ (forall a, Q a).
Proof. intros. split; [apply (ty_ind2 P Q)|apply (tyarg_ind2 P Q)]; assumption. Qed.

(* ------------------------------------------------------------------ pointwise list relation *)
Lemma list_rel_b_refl {A} (f : A -> A -> bool) l : Forall (fun x => f x x = true) l -> list_rel_b f l l = true.
Proof. induction 1 as [|x r Hx _ IH]; cbn; [reflexivity|]. now rewrite Hx, IH. Qed.
Lemma list_rel_b_map {A B} (f : A -> B -> bool) (g : A -> B) l :
  Forall (fun x => f x (g x) = true) l -> list_rel_b f l (map g l) = true.
Proof. induction 1 as [|x r Hx _ IH]; cbn; [reflexivity|]. now rewrite Hx, IH. Qed.
Lemma list_rel_b_omapS {A B} (f : A -> B -> bool) (g : A -> option B) l :
  Forall (fun x => forall y, g x = Some y -> f x y = true) l ->
  forall l', omapS g l = Some l' -> list_rel_b f l l' = true.
Proof.
  induction 1 as [|x r Hx _ IH]; intros l' H; cbn in H.
  - injection H as <-. reflexivity.
  - destruct (g x) as [y|] eqn:E; [|discriminate]. destruct (omapS g r) as [ys|]; [|discriminate].
    injection H as <-. cbn. now rewrite (Hx y eq_refl), (IH ys eq_refl).
Qed.
Lemma list_rel_b_eq {A} (f : A -> A -> bool) l :
  Forall (fun x => forall y, f x y = true -> x = y) l -> forall l', list_rel_b f l l' = true -> l = l'.
Proof.
  induction 1 as [|x r Hx _ IH]; intros [|y s] H; cbn in H; try discriminate; [reflexivity|].
  apply andb_true_iff in H. destruct H as [H1 H2]. now rewrite (Hx y H1), (IH s H2).
Qed.
Lemma Forall_all {A} (P : A -> Prop) l : (forall x, P x) -> Forall P l.
Proof. intros H. induction l; constructor; auto. Qed.

Lemma names_refl (l : list name) : list_rel_b N.eqb l l = true.
Proof. apply list_rel_b_refl, Forall_all, N.eqb_refl. Qed.
Lemma names_eq (l l' : list name) : list_rel_b N.eqb l l' = true -> l = l'.
Proof. apply list_rel_b_eq, Forall_all. intros x y H. now apply N.eqb_eq. Qed.

(* ------------------------------------------------------------------ equality of parameters / definitions *)
Fixpoint tparam_eqb_refl (p : typaram) : tparam_eqb p p = true.
Proof.
  destruct p as [b|ub| |p|ps|]; cbn [tparam_eqb]; try reflexivity.
  - now destruct b.
  - destruct ub; cbn; [apply N.eqb_refl|reflexivity].
  - apply tparam_eqb_refl.
  - induction ps as [|x r IH]; cbn; [reflexivity|]. now rewrite tparam_eqb_refl, IH.
Qed.
Fixpoint tparam_eqb_eq (p q : typaram) {struct p} : tparam_eqb p q = true -> p = q.
Proof.
  destruct p as [b|ub| |p|ps|], q as [b'|ub'| |q|qs|]; cbn [tparam_eqb]; try discriminate; try reflexivity.
  - intros H. apply bound_eqb_eq in H. now subst.
  - destruct ub, ub'; cbn; try discriminate; [|reflexivity]. intros H. apply N.eqb_eq in H. now subst.
  - intros H. now rewrite (tparam_eqb_eq p q H).
  - intros H. f_equal. revert qs H. induction ps as [|x r IH]; intros [|y s] H; cbn in H; try discriminate; [reflexivity|].
    apply andb_true_iff in H. destruct H as [H1 H2]. now rewrite (tparam_eqb_eq x y H1), (IH s H2).
Qed.
Lemma tparams_refl ps : list_rel_b tparam_eqb ps ps = true.
Proof. apply list_rel_b_refl, Forall_all, tparam_eqb_refl. Qed.
Lemma tparams_eq ps qs : list_rel_b tparam_eqb ps qs = true -> ps = qs.
Proof. apply list_rel_b_eq, Forall_all, tparam_eqb_eq. Qed.
Lemma defbound_eqb_refl b : defbound_eqb b b = true.
Proof.
  destruct b as [b|idx]; cbn; [now destruct b|]. induction idx as [|i r IH]; cbn; [reflexivity|].
  now rewrite Nat.eqb_refl, IH.
Qed.
Lemma tdef_eqb_refl d : tdef_eqb d d = true.
Proof. unfold tdef_eqb. now rewrite !N.eqb_refl, tparams_refl, defbound_eqb_refl. Qed.
Lemma tdef_eqb_eq d d' : tdef_eqb d d' = true -> d = d'.
Proof.
  unfold tdef_eqb. intros H. repeat (apply andb_true_iff in H; destruct H as [H ?]).
  destruct d, d'; cbn in *. apply N.eqb_eq in H. apply N.eqb_eq in H3. apply N.eqb_eq in H2.
  apply tparams_eq in H1. apply defbound_eqb_eq in H0. now subst.
Qed.
Lemma xclass_eqb_refl c : xclass_eqb c c = true.
Proof. destruct c; cbn; [reflexivity|apply Nat.eqb_refl]. Qed.
Lemma xclass_eqb_eq c c' : xclass_eqb c c' = true -> c = c'.
Proof. destruct c, c'; cbn; try discriminate; [reflexivity|]. intros H. apply Nat.eqb_eq in H. now subst. Qed.
Lemma bound_eqb_refl b : bound_eqb b b = true.
Proof. now destruct b. Qed.

(* ------------------------------------------------------------------ same_b: reflexive in every mode; Exact is equality *)
Lemma same_b_refl_both m : (forall t, same_b m t t = true) /\ (forall a, same_arg_b m a a = true).
Proof.
  apply ty_arg_ind; intros; cbn [same_b same_arg_b];
    rewrite ?Nat.eqb_refl, ?N.eqb_refl, ?bound_eqb_refl, ?names_refl, ?tparams_refl, ?tdef_eqb_refl,
            ?xclass_eqb_refl; try reflexivity.
  - apply list_rel_b_refl. eapply Forall_impl; [|exact H]. intros r Hr. now apply list_rel_b_refl.
  - now rewrite !list_rel_b_refl.
  - now rewrite !list_rel_b_refl.
  - now rewrite list_rel_b_refl.
  - now rewrite list_rel_b_refl.
  - exact H.
  - now apply list_rel_b_refl.
  - apply tparam_eqb_refl.
Qed.
Lemma same_b_refl m t : same_b m t t = true.
Proof. apply same_b_refl_both. Qed.

Ltac split_andb H :=
  repeat match type of H with
         | (_ && _) = true => let H' := fresh H in apply andb_true_iff in H; destruct H as [H H']
         end.

Lemma same_b_exact_both :
  (forall t t', same_b Exact t t' = true -> t = t') /\ (forall a a', same_arg_b Exact a a' = true -> a = a').
Proof.
  apply ty_arg_ind.
  - intros rows H [] E; cbn [same_b] in E; try discriminate. f_equal. revert E. apply list_rel_b_eq.
    eapply Forall_impl; [|exact H]. intros r Hr. now apply list_rel_b_eq.
  - intros n [] E; cbn [same_b] in E; try discriminate. apply Nat.eqb_eq in E. now subst.
  - intros i b [] E; cbn [same_b] in E; try discriminate. split_andb E.
    apply Nat.eqb_eq in E. apply bound_eqb_eq in E0. now subst.
  - intros i b [] E; cbn [same_b] in E; try discriminate. split_andb E.
    apply Nat.eqb_eq in E. apply bound_eqb_eq in E0. now subst.
  - intros [] E; cbn [same_b] in E; try discriminate. reflexivity.
  - intros [] E; cbn [same_b] in E; try discriminate. reflexivity.
  - intros n b [] E; cbn [same_b] in E; try discriminate. split_andb E.
    apply N.eqb_eq in E. apply bound_eqb_eq in E0. now subst.
  - intros i o r Hi Ho [] E; cbn [same_b] in E; try discriminate. split_andb E.
    apply (list_rel_b_eq _ _ Hi) in E. apply (list_rel_b_eq _ _ Ho) in E1. apply names_eq in E0. now subst.
  - intros ps i o r Hi Ho [] E; cbn [same_b] in E; try discriminate. split_andb E.
    apply tparams_eq in E. apply (list_rel_b_eq _ _ Hi) in E2. apply (list_rel_b_eq _ _ Ho) in E1.
    apply names_eq in E0. now subst.
  - intros e id args b Ha [] E; cbn [same_b] in E; try discriminate.
    + split_andb E. apply N.eqb_eq in E. apply N.eqb_eq in E2. apply (list_rel_b_eq _ _ Ha) in E1.
      apply bound_eqb_eq in E0. now subst.
    + destruct c; discriminate.
  - intros d args c Ha [] E; cbn [same_b] in E; try discriminate. split_andb E.
    apply tdef_eqb_eq in E. apply (list_rel_b_eq _ _ Ha) in E1. apply xclass_eqb_eq in E0. now subst.
  - intros t IH [] E; cbn [same_arg_b] in E; try discriminate. now rewrite (IH _ E).
  - intros n [] E; cbn [same_arg_b] in E; try discriminate. apply N.eqb_eq in E. now subst.
  - intros s [] E; cbn [same_arg_b] in E; try discriminate. apply N.eqb_eq in E. now subst.
  - intros l Hl [] E; cbn [same_arg_b] in E; try discriminate. now rewrite (list_rel_b_eq _ _ Hl _ E).
  - intros es [] E; cbn [same_arg_b] in E; try discriminate. now rewrite (names_eq _ _ E).
  - intros i p [] E; cbn [same_arg_b] in E; try discriminate. split_andb E.
    apply Nat.eqb_eq in E. apply tparam_eqb_eq in E0. now subst.
Qed.
Theorem same_exact_iff t t' : same_b Exact t t' = true <-> t = t'.
Proof. split; [apply same_b_exact_both|intros <-; apply same_b_refl]. Qed.

(* ------------------------------------------------------------------ resolve *)
Lemma aget_None_knows {V} (d : list (name * V)) k :
  existsb (fun y => N.eqb (fst y) k) d = false -> aget d k = None.
Proof.
  induction d as [|[k' v] r IH]; cbn; [reflexivity|]. intros H. apply orb_false_iff in H. destruct H as [H1 H2].
  rewrite H1. now apply IH.
Qed.
Lemma lookup_unknown reg e id : knows_b reg e id = false -> lookup_def reg e id = None.
Proof.
  unfold knows_b, lookup_def. induction reg as [|[e' ts] r IH]; cbn; [reflexivity|]. intros H.
  apply orb_false_iff in H. destruct H as [H1 H2]. destruct (N.eqb e' e) eqn:E; cbn in H1.
  - now apply aget_None_knows.
  - now apply IH.
Qed.
Lemma map_id_Forall {A} (f : A -> A) l : Forall (fun x => f x = x) l -> map f l = l.
Proof. induction 1 as [|x r Hx _ IH]; cbn; [reflexivity|]. now rewrite Hx, IH. Qed.
Lemma Forall_forallb_mp {A} (P : A -> Prop) (g : A -> bool) l :
  Forall (fun x => g x = true -> P x) l -> forallb g l = true -> Forall P l.
Proof.
  induction 1 as [|x r Hx _ IH]; cbn; intros H; constructor; apply andb_true_iff in H; destruct H; auto.
Qed.

Lemma Forall_forallb_mp2 {A} (P : A -> Prop) (g : A -> bool) rows :
  Forall (Forall (fun x => g x = true -> P x)) rows -> forallb (forallb g) rows = true -> Forall (Forall P) rows.
Proof.
  intros H. apply Forall_forallb_mp. eapply Forall_impl; [|exact H]. intros r Hr Hu.
  exact (Forall_forallb_mp _ _ _ Hr Hu).
Qed.

Lemma resolve_unknown_both reg :
  (forall t, unknown_b reg t = true -> resolve_ty reg t = t) /\
  (forall a, unknown_arg_b reg a = true -> resolve_arg reg a = a).
Proof.
  apply ty_arg_ind; intros; cbn [resolve_ty resolve_arg]; try reflexivity.
  - f_equal. cbn [unknown_b] in H0. apply map_id_Forall.
    eapply Forall_impl; [|exact (Forall_forallb_mp2 _ _ _ H H0)].
    intros r Hr. now apply map_id_Forall.
  - cbn [unknown_b] in H1. apply andb_true_iff in H1. destruct H1 as [U1 U2].
    now rewrite (map_id_Forall _ _ (Forall_forallb_mp _ _ _ H U1)), (map_id_Forall _ _ (Forall_forallb_mp _ _ _ H0 U2)).
  - cbn [unknown_b] in H1. apply andb_true_iff in H1. destruct H1 as [U1 U2].
    now rewrite (map_id_Forall _ _ (Forall_forallb_mp _ _ _ H U1)), (map_id_Forall _ _ (Forall_forallb_mp _ _ _ H0 U2)).
  - cbn [unknown_b] in H0. apply andb_true_iff in H0. destruct H0 as [U1 U2]. apply negb_true_iff in U1.
    now rewrite (lookup_unknown _ _ _ U1), (map_id_Forall _ _ (Forall_forallb_mp _ _ _ H U2)).
  - cbn [unknown_arg_b] in H0. now rewrite (H H0).
  - cbn [unknown_arg_b] in H0. now rewrite (map_id_Forall _ _ (Forall_forallb_mp _ _ _ H H0)).
Qed.

(* resolving against a registry that knows none of the type's opaque types hands back the very same type:
   every declared bound, hence every reported and every serialised bound, is what it was *)
Theorem resolve_unknown_same : forall reg t, unknown_b reg t = true ->
  resolve_ty reg t = t /\ tbound (resolve_ty reg t) = tbound t /\ ser_bounds (resolve_ty reg t) = ser_bounds t.
Proof. intros reg t H. rewrite (proj1 (resolve_unknown_both reg) t H). repeat split. Qed.

Lemma aget_In {V} (d : list (name * V)) k v : aget d k = Some v -> In (k, v) d.
Proof.
  induction d as [|[k' v'] r IH]; cbn; [discriminate|]. destruct (N.eqb k' k) eqn:E.
  - intros H. injection H as <-. apply N.eqb_eq in E. subst. now left.
  - intros H. right. now apply IH.
Qed.
Lemma lookup_names reg e id d : reg_wf_b reg = true -> lookup_def reg e id = Some d -> td_ext d = e /\ td_name d = id.
Proof.
  unfold reg_wf_b, lookup_def. intros W H. destruct (aget reg e) as [ts|] eqn:E; [|discriminate].
  apply aget_In in E. apply aget_In in H. rewrite forallb_forall in W. specialize (W _ E). cbn in W.
  rewrite forallb_forall in W. specialize (W _ H). cbn in W. apply andb_true_iff in W. destruct W as [W1 W2].
  apply N.eqb_eq in W1. apply N.eqb_eq in W2. now split.
Qed.

Lemma resolve_keeps_both reg : reg_wf_b reg = true ->
  (forall t, same_b Resolved t (resolve_ty reg t) = true) /\
  (forall a, same_arg_b Resolved a (resolve_arg reg a) = true).
Proof.
  intros W. apply ty_arg_ind; intros; cbn [resolve_ty resolve_arg]; try apply same_b_refl;
    try apply same_b_refl_both.
  - cbn [same_b]. apply list_rel_b_map. eapply Forall_impl; [|exact H]. intros r Hr. now apply list_rel_b_map.
  - cbn [same_b]. now rewrite !list_rel_b_map, names_refl.
  - cbn [same_b]. now rewrite !list_rel_b_map, names_refl, tparams_refl.
  - destruct (lookup_def reg e id) as [d|] eqn:E; cbn [same_b].
    + destruct (lookup_names _ _ _ _ W E) as [-> ->]. now rewrite !N.eqb_refl, list_rel_b_map.
    + now rewrite !N.eqb_refl, list_rel_b_map, bound_eqb_refl.
  - cbn [same_arg_b]. exact H.
  - cbn [same_arg_b]. now apply list_rel_b_map.
Qed.
(* ... and against any registry (built through the public API) the only change is opaque -> extension type of
   the same extension and name; whatever stays opaque keeps its declared bound *)
Theorem resolve_keeps_declared : forall reg t, reg_wf_b reg = true -> same_b Resolved t (resolve_ty reg t) = true.
Proof. intros reg t W. now apply resolve_keeps_both. Qed.

(* ------------------------------------------------------------------ serialisation round trip *)
Lemma omapS_Forall2 {A B} (g : A -> option B) l l' : omapS g l = Some l' -> Forall2 (fun x y => g x = Some y) l l'.
Proof.
  revert l'. induction l as [|x r IH]; intros l' H; cbn in H.
  - injection H as <-. constructor.
  - destruct (g x) as [y|] eqn:E; [|discriminate]. destruct (omapS g r) as [ys|]; [|discriminate].
    injection H as <-. constructor; auto.
Qed.
Lemma mapO_map {A B} (f : A -> option B) l l' : map f l = map f l' -> mapO f l = mapO f l'.
Proof.
  revert l'. induction l as [|x r IH]; intros [|y s] H; cbn in H; try discriminate; [reflexivity|].
  injection H as H1 H2. cbn [mapO]. now rewrite H1, (IH s H2).
Qed.
Lemma row_bounds_rt l l' : Forall (fun t => forall t', rt_ty t = Some t' -> tbound t' = tbound t) l ->
  omapS rt_ty l = Some l' -> row_bounds l' = row_bounds l.
Proof.
  intros H E. apply omapS_Forall2 in E. unfold row_bounds. apply mapO_map.
  induction E as [|x y r s Hxy _ IH]; [reflexivity|]. inversion H; subst. cbn. f_equal; auto.
Qed.
Lemma rows_bounds_rt rs rs' :
  Forall (Forall (fun t => forall t', rt_ty t = Some t' -> tbound t' = tbound t)) rs ->
  omapS (omapS rt_ty) rs = Some rs' -> rows_bounds rs' = rows_bounds rs.
Proof.
  intros H E. apply omapS_Forall2 in E. induction E as [|x y r s Hxy _ IH]; [reflexivity|]. inversion H; subst.
  cbn [rows_bounds]. now rewrite (row_bounds_rt _ _ H2 Hxy), (IH H3).
Qed.

Lemma rt_bound : forall t t', rt_ty t = Some t' -> tbound t' = tbound t.
Proof.
  apply (ty_ind2 (fun t => forall t', rt_ty t = Some t' -> tbound t' = tbound t) (fun _ => True));
    try (intros; exact I); intros; cbn [rt_ty] in *.
  - destruct (omapS (omapS rt_ty) rows) as [rs'|] eqn:E; [|discriminate]. injection H0 as <-.
    now rewrite !tbound_sum, (rows_bounds_rt _ _ H E).
  - now injection H as <-.
  - now injection H as <-.
  - now injection H as <-.
  - now injection H as <-.
  - now injection H as <-.
  - now injection H as <-.
  - destruct (omapS rt_ty i), (omapS rt_ty o); try discriminate. now injection H1 as <-.
  - destruct (omapS rt_ty i), (omapS rt_ty o); try discriminate. now injection H1 as <-.
  - destruct (omapS rt_arg args); [|discriminate]. now injection H0 as <-.
  - destruct (tbound (TExt d args c)) as [b|] eqn:E; [|discriminate].
    destruct (omapS rt_arg args); [|discriminate]. now injection H0 as <-.
Qed.

Lemma rt_same_both :
  (forall t t', rt_ty t = Some t' -> same_b Serial t t' = true) /\
  (forall a a', rt_arg a = Some a' -> same_arg_b Serial a a' = true).
Proof.
  apply ty_arg_ind; intros; cbn [rt_ty rt_arg] in *;
    try (match goal with H : Some _ = Some _ |- _ => injection H as <- end; apply same_b_refl_both).
  - destruct (omapS (omapS rt_ty) rows) as [rs'|] eqn:E; [|discriminate]. injection H0 as <-. cbn [same_b].
    revert E. apply list_rel_b_omapS. eapply Forall_impl; [|exact H]. intros r Hr y. now apply list_rel_b_omapS.
  - destruct (omapS rt_ty i) as [i'|] eqn:Ei; [|discriminate]. destruct (omapS rt_ty o) as [o'|] eqn:Eo; [|discriminate].
    injection H1 as <-. cbn [same_b].
    now rewrite (list_rel_b_omapS _ _ _ H _ Ei), (list_rel_b_omapS _ _ _ H0 _ Eo), names_refl.
  - destruct (omapS rt_ty i) as [i'|] eqn:Ei; [|discriminate]. destruct (omapS rt_ty o) as [o'|] eqn:Eo; [|discriminate].
    injection H1 as <-. cbn [same_b].
    now rewrite (list_rel_b_omapS _ _ _ H _ Ei), (list_rel_b_omapS _ _ _ H0 _ Eo), names_refl, tparams_refl.
  - destruct (omapS rt_arg args) as [a'|] eqn:Ea; [|discriminate]. injection H0 as <-. cbn [same_b].
    now rewrite !N.eqb_refl, (list_rel_b_omapS _ _ _ H _ Ea), bound_eqb_refl.
  - destruct (tbound (TExt d args c)) as [b|]; [|discriminate].
    destruct (omapS rt_arg args) as [a'|] eqn:Ea; [|discriminate]. injection H0 as <-. cbn [same_b].
    now rewrite !N.eqb_refl, (list_rel_b_omapS _ _ _ H _ Ea).
  - destruct (rt_ty t) as [u|] eqn:E; [|discriminate]. injection H0 as <-. cbn [same_arg_b]. now apply H.
  - destruct (omapS rt_arg l) as [l'|] eqn:E; [|discriminate]. injection H0 as <-. cbn [same_arg_b].
    now apply (list_rel_b_omapS _ _ _ H).
Qed.

(* the extension-type nodes of the document: same number, same bounds, in the same order *)
Lemma flat_bounds_rt {A} (g : A -> option A) (ex : A -> list ty) l :
  Forall (fun x => forall y, g x = Some y -> map tbound (ex y) = map tbound (ex x)) l ->
  forall l', omapS g l = Some l' -> map tbound (flat_map ex l') = map tbound (flat_map ex l).
Proof.
  induction 1 as [|x r Hx _ IH]; intros l' E; cbn in E.
  - now injection E as <-.
  - destruct (g x) as [y|] eqn:Ey; [|discriminate]. destruct (omapS g r) as [ys|] eqn:Er; [|discriminate].
    injection E as <-. cbn [flat_map]. now rewrite !map_app, (Hx y eq_refl), (IH ys eq_refl).
Qed.
Lemma ser_exts_sum rs : ser_exts (TSum rs) = flat_map (flat_map ser_exts) rs.
Proof. reflexivity. Qed.
Lemma ser_exts_func i o r : ser_exts (TFunc i o r) = flat_map ser_exts i ++ flat_map ser_exts o.
Proof. reflexivity. Qed.
Lemma ser_exts_poly ps i o r : ser_exts (TPoly ps i o r) = flat_map ser_exts i ++ flat_map ser_exts o.
Proof. reflexivity. Qed.
Lemma ser_exts_opaque e id a b : ser_exts (TOpaque e id a b) = TOpaque e id a b :: flat_map arg_exts a.
Proof. reflexivity. Qed.
Lemma ser_exts_ext d a c : ser_exts (TExt d a c) = TExt d a c :: flat_map arg_exts a.
Proof. reflexivity. Qed.
Lemma arg_exts_seq l : arg_exts (ASeq l) = flat_map arg_exts l.
Proof. reflexivity. Qed.

Lemma rt_exts_both :
  (forall t t', rt_ty t = Some t' -> map tbound (ser_exts t') = map tbound (ser_exts t)) /\
  (forall a a', rt_arg a = Some a' -> map tbound (arg_exts a') = map tbound (arg_exts a)).
Proof.
  apply ty_arg_ind; intros; cbn [rt_ty rt_arg] in *;
    try (match goal with H : Some _ = Some _ |- _ => injection H as <- end; reflexivity).
  - destruct (omapS (omapS rt_ty) rows) as [rs'|] eqn:E; [|discriminate]. injection H0 as <-.
    rewrite !ser_exts_sum. revert E. apply flat_bounds_rt. eapply Forall_impl; [|exact H].
    intros r Hr y. now apply flat_bounds_rt.
  - destruct (omapS rt_ty i) as [i'|] eqn:Ei; [|discriminate]. destruct (omapS rt_ty o) as [o'|] eqn:Eo; [|discriminate].
    injection H1 as <-. rewrite !ser_exts_func, !map_app.
    now rewrite (flat_bounds_rt _ _ _ H _ Ei), (flat_bounds_rt _ _ _ H0 _ Eo).
  - destruct (omapS rt_ty i) as [i'|] eqn:Ei; [|discriminate]. destruct (omapS rt_ty o) as [o'|] eqn:Eo; [|discriminate].
    injection H1 as <-. rewrite !ser_exts_poly, !map_app.
    now rewrite (flat_bounds_rt _ _ _ H _ Ei), (flat_bounds_rt _ _ _ H0 _ Eo).
  - destruct (omapS rt_arg args) as [a'|] eqn:Ea; [|discriminate]. injection H0 as <-.
    rewrite !ser_exts_opaque. cbn [map]. f_equal. now apply (flat_bounds_rt _ _ _ H).
  - destruct (tbound (TExt d args c)) as [b|] eqn:Eb; [|discriminate].
    destruct (omapS rt_arg args) as [a'|] eqn:Ea; [|discriminate]. injection H0 as <-.
    rewrite ser_exts_opaque, ser_exts_ext. cbn [map]. f_equal; [now rewrite Eb|]. now apply (flat_bounds_rt _ _ _ H).
  - destruct (rt_ty t) as [u|] eqn:E; [|discriminate]. injection H0 as <-. cbn [arg_exts]. now apply H.
  - destruct (omapS rt_arg l) as [l'|] eqn:E; [|discriminate]. injection H0 as <-.
    rewrite !arg_exts_seq. now apply (flat_bounds_rt _ _ _ H).
Qed.

(* a type that was written and read back reports the bound the original reports, and the document written
   from it carries, record by record, the bounds of the original's; structurally the only change is
   extension type -> opaque type of the definition's extension and name *)
Theorem roundtrip_keeps_bounds : forall t t', rt_ty t = Some t' ->
  tbound t' = tbound t /\ ser_bounds t' = ser_bounds t /\ same_b Serial t t' = true.
Proof.
  intros t t' H. split; [now apply rt_bound|]. split; [|now apply rt_same_both].
  unfold ser_bounds. apply mapO_map. now apply rt_exts_both.
Qed.

(* the round trip succeeds on every well-formed type *)
Lemma omapS_total {A B} (g : A -> option B) l : Forall (fun x => g x <> None) l -> omapS g l <> None.
Proof.
  induction 1 as [|x r Hx _ IH]; cbn; [discriminate|]. destruct (g x); [|contradiction].
  destruct (omapS g r); [discriminate|contradiction].
Qed.
Lemma rt_total_both :
  (forall t, wf_b t = true -> rt_ty t <> None) /\ (forall a, wf_arg a = true -> rt_arg a <> None).
Proof.
  apply ty_arg_ind; intros; cbn [rt_ty rt_arg]; try discriminate.
  - rewrite wf_b_sum in H0.
    assert (T : omapS (omapS rt_ty) rows <> None).
    { apply omapS_total. eapply Forall_impl; [|exact (Forall_forallb_mp2 _ _ _ H H0)].
      intros r Hr. now apply omapS_total. }
    destruct (omapS (omapS rt_ty) rows); [discriminate|contradiction].
  - change (wf_b (TFunc i o r)) with (forallb wf_b i && forallb wf_b o) in H1.
    apply andb_true_iff in H1. destruct H1 as [W1 W2].
    pose proof (omapS_total _ _ (Forall_forallb_mp _ _ _ H W1)). pose proof (omapS_total _ _ (Forall_forallb_mp _ _ _ H0 W2)).
    destruct (omapS rt_ty i); [|contradiction]. destruct (omapS rt_ty o); [discriminate|contradiction].
  - change (wf_b (TPoly ps i o r)) with (forallb wf_b i && forallb wf_b o) in H1.
    apply andb_true_iff in H1. destruct H1 as [W1 W2].
    pose proof (omapS_total _ _ (Forall_forallb_mp _ _ _ H W1)). pose proof (omapS_total _ _ (Forall_forallb_mp _ _ _ H0 W2)).
    destruct (omapS rt_ty i); [|contradiction]. destruct (omapS rt_ty o); [discriminate|contradiction].
  - change (wf_b (TOpaque e id args b)) with (forallb wf_arg args) in H0.
    pose proof (omapS_total _ _ (Forall_forallb_mp _ _ _ H H0)). destruct (omapS rt_arg args); [discriminate|contradiction].
  - pose proof (wf_total _ H0) as T. rewrite wf_b_ext in H0. apply andb_true_iff in H0. destruct H0 as [H0 _].
    apply andb_true_iff in H0. destruct H0 as [H0 _].
    pose proof (omapS_total _ _ (Forall_forallb_mp _ _ _ H H0)).
    destruct (tbound (TExt d args c)); [|contradiction]. destruct (omapS rt_arg args); [discriminate|contradiction].
  - cbn [wf_arg] in H0. specialize (H H0). destruct (rt_ty t); [discriminate|contradiction].
  - change (wf_arg (ASeq l)) with (forallb wf_arg l) in H0.
    pose proof (omapS_total _ _ (Forall_forallb_mp _ _ _ H H0)). destruct (omapS rt_arg l); [discriminate|contradiction].
Qed.
Theorem roundtrip_total : forall t, wf_b t = true -> rt_ty t <> None.
Proof. apply rt_total_both. Qed.

(* non-vacuity: a linear opaque type nested in a tuple and in a type argument, resolved against a registry that
   holds its extension but not the type, and against one that holds another type of the same name elsewhere *)
Definition ex_handle : ty := TOpaque 5%N 6%N [] Any.
Definition ex_nested : ty :=
  TSum [[TUnitSum 2; ex_handle; TOpaque 7%N 8%N [AType ex_handle; ASeq [AType ex_handle]] Copyable]].
Definition ex_reg : registry :=
  [(5%N, [(9%N, {| td_ext := 5%N; td_name := 9%N; td_descr := 0%N; td_params := []; td_bound := Explicit Copyable |})]);
   (4%N, [(6%N, {| td_ext := 4%N; td_name := 6%N; td_descr := 0%N; td_params := []; td_bound := Explicit Copyable |})])].
Example same_example :
  unknown_b ex_reg ex_nested = true /\ reg_wf_b ex_reg = true /\ tbound (resolve_ty ex_reg ex_nested) = Some Any /\
  (exists t', rt_ty (TExt {| td_ext := 1%N; td_name := 2%N; td_descr := 0%N; td_params := [PType Any];
                            td_bound := FromParams [0] |} [AType ex_handle] Generic) = Some t' /\ tbound t' = Some Any).
Proof. repeat split. eexists. split; reflexivity. Qed.
