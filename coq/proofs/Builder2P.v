(* C01 (third pass) — the structural rules of `valid` (index sanity, permitted parent/child pairs, first/second
   child) for ALL programs of the extended builder language of model/Builder2.v: TailLoop, Conditional with its
   Case children, every insert_* variant (Hugr.insert_hugr of a separately built program), CallIndirect, and the
   Dfg / TailLoop / Conditional roots.  Mutual induction over stmt2 / region2 / stmts2 / cases2 / prog2,
   generalising exec_keeps_invariants of proofs/BuilderP.v. *)
From Coq Require Import NArith List Bool Arith Lia.
Import ListNotations.
From HV Require Import lib.Harness model.Validity model.Builder model.Builder2 proofs.BuilderP proofs.BuilderExtP proofs.BuilderFrameP
  proofs.Builder2UnfoldP proofs.Builder2InvP spec.Builder2WFS.
Local Open Scope N_scope.

(* ------------------------------------------------------------------ kinds of nodes, invariant under completion *)
Definition dfk (o : vop) : bool := match o with DFG _ _ | Case _ _ | TailLoop _ _ _ _ => true | _ => false end.
Definition rootk (o : vop) : bool := match o with DFG _ _ | TailLoop _ _ _ _ | Conditional _ _ _ _ => true | _ => false end.
Definition kindp (P : vop -> bool) (l : list vnode) (i : N) : Prop :=
  exists nd, nthN l i = Some nd /\ P (canon (n_op nd)) = true.

Lemma kindp_ext P l l' ext i : map cnode l' = map cnode l ++ ext -> kindp P l i -> kindp P l' i.
Proof.
  intros E (nd & Hn & Hk).
  assert (H : nthN (map cnode l') i = Some (cnode nd)).
  { rewrite E. apply nthN_app1. rewrite nthN_map, Hn. reflexivity. }
  rewrite nthN_map in H. destruct (nthN l' i) as [nd'|] eqn:E'; [|discriminate].
  exists nd'. split; [exact E'|]. cbn in H. inversion H. congruence.
Qed.
Lemma kindp_Ext P st st' i : Ext st st' -> kindp P (s_nodes st) i -> kindp P (s_nodes st') i.
Proof. intros [ext E]. eapply kindp_ext; eauto. Qed.
Lemma dfk_canon o : dfk (canon o) = dfk o. Proof. now destruct o. Qed.
Lemma rootk_canon o : rootk (canon o) = rootk o. Proof. now destruct o. Qed.
Lemma dfk_dfparent o : dfk o = true -> is_dfparent o = true. Proof. now destruct o. Qed.
Lemma dfk_allowed p c : dfk p = true -> allowed_child p c = dataflow_child c. Proof. now destruct p. Qed.
Lemma rootk_child o : rootk o = true -> dataflow_child o = true /\ is_input o = false /\ is_output o = false.
Proof. destruct o; try discriminate; auto. Qed.
Lemma s_op_kind_at st n o : s_op st n = Some o -> kind_at (s_nodes st) n (canon o).
Proof.
  unfold s_op. destruct (nthN (s_nodes st) n) as [nd|] eqn:E; [|discriminate]. cbn. intros H. inversion H; subst.
  exists nd. auto.
Qed.
Lemma kindp_kind_at P l i : kindp P l i -> exists k, kind_at l i k /\ P k = true.
Proof. intros (nd & Hn & Hk). exists (canon (n_op nd)). split; [exists nd; auto|exact Hk]. Qed.
Lemma kindp_output_at l i : kindp is_output l i -> kind_at l i (Output []).
Proof. intros (nd & Hn & Hk). exists nd. split; [exact Hn|]. destruct (n_op nd); try discriminate. reflexivity. Qed.

(* ------------------------------------------------------------------ invariants *)
Definition root_ok2 (l : list vnode) : Prop := exists r rest, l = r :: rest /\ n_parent r = 0.
(* first/second-child rule with one node exempted: a Conditional node that has no Case yet *)
Definition fsx (ex : option N) (l : list vnode) : bool :=
  forallb (fun x => optN_eqb (Some (fst x)) ex || fs_check (n_op (snd x)) (child_ops (Gn l) (fst x))) (indexed l).
Definition GoodX (ex : option N) (l : list vnode) : Prop :=
  r_child_tags (Gn l) = true /\ fsx ex l = true /\ bounded l = true /\ root_ok2 l.
Definition Good2 := GoodX None.
Definition InvX (ex : option N) (st : store) : Prop := GoodX ex (s_nodes st) /\ LinksOK st.
Definition Inv2 := InvX None.
Definition WB2 (st : store) (b : dfb) : Prop :=
  kindp dfk (s_nodes st) (b_parent b) /\ kindp is_output (s_nodes st) (b_out b).
Definition RootDF (strict : bool) (l : list vnode) : Prop := strict = false -> kindp dfk l 0.

Lemma fsx_none l : fsx None l = r_first_second (Gn l).
Proof. reflexivity. Qed.

Lemma WB2_ext st st' b : Ext st st' -> WB2 st b -> WB2 st' b.
Proof. intros X [A B]. split; eapply kindp_Ext; eauto. Qed.
Lemma RootDF_ext strict st st' : Ext st st' -> RootDF strict (s_nodes st) -> RootDF strict (s_nodes st').
Proof. intros X H E. eapply kindp_Ext; eauto. Qed.

Lemma fsx_canon ex l : fsx ex (map cnode l) = fsx ex l.
Proof.
  unfold fsx, indexed. rewrite index_from_map, forallb_map. apply forallb_ext_in. intros [i x] _.
  cbn [fst snd cnode n_op]. f_equal. rewrite child_ops_canon. apply fs_check_canon.
Qed.
Lemma root_ok2_sk l l' : map cnode l = map cnode l' -> root_ok2 l -> root_ok2 l'.
Proof.
  intros E (r & rest & -> & Hp). destruct l' as [|r' rest']; [discriminate|].
  cbn in E. inversion E as [[E1 E2]]. exists r', rest'. split; [reflexivity|]. unfold cnode in E1. inversion E1. congruence.
Qed.
Lemma GoodX_sk ex l l' : map cnode l = map cnode l' -> GoodX ex l -> GoodX ex l'.
Proof.
  intros E (A & B & C & D). repeat split.
  - now rewrite <- tags_canon, <- E, tags_canon.
  - now rewrite <- fsx_canon, <- E, fsx_canon.
  - now rewrite <- bounded_canon, <- E, bounded_canon.
  - eapply root_ok2_sk; eauto.
Qed.
Lemma InvX_Same ex st st' : Same st st' -> InvX ex st -> InvX ex st'.
Proof. intros [E L] [G K]. split; [eapply GoodX_sk; [symmetry; exact E|exact G]|auto]. Qed.

(* ------------------------------------------------------------------ appending nodes *)
Lemma fs_check_snoc_cond ox cs o : is_cond ox = true -> fs_check ox (cs ++ [o]) = true.
Proof. destruct ox; try discriminate. intros _. unfold fs_check. cbn. now destruct cs. Qed.

(* one more child o of node p; afterwards p is exempt, or p's check holds with the new child; the new node itself
   is exempt or childless-ok *)
Lemma fsx_app_one ex ex' l o p pn :
  fsx ex l = true -> bounded l = true -> nthN l p = Some pn ->
  (optN_eqb (Some p) ex' = true \/
   ((optN_eqb (Some p) ex = false -> fs_check (n_op pn) (child_ops (Gn l) p) = true) ->
    fs_check (n_op pn) (child_ops (Gn l) p ++ [o]) = true)) ->
  (ex' = Some (lenN l) \/ (fs_check o [] = true)) ->
  (forall i, i <> p -> i < lenN l -> optN_eqb (Some i) ex = true -> optN_eqb (Some i) ex' = true) ->
  fsx ex' (l ++ [mk o p]) = true.
Proof.
  intros Hf Hb Hp Hpar Hnew Hex. pose proof (nthN_lt _ _ _ Hp) as Hlt.
  unfold fsx in *. rewrite indexed_app, forallb_app. apply andb_true_iff. split.
  - rewrite forallb_forall in Hf. apply forallb_forall. intros [i x] Hin. specialize (Hf _ Hin). cbn [fst snd] in *.
    pose proof (nthN_lt _ _ _ (in_indexed _ _ _ Hin)) as Hi.
    rewrite child_ops_app. cbn [index_from flat_map]. rewrite (app_nil_r (sel i (lenN l, mk o p))).
    unfold sel. cbn [fst snd mk n_parent n_op].
    destruct (negb (lenN l =? 0) && (p =? i)) eqn:E.
    + apply andb_true_iff in E. destruct E as [_ E]. apply N.eqb_eq in E. subst i.
      rewrite (nthN_inj_indexed _ _ _ _ Hin Hp) in *. apply orb_true_iff.
      destruct Hpar as [Hpar|Hpar]; [now left|right]. apply Hpar. intros Hne. rewrite Hne in Hf. exact Hf.
    + rewrite app_nil_r. apply orb_true_iff in Hf. destruct Hf as [Hf|Hf]; [|now rewrite Hf, orb_true_r].
      assert (Hip : i <> p).
      { intros ->. rewrite N.eqb_refl, andb_true_r in E. apply negb_false_iff, N.eqb_eq in E. lia. }
      now rewrite (Hex i Hip Hi Hf).
  - cbn [index_from forallb fst snd mk n_op]. rewrite andb_true_r. destruct Hnew as [->|Hn].
    + cbn. now rewrite N.eqb_refl.
    + apply orb_true_iff. right. rewrite child_ops_app, (child_ops_beyond l (lenN l) Hb) by lia.
      cbn [index_from flat_map app]. unfold sel. cbn [fst snd mk n_parent].
      replace (p =? lenN l) with false by (symmetry; apply N.eqb_neq; lia). now rewrite andb_false_r.
Qed.

Lemma plain_fs_nil o : plain o = true -> fs_check o [] = true.
Proof. intros H. now apply fs_check_plain. Qed.

Lemma tags_app_df l o p pn :
  r_child_tags (Gn l) = true -> nthN l p = Some pn -> dfk (canon (n_op pn)) = true -> dataflow_child o = true ->
  r_child_tags (Gn (l ++ [mk o p])) = true.
Proof.
  intros Ht Hp Hk Hc. eapply tags_app; eauto. rewrite dfk_canon in Hk. now rewrite dfk_allowed.
Qed.

Lemma root_ok2_app l ext : root_ok2 l -> root_ok2 (l ++ ext).
Proof. intros (r & rest & -> & H). exists r, (rest ++ ext). auto. Qed.

(* a node that is neither Input nor Output under a dataflow parent; exempt from its own check or childless-ok *)
Lemma InvX_add_df st st' o p n ex' :
  add_node st o p = Ok (st', n) -> InvX None st -> kindp dfk (s_nodes st) p ->
  dataflow_child o = true -> is_input o = false -> is_output o = false ->
  (ex' = Some (s_len st) \/ (ex' = None /\ fs_check o [] = true)) ->
  InvX ex' st' /\ Ext st st' /\ n = s_len st /\ s_nodes st' = s_nodes st ++ [mk o p] /\ s_links st' = s_links st.
Proof.
  intros H [(A & B & C & D) K] (pn & Hp & Hk) Hc Hi Ho Hex.
  apply add_node_ok in H. destruct H as (Hlt & Hn & En & El).
  split; [|split; [|repeat split; assumption]].
  - split; [|eapply LinksOK_grow; eauto]. rewrite En. repeat split.
    + eapply tags_app_df; eauto.
    + eapply (fsx_app_one None ex'); eauto.
      * right. intros Hcs. apply fs_check_snoc; auto. apply dfk_dfparent. now rewrite <- dfk_canon.
      * destruct Hex as [->|[-> F]]; [now left|now right].
      * intros i _ _ F. discriminate F.
    + apply bounded_app; assumption.
    + now apply root_ok2_app.
  - exists [cnode (mk o p)]. now rewrite En, map_app.
Qed.

Lemma Inv2_add_leaf st st' o p n :
  add_node st o p = Ok (st', n) -> Inv2 st -> kindp dfk (s_nodes st) p ->
  plain o = true -> dataflow_child o = true ->
  Inv2 st' /\ Ext st st' /\ n = s_len st /\ s_nodes st' = s_nodes st ++ [mk o p] /\ s_links st' = s_links st.
Proof.
  intros H I K Hpl Hc.
  assert (Hio : is_input o = false /\ is_output o = false).
  { unfold plain in Hpl. rewrite !andb_true_iff in Hpl. destruct Hpl as [[[[A B] _] _] _].
    split; now apply negb_true_iff. }
  eapply InvX_add_df; eauto; try tauto. right. split; [reflexivity|now apply plain_fs_nil].
Qed.

(* a dataflow container co with its Input and Output nodes, under node p (a dataflow parent, or the Conditional
   when co is a Case) *)
Lemma InvX_add_triple ex st p pn co ti st1 d st2 i st3 o :
  add_node st co p = Ok (st1, d) -> add_node st1 (Input ti) d = Ok (st2, i) -> add_node st2 (Output []) d = Ok (st3, o) ->
  InvX ex st -> nthN (s_nodes st) p = Some pn -> allowed_child (n_op pn) co = true ->
  dfk co = true ->
  ((optN_eqb (Some p) ex = false -> fs_check (n_op pn) (child_ops (Gn (s_nodes st)) p) = true) ->
   fs_check (n_op pn) (child_ops (Gn (s_nodes st)) p ++ [co]) = true) ->
  (ex = None \/ ex = Some p) ->
  InvX None st3 /\ Ext st st3 /\ WB2 st3 (mkb d i o) /\
  s_nodes st3 = s_nodes st ++ [mk co p; mk (Input ti) d; mk (Output []) d] /\ d = s_len st /\ i = d + 1 /\ o = d + 2 /\
  s_links st3 = s_links st.
Proof.
  intros H1 H2 H3 [(A & B & C & D) K] Hp Hal Hk Hpar Hex.
  apply add_node_ok in H1. destruct H1 as (L1 & N1 & E1 & K1).
  apply add_node_ok in H2. destruct H2 as (L2 & N2 & E2 & K2).
  apply add_node_ok in H3. destruct H3 as (L3 & N3 & E3 & K3).
  set (l := s_nodes st) in *.
  assert (Hd : d = lenN l) by (subst d; reflexivity).
  assert (Hdf : is_dfparent co = true) by now apply dfk_dfparent.
  assert (Hio : is_input co = false /\ is_output co = false) by (destruct co; try discriminate; auto).
  assert (X1 : nthN (l ++ [mk co p]) d = Some (mk co p)) by (rewrite Hd; apply nthN_len).
  assert (Hs1 : lenN (l ++ [mk co p]) = d + 1) by (rewrite lenN_app, Hd; reflexivity).
  assert (Hs2 : lenN ((l ++ [mk co p]) ++ [mk (Input ti) d]) = d + 2) by (rewrite lenN_app, Hs1; cbn; lia).
  assert (T1 : r_child_tags (Gn (l ++ [mk co p])) = true) by (eapply tags_app; eauto).
  assert (T2 : r_child_tags (Gn ((l ++ [mk co p]) ++ [mk (Input ti) d])) = true).
  { eapply tags_app; [exact T1|exact X1|]. cbn [mk n_op]. destruct co; try discriminate; reflexivity. }
  assert (T3 : r_child_tags (Gn (((l ++ [mk co p]) ++ [mk (Input ti) d]) ++ [mk (Output []) d])) = true).
  { eapply tags_app; [exact T2|apply nthN_app1; exact X1|]. cbn [mk n_op]. destruct co; try discriminate; reflexivity. }
  assert (B1 : bounded (l ++ [mk co p]) = true) by (apply bounded_app; assumption).
  assert (B2 : bounded ((l ++ [mk co p]) ++ [mk (Input ti) d]) = true).
  { apply bounded_app; [assumption|]. rewrite <- E1. exact L2. }
  assert (B3 : bounded (((l ++ [mk co p]) ++ [mk (Input ti) d]) ++ [mk (Output []) d]) = true).
  { apply bounded_app; [assumption|]. rewrite <- E1, <- E2. exact L3. }
  assert (Hpd : p <> d) by (unfold s_len in L1; fold l in L1; lia).
  (* first/second child: three single appends; the container is exempt until its Output node is there *)
  assert (F1 : fsx (Some d) (l ++ [mk co p]) = true).
  { apply (fsx_app_one ex (Some d) l co p pn B C Hp).
    - right. exact Hpar.
    - left. now rewrite Hd.
    - intros j Hj Hlt Hx. destruct Hex as [->| ->]; [discriminate Hx|]. cbn in Hx. apply N.eqb_eq in Hx. congruence. }
  assert (F2 : fsx (Some d) ((l ++ [mk co p]) ++ [mk (Input ti) d]) = true).
  { apply (fsx_app_one (Some d) (Some d) _ (Input ti) d (mk co p) F1 B1 X1).
    - left. cbn. apply N.eqb_refl.
    - right. reflexivity.
    - intros j Hj Hlt Hx. exact Hx. }
  assert (C2 : child_ops (Gn ((l ++ [mk co p]) ++ [mk (Input ti) d])) d = [Input ti]).
  { rewrite !child_ops_app, (child_ops_beyond l d C) by lia. rewrite Hs1. cbn [index_from flat_map app]. unfold sel.
    cbn [fst snd mk n_parent n_op]. rewrite <- Hd.
    replace (p =? d) with false by (symmetry; apply N.eqb_neq; lia). rewrite andb_false_r. cbn [app].
    rewrite N.eqb_refl. replace (d + 1 =? 0) with false by (symmetry; apply N.eqb_neq; lia). reflexivity. }
  assert (F3 : fsx None (((l ++ [mk co p]) ++ [mk (Input ti) d]) ++ [mk (Output []) d]) = true).
  { apply (fsx_app_one (Some d) None _ (Output []) d (mk co p) F2 B2 (nthN_app1 _ _ _ _ X1)).
    - right. intros _. rewrite C2. cbn [mk n_op app]. unfold fs_check. rewrite Hdf. reflexivity.
    - right. reflexivity.
    - intros j Hj Hlt Hx. cbn in Hx. apply N.eqb_eq in Hx. congruence. }
  assert (EQ : s_nodes st3 = l ++ [mk co p; mk (Input ti) d; mk (Output []) d]).
  { rewrite E3, E2, E1, <- !app_assoc. reflexivity. }
  assert (Hi : i = d + 1) by (rewrite N2; unfold s_len; now rewrite E1, Hs1).
  assert (Ho : o = d + 2) by (rewrite N3; unfold s_len; now rewrite E2, E1, Hs2).
  split; [|split; [|split; [|repeat split; try assumption]]].
  - split.
    + rewrite E3, E2, E1. repeat split; try assumption. now do 3 apply root_ok2_app.
    + unfold LinksOK in *. rewrite K3, K2, K1. unfold s_len. rewrite EQ, lenN_app.
      revert K. apply forallb_impl_in. intros e _ H. apply andb_true_iff in H. destruct H as [X Y].
      apply N.ltb_lt in X, Y. unfold s_len in X, Y. fold l in X, Y.
      apply andb_true_iff. split; apply N.ltb_lt; lia.
  - exists (map cnode [mk co p; mk (Input ti) d; mk (Output []) d]). now rewrite EQ, map_app.
  - split; cbn [b_parent b_out mkb].
    + exists (mk co p). split; [|cbn; now rewrite dfk_canon]. rewrite E3, E2. do 2 apply nthN_app1. rewrite E1. exact X1.
    + exists (mk (Output []) d). split; [|reflexivity]. rewrite E3, N3. unfold s_len. apply nthN_len.
  - congruence.
Qed.

(* ------------------------------------------------------------------ completion steps keep the skeleton *)
Lemma set_op_same2 st n o o0 st' : set_op st n o = Ok st' -> s_op st n = Some o0 -> canon o = canon o0 -> Same st st'.
Proof. intros H E C. eapply set_op_same; [exact H|]. rewrite C. now apply s_op_kind_at. Qed.

Lemma set_out_types2_canon tys po ts po' : set_out_types2 tys po ts = Ok po' -> canon po' = canon po.
Proof.
  destruct po; cbn; intros H; try (inversion H; reflexivity).
  destruct ts as [|t r]; [discriminate|]. destruct (nthN tys t) as [[c rows| |]|]; try discriminate.
  destruct rows as [|a [|b [|]]]; try discriminate. destruct (row_eqb a _); inversion H; reflexivity.
Qed.

Lemma set_outputs2_same tys st b ws st' : set_outputs2 tys st b ws = Ok st' -> WB2 st b -> Same st st'.
Proof.
  intros H W. destruct (set_outputs2_inv _ _ _ _ _ H) as (st0 & ts & st1 & po & po' & E0 & E1 & E2 & E3 & E4).
  pose proof (Frame_Same _ _ (wire_up_from_frame _ _ _ _ _ _ E0)) as S1.
  pose proof (WB2_ext _ _ _ (Same_Ext _ _ S1) W) as W0.
  pose proof (set_op_same _ _ _ _ E1 (kindp_output_at _ _ (proj2 W0))) as S2.
  pose proof (set_op_same2 _ _ _ _ _ E4 E2 (set_out_types2_canon _ _ _ _ E3)) as S3.
  eapply Same_trans; [exact S1|]. eapply Same_trans; eauto.
Qed.

Lemma update_outputs_same st cond cur ts st' cur' : update_outputs st cond cur ts = Ok (st', cur') -> Same st st'.
Proof.
  intros H. destruct (update_outputs_inv _ _ _ _ _ _ H) as [(_ & _ & rows & others & o & s & E1 & E2)|(_ & _ & ->)].
  - eapply set_op_same2; eauto.
  - apply Frame_Same, Frame_refl.
Qed.

Lemma completed_callind_canon tys ins op' : completed_callind tys ins = Ok op' -> canon op' = CallIndirect [] [] 0.
Proof.
  destruct ins as [|f r]; [discriminate|]. cbn. destruct (nthN tys f) as [[| |]|]; try discriminate.
  intros H. inversion H. reflexivity.
Qed.

(* ------------------------------------------------------------------ Conditional._init_impl *)
Lemma kindp_cond_op l c : kindp is_cond l c -> exists nd, nthN l c = Some nd /\ is_cond (n_op nd) = true.
Proof. intros (nd & Hn & Hk). exists nd. split; [exact Hn|]. now rewrite is_cond_canon in Hk. Qed.

Lemma make_cases_inv others : forall rows st cond st' bs ex,
  make_cases st cond rows others = Ok (st', bs) ->
  InvX ex st -> kindp is_cond (s_nodes st) cond -> (ex = None \/ ex = Some cond) ->
  InvX (match rows with [] => ex | _ => None end) st' /\ Ext st st' /\
  (forall cb f, In (cb, f) bs -> WB2 st' cb /\ f = false) /\ lenN bs = lenN rows /\ s_links st' = s_links st.
Proof.
  induction rows as [|r rest IH]; intros st cond st' bs ex H I K Hex; cbn [make_cases] in H.
  - inversion H; subst. split; [exact I|]. split; [apply Ext_refl|]. split; [intros cb f []|auto].
  - bd H. destruct v as [st1 c]. cbn [fst snd] in H. bd H. destruct v as [st3 io]. cbn [fst snd] in H.
    bd H. destruct v as [st4 bs4]. cbn [fst snd] in H. inversion H; subst; clear H.
    destruct (init_io_inv _ _ _ _ _ E0) as (st2 & i & o & A1 & A2 & ->).
    destruct (kindp_cond_op _ _ K) as (pn & Hp & Hc).
    assert (Hal : allowed_child (n_op pn) (Case (r ++ others) []) = true) by (destruct (n_op pn); try discriminate; reflexivity).
    destruct (InvX_add_triple ex _ _ pn _ _ _ _ _ _ _ _ E A1 A2 I Hp Hal eq_refl) as (I3 & X3 & W3 & _ & _ & _ & _ & L3).
    { intros _. now apply fs_check_snoc_cond. }
    { exact Hex. }
    destruct (IH _ _ _ _ None E1 I3 (kindp_Ext _ _ _ _ X3 K) (or_introl eq_refl)) as (I4 & X4 & F4 & Ln & L4).
    split; [destruct rest; exact I4|]. split; [eapply Ext_trans; eauto|]. split; [|split].
    + intros cb f [Hin|Hin].
      * inversion Hin; subst. split; [eapply WB2_ext; eauto|reflexivity].
      * now apply F4.
    + rewrite !lenN_cons. now rewrite Ln.
    + congruence.
Qed.

(* ------------------------------------------------------------------ Hugr.insert_hugr: closed form *)
Definition shiftn (base parent : N) (x : N * vnode) : vnode :=
  mk (n_op (snd x)) (if fst x =? 0 then parent else base + n_parent (snd x)).
Definition shift_edge (base : N) (e : edge) : edge :=
  {| e_src := base + e_src e; e_soff := e_soff e; e_dst := base + e_dst e; e_doff := e_doff e |}.
Definition MapOK (base : N) (m : list N) : Prop := forall j, j < lenN m -> nthN m j = Some (base + j).

Lemma MapOK_snoc base m : MapOK base m -> MapOK base (m ++ [base + lenN m]).
Proof.
  intros H j Hj. rewrite lenN_app in Hj. destruct (N.ltb_spec j (lenN m)).
  - rewrite nthN_app_lt by assumption. now apply H.
  - assert (j = lenN m) by (cbn in Hj; lia). subst j. apply nthN_len.
Qed.

Lemma insert_nodes_spec base parent : forall l st m i st' m',
  insert_nodes st parent m l i = Ok (st', m') ->
  MapOK base m -> lenN m = i -> s_len st = base + i ->
  (forall j nd, In (j, nd) (index_from l i) -> j = 0 \/ n_parent nd < j) ->
  s_nodes st' = s_nodes st ++ map (shiftn base parent) (index_from l i) /\ s_links st' = s_links st /\
  MapOK base m' /\ lenN m' = i + lenN l.
Proof.
  induction l as [|nd r IH]; intros st m i st' m' H HM Hlen Hs Hb; cbn [insert_nodes] in H.
  - inversion H; subst. cbn. rewrite app_nil_r. repeat split; auto. unfold lenN. cbn. lia.
  - bd H. rename v into p. bd H. destruct v as [st1 n]. cbn [fst snd] in H.
    apply add_node_ok in E0. destruct E0 as (Hlt & Hn & En & El).
    assert (Hp : p = if i =? 0 then parent else base + n_parent nd).
    { destruct (N.eqb_spec i 0); [now inversion E|].
      destruct (Hb i nd (or_introl eq_refl)) as [?|Hlt']; [contradiction|].
      rewrite (HM (n_parent nd)) in E by lia. now inversion E. }
    assert (HM1 : MapOK base (m ++ [n])) by (rewrite Hn, Hs, <- Hlen; now apply MapOK_snoc).
    destruct (IH st1 (m ++ [n]) (i + 1) st' m' H HM1) as (A & B & C & D).
    + rewrite lenN_app, Hlen. reflexivity.
    + unfold s_len. rewrite En, lenN_app. fold (s_len st). rewrite Hs. cbn. lia.
    + intros j nd' Hin. apply Hb. cbn [index_from]. now right.
    + cbn [index_from map]. split; [|split; [congruence|split; [exact C|]]].
      * rewrite A, En, <- app_assoc. cbn [app]. unfold shiftn. cbn [fst snd]. now rewrite Hp.
      * rewrite D, lenN_cons. lia.
Qed.

Lemma insert_links_spec base : forall l st m st',
  insert_links st m l = Ok st' -> MapOK base m ->
  (forall e, In e l -> e_src e < lenN m /\ e_dst e < lenN m) ->
  s_nodes st' = s_nodes st /\ s_links st' = s_links st ++ map (shift_edge base) l.
Proof.
  induction l as [|e r IH]; intros st m st' H HM Hr; cbn [insert_links] in H.
  - inversion H; subst. cbn. now rewrite app_nil_r.
  - destruct (Hr e (or_introl eq_refl)) as [Hs Hd]. rewrite (HM _ Hs), (HM _ Hd) in H.
    bd H. rename v into st1. apply add_link_ok in E. destruct E as [En El].
    destruct (IH st1 m st' H HM) as (A & B); [intros e' Hin; apply Hr; now right|].
    split; [congruence|]. rewrite B, El, <- app_assoc. reflexivity.
Qed.

Lemma bounded_in_from l : bounded l = true -> forall j nd, In (j, nd) (index_from l 0) -> j = 0 \/ n_parent nd < j.
Proof. intros Hb j nd Hin. exact (bounded_in _ _ _ Hb Hin). Qed.

Lemma LinksOK_in st e : LinksOK st -> In e (s_links st) -> e_src e < s_len st /\ e_dst e < s_len st.
Proof.
  unfold LinksOK. rewrite forallb_forall. intros H Hin. specialize (H _ Hin). apply andb_true_iff in H.
  destruct H as [A B]. apply N.ltb_lt in A, B. auto.
Qed.

Lemma insert_hugr_spec st inner parent st' m :
  insert_hugr st inner parent = Ok (st', m) -> bounded (s_nodes inner) = true -> LinksOK inner ->
  s_nodes st' = s_nodes st ++ map (shiftn (s_len st) parent) (indexed (s_nodes inner)) /\
  s_links st' = s_links st ++ map (shift_edge (s_len st)) (s_links inner) /\
  MapOK (s_len st) m /\ lenN m = s_len inner.
Proof.
  intros H Hb HL. destruct (insert_hugr_inv _ _ _ _ _ H) as (st1 & E1 & E2).
  destruct (insert_nodes_spec (s_len st) parent _ _ _ _ _ _ E1) as (A & B & C & D).
  - intros j Hj. unfold lenN in Hj. cbn in Hj. lia.
  - reflexivity.
  - lia.
  - now apply bounded_in_from.
  - destruct (insert_links_spec (s_len st) _ _ _ _ E2 C) as (A' & B').
    + intros e Hin. rewrite D, N.add_0_l. fold (s_len inner). now apply LinksOK_in.
    + unfold indexed. split; [congruence|]. split; [congruence|]. split; [exact C|]. rewrite D. unfold s_len. lia.
Qed.

(* ------------------------------------------------------------------ the inserted block keeps the structural rules *)
Lemma nthN_index_from {A} (l : list A) : forall a j, nthN (index_from l a) j = option_map (fun x => (a + j, x)) (nthN l j).
Proof.
  induction l as [|x r IH]; intros a j; cbn [index_from].
  - unfold nthN. now destruct (N.to_nat j).
  - destruct (N.eqb_spec j 0) as [->|Hj].
    + cbn. now rewrite N.add_0_r.
    + replace j with ((j - 1) + 1) by lia. rewrite !nthN_S, IH. destruct (nthN r (j - 1)); cbn; [|reflexivity].
      do 2 f_equal. lia.
Qed.
Lemma nthN_indexed {A} (l : list A) j : nthN (indexed l) j = option_map (fun x => (j, x)) (nthN l j).
Proof. unfold indexed. now rewrite nthN_index_from. Qed.

Lemma index_from_map_shift {A B} (g : N * A -> B) base (l : list A) : forall a,
  index_from (map g (index_from l a)) (base + a) = map (fun x => (base + fst x, g x)) (index_from l a).
Proof.
  induction l as [|x r IH]; intros a; cbn [index_from map]; [reflexivity|].
  cbn [fst]. f_equal. rewrite <- IH. f_equal. lia.
Qed.

Section Insert.
  Variables (l inner : list vnode) (parent : N) (pn : vnode).
  Let base := lenN l.
  Let sh := map (shiftn base parent) (indexed inner).
  Hypothesis Hp : nthN l parent = Some pn.

  Lemma index_from_sh : index_from sh base = map (fun x => (base + fst x, shiftn base parent x)) (indexed inner).
  Proof. unfold sh, indexed. rewrite <- (index_from_map_shift _ base inner 0). now rewrite N.add_0_r. Qed.

  Lemma nthN_comb_new j nd : nthN inner j = Some nd -> nthN (l ++ sh) (base + j) = Some (shiftn base parent (j, nd)).
  Proof.
    intros H. rewrite nthN_app_ge by (unfold base; lia). replace (base + j - lenN l) with j by (unfold base; lia).
    unfold sh. rewrite nthN_map, nthN_indexed, H. reflexivity.
  Qed.

  Lemma sel_shift j k nd : sel (base + j) (base + k, shiftn base parent (k, nd)) = sel j (k, nd).
  Proof.
    pose proof (nthN_lt _ _ _ Hp) as Hlt. fold base in Hlt.
    unfold sel, shiftn. cbn [fst snd mk n_parent n_op]. destruct (N.eqb_spec k 0) as [->|Hk].
    - replace (parent =? base + j) with false by (symmetry; apply N.eqb_neq; lia). now rewrite andb_false_r.
    - replace (base + k =? 0) with false by (symmetry; apply N.eqb_neq; lia).
      replace (base + n_parent nd =? base + j) with (n_parent nd =? j); [reflexivity|].
      destruct (N.eqb_spec (n_parent nd) j); symmetry; [apply N.eqb_eq|apply N.eqb_neq]; lia.
  Qed.

  Lemma child_ops_comb_new j : bounded l = true -> child_ops (Gn (l ++ sh)) (base + j) = child_ops (Gn inner) j.
  Proof.
    intros Hb. rewrite child_ops_app, (child_ops_beyond l (base + j) Hb) by (unfold base; lia). cbn [app].
    fold base. rewrite index_from_sh, flat_map_map. unfold child_ops. cbn [Gn g_nodes].
    apply flat_map_ext_in. intros [k nd] _. cbn [fst]. apply sel_shift.
  Qed.

  Lemma child_ops_comb_old i r rest : inner = r :: rest -> i < base ->
    child_ops (Gn (l ++ sh)) i = child_ops (Gn l) i ++ (if parent =? i then [n_op r] else []).
  Proof.
    intros Er Hi. rewrite child_ops_app. f_equal. fold base. rewrite index_from_sh, flat_map_map. rewrite Er.
    unfold indexed. cbn [index_from flat_map fst]. rewrite flat_map_nil.
    - rewrite app_nil_r. unfold sel, shiftn. cbn [fst snd mk n_parent n_op]. rewrite N.eqb_refl.
      replace (base + 0 =? 0) with false by (symmetry; apply N.eqb_neq; lia). reflexivity.
    - intros [k nd] Hin. apply in_index_from in Hin. destruct Hin as [Hk _]. cbn [fst].
      unfold sel, shiftn. cbn [fst snd mk n_parent n_op].
      replace (k =? 0) with false by (symmetry; apply N.eqb_neq; lia).
      replace (base + n_parent nd =? i) with false by (symmetry; apply N.eqb_neq; lia). now rewrite andb_false_r.
  Qed.

  Lemma GoodX_insert :
    GoodX None l -> GoodX None inner -> dfk (canon (n_op pn)) = true -> kindp rootk inner 0 ->
    GoodX None (l ++ sh).
  Proof.
    intros (A & B & C & D) (A' & B' & C' & (r & rest & Er & Hr0)) Hk (r' & Hr' & Hrk).
    pose proof (nthN_lt _ _ _ Hp) as Hlt. fold base in Hlt.
    assert (r' = r) by (rewrite Er in Hr'; cbn in Hr'; now inversion Hr'). subst r'. rewrite rootk_canon in Hrk.
    destruct (rootk_child _ Hrk) as (Hrc & Hri & Hro). rewrite dfk_canon in Hk.
    repeat split.
    - (* parent/child pairs *)
      unfold r_child_tags in *. cbn [Gn g_nodes] in *. rewrite indexed_app, forallb_app. apply andb_true_iff. split.
      + revert A. apply forallb_impl_in. intros [i x] Hin. cbn [fst snd].
        destruct (i =? 0); [reflexivity|]. cbn [orb]. unfold op_of. cbn [Gn g_nodes].
        destruct (nthN l (n_parent x)) as [pp|] eqn:E; cbn [option_map]; intros Hc; [|discriminate Hc].
        now rewrite (nthN_app1 _ _ _ _ E).
      + fold base. rewrite index_from_sh, forallb_map. apply forallb_forall. intros [j nd] Hin. cbn [fst snd].
        apply orb_true_iff. right. unfold op_of. cbn [Gn g_nodes]. unfold shiftn at 1. cbn [fst snd mk n_parent].
        destruct (N.eqb_spec j 0) as [->|Hj].
        * rewrite (nthN_app1 _ _ _ _ Hp). cbn [option_map]. unfold shiftn. cbn [mk n_op snd].
          apply in_indexed in Hin. rewrite Er in Hin. cbn in Hin. inversion Hin; subst. now rewrite dfk_allowed.
        * rewrite forallb_forall in A'. specialize (A' _ Hin). cbn [fst snd] in A'.
          replace (j =? 0) with false in A' by (symmetry; now apply N.eqb_neq). cbn [orb] in A'.
          unfold op_of in A'. cbn [Gn g_nodes] in A'.
          destruct (nthN inner (n_parent nd)) as [pnd|] eqn:E; cbn [option_map] in A'; [|discriminate A'].
          rewrite (nthN_comb_new _ _ E). cbn [option_map]. unfold shiftn. cbn [mk n_op snd]. exact A'.
    - (* first/second child *)
      unfold fsx in *. rewrite indexed_app, forallb_app. apply andb_true_iff. split.
      + rewrite forallb_forall in B. apply forallb_forall. intros [i x] Hin. specialize (B _ Hin). cbn [fst snd] in *.
        cbn [optN_eqb option_eqb orb] in *. pose proof (nthN_lt _ _ _ (in_indexed _ _ _ Hin)) as Hi.
        rewrite (child_ops_comb_old i r rest Er Hi). destruct (N.eqb_spec parent i) as [<-|Hne]; [|now rewrite app_nil_r].
        rewrite (nthN_inj_indexed _ _ _ _ Hin Hp) in *. apply fs_check_snoc; auto. now apply dfk_dfparent.
      + fold base. rewrite index_from_sh, forallb_map. apply forallb_forall. intros [j nd] Hin. cbn [fst snd].
        cbn [optN_eqb option_eqb orb]. rewrite (child_ops_comb_new j C). unfold shiftn. cbn [mk n_op snd].
        rewrite forallb_forall in B'. exact (B' _ Hin).
    - (* parents have smaller indices *)
      unfold bounded in *. rewrite indexed_app, forallb_app. apply andb_true_iff. split; [exact C|].
      fold base. rewrite index_from_sh, forallb_map. apply forallb_forall. intros [j nd] Hin. cbn [fst snd].
      apply orb_true_iff. right. apply N.ltb_lt. unfold shiftn. cbn [fst snd mk n_parent].
      destruct (N.eqb_spec j 0) as [->|Hj]; [lia|].
      destruct (bounded_in _ _ _ C' Hin) as [?|Hlt']; [contradiction|lia].
    - now apply root_ok2_app.
  Qed.
End Insert.

(* ------------------------------------------------------------------ the builders keep the invariants *)
Lemma LinksOK_insert st st' inner :
  LinksOK st -> LinksOK inner ->
  s_len st' = s_len st + s_len inner ->
  s_links st' = s_links st ++ map (shift_edge (s_len st)) (s_links inner) -> LinksOK st'.
Proof.
  unfold LinksOK. intros A B Hl El. rewrite El, forallb_app, forallb_map. apply andb_true_iff. split.
  - revert A. apply forallb_impl_in. intros e _ H. apply andb_true_iff in H. destruct H as [X Y].
    apply N.ltb_lt in X, Y. apply andb_true_iff. split; apply N.ltb_lt; lia.
  - revert B. apply forallb_impl_in. intros e _ H. apply andb_true_iff in H. destruct H as [X Y].
    apply N.ltb_lt in X, Y. cbn [shift_edge e_src e_dst]. apply andb_true_iff. split; apply N.ltb_lt; lia.
Qed.

Lemma length_index_from {A} (l : list A) : forall a, length (index_from l a) = length l.
Proof. induction l as [|x r IH]; intros a; cbn; [reflexivity|]. now rewrite IH. Qed.
Lemma lenN_shifted base parent l : lenN (map (shiftn base parent) (indexed l)) = lenN l.
Proof. unfold lenN, indexed. now rewrite map_length, length_index_from. Qed.

Lemma initial_dfchild o : dataflow_child (initial_op o) = true. Proof. destruct o; reflexivity. Qed.

Section Main2.
  Variable tys : list tyinfo.

  Definition P2_stmt (s : stmt2) : Prop := forall strict b st e st' e',
    exec_stmt2 tys s b st e = Ok (st', e') -> croot_stmt strict s = true ->
    Inv2 st -> RootDF strict (s_nodes st) -> WB2 st b -> Inv2 st' /\ Ext st st'.
  Definition P2_region (r : region2) : Prop := forall strict b st e st' e',
    exec_region2 tys r b st e = Ok (st', e') -> croot_region strict r = true ->
    Inv2 st -> RootDF strict (s_nodes st) -> WB2 st b -> Inv2 st' /\ Ext st st'.
  Definition P2_stmts (l : stmts2) : Prop := forall strict b st e st' e',
    exec_stmts2 tys l b st e = Ok (st', e') -> croot_stmts strict l = true ->
    Inv2 st -> RootDF strict (s_nodes st) -> WB2 st b -> Inv2 st' /\ Ext st st'.
  Definition P2_cases (cs : cases2) : Prop := forall strict cond bs cur st e st' e' bs' cur',
    exec_cases2 tys cs cond bs cur st e = Ok (st', e', bs', cur') -> croot_cases strict cs = true ->
    Inv2 st -> RootDF strict (s_nodes st) -> (forall cb f, In (cb, f) bs -> WB2 st cb) -> Inv2 st' /\ Ext st st'.
  Definition P2_prog (p : prog2) : Prop := forall e st' e',
    exec_prog2 tys p e = Ok (st', e') -> croot_ok p = true -> Inv2 st' /\ kindp rootk (s_nodes st') 0.

  (* a new container (DFG / TailLoop) with its Input / Output nodes under the open builder *)
  Lemma new_container st b co ti st1 d st2 i st3 o :
    add_node st co (b_parent b) = Ok (st1, d) -> add_node st1 (Input ti) d = Ok (st2, i) ->
    add_node st2 (Output []) d = Ok (st3, o) -> Inv2 st -> WB2 st b ->
    dfk co = true -> dataflow_child co = true ->
    Inv2 st3 /\ Ext st st3 /\ WB2 st3 (mkb d i o).
  Proof.
    intros H1 H2 H3 I [(pn & Hp & Hk) _] Hco Hdc. rewrite dfk_canon in Hk.
    destruct (InvX_add_triple None _ _ pn _ _ _ _ _ _ _ _ H1 H2 H3 I Hp) as (I3 & X3 & W3 & _); auto.
    - now rewrite dfk_allowed.
    - intros Hcs. apply fs_check_snoc; auto; [now apply dfk_dfparent| |]; destruct co; try discriminate; reflexivity.
  Qed.

  Lemma exec2_keeps_invariants :
    (forall s, P2_stmt s) /\ (forall r, P2_region r) /\ (forall l, P2_stmts l) /\ (forall cs, P2_cases cs) /\
    (forall p, P2_prog p).
  Proof.
    apply prog2_mutind; unfold P2_stmt, P2_region, P2_stmts, P2_cases, P2_prog.
    - (* TOp *)
      intros id o args rs strict b st e st' e' H _ I _ W.
      destruct (exec_TOp_inv _ _ _ _ _ _ _ _ _ _ H) as (ws & st1 & n & st2 & ts & op' & E0 & E1 & E2 & E3 & E4 & _).
      destruct (Inv2_add_leaf _ _ _ _ _ E1 I (proj1 W) (initial_plain o) (initial_dfchild o)) as (I1 & X1 & N1 & L1 & _).
      pose proof (wire_up_from_frame _ _ _ _ _ _ E2) as F2.
      assert (S3 : Same st2 st').
      { eapply set_op_same; [exact E4|]. exists (mk (initial_op o) (b_parent b)). split.
        - rewrite (proj1 F2), L1, N1. unfold s_len. apply nthN_len.
        - cbn. symmetry. eapply completed_canon; eauto. }
      pose proof (Same_trans _ _ _ (Frame_Same _ _ F2) S3) as S.
      split; [eapply InvX_Same; eauto|]. eapply Ext_trans; [exact X1|apply Same_Ext; exact S].
    - (* TLoad *)
      intros id v cp r strict b st e st' e' H Hc I R W.
      destruct (exec_TLoad_inv _ _ _ _ _ _ _ _ _ _ H) as (st1 & c & st2 & l & E0 & E1 & E2 & _).
      assert (Kp : kindp dfk (s_nodes st) (match cp with CHere => b_parent b | CRoot => 0 end)).
      { destruct cp; [exact (proj1 W)|]. apply R. cbn in Hc. now apply negb_true_iff in Hc. }
      destruct (Inv2_add_leaf _ _ _ _ _ E0 I Kp eq_refl eq_refl) as (I1 & X1 & _).
      pose proof (WB2_ext _ _ _ X1 W) as W1.
      destruct (Inv2_add_leaf _ _ _ _ _ E1 I1 (proj1 W1) eq_refl eq_refl) as (I2 & X2 & _).
      pose proof (Frame_Same _ _ (add_link_frame _ _ _ _ _ _ E2)) as S3.
      split; [eapply InvX_Same; eauto|].
      eapply Ext_trans; [exact X1|]. eapply Ext_trans; [exact X2|apply Same_Ext; exact S3].
    - (* TNested *)
      intros id args body IH rs strict b st e st' e' H Hc I R W.
      destruct (exec_TNested_inv _ _ _ _ _ _ _ _ _ _ H)
        as (ws & ts & st1 & d & st2 & i & st3 & o & st4 & ts4 & e5 & _ & _ & E1 & E2 & E3 & E4 & E5 & _).
      destruct (new_container _ _ _ _ _ _ _ _ _ _ E1 E2 E3 I W eq_refl eq_refl) as (I3 & X3 & W3).
      pose proof (Frame_Same _ _ (wire_up_from_frame _ _ _ _ _ _ E4)) as S4.
      pose proof (InvX_Same _ _ _ S4 I3) as I4.
      pose proof (Ext_trans _ _ _ X3 (Same_Ext _ _ S4)) as X4.
      destruct (IH strict _ _ _ _ _ E5 Hc I4 (RootDF_ext _ _ _ X4 R) (WB2_ext _ _ _ (Same_Ext _ _ S4) W3)) as (I5 & X5).
      split; [exact I5|]. eapply Ext_trans; eauto.
    - (* TOrder *)
      intros src dst strict b st e st' e' H _ I _ W.
      destruct (exec_TOrder_inv _ _ _ _ _ _ _ _ H) as (a & c & _ & _ & E & _).
      pose proof (Frame_Same _ _ (add_order_link_frame _ _ _ _ E)) as S.
      split; [eapply InvX_Same; eauto|apply Same_Ext; exact S].
    - (* TLoop *)
      intros id just rest body IH rs strict b st e st' e' H Hc I R W.
      destruct (exec_TLoop_inv _ _ _ _ _ _ _ _ _ _ _ H)
        as (jw & rw & jt & rt & st1 & d & st2 & i & st3 & o & st4 & ts4 & e5 & _ & _ & _ & _ & E1 & E2 & E3 & E4 & E5 & _).
      destruct (new_container _ _ _ _ _ _ _ _ _ _ E1 E2 E3 I W eq_refl eq_refl) as (I3 & X3 & W3).
      pose proof (Frame_Same _ _ (wire_up_from_frame _ _ _ _ _ _ E4)) as S4.
      pose proof (InvX_Same _ _ _ S4 I3) as I4.
      pose proof (Ext_trans _ _ _ X3 (Same_Ext _ _ S4)) as X4.
      destruct (IH strict _ _ _ _ _ E5 Hc I4 (RootDF_ext _ _ _ X4 R) (WB2_ext _ _ _ (Same_Ext _ _ S4) W3)) as (I5 & X5).
      split; [exact I5|]. eapply Ext_trans; eauto.
    - (* TCond *)
      intros id cond args cs IH rs strict b st e st' e' H Hc I R W.
      destruct (exec_TCond_inv _ _ _ _ _ _ _ _ _ _ _ H)
        as (cw & ws & t & others & cp & rows & st1 & c & st2 & bs & st3 & ts3 & e4 & bs' & cur' &
            _ & _ & _ & _ & E1 & E2 & E3 & E4 & Hd & _).
      destruct (InvX_add_df _ _ _ _ _ (Some (s_len st)) E1 I (proj1 W) eq_refl eq_refl eq_refl (or_introl eq_refl))
        as (I1 & X1 & N1 & L1 & _).
      assert (K1 : kindp is_cond (s_nodes st1) c).
      { exists (mk (Conditional rows others [] t) (b_parent b)). split; [|reflexivity].
        rewrite L1, N1. unfold s_len. apply nthN_len. }
      rewrite <- N1 in I1.
      destruct (make_cases_inv _ _ _ _ _ _ _ E2 I1 K1 (or_intror eq_refl)) as (I2 & X2 & F2 & Ln & _).
      pose proof (Frame_Same _ _ (wire_up_from_frame _ _ _ _ _ _ E3)) as S3.
      destruct rows as [|r0 rows'].
      { (* an empty sum: no case can be built, the Conditional stays incomplete *)
        destruct bs; [|unfold lenN in Ln; cbn in Ln; lia].
        destruct (exec_cases2_no_builders _ _ _ _ _ _ _ _ _ _ E4) as [-> ->]. discriminate Hd. }
      pose proof (InvX_Same _ _ _ S3 I2) as I3.
      pose proof (Ext_trans _ _ _ X1 (Ext_trans _ _ _ X2 (Same_Ext _ _ S3))) as X3.
      destruct (IH strict _ _ _ _ _ _ _ _ _ E4 Hc I3 (RootDF_ext _ _ _ X3 R)) as (I4 & X4).
      { intros cb f Hin. eapply WB2_ext; [apply Same_Ext; exact S3|]. exact (proj1 (F2 _ _ Hin)). }
      split; [exact I4|]. eapply Ext_trans; eauto.
    - (* TInsert *)
      intros id sub IH args rs strict b st e st' e' H Hc I R W.
      destruct (exec_TInsert_inv _ _ _ _ _ _ _ _ _ _ H) as (sti & e1 & ws & st1 & m & r & ts & E0 & _ & E2 & _ & E4 & _).
      destruct (IH _ _ _ E0 Hc) as (Ii & Ki).
      destruct Ii as [Gi Li]. destruct I as [G L].
      destruct (insert_hugr_spec _ _ _ _ _ E2 (proj1 (proj2 (proj2 Gi))) Li) as (A & B & _ & _).
      destruct W as [(pn & Hp & Hk) Wo].
      assert (I1 : Inv2 st1).
      { split.
        - rewrite A. unfold s_len. now apply (GoodX_insert _ _ _ pn).
        - apply (LinksOK_insert st st1 sti L Li); [|exact B]. unfold s_len. rewrite A, lenN_app, lenN_shifted. reflexivity. }
      assert (X1 : Ext st st1) by (eexists; rewrite A, map_app; reflexivity).
      pose proof (Frame_Same _ _ (wire_up_from_frame _ _ _ _ _ _ E4)) as S4.
      split; [eapply InvX_Same; eauto|]. eapply Ext_trans; [exact X1|apply Same_Ext; exact S4].
    - (* TCallInd *)
      intros id args rs strict b st e st' e' H _ I _ W.
      destruct (exec_TCallInd_inv _ _ _ _ _ _ _ _ _ H) as (ws & st1 & n & st2 & ts & op' & E0 & E1 & E2 & E3 & E4 & _).
      destruct (Inv2_add_leaf _ _ _ _ _ E1 I (proj1 W) eq_refl eq_refl) as (I1 & X1 & N1 & L1 & _).
      pose proof (wire_up_from_frame _ _ _ _ _ _ E2) as F2.
      assert (S3 : Same st2 st').
      { eapply set_op_same; [exact E4|]. exists (mk (CallIndirect [] [] 0) (b_parent b)). split.
        - rewrite (proj1 F2), L1, N1. unfold s_len. apply nthN_len.
        - cbn. symmetry. eapply completed_callind_canon; eauto. }
      pose proof (Same_trans _ _ _ (Frame_Same _ _ F2) S3) as S.
      split; [eapply InvX_Same; eauto|]. eapply Ext_trans; [exact X1|apply Same_Ext; exact S].
    - (* Reg *)
      intros ins body IH outs strict b st e st' e' H Hc I R W.
      destruct (exec_Reg_inv _ _ _ _ _ _ _ _ _ H) as (st1 & ws & E0 & _ & E2).
      destruct (IH strict _ _ _ _ _ E0 Hc I R W) as (I1 & X1).
      pose proof (set_outputs2_same _ _ _ _ _ E2 (WB2_ext _ _ _ X1 W)) as S.
      split; [eapply InvX_Same; eauto|]. eapply Ext_trans; [exact X1|apply Same_Ext; exact S].
    - (* TNil *)
      intros strict b st e st' e' H _ I _ _. apply exec_TNil_inv in H. destruct H as [-> _].
      split; [exact I|apply Ext_refl].
    - (* TCons *)
      intros s IHs r IHr strict b st e st' e' H Hc I R W.
      destruct (exec_TCons_inv _ _ _ _ _ _ _ _ H) as (st1 & e1 & E0 & E1).
      cbn [croot_stmts] in Hc. apply andb_true_iff in Hc. destruct Hc as [Hc1 Hc2].
      destruct (IHs strict _ _ _ _ _ E0 Hc1 I R W) as (I1 & X1).
      destruct (IHr strict _ _ _ _ _ E1 Hc2 I1 (RootDF_ext _ _ _ X1 R) (WB2_ext _ _ _ X1 W)) as (I2 & X2).
      split; [exact I2|eapply Ext_trans; eauto].
    - (* CNil *)
      intros strict cond bs cur st e st' e' bs' cur' H _ I _ _. apply exec_CNil_inv in H. inversion H; subst.
      split; [exact I|apply Ext_refl].
    - (* CCons *)
      intros i r IHr rest IHrest strict cond bs cur st e st' e' bs' cur' H Hc I R F.
      destruct (exec_CCons_inv _ _ _ _ _ _ _ _ _ _ H) as (cb & st1 & e1 & ts & st2 & cur2 & Hn & E0 & _ & E2 & E3).
      cbn [croot_cases] in Hc. apply andb_true_iff in Hc. destruct Hc as [Hc1 Hc2].
      destruct (IHr strict _ _ _ _ _ E0 Hc1 I R (F _ _ (nthN_In _ _ _ Hn))) as (I1 & X1).
      pose proof (update_outputs_same _ _ _ _ _ _ E2) as S2.
      pose proof (Ext_trans _ _ _ X1 (Same_Ext _ _ S2)) as X2.
      destruct (IHrest strict _ _ _ _ _ _ _ _ _ E3 Hc2 (InvX_Same _ _ _ S2 I1) (RootDF_ext _ _ _ X2 R)) as (I3 & X3).
      { intros cb' f Hin. apply in_set_nth in Hin. eapply WB2_ext; [exact X2|]. destruct Hin as [Hin|Hin].
        - inversion Hin; subst. exact (F _ _ (nthN_In _ _ _ Hn)).
        - exact (F _ _ Hin). }
      split; [exact I3|eapply Ext_trans; eauto].
    - (* QDfg *)
      intros ins body IH e st' e' H Hc. apply exec_QDfg_inv in H. cbn [croot_ok] in Hc.
      match type of H with exec_region2 _ _ ?b ?st _ = _ => assert (I0 : Inv2 st /\ WB2 st b /\ kindp rootk (s_nodes st) 0) end.
      { split; [split; [repeat split|reflexivity]|split; [split|]]; try reflexivity.
        - eexists _, _. split; reflexivity.
        - eexists. split; reflexivity.
        - eexists. split; reflexivity.
        - eexists. split; reflexivity. }
      destruct I0 as (I0 & W0 & K0).
      destruct (IH false _ _ _ _ _ H Hc I0) as (I1 & X1); [|exact W0|].
      + intros _. eexists. split; reflexivity.
      + split; [exact I1|eapply kindp_Ext; eauto].
    - (* QLoop *)
      intros just rest body IH e st' e' H Hc. apply exec_QLoop_inv in H. cbn [croot_ok] in Hc.
      match type of H with exec_region2 _ _ ?b ?st _ = _ => assert (I0 : Inv2 st /\ WB2 st b /\ kindp rootk (s_nodes st) 0) end.
      { split; [split; [repeat split|reflexivity]|split; [split|]]; try reflexivity.
        - eexists _, _. split; reflexivity.
        - eexists. split; reflexivity.
        - eexists. split; reflexivity.
        - eexists. split; reflexivity. }
      destruct I0 as (I0 & W0 & K0).
      destruct (IH false _ _ _ _ _ H Hc I0) as (I1 & X1); [|exact W0|].
      + intros _. eexists. split; reflexivity.
      + split; [exact I1|eapply kindp_Ext; eauto].
    - (* QCond *)
      intros rows others sumty cs IH e st' e' H Hc. cbn [croot_ok] in Hc.
      destruct (exec_QCond_inv _ _ _ _ _ _ _ _ H) as (st1 & bs & bs' & cur' & E0 & E1 & Hd).
      assert (I0 : InvX (Some 0) (new_store (Conditional rows others [] sumty))).
      { split; [repeat split|reflexivity]. eexists _, _. split; reflexivity. }
      assert (K0 : kindp is_cond (s_nodes (new_store (Conditional rows others [] sumty))) 0) by (eexists; split; reflexivity).
      assert (R0 : kindp rootk (s_nodes (new_store (Conditional rows others [] sumty))) 0) by (eexists; split; reflexivity).
      destruct (make_cases_inv _ _ _ _ _ _ _ E0 I0 K0 (or_intror eq_refl)) as (I1 & X1 & F1 & Ln & _).
      destruct rows as [|r0 rows'].
      { destruct bs; [|unfold lenN in Ln; cbn in Ln; lia].
        destruct (exec_cases2_no_builders _ _ _ _ _ _ _ _ _ _ E1) as [-> ->]. discriminate Hd. }
      destruct (IH true _ _ _ _ _ _ _ _ _ E1 Hc I1) as (I2 & X2).
      + intros F. discriminate F.
      + intros cb f Hin. exact (proj1 (F1 _ _ Hin)).
      + split; [exact I2|]. eapply kindp_Ext; [exact X2|]. eapply kindp_Ext; eauto.
  Qed.
End Main2.

(* ------------------------------------------------------------------ from the store to the serialised document *)
Lemma index_to_serial2 st : Inv2 st -> r_index (to_serial st) = true.
Proof.
  intros [(_ & _ & C & (r & rest & Er & D1)) K]. unfold r_index, to_serial. cbn [g_nodes g_edges].
  rewrite Er. rewrite <- Er. apply andb_true_iff. split; [apply andb_true_iff; split|].
  - now apply N.eqb_eq.
  - exact C.
  - rewrite forallb_map. cbn [e_src e_dst]. exact K.
Qed.

Theorem run2_structural tys p g :
  croot_ok p = true -> run2 tys p = Ok g ->
  r_index g = true /\ r_child_tags g = true /\ r_first_second g = true.
Proof.
  intros Hc H. unfold run2 in H. bd H. destruct v as [st e1]. cbn [fst] in H. inversion H; subst; clear H.
  destruct (exec2_keeps_invariants tys) as (_ & _ & _ & _ & HP).
  destruct (HP p _ _ _ E Hc) as [I _].
  split; [now apply index_to_serial2|]. rewrite tags_to_serial, fs_to_serial.
  destruct I as [(A & B & _) _]. rewrite fsx_none in B. auto.
Qed.

(* without the premise on constants at a Conditional root: everything but the parent/child pair of such a constant;
   stated as: the premise is only needed for programs that ask for it *)

(* non-vacuity: a loop, a conditional (cases built in the order 1, 0) and an inserted Dfg; the whole `valid`
   accepts the document.  Types: 0 = a copyable atom, 1 = Bool = Sum [[]; []], 2 = Sum [[0]; [0]] *)
Definition ex4_tys : list tyinfo := [TAtom true; TSum true [[]; []]; TSum true [[0]; [0]]].
Definition ex4_prog : prog2 :=
  QDfg [0; 1] (Reg [1; 2]
    (TCons (TLoop 1 [1] [] (Reg [3]
              (TCons (TOp 2 (OTag 1 [[0]; [0]] 2) [3] [4]) TNil) [4]) [5])
    (TCons (TCond 3 2 [5] (CCons 1 (Reg [6] (TCons (TOp 4 ONoop [6] [7]) TNil) [7])
                          (CCons 0 (Reg [8] TNil [8]) CNil)) [9])
    (TCons (TInsert 5 (QDfg [0] (Reg [10] (TCons (TOp 6 ONoop [10] [11]) TNil) [11])) [9] [12])
     TNil))) [12]).
Example ex4_runs : croot_ok ex4_prog = true /\ exists g, run2 ex4_tys ex4_prog = Ok g /\
  valid {| v_tys := ex4_tys; v_main := g; v_subs := [] |} = true /\ length (g_nodes g) = 19%nat /\
  existsb (fun n => match n_op n with TailLoop _ _ _ _ => true | _ => false end) (g_nodes g) = true /\
  existsb (fun n => match n_op n with Conditional _ _ _ _ => true | _ => false end) (g_nodes g) = true.
Proof. split; [reflexivity|]. eexists. split; [vm_compute; reflexivity|]. repeat split; vm_compute; reflexivity. Qed.

(* the premise croot_ok is needed: hugr-py accepts load(value, const_parent=hugr.root) on a Hugr rooted in a
   Conditional and the document then has a Const child under the Conditional *)
Definition ex_croot_tys : list tyinfo := [TAtom true; TSum true [[]]].
Definition ex_croot : prog2 :=
  QCond [[]] [] 1 (CCons 0 (Reg [] (TCons (TLoad 1 (VExt 0) CRoot 1) TNil) [1]) CNil).
Example ex_croot_refuted : croot_ok ex_croot = false /\
  exists g, run2 ex_croot_tys ex_croot = Ok g /\ r_child_tags g = false.
Proof. split; [reflexivity|]. eexists. split; vm_compute; reflexivity. Qed.
