(* Soundness of the boolean equalities of model/Codec.v on the API layer (ty_eqb / tyarg_eqb / functype_eqb):
   the boolean premise `call_wf` of C05's op_ok implies the propositional CallWF of OpOK, so that "C05's OpOK on
   the nodes of a HUGR" can be stated -- and evaluated -- as a boolean (needed for the payload predicate h_ok of
   function-valued constants in the any-depth composition, proofs/ComposeDepthP.v). *)
From Coq Require Import NArith List Bool Arith Lia.
Import ListNotations.
From HV Require Import lib.Harness model.Types model.SerialTypes model.Codec model.CodecVals model.CodecOps
  proofs.CodecP proofs.CodecValsP proofs.CodecOpsP.

Lemma leqb_sound {A} (eqb : A -> A -> bool) l :
  Forall (fun a => forall b, eqb a b = true -> a = b) l -> forall m, list_eqb eqb l m = true -> l = m.
Proof.
  induction 1 as [|x r Hx _ IH]; intros [|y s]; cbn; try congruence.
  intros H. apply andb_true_iff in H as [H1 H2]. f_equal; auto.
Qed.
Lemma names_eqb_sound a b : names_eqb a b = true -> a = b.
Proof. apply leqb_sound. apply Forall_forall. intros x _ y. apply N.eqb_eq. Qed.
Lemma bound_eqb_sound a b : bound_eqb a b = true -> a = b.
Proof. destruct a, b; cbn; congruence. Qed.

Lemma typaram_eqb_tuple x y : typaram_eqb (PTuple x) (PTuple y) = list_eqb typaram_eqb x y.
Proof.
  simpl. revert y. induction x as [|a r IH]; intros [|b s]; try reflexivity. cbn [list_eqb]. now rewrite <- IH.
Qed.
Lemma typaram_eqb_sound : forall a b, typaram_eqb a b = true -> a = b.
Proof.
  induction a as [b|ub| |p IH|ps IH| ] using typaram_ind2; intros [] H; try discriminate; try reflexivity.
  - cbn in H. apply bound_eqb_sound in H. congruence.
  - cbn in H. destruct ub as [u|], ub0 as [v|]; cbn in H; try discriminate; [|reflexivity]. apply N.eqb_eq in H. congruence.
  - cbn in H. f_equal. now apply IH.
  - rewrite typaram_eqb_tuple in H. f_equal. now apply (leqb_sound _ _ IH).
Qed.
Lemma typarams_eqb_sound a b : list_eqb typaram_eqb a b = true -> a = b.
Proof. apply leqb_sound. apply Forall_forall. intros x _ y. apply typaram_eqb_sound. Qed.
Lemma defbound_eqb_sound a b : defbound_eqb a b = true -> a = b.
Proof.
  destruct a, b; cbn; try discriminate; intros H.
  - apply bound_eqb_sound in H. congruence.
  - f_equal. revert H. apply leqb_sound. apply Forall_forall. intros x _ y. apply Nat.eqb_eq.
Qed.
Lemma typedef_eqb_sound a b : typedef_eqb a b = true -> a = b.
Proof.
  unfold typedef_eqb. rewrite !andb_true_iff, !N.eqb_eq. intros [[[[E1 E2] E3] E4] E5].
  apply typarams_eqb_sound in E4. apply defbound_eqb_sound in E5. destruct a, b; cbn in *. congruence.
Qed.
Lemma extclass_eqb_sound a b : extclass_eqb a b = true -> a = b.
Proof. destruct a, b; cbn; try discriminate; try reflexivity. intros H. apply Nat.eqb_eq in H. congruence. Qed.

(* unfolding the local loops of ty_eqb *)
Lemma row_eqb_unfold : forall a b, (fix row (l m : list ty) : bool :=
     match l, m with [], [] => true | p :: r, q :: s => ty_eqb p q && row r s | _, _ => false end) a b = list_eqb ty_eqb a b.
Proof. induction a as [|u v IHa]; intros [|w z]; try reflexivity. cbn [list_eqb]. now rewrite <- IHa. Qed.
Lemma args_eqb_unfold : forall a b, (fix args (l m : list tyarg) : bool :=
     match l, m with [], [] => true | p :: r, q :: s => tyarg_eqb p q && args r s | _, _ => false end) a b
     = list_eqb tyarg_eqb a b.
Proof. induction a as [|u v IHa]; intros [|w z]; try reflexivity. cbn [list_eqb]. now rewrite <- IHa. Qed.
Lemma ty_eqb_rows x y : ty_eqb (TSum x) (TSum y) = list_eqb (list_eqb ty_eqb) x y.
Proof.
  simpl. revert y. induction x as [|a r IH]; intros [|b s]; try reflexivity. cbn [list_eqb]. rewrite <- IH. f_equal.
  apply row_eqb_unfold.
Qed.
Lemma ty_eqb_func i o r i' o' r' :
  ty_eqb (TFunc i o r) (TFunc i' o' r') = list_eqb ty_eqb i i' && list_eqb ty_eqb o o' && names_eqb r r'.
Proof. simpl. now rewrite !row_eqb_unfold. Qed.
Lemma ty_eqb_poly ps i o r ps' i' o' r' :
  ty_eqb (TPoly ps i o r) (TPoly ps' i' o' r') =
  list_eqb typaram_eqb ps ps' && list_eqb ty_eqb i i' && list_eqb ty_eqb o o' && names_eqb r r'.
Proof. simpl. now rewrite !row_eqb_unfold. Qed.
Lemma ty_eqb_opaque e id x b e' id' y b' :
  ty_eqb (TOpaque e id x b) (TOpaque e' id' y b') = N.eqb e e' && N.eqb id id' && list_eqb tyarg_eqb x y && bound_eqb b b'.
Proof. simpl. now rewrite args_eqb_unfold. Qed.
Lemma ty_eqb_ext d x c d' y c' :
  ty_eqb (TExt d x c) (TExt d' y c') = typedef_eqb d d' && list_eqb tyarg_eqb x y && extclass_eqb c c'.
Proof. simpl. now rewrite args_eqb_unfold. Qed.
Lemma tyarg_eqb_seq x y : tyarg_eqb (ASeq x) (ASeq y) = list_eqb tyarg_eqb x y.
Proof. simpl. now rewrite args_eqb_unfold. Qed.

Lemma ty_eqb_sound : forall a b, ty_eqb a b = true -> a = b.
Proof.
  apply (ty_ind2 (fun a => forall b, ty_eqb a b = true -> a = b) (fun a => forall b, tyarg_eqb a b = true -> a = b)).
  - intros rs IH [] H; try discriminate. rewrite ty_eqb_rows in H. f_equal.
    revert H. apply leqb_sound. eapply Forall_impl; [|exact IH]. intros r Hr m. now apply leqb_sound.
  - intros n [] H; try discriminate. cbn in H. apply Nat.eqb_eq in H. congruence.
  - intros i b [] H; try discriminate. cbn in H. apply andb_true_iff in H as [H1 H2].
    apply Nat.eqb_eq in H1. apply bound_eqb_sound in H2. congruence.
  - intros i b [] H; try discriminate. cbn in H. apply andb_true_iff in H as [H1 H2].
    apply Nat.eqb_eq in H1. apply bound_eqb_sound in H2. congruence.
  - intros [] H; try discriminate. reflexivity.
  - intros [] H; try discriminate. reflexivity.
  - intros n b [] H; try discriminate. cbn in H. apply andb_true_iff in H as [H1 H2].
    apply N.eqb_eq in H1. apply bound_eqb_sound in H2. congruence.
  - intros i o r Hi Ho [] H; try discriminate. rewrite ty_eqb_func in H.
    apply andb_true_iff in H as [H H3]. apply andb_true_iff in H as [H1 H2].
    apply (leqb_sound _ _ Hi) in H1. apply (leqb_sound _ _ Ho) in H2. apply names_eqb_sound in H3. congruence.
  - intros ps i o r Hi Ho [] H; try discriminate. rewrite ty_eqb_poly in H.
    apply andb_true_iff in H as [H H3]. apply andb_true_iff in H as [H H2]. apply andb_true_iff in H as [H0 H1].
    apply (leqb_sound _ _ Hi) in H1. apply (leqb_sound _ _ Ho) in H2. apply names_eqb_sound in H3.
    apply typarams_eqb_sound in H0. congruence.
  - intros e id a b Ha [] H; try discriminate. rewrite ty_eqb_opaque in H.
    apply andb_true_iff in H as [H H3]. apply andb_true_iff in H as [H H2]. apply andb_true_iff in H as [H0 H1].
    apply N.eqb_eq in H0, H1. apply (leqb_sound _ _ Ha) in H2. apply bound_eqb_sound in H3. congruence.
  - intros d a c Ha [] H; try discriminate. rewrite ty_eqb_ext in H.
    apply andb_true_iff in H as [H H3]. apply andb_true_iff in H as [H1 H2].
    apply typedef_eqb_sound in H1. apply (leqb_sound _ _ Ha) in H2. apply extclass_eqb_sound in H3. congruence.
  - intros t IH [] H; try discriminate. cbn in H. f_equal. now apply IH.
  - intros n [] H; try discriminate. cbn in H. apply N.eqb_eq in H. congruence.
  - intros n [] H; try discriminate. cbn in H. apply N.eqb_eq in H. congruence.
  - intros l IH [] H; try discriminate. rewrite tyarg_eqb_seq in H. f_equal. now apply (leqb_sound _ _ IH).
  - intros es [] H; try discriminate. cbn in H. apply names_eqb_sound in H. congruence.
  - intros i p [] H; try discriminate. cbn in H. apply andb_true_iff in H as [H1 H2].
    apply Nat.eqb_eq in H1. apply typaram_eqb_sound in H2. congruence.
Qed.
Lemma row_eqb_sound a b : list_eqb ty_eqb a b = true -> a = b.
Proof. apply leqb_sound. apply Forall_forall. intros x _ y. apply ty_eqb_sound. Qed.
Lemma functype_eqb_sound a b : functype_eqb a b = true -> a = b.
Proof.
  unfold functype_eqb. rewrite !andb_true_iff. intros [[E1 E2] E3].
  apply row_eqb_sound in E1, E2. apply names_eqb_sound in E3. destruct a, b; cbn in *. congruence.
Qed.

(* the boolean op_ok already contains the constructor's guarantee on Call / LoadFunc *)
Lemma call_wf_CallWF sig inst ta : call_wf sig inst ta = true -> CallWF sig inst ta.
Proof.
  unfold call_wf, CallWF. destruct (pt_params sig) as [|p ps].
  - intros H. apply andb_true_iff in H as [H1 H2]. apply functype_eqb_sound in H1. destruct ta; [auto|discriminate].
  - intros H. now apply Nat.eqb_eq in H.
Qed.
Lemma op_ok_OpOK H (h_ok : H -> bool) (o : op H) : op_ok H h_ok o = true -> OpOK H h_ok o.
Proof. intros E. split; [exact E|]. destruct o; try exact I; cbn in E; now apply call_wf_CallWF. Qed.
