(* Non-vacuity of the composed C02 o C05 theorems: concrete HUGRs over the concrete operations of model/CodecOps.v
   that satisfy every premise, with the documents the model computes for them.
     ex0  depth 0: Module > FuncDecl f, FuncDefn main > Input, Output, Const Some(true) (a sum value), LoadConst,
          Const true, LoadConst, Call f (function edge on the static port after the value input), DFG > Input, Output,
          Tag; a deleted node (hole at index 3, so the renumbering is not the identity), metadata, an order link
          LoadConst -> DFG.
     ex1  depth 1: a DFG loading a function-valued constant whose body is itself a HUGR (a DFG with a constant). *)
From Coq Require Import NArith List Bool Arith Lia Permutation.
Import ListNotations.
From HV Require Import lib.Harness model.Types model.SerialTypes model.Codec model.CodecVals model.CodecOps
  proofs.CodecOpsP proofs.CodecDocP.
From HV Require Import model.SerialHugr spec.SerialHugrS model.ComposeOps model.ComposeDepth.

Definition is0 (m : N) : bool := N.eqb m 0.                   (* metadata interned by the harness: 0 is {} *)
Definition tbool : ty := TUnitSum 2.
Definition topt : ty := TSum [[]; [tbool]].                   (* Option(Bool) *)
Definition tsum : ty := TSum [[tbool]; []].
Definition fsig : polytype := PT [] (FT [tbool] [tbool] []).
Definition nd {H} (o : op H) p ch (m : N) : node (op H) N :=
  {| n_op := o; n_parent := p; n_children := ch; n_md := m; n_nin := 0; n_nout := 0 |}.

Definition ex0 : hugr (op E0) N :=
  {| h_nodes := [ Some (nd OModule None [1; 2] 0);
                  Some (nd (OFuncDecl 11%N fsig) (Some 0) [] 0);
                  Some (nd (OFuncDefn 12%N [] [] [tsum; topt]) (Some 0) [4; 5; 6; 7; 8; 9; 10; 11; 14] 0);
                  None;
                  Some (nd (OInput []) (Some 2) [] 0);
                  Some (nd (OOutput [tsum; topt]) (Some 2) [] 0);
                  Some (nd (OConst (VSum 1%N topt [VSum 1%N tbool []])) (Some 2) [] 5);
                  Some (nd (OLoadConst topt) (Some 2) [] 0);
                  Some (nd (OConst (VSum 1%N tbool [])) (Some 2) [] 0);
                  Some (nd (OLoadConst tbool) (Some 2) [] 0);
                  Some (nd (OCall fsig (FT [tbool] [tbool] []) []) (Some 2) [] 7);
                  Some (nd (ODFG [tbool] [tbool] []) (Some 2) [12; 13] 0);
                  Some (nd (OInput [tbool]) (Some 11) [] 0);
                  Some (nd (OOutput [tbool]) (Some 11) [] 0);
                  Some (nd (OTag 0%N tsum) (Some 2) [] 0) ];
     h_root := 0;
     h_links := [ ((6, APort 0), (7, APort 0)); ((8, APort 0), (9, APort 0));
                  ((9, APort 0), (10, APort 0)); ((1, APort 0), (10, APort 1));
                  ((10, APort 0), (11, APort 0)); ((12, APort 0), (13, APort 0));
                  ((11, APort 0), (14, APort 0)); ((14, APort 0), (5, APort 0)); ((7, APort 0), (5, APort 1));
                  ((7, AOrder), (11, AOrder)) ] |}.

Definition to_s0 (h : hugr (op E0) N) := to_serial (c_enc E0 E0 e0) (c_ndp E0) is0 h.
Definition from_s0 (s : serial (sop E0) N) := from_serial (c_dec E0 E0 e0) (c_ndp E0) 0%N s.
Definition guard0 (h : hugr (op E0) N) : bool := guard_b (c_vports E0 E0 e0) (c_sports E0 E0 e0) (c_has_order E0 E0 e0) h.

Lemma ex0_premises : guard0 ex0 = true /\ ops_ok_b N e0_ok ex0 = true.
Proof. split; vm_compute; reflexivity. Qed.

(* the document: 14 nodes (the hole is compacted away), the Call's function edge on offset 1, the order edge written at
   offset 1 of the LoadConst (one output) and offset 1 of the DFG (one input); the reloaded HUGR has the same links,
   renumbered, with the order link an order link again *)
Lemma ex0_document : exists s h', to_s0 ex0 = Some s /\ from_s0 s = Some h' /\ to_s0 h' = Some s /\
  length (s_nodes s) = 14 /\
  nth_error (s_edges s) 3 = Some ((1, Some 0), (9, Some 1)) /\ nth_error (s_edges s) 9 = Some ((6, Some 1), (10, Some 1)) /\
  nth_error (s_nodes s) 5 = Some {| s_op := c_enc E0 E0 e0 (OConst (VSum 1%N topt [VSum 1%N tbool []])); s_parent := 2 |} /\
  h_links h' = map (rename_link (rank ex0)) (h_links ex0) /\
  nth_error (h_links h') 9 = Some ((6, AOrder), (10, AOrder)).
Proof.
  destruct (to_s0 ex0) as [s|] eqn:Es; [|vm_compute in Es; discriminate].
  destruct (from_s0 s) as [h'|] eqn:Eh; [|vm_compute in Es; injection Es as <-; vm_compute in Eh; discriminate].
  exists s, h'. vm_compute in Es. injection Es as <-. vm_compute in Eh. injection Eh as <-.
  repeat split; vm_compute; reflexivity.
Qed.

(* ---- depth 1: a function-valued constant ---- *)
Definition body1 : HT N 1 :=
  {| h_nodes := [ Some (nd (ODFG [tbool] [topt] []) None [1; 2; 3; 4] 0);
                  Some (nd (OInput [tbool]) (Some 0) [] 0);
                  Some (nd (OOutput [topt]) (Some 0) [] 0);
                  Some (nd (OConst (VSum 1%N topt [VSum 1%N tbool []])) (Some 0) [] 3);
                  Some (nd (OLoadConst topt) (Some 0) [] 0) ];
     h_root := 0;
     h_links := [ ((3, APort 0), (4, APort 0)); ((4, APort 0), (2, APort 0)); ((1, AOrder), (4, AOrder)) ] |}.
Definition tfn : ty := TFunc [tbool] [topt] [].
Definition ex1 : hugr (op (HT N 1)) N :=
  {| h_nodes := [ Some (nd (ODFG [] [tfn] []) None [1; 2; 3; 4] 0);
                  Some (nd (OInput []) (Some 0) [] 0);
                  Some (nd (OOutput [tfn]) (Some 0) [] 0);
                  Some (nd (OConst (VFunction body1)) (Some 0) [] 0);
                  Some (nd (OLoadConst tfn) (Some 0) [] 9) ];
     h_root := 0;
     h_links := [ ((3, APort 0), (4, APort 0)); ((4, APort 0), (2, APort 0)) ] |}.

Lemma ex1_premises : okT N is0 1 body1 = true /\ guardT N is0 1 ex1 = true /\ ops_ok_b N (okT N is0 1) ex1 = true.
Proof. repeat split; vm_compute; reflexivity. Qed.
(* the embedded document is part of the outer one: node 3 of the document is a Const whose value is the function
   value holding the 5-node document of the body *)
Lemma ex1_document : exists s, to_serial (c_enc (HT N 1) (ST N 1) (encT N is0 1)) (c_ndp (HT N 1)) is0 ex1 = Some s /\
  length (s_nodes s) = 5 /\
  exists sb, option_map s_op (nth_error (s_nodes s) 3) = Some (SConst 0%N (SVFunction sb)) /\
             length (SerialHugr.s_nodes sb) = 5 /\ length (SerialHugr.s_edges sb) = 3.
Proof.
  eexists. split; [vm_compute; reflexivity|]. split; [reflexivity|].
  eexists. split; [vm_compute; reflexivity|]. split; reflexivity.
Qed.

(* ---- a Tag whose tag names no variant (the corpus trigger of fix f60e9c0): no order port, numbered links allowed; the
   premises hold and the document round-trips ---- *)
Definition ex_tag : hugr (op E0) N :=
  {| h_nodes := [ Some (nd (ODFG [tbool] [tbool] []) None [1; 2] 0);
                  Some (nd (OInput [tbool]) (Some 0) [] 0);
                  Some (nd (OTag 5%N (TSum [[tbool]])) (Some 0) [] 1) ];
     h_root := 0;
     h_links := [ ((1, APort 0), (2, APort 0)) ] |}.
Lemma ex_tag_roundtrip : guard0 ex_tag = true /\ ops_ok_b N e0_ok ex_tag = true /\
  tag_ok E0 (OTag 5%N (TSum [[tbool]])) = false /\ c_ndp E0 (OTag 5%N (TSum [[tbool]])) DIn = None /\
  exists s h', to_s0 ex_tag = Some s /\ from_s0 s = Some h' /\ to_s0 h' = Some s /\ h_links h' = h_links ex_tag.
Proof.
  split; [vm_compute; reflexivity|]. split; [vm_compute; reflexivity|]. split; [reflexivity|]. split; [reflexivity|].
  destruct (to_s0 ex_tag) as [s|] eqn:Es; [|vm_compute in Es; discriminate].
  destruct (from_s0 s) as [h'|] eqn:Eh; [|vm_compute in Es; injection Es as <-; vm_compute in Eh; discriminate].
  exists s, h'. vm_compute in Es. injection Es as <-. vm_compute in Eh. injection Eh as <-.
  repeat split; vm_compute; reflexivity.
Qed.

(* ---- metadata as the harness interns it (canonical JSON text -> N, 0 = the empty dictionary): the two metadata
   hypotheses hold, the composed theorem has no hypothesis at all ---- *)
Lemma is0_nil : is0 0%N = true.
Proof. reflexivity. Qed.
Lemma is0_unique : forall m, is0 m = true -> m = 0%N.
Proof. intros m H. now apply N.eqb_eq in H. Qed.
