(* C03 — the typed index-sanity clause carries over to the JSON text: IndexSane s -> json_index_sane (doc_json s). *)
From Coq Require Import List Bool ZArith String Arith Lia.
Import ListNotations.
From HV Require Import lib.Harness model.Schema model.SerialHugr model.DocJson spec.SerialHugrS spec.DocJsonS.
Open Scope string_scope.

Section Index.
  Variables sop md : Type.
  Variable op_fields : sop -> obj.
  Variable md_fields : md -> obj.
  Variable encoder : option string.

  Lemma jparent_node (n : snode sop) : jparent (node_json op_fields n) = Some (Z.of_nat (s_parent n)).
  Proof. reflexivity. Qed.

  Lemma jparents_earlier_nodes (l : list (snode sop)) : forall base,
    (forall k x, nth_error l k = Some x -> s_parent x < base + k) ->
    jparents_earlier (Z.of_nat base) (map (node_json op_fields) l) = true.
  Proof.
    induction l as [|x r IH]; intros base H; [reflexivity|]. cbn [map jparents_earlier]. rewrite jparent_node.
    pose proof (H 0 x eq_refl) as H0.
    replace (Z.of_nat base + 1)%Z with (Z.of_nat (S base)) by lia.
    rewrite IH.
    - apply andb_true_iff. split; [|reflexivity]. apply andb_true_iff. split; [apply Z.leb_le|apply Z.ltb_lt]; lia.
    - intros k y Hy. specialize (H (S k) y Hy). lia.
  Qed.

  Lemma jendpoint_port n (p : sport) : fst p < n -> jendpoint (Z.of_nat n) (port_json p) = true.
  Proof.
    intros H. destruct p as [i o]. cbn. apply andb_true_iff. split; [apply Z.leb_le|apply Z.ltb_lt]; cbn in H; lia.
  Qed.

  Theorem index_sane_json (s : serial sop md) :
    IndexSane s -> json_index_sane (doc_json op_fields md_fields encoder s) = true.
  Proof.
    intros [[r [Hr Hp]] [Hpar Hedges]]. unfold json_index_sane, doc_json. cbn [jget lookup String.eqb Ascii.eqb Bool.eqb].
    destruct (s_nodes s) as [|r0 rest] eqn:En; [discriminate|]. cbn in Hr. injection Hr as ->.
    cbn [map]. rewrite jparent_node, Hp. change (Z.of_nat 0 =? 0)%Z with true. cbn [andb].
    rewrite map_length.
    change 1%Z with (Z.of_nat 1). rewrite jparents_earlier_nodes.
    - cbn [andb]. apply forallb_forall. intros e He. apply in_map_iff in He as [e0 [<- He0]].
      destruct (Hedges e0 He0) as [H1 H2]. unfold edge_json. cbn [length] in H1, H2.
      rewrite !jendpoint_port by assumption. reflexivity.
    - intros k x Hx. specialize (Hpar (S k) x (Nat.lt_0_succ k) Hx). lia.
  Qed.
End Index.

(* for the documents of the model of Hugr._to_serial (guarded HUGRs: proofs/SerialHugrP.v serial_index_sane) *)
From HV Require Import proofs.SerialHugrP.
Section ModelIndex.
  Variables op sop md : Type.
  Variable enc : op -> sop.
  Variable ndp : op -> dir -> option nat.
  Variable md_nil : md.
  Variable md_is_nil : md -> bool.
  Variables vports sports : op -> dir -> nat.
  Variable has_order : op -> bool.
  Hypothesis ndp_spec : forall o d, ndp o d = if has_order o then Some (vports o d + sports o d) else None.
  Variable op_fields : sop -> obj.
  Variable md_fields : md -> obj.

  Theorem model_json_index_sane : forall (encoder : option string) (h : hugr op md) (s : serial sop md),
    guard_b vports sports has_order h = true -> to_serial enc ndp md_is_nil h = Some s ->
    json_index_sane (doc_json op_fields md_fields encoder s) = true.
  Proof.
    intros e h s G Hs. apply index_sane_json.
    exact (proj2 (serial_index_sane op sop md enc ndp md_nil md_is_nil vports sports has_order ndp_spec h s G Hs)).
  Qed.

  (* port addressing in the JSON text: the `edges` member is, link by link, [[rank src, addr], [rank dst, addr]] with
     `addr` of spec/SerialHugrS.v (a numbered port by its own offset, the order port at value + static count) *)
  Theorem model_json_edges : forall (encoder : option string) (h : hugr op md) (s : serial sop md),
    guard_b vports sports has_order h = true -> to_serial enc ndp md_is_nil h = Some s ->
    jget "edges" (doc_json op_fields md_fields encoder s) =
    Some (JArr (map (fun l => edge_json (expected_edge vports sports h l)) (h_links h))).
  Proof.
    intros e h s G Hs.
    rewrite <- (map_map (expected_edge vports sports h) edge_json).
    rewrite <- (serial_port_addressing op sop md enc ndp md_nil md_is_nil vports sports has_order ndp_spec h s G Hs).
    reflexivity.
  Qed.
End ModelIndex.
