(* Proofs for C19. *)
From Coq Require Import ZArith List Bool Arith Lia.
Import ListNotations.
From HV Require Import lib.PyDict lib.Harness model.Shots spec.ShotsS.

Lemma tag_eqb_spec a b : reflect (a = b) (tag_eqb a b).
Proof. apply list_eqb_spec. exact Z.eqb_spec. Qed.
Lemma tag_eqb_refl a : tag_eqb a a = true.
Proof. destruct (tag_eqb_spec a a); congruence. Qed.

(* ---- list facts ---- *)
Lemma set_nth_length {A} (l : list A) i x : length (set_nth l i x) = length l.
Proof. revert i; induction l as [|a r IH]; intros [|i]; cbn; auto. Qed.
Lemma nth_set_nth {A} (l : list A) i x j d :
  nth j (set_nth l i x) d = if Nat.eqb i j && Nat.ltb i (length l) then x else nth j l d.
Proof.
  revert i j; induction l as [|a r IH]; intros i j; cbn.
  - rewrite andb_false_r. destruct i, j; reflexivity.
  - destruct i as [|i], j as [|j]; cbn; try reflexivity. rewrite IH. reflexivity.
Qed.
Lemma tabulate_eq (l : list bool) f n :
  length l = n -> (forall j, j < n -> nth j l false = f j) -> l = map f (seq 0 n).
Proof.
  intros Hl Hn. apply (nth_ext _ _ false false).
  - now rewrite map_length, seq_length.
  - intros j Hj. rewrite Hl in Hj. rewrite Hn by assumption.
    rewrite (nth_indep _ false (f 0)) by now rewrite map_length, seq_length.
    rewrite map_nth. now rewrite seq_nth.
Qed.
Lemma nth_tabulate (f : nat -> bool) n j : j < n -> nth j (map f (seq 0 n)) false = f j.
Proof. intros Hj. rewrite (nth_indep _ false (f 0)) by now rewrite map_length, seq_length.
       rewrite map_nth. now rewrite seq_nth. Qed.
Lemma nth_repeat_false n j : nth j (repeat false n) false = false.
Proof. revert j; induction n; intros [|j]; cbn; auto. Qed.

(* ---- the backwards reading ---- *)
Lemma bit_spec_beyond l j : len_spec l <= j -> bit_spec l j = false.
Proof.
  induction l as [|[w|i b] r IH]; cbn [len_spec bit_spec]; intros H; [reflexivity| now apply nth_overflow|].
  destruct (Nat.eqb_spec i j); [lia|]. apply IH. lia.
Qed.

Lemma writes_rev_snoc r ws name w :
  writes_rev r (ws ++ [(name, w)]) = if tag_eqb name r then w :: writes_rev r ws else writes_rev r ws.
Proof.
  unfold writes_rev. rewrite filter_app. cbn [filter fst]. destruct (tag_eqb name r).
  - rewrite map_app, rev_app_distr. reflexivity.
  - now rewrite app_nil_r.
Qed.

(* one whole-register write *)
Lemma reg_spec_whole ws name bs r :
  reg_spec (ws ++ [(name, Whole bs)]) r = if tag_eqb r name then Some bs else reg_spec ws r.
Proof.
  unfold reg_spec. rewrite writes_rev_snoc.
  destruct (tag_eqb_spec name r) as [->|Hne].
  - rewrite tag_eqb_refl. cbn [len_spec]. f_equal. symmetry. apply tabulate_eq; [reflexivity|]. reflexivity.
  - destruct (tag_eqb_spec r name); [congruence|reflexivity].
Qed.

(* one indexed write, in terms of the register's previous content *)
Definition tab (l : list wr) : option (list bool) :=
  match l with [] => None | _ => Some (map (bit_spec l) (seq 0 (len_spec l))) end.
Lemma reg_spec_tab ws r : reg_spec ws r = tab (writes_rev r ws).
Proof. unfold reg_spec, tab. destruct (writes_rev r ws); reflexivity. Qed.

Lemma cur_props l i : let cur := match tab l with Some c => c | None => repeat false (S i) end in
  (forall j, nth j cur false = bit_spec l j) /\ (length cur = len_spec l \/ (l = [] /\ length cur = S i)).
Proof.
  destruct l as [|w0 l0] eqn:El; cbn [tab].
  - split; [intros j; cbn [bit_spec]; apply nth_repeat_false|]. right. split; [reflexivity|]. now rewrite repeat_length.
  - rewrite <- El. cbn zeta. split; [|left; now rewrite map_length, seq_length].
    intros j. destruct (Nat.lt_ge_cases j (len_spec l)) as [Hj|Hj].
    + now apply nth_tabulate.
    + rewrite nth_overflow by now rewrite map_length, seq_length. symmetry. now apply bit_spec_beyond.
Qed.

Lemma idx_update l i b cur :
  (forall j, nth j cur false = bit_spec l j) -> (length cur = len_spec l \/ (l = [] /\ length cur = S i)) ->
  set_nth (if length cur <=? i then cur ++ repeat false (i - length cur + 1) else cur) i b
  = map (bit_spec (Idx i b :: l)) (seq 0 (len_spec (Idx i b :: l))).
Proof.
  intros Hnth Hlen.
  assert (Hlen' : length (if length cur <=? i then cur ++ repeat false (i - length cur + 1) else cur)
                  = Nat.max (S i) (len_spec l)).
  { destruct (Nat.leb_spec (length cur) i).
    - rewrite app_length, repeat_length. destruct Hlen as [H'|[-> H']]; cbn [len_spec]; lia.
    - destruct Hlen as [H'|[-> H']]; cbn [len_spec]; lia. }
  cbn [len_spec bit_spec]. apply tabulate_eq.
  - now rewrite set_nth_length.
  - intros j Hj. rewrite nth_set_nth, Hlen'.
    destruct (Nat.eqb_spec i j) as [->|Hij]; cbn [andb].
    + destruct (Nat.ltb_spec j (Nat.max (S j) (len_spec l))); [reflexivity|lia].
    + destruct (Nat.leb_spec (length cur) i); [|apply Hnth].
      destruct (Nat.lt_ge_cases j (length cur)).
      * rewrite app_nth1 by assumption. apply Hnth.
      * rewrite app_nth2 by assumption. rewrite nth_repeat_false. symmetry.
        rewrite <- Hnth. now apply nth_overflow.
Qed.

Lemma reg_spec_idx ws name i b r :
  reg_spec (ws ++ [(name, Idx i b)]) r =
  if tag_eqb r name then
    let cur := match reg_spec ws name with Some l => l | None => repeat false (S i) end in
    let cur' := if length cur <=? i then cur ++ repeat false (i - length cur + 1) else cur in
    Some (set_nth cur' i b)
  else reg_spec ws r.
Proof.
  rewrite !reg_spec_tab. rewrite writes_rev_snoc.
  destruct (tag_eqb_spec name r) as [->|Hne].
  2:{ destruct (tag_eqb_spec r name); [congruence|reflexivity]. }
  rewrite tag_eqb_refl. cbn zeta. cbn [tab]. f_equal. symmetry.
  destruct (cur_props (writes_rev r ws) i) as [H1 H2]. now apply idx_update.
Qed.

(* ---- the forward fold computes the backwards reading ---- *)
Definition Agrees (rb : regs) (ws : list (tag * wr)) : Prop :=
  NoDup (keys rb) /\ forall r, dget tag_eqb rb r = reg_spec ws r.

Lemma dget_dset_eq {V} (rb : list (tag * V)) name v r :
  dget tag_eqb (dset tag_eqb rb name v) r = if tag_eqb r name then Some v else dget tag_eqb rb r.
Proof.
  destruct (tag_eqb_spec r name) as [->|Hne].
  - apply (dget_dset_same tag_eqb tag_eqb_spec).
  - now apply (dget_dset_other tag_eqb tag_eqb_spec).
Qed.

Lemma write_agrees rb ws e tw : Agrees rb ws -> entry_write e = Ok tw ->
  exists rb', write rb e = Ok rb' /\ Agrees rb' (ws ++ [tw]).
Proof.
  intros [Hnd Hag] He. destruct e as [t d]. unfold entry_write in He. unfold write.
  destruct (parse_tag t) as [[name idx]|].
  - destruct (cast d) as [b|]; [|discriminate]. cbn in He. injection He as <-. cbn [bind].
    eexists. split; [reflexivity|]. split; [now apply (nodup_dset tag_eqb tag_eqb_spec)|].
    intros r. rewrite dget_dset_eq, reg_spec_idx. rewrite !Hag. reflexivity.
  - destruct d as [p|vs].
    + destruct (cast (DPrim p)) as [b|]; [|discriminate]. cbn in He. injection He as <-. cbn [bind].
      eexists. split; [reflexivity|]. split; [now apply (nodup_dset tag_eqb tag_eqb_spec)|].
      intros r. rewrite dget_dset_eq, reg_spec_whole. now rewrite Hag.
    + destruct (mapM cast vs) as [bs|]; [|discriminate]. cbn in He. injection He as <-. cbn [bind].
      eexists. split; [reflexivity|]. split; [now apply (nodup_dset tag_eqb tag_eqb_spec)|].
      intros r. rewrite dget_dset_eq, reg_spec_whole. now rewrite Hag.
Qed.

Lemma write_rejects rb e : entry_write e = ValueError -> write rb e = ValueError.
Proof.
  destruct e as [t d]. unfold entry_write, write. destruct (parse_tag t) as [[name idx]|].
  - destruct (cast d); [discriminate|reflexivity].
  - destruct d as [p|vs]; [destruct (cast (DPrim p))|destruct (mapM cast vs)]; try discriminate; reflexivity.
Qed.

Lemma fold_agrees es : forall rb ws0 ws, Agrees rb ws0 -> mapM entry_write es = Ok ws ->
  exists rb', foldM write es rb = Ok rb' /\ Agrees rb' (ws0 ++ ws).
Proof.
  induction es as [|e es IH]; intros rb ws0 ws Hag Hm; cbn in *.
  - injection Hm as <-. rewrite app_nil_r. eauto.
  - destruct (entry_write e) as [tw|] eqn:He; [|discriminate]. cbn in Hm.
    destruct (mapM entry_write es) as [ws'|] eqn:Hes; [|discriminate]. cbn in Hm. injection Hm as <-.
    destruct (write_agrees rb ws0 e tw Hag He) as (rb1 & Hw & Hag1). rewrite Hw. cbn [bind].
    destruct (IH rb1 (ws0 ++ [tw]) ws' Hag1 eq_refl) as (rb' & Hf & Hag').
    exists rb'. split; [assumption|]. now rewrite <- app_assoc in Hag'.
Qed.

Theorem bits_pointwise es ws : mapM entry_write es = Ok ws ->
  exists rb, to_register_bits es = Ok rb /\ NoDup (keys rb) /\ forall r, dget tag_eqb rb r = reg_spec ws r.
Proof.
  intros Hm. destruct (fold_agrees es [] [] ws) as (rb & Hf & Hnd & Hag); auto.
  - split; [constructor|]. intros r. reflexivity.
  - exists rb. auto.
Qed.

Lemma fold_rejects es : forall rb, mapM entry_write es = ValueError ->
  (forall rb0 e tw, entry_write e = Ok tw -> exists rb1, write rb0 e = Ok rb1) ->
  foldM write es rb = ValueError.
Proof.
  induction es as [|e es IH]; intros rb Hm Htot; cbn in *; [discriminate|].
  destruct (entry_write e) as [tw|] eqn:He.
  - destruct (Htot rb e tw He) as (rb1 & ->). cbn [bind]. apply IH; [|assumption].
    cbn in Hm. destruct (mapM entry_write es); [discriminate|reflexivity].
  - now rewrite write_rejects.
Qed.

Lemma write_total rb0 e tw : entry_write e = Ok tw -> exists rb1, write rb0 e = Ok rb1.
Proof.
  destruct e as [t d]. unfold entry_write, write. destruct (parse_tag t) as [[name idx]|].
  - destruct (cast d); [cbn; eauto|discriminate].
  - destruct d as [p|vs]; [destruct (cast (DPrim p))|destruct (mapM cast vs)]; try discriminate; cbn; eauto.
Qed.

(* a value that is not a bit is rejected with ValueError, and nothing else is *)
Theorem nonbit_rejected es : to_register_bits es = ValueError <-> mapM entry_write es = ValueError.
Proof.
  split.
  - intros H. destruct (mapM entry_write es) as [ws|] eqn:Hm; [|reflexivity].
    destruct (bits_pointwise es ws Hm) as (rb & Hr & _). congruence.
  - intros H. apply fold_rejects; [assumption|]. intros; eapply write_total; eassumption.
Qed.

(* every character produced is '0' or '1': bits are booleans in the model; the rendering is checked
   by the correspondence.  Length and content, explicitly: *)
Corollary bits_length_and_content es ws rb r s :
  mapM entry_write es = Ok ws -> to_register_bits es = Ok rb -> dget tag_eqb rb r = Some s ->
  writes_rev r ws <> [] /\ length s = len_spec (writes_rev r ws) /\
  forall j, j < length s -> nth j s false = bit_spec (writes_rev r ws) j.
Proof.
  intros Hm Hr Hg. destruct (bits_pointwise es ws Hm) as (rb' & Hr' & _ & Hag).
  assert (rb' = rb) by congruence. subst rb'. rewrite Hag in Hg. unfold reg_spec in Hg.
  destruct (writes_rev r ws) as [|w l] eqn:E; [discriminate|]. injection Hg as <-.
  split; [discriminate|]. rewrite map_length, seq_length. split; [reflexivity|].
  intros j Hj. now apply nth_tabulate.
Qed.

(* ---- collation ---- *)
Lemma collate_get es : forall d0 t,
  dget tag_eqb (fold_left (fun d e => dset tag_eqb d (fst e)
     (match dget tag_eqb d (fst e) with Some l => l | None => [] end ++ [snd e])) es d0) t =
  match values_of es t with
  | [] => dget tag_eqb d0 t
  | vs => Some (match dget tag_eqb d0 t with Some l => l | None => [] end ++ vs)
  end.
Proof.
  induction es as [|e es IH]; intros d0 t; cbn [fold_left values_of flat_map]; [reflexivity|].
  rewrite IH. rewrite dget_dset_eq. fold (values_of es t).
  destruct (tag_eqb_spec t (fst e)) as [->|Hne].
  - rewrite tag_eqb_refl. cbn [app]. destruct (values_of es (fst e)); [reflexivity|].
    now rewrite <- app_assoc.
  - destruct (tag_eqb_spec (fst e) t); [congruence|]. reflexivity.
Qed.

(* collated values of a tag are all its values of the shot in entry order *)
Theorem collate_in_entry_order es t :
  dget tag_eqb (collate es) t = match values_of es t with [] => None | vs => Some vs end.
Proof. unfold collate. rewrite collate_get. cbn. reflexivity. Qed.
