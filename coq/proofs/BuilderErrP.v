(* Proofs for C13: every inconsistency class is refused with its documented error, and only then. *)
From Coq Require Import ZArith NArith List Bool Arith Lia.
Import ListNotations.
From HV Require Import lib.Harness model.Tracked model.BuilderErr spec.BuilderErrS.

Lemma onat_eqb_spec a b : reflect (a = b) (onat_eqb a b).
Proof.
  destruct a as [x|], b as [y|]; cbn; try (constructor; congruence).
  destruct (Nat.eqb_spec x y); constructor; congruence.
Qed.

(* ------------------------------------------------------------------ hierarchy *)
Lemma parent_of_beyond pt n : length pt <= n -> parent_of pt n = None.
Proof. intros H. unfold parent_of. now rewrite (proj2 (nth_error_None pt n) H). Qed.
Lemma Anc_no_parent pt a n : parent_of pt n = None -> Anc pt a n -> a = n.
Proof. intros H HA. inversion HA; subst; [reflexivity|congruence]. Qed.

Lemma anc_sib_sound fuel : forall pt sp tgt a,
  anc_sib fuel pt sp tgt = Found a -> Anc pt a tgt /\ parent_of pt a = sp /\ sp <> None.
Proof.
  induction fuel as [|f IH]; intros pt sp tgt a H; cbn [anc_sib] in H; [discriminate|].
  destruct (parent_of pt tgt) as [tp|] eqn:E; [|discriminate].
  destruct (onat_eqb_spec (Some tp) sp) as [Heq|Hne].
  - inversion H; subst. split; [constructor|]. split; [exact E|discriminate].
  - apply IH in H as (HA & HP & HN). split; [exact (Anc_up pt a tgt tp E HA)|auto].
Qed.
Lemma anc_sib_complete fuel : forall pt s tgt a,
  ParentFirst pt -> tgt < fuel -> Anc pt a tgt -> parent_of pt a = Some s ->
  exists a', anc_sib fuel pt (Some s) tgt = Found a'.
Proof.
  induction fuel as [|f IH]; intros pt s tgt a WF Hf HA HP; [lia|]. cbn [anc_sib].
  destruct (parent_of pt tgt) as [tp|] eqn:E.
  - destruct (onat_eqb_spec (Some tp) (Some s)) as [Heq|Hne]; [eauto|].
    inversion HA; subst.
    + congruence.
    + assert (p = tp) by congruence. subst p. apply (IH pt s tp a WF); auto. apply WF in E. lia.
  - apply (Anc_no_parent _ _ _ E) in HA. subst. congruence.
Qed.
Lemma anc_sib_fuel fuel : forall pt sp tgt, ParentFirst pt -> tgt < fuel -> anc_sib fuel pt sp tgt <> Fuel.
Proof.
  induction fuel as [|f IH]; intros pt sp tgt WF Hf; [lia|]. cbn [anc_sib].
  destruct (parent_of pt tgt) as [tp|] eqn:E; [|discriminate].
  destruct (onat_eqb (Some tp) sp); [discriminate|]. apply IH; auto. apply WF in E. lia.
Qed.

Lemma ancestral_sibling_found pt src tgt : ParentFirst pt -> SiblingAncestor pt src tgt ->
  exists a, ancestral_sibling pt src tgt = Found a.
Proof.
  intros WF (a & sp & HA & Hs & Ha). unfold ancestral_sibling. rewrite Hs.
  destruct (Nat.lt_ge_cases tgt (length pt)) as [Hlt|Hge].
  - eapply anc_sib_complete; eauto.
  - pose proof (parent_of_beyond _ _ Hge) as E. apply (Anc_no_parent _ _ _ E) in HA. subst. congruence.
Qed.
Lemma ancestral_sibling_notfound pt src tgt : ParentFirst pt -> ~ SiblingAncestor pt src tgt ->
  ancestral_sibling pt src tgt = NotFound.
Proof.
  intros WF Hn. unfold ancestral_sibling.
  destruct (anc_sib (S (length pt)) pt (parent_of pt src) tgt) as [a| |] eqn:E; [|reflexivity|].
  - exfalso. apply anc_sib_sound in E as (HA & HP & HN). apply Hn.
    destruct (parent_of pt src) as [sp|] eqn:Es; [|congruence]. exists a, sp. auto.
  - exfalso. destruct (Nat.lt_ge_cases tgt (length pt)) as [Hlt|Hge].
    + revert E. apply anc_sib_fuel; auto.
    + cbn in E. rewrite (parent_of_beyond _ _ Hge) in E. discriminate.
Qed.
Lemma ancestral_sibling_sound pt src tgt a : ancestral_sibling pt src tgt = Found a -> SiblingAncestor pt src tgt.
Proof.
  unfold ancestral_sibling. intros E. apply anc_sib_sound in E as (HA & HP & HN).
  destruct (parent_of pt src) as [sp|] eqn:Es; [|congruence]. exists a, sp. auto.
Qed.

Lemma cfg_walk_sound fuel : forall pt cfg root sp x,
  cfg_walk fuel pt cfg root sp = Found x -> exists p, sp = Some p /\ Anc pt cfg p.
Proof.
  induction fuel as [|f IH]; intros pt cfg root sp x H; cbn [cfg_walk] in H; [discriminate|].
  destruct (onat_eqb_spec (Some cfg) sp) as [Heq|Hne].
  - exists cfg. split; [auto|constructor].
  - destruct sp as [p|]; [|discriminate]. destruct (Nat.eqb p root); [discriminate|].
    apply IH in H as (p' & Hp & HA). exists p. split; [reflexivity|]. exact (Anc_up pt cfg p p' Hp HA).
Qed.
Lemma cfg_walk_complete fuel : forall pt cfg root p,
  ParentFirst pt -> parent_of pt root = None -> p + 1 < fuel -> Anc pt cfg p ->
  cfg_walk fuel pt cfg root (Some p) = Found cfg.
Proof.
  induction fuel as [|f IH]; intros pt cfg root p WF Hroot Hf HA; [lia|]. cbn [cfg_walk].
  destruct (onat_eqb_spec (Some cfg) (Some p)) as [Heq|Hne]; [reflexivity|].
  inversion HA; subst; [congruence|].
  destruct (Nat.eqb_spec p root) as [->|Hr]; [congruence|].
  rewrite H. apply IH; auto. apply WF in H. lia.
Qed.
Lemma cfg_walk_fuel fuel : forall pt cfg root sp,
  ParentFirst pt -> match sp with Some p => p + 1 < fuel | None => 1 <= fuel end ->
  cfg_walk fuel pt cfg root sp <> Fuel.
Proof.
  induction fuel as [|f IH]; intros pt cfg root sp WF Hf; [destruct sp; lia|]. cbn [cfg_walk].
  destruct (onat_eqb (Some cfg) sp); [discriminate|].
  destruct sp as [p|]; [|discriminate]. destruct (Nat.eqb p root); [discriminate|].
  apply IH; auto. destruct (parent_of pt p) as [p'|] eqn:E; [apply WF in E; lia|lia].
Qed.
Lemma cfg_walk_top pt cfg root src : ParentFirst pt -> parent_of pt root = None ->
  (InsideCfg pt cfg src -> cfg_walk (S (S (length pt))) pt cfg root (parent_of pt src) = Found cfg) /\
  (~ InsideCfg pt cfg src -> cfg_walk (S (S (length pt))) pt cfg root (parent_of pt src) = NotFound).
Proof.
  intros WF Hroot. split.
  - intros (p & Hp & HA). rewrite Hp. destruct (Nat.lt_ge_cases p (length pt)) as [Hlt|Hge].
    + apply cfg_walk_complete; auto. lia.
    + pose proof (parent_of_beyond _ _ Hge) as E. apply (Anc_no_parent _ _ _ E) in HA. subst. cbn.
      now rewrite Nat.eqb_refl.
  - intros Hn. destruct (cfg_walk (S (S (length pt))) pt cfg root (parent_of pt src)) as [x| |] eqn:E; [|reflexivity|].
    + exfalso. apply Hn. apply cfg_walk_sound in E as (p & Hp & HA). exists p. auto.
    + exfalso. destruct (parent_of pt src) as [p|] eqn:Es.
      * destruct (Nat.lt_ge_cases p (length pt)) as [Hlt|Hge].
        -- revert E. apply cfg_walk_fuel; auto. lia.
        -- cbn in E. destruct (Nat.eqb cfg p); [discriminate|]. destruct (Nat.eqb p root); [discriminate|].
           rewrite (parent_of_beyond _ _ Hge) in E. discriminate.
      * cbn in E. discriminate.
Qed.

(* the boolean forms used by the monitor mean what the relations say *)
Lemma chain_Anc fuel : forall pt n a, In a (chain fuel pt n) -> Anc pt a n.
Proof.
  induction fuel as [|f IH]; intros pt n a H; cbn in H; [destruct H|].
  destruct H as [<-|H]; [constructor|].
  destruct (parent_of pt n) as [p|] eqn:E; [|destruct H]. exact (Anc_up pt a n p E (IH pt p a H)).
Qed.
Lemma Anc_chain fuel : forall pt n a, ParentFirst pt -> n < fuel -> Anc pt a n -> In a (chain fuel pt n).
Proof.
  induction fuel as [|f IH]; intros pt n a WF Hf HA; [lia|]. cbn.
  inversion HA; subst; [now left|]. right. rewrite H. apply IH; auto. apply WF in H. lia.
Qed.
Lemma Anc_ancestors pt n a : ParentFirst pt -> (Anc pt a n <-> In a (ancestors_or_self pt n)).
Proof.
  intros WF. unfold ancestors_or_self. split; [|apply chain_Anc].
  intros HA. destruct (Nat.lt_ge_cases n (length pt)) as [Hlt|Hge].
  - apply Anc_chain; auto.
  - pose proof (parent_of_beyond _ _ Hge) as E. apply (Anc_no_parent _ _ _ E) in HA. subst. cbn. now left.
Qed.
Lemma sibling_ancestor_b_spec pt src tgt : ParentFirst pt ->
  (sibling_ancestor_b pt src tgt = true <-> SiblingAncestor pt src tgt).
Proof.
  intros WF. unfold sibling_ancestor_b, SiblingAncestor. destruct (parent_of pt src) as [sp|].
  - rewrite existsb_exists. split.
    + intros (a & Hin & He). exists a, sp. rewrite Anc_ancestors by auto.
      destruct (onat_eqb_spec (parent_of pt a) (Some sp)); [auto|discriminate].
    + intros (a & sp' & HA & Hs & Ha). inversion Hs; subst sp'. exists a. rewrite <- Anc_ancestors by auto.
      split; [exact HA|]. rewrite Ha. destruct (onat_eqb_spec (Some sp) (Some sp)); congruence.
  - split; [discriminate|]. intros (a & sp & _ & H & _). discriminate.
Qed.
Lemma inside_cfg_b_spec pt cfg src : ParentFirst pt -> (inside_cfg_b pt cfg src = true <-> InsideCfg pt cfg src).
Proof.
  intros WF. unfold inside_cfg_b, InsideCfg. destruct (parent_of pt src) as [p|].
  - rewrite existsb_exists. split.
    + intros (a & Hin & He). apply Nat.eqb_eq in He. subst a. exists p. now rewrite Anc_ancestors.
    + intros (p' & Hp & HA). inversion Hp; subst p'. exists cfg. rewrite <- Anc_ancestors by auto.
      split; [exact HA|apply Nat.eqb_refl].
  - split; [discriminate|]. intros (p & H & _). discriminate.
Qed.

(* ------------------------------------------------------------------ wires *)
Theorem wire_no_relation_raises pt src tgt k : ParentFirst pt -> ~ SiblingAncestor pt src tgt ->
  wire_up_dfg pt src tgt k = Err NoSiblingAncestor.
Proof. intros WF Hn. unfold wire_up_dfg. now rewrite ancestral_sibling_notfound. Qed.
Theorem wire_with_relation_accepted pt src tgt : ParentFirst pt -> SiblingAncestor pt src tgt ->
  exists o, wire_up_dfg pt src tgt KValue = Ok o.
Proof.
  intros WF Hs. unfold wire_up_dfg. destruct (ancestral_sibling_found _ _ _ WF Hs) as [a ->]. cbn. eauto.
Qed.
Theorem non_dataflow_wire_raises pt src tgt k : ParentFirst pt -> SiblingAncestor pt src tgt ->
  NotDataflowPort k -> wire_up_dfg pt src tgt k = Err ValueError.
Proof.
  intros WF Hs Hk. unfold wire_up_dfg. destruct (ancestral_sibling_found _ _ _ WF Hs) as [a ->].
  destruct k; cbn; try reflexivity. now destruct Hk.
Qed.
(* the order edge recorded for an inter-graph wire goes from the source to the sibling ancestor *)
Theorem inter_graph_wire_order_edge pt src tgt o : wire_up_dfg pt src tgt KValue = Ok o ->
  match o with
  | None => parent_of pt tgt = parent_of pt src /\ parent_of pt src <> None
  | Some (s, a) => s = src /\ a <> tgt /\ Anc pt a tgt /\ parent_of pt a = parent_of pt src
  end.
Proof.
  unfold wire_up_dfg, ancestral_sibling.
  destruct (anc_sib (S (length pt)) pt (parent_of pt src) tgt) as [a| |] eqn:E; try discriminate.
  apply anc_sib_sound in E as (HA & HP & HN). cbn. intros H; inversion H; subst; clear H.
  destruct (Nat.eqb_spec a tgt) as [->|Hne]; auto.
Qed.

Theorem wire_outside_cfg_raises pt root cfg src tgt k :
  ParentFirst pt -> parent_of pt root = None ->
  ~ SiblingAncestor pt src tgt -> ~ InsideCfg pt cfg src ->
  wire_up_block pt root cfg src tgt k = Err NotInSameCfg.
Proof.
  intros WF Hr Hn Hc. unfold wire_up_block. rewrite ancestral_sibling_notfound by auto.
  now rewrite (proj2 (cfg_walk_top pt cfg root src WF Hr) Hc).
Qed.
Theorem wire_inside_cfg_accepted pt root cfg src tgt :
  ParentFirst pt -> parent_of pt root = None ->
  SiblingAncestor pt src tgt \/ InsideCfg pt cfg src ->
  exists o, wire_up_block pt root cfg src tgt KValue = Ok o.
Proof.
  intros WF Hr H. unfold wire_up_block.
  destruct (ancestral_sibling pt src tgt) as [a| |] eqn:E.
  - cbn. eauto.
  - destruct H as [Hs|Hc].
    + destruct (ancestral_sibling_found _ _ _ WF Hs) as [a Ha]. congruence.
    + rewrite (proj1 (cfg_walk_top pt cfg root src WF Hr) Hc). cbn. eauto.
  - exfalso. destruct (Nat.lt_ge_cases tgt (length pt)) as [Hlt|Hge].
    + revert E. unfold ancestral_sibling. apply anc_sib_fuel; auto.
    + unfold ancestral_sibling in E. cbn in E. rewrite (parent_of_beyond _ _ Hge) in E. discriminate.
Qed.
Theorem non_dataflow_wire_in_block_raises pt root cfg src tgt k :
  ParentFirst pt -> parent_of pt root = None ->
  SiblingAncestor pt src tgt \/ InsideCfg pt cfg src -> NotDataflowPort k ->
  wire_up_block pt root cfg src tgt k = Err ValueError.
Proof.
  intros WF Hr H Hk. unfold wire_up_block.
  assert (Hd : forall A (f : unit -> res A), rbind (dataflow_type k) f = Err ValueError)
    by (intros; destruct k; cbn; try reflexivity; now destruct Hk).
  destruct (ancestral_sibling pt src tgt) as [a| |] eqn:E.
  - apply Hd.
  - destruct H as [Hs|Hc].
    + destruct (ancestral_sibling_found _ _ _ WF Hs) as [a Ha]. congruence.
    + rewrite (proj1 (cfg_walk_top pt cfg root src WF Hr) Hc). apply Hd.
  - exfalso. destruct (Nat.lt_ge_cases tgt (length pt)) as [Hlt|Hge].
    + revert E. unfold ancestral_sibling. apply anc_sib_fuel; auto.
    + unfold ancestral_sibling in E. cbn in E. rewrite (parent_of_beyond _ _ Hge) in E. discriminate.
Qed.

(* a source without a parent (the root node of the HUGR) has no ancestor-sibling relation to anything and
   lies inside no CFG: every wire from it is refused, whatever the target and the kind of its port *)
Lemma parentless_no_relation pt src tgt : parent_of pt src = None -> ~ SiblingAncestor pt src tgt.
Proof. intros H (a & sp & _ & Hs & _). congruence. Qed.
Lemma parentless_not_inside pt cfg src : parent_of pt src = None -> ~ InsideCfg pt cfg src.
Proof. intros H (p & Hp & _). congruence. Qed.
Theorem parentless_source_raises pt src tgt k : ParentFirst pt -> parent_of pt src = None ->
  wire_up_dfg pt src tgt k = Err NoSiblingAncestor.
Proof. intros WF H. apply wire_no_relation_raises; auto using parentless_no_relation. Qed.
Theorem parentless_source_in_block_raises pt root cfg src tgt k :
  ParentFirst pt -> parent_of pt root = None -> parent_of pt src = None ->
  wire_up_block pt root cfg src tgt k = Err NotInSameCfg.
Proof.
  intros WF Hr H. apply wire_outside_cfg_raises; auto using parentless_no_relation, parentless_not_inside.
Qed.

(* ------------------------------------------------------------------ functions, calls *)
Theorem non_function_port_raises k : NotFunctionPort k ->
  exists e, fn_sig k = Err e /\ (k <> KInvalid -> e = ValueError).
Proof. intros H. destruct k; cbn; try (eexists; split; [reflexivity|auto]); try congruence. Qed.
Theorem function_port_accepted : fn_sig KFunction = Ok tt.
Proof. reflexivity. Qed.
Theorem poly_call_without_instantiation_raises np nt : np <> 0 -> call_or_load np false nt = Err NoConcreteFunc.
Proof. intros H. unfold call_or_load. destruct (Nat.eqb_spec np 0); [contradiction|reflexivity]. Qed.
Theorem poly_call_arg_count_raises np inst nt : np <> 0 -> nt <> np -> call_or_load np inst nt = Err NoConcreteFunc.
Proof.
  intros H Hn. unfold call_or_load. destruct (Nat.eqb_spec np 0); [contradiction|].
  destruct inst; cbn; [|reflexivity]. destruct (Nat.eqb_spec np nt); [congruence|reflexivity].
Qed.
Theorem call_accepted_iff np inst nt : call_or_load np inst nt = Ok tt <-> ~ NoMatchingInstantiation np inst nt.
Proof.
  unfold call_or_load, NoMatchingInstantiation. destruct (Nat.eqb_spec np 0) as [->|Hnp].
  - split; [intros _ [H _]; congruence|reflexivity].
  - destruct inst; cbn.
    + destruct (Nat.eqb_spec np nt) as [->|Hne]; cbn; split; try discriminate; try reflexivity.
      * intros _ [_ [H|H]]; congruence.
      * intros H. exfalso. apply H. split; [exact Hnp|right; congruence].
    + split; [discriminate|]. intros H. exfalso. apply H. auto.
Qed.

(* ------------------------------------------------------------------ integers as wires *)
Lemma all_wires_none_iff args : all_wires args = None <-> HasIntegerWire args.
Proof.
  unfold HasIntegerWire. induction args as [|[w|i] r IH]; cbn.
  - split; [discriminate|]. intros (i & []).
  - destruct (all_wires r) as [ws|].
    + split; [discriminate|]. intros (i & [H|H]); [discriminate|]. assert (Some ws = None) by (apply (proj2 IH); eauto). discriminate.
    + split; [|reflexivity]. intros _. destruct (proj1 IH eq_refl) as (i & Hi). exists i. now right.
  - split; [|reflexivity]. intros _. exists i. now left.
Qed.
Theorem int_wire_in_plain_dfg_raises h op m args : HasIntegerWire args -> dfg_add h op m args = (h, Some EValue).
Proof. intros H. unfold dfg_add. now rewrite (proj2 (all_wires_none_iff args) H). Qed.
Theorem wires_in_plain_dfg_accepted h op m args : ~ HasIntegerWire args ->
  exists ws, all_wires args = Some ws /\ dfg_add h op m args = add_op h op m ws.
Proof.
  intros H. unfold dfg_add. destruct (all_wires args) as [ws|] eqn:E; [eauto|].
  exfalso. apply H. now apply all_wires_none_iff.
Qed.
Theorem untracked_index_iff tr i : tracked_wire tr i = None <-> NamesUntrackedWire tr i.
Proof.
  unfold tracked_wire, NamesUntrackedWire. destruct (Z.ltb_spec i 0).
  - split; auto.
  - destruct (nth_error tr (Z.to_nat i)) as [[w|]|]; split; auto; try discriminate.
    intros [H1|[H1|H1]]; [lia|discriminate|discriminate].
Qed.
Lemma to_wires_untracked tr args i : In (AI i) args -> tracked_wire tr i = None -> to_wires tr args = None.
Proof.
  induction args as [|a r IH]; intros Hin Hn; [destruct Hin|]. cbn.
  destruct Hin as [->|Hin]; [cbn; now rewrite Hn|].
  destruct (to_wire tr a); [|reflexivity]. now rewrite IH.
Qed.
(* an integer that names no tracked wire: IndexError, nothing added, nothing rebound *)
Theorem untracked_index_raises h tr op m args i :
  In (AI i) args -> NamesUntrackedWire tr i -> t_add h tr op m args = (h, tr, Some EIndex).
Proof.
  intros Hin Hu. unfold t_add. rewrite (to_wires_untracked tr args i Hin); [reflexivity|].
  now apply untracked_index_iff.
Qed.
Theorem untracked_index_raises_untrack h tr i :
  NamesUntrackedWire tr i -> step h tr (Untrack i) = (h, tr, Some EIndex).
Proof. intros Hu. cbn. now rewrite (proj2 (untracked_index_iff tr i) Hu). Qed.
Theorem untracked_index_raises_outputs h tr args i :
  In (AI i) args -> NamesUntrackedWire tr i -> step h tr (SetIndexedOutputs args) = (h, tr, Some EIndex).
Proof.
  intros Hin Hu. cbn. rewrite (to_wires_untracked tr args i Hin); [reflexivity|]. now apply untracked_index_iff.
Qed.

Section Rows.
  Variable T : Type.
  Variable teqb : T -> T -> bool.
  Hypothesis teqb_spec : forall a b, reflect (a = b) (teqb a b).

  Lemma row_eqb_spec (a b : row T) : reflect (a = b) (row_eqb T teqb a b).
  Proof. apply list_eqb_spec. exact teqb_spec. Qed.

  (* ---------------------------------------------------------------- conditional *)
  Theorem case_out_of_range_raises (c : cond T) i : CaseOutOfRange c i -> add_case T c i = Err ConditionalError.
  Proof.
    unfold CaseOutOfRange, add_case. intros H.
    destruct (Z.ltb_spec i 0); [reflexivity|]. destruct (Z.leb_spec (Z.of_nat (length (c_built c))) i); [reflexivity|lia].
  Qed.
  Theorem case_twice_raises (c : cond T) i : CaseBuiltTwice c i -> add_case T c i = Err ConditionalError.
  Proof.
    unfold CaseBuiltTwice, add_case. intros [H0 Hn].
    destruct (Z.ltb_spec i 0); [reflexivity|]. destruct (Z.leb_spec (Z.of_nat (length (c_built c))) i); [reflexivity|].
    cbn. now rewrite (nth_error_nth _ _ false Hn).
  Qed.
  Lemma set_true_nth l : forall n, n < length l ->
    nth_error (set_true l n) n = Some true /\ (forall m, m <> n -> nth_error (set_true l n) m = nth_error l m) /\
    length (set_true l n) = length l.
  Proof.
    induction l as [|b r IH]; intros [|n] H; cbn in *; try lia.
    - split; [reflexivity|]. split; [|reflexivity]. intros [|m] Hm; [lia|reflexivity].
    - destruct (IH n ltac:(lia)) as (H1 & H2 & H3). split; [exact H1|]. split; [|now rewrite H3].
      intros [|m] Hm; [reflexivity|]. apply H2. lia.
  Qed.
  Theorem case_in_range_once_accepted (c : cond T) i : ~ CaseOutOfRange c i -> ~ CaseBuiltTwice c i ->
    exists c', add_case T c i = Ok c' /\ c_outs c' = c_outs c /\
               nth_error (c_built c') (Z.to_nat i) = Some true /\
               (forall m, m <> Z.to_nat i -> nth_error (c_built c') m = nth_error (c_built c) m).
  Proof.
    unfold CaseOutOfRange, CaseBuiltTwice, add_case. intros Hr Ht.
    destruct (Z.ltb_spec i 0); [exfalso; apply Hr; lia|].
    destruct (Z.leb_spec (Z.of_nat (length (c_built c))) i); [exfalso; apply Hr; lia|]. cbn.
    assert (Hlen : Z.to_nat i < length (c_built c)) by lia.
    destruct (nth (Z.to_nat i) (c_built c) false) eqn:En.
    - exfalso. apply Ht. split; [lia|]. rewrite (nth_error_nth' _ false Hlen). now rewrite En.
    - eexists. split; [reflexivity|]. cbn. destruct (set_true_nth (c_built c) _ Hlen) as (H1 & H2 & _). auto.
  Qed.
  Theorem case_mismatch_raises (c : cond T) r : CasesDisagree c r -> update_outputs T teqb c r = Err ConditionalError.
  Proof.
    intros (r0 & E & Hne). unfold update_outputs. rewrite E. destruct (row_eqb_spec r r0); [congruence|reflexivity].
  Qed.
  Theorem case_agreeing_accepted (c : cond T) r : ~ CasesDisagree c r ->
    exists c', update_outputs T teqb c r = Ok c' /\ c_outs c' = Some r /\ c_built c' = c_built c.
  Proof.
    intros H. unfold update_outputs, CasesDisagree in *. destruct (c_outs c) as [r0|] eqn:E.
    - destruct (row_eqb_spec r r0) as [->|Hne]; [exists c; auto|]. exfalso. apply H. exists r0. split; congruence.
    - eexists. split; [reflexivity|]. auto.
  Qed.
  Theorem exit_with_unbuilt_raises (c : cond T) : UnbuiltCases c -> cond_exit T c = Err ConditionalError.
  Proof.
    unfold UnbuiltCases, cond_exit. intros H.
    destruct (forallb (fun b : bool => b) (c_built c)) eqn:E; [|reflexivity].
    rewrite forallb_forall in E. specialize (E _ H). discriminate.
  Qed.
  Theorem exit_all_built_accepted (c : cond T) : ~ UnbuiltCases c -> cond_exit T c = Ok c.
  Proof.
    unfold UnbuiltCases, cond_exit. intros H.
    destruct (forallb (fun b : bool => b) (c_built c)) eqn:E; [reflexivity|].
    exfalso. apply H. clear H. induction (c_built c) as [|b r IH]; [discriminate|].
    cbn in E. destruct b; [right; auto|now left].
  Qed.
  Theorem else_twice_raises (c : cond T) : CaseBuiltTwice c 0%Z -> add_else T (Some c) = Err ConditionalError.
  Proof. intros H. cbn. now apply case_twice_raises. Qed.

  (* a refused call leaves the conditional as it was: the session goes on from the same state *)
  Theorem refused_cond_call_changes_nothing (c : cond T) o os e :
    cond_step T teqb c o = Err e ->
    cond_run T teqb c (o :: os) = (Some e :: fst (cond_run T teqb c os), snd (cond_run T teqb c os)).
  Proof. intros H. cbn. rewrite H. now destruct (cond_run T teqb c os). Qed.

  (* ---------------------------------------------------------------- builders as context managers *)
  (* __exit__ of DfBase / Cfg returns None: the `with` statement hands on whatever the body did *)
  Lemma with_stmt_plain fl : with_stmt fl plain_exit = fl.
  Proof. destruct fl; reflexivity. Qed.
  Theorem with_plain_transparent n fl : with_plain n fl = fl.
  Proof. induction n as [|n IH]; cbn [with_plain]; [reflexivity|]. rewrite IH. apply with_stmt_plain. Qed.
  (* an exception in flight is suppressed exactly by a true return value of __exit__ *)
  Theorem with_stmt_suppresses_iff e x : with_stmt (Some e) x = None <-> x = Ok true.
  Proof. destruct x as [[|]|e']; cbn; split; intros H; congruence. Qed.

  Lemma cond_exit_err (c : cond T) e : cond_exit T c = Err e -> e = ConditionalError /\ UnbuiltCases c.
  Proof.
    unfold cond_exit, UnbuiltCases. destruct (forallb (fun b : bool => b) (c_built c)) eqn:E; [discriminate|].
    intros H. split; [congruence|]. clear H. induction (c_built c) as [|b r IH]; [discriminate|].
    cbn in E. destruct b; [right; auto|now left].
  Qed.
  Lemma cond_body_accepted (c : cond T) os c1 : Accepted teqb c os c1 -> cond_body T teqb c os = (c1, None).
  Proof. induction 1 as [c|c o c1 r c2 H _ IH]; cbn; [reflexivity|]. now rewrite H. Qed.
  Lemma cond_body_raises (c : cond T) body c1 e : RaisesInside teqb c body c1 e -> cond_body T teqb c body = (c1, Some e).
  Proof.
    intros (pre & o & post & -> & Ha & He). revert He.
    induction Ha as [c|c o' c1 r c2 H _ IH]; intros He; cbn; [now rewrite He|]. rewrite H. now apply IH.
  Qed.
  (* the two predicates exhaust what a body can do *)
  Lemma cond_body_cases (c : cond T) body :
    match cond_body T teqb c body with
    | (c1, None) => Accepted teqb c body c1
    | (c1, Some e) => RaisesInside teqb c body c1 e
    end.
  Proof.
    revert c. induction body as [|o r IH]; intros c; cbn; [constructor|].
    destruct (cond_step T teqb c o) as [c'|e] eqn:E.
    - specialize (IH c'). destruct (cond_body T teqb c' r) as [c1 [e|]].
      + destruct IH as (pre & o1 & post & -> & Ha & He). exists (o :: pre), o1, post.
        split; [reflexivity|]. split; [econstructor; eauto|exact He].
      + econstructor; eauto.
    - exists [], o, r. split; [reflexivity|]. split; [constructor|exact E].
  Qed.
  Lemma with_nest_state (c : cond T) ctxs body : fst (with_nest T teqb c ctxs body) = fst (cond_body T teqb c body).
  Proof.
    induction ctxs as [|k r IH]; cbn; [reflexivity|]. destruct (with_nest T teqb c r body) as [c' fl]. exact IH.
  Qed.

  (* an error raised inside the body of `with` blocks reaches the caller of the outermost one: as the error
     that was raised, or as the ConditionalError of a Conditional context left with unbuilt cases *)
  Theorem error_in_context_reaches_caller (c : cond T) body c1 e ctxs : RaisesInside teqb c body c1 e ->
    exists e', with_nest T teqb c ctxs body = (c1, Some e') /\
               (e' = e \/ (e' = ConditionalError /\ In CxCond ctxs /\ UnbuiltCases c1)).
  Proof.
    intros H. apply cond_body_raises in H. induction ctxs as [|k r IH]; cbn.
    - exists e. auto.
    - destruct IH as (e1 & -> & Hd). destruct k; cbn.
      + exists e1. split; [reflexivity|]. destruct Hd as [->|(-> & Hi & Hu)]; [now left|right; cbn; auto].
      + unfold cond_ctx_exit. destruct (cond_exit T c1) as [c2|e2] eqn:E; cbn.
        * exists e1. split; [reflexivity|]. destruct Hd as [->|(-> & Hi & Hu)]; [now left|right; cbn; auto].
        * destruct (cond_exit_err _ _ E) as [-> Hu]. exists ConditionalError. split; [reflexivity|]. right. cbn. auto.
  Qed.
  (* a Conditional context left with unbuilt cases raises, whatever the body did *)
  Theorem context_left_with_unbuilt_raises (c : cond T) body c1 ctxs :
    Accepted teqb c body c1 \/ (exists e, RaisesInside teqb c body c1 e) ->
    In CxCond ctxs -> UnbuiltCases c1 -> with_nest T teqb c ctxs body = (c1, Some ConditionalError).
  Proof.
    intros Hb Hi Hu.
    assert (Hs : fst (cond_body T teqb c body) = c1).
    { destruct Hb as [Ha|[e Hr]]; [now rewrite (cond_body_accepted _ _ _ Ha)|now rewrite (cond_body_raises _ _ _ _ Hr)]. }
    clear Hb. induction ctxs as [|k r IH]; [destruct Hi|]. cbn.
    destruct (with_nest T teqb c r body) as [c' fl] eqn:E.
    assert (c' = c1) as -> by (rewrite <- Hs, <- (with_nest_state c r body), E; reflexivity).
    destruct k; cbn.
    - destruct Hi as [Hi|Hi]; [discriminate|]. specialize (IH Hi). inversion IH. reflexivity.
    - unfold cond_ctx_exit. now rewrite (exit_with_unbuilt_raises _ Hu).
  Qed.
  (* no spurious refusal: a body of accepted calls inside contexts that have nothing to object to *)
  Theorem consistent_block_accepted (c : cond T) body c1 ctxs : Accepted teqb c body c1 ->
    (In CxCond ctxs -> ~ UnbuiltCases c1) -> with_nest T teqb c ctxs body = (c1, None).
  Proof.
    intros Ha Hn. apply cond_body_accepted in Ha. induction ctxs as [|k r IH]; cbn; [exact Ha|].
    rewrite IH by (intros Hi; apply Hn; now right). destruct k; cbn; [reflexivity|].
    unfold cond_ctx_exit. rewrite exit_all_built_accepted by (apply Hn; now left). reflexivity.
  Qed.
  (* a session of plain statements is the session of caught calls *)
  Theorem stmt_run_plain (c : cond T) os : stmt_run T teqb c (map plain_stmt os) = cond_run T teqb c os.
  Proof.
    revert c. induction os as [|o r IH]; intros c; cbn; [reflexivity|].
    destruct (cond_step T teqb c o) as [c'|e]; rewrite IH; reflexivity.
  Qed.

  (* ---------------------------------------------------------------- exit type, declared outputs *)
  Theorem exit_mismatch_raises (exit : option (row T)) out : ExitDisagrees exit out ->
    branch_exit T teqb exit out = Err MismatchedExit.
  Proof. intros (r0 & -> & Hne). cbn. destruct (row_eqb_spec r0 out); [congruence|reflexivity]. Qed.
  Theorem exit_agreeing_accepted (exit : option (row T)) out : ~ ExitDisagrees exit out ->
    branch_exit T teqb exit out = Ok (Some out).
  Proof.
    intros H. unfold ExitDisagrees in H. destruct exit as [r0|]; cbn; [|reflexivity].
    destruct (row_eqb_spec r0 out) as [->|Hne]; [reflexivity|]. exfalso. apply H. eauto.
  Qed.
  Theorem declared_outputs_mismatch_raises (d : option (row T)) given : OutputsDiffer d given ->
    fn_set_outputs T teqb d given = Err ValueError.
  Proof. intros (r0 & -> & Hne). cbn. destruct (row_eqb_spec given r0); [congruence|reflexivity]. Qed.
  Theorem declared_outputs_agreeing_accepted (d : option (row T)) given : ~ OutputsDiffer d given ->
    fn_set_outputs T teqb d given = Ok tt.
  Proof.
    intros H. unfold OutputsDiffer in H. destruct d as [r0|]; cbn; [|reflexivity].
    destruct (row_eqb_spec given r0) as [->|Hne]; [reflexivity|]. exfalso. apply H. exists r0. split; congruence.
  Qed.

  (* ---------------------------------------------------------------- incomplete operations *)
  Lemma check_complete_iff (o : opfields T) : check_complete T o = Err IncompleteOp <-> In None o.
  Proof.
    unfold check_complete. induction o as [|[r|] rest IH]; cbn.
    - split; [discriminate|intros []].
    - destruct (forallb _ rest); split; intros H; try discriminate.
      + destruct H as [H|H]; [discriminate|]. now apply IH.
      + right. now apply IH.
      + reflexivity.
    - split; [now left|reflexivity].
  Qed.
  Lemma check_complete_cases (o : opfields T) : check_complete T o = Ok tt \/ check_complete T o = Err IncompleteOp.
  Proof. unfold check_complete. destruct (forallb _ o); auto. Qed.
  Theorem incomplete_op_serialise_raises (nodes : list (opfields T)) :
    Incomplete nodes <-> serialise T nodes = Err IncompleteOp.
  Proof.
    unfold Incomplete. induction nodes as [|o r IH]; cbn.
    - split; [intros (o & [] & _)|discriminate].
    - destruct (check_complete_cases o) as [E|E]; rewrite E; cbn.
      + rewrite <- IH. split.
        * intros (o' & [<-|Hin] & Hn); [|eauto]. apply check_complete_iff in Hn. congruence.
        * intros (o' & Hin & Hn). exists o'. split; [now right|exact Hn].
      + split; [reflexivity|]. intros _. exists o. split; [now left|]. now apply check_complete_iff.
  Qed.
  Theorem complete_ops_serialise (nodes : list (opfields T)) : ~ Incomplete nodes -> serialise T nodes = Ok tt.
  Proof.
    intros H. destruct (serialise T nodes) as [[]|e] eqn:E; [reflexivity|]. exfalso. apply H.
    apply incomplete_op_serialise_raises. rewrite E. f_equal.
    clear H. revert e E. induction nodes as [|o r IH]; intros e E; cbn in E; [discriminate|].
    destruct (check_complete_cases o) as [Ec|Ec]; rewrite Ec in E; cbn in E; [eauto|congruence].
  Qed.

  (* ---------------------------------------------------------------- all classes together *)
  Inductive call :=
  | CWireDfg (pt : ptable) (src tgt : nat) (k : pkind)
  | CWireBlock (pt : ptable) (root cfg src tgt : nat) (k : pkind)
  | CAddCase (c : cond T) (i : Z)
  | CCaseOutputs (c : cond T) (r : row T)
  | CCondExit (c : cond T)
  | CBranchExit (exit : option (row T)) (out : row T)
  | CFnOutputs (declared : option (row T)) (given : row T)
  | CCall (k : pkind) (nparams : nat) (inst : bool) (ntargs : nat)
  | CPlainAdd (args : list arg)
  | CTrackedIndex (tr : tracked) (i : Z)
  | CSerialise (nodes : list (opfields T)).

  Definition status {A} (r : res A) : option eclass := match r with Ok _ => None | Err e => Some e end.
  Definition decide (c : call) : option eclass :=
    match c with
    | CWireDfg pt src tgt k => status (wire_up_dfg pt src tgt k)
    | CWireBlock pt root cfg src tgt k => status (wire_up_block pt root cfg src tgt k)
    | CAddCase c i => status (add_case T c i)
    | CCaseOutputs c r => status (update_outputs T teqb c r)
    | CCondExit c => status (cond_exit T c)
    | CBranchExit e o => status (branch_exit T teqb e o)
    | CFnOutputs d g => status (fn_set_outputs T teqb d g)
    | CCall k np inst nt => status (dfg_call k np inst nt)
    | CPlainAdd args => status (plain_add_decision args)
    | CTrackedIndex tr i => status (tracked_index_decision tr i)
    | CSerialise nodes => status (serialise T nodes)
    end.
  (* the inconsistency the property text names for each call, and the error documented for it *)
  Definition Inconsistent (c : call) : Prop :=
    match c with
    | CWireDfg pt src tgt k => ~ SiblingAncestor pt src tgt \/ NotDataflowPort k
    | CWireBlock pt root cfg src tgt k =>
        (~ SiblingAncestor pt src tgt /\ ~ InsideCfg pt cfg src) \/ NotDataflowPort k
    | CAddCase c i => CaseOutOfRange c i \/ CaseBuiltTwice c i
    | CCaseOutputs c r => CasesDisagree c r
    | CCondExit c => UnbuiltCases c
    | CBranchExit e o => ExitDisagrees e o
    | CFnOutputs d g => OutputsDiffer d g
    | CCall k np inst nt => NotFunctionPort k \/ NoMatchingInstantiation np inst nt
    | CPlainAdd args => HasIntegerWire args
    | CTrackedIndex tr i => NamesUntrackedWire tr i
    | CSerialise nodes => Incomplete nodes
    end.
  Definition WellFormed (c : call) : Prop :=
    match c with
    | CWireDfg pt _ _ _ => ParentFirst pt
    | CWireBlock pt root _ _ _ _ => ParentFirst pt /\ parent_of pt root = None
    | _ => True
    end.
  Definition documented (c : call) (e : eclass) : Prop :=
    match c with
    | CWireDfg _ _ _ _ => e = NoSiblingAncestor \/ e = ValueError
    | CWireBlock _ _ _ _ _ _ => e = NotInSameCfg \/ e = ValueError
    | CAddCase _ _ | CCaseOutputs _ _ | CCondExit _ => e = ConditionalError
    | CBranchExit _ _ => e = MismatchedExit
    | CFnOutputs _ _ => e = ValueError
    | CCall _ _ _ _ => e = ValueError \/ e = InvalidPort \/ e = NoConcreteFunc
    | CPlainAdd _ => e = ValueError
    | CTrackedIndex _ _ => e = IndexError
    | CSerialise _ => e = IncompleteOp
    end.

  Lemma sib_dec pt src tgt : ParentFirst pt -> SiblingAncestor pt src tgt \/ ~ SiblingAncestor pt src tgt.
  Proof.
    intros WF. destruct (sibling_ancestor_b pt src tgt) eqn:E.
    - left. now apply sibling_ancestor_b_spec.
    - right. intros H. apply sibling_ancestor_b_spec in H; auto. congruence.
  Qed.
  Lemma incfg_dec pt cfg src : ParentFirst pt -> InsideCfg pt cfg src \/ ~ InsideCfg pt cfg src.
  Proof.
    intros WF. destruct (inside_cfg_b pt cfg src) eqn:E.
    - left. now apply inside_cfg_b_spec.
    - right. intros H. apply inside_cfg_b_spec in H; auto. congruence.
  Qed.
  Lemma kvalue_dec k : k = KValue \/ NotDataflowPort k.
  Proof. destruct k; auto; right; discriminate. Qed.

  (* an inconsistent call is refused with a documented error; a consistent one is not refused *)
  Theorem error_is_not_silent (c : call) : WellFormed c ->
    (Inconsistent c -> exists e, decide c = Some e /\ documented c e) /\
    (~ Inconsistent c -> decide c = None).
  Proof.
    destruct c as [pt src tgt k|pt root cfg src tgt k|c i|c r|c|ex o|d g|k np inst nt|args|tr i|nodes]; cbn; intros WF.
    - destruct (sib_dec pt src tgt WF) as [Hs|Hs].
      + destruct (kvalue_dec k) as [->|Hk].
        * split; [intros [H|H]; [contradiction|now destruct H]|].
          intros _. destruct (wire_with_relation_accepted pt src tgt WF Hs) as [o ->]. reflexivity.
        * split; [|intros H; exfalso; apply H; now right].
          intros _. rewrite (non_dataflow_wire_raises pt src tgt k WF Hs Hk). cbn. eauto.
      + split; [|intros H; exfalso; apply H; now left].
        intros _. rewrite (wire_no_relation_raises pt src tgt k WF Hs). cbn. eauto.
    - destruct WF as [WF Hr]. destruct (sib_dec pt src tgt WF) as [Hs|Hs]; [|destruct (incfg_dec pt cfg src WF) as [Hc|Hc]].
      + destruct (kvalue_dec k) as [->|Hk].
        * split; [intros [[H _]|H]; [contradiction|now destruct H]|].
          intros _. destruct (wire_inside_cfg_accepted pt root cfg src tgt WF Hr (or_introl Hs)) as [o ->]. reflexivity.
        * split; [|intros H; exfalso; apply H; now right].
          intros _. rewrite (non_dataflow_wire_in_block_raises pt root cfg src tgt k WF Hr (or_introl Hs) Hk). cbn. eauto.
      + destruct (kvalue_dec k) as [->|Hk].
        * split; [intros [[_ H]|H]; [contradiction|now destruct H]|].
          intros _. destruct (wire_inside_cfg_accepted pt root cfg src tgt WF Hr (or_intror Hc)) as [o ->]. reflexivity.
        * split; [|intros H; exfalso; apply H; now right].
          intros _. rewrite (non_dataflow_wire_in_block_raises pt root cfg src tgt k WF Hr (or_intror Hc) Hk). cbn. eauto.
      + split; [|intros H; exfalso; apply H; now left].
        intros _. rewrite (wire_outside_cfg_raises pt root cfg src tgt k WF Hr Hs Hc). cbn. eauto.
    - split.
      + intros [H|H]; [rewrite case_out_of_range_raises|rewrite case_twice_raises]; cbn; eauto.
      + intros H. destruct (case_in_range_once_accepted c i) as (c' & -> & _); auto.
    - split.
      + intros H. rewrite case_mismatch_raises; cbn; eauto.
      + intros H. destruct (case_agreeing_accepted c r H) as (c' & -> & _). reflexivity.
    - split.
      + intros H. rewrite exit_with_unbuilt_raises; cbn; eauto.
      + intros H. now rewrite exit_all_built_accepted.
    - split.
      + intros H. rewrite exit_mismatch_raises; cbn; eauto.
      + intros H. now rewrite exit_agreeing_accepted.
    - split.
      + intros H. rewrite declared_outputs_mismatch_raises; cbn; eauto.
      + intros H. now rewrite declared_outputs_agreeing_accepted.
    - unfold dfg_call. split.
      + intros [H|H].
        * destruct (non_function_port_raises k H) as (e & Hf & He). rewrite Hf. cbn. exists e. split; [reflexivity|].
          destruct k; try (left; apply He; discriminate). right; left.
          cbn in Hf. congruence.
        * destruct k; cbn; eauto.
          destruct (call_or_load np inst nt) as [[]|e] eqn:E.
          -- exfalso. now apply (proj1 (call_accepted_iff np inst nt) E).
          -- cbn. exists e. split; [reflexivity|]. right; right.
             unfold call_or_load in E. destruct (Nat.eqb np 0); [discriminate|].
             destruct (negb inst); [congruence|]. destruct (negb (Nat.eqb np nt)); congruence.
      + intros H. assert (k = KFunction) as -> by (destruct k; auto; exfalso; apply H; left; discriminate).
        cbn. rewrite (proj2 (call_accepted_iff np inst nt)); [reflexivity|]. intros Hn. apply H. now right.
    - unfold plain_add_decision. split.
      + intros H. rewrite (proj2 (all_wires_none_iff args) H). cbn. eauto.
      + intros H. destruct (all_wires args) eqn:E; [reflexivity|]. exfalso. apply H. now apply all_wires_none_iff.
    - unfold tracked_index_decision. split.
      + intros H. rewrite (proj2 (untracked_index_iff tr i) H). cbn. eauto.
      + intros H. destruct (tracked_wire tr i) eqn:E; [reflexivity|]. exfalso. apply H. now apply untracked_index_iff.
    - split.
      + intros H. rewrite (proj1 (incomplete_op_serialise_raises nodes) H). cbn. eauto.
      + intros H. now rewrite complete_ops_serialise.
  Qed.
End Rows.

(* ---- non-vacuity: a hierarchy with nested regions and a CFG ---- *)
(* 0 root(DFG) ; 1 In 2 Out ; 3 nested DFG (parent 0); 4 In 5 Out (parent 3); 6 CFG (parent 3);
   7 block (parent 6); 8 In 9 Out (parent 7); 10 nested DFG inside the block (parent 7); 11 op in 10;
   12 second block (parent 6); 13 op in 12;  14 another nested DFG under the root; 15 op in 14 *)
Definition ex_pt : ptable :=
  [None; Some 0; Some 0; Some 0; Some 3; Some 3; Some 3; Some 6; Some 7; Some 7; Some 7; Some 10; Some 6; Some 12; Some 0; Some 14].
Example ex_parent_first : ParentFirst ex_pt.
Proof.
  intros n p H. unfold parent_of in H. do 16 (destruct n as [|n]; [cbn in H; try discriminate; inversion H; lia|]).
  cbn in H. destruct n; discriminate.
Qed.
Example ex_wires :
  wire_up_dfg ex_pt 1 11 KValue = Ok (Some (1, 3)) /\           (* root input -> deep inside: order edge to node 3 *)
  wire_up_dfg ex_pt 15 11 KValue = Err NoSiblingAncestor /\     (* from inside a sibling region *)
  wire_up_block ex_pt 0 6 13 11 KValue = Ok None /\             (* block to block inside the same CFG *)
  wire_up_block ex_pt 0 6 15 11 KValue = Err NotInSameCfg /\
  wire_up_dfg ex_pt 4 11 KFunction = Err ValueError.
Proof. vm_compute. repeat split. Qed.
(* the root node as the source (seeded round 2): refused from a deep target, from a block of a CFG, also
   when the target's walk ends at the root itself; a container's own output wired into its body has the
   relation as the code defines it (the container is its own sibling) and gets the order edge (3, 3) *)
Example ex_root_source :
  wire_up_dfg ex_pt 0 11 KValue = Err NoSiblingAncestor /\
  wire_up_dfg ex_pt 0 1 KValue = Err NoSiblingAncestor /\
  wire_up_block ex_pt 0 6 0 11 KValue = Err NotInSameCfg /\
  wire_up_dfg ex_pt 3 11 KValue = Ok (Some (3, 3)) /\
  sibling_ancestor_b ex_pt 0 11 = false /\ inside_cfg_b ex_pt 6 0 = false.
Proof. vm_compute. repeat split. Qed.

(* builders as context managers (seeded round 4).  Both cases of a conditional are requested inside `with cond:`
   (and `with case:`), the second one's outputs disagree: the ConditionalError leaves the block; a block that
   builds one case of two is refused on exit; the consistent block is accepted; and what the model excludes: an
   __exit__ returning a true value would swallow the error *)
Example ex_with_cond :
  with_nest nat Nat.eqb (mkCond [false; false] None) [CxCond; CxPlain]
    [OAddCase 0%Z; OSetOutputs [1]; OAddCase 1%Z; OSetOutputs [2]]
    = (mkCond [true; true] (Some [1]), Some ConditionalError) /\
  with_nest nat Nat.eqb (mkCond [false; false] None) [CxPlain; CxCond] [OAddCase 0%Z; OSetOutputs [1]]
    = (mkCond [true; false] (Some [1]), Some ConditionalError) /\
  with_nest nat Nat.eqb (mkCond [false; false] None) [CxCond]
    [OAddCase 1%Z; OSetOutputs [1]; OAddCase 0%Z; OSetOutputs [1]] = (mkCond [true; true] (Some [1]), None) /\
  RaisesInside Nat.eqb (mkCond [false; false] None) [OAddCase 0%Z; OSetOutputs [1]; OAddCase 1%Z; OSetOutputs [2]]
    (mkCond [true; true] (Some [1])) ConditionalError /\
  with_stmt (Some ConditionalError) (Ok true) = None.
Proof.
  vm_compute. repeat split.
  exists [OAddCase 0%Z; OSetOutputs [1]; OAddCase 1%Z], (OSetOutputs [2]), []. split; [reflexivity|]. split; [|reflexivity].
  repeat (econstructor; [reflexivity|]). constructor.
Qed.
