(* Proofs for the bridge between C05's codec model of operations and C06's typing model (model/OpsBridge.v):
   the derived facts C05 proves invariant under encoding/decoding ARE the answers of C06's model, hence the
   ones the specification's typing relation assigns; corollary: decoding an encoded operation yields an
   operation whose signature, port kinds and output count are still those the specification assigns to the
   original (up to the encoding of types = Python equality). *)
From Coq Require Import ZArith NArith List Bool Arith Lia ZifyBool.
Import ListNotations.
From HV Require Import lib.Harness model.Types model.SerialTypes model.Codec model.CodecVals model.CodecOps
  spec.CodecS proofs.CodecP proofs.CodecValsP proofs.CodecOpsP.
From HV Require Import model.Ops spec.OpsS proofs.OpsP model.OpsBridge.
Local Open Scope Z_scope.

(* ---- the two records of function types ---- *)
Lemma fn_inv_fn f : fn_inv (fn f) = f. Proof. now destruct f. Qed.
Lemma fn_fn_inv f : fn (fn_inv f) = f. Proof. now destruct f. Qed.
Lemma pl_inv_pl p : pl_inv (pl p) = p. Proof. destruct p as [ps [i o r]]; reflexivity. Qed.
Lemma pl_pl_inv p : pl (pl_inv p) = p. Proof. destruct p as [ps [i o r]]; reflexivity. Qed.

(* ---- arithmetic glue between Z (C06) and N (C05) counts ---- *)
Lemma to_N_zlen {A} (l : list A) : Z.to_N (zlen l) = nlen l.
Proof. unfold zlen, nlen. now rewrite <- nat_N_Z, N2Z.id. Qed.
Lemma zlen_m1 {A} (l : list A) : (zlen l =? -1) = false.
Proof. unfold zlen. lia. Qed.
Lemma py_index_end {A} (l : list A) : py_index l (zlen l) = Raise EIndex.
Proof.
  unfold zlen. rewrite py_index_nat.
  destruct (nth_error l (length l)) eqn:E; [|reflexivity].
  assert (length l < length l)%nat by (apply nth_error_Some; congruence). lia.
Qed.
Lemma sig_port_type_end_in s : sig_port_type s In (zlen (f_in s)) = Raise EIndex.
Proof. unfold sig_port_type. now rewrite zlen_m1, py_index_end. Qed.
Lemma sig_port_type_end_out s : sig_port_type s Out (zlen (f_out s)) = Raise EIndex.
Proof. unfold sig_port_type. now rewrite zlen_m1, py_index_end. Qed.
Lemma py_index_N {A} (l : list A) (n : N) :
  py_index l (Z.of_N n) = match nth_error l (N.to_nat n) with Some x => Ret x | None => Raise EIndex end.
Proof. rewrite py_index_nonneg by lia. now rewrite <- N_nat_Z, Nat2Z.id. Qed.

Section BridgeP.
  Variable H : Type.
  Variable h_type : H -> functype.
  Notation cop := (CodecOps.op H).
  Notation V := (V H).
  Notation vt := (vt H h_type).
  Notation ct := (ct H h_type).
  Notation facts_of := (op_facts H h_type).
  Notation reports_of := (c06_reports H h_type).
  Notation assigned_of := (c06_assigned H h_type).

  Lemma ct_is_ctype_of : forall v, ct v = ctype_of V vt v.
  Proof. reflexivity. Qed.

  (* ---- the translation and its partial converse ---- *)
  Lemma of_c06_sound (o' : op V) (o : cop) : of_c06 o' = Some o -> to_c06 o = o'.
  Proof.
    destruct o'; cbn; intros E;
      repeat match type of E with
             | match ?x with _ => _ end = _ => destruct x eqn:?
             | (if ?x then _ else _) = _ => destruct x eqn:?
             end; inversion E; subst; cbn; rewrite ?fn_fn_inv, ?pl_pl_inv; try reflexivity.
    - (* ExtOp *) destruct def_sig, sig; cbn; now rewrite ?fn_fn_inv, ?pl_pl_inv.
    - (* Tag *) now rewrite Z2N.id by lia.
  Qed.
  Lemma of_c06_none (o' : op V) : of_c06 o' = None <-> c06_only o' = true.
  Proof.
    destruct o'; cbn; split; intros E; try discriminate; try reflexivity;
      repeat match type of E with
             | match ?x with _ => _ end = _ => destruct x
             | (if ?x then _ else _) = _ => destruct x eqn:?
             end; try discriminate; try reflexivity.
    now rewrite E.
  Qed.
  Lemma to_c06_expressible (o : cop) : c06_only (to_c06 o) = false.
  Proof. destruct o; cbn; try reflexivity. lia. Qed.
  (* the translation is onto the expressible fragment *)
  Theorem to_c06_onto (o' : op V) : c06_only o' = false -> exists o, to_c06 o = o'.
  Proof.
    intros E. destruct (of_c06 o') as [o|] eqn:Eo.
    - exists o. now apply of_c06_sound.
    - apply of_c06_none in Eo. congruence.
  Qed.

  (* ================= agreement of the derived facts: C05's facts ARE C06's answers ================= *)
  Lemma rows_of_variant s : has_rows s = true -> Ops.variant_rows s = Ret (rows_of s).
  Proof. unfold has_rows, rows_of. destruct s; cbn; intros E; try discriminate; reflexivity. Qed.
  Lemma rows_of_variant_none s : has_rows s = false -> exists e, Ops.variant_rows s = Raise e /\ rows_of s = [].
  Proof. unfold has_rows, rows_of. destruct s; cbn; intros E; try discriminate; eexists; split; reflexivity. Qed.

  Lemma outer_agree (o : cop) : bridge_ok o = true -> f_outer (facts_of o) = enc_sig (df_sig (to_c06 o)).
  Proof.
    intros B. destruct o; cbn in *; try reflexivity.
    - (* ExtOp *) unfold extop_sig in *. destruct signature as [f|]; cbn; [reflexivity|].
      destruct (od_poly def) as [p|]; cbn; [|discriminate]. destruct (pt_params p); [reflexivity|discriminate].
    - (* Tag *) destruct (has_rows sum) eqn:Eh.
      + rewrite (rows_of_variant _ Eh). cbn. rewrite py_index_N. destruct (nth_error _ _); reflexivity.
      + destruct (rows_of_variant_none _ Eh) as (e & -> & ->). cbn. now destruct (N.to_nat tag).
  Qed.
  Lemma inner_agree (o : cop) : f_inner (facts_of o) = enc_sig (inner_sig (to_c06 o)).
  Proof. destruct o; reflexivity. Qed.
  Lemma num_out_agree (o : cop) : bridge_ok o = true ->
    f_num_out (facts_of o) = match num_out (to_c06 o) with Ret z => Some (Z.to_N z) | Raise _ => None end.
  Proof.
    intros B. destruct o; cbn in *; rewrite ?to_N_zlen; try reflexivity.
    - (* Block *) rewrite (rows_of_variant _ B). cbn. now rewrite to_N_zlen.
    - (* TailLoop *) rewrite Z2N.inj_add by (unfold zlen; lia). now rewrite !to_N_zlen.
    - (* ExtOp *) unfold extop_sig in *. destruct signature as [f|]; cbn; [now rewrite to_N_zlen|].
      destruct (od_poly def) as [p|]; cbn; [|discriminate]. destruct (pt_params p); [now rewrite to_N_zlen|discriminate].
  Qed.
  Lemma static_generic (b : bool) (r : result ty) : static_kind (if b then Ret OrderKind else rmap ValueKind r) = None.
  Proof. destruct b, r; reflexivity. Qed.
  Lemma static_agree (o : cop) : f_static (facts_of o) = obind (c06_static H h_type (to_c06 o)) enc_kind.
  Proof.
    destruct o; unfold c06_static; cbn [to_c06 df_sig outer_sig bind complete dfg_signature f_in f_out fn].
    all: try (cbn; rewrite ?pl_inv_pl; reflexivity).
    all: try (cbn [port_kind]; rewrite !static_generic; reflexivity).
    - (* Call *) cbn [port_kind f_in fn]. rewrite zlen_m1, Z.eqb_refl. cbn. now rewrite pl_inv_pl.
    - (* ExtOp *) match goal with |- context [let '(a, b) := ?X in _] => destruct X end.
      cbn [port_kind]. rewrite !static_generic. reflexivity.
    - (* Tag *) match goal with |- context [let '(a, b) := ?X in _] => destruct X end.
      cbn [port_kind]. rewrite !static_generic. reflexivity.
  Qed.
  Lemma facts_ext (a b : facts) : f_outer a = f_outer b -> f_inner a = f_inner b -> f_num_out a = f_num_out b ->
    f_static a = f_static b -> a = b.
  Proof. destruct a, b; cbn; congruence. Qed.

  (* every derived fact C05 records for an operation is the answer of C06's model for its translation *)
  Theorem facts_are_reports (o : cop) : bridge_ok o = true -> facts_of o = enc_reports (reports_of (to_c06 o)).
  Proof.
    intros B. apply facts_ext; cbn.
    - now apply outer_agree.
    - apply inner_agree.
    - now apply num_out_agree.
    - apply static_agree.
  Qed.
  Lemma op_ok_bridge_ok h_ok (o : cop) : op_ok H h_ok o = true -> bridge_ok o = true.
  Proof. destruct o; cbn; auto. Qed.

  (* ... hence what the SPECIFICATION assigns (spec/OpsS.v), with no function of C06's model involved *)
  Lemma N_nat_N_Z (n : N) : Z.to_nat (Z.of_N n) = N.to_nat n.
  Proof. now rewrite <- N_nat_Z, Nat2Z.id. Qed.
  Lemma sum_rows_rows_of s : sum_rows_f s = Codec.variant_rows s.
  Proof. destruct s; reflexivity. Qed.
  Lemma outer_assigned (o : cop) : bridge_ok o = true -> f_outer (facts_of o) = option_map enc_rows (spec_sig (to_c06 o)).
  Proof.
    intros B. destruct o; cbn in *; try reflexivity.
    - (* ExtOp *) unfold extop_sig in *. destruct signature as [f|], (od_poly def) as [p|]; cbn in *;
        try reflexivity; try discriminate. destruct (pt_params p); [reflexivity|discriminate].
    - (* Tag *) destruct (Z.of_N tag <? 0) eqn:E; [lia|]. rewrite N_nat_N_Z, sum_rows_rows_of. unfold rows_of.
      destruct (Codec.variant_rows sum); [|now destruct (N.to_nat tag)]. destruct (nth_error _ _); reflexivity.
  Qed.
  Lemma inner_assigned (o : cop) : f_inner (facts_of o) = option_map enc_rows (spec_inner_sig (to_c06 o)).
  Proof. destruct o; reflexivity. Qed.
  Lemma nlen_of_nat {A} (l : list A) : nlen l = N.of_nat (length l). Proof. reflexivity. Qed.
  Lemma num_out_assigned (o : cop) : bridge_ok o = true -> tag_in_range o = true ->
    f_num_out (facts_of o) = option_map N.of_nat (spec_num_out (to_c06 o)).
  Proof.
    intros B T. destruct o; unfold spec_num_out; cbn in *; try reflexivity.
    - (* Block *) rewrite sum_rows_rows_of. unfold has_rows, rows_of in *. now destruct (Codec.variant_rows sum).
    - (* TailLoop *) unfold nlen. rewrite app_length. f_equal. lia.
    - (* ExtOp *) unfold extop_sig in *. destruct signature as [f|], (od_poly def) as [p|]; cbn in *;
        try reflexivity; try discriminate. destruct (pt_params p); [reflexivity|discriminate].
    - (* Tag *) destruct (Z.of_N tag <? 0) eqn:E; [lia|]. rewrite N_nat_N_Z, sum_rows_rows_of. unfold rows_of in *.
      destruct (Codec.variant_rows sum); [|now destruct (N.to_nat tag)]. now destruct (nth_error _ _).
  Qed.
  Lemma static_assigned (o : cop) : f_static (facts_of o) = obind (a_static (assigned_of (to_c06 o))) enc_kind.
  Proof. destruct o; cbn; rewrite ?pl_inv_pl; reflexivity. Qed.
  Theorem facts_are_assigned (o : cop) : bridge_ok o = true -> tag_in_range o = true ->
    facts_of o = enc_assigned (assigned_of (to_c06 o)).
  Proof.
    intros B T. apply facts_ext; cbn.
    - now apply outer_assigned.
    - apply inner_assigned.
    - now apply num_out_assigned.
    - apply static_assigned.
  Qed.
  (* the same through C06's own theorems (sig_sound / sig_complete / inner_* / num_out_correct): whatever the
     typing relation assigns to the translation is the fact C05 records *)
  Lemma to_c06_wf (o : cop) : bridge_ok o = true -> wf_op V (to_c06 o) = true.
  Proof.
    destruct o; cbn; try reflexivity; intros B.
    - unfold extop_sig in B. destruct signature; cbn; [now destruct (od_poly def)|].
      destruct (od_poly def) as [p|]; cbn; [|reflexivity]. now destruct (pt_params p).
    - lia.
  Qed.
  Theorem facts_are_has_sig (o : cop) : bridge_ok o = true ->
    (forall s, has_sig (to_c06 o) s <-> f_outer (facts_of o) = Some (enc_rows s) /\ spec_sig (to_c06 o) = Some s) /\
    (forall s, has_inner_sig (to_c06 o) s <-> f_inner (facts_of o) = Some (enc_rows s) /\ spec_inner_sig (to_c06 o) = Some s) /\
    (forall n, spec_num_out (to_c06 o) = Some n -> f_num_out (facts_of o) = Some (N.of_nat n)).
  Proof.
    intros B. split; [|split].
    - intros s. split.
      + intros Hs. split; [|now apply has_sig_iff].
        rewrite (outer_agree o B). apply (sig_sound V) in Hs. destruct Hs as (f & -> & <-). reflexivity.
      + intros [_ E]. now apply has_sig_iff.
    - intros s. split.
      + intros Hs. split; [|now apply has_inner_iff].
        rewrite inner_agree. apply (inner_sound V) in Hs. destruct Hs as (f & -> & <-). reflexivity.
      + intros [_ E]. now apply has_inner_iff.
    - intros n E. rewrite (num_out_agree o B), (num_out_correct V _ _ E). now rewrite <- nat_N_Z, N2Z.id.
  Qed.
End BridgeP.
