(* Proofs for the bridge between C05's codec model of operations and C06's typing model (model/OpsBridge.v):
   the derived facts C05 proves invariant under encoding/decoding ARE the answers of C06's model, hence the
   ones the specification's typing relation assigns; corollary: decoding an encoded operation yields an
   operation whose signature, port kinds and output count are still those the specification assigns to the
   original (up to the encoding of types = Python equality). *)
From Coq Require Import ZArith NArith List Bool Arith Lia ZifyBool.
Import ListNotations.
From HV Require Import lib.Harness model.Types model.SerialTypes model.Codec model.CodecVals model.CodecOps
  spec.CodecS proofs.CodecP proofs.CodecValsP proofs.CodecOpsP.
From HV Require Import model.Ops spec.OpsS proofs.OpsP model.OpsBridge.
Local Open Scope Z_scope.

(* ---- the two records of function types ---- *)
Lemma fn_inv_fn f : fn_inv (fn f) = f. Proof. now destruct f. Qed.
Lemma fn_fn_inv f : fn (fn_inv f) = f. Proof. now destruct f. Qed.
Lemma pl_inv_pl p : pl_inv (pl p) = p. Proof. destruct p as [ps [i o r]]; reflexivity. Qed.
Lemma pl_pl_inv p : pl (pl_inv p) = p. Proof. destruct p as [ps [i o r]]; reflexivity. Qed.

(* ---- arithmetic glue between Z (C06) and N (C05) counts ---- *)
Lemma to_N_zlen {A} (l : list A) : Z.to_N (zlen l) = nlen l.
Proof. unfold zlen, nlen. now rewrite <- nat_N_Z, N2Z.id. Qed.
Lemma zlen_m1 {A} (l : list A) : (zlen l =? -1) = false.
Proof. unfold zlen. lia. Qed.
Lemma py_index_end {A} (l : list A) : py_index l (zlen l) = Raise EIndex.
Proof.
  unfold zlen. rewrite py_index_nat.
  destruct (nth_error l (length l)) eqn:E; [|reflexivity].
  assert (length l < length l)%nat by (apply nth_error_Some; congruence). lia.
Qed.
Lemma sig_port_type_end_in s : sig_port_type s In (zlen (f_in s)) = Raise EIndex.
Proof. unfold sig_port_type. now rewrite zlen_m1, py_index_end. Qed.
Lemma sig_port_type_end_out s : sig_port_type s Out (zlen (f_out s)) = Raise EIndex.
Proof. unfold sig_port_type. now rewrite zlen_m1, py_index_end. Qed.
Lemma py_index_N {A} (l : list A) (n : N) :
  py_index l (Z.of_N n) = match nth_error l (N.to_nat n) with Some x => Ret x | None => Raise EIndex end.
Proof. rewrite py_index_nonneg by lia. now rewrite <- N_nat_Z, Nat2Z.id. Qed.

Lemma map_eq_Forall2 {A B} (f : A -> B) (a b : list A) : map f a = map f b -> Forall2 (fun x y => f x = f y) a b.
Proof.
  revert b. induction a as [|x a IH]; intros [|y b] E; cbn in E; try discriminate; constructor.
  - now inversion E.
  - apply IH. now inversion E.
Qed.
Lemma Forall2_nth {A} (R : A -> A -> Prop) (a b : list A) (i : nat) : Forall2 R a b ->
  match nth_error a i, nth_error b i with Some x, Some y => R x y | None, None => True | _, _ => False end.
Proof.
  intros F. revert i. induction F as [|x y a b Hxy F IH]; intros [|i]; cbn; auto. apply IH.
Qed.

Lemma Forall2_len {A} (R : A -> A -> Prop) (a b : list A) : Forall2 R a b -> length a = length b.
Proof. induction 1; cbn; congruence. Qed.

Section BridgeP.
  Variable H : Type.
  Variable h_type : H -> functype.
  Notation cop := (CodecOps.op H).
  Notation V := (V H).
  Notation vt := (vt H h_type).
  Notation ct := (ct H h_type).
  Notation facts_of := (op_facts H h_type).
  Notation reports_of := (c06_reports H h_type).
  Notation assigned_of := (c06_assigned H h_type).

  Lemma ct_is_ctype_of : forall v, ct v = ctype_of V vt v.
  Proof. reflexivity. Qed.

  (* ---- the translation and its partial converse ---- *)
  Lemma of_c06_sound (o' : op V) (o : cop) : of_c06 o' = Some o -> to_c06 o = o'.
  Proof.
    destruct o'; cbn; intros E;
      repeat match type of E with
             | match ?x with _ => _ end = _ => destruct x eqn:?
             | (if ?x then _ else _) = _ => destruct x eqn:?
             end; inversion E; subst; cbn; rewrite ?fn_fn_inv, ?pl_pl_inv; try reflexivity.
    - (* ExtOp *) destruct def_sig, sig; cbn; now rewrite ?fn_fn_inv, ?pl_pl_inv.
    - (* Tag *) now rewrite Z2N.id by lia.
  Qed.
  Lemma of_c06_none (o' : op V) : of_c06 o' = None <-> c06_only o' = true.
  Proof.
    destruct o'; cbn; split; intros E; try discriminate; try reflexivity;
      repeat match type of E with
             | match ?x with _ => _ end = _ => destruct x
             | (if ?x then _ else _) = _ => destruct x eqn:?
             end; try discriminate; try reflexivity.
    now rewrite E.
  Qed.
  Lemma to_c06_expressible (o : cop) : c06_only (to_c06 o) = false.
  Proof. destruct o; cbn; try reflexivity. lia. Qed.
  (* the translation is onto the expressible fragment *)
  Theorem to_c06_onto (o' : op V) : c06_only o' = false -> exists o, to_c06 o = o'.
  Proof.
    intros E. destruct (of_c06 o') as [o|] eqn:Eo.
    - exists o. now apply of_c06_sound.
    - apply of_c06_none in Eo. congruence.
  Qed.

  (* ================= agreement of the derived facts: C05's facts ARE C06's answers ================= *)
  Lemma rows_of_variant s : has_rows s = true -> Ops.variant_rows s = Ret (rows_of s).
  Proof. unfold has_rows, rows_of. destruct s; cbn; intros E; try discriminate; reflexivity. Qed.
  Lemma rows_of_variant_none s : has_rows s = false -> exists e, Ops.variant_rows s = Raise e /\ rows_of s = [].
  Proof. unfold has_rows, rows_of. destruct s; cbn; intros E; try discriminate; eexists; split; reflexivity. Qed.

  Lemma outer_agree (o : cop) : bridge_ok o = true -> f_outer (facts_of o) = enc_sig (df_sig (to_c06 o)).
  Proof.
    intros B. destruct o; cbn in *; try reflexivity.
    - (* ExtOp *) unfold extop_sig in *. destruct signature as [f|]; cbn; [reflexivity|].
      destruct (od_poly def) as [p|]; cbn; [|discriminate]. destruct (pt_params p); [reflexivity|discriminate].
    - (* Tag *) destruct (has_rows sum) eqn:Eh.
      + rewrite (rows_of_variant _ Eh). cbn. rewrite py_index_N. destruct (nth_error _ _); reflexivity.
      + destruct (rows_of_variant_none _ Eh) as (e & -> & ->). cbn. now destruct (N.to_nat tag).
  Qed.
  Lemma inner_agree (o : cop) : f_inner (facts_of o) = enc_sig (inner_sig (to_c06 o)).
  Proof. destruct o; reflexivity. Qed.
  Lemma num_out_agree (o : cop) : bridge_ok o = true ->
    f_num_out (facts_of o) = match num_out (to_c06 o) with Ret z => Some (Z.to_N z) | Raise _ => None end.
  Proof.
    intros B. destruct o; cbn in *; rewrite ?to_N_zlen; try reflexivity.
    - (* Block *) rewrite (rows_of_variant _ B). cbn. now rewrite to_N_zlen.
    - (* TailLoop *) rewrite Z2N.inj_add by (unfold zlen; lia). now rewrite !to_N_zlen.
    - (* ExtOp *) unfold extop_sig in *. destruct signature as [f|]; cbn; [now rewrite to_N_zlen|].
      destruct (od_poly def) as [p|]; cbn; [|discriminate]. destruct (pt_params p); [now rewrite to_N_zlen|discriminate].
  Qed.
  Lemma static_generic (b : bool) (r : result ty) : static_kind (if b then Ret OrderKind else rmap ValueKind r) = None.
  Proof. destruct b, r; reflexivity. Qed.
  Lemma static_agree (o : cop) : f_static (facts_of o) = obind (c06_static H h_type (to_c06 o)) enc_kind.
  Proof.
    destruct o; unfold c06_static; cbn [to_c06 df_sig outer_sig bind complete dfg_signature f_in f_out fn].
    all: try (cbn; rewrite ?pl_inv_pl; reflexivity).
    all: try (cbn [port_kind]; rewrite !static_generic; reflexivity).
    - (* Call *) cbn [port_kind f_in fn]. rewrite zlen_m1, Z.eqb_refl. cbn. now rewrite pl_inv_pl.
    - (* ExtOp *) match goal with |- context [let '(a, b) := ?X in _] => destruct X end.
      cbn [port_kind]. rewrite !static_generic. reflexivity.
    - (* Tag *) match goal with |- context [let '(a, b) := ?X in _] => destruct X end.
      cbn [port_kind]. rewrite !static_generic. reflexivity.
  Qed.
  Lemma facts_ext (a b : facts) : f_outer a = f_outer b -> f_inner a = f_inner b -> f_num_out a = f_num_out b ->
    f_static a = f_static b -> a = b.
  Proof. destruct a, b; cbn; congruence. Qed.

  (* every derived fact C05 records for an operation is the answer of C06's model for its translation *)
  Theorem facts_are_reports (o : cop) : bridge_ok o = true -> facts_of o = enc_reports (reports_of (to_c06 o)).
  Proof.
    intros B. apply facts_ext; cbn.
    - now apply outer_agree.
    - apply inner_agree.
    - now apply num_out_agree.
    - apply static_agree.
  Qed.
  Lemma op_ok_bridge_ok h_ok (o : cop) : op_ok H h_ok o = true -> bridge_ok o = true.
  Proof. destruct o; cbn; auto. Qed.

  (* ... hence what the SPECIFICATION assigns (spec/OpsS.v), with no function of C06's model involved *)
  Lemma N_nat_N_Z (n : N) : Z.to_nat (Z.of_N n) = N.to_nat n.
  Proof. now rewrite <- N_nat_Z, Nat2Z.id. Qed.
  Lemma sum_rows_rows_of s : sum_rows_f s = Codec.variant_rows s.
  Proof. destruct s; reflexivity. Qed.
  Lemma outer_assigned (o : cop) : bridge_ok o = true -> f_outer (facts_of o) = option_map enc_rows (spec_sig (to_c06 o)).
  Proof.
    intros B. destruct o; cbn in *; try reflexivity.
    - (* ExtOp *) unfold extop_sig in *. destruct signature as [f|], (od_poly def) as [p|]; cbn in *;
        try reflexivity; try discriminate. destruct (pt_params p); [reflexivity|discriminate].
    - (* Tag *) destruct (Z.of_N tag <? 0) eqn:E; [lia|]. rewrite N_nat_N_Z, sum_rows_rows_of. unfold rows_of.
      destruct (Codec.variant_rows sum); [|now destruct (N.to_nat tag)]. destruct (nth_error _ _); reflexivity.
  Qed.
  Lemma inner_assigned (o : cop) : f_inner (facts_of o) = option_map enc_rows (spec_inner_sig (to_c06 o)).
  Proof. destruct o; reflexivity. Qed.
  Lemma nlen_of_nat {A} (l : list A) : nlen l = N.of_nat (length l). Proof. reflexivity. Qed.
  Lemma num_out_assigned (o : cop) : bridge_ok o = true -> tag_in_range o = true ->
    f_num_out (facts_of o) = option_map N.of_nat (spec_num_out (to_c06 o)).
  Proof.
    intros B T. destruct o; unfold spec_num_out; cbn in *; try reflexivity.
    - (* Block *) rewrite sum_rows_rows_of. unfold has_rows, rows_of in *. now destruct (Codec.variant_rows sum).
    - (* TailLoop *) unfold nlen. rewrite app_length. f_equal. lia.
    - (* ExtOp *) unfold extop_sig in *. destruct signature as [f|], (od_poly def) as [p|]; cbn in *;
        try reflexivity; try discriminate. destruct (pt_params p); [reflexivity|discriminate].
    - (* Tag *) destruct (Z.of_N tag <? 0) eqn:E; [lia|]. rewrite N_nat_N_Z, sum_rows_rows_of. unfold rows_of in *.
      destruct (Codec.variant_rows sum); [|now destruct (N.to_nat tag)]. now destruct (nth_error _ _).
  Qed.
  Lemma static_assigned (o : cop) : f_static (facts_of o) = obind (a_static (assigned_of (to_c06 o))) enc_kind.
  Proof. destruct o; cbn; rewrite ?pl_inv_pl; reflexivity. Qed.
  Theorem facts_are_assigned (o : cop) : bridge_ok o = true -> tag_in_range o = true ->
    facts_of o = enc_assigned (assigned_of (to_c06 o)).
  Proof.
    intros B T. apply facts_ext; cbn.
    - now apply outer_assigned.
    - apply inner_assigned.
    - now apply num_out_assigned.
    - apply static_assigned.
  Qed.
  (* the same through C06's own theorems (sig_sound / sig_complete / inner_* / num_out_correct): whatever the
     typing relation assigns to the translation is the fact C05 records *)
  Lemma to_c06_wf (o : cop) : bridge_ok o = true -> wf_op V (to_c06 o) = true.
  Proof.
    destruct o; cbn; try reflexivity; intros B.
    - unfold extop_sig in B. destruct signature; cbn; [now destruct (od_poly def)|].
      destruct (od_poly def) as [p|]; cbn; [|reflexivity]. now destruct (pt_params p).
    - lia.
  Qed.
  Theorem facts_are_has_sig (o : cop) : bridge_ok o = true ->
    (forall s, has_sig (to_c06 o) s <-> f_outer (facts_of o) = Some (enc_rows s) /\ spec_sig (to_c06 o) = Some s) /\
    (forall s, has_inner_sig (to_c06 o) s <-> f_inner (facts_of o) = Some (enc_rows s) /\ spec_inner_sig (to_c06 o) = Some s) /\
    (forall n, spec_num_out (to_c06 o) = Some n -> f_num_out (facts_of o) = Some (N.of_nat n)).
  Proof.
    intros B. split; [|split].
    - intros s. split.
      + intros Hs. split; [|now apply has_sig_iff].
        rewrite (outer_agree o B). apply (sig_sound V) in Hs. destruct Hs as (f & -> & <-). reflexivity.
      + intros [_ E]. now apply has_sig_iff.
    - intros s. split.
      + intros Hs. split; [|now apply has_inner_iff].
        rewrite inner_agree. apply (inner_sound V) in Hs. destruct Hs as (f & -> & <-). reflexivity.
      + intros [_ E]. now apply has_inner_iff.
    - intros n E. rewrite (num_out_agree o B), (num_out_correct V _ _ E). now rewrite <- nat_N_Z, N2Z.id.
  Qed.

  (* ================= the port classification of the specification through a few views of the operation ========= *)
  Definition is_cf (o : op V) : bool := match o with OBlock _ _ _ _ | OExit _ => true | _ => false end.
  Definition spk_view (ord : bool) (sg : option rows) (st : option kind) (site df cf : bool) (cfn : option nat)
             (d : dir) (z : Z) : pspec :=
    if z =? -1 then (if ord then Port OrderKind else NoPort)
    else if z <? 0 then Unspecified
    else
      let i := Z.to_nat z in
      match sg with
      | Some (ins, outs) =>
          let row := match d with In => ins | Out => outs end in
          match nth_error row i with
          | Some t => Port (ValueKind t)
          | None => if Nat.eqb i (length row) then
                      match st with Some k => Port k | None => if site then Unspecified else NoPort end
                    else NoPort
          end
      | None =>
          if df then Unspecified
          else if cf then match cfn with Some n => if Nat.ltb i n then Port CFKind else NoPort | None => Unspecified end
          else if Nat.eqb i 0 then match st with Some k => Port k | None => if site then Unspecified else NoPort end
          else NoPort
      end.
  Lemma spk_is_view (o : op V) d z :
    spec_port_kind ct o d z =
    spk_view (has_order_port o d) (spec_sig o) (static_port ct o d) (static_site o d) (dataflow_node o) (is_cf o)
             (cf_ports o d) d z.
  Proof.
    unfold spec_port_kind, spk_view. destruct (z =? -1); [reflexivity|]. destruct (z <? 0); [reflexivity|].
    destruct o; reflexivity.
  Qed.

  Definition rows2_same (a b : rows) : Prop := Forall2 ty_same (fst a) (fst b) /\ Forall2 ty_same (snd a) (snd b).
  Definition opt_rel {A} (R : A -> A -> Prop) (a b : option A) : Prop :=
    match a, b with Some x, Some y => R x y | None, None => True | _, _ => False end.
  Lemma spk_view_same ord sg sg' st st' site df cf cfn d z :
    opt_rel rows2_same sg sg' -> opt_rel kind_same st st' ->
    pspec_same (spk_view ord sg st site df cf cfn d z) (spk_view ord sg' st' site df cf cfn d z).
  Proof.
    intros Hsg Hst. unfold spk_view.
    destruct (z =? -1); [destruct ord; exact I|]. destruct (z <? 0); [exact I|].
    assert (Hstat : pspec_same match st with Some k => Port k | None => if site then Unspecified else NoPort end
                               match st' with Some k => Port k | None => if site then Unspecified else NoPort end).
    { destruct st, st'; cbn in Hst; try contradiction; [exact Hst|destruct site; exact I]. }
    destruct sg as [[i o]|], sg' as [[i' o']|]; cbn in Hsg; try contradiction.
    - destruct Hsg as [Hi Ho]. cbn [fst snd] in Hi, Ho.
      assert (Hrow : Forall2 ty_same (match d with In => i | Out => o end) (match d with In => i' | Out => o' end))
        by (destruct d; assumption).
      pose proof (Forall2_nth _ _ _ (Z.to_nat z) Hrow) as Hn. pose proof (Forall2_len _ _ _ Hrow) as Hl.
      cbv zeta. destruct (nth_error _ _), (nth_error _ _); try contradiction; [exact Hn|].
      rewrite Hl. destruct (Nat.eqb _ _); [exact Hstat|exact I].
    - destruct df; [exact I|]. destruct cf.
      + destruct cfn; [|exact I]. destruct (Nat.ltb _ _); exact I.
      + destruct (Nat.eqb _ _); [exact Hstat|exact I].
  Qed.
End BridgeP.

(* ================= encoding and decoding preserve what the specification assigns ================= *)
Section CodecBridge.
  Variables H SH : Type.
  Variable h_enc : H -> SH.
  Variable h_dec : SH -> H.
  Variable h_nf : H -> H.
  Variable h_type : H -> functype.
  Variable h_ok : H -> bool.
  Hypothesis h_rt : forall h, h_ok h = true ->
    h_dec (h_enc h) = h_nf h /\ h_enc (h_nf h) = h_enc h /\ func_to_serial (h_type (h_nf h)) = func_to_serial (h_type h).
  Notation cop := (CodecOps.op H).
  Notation V := (V H).
  Notation vt := (vt H h_type).
  Notation ct := (ct H h_type).
  Notation facts_of := (op_facts H h_type).
  Notation reports_of := (c06_reports H h_type).
  Notation assigned_of := (c06_assigned H h_type).
  Notation nf := (op_nf H h_nf).
  Notation OK := (OpOK H h_ok).

  Lemma nf_bridge_ok (o : cop) : bridge_ok (nf o) = true.
  Proof. destruct o; reflexivity. Qed.
  Lemma OK_bridge_ok (o : cop) : OK o -> bridge_ok o = true.
  Proof. intros [O _]. now apply (op_ok_bridge_ok H h_ok). Qed.
  Lemma nf_facts (o : cop) : OK o -> facts_of (nf o) = facts_of o.
  Proof. intros O. exact (proj2 (proj2 (op_roundtrip_all H SH h_enc h_dec h_nf h_type h_ok h_rt o 0%N O))). Qed.

  Lemma enc_rows_same (a b : rows) : enc_rows a = enc_rows b -> rows2_same a b.
  Proof.
    destruct a as [i o], b as [i' o']. unfold enc_rows, encs. cbn. intros E. inversion E.
    split; now apply map_eq_Forall2.
  Qed.
  Lemma spec_sig_nf (o : cop) : OK o ->
    option_map enc_rows (spec_sig (to_c06 (nf o))) = option_map enc_rows (spec_sig (to_c06 o)).
  Proof.
    intros O. rewrite <- (outer_assigned H h_type _ (nf_bridge_ok o)), <- (outer_assigned H h_type _ (OK_bridge_ok o O)).
    now rewrite nf_facts.
  Qed.
  Lemma spec_inner_nf (o : cop) : OK o ->
    option_map enc_rows (spec_inner_sig (to_c06 (nf o))) = option_map enc_rows (spec_inner_sig (to_c06 o)).
  Proof. intros O. rewrite <- !(inner_assigned H h_type). now rewrite nf_facts. Qed.

  Lemma row_same_nf l : row_same l (row_nf l).
  Proof. unfold row_same. symmetry. apply encs_nf. Qed.
  Lemma ty_same_nf t : ty_same t (ty_nf t).
  Proof. unfold ty_same. symmetry. apply enc_nf. Qed.
  Lemma kind_same_poly_nf p : kind_same (FunctionKind (pl p)) (FunctionKind (pl (poly_nf p))).
  Proof. destruct p as [ps [i o r]]. cbn. repeat split; apply row_same_nf. Qed.

  Lemma bools_nf (o : cop) d :
    has_order_port (to_c06 (nf o)) d = has_order_port (to_c06 o) d /\
    static_site (to_c06 (nf o)) d = static_site (to_c06 o) d /\
    dataflow_node (to_c06 (nf o)) = dataflow_node (to_c06 o) /\
    is_cf H (to_c06 (nf o)) = is_cf H (to_c06 o).
  Proof. destruct o, d; repeat split. Qed.
  Lemma cf_ports_nf (o : cop) d : OK o -> cf_ports (to_c06 (nf o)) d = cf_ports (to_c06 o) d.
  Proof.
    intros [O _]. destruct o, d; try reflexivity. cbn in *.
    destruct sum; try discriminate O; cbn; f_equal; apply map_length.
  Qed.
  Lemma static_nf (o : cop) d : OK o -> opt_rel kind_same (static_port ct (to_c06 o) d) (static_port ct (to_c06 (nf o)) d).
  Proof.
    intros [O _]. destruct o, d; try exact I; cbn [to_c06 op_nf static_port opt_rel].
    - cbn. repeat split; apply row_same_nf.
    - apply kind_same_poly_nf.
    - cbn. unfold ty_same, enc.
      destruct (value_roundtrip_all H SH h_enc h_dec h_nf h_type h_ok h_rt v O) as (_ & _ & C & _).
      unfold same_encoding in C. now rewrite C.
    - apply kind_same_poly_nf.
    - apply ty_same_nf.
    - apply kind_same_poly_nf.
  Qed.

  (* the specification's classification of every port of the decoded operation is the one of the original, up
     to the encoding of the types it carries *)
  Theorem spec_port_kind_nf (o : cop) d z : OK o ->
    pspec_same (spec_port_kind ct (to_c06 o) d z) (spec_port_kind ct (to_c06 (nf o)) d z).
  Proof.
    intros O. rewrite !(spk_is_view H h_type).
    destruct (bools_nf o d) as (-> & -> & -> & ->). rewrite (cf_ports_nf o d O).
    apply spk_view_same; [|exact (static_nf o d O)].
    pose proof (spec_sig_nf o O) as E.
    destruct (spec_sig (to_c06 o)) as [s|], (spec_sig (to_c06 (nf o))) as [s'|]; cbn in E; try discriminate; [|exact I].
    cbn [opt_rel]. apply enc_rows_same. unfold enc_rows in *. congruence.
  Qed.

  Lemma tag_range_of_spec (o : cop) n : spec_num_out (to_c06 o) = Some n -> tag_in_range o = true.
  Proof.
    destruct o; try reflexivity. unfold spec_num_out. cbn.
    destruct (Z.of_N tag <? 0) eqn:E; [lia|]. rewrite N_nat_N_Z. unfold rows_of.
    destruct sum; cbn; try discriminate; destruct (nth_error _ _); try discriminate; reflexivity.
  Qed.
  Lemma tag_range_nf (o : cop) : tag_in_range o = true -> tag_in_range (nf o) = true.
  Proof.
    destruct o; try reflexivity. cbn. rewrite nth_rows_nf. now destruct (nth_error _ _).
  Qed.
  Lemma spec_num_out_nf (o : cop) n : OK o -> spec_num_out (to_c06 o) = Some n -> spec_num_out (to_c06 (nf o)) = Some n.
  Proof.
    intros O E.
    pose proof (proj2 (proj2 (facts_are_has_sig H h_type o (OK_bridge_ok o O))) n E) as F.
    rewrite <- (nf_facts o O) in F.
    rewrite (num_out_assigned H h_type _ (nf_bridge_ok o) (tag_range_nf o (tag_range_of_spec o n E))) in F.
    destruct (spec_num_out (to_c06 (nf o))) as [m|]; cbn in F; [|discriminate].
    f_equal. apply Nnat.Nat2N.inj. congruence.
  Qed.

  Theorem codec_preserves_spec (o : cop) (parent : N) : OK o ->
    let o2 := op_deserialize H SH h_dec (op_to_serial H SH h_enc o parent) in
    (forall s, has_sig (to_c06 o) s ->
       exists s2 f2, has_sig (to_c06 o2) s2 /\ rows_same s s2 /\ df_sig (to_c06 o2) = Ret f2 /\ (f_in f2, f_out f2) = s2) /\
    (forall s2, has_sig (to_c06 o2) s2 -> exists s, has_sig (to_c06 o) s /\ rows_same s s2) /\
    (forall s, has_inner_sig (to_c06 o) s ->
       exists s2 f2, has_inner_sig (to_c06 o2) s2 /\ rows_same s s2 /\ inner_sig (to_c06 o2) = Ret f2 /\ (f_in f2, f_out f2) = s2) /\
    (forall n, spec_num_out (to_c06 o) = Some n ->
       spec_num_out (to_c06 o2) = Some n /\ num_out (to_c06 o2) = Ret (Z.of_nat n)) /\
    (forall d z, match spec_port_kind ct (to_c06 o) d z with
                 | Port k => exists k2, port_kind vt (to_c06 o2) d z = Ret k2 /\ kind_same k k2
                 | NoPort => is_typed (port_kind vt (to_c06 o2) d z) = false
                 | Unspecified => True
                 end) /\
    facts_of o2 = enc_reports (reports_of (to_c06 o)).
  Proof.
    intros O o2.
    assert (E2 : o2 = nf o) by exact (proj1 (op_roundtrip_all H SH h_enc h_dec h_nf h_type h_ok h_rt o parent O)).
    rewrite E2. clear o2 E2. repeat apply conj.
    - intros s Hs. apply has_sig_iff in Hs. pose proof (spec_sig_nf o O) as E. rewrite Hs in E.
      destruct (spec_sig (to_c06 (nf o))) as [s2|] eqn:E2; cbn in E; [|discriminate].
      assert (H2 : has_sig (to_c06 (nf o)) s2) by now apply has_sig_iff.
      destruct (sig_sound V _ _ H2) as (f2 & Hf & Hr).
      exists s2, f2. repeat split; try assumption. unfold rows_same. congruence.
    - intros s2 Hs. apply has_sig_iff in Hs. pose proof (spec_sig_nf o O) as E. rewrite Hs in E.
      destruct (spec_sig (to_c06 o)) as [s|] eqn:E1; cbn in E; [|discriminate].
      exists s. split; [now apply has_sig_iff|]. unfold rows_same. congruence.
    - intros s Hs. apply has_inner_iff in Hs. pose proof (spec_inner_nf o O) as E. rewrite Hs in E.
      destruct (spec_inner_sig (to_c06 (nf o))) as [s2|] eqn:E2; cbn in E; [|discriminate].
      assert (H2 : has_inner_sig (to_c06 (nf o)) s2) by now apply has_inner_iff.
      destruct (inner_sound V _ _ H2) as (f2 & Hf & Hr).
      exists s2, f2. repeat split; try assumption. unfold rows_same. congruence.
    - intros n E. pose proof (spec_num_out_nf o n O E) as E2. split; [exact E2|]. now apply num_out_correct.
    - intros d z. pose proof (spec_port_kind_nf o d z O) as S. pose proof (port_kind_spec V vt (to_c06 (nf o)) d z) as P.
      change (ctype_of V vt) with ct in P.
      destruct (spec_port_kind ct (to_c06 o) d z) as [k| |], (spec_port_kind ct (to_c06 (nf o)) d z) as [k2| |];
        cbn in S; try contradiction; try exact I; [|exact P].
      exists k2. split; assumption.
    - rewrite (nf_facts o O). apply facts_are_reports. now apply OK_bridge_ok.
  Qed.
End CodecBridge.

(* ================= depth 0: no function-valued constants, no hypothesis left ================= *)
From HV Require proofs.CodecDocP.
Notation E0 := CodecDocP.E0.
Notation e0 := CodecDocP.e0.
Notation e0_type := CodecDocP.e0_type.
Notation e0_ok := CodecDocP.e0_ok.
Definition codec_preserves_spec_depth0 :=
  codec_preserves_spec E0 E0 e0 e0 e0 e0_type e0_ok CodecDocP.e0_rt.

(* ================= the sugar tag operations: C05's [sugar_tag] is C06's some_new / left_new / right_new ========= *)
Theorem sugar_tags_agree H (s : tagsugar) :
  to_c06 (sugar_tag H s) =
    match s with
    | TgSome l => some_new l
    | TgRight l r | TgBreak l r => right_new (TSum [l; r])
    | TgLeft l r | TgContinue l r => left_new (TSum [l; r])
    end /\
  has_sig (to_c06 (sugar_tag H s))
    match s with
    | TgSome l => (l, [TSum [[]; l]])
    | TgRight l r | TgBreak l r => (r, [TSum [l; r]])
    | TgLeft l r | TgContinue l r => (l, [TSum [l; r]])
    end.
Proof.
  destruct s as [l|l r|l r|l r|l r]; (split; [reflexivity|]); cbn.
  - exact (S_Tag _ 1%nat _ [[]; l] l (SR_sum _) eq_refl).
  - exact (S_Tag _ 1%nat _ [l; r] r (SR_sum _) eq_refl).
  - exact (S_Tag _ 0%nat _ [l; r] l (SR_sum _) eq_refl).
  - exact (S_Tag _ 0%nat _ [l; r] l (SR_sum _) eq_refl).
  - exact (S_Tag _ 1%nat _ [l; r] r (SR_sum _) eq_refl).
Qed.

(* ================= non-vacuity ================= *)
(* a definition-backed extension type (comes back opaque: the decoded rows are equal only up to the encoding) *)
Definition ex_td : typedef := {| td_ext := 7%N; td_name := 8%N; td_descr := 9%N; td_params := []; td_bound := Explicit Any |}.
Definition ex_ext : ty := TExt ex_td [] Generic.
Definition ex_opq : ty := TOpaque 7%N 8%N [] Any.
Notation cop0 := (CodecOps.op E0).
Notation deser0 := (op_deserialize E0 E0 e0).
Notation ser0 := (op_to_serial E0 E0 e0).

(* Call of forall (r : [Type]). r -> r instantiated at [usize, ext]: two value ports per side, the function port at 2 *)
Definition exb_poly : polytype := PT [PList (PType Any)] (FT [TRowVar 0 Any] [TRowVar 0 Any] []).
Definition exb_call : cop0 := CodecOps.OCall exb_poly (FT [TUSize; ex_ext] [TUSize; ex_ext] []) [ASeq [AType TUSize; AType ex_ext]].
Example ex_bridge_call :
  OpOK E0 e0_ok exb_call /\
  has_sig (to_c06 exb_call) ([TUSize; ex_ext], [TUSize; ex_ext]) /\
  spec_port_kind (ct E0 e0_type) (to_c06 exb_call) In 2 = Port (FunctionKind (pl exb_poly)) /\
  spec_num_out (to_c06 exb_call) = Some 2%nat /\
  (* the decoded operation: extension type opaque, still two value ports per side and the function port at 2 *)
  has_sig (to_c06 (deser0 (ser0 exb_call 0%N))) ([TUSize; ex_opq], [TUSize; ex_opq]) /\
  port_kind (vt E0 e0_type) (to_c06 (deser0 (ser0 exb_call 0%N))) In 2 = Ret (FunctionKind (pl exb_poly)) /\
  port_kind (vt E0 e0_type) (to_c06 (deser0 (ser0 exb_call 0%N))) In 1 = Ret (ValueKind ex_opq) /\
  num_out (to_c06 (deser0 (ser0 exb_call 0%N))) = Ret 2 /\
  rows_same ([TUSize; ex_ext], [TUSize; ex_ext]) ([TUSize; ex_opq], [TUSize; ex_opq]) /\
  f_outer (op_facts E0 e0_type exb_call) = Some (enc_rows ([TUSize; ex_ext], [TUSize; ex_ext])).
Proof.
  repeat split; try reflexivity; try apply S_Call.
Qed.

(* TailLoop with just-inputs [ext], just-outputs [usize; qubit], rest [qubit] *)
Definition exb_loop : cop0 := CodecOps.OTailLoop [ex_ext] [TQubit] [TUSize; TQubit] [].
Example ex_bridge_tailloop :
  OpOK E0 e0_ok exb_loop /\
  has_sig (to_c06 exb_loop) ([ex_ext; TQubit], [TUSize; TQubit; TQubit]) /\
  has_inner_sig (to_c06 exb_loop) ([ex_ext; TQubit], [TSum [[ex_ext]; [TUSize; TQubit]]; TQubit]) /\
  has_sig (to_c06 (deser0 (ser0 exb_loop 0%N))) ([ex_opq; TQubit], [TUSize; TQubit; TQubit]) /\
  has_inner_sig (to_c06 (deser0 (ser0 exb_loop 0%N))) ([ex_opq; TQubit], [TSum [[ex_opq]; [TUSize; TQubit]]; TQubit]) /\
  num_out (to_c06 (deser0 (ser0 exb_loop 0%N))) = Ret 3 /\
  op_facts E0 e0_type (deser0 (ser0 exb_loop 0%N)) = enc_reports (c06_reports E0 e0_type (to_c06 exb_loop)).
Proof.
  repeat split; try reflexivity.
  - exact (S_TailLoop _ [ex_ext] [TQubit] [TUSize; TQubit] []).
  - exact (I_TailLoop _ [ex_ext] [TQubit] [TUSize; TQubit] []).
  - exact (S_TailLoop _ [ex_opq] [TQubit] [TUSize; TQubit] []).
  - exact (I_TailLoop _ [ex_opq] [TQubit] [TUSize; TQubit] []).
Qed.

(* Conditional over the compact UnitSum(2) (decoded as the general Sum([[],[]]): equal only up to Python equality)
   with one other input *)
Definition exb_cond : cop0 := CodecOps.OConditional (TUnitSum 2) [ex_ext] [TQubit].
Example ex_bridge_conditional :
  OpOK E0 e0_ok exb_cond /\
  has_sig (to_c06 exb_cond) ([TUnitSum 2; ex_ext], [TQubit]) /\
  case_inputs (to_c06 exb_cond) 1 [ex_ext] /\
  has_sig (to_c06 (deser0 (ser0 exb_cond 0%N))) ([TSum [[]; []]; ex_opq], [TQubit]) /\
  case_inputs (to_c06 (deser0 (ser0 exb_cond 0%N))) 1 [ex_opq] /\
  rows_same ([TUnitSum 2; ex_ext], [TQubit]) ([TSum [[]; []]; ex_opq], [TQubit]) /\
  ([TUnitSum 2; ex_ext], [TQubit]) <> ([TSum [[]; []]; ex_opq], [TQubit]).
Proof.
  repeat split; try reflexivity; try discriminate.
  - exact (S_Conditional _ (TUnitSum 2) [ex_ext] [TQubit]).
  - exact (CI _ (TUnitSum 2) [[]; []] [ex_ext] (Some [TQubit]) 1%nat [] (SR_unit 2) eq_refl).
  - exact (S_Conditional _ (TSum [[]; []]) [ex_opq] [TQubit]).
  - exact (CI _ (TSum [[]; []]) [[]; []] [ex_opq] (Some [TQubit]) 1%nat [] (SR_sum _) eq_refl).
Qed.

(* the sugar operation Right([ext], [usize, qubit]) = Tag 1 *)
Definition exb_right : cop0 := sugar_tag E0 (TgRight [ex_ext] [TUSize; TQubit]).
Example ex_bridge_tag_sugar :
  OpOK E0 e0_ok exb_right /\
  to_c06 exb_right = right_new (TSum [[ex_ext]; [TUSize; TQubit]]) /\
  has_sig (to_c06 exb_right) ([TUSize; TQubit], [TSum [[ex_ext]; [TUSize; TQubit]]]) /\
  has_sig (to_c06 (deser0 (ser0 exb_right 0%N))) ([TUSize; TQubit], [TSum [[ex_opq]; [TUSize; TQubit]]]) /\
  port_kind (vt E0 e0_type) (to_c06 (deser0 (ser0 exb_right 0%N))) Out 0 = Ret (ValueKind (TSum [[ex_opq]; [TUSize; TQubit]])) /\
  num_out (to_c06 (deser0 (ser0 exb_right 0%N))) = Ret 1.
Proof.
  repeat split; try reflexivity.
  - exact (S_Tag _ 1%nat _ [[ex_ext]; [TUSize; TQubit]] [TUSize; TQubit] (SR_sum _) eq_refl).
  - exact (S_Tag _ 1%nat _ [[ex_opq]; [TUSize; TQubit]] [TUSize; TQubit] (SR_sum _) eq_refl).
Qed.

(* the translation covers everything both models have *)
Theorem translation_covers H :
  (forall o : CodecOps.op H, c06_only (to_c06 o) = false) /\
  (forall o' : op (V H), c06_only o' = false -> exists o : CodecOps.op H, to_c06 o = o') /\
  (forall o' : op (V H), of_c06 o' = None <-> c06_only o' = true) /\
  (forall (o' : op (V H)) (o : CodecOps.op H), of_c06 o' = Some o -> to_c06 o = o').
Proof.
  repeat split.
  - apply to_c06_expressible.
  - apply to_c06_onto.
  - apply of_c06_none.
  - apply of_c06_none.
  - apply of_c06_sound.
Qed.

(* ================= further corollaries ================= *)
(* any payload type (any nesting depth of function constants), no hypothesis: every operation that holds no
   function-valued constant -- take the guard that admits no payload at all, the payload's round trip is then
   vacuous *)
Definition no_payload {H : Type} (h : H) : bool := false.
Definition codec_preserves_spec_no_function_constants H SH h_enc h_dec h_type :=
  codec_preserves_spec H SH h_enc h_dec (fun h => h) h_type (@no_payload H)
    (fun h (E : no_payload h = true) => match Bool.diff_false_true E with end).

(* the translation forgets nothing but the description of an ExtOp's definition *)
Definition forget_descr {H} (o : CodecOps.op H) : CodecOps.op H :=
  match o with
  | CodecOps.OExtOp d sig args =>
      CodecOps.OExtOp {| od_ext := od_ext d; od_name := od_name d; od_descr := 0%N; od_poly := od_poly d |} sig args
  | _ => o
  end.
Theorem of_c06_to_c06 H (o : CodecOps.op H) : of_c06 (to_c06 o) = Some (forget_descr o).
Proof.
  destruct o; cbn; rewrite ?fn_inv_fn, ?pl_inv_pl; try reflexivity.
  - (* ExtOp *) destruct def as [e n dd [p|]], signature as [f|]; cbn; rewrite ?fn_inv_fn, ?pl_inv_pl; reflexivity.
  - (* Tag *) destruct (Z.of_N tag <? 0) eqn:E; [lia|]. now rewrite N2Z.id.
Qed.
Corollary to_c06_injective H (o1 o2 : CodecOps.op H) : to_c06 o1 = to_c06 o2 -> forget_descr o1 = forget_descr o2.
Proof. intros E. pose proof (of_c06_to_c06 H o1) as E1. rewrite E, of_c06_to_c06 in E1. now inversion E1. Qed.

(* the two independent models of _CallOrLoad.__init__ agree: C05's guard [CallWF] (what the constructor can have
   built) holds exactly when C06's constructor model [call_new] / [loadfunc_new] builds the translated operation *)
Lemma fn_inj f g : fn f = fn g -> f = g.
Proof. destruct f, g; cbn; intros E; now inversion E. Qed.
Theorem call_constructors_agree H (sig : polytype) (inst : functype) (ta : list tyarg) :
  (CallWF sig inst ta <-> call_new (pl sig) (Some (fn inst)) (Some ta) = Ret (to_c06 (CodecOps.OCall (H:=H) sig inst ta))) /\
  (CallWF sig inst ta <-> loadfunc_new (pl sig) (Some (fn inst)) (Some ta) = Ret (to_c06 (CodecOps.OLoadFunc (H:=H) sig inst ta))).
Proof.
  assert (G : forall mk : polyfunc -> functy -> list tyarg -> op (V H),
             (forall a b c a' b' c', mk a b c = mk a' b' c' -> b = b' /\ c = c') ->
             (CallWF sig inst ta <-> call_or_load (V H) mk (pl sig) (Some (fn inst)) (Some ta) = Ret (mk (pl sig) (fn inst) ta))).
  { intros mk Hinj. unfold CallWF, call_or_load. destruct sig as [ps body]. cbn [pl p_params pt_params pt_body p_body].
    destruct ps as [|p ps].
    - split.
      + intros [-> ->]. reflexivity.
      + intros E. inversion E as [E']. apply Hinj in E'. destruct E' as [E1 E2]. apply fn_inj in E1. now subst.
    - split.
      + intros E. cbn [length] in *. rewrite E, Nat.eqb_refl. reflexivity.
      + destruct (Nat.eqb _ _) eqn:E; [|discriminate]. intros _. now apply Nat.eqb_eq in E. }
  split.
  - apply (G OCall). intros a b c a' b' c' E. now inversion E.
  - apply (G OLoadFunc). intros a b c a' b' c' E. now inversion E.
Qed.

(* whatever serial operation is decoded (a document this library did not write, any payload): the decoded
   operation's derived facts are the typing model's answers for it -- no guard is needed, [op_deserialize] never
   yields a block over a non-sum nor an ExtOp *)
Lemma deser_bridge_ok H SH (h_dec : SH -> H) (s : sop SH) : bridge_ok (op_deserialize H SH h_dec s) = true.
Proof.
  destruct s; try reflexivity; cbn [op_deserialize];
    match goal with |- context [call_attrs ?p ?i ?a] => destruct (call_attrs p i a) end; reflexivity.
Qed.
Theorem decoded_facts_are_reports H SH (h_dec : SH -> H) h_type (s : sop SH) :
  op_facts H h_type (op_deserialize H SH h_dec s) =
  enc_reports (c06_reports H h_type (to_c06 (op_deserialize H SH h_dec s))).
Proof. apply facts_are_reports, deser_bridge_ok. Qed.

(* ================= ANY nesting depth of function-valued constants, no hypothesis =================
   The payload hypothesis of [codec_preserves_spec] is the round trip of the embedded HUGR; proofs/ComposeDepthP.v
   (C02 o C05) proves it for the tower HT md n / ST md n of HUGRs and documents embedded to depth n
   ([tower_rt], by induction on n; okT = that theorem's own premises on the embedded HUGRs, as a boolean). *)
From HV Require model.SerialHugr model.ComposeOps model.ComposeDepth proofs.ComposeDepthP proofs.ComposeExamplesP.
Definition codec_preserves_spec_any_depth md md_nil md_is_nil
           (nil_ok : md_is_nil md_nil = true) (nil_unique : forall m, md_is_nil m = true -> m = md_nil) (n : nat) :=
  codec_preserves_spec (ComposeDepth.HT md n) (ComposeDepth.ST md n) (ComposeDepth.encT md md_is_nil n)
    (ComposeDepth.decT md md_nil n) (ComposeDepth.nfT md md_nil md_is_nil n) (ComposeDepth.typeT md n)
    (ComposeDepth.okT md md_is_nil n) (ComposeDepthP.tower_rt md md_nil md_is_nil nil_ok nil_unique n).
(* metadata as the harness interns it (N, 0 = {}): closed *)
Definition codec_preserves_spec_any_depth_closed (n : nat) :=
  codec_preserves_spec_any_depth N 0%N ComposeExamplesP.is0 ComposeExamplesP.is0_nil ComposeExamplesP.is0_unique n.

(* non-vacuity at depth 1: a Const holding the function value whose body is the 5-node DFG bool -> option(bool) of
   proofs/ComposeExamplesP.v (itself containing a constant): the constant port carries the function type of the
   body's root, before and after the round trip of the operation (which round-trips the embedded document) *)
Definition exb_fconst : CodecOps.op (ComposeDepth.HT N 1) := CodecOps.OConst (VFunction ComposeExamplesP.body1).
Example ex_bridge_function_constant :
  OpOK (ComposeDepth.HT N 1) (ComposeDepth.okT N ComposeExamplesP.is0 1) exb_fconst /\
  spec_port_kind (ct (ComposeDepth.HT N 1) (ComposeDepth.typeT N 1)) (to_c06 exb_fconst) Out 0 =
    Port (ConstKind ComposeExamplesP.tfn) /\
  spec_num_out (to_c06 exb_fconst) = Some 1%nat /\
  port_kind (vt (ComposeDepth.HT N 1) (ComposeDepth.typeT N 1))
    (to_c06 (op_deserialize (ComposeDepth.HT N 1) (ComposeDepth.ST N 1) (ComposeDepth.decT N 0%N 1)
               (op_to_serial (ComposeDepth.HT N 1) (ComposeDepth.ST N 1) (ComposeDepth.encT N ComposeExamplesP.is0 1) exb_fconst 0%N)))
    Out 0 = Ret (ConstKind ComposeExamplesP.tfn).
Proof.
  split; [split; [vm_compute; reflexivity|exact I]|]. repeat split; vm_compute; reflexivity.
Qed.
