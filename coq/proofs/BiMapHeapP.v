(* Proofs for the multi-object part of C18: separation of the dict objects of all maps and seeds is an
   invariant of the heap model (the constructor copies), it gives the frame property (an operation changes
   only the component it addresses), and the heap world refines the value-level world specification. *)
From Coq Require Import List Bool Arith Lia.
Import ListNotations.
From HV Require Import lib.PyDict lib.Harness model.BiMapM spec.BiMapS proofs.BiMapP model.BiMapHeap spec.BiMapWorldS.

(* ---------- lists ---------- *)
Lemma upd_length {A} a (x : A) l : length (upd a x l) = length l.
Proof. revert a; induction l as [|y r IH]; intros [|a]; cbn; auto. Qed.
Lemma nth_upd_same {A} a (x : A) l d : a < length l -> nth a (upd a x l) d = x.
Proof. revert a; induction l as [|y r IH]; intros [|a] H; cbn in *; try lia; auto. apply IH; lia. Qed.
Lemma nth_upd_other {A} a a' (x : A) l d : a <> a' -> nth a' (upd a x l) d = nth a' l d.
Proof. revert a a'; induction l as [|y r IH]; intros [|a] [|a'] H; cbn; try reflexivity; try lia. apply IH; lia. Qed.
Lemma nth_error_upd_same {A} a (x : A) l : a < length l -> nth_error (upd a x l) a = Some x.
Proof. revert a; induction l as [|y r IH]; intros [|a] H; cbn in *; try lia; auto. apply IH; lia. Qed.
Lemma nth_error_upd_other {A} a a' (x : A) l : a <> a' -> nth_error (upd a x l) a' = nth_error l a'.
Proof. revert a a'; induction l as [|y r IH]; intros [|a] [|a'] H; cbn; try reflexivity; try lia. apply IH; lia. Qed.
Lemma replace_nth_upd {A} n (x : A) l : replace_nth n x l = upd n x l.
Proof. revert n; induction l as [|y r IH]; intros [|n]; cbn; try reflexivity. now rewrite IH. Qed.
Lemma replace_nth_length {A} n (x : A) l : length (replace_nth n x l) = length l.
Proof. rewrite replace_nth_upd. apply upd_length. Qed.
Lemma if_pair {A B} (c : bool) (a b : A) (d : B) : (if c then (a, d) else (b, d)) = (if c then a else b, d).
Proof. now destruct c. Qed.
Lemma nth_error_repeat_None {A} n i : match nth_error (repeat (@None A) n) i with Some (Some _) => False | _ => True end.
Proof. revert i; induction n as [|n IH]; intros [|i]; cbn; auto. apply IH. Qed.

Section HeapP.
  Context {L R : Type} (leqb : L -> L -> bool) (reqb : R -> R -> bool).
  Hypothesis leqb_spec : forall a b, reflect (a = b) (leqb a b).
  Hypothesis reqb_spec : forall a b, reflect (a = b) (reqb a b).

  Notation heap := (@heap L R).
  Notation world := (@world L R).
  Notation wop := (@wop L R).
  Notation aworld := (@aworld L R).
  Notation bimap := (@bimap L R).
  Notation h_step := (h_step leqb reqb).
  Notation h_init := (h_init reqb).
  Notation wstep := (wstep leqb reqb).
  Notation wrun := (wrun leqb reqb).
  Notation a_wstep := (a_wstep leqb reqb).
  Notation a_wrun := (a_wrun leqb reqb).
  Notation Rep := (Rep leqb reqb).
  Notation Bij := (Bij leqb reqb).

  (* ---------- heap cells ---------- *)
  Lemma getF_setF_same (h : heap) a d : a < length (hf h) -> getF (setF h a d) a = d.
  Proof. intros H. unfold getF, setF; cbn. now apply nth_upd_same. Qed.
  Lemma getF_setF_other (h : heap) a a' d : a <> a' -> getF (setF h a d) a' = getF h a'.
  Proof. intros H. unfold getF, setF; cbn. now apply nth_upd_other. Qed.
  Lemma hf_store (h : heap) r b : length (hf (store h r b)) = length (hf h).
  Proof. unfold store, setB, setF; cbn. apply upd_length. Qed.
  Lemma hb_store (h : heap) r b : length (hb (store h r b)) = length (hb h).
  Proof. unfold store, setB, setF; cbn. apply upd_length. Qed.
  Lemma getF_store_other (h : heap) r b a : a <> fa r -> getF (store h r b) a = getF h a.
  Proof. intros H. unfold store, setB, setF, getF; cbn. apply nth_upd_other. congruence. Qed.
  Lemma deref_store_same (h : heap) r (b : bimap) :
    fa r < length (hf h) -> ba r < length (hb h) -> deref (store h r b) r = b.
  Proof.
    intros Hf Hb. unfold deref, store, setB, setF, getF, getB; cbn.
    rewrite !nth_upd_same by assumption. now destruct b.
  Qed.
  Lemma deref_store_other (h : heap) r (b : bimap) r' :
    fa r <> fa r' -> ba r <> ba r' -> deref (store h r b) r' = deref h r'.
  Proof.
    intros Hf Hb. unfold deref, store, setB, setF, getF, getB; cbn.
    now rewrite !nth_upd_other by assumption.
  Qed.
  Lemma deref_setF_other (h : heap) a d r : a <> fa r -> deref (setF h a d) r = deref h r.
  Proof. intros H. unfold deref, setF, getF, getB; cbn. now rewrite nth_upd_other by assumption. Qed.

  Lemma h_init_inv (h : heap) m h' r : h_init h m = Some (h', r) ->
    exists b, init reqb m = Some b /\ fa r = length (hf h) /\ ba r = length (hb h) /\
              hf h' = hf h ++ [fwd b] /\ hb h' = hb h ++ [bck b].
  Proof.
    unfold h_init. destruct (init reqb m) as [b|]; [|discriminate]. cbn. intros [= <- <-]. cbn.
    exists b. repeat split; reflexivity.
  Qed.
  Lemma h_init_none (h : heap) m : h_init h m = None <-> init reqb m = None.
  Proof. unfold h_init. destruct (init reqb m); cbn; split; congruence. Qed.

  (* ---------- separation ---------- *)
  Definition Sep (w : world) : Prop :=
    w_ns w <= length (hf (w_heap w)) /\
    (forall i r, slot w i = Some r ->
                 w_ns w <= fa r /\ fa r < length (hf (w_heap w)) /\ ba r < length (hb (w_heap w))) /\
    (forall i j r r', slot w i = Some r -> slot w j = Some r' -> i <> j -> fa r <> fa r' /\ ba r <> ba r').

  Lemma slot_upd (w : world) h' j r i r0 :
    slot ({| w_heap := h'; w_ns := w_ns w; w_slots := upd j (Some r) (w_slots w) |} : world) i = Some r0 ->
    j < length (w_slots w) -> (i = j /\ r0 = r) \/ (i <> j /\ slot w i = Some r0).
  Proof.
    unfold slot; cbn. intros H Hj. destruct (Nat.eq_dec i j) as [->|Hne].
    - rewrite nth_error_upd_same in H by assumption. left. split; congruence.
    - rewrite nth_error_upd_other in H by congruence. now right.
  Qed.
  Lemma slot_same_slots (w : world) h' i :
    slot ({| w_heap := h'; w_ns := w_ns w; w_slots := w_slots w |} : world) i = slot w i.
  Proof. reflexivity. Qed.

  Lemma sep_world0 seeds nm : Sep (world0 seeds nm).
  Proof.
    unfold Sep, world0; cbn. split; [lia|].
    assert (E : forall i, slot (world0 seeds nm) i = None).
    { intros i. unfold slot, world0; cbn. pose proof (@nth_error_repeat_None bmref nm i) as H.
      destruct (nth_error (repeat None nm) i) as [[?|]|]; tauto. }
    unfold world0 in E; cbn in E. split; intros; rewrite E in *; discriminate.
  Qed.

  (* what a step addresses *)
  Definition addr_slot (o : wop) (j : nat) : Prop :=
    match o with WNew j' _ => j = j' | WOp i _ => j = i | _ => False end.
  Definition addr_seed (o : wop) (s : nat) : Prop :=
    match o with WSeedSet s' _ _ | WSeedDel s' _ | WSeedClear s' => s = s' | _ => False end.

  (* a seed write: everything else is untouched *)
  Lemma seed_write (w : world) s d : Sep w -> s < w_ns w ->
    let w' := {| w_heap := setF (w_heap w) s d; w_ns := w_ns w; w_slots := w_slots w |} in
    Sep w' /\ (forall j, slot_value w' j = slot_value w j) /\ seed_content w' s = d /\
    (forall s', s' <> s -> seed_content w' s' = seed_content w s').
  Proof.
    intros (Hn & Hr & Hd) Hs w'. split; [|split; [|split]].
    - unfold Sep, w'; cbn. rewrite upd_length. split; [assumption|]. split; [exact Hr|exact Hd].
    - intros j. unfold slot_value, w'. rewrite slot_same_slots. cbn [w_heap].
      destruct (slot w j) as [r|] eqn:E; [|reflexivity].
      f_equal. apply deref_setF_other. destruct (Hr _ _ E). lia.
    - unfold seed_content, w'; cbn [w_heap]. apply getF_setF_same. lia.
    - intros s' Hne. unfold seed_content, w'; cbn [w_heap]. apply getF_setF_other. congruence.
  Qed.

  (* a mutator on slot i *)
  Lemma map_write (w : world) i r (b' : bimap) : Sep w -> slot w i = Some r ->
    let w' := {| w_heap := store (w_heap w) r b'; w_ns := w_ns w; w_slots := w_slots w |} in
    Sep w' /\ slot_value w' i = Some b' /\ (forall j, j <> i -> slot_value w' j = slot_value w j) /\
    (forall s, s < w_ns w -> seed_content w' s = seed_content w s).
  Proof.
    intros (Hn & Hr & Hd) Hi w'. destruct (Hr _ _ Hi) as (H1 & H2 & H3). split; [|split; [|split]].
    - unfold Sep, w'; cbn [w_heap w_ns]. rewrite hf_store, hb_store. split; [assumption|]. split; [exact Hr|exact Hd].
    - unfold slot_value, w'. rewrite slot_same_slots, Hi. cbn [w_heap]. f_equal. now apply deref_store_same.
    - intros j Hne. unfold slot_value, w'. rewrite slot_same_slots. cbn [w_heap].
      destruct (slot w j) as [r'|] eqn:E; [|reflexivity]. f_equal.
      destruct (Hd i j r r' Hi E) as [Hf Hb]; [congruence|]. now apply deref_store_other.
    - intros s Hs. unfold seed_content, w'; cbn [w_heap]. apply getF_store_other. lia.
  Qed.

  (* a successful construction into slot j *)
  Lemma map_new (w : world) j m h' r : Sep w -> j < length (w_slots w) -> h_init (w_heap w) m = Some (h', r) ->
    let w' := {| w_heap := h'; w_ns := w_ns w; w_slots := upd j (Some r) (w_slots w) |} in
    Sep w' /\ (exists b, init reqb m = Some b /\ slot_value w' j = Some b) /\
    (forall i, i <> j -> slot_value w' i = slot_value w i) /\
    (forall s, s < w_ns w -> seed_content w' s = seed_content w s).
  Proof.
    intros (Hn & Hr & Hd) Hj Hi w'. destruct (h_init_inv _ _ _ _ Hi) as (b & Hb & Ef & Eb & Ehf & Ehb).
    assert (Hold : forall r0, fa r0 < length (hf (w_heap w)) -> ba r0 < length (hb (w_heap w)) ->
                              deref h' r0 = deref (w_heap w) r0).
    { intros r0 H1 H2. unfold deref, getF, getB. rewrite Ehf, Ehb. now rewrite !app_nth1 by assumption. }
    split; [|split; [|split]].
    - unfold Sep, w'. cbn [w_heap w_ns]. rewrite Ehf, Ehb, !app_length. cbn [length]. split; [lia|]. split.
      + intros i r0 H. apply slot_upd in H; [|assumption]. destruct H as [[_ ->]|[_ H]].
        * rewrite Ef, Eb. lia.
        * destruct (Hr _ _ H). lia.
      + intros i i' r0 r1 H0 H1 Hne. apply slot_upd in H0; [|assumption]. apply slot_upd in H1; [|assumption].
        destruct H0 as [[-> ->]|[Hn0 H0]], H1 as [[-> ->]|[Hn1 H1]].
        * congruence.
        * destruct (Hr _ _ H1). rewrite Ef, Eb. lia.
        * destruct (Hr _ _ H0). rewrite Ef, Eb. lia.
        * now apply (Hd i i').
    - exists b. split; [assumption|]. unfold slot_value, slot, w'. cbn [w_slots w_heap].
      rewrite nth_error_upd_same by assumption. f_equal.
      unfold deref, getF, getB. rewrite Ehf, Ehb, Ef, Eb. rewrite !nth_middle. now destruct b.
    - intros i Hne. unfold slot_value.
      assert (Es : slot w' i = slot w i).
      { unfold slot, w'. cbn [w_slots]. now rewrite nth_error_upd_other by congruence. }
      rewrite Es. destruct (slot w i) as [r0|] eqn:E; [|reflexivity]. f_equal. unfold w'; cbn [w_heap].
      destruct (Hr _ _ E) as (_ & ? & ?). now apply Hold.
    - intros s Hs. unfold seed_content, w', getF. cbn [w_heap]. rewrite Ehf. apply app_nth1. lia.
  Qed.

  (* ---------- invariant and frame ---------- *)
  Lemma wstep_sep (w : world) o : Sep w -> Sep (fst (wstep w o)).
  Proof.
    intros HS. destruct o as [j s|i o|s k v|s k|s]; cbn [wstep].
    - destruct (src_content w s) as [m|]; [|exact HS].
      destruct (Nat.ltb_spec j (length (w_slots w))); [|exact HS].
      destruct (h_init (w_heap w) m) as [[h' r]|] eqn:E; [|exact HS]. cbn [fst].
      now apply (map_new w j m h' r).
    - destruct (slot w i) as [r|] eqn:E; [|exact HS]. unfold BiMapHeap.h_step.
      destruct (step leqb reqb (deref (w_heap w) r) o) as [b' res]. cbn [fst]. now apply (map_write w i r b').
    - destruct (Nat.ltb_spec s (w_ns w)); [|exact HS]. cbn [fst]. now apply seed_write.
    - destruct (Nat.ltb_spec s (w_ns w)); [|exact HS]. cbn [fst]. now apply seed_write.
    - destruct (Nat.ltb_spec s (w_ns w)); [|exact HS]. cbn [fst]. now apply seed_write.
  Qed.

  Theorem wstep_frame (w : world) o : Sep w ->
    (forall j, ~ addr_slot o j -> slot_value (fst (wstep w o)) j = slot_value w j) /\
    (forall s, s < w_ns w -> ~ addr_seed o s -> seed_content (fst (wstep w o)) s = seed_content w s) /\
    w_ns (fst (wstep w o)) = w_ns w /\ length (w_slots (fst (wstep w o))) = length (w_slots w).
  Proof.
    intros HS. destruct o as [j s|i o|s k v|s k|s]; cbn [wstep addr_slot addr_seed].
    - destruct (src_content w s) as [m|]; [|now repeat split].
      destruct (Nat.ltb_spec j (length (w_slots w))) as [Hj|]; [|now repeat split].
      destruct (h_init (w_heap w) m) as [[h' r]|] eqn:E; [|now repeat split]. cbn [fst].
      destruct (map_new w j m h' r HS Hj E) as (_ & _ & Hm & Hs).
      split; [intros i Hne; apply Hm; congruence|]. split; [intros; now apply Hs|].
      cbn. now rewrite upd_length.
    - destruct (slot w i) as [r|] eqn:E; [|now repeat split]. unfold BiMapHeap.h_step.
      destruct (step leqb reqb (deref (w_heap w) r) o) as [b' res]. cbn [fst].
      destruct (map_write w i r b' HS E) as (_ & _ & Hm & Hs).
      split; [intros j Hne; apply Hm; congruence|]. split; [intros; now apply Hs|]. now split.
    - destruct (Nat.ltb_spec s (w_ns w)) as [Hs|]; [|now repeat split]. cbn [fst].
      destruct (seed_write w s (dset leqb (getF (w_heap w) s) k v) HS Hs) as (_ & Hm & _ & Ho).
      split; [intros; apply Hm|]. split; [intros; apply Ho; congruence|]. now split.
    - destruct (Nat.ltb_spec s (w_ns w)) as [Hs|]; [|now repeat split]. cbn [fst].
      destruct (seed_write w s (ddel leqb (getF (w_heap w) s) k) HS Hs) as (_ & Hm & _ & Ho).
      split; [intros; apply Hm|]. split; [intros; apply Ho; congruence|]. now split.
    - destruct (Nat.ltb_spec s (w_ns w)) as [Hs|]; [|now repeat split]. cbn [fst].
      destruct (seed_write w s [] HS Hs) as (_ & Hm & _ & Ho).
      split; [intros; apply Hm|]. split; [intros; apply Ho; congruence|]. now split.
  Qed.

  Lemma wrun_sep ops : forall w : world, Sep w -> Sep (wrun w ops).
  Proof. induction ops as [|o ops IH]; intros w HS; cbn; [assumption|]. apply IH. now apply wstep_sep. Qed.

  (* ---------- refinement to the value-level world ---------- *)
  Definition WRep (w : world) (aw : aworld) : Prop :=
    Sep w /\ length (a_seeds aw) = w_ns w /\
    (forall s, s < w_ns w -> nth_error (a_seeds aw) s = Some (seed_content w s) /\ NoDup (keys (seed_content w s))) /\
    length (a_slots aw) = length (w_slots w) /\
    (forall i, match slot_value w i, a_slot aw i with
               | Some b, Some p => Rep b p
               | None, None => True
               | _, _ => False
               end).

  (* the mapping handed to the constructor, on both sides *)
  Definition src_rel (m m' : list (L * R)) : Prop :=
    (init reqb m = None /\ a_init reqb m' = None) \/
    (exists b0, init reqb m = Some b0 /\ a_init reqb m' = Some m' /\ Rep b0 m').

  Lemma src_agree (w : world) aw s : WRep w aw ->
    match src_content w s, a_src aw s with
    | Some m, Some m' => src_rel m m'
    | None, None => True
    | _, _ => False
    end.
  Proof.
    intros (HS & Hls & Hseeds & Hlm & Hslots). destruct s as [|s|i]; cbn [src_content a_src].
    - right. exists {| fwd := []; bck := [] |}. cbn. repeat split; try constructor.
      + intros H; cbn in H; discriminate.
      + intros H; cbn in H; discriminate.
      + intros H; cbn in H; discriminate.
      + intros [].
    - destruct (Nat.ltb_spec s (w_ns w)) as [Hs|Hs].
      + destruct (Hseeds s Hs) as [E Hnd]. rewrite E. unfold seed_content in *.
        set (m := getF (w_heap w) s) in *. unfold src_rel, init, a_init.
        destruct (nodupb reqb (map snd m)) eqn:En; [right|left; split; reflexivity].
        eexists. split; [reflexivity|]. split; [reflexivity|].
        apply (init_rep leqb reqb leqb_spec reqb_spec); [exact Hnd|]. unfold init. now rewrite En.
      + destruct (nth_error (a_seeds aw) s) eqn:E; [|exact I].
        assert (s < length (a_seeds aw)) by (apply nth_error_Some; congruence). lia.
    - specialize (Hslots i). unfold slot_value in Hslots. destruct (slot w i) as [r|] eqn:E.
      + destruct (a_slot aw i) as [p|]; [|contradiction]. right.
        change (getF (w_heap w) (fa r)) with (fwd (deref (w_heap w) r)).
        set (b := deref (w_heap w) r) in *. destruct Hslots as (HB & Hwf & Hp).
        destruct (len_iter_items leqb reqb leqb_spec b HB) as (_ & _ & Hk & Hv). unfold items, iter in *.
        assert (En : nodupb reqb (map snd (fwd b)) = true).
        { destruct (nodupb_spec reqb reqb_spec (map snd (fwd b))); [reflexivity|contradiction]. }
        assert (En' : nodupb reqb (map snd p) = true).
        { destruct (nodupb_spec reqb reqb_spec (map snd p)) as [|Hn]; [reflexivity|]. destruct Hwf. contradiction. }
        eexists. unfold init, a_init. rewrite En, En'. split; [reflexivity|]. split; [reflexivity|].
        split; [|split; [exact Hwf|exact Hp]].
        apply (init_bij leqb reqb leqb_spec reqb_spec (fwd b)); [exact Hk|]. unfold init. now rewrite En.
      + destruct (a_slot aw i); [contradiction|exact I].
  Qed.

  Lemma a_slot_replace (aw : aworld) sd j x i : j < length (a_slots aw) ->
    a_slot {| a_seeds := sd; a_slots := replace_nth j (Some x) (a_slots aw) |} i =
    if Nat.eqb i j then Some x else a_slot aw i.
  Proof.
    intros Hj. unfold a_slot; cbn. rewrite replace_nth_upd. destruct (Nat.eqb_spec i j) as [->|Hne].
    - now rewrite nth_error_upd_same.
    - now rewrite nth_error_upd_other by congruence.
  Qed.

  Lemma seed_refines (w : world) aw s (f : list (L * R) -> list (L * R)) :
    WRep w aw -> (forall m, NoDup (keys m) -> NoDup (keys (f m))) ->
    WRep (if s <? w_ns w
          then {| w_heap := setF (w_heap w) s (f (getF (w_heap w) s)); w_ns := w_ns w; w_slots := w_slots w |}
          else w)
         (a_seed_upd aw s f).
  Proof.
    intros HW Hf. pose proof HW as (HS & Hls & Hseeds & Hlm & Hslots). unfold a_seed_upd.
    destruct (Nat.ltb_spec s (w_ns w)) as [Hs|Hs].
    - destruct (Hseeds s Hs) as [E Hnd]. rewrite E.
      destruct (seed_write w s (f (getF (w_heap w) s)) HS Hs) as (HS' & Hm & Hsame & Hother).
      split; [exact HS'|]. cbn [a_seeds a_slots w_ns w_slots]. rewrite replace_nth_upd, upd_length.
      split; [assumption|]. split; [|split; [assumption|]].
      + intros s' Hs'. destruct (Nat.eq_dec s' s) as [->|Hne].
        * rewrite nth_error_upd_same by lia. rewrite Hsame. split; [reflexivity|]. now apply Hf.
        * rewrite nth_error_upd_other by congruence. rewrite Hother by assumption. now apply Hseeds.
      + intros i. rewrite Hm. apply Hslots.
    - destruct (nth_error (a_seeds aw) s) eqn:E; [|exact HW].
      assert (s < length (a_seeds aw)) by (apply nth_error_Some; congruence). lia.
  Qed.

  Theorem wstep_refines (w : world) aw o : WRep w aw ->
    WRep (fst (wstep w o)) (fst (a_wstep aw o)) /\ snd (wstep w o) = snd (a_wstep aw o).
  Proof.
    intros HW. pose proof HW as (HS & Hls & Hseeds & Hlm & Hslots).
    destruct o as [j s|i o|s k v|s k|s]; cbn [wstep a_wstep].
    - pose proof (src_agree w aw s HW) as Hsrc.
      destruct (src_content w s) as [m|], (a_src aw s) as [m'|]; try contradiction; [|now split].
      rewrite Hlm. destruct (Nat.ltb_spec j (length (w_slots w))) as [Hj|]; [|now split].
      destruct Hsrc as [[E1 E2]|(b0 & E1 & E2 & HR)].
      + rewrite E2. rewrite (proj2 (h_init_none (w_heap w) m) E1). now split.
      + rewrite E2. destruct (h_init (w_heap w) m) as [[h' r]|] eqn:E; [|apply h_init_none in E; congruence].
        cbn [fst snd]. split; [|reflexivity].
        destruct (map_new w j m h' r HS Hj E) as (HS' & (b & Eb & Hnew) & Hm & Hsd).
        assert (b = b0) by congruence. subst b.
        split; [exact HS'|]. cbn [a_seeds a_slots w_ns w_slots]. rewrite replace_nth_length, upd_length.
        split; [assumption|]. split; [|split; [assumption|]].
        * intros s' Hs'. rewrite Hsd by assumption. now apply Hseeds.
        * intros i. rewrite a_slot_replace by lia.
          destruct (Nat.eqb_spec i j) as [->|Hne]; [now rewrite Hnew|]. rewrite Hm by assumption. apply Hslots.
    - pose proof (Hslots i) as Hi. unfold slot_value in Hi. destruct (slot w i) as [r|] eqn:E.
      + destruct (a_slot aw i) as [p|] eqn:Ea; [|contradiction]. unfold BiMapHeap.h_step.
        destruct (rep_step leqb reqb leqb_spec reqb_spec _ _ o Hi) as [HR Hout].
        destruct (step leqb reqb (deref (w_heap w) r) o) as [b' res].
        destruct (a_step leqb reqb p o) as [p' res']. cbn [fst snd] in *. split; [|exact Hout].
        destruct (map_write w i r b' HS E) as (HS' & Hnew & Hm & Hsd).
        assert (Hil : i < length (a_slots aw)).
        { unfold a_slot in Ea. apply nth_error_Some. destruct (nth_error (a_slots aw) i); congruence. }
        split; [exact HS'|]. cbn [a_seeds a_slots w_ns w_slots]. rewrite replace_nth_length.
        split; [assumption|]. split; [|split; [assumption|]].
        * intros s' Hs'. rewrite Hsd by assumption. now apply Hseeds.
        * intros j. rewrite a_slot_replace by assumption.
          destruct (Nat.eqb_spec j i) as [->|Hne]; [now rewrite Hnew|]. rewrite Hm by assumption. apply Hslots.
      + destruct (a_slot aw i); [contradiction|]. now split.
    - rewrite if_pair. cbn [fst snd]. split; [|reflexivity].
      apply (seed_refines w aw s (fun m => dset leqb m k v) HW). intros m. apply (nodup_dset leqb leqb_spec).
    - rewrite if_pair. cbn [fst snd]. split; [|reflexivity].
      apply (seed_refines w aw s (fun m => ddel leqb m k) HW). intros m. apply (nodup_ddel leqb).
    - rewrite if_pair. cbn [fst snd]. split; [|reflexivity].
      apply (seed_refines w aw s (fun _ => []) HW). intros m _. constructor.
  Qed.

  Theorem wrun_refines ops : forall (w : world) aw, WRep w aw -> WRep (wrun w ops) (a_wrun aw ops).
  Proof.
    induction ops as [|o ops IH]; intros w aw HW; cbn; [assumption|]. apply IH. now apply wstep_refines.
  Qed.

  Lemma wrep_world0 seeds nm : Forall (fun m : list (L * R) => NoDup (keys m)) seeds ->
    WRep (world0 seeds nm) (aworld0 seeds nm).
  Proof.
    intros Hnd. split; [apply sep_world0|]. unfold world0, aworld0; cbn. split; [reflexivity|].
    split; [|split; [now rewrite !repeat_length|]].
    - intros s Hs. unfold seed_content, getF; cbn.
      destruct (nth_error seeds s) as [m|] eqn:E; [|apply nth_error_None in E; lia].
      rewrite (nth_error_nth _ _ _ E). split; [reflexivity|].
      rewrite Forall_forall in Hnd. apply Hnd. eapply nth_error_In; eassumption.
    - intros i. unfold slot_value, slot, a_slot; cbn.
      pose proof (@nth_error_repeat_None bmref nm i). pose proof (@nth_error_repeat_None (list (L * R)) nm i).
      destruct (nth_error (repeat None nm) i) as [[?|]|]; destruct (nth_error (repeat None nm) i) as [[?|]|]; tauto.
  Qed.

  (* every map variable of every reachable world is a bijection and reflects its live pairs *)
  Corollary world_reachable seeds nm ops : Forall (fun m : list (L * R) => NoDup (keys m)) seeds ->
    WRep (wrun (world0 seeds nm) ops) (a_wrun (aworld0 seeds nm) ops).
  Proof. intros H. apply wrun_refines. now apply wrep_world0. Qed.
  Corollary world_bij seeds nm ops i b : Forall (fun m : list (L * R) => NoDup (keys m)) seeds ->
    slot_value (wrun (world0 seeds nm) ops) i = Some b -> Bij b.
  Proof.
    intros H E. destruct (world_reachable seeds nm ops H) as (_ & _ & _ & _ & Hs). specialize (Hs i).
    rewrite E in Hs. destruct (a_slot _ i); [|contradiction]. apply Hs.
  Qed.
  Corollary world_frame seeds nm ops o :
    let w := wrun (world0 seeds nm) ops in
    (forall j, ~ addr_slot o j -> slot_value (fst (wstep w o)) j = slot_value w j) /\
    (forall s, s < w_ns w -> ~ addr_seed o s -> seed_content (fst (wstep w o)) s = seed_content w s).
  Proof.
    intros w. destruct (wstep_frame w o) as (H1 & H2 & _); [apply wrun_sep, sep_world0|]. now split.
  Qed.

  (* a constructed map starts from the content of its source at that moment; a rejected construction changes nothing *)
  Lemma wnew_effect (w : world) j s m : Sep w -> src_content w s = Some m -> j < length (w_slots w) ->
    match init reqb m with
    | Some b => slot_value (fst (wstep w (WNew j s))) j = Some b /\ snd (wstep w (WNew j s)) = Done
    | None => wstep w (WNew j s) = (w, NotBijection)
    end.
  Proof.
    intros HS Hm Hj. cbn [wstep]. rewrite Hm. destruct (Nat.ltb_spec j (length (w_slots w))); [|lia].
    destruct (h_init (w_heap w) m) as [[h' r]|] eqn:E.
    - destruct (map_new w j m h' r HS Hj E) as (_ & (b & Eb & Hnew) & _). rewrite Eb. now split.
    - apply h_init_none in E. now rewrite E.
  Qed.
End HeapP.

(* ---------- the model can tell the difference: a constructor that keeps the caller's dict object ---------- *)
Section Alias.
  (* `self.fwd = fwd` instead of `dict(fwd)`: the map's forward address is the seed's address *)
  Definition h_init_alias (h : @heap nat nat) (s : nat) : option (heap * bmref) :=
    match init Nat.eqb (getF h s) with
    | None => None
    | Some b => let '(h2, a2) := allocB h (bck b) in Some (h2, {| fa := s; ba := a2 |})
    end.
  (* seed {0:1}; m = BiMap(seed) keeping the seed object; the caller then does seed[2] = 1 *)
  Example alias_breaks_bijection :
    exists h r, h_init_alias {| hf := [[(0, 1)]]; hb := [] |} 0 = Some (h, r) /\
                let h' := setF h 0 (dset Nat.eqb (getF h 0) 2 1) in
                get_right Nat.eqb (deref h' r) 2 = Some 1 /\ get_left Nat.eqb (deref h' r) 1 = Some 0.
  Proof. eexists. eexists. split; [reflexivity|]. split; reflexivity. Qed.
End Alias.
