(* C01 (second pass) — rule 10: every dataflow region of the serialised document is acyclic, i.e. the boolean
   r_acyclic (Kahn's algorithm on fuel) is true, for every program of the modelled builder language whose
   add_state_order calls go forward (spec/BuilderWFS.v: ord_prog) and whose builder calls do not raise.

   The order: rank(n) = the node index of n, except that an Output node ranks above everything.  Every link
   between two siblings goes up in rank: the builders wire an existing node to the node being added (larger
   index); set_outputs wires into the Output node; the order edge of a non-local wire goes from the wire's
   source to the container being built that is its sibling, and that container was created after the source
   (EnvUnder: a wire of the environment starts before every container still open, or inside it). *)
From Coq Require Import NArith List Bool Arith Lia.
Import ListNotations.
From HV Require Import lib.Harness model.Validity model.Builder spec.BuilderS spec.BuilderWFS
  proofs.BuilderP proofs.BuilderExtP proofs.BuilderFrameP proofs.BuilderRulesP proofs.BuilderTypeP.
Local Open Scope N_scope.

(* ------------------------------------------------------------------ Kahn's algorithm empties a ranked region *)
Lemma filter_len_le {A} (f : A -> bool) l : (length (filter f l) <= length l)%nat.
Proof. induction l as [|y l IH]; cbn; [lia|]. destruct (f y); cbn; lia. Qed.
Lemma filter_length_lt {A} (f : A -> bool) l x : In x l -> f x = false -> (length (filter f l) < length l)%nat.
Proof.
  induction l as [|y l IH]; intros Hin Hf; [destruct Hin|]. cbn. destruct Hin as [->|Hin].
  - rewrite Hf. pose proof (filter_len_le f l). lia.
  - specialize (IH Hin Hf). destruct (f y); cbn; lia.
Qed.
Lemma exists_min (rank : N -> N) l : l <> [] -> exists m, In m l /\ forall x, In x l -> rank m <= rank x.
Proof.
  induction l as [|y l IH]; [congruence|]. intros _. destruct l as [|z l].
  - exists y. split; [now left|]. intros x [<-|[]]. lia.
  - destruct IH as (m & Hm & Hmin); [discriminate|].
    destruct (N.le_ge_cases (rank y) (rank m)).
    + exists y. split; [now left|]. intros x [<-|Hx]; [lia|]. specialize (Hmin _ Hx). lia.
    + exists m. split; [now right|]. intros x [<-|Hx]; [lia|auto].
Qed.
Lemma kahn_ranked (rank : N -> N) es : (forall e, In e es -> rank (fst e) < rank (snd e)) ->
  forall fuel alive, (length alive <= fuel)%nat -> kahn fuel es alive = [].
Proof.
  intros Hr fuel. induction fuel as [|f IH]; intros alive L; cbn [kahn].
  - destruct alive; [reflexivity|cbn in L; lia].
  - destruct alive as [|a0 al] eqn:Ea; [reflexivity|]. rewrite <- Ea in *. apply IH.
    destruct (exists_min rank alive) as (m & Hm & Hmin); [rewrite Ea; discriminate|].
    match goal with |- (length ?x <= f)%nat => assert (X : (length x < length alive)%nat) end.
    { apply (filter_length_lt _ _ m Hm). apply not_true_iff_false. intros H. apply existsb_exists in H.
      destruct H as (e & He & H). apply andb_true_iff in H. destruct H as [H1 H2]. apply N.eqb_eq in H1.
      unfold memN in H2. apply existsb_exists in H2. destruct H2 as (x & Hx & Hx2). apply N.eqb_eq in Hx2. subst x.
      specialize (Hr _ He). specialize (Hmin _ Hx). rewrite H1 in Hr. lia. }
    lia.
Qed.

(* ------------------------------------------------------------------ forward links *)
Definition out_at (l : list vnode) (n : N) : bool :=
  match nthN l n with Some nd => is_output (n_op nd) | None => false end.
Definition fwd_okb (l : list vnode) (e : edge) : bool :=
  negb (out_at l (e_src e)) && ((e_src e <? e_dst e) || out_at l (e_dst e)).
(* every link between two siblings goes forward *)
Definition Fwd (st : store) : Prop :=
  forall e, In e (s_links st) -> s_parent st (e_src e) = s_parent st (e_dst e) -> fwd_okb (s_nodes st) e = true.

Lemma out_at_ext st st' n : Ext st st' -> n < s_len st -> out_at (s_nodes st') n = out_at (s_nodes st) n.
Proof.
  intros X L. destruct (nthN_some_lt _ _ L) as [nd E]. destruct (nth_ext _ _ _ _ X E) as (nd' & E' & C).
  unfold out_at. rewrite E, E'. unfold cnode in C. inversion C as [[C1 C2]].
  now rewrite <- is_output_canon, C1, is_output_canon.
Qed.
Lemma Fwd_step st st' ext :
  Ext st st' -> LinksOK st -> s_links st' = s_links st ++ ext ->
  (forall e, In e ext -> s_parent st' (e_src e) = s_parent st' (e_dst e) -> fwd_okb (s_nodes st') e = true) ->
  Fwd st -> Fwd st'.
Proof.
  intros X K El Hnew Q e Hin. rewrite El in Hin. apply in_app_or in Hin. destruct Hin as [Hin|Hin]; [|now apply Hnew].
  destruct (LinksOK_in _ _ K Hin) as [Ls Ld].
  destruct (old_node_ext _ _ _ X Ls) as [Ps _]. destruct (old_node_ext _ _ _ X Ld) as [Pd _].
  rewrite Ps, Pd. intros Hp. specialize (Q e Hin Hp). unfold fwd_okb in *.
  now rewrite (out_at_ext _ _ _ X Ls), (out_at_ext _ _ _ X Ld).
Qed.
Lemma Fwd_nodes st st' : Ext st st' -> LinksOK st -> s_links st' = s_links st -> Fwd st -> Fwd st'.
Proof. intros X K El. refine (Fwd_step st st' [] X K _ _); [now rewrite app_nil_r|intros e []]. Qed.

(* ------------------------------------------------------------------ ancestors *)
Inductive Anc (par : N -> option N) (a : N) : N -> Prop :=
| Anc_direct n : par n = Some a -> Anc par a n
| Anc_step n m : par n = Some m -> Anc par a m -> Anc par a n.
Definition AncEq (par : N -> option N) (a p : N) : Prop := a = p \/ Anc par a p.

Lemma Anc_mono par par' a n : (forall k p, par k = Some p -> par' k = Some p) -> Anc par a n -> Anc par' a n.
Proof. intros M H. induction H; [apply Anc_direct|eapply Anc_step]; eauto. Qed.
Lemma Anc_child par a p n : par n = Some p -> AncEq par a p -> Anc par a n.
Proof. intros H [->|A]; [now apply Anc_direct|eapply Anc_step; eauto]. Qed.
Lemma Anc_inv_parent par a n p : Anc par a n -> par n = Some p -> AncEq par a p.
Proof. intros H E. inversion H; subst; rewrite E in H0; inversion H0; subst; [now left|now right]. Qed.
Lemma AncEq_mono par par' a p : (forall k q, par k = Some q -> par' k = Some q) -> AncEq par a p -> AncEq par' a p.
Proof. intros M [->|A]; [now left|right; eapply Anc_mono; eauto]. Qed.

Lemma s_parent_lt st n m : bounded (s_nodes st) = true -> s_parent st n = Some m -> m < n.
Proof.
  intros Hb H. unfold s_parent in H. destruct (N.eqb_spec n 0); [discriminate|].
  destruct (nthN (s_nodes st) n) as [nd|] eqn:E; [|discriminate]. cbn in H. inversion H; subst m.
  destruct (bounded_in _ _ _ Hb (nthN_in_indexed _ _ _ E)); [contradiction|assumption].
Qed.
Lemma Anc_parent_ge st a n : bounded (s_nodes st) = true -> Anc (s_parent st) a n ->
  exists m, s_parent st n = Some m /\ a <= m.
Proof.
  intros Hb H. induction H as [n H|n m H _ IH].
  - exists a. split; [exact H|lia].
  - destruct IH as (m' & Hm & L). exists m. split; [exact H|]. pose proof (s_parent_lt _ _ _ Hb Hm). lia.
Qed.
Lemma AncSib_AncEq par sp t a : AncSib par sp t a -> a = t \/ Anc par a t.
Proof.
  intros H. induction H as [t tp H1 H2|t tp a H1 H2 H3 IH]; [now left|right].
  destruct IH as [->|IH]; [now apply Anc_direct|eapply Anc_step; eauto].
Qed.
Lemma AncSib_parent par sp t a : AncSib par sp t a -> par a = sp.
Proof. intros H. induction H; congruence. Qed.

(* every wire of the environment starts before each container that is still open, or inside it *)
Definition EnvUnder (st : store) (P : N) (e : env) : Prop :=
  forall a, AncEq (s_parent st) a P -> forall w p, In (w, p) (e_wires e) -> fst p < a \/ Anc (s_parent st) a (fst p).

Lemma Ext_app a b ext : s_nodes b = s_nodes a ++ ext -> Ext a b.
Proof. intros E. exists (map cnode ext). now rewrite E, map_app. Qed.
Lemma Ext_cnode a b : map cnode (s_nodes b) = map cnode (s_nodes a) -> Ext a b.
Proof. intros E. exists []. now rewrite E, app_nil_r. Qed.
Lemma s_parent_cnode a b : map cnode (s_nodes b) = map cnode (s_nodes a) -> forall n, s_parent b n = s_parent a n.
Proof.
  intros E n. unfold s_parent. destruct (n =? 0); [reflexivity|].
  assert (H : nthN (map cnode (s_nodes b)) n = nthN (map cnode (s_nodes a)) n) by now rewrite E.
  rewrite !nthN_map in H. destruct (nthN (s_nodes b) n) as [x|], (nthN (s_nodes a) n) as [y|]; cbn in *; try discriminate; [|reflexivity].
  inversion H. reflexivity.
Qed.

Lemma EnvUnder_ext st st' P e : Ext st st' -> EnvRange st e -> P < s_len st ->
  (forall a, AncEq (s_parent st') a P -> AncEq (s_parent st) a P) -> EnvUnder st P e -> EnvUnder st' P e.
Proof.
  intros X R LP Hback H a Ha w p Hin. destruct (H a (Hback a Ha) w p Hin) as [L|A]; [now left|right].
  eapply Anc_mono; [|exact A]. intros k q. now apply parent_ext.
Qed.
(* ancestors of an old node are the same in an extension *)
Lemma Anc_back st st' a n : Ext st st' -> bounded (s_nodes st') = true -> n < s_len st ->
  Anc (s_parent st') a n -> Anc (s_parent st) a n.
Proof.
  intros X Hb L H. induction H as [n H|n m H _ IH].
  - apply Anc_direct. destruct (old_node_ext _ _ _ X L) as [P _]. now rewrite <- P.
  - destruct (old_node_ext _ _ _ X L) as [P _]. rewrite P in H. pose proof H as H'. rewrite <- P in H'.
    pose proof (s_parent_lt _ _ _ Hb H'). eapply Anc_step; [exact H|]. apply IH. lia.
Qed.
Lemma AncEq_back st st' a P : Ext st st' -> bounded (s_nodes st') = true -> P < s_len st ->
  AncEq (s_parent st') a P -> AncEq (s_parent st) a P.
Proof. intros X Hb L [->|A]; [now left|right; eapply Anc_back; eauto]. Qed.
Lemma EnvUnder_ext' st st' P e : Ext st st' -> bounded (s_nodes st') = true -> EnvRange st e -> P < s_len st ->
  EnvUnder st P e -> EnvUnder st' P e.
Proof. intros X Hb R LP. apply EnvUnder_ext; auto. intros a. now apply AncEq_back. Qed.

(* ------------------------------------------------------------------ the links of one _wire_up go forward *)
Lemma typed_not_out st w t : port_type st w = Ok t -> out_at (s_nodes st) (fst w) = false.
Proof.
  unfold port_type, s_op, out_at. destruct (nthN (s_nodes st) (fst w)) as [nd|]; [|reflexivity]. cbn.
  destruct (n_op nd); cbn; try reflexivity. unfold nthN. destruct (N.to_nat (snd w)); discriminate.
Qed.

Lemma olink_lt st P e w x node a :
  anc_sib st (fst w) node = Some a -> a <> node -> s_parent st node = Some P -> EnvUnder st P e ->
  In (x, w) (e_wires e) -> bounded (s_nodes st) = true -> fst w < a.
Proof.
  intros HA Hne HP EU Hin Hb. unfold anc_sib in HA. apply anc_sib_from_sound in HA.
  pose proof (AncSib_parent _ _ _ _ HA) as Hpar.
  destruct (AncSib_AncEq _ _ _ _ HA) as [->|A]; [contradiction|].
  pose proof (Anc_inv_parent _ _ _ _ A HP) as AE.
  destruct (EU a AE x w Hin) as [L|A2]; [exact L|exfalso].
  destruct (Anc_parent_ge _ _ _ Hb A2) as (m & Hm & Lm). rewrite Hm in Hpar.
  pose proof (s_parent_lt _ _ _ Hb Hpar). lia.
Qed.

Lemma WNew_fwd st node ws : forall i ts new, WNew st node i ws ts new ->
  forall P e, bounded (s_nodes st) = true -> s_parent st node = Some P -> EnvUnder st P e ->
  (forall w, In w ws -> exists x, In (x, w) (e_wires e)) ->
  (forall w, In w ws -> fst w < node) \/ out_at (s_nodes st) node = true ->
  forall e0, In e0 new -> fwd_okb (s_nodes st) e0 = true.
Proof.
  intros i ts new H. induction H; intros P e Hb HP EU Hws Hnode e0 Hin; [destruct Hin|].
  apply in_app_or in Hin. destruct Hin as [Hin|[<-|Hin]].
  - destruct H0 as [->|[-> Hne]]; [destruct Hin|]. destruct Hin as [<-|[]].
    unfold fwd_okb, olink. cbn [e_src e_dst]. rewrite (typed_not_out _ _ _ H1). cbn [negb andb].
    destruct (Hws w (or_introl eq_refl)) as [x Hx].
    pose proof (olink_lt _ _ _ _ _ _ _ H Hne HP EU Hx Hb) as L. apply orb_true_iff. left. now apply N.ltb_lt.
  - unfold fwd_okb, vlink. cbn [e_src e_dst]. rewrite (typed_not_out _ _ _ H1). cbn [negb andb].
    apply orb_true_iff. destruct Hnode as [Hn|Hn]; [left; apply N.ltb_lt; apply Hn; now left|now right].
  - eapply IHWNew; eauto.
    + intros w' Hw'. apply Hws. now right.
    + destruct Hnode as [Hn|Hn]; [left; intros w' Hw'; apply Hn; now right|now right].
Qed.

Lemma out_at_cnode l l' k : map cnode l = map cnode l' -> out_at l k = out_at l' k.
Proof.
  intros E. unfold out_at. assert (H : nthN (map cnode l) k = nthN (map cnode l') k) by now rewrite E.
  rewrite !nthN_map in H. destruct (nthN l k) as [x|], (nthN l' k) as [y|]; cbn in *; try discriminate; [|reflexivity].
  inversion H as [[H1 H2]]. now rewrite <- is_output_canon, H1, is_output_canon.
Qed.
Lemma fwd_okb_cnode l l' e : map cnode l = map cnode l' -> fwd_okb l e = fwd_okb l' e.
Proof. intros E. unfold fwd_okb. now rewrite !(out_at_cnode l l' _ E). Qed.
Lemma out_at_app l ext k : k < lenN l -> out_at (l ++ ext) k = out_at l k.
Proof. intros L. unfold out_at. now rewrite nthN_app_lt. Qed.

(* ------------------------------------------------------------------ statement ids in program order *)
Definition StmtsNotOut (l : list vnode) (e : env) : Prop := forall s n, In (s, n) (e_stmts e) -> out_at l n = false.

Fixpoint SSorted (e : env) (lo : N) (scope : list sid) : Prop :=
  match scope with
  | [] => True
  | s :: r => (exists n, lookup (e_stmts e) s = Some n /\ lo < n /\
                         forall s', In s' r -> exists n', lookup (e_stmts e) s' = Some n' /\ n' < n) /\
              SSorted e lo r
  end.
Definition ScopeInv (e : env) (lo : N) (scope used : list sid) : Prop :=
  SSorted e lo scope /\ (forall s n, In (s, n) (e_stmts e) -> In s used) /\ (forall s, In s scope -> In s used).
(* the bindings of the ids in `used` are not disturbed *)
Definition StmtsFresh (e e' : env) (used : list sid) : Prop :=
  forall s, In s used -> lookup (e_stmts e') s = lookup (e_stmts e) s.

Lemma memN_In x l : memN x l = true <-> In x l.
Proof.
  unfold memN. rewrite existsb_exists. split.
  - intros (y & Hy & E). apply N.eqb_eq in E. now subst.
  - intros H. exists x. split; [exact H|apply N.eqb_refl].
Qed.
Lemma SSorted_mem e lo scope s : SSorted e lo scope -> In s scope -> exists n, lookup (e_stmts e) s = Some n /\ lo < n.
Proof.
  induction scope as [|x r IH]; intros H Hin; [destruct Hin|]. destruct H as [(n & Hn & Ln & _) Hr].
  destruct Hin as [<-|Hin]; [eauto|auto].
Qed.
Lemma SSorted_before e lo scope s s' : SSorted e lo scope -> before s s' scope = true ->
  exists n n', lookup (e_stmts e) s = Some n /\ lookup (e_stmts e) s' = Some n' /\ n < n'.
Proof.
  induction scope as [|x r IH]; intros H B; [discriminate|]. cbn [before] in B. destruct H as [(n & Hn & _ & Hall) Hr].
  destruct (N.eqb_spec x s') as [->|_]; [|auto].
  apply memN_In in B. destruct (Hall _ B) as (n' & Hn' & L). eauto.
Qed.
Lemma SSorted_ext e e' lo scope : (forall s, In s scope -> lookup (e_stmts e') s = lookup (e_stmts e) s) ->
  SSorted e lo scope -> SSorted e' lo scope.
Proof.
  induction scope as [|x r IH]; intros E H; [exact I|]. destruct H as [(n & Hn & Ln & Hall) Hr]. split.
  - exists n. split; [rewrite E; [exact Hn|now left]|]. split; [exact Ln|]. intros s' Hs'.
    destruct (Hall _ Hs') as (n' & Hn' & L). exists n'. split; [rewrite E; [exact Hn'|now right]|exact L].
  - apply IH; [|exact Hr]. intros s Hs. apply E. now right.
Qed.

Lemma lookup_bind_stmt e id n rs s :
  lookup (e_stmts (bind_outs (bind_stmt e id n) n rs)) s = if s =? id then Some n else lookup (e_stmts e) s.
Proof. unfold bind_outs. rewrite bind_outs_from_stmts. reflexivity. Qed.

Lemma ScopeInv_push st e lo scope used id n rs :
  ScopeInv e lo scope used -> EnvRange st e -> ~ In id used -> s_len st <= n -> lo < n ->
  ScopeInv (bind_outs (bind_stmt e id n) n rs) lo (id :: scope) (id :: used).
Proof.
  intros (S & K & SU) R Hid Ln Llo.
  assert (E : forall s, In s scope -> lookup (e_stmts (bind_outs (bind_stmt e id n) n rs)) s = lookup (e_stmts e) s).
  { intros s Hs. rewrite lookup_bind_stmt. destruct (N.eqb_spec s id) as [->|_]; [|reflexivity]. elim Hid. auto. }
  split; [|split].
  - split; [|eapply SSorted_ext; eauto].
    exists n. split; [rewrite lookup_bind_stmt, N.eqb_refl; reflexivity|]. split; [exact Llo|].
    intros s' Hs'. destruct (SSorted_mem _ _ _ _ S Hs') as (n' & Hn' & _). exists n'. split; [rewrite E; auto|].
    apply lookup_In in Hn'. pose proof (proj2 R _ _ Hn'). lia.
  - intros s m Hin. unfold bind_outs in Hin. rewrite bind_outs_from_stmts in Hin. cbn in Hin.
    destruct Hin as [Hin|Hin]; [inversion Hin; now left|right; eauto].
  - intros s [<-|Hs]; [now left|right; auto].
Qed.
Lemma StmtsFresh_bind e id n rs used : ~ In id used -> StmtsFresh e (bind_outs (bind_stmt e id n) n rs) used.
Proof. intros Hid s Hs. rewrite lookup_bind_stmt. destruct (N.eqb_spec s id) as [->|_]; [contradiction|reflexivity]. Qed.
Lemma StmtsFresh_trans e e1 e2 used used1 : (forall s, In s used -> In s used1) ->
  StmtsFresh e e1 used -> StmtsFresh e1 e2 used1 -> StmtsFresh e e2 used.
Proof. intros I A B s Hs. rewrite B by auto. now apply A. Qed.

Lemma ScopeInv_push_gen st e0 e lo scope used used' id n rs :
  ScopeInv e0 lo scope used -> EnvRange st e0 -> StmtsFresh e0 e used ->
  (forall s m, In (s, m) (e_stmts e) -> In s used') -> ~ In id used -> In id used' ->
  (forall s, In s used -> In s used') -> s_len st <= n -> lo < n ->
  ScopeInv (bind_outs (bind_stmt e id n) n rs) lo (id :: scope) used'.
Proof.
  intros (S & K & SU) R F K' Hid Hid' Inc Ln Llo.
  assert (E : forall s, In s scope -> lookup (e_stmts (bind_outs (bind_stmt e id n) n rs)) s = lookup (e_stmts e0) s).
  { intros s Hs. rewrite lookup_bind_stmt. destruct (N.eqb_spec s id) as [->|_]; [elim Hid; auto|]. apply F. auto. }
  split; [|split].
  - split; [|eapply SSorted_ext; eauto].
    exists n. split; [rewrite lookup_bind_stmt, N.eqb_refl; reflexivity|]. split; [exact Llo|].
    intros s' Hs'. destruct (SSorted_mem _ _ _ _ S Hs') as (n' & Hn' & _). exists n'. split; [rewrite E; auto|].
    apply lookup_In in Hn'. pose proof (proj2 R _ _ Hn'). lia.
  - intros s m Hin. unfold bind_outs in Hin. rewrite bind_outs_from_stmts in Hin. cbn in Hin.
    destruct Hin as [Hin|Hin]; [inversion Hin; subst; exact Hid'|eauto].
  - intros s [<-|Hs]; [exact Hid'|auto].
Qed.

Lemma EnvUnder_nodes a b P e : s_nodes a = s_nodes b -> EnvUnder a P e -> EnvUnder b P e.
Proof.
  intros E H x Hx w p Hin.
  assert (M1 : forall k q, s_parent b k = Some q -> s_parent a k = Some q) by (intros k q; now rewrite (s_parent_nodes a b E)).
  assert (M2 : forall k q, s_parent a k = Some q -> s_parent b k = Some q) by (intros k q; now rewrite (s_parent_nodes a b E)).
  destruct (H x (AncEq_mono _ _ _ _ M1 Hx) w p Hin) as [L|A]; [now left|right; eapply Anc_mono; eauto].
Qed.
Lemma EnvUnder_bind st P e id n rs : EnvUnder st P e -> s_parent st n = Some P ->
  EnvUnder st P (bind_outs (bind_stmt e id n) n rs).
Proof.
  intros H HP a Ha w p Hin. unfold bind_outs in Hin. apply bind_outs_from_wires in Hin. destruct Hin as [Hin|Hin].
  - eapply H; eauto.
  - right. rewrite Hin. eapply Anc_child; eauto.
Qed.
Lemma EnvUnder_bind_in st P e n ws : EnvUnder st P e -> s_parent st n = Some P -> EnvUnder st P (bind_outs e n ws).
Proof.
  intros H HP a Ha w p Hin. unfold bind_outs in Hin. apply bind_outs_from_wires in Hin. destruct Hin as [Hin|Hin].
  - eapply H; eauto.
  - right. rewrite Hin. eapply Anc_child; eauto.
Qed.
Lemma StmtsNotOut_bind l e id n rs : StmtsNotOut l e -> out_at l n = false -> StmtsNotOut l (bind_outs (bind_stmt e id n) n rs).
Proof.
  intros H Hn s m Hin. unfold bind_outs in Hin. rewrite bind_outs_from_stmts in Hin. cbn in Hin.
  destruct Hin as [Hin|Hin]; [inversion Hin; subst; exact Hn|eauto].
Qed.
Lemma StmtsNotOut_ext st st' e : Ext st st' -> EnvRange st e -> StmtsNotOut (s_nodes st) e -> StmtsNotOut (s_nodes st') e.
Proof. intros X R H s n Hin. rewrite (out_at_ext _ _ _ X (proj2 (proj2 R _ _ Hin))). eauto. Qed.
Lemma s_parent_at st n nd : nthN (s_nodes st) n = Some nd -> n <> 0 -> s_parent st n = Some (n_parent nd).
Proof. intros E Hn. unfold s_parent. destruct (N.eqb_spec n 0); [contradiction|]. now rewrite E. Qed.
Lemma s_parent_mk st n o p : nthN (s_nodes st) n = Some (mk o p) -> n <> 0 -> s_parent st n = Some p.
Proof. intros E Hn. now rewrite (s_parent_at _ _ _ E Hn). Qed.
Lemma initial_not_output o : is_output (initial_op o) = false. Proof. now destruct o. Qed.

Section AcyMain.
  Variable tys : list tyinfo.

  Record Cpre (st : store) (b : dfb) (e : env) : Prop := {
    cp_inv : Inv st; cp_base : Abase st; cp_open : OpenB (s_nodes st) b; cp_range : EnvRange st e }.
  Record Cinv (st : store) (b : dfb) (e : env) : Prop := {
    ci_fwd : Fwd st; ci_under : EnvUnder st (b_parent b) e; ci_stmts : StmtsNotOut (s_nodes st) e }.

  Lemma cpre_stmt s b st e st' e' : exec_stmt tys s b st e = Ok (st', e') -> Cpre st b e ->
    Cpre st' b e' /\ Keep st st' /\ Ext st st' /\ s_len st <= s_len st'.
  Proof.
    intros H [I A O R]. destruct (exec_keeps_invariants tys) as (KS & _ & _). destruct (exec_frame tys) as (FSs & _ & _).
    destruct (KS _ _ _ _ _ _ H I (OpenB_WB _ _ O)) as [I' X].
    destruct (FSs _ _ _ _ _ _ H A O R) as (A' & K & L & R' & _).
    split; [constructor; auto; eapply OpenB_keep; eauto|auto].
  Qed.
  Lemma cpre_stmts l b st e st' e' : exec_stmts tys l b st e = Ok (st', e') -> Cpre st b e ->
    Cpre st' b e' /\ Keep st st' /\ Ext st st' /\ s_len st <= s_len st'.
  Proof.
    intros H [I A O R]. destruct (exec_keeps_invariants tys) as (_ & _ & KL). destruct (exec_frame tys) as (_ & _ & FLl).
    destruct (KL _ _ _ _ _ _ H I (OpenB_WB _ _ O)) as [I' X].
    destruct (FLl _ _ _ _ _ _ H A O R) as (A' & K & L & R' & _).
    split; [constructor; auto; eapply OpenB_keep; eauto|auto].
  Qed.

  Definition CS (s : stmt) : Prop := forall b st e st' e' scope used scope' used',
    exec_stmt tys s b st e = Ok (st', e') -> ord_stmt s scope used = Some (scope', used') ->
    Cpre st b e -> Cinv st b e -> ScopeInv e (b_parent b + 2) scope used ->
    Cinv st' b e' /\ ScopeInv e' (b_parent b + 2) scope' used' /\ StmtsFresh e e' used /\
    (forall x, In x used -> In x used').
  Definition CR (r : region) : Prop := forall b st e st' e' used used',
    exec_region tys r b st e = Ok (st', e') -> ord_region r used = Some used' ->
    Cpre st b e -> Cinv st b e -> (forall s n, In (s, n) (e_stmts e) -> In s used) ->
    Fwd st' /\ EnvUnder st' (b_parent b) e' /\ StmtsNotOut (s_nodes st') e' /\
    (forall s n, In (s, n) (e_stmts e') -> In s used') /\ StmtsFresh e e' used /\ (forall x, In x used -> In x used').
  Definition CL (l : stmts) : Prop := forall b st e st' e' scope used scope' used',
    exec_stmts tys l b st e = Ok (st', e') -> ord_stmts l scope used = Some (scope', used') ->
    Cpre st b e -> Cinv st b e -> ScopeInv e (b_parent b + 2) scope used ->
    Cinv st' b e' /\ ScopeInv e' (b_parent b + 2) scope' used' /\ StmtsFresh e e' used /\
    (forall x, In x used -> In x used').

  Lemma memN_false x l : memN x l = false -> ~ In x l.
  Proof. intros H Hin. apply memN_In in Hin. congruence. Qed.

  Lemma exec_forward : (forall s, CS s) /\ (forall r, CR r) /\ (forall l, CL l).
  Proof.
    apply prog_mutind; unfold CS, CR, CL.
    - (* SOp *)
      intros id o args rs b st e st' e' scope used scope' used' H OD P C SI. cbn [ord_stmt] in OD.
      destruct (memN id used) eqn:Mid; [discriminate|]. inversion OD; subst scope' used'; clear OD.
      apply memN_false in Mid.
      destruct (cpre_stmt _ _ _ _ _ _ H P) as ([I' A' O' R'] & K & X & L).
      destruct P as [I A O R]. destruct C as [FW EU SN].
      apply SOp_spec in H. destruct H as (ws & ts & op' & new & st1 & Gw & Lp & En1 & El1 & HW & Cc & En' & El' & ->).
      pose proof (OpenB_lt _ _ O) as Lb. fold (s_len st) in Lb.
      assert (Ec : map cnode (s_nodes st') = map cnode (s_nodes st1)).
      { rewrite En1, En', !map_app. f_equal. cbn. unfold cnode. cbn. now rewrite (completed_canon tys _ _ _ Cc). }
      assert (B1 : bounded (s_nodes st1) = true).
      { rewrite <- bounded_canon, <- Ec, bounded_canon. exact (proj1 (proj2 (proj2 (proj1 I')))). }
      assert (HP1 : s_parent st1 (s_len st) = Some (b_parent b)).
      { eapply s_parent_mk; [rewrite En1; unfold s_len; apply nthN_len|lia]. }
      assert (HP' : s_parent st' (s_len st) = Some (b_parent b)) by (rewrite (s_parent_cnode _ _ Ec); exact HP1).
      assert (B' : bounded (s_nodes st') = true) by exact (proj1 (proj2 (proj2 (proj1 I')))).
      assert (EU' : EnvUnder st' (b_parent b) e) by (eapply EnvUnder_ext'; eauto).
      split; [constructor|split; [|split]].
      + eapply Fwd_step; [exact X|exact (proj2 I)|exact El'| |exact FW].
        intros e0 Hin _. rewrite (fwd_okb_cnode _ _ e0 Ec).
        eapply (WNew_fwd _ _ _ _ _ _ HW (b_parent b) e); eauto.
        * eapply EnvUnder_ext'; [eapply Ext_app; exact En1|exact B1|exact R|exact Lp|exact EU].
        * intros w Hw. eapply get_wires_In; eauto.
        * left. intros w Hw. apply (get_wires_pos _ _ _ _ R Gw _ Hw).
      + now apply EnvUnder_bind.
      + apply StmtsNotOut_bind; [eapply StmtsNotOut_ext; eauto|].
        unfold out_at. rewrite En'. unfold s_len. rewrite nthN_len. cbn [mk n_op].
        now rewrite <- is_output_canon, (completed_canon tys _ _ _ Cc), is_output_canon, initial_not_output.
      + apply (ScopeInv_push_gen st e e (b_parent b + 2) scope used (id :: used) id _ _ SI R);
          [intros s Hs; reflexivity|intros s m Hin; right; exact (proj1 (proj2 SI) _ _ Hin)|exact Mid|now left
          |intros s Hs; now right|lia|lia].
      + now apply StmtsFresh_bind.
      + intros x Hx. now right.
    - (* SLoad *)
      intros id v cp r b st e st' e' scope used scope' used' H OD P C SI. cbn [ord_stmt] in OD.
      destruct (memN id used) eqn:Mid; [discriminate|]. inversion OD; subst scope' used'; clear OD.
      apply memN_false in Mid.
      destruct (cpre_stmt _ _ _ _ _ _ H P) as ([I' A' O' R'] & K & X & L).
      destruct P as [I A O R]. destruct C as [FW EU SN].
      apply SLoad_spec in H. destruct H as (En' & El' & ->).
      pose proof (OpenB_lt _ _ O) as Lb. fold (s_len st) in Lb.
      assert (B' : bounded (s_nodes st') = true) by exact (proj1 (proj2 (proj2 (proj1 I')))).
      assert (Hc : nthN (s_nodes st') (s_len st) = Some (mk (Const v) (match cp with CHere => b_parent b | CRoot => 0 end)))
        by (rewrite En'; unfold s_len; apply nthN_len).
      assert (Hn : nthN (s_nodes st') (s_len st + 1) = Some (mk (LoadConst (value_ty v)) (b_parent b))).
      { rewrite En'. rewrite nthN_app_ge by (unfold s_len; lia). unfold s_len.
        replace (lenN (s_nodes st) + 1 - lenN (s_nodes st)) with 1 by lia. reflexivity. }
      assert (HP' : s_parent st' (s_len st + 1) = Some (b_parent b)) by (eapply s_parent_mk; [exact Hn|lia]).
      assert (EU' : EnvUnder st' (b_parent b) e) by (eapply EnvUnder_ext'; eauto; lia).
      split; [constructor|split; [|split]].
      + eapply Fwd_step; [exact X|exact (proj2 I)|exact El'| |exact FW].
        intros e0 [<-|[]] _. unfold fwd_okb, out_at. cbn [e_src e_dst]. rewrite Hc. cbn [mk n_op is_output negb andb].
        apply orb_true_iff. left. apply N.ltb_lt. lia.
      + now apply EnvUnder_bind.
      + apply StmtsNotOut_bind; [eapply StmtsNotOut_ext; eauto|]. unfold out_at. now rewrite Hn.
      + apply (ScopeInv_push_gen st e e (b_parent b + 2) scope used (id :: used) id _ _ SI R);
          [intros s Hs; reflexivity|intros s m Hin; right; exact (proj1 (proj2 SI) _ _ Hin)|exact Mid|now left
          |intros s Hs; now right|lia|lia].
      + now apply StmtsFresh_bind.
      + intros x Hx. now right.
    - (* SNested *)
      intros id args body IH rs b st e st' e' scope used scope' used' H OD P C SI. cbn [ord_stmt] in OD.
      destruct (memN id used) eqn:Mid; [discriminate|]. apply memN_false in Mid.
      match type of OD with match ?x with _ => _ end = _ => destruct x as [used1|] eqn:OR; [|discriminate] end.
      inversion OD; subst scope' used'; clear OD.
      destruct (cpre_stmt _ _ _ _ _ _ H P) as ([I' A' O' R'] & K & X & L).
      destruct P as [I A O R]. destruct C as [FW EU SN].
      apply SNested_spec in H.
      destruct H as (ws & ts & new & st3 & st4 & e5 & Gw & T & Lp & En3 & El3 & HW & En4 & El4 & XR & ->).
      destruct (nested_entry _ _ _ _ _ _ _ _ I A O R (get_wires_pos _ _ _ _ R Gw) En3 HW En4 El4) as (I4 & A4 & O4 & R4 & L4).
      pose proof (OpenB_lt _ _ O) as Lb. fold (s_len st) in Lb.
      set (d := s_len st) in *.
      assert (X4 : Ext st st4) by (eapply Ext_app; rewrite En4; exact En3).
      assert (B4 : bounded (s_nodes st4) = true) by exact (proj1 (proj2 (proj2 (proj1 I4)))).
      assert (Hd4 : nthN (s_nodes st4) d = Some (mk (DFG ts []) (b_parent b))) by (rewrite En4, En3; apply nthN_len).
      assert (HP4 : s_parent st4 d = Some (b_parent b)) by (eapply s_parent_mk; [exact Hd4|lia]).
      assert (EU4 : EnvUnder st4 (b_parent b) e) by (eapply EnvUnder_ext'; eauto).
      assert (P4 : Cpre st4 {| b_parent := d; b_in := d + 1; b_out := d + 2 |} e) by (constructor; auto).
      assert (C4 : Cinv st4 {| b_parent := d; b_in := d + 1; b_out := d + 2 |} e).
      { constructor.
        - eapply Fwd_step; [exact X4|exact (proj2 I)|exact El4| |exact FW].
          intros e0 Hin _. rewrite En4.
          eapply (WNew_fwd _ _ _ _ _ _ HW (b_parent b) e); eauto.
          + now rewrite <- En4.
          + rewrite <- (s_parent_nodes st4 st3 En4). exact HP4.
          + eapply EnvUnder_nodes; [exact En4|exact EU4].
          + intros w Hw. eapply get_wires_In; eauto.
          + left. intros w Hw. apply (get_wires_pos _ _ _ _ R Gw _ Hw).
        - cbn [b_parent]. intros a [->|Ha] w p Hin.
          + left. apply (proj1 R _ _ Hin).
          + eapply EU4; eauto. eapply Anc_inv_parent; eauto.
        - eapply StmtsNotOut_ext; eauto. }
      assert (K4 : forall s n, In (s, n) (e_stmts e) -> In s (id :: used)) by (intros s n Hin; right; exact (proj1 (proj2 SI) _ _ Hin)).
      destruct (IH _ _ _ _ _ _ _ XR OR P4 C4 K4) as (FW' & EU5 & SN5 & K5 & F5 & Inc5). cbn [b_parent] in *.
      destruct (exec_keeps_invariants tys) as (_ & KR & _).
      destruct (KR _ _ _ _ _ _ XR I4 (OpenB_WB _ _ O4)) as [_ X45].
      assert (HP' : s_parent st' d = Some (b_parent b)) by (eapply parent_ext; eauto).
      split; [constructor|split; [|split]].
      + exact FW'.
      + apply EnvUnder_bind; [|exact HP']. intros a Ha. apply EU5. right. eapply Anc_child; eauto.
      + apply StmtsNotOut_bind; [exact SN5|].
        rewrite (out_at_ext _ _ _ X45) by lia. unfold out_at. now rewrite Hd4.
      + apply (ScopeInv_push_gen st e e5 (b_parent b + 2) scope used used1 id _ _ SI R);
          [intros s Hs; apply F5; now right|exact K5|exact Mid|apply Inc5; now left
          |intros s Hs; apply Inc5; now right|fold d; lia|lia].
      + intros s Hs. rewrite lookup_bind_stmt. destruct (N.eqb_spec s id) as [->|_]; [contradiction|]. apply F5. now right.
      + intros x Hx. apply Inc5. now right.
    - (* SOrder *)
      intros src dst b st e st' e' scope used scope' used' H OD P C SI. cbn [ord_stmt] in OD.
      destruct (order_fwd scope src dst) eqn:OF; [|discriminate]. inversion OD; subst scope' used'; clear OD.
      destruct (cpre_stmt _ _ _ _ _ _ H P) as ([I' A' O' R'] & K & X & L).
      destruct P as [I A O R]. destruct C as [FW EU SN].
      apply SOrder_spec in H. destruct H as (a & c & Na & Nc & En' & El' & ->).
      pose proof (OpenB_lt _ _ O) as Lb. fold (s_len st) in Lb.
      assert (B' : bounded (s_nodes st') = true) by exact (proj1 (proj2 (proj2 (proj1 I')))).
      split; [constructor|split; [|split]]; auto.
      + destruct El' as [El'|El']; [eapply Fwd_nodes; [exact X|exact (proj2 I)|exact El'|exact FW]|].
        eapply Fwd_step; [exact X|exact (proj2 I)|exact El'| |exact FW].
        intros e0 [<-|[]] _. rewrite En'. unfold fwd_okb, olink. cbn [e_src e_dst].
        destruct O as (Ei & Eo & i & pp & Hp & Ho). destruct (proj1 (proj2 A) _ _ _ _ Hp eq_refl) as [Hi _].
        assert (OutO : out_at (s_nodes st) (b_out b) = true) by (unfold out_at; now rewrite Eo, Ho).
        assert (OutI : out_at (s_nodes st) (b_in b) = false) by (unfold out_at; now rewrite Ei, Hi).
        destruct src as [| |s], dst as [| |s']; cbn [order_fwd] in OF; try discriminate; cbn [node_of] in Na, Nc.
        * inversion Na; inversion Nc; subst a c. rewrite OutI, OutO. now rewrite orb_true_r.
        * inversion Na; subst a. destruct (lookup (e_stmts e) s') as [m|] eqn:Es; [|discriminate]. inversion Nc; subst m.
          apply memN_In in OF. destruct (SSorted_mem _ _ _ _ (proj1 SI) OF) as (n & Hn & Ln). rewrite Es in Hn. inversion Hn; subst n.
          rewrite OutI. cbn [negb andb]. apply orb_true_iff. left. apply N.ltb_lt. lia.
        * inversion Nc; subst c. destruct (lookup (e_stmts e) s) as [m|] eqn:Es; [|discriminate]. inversion Na; subst m.
          rewrite (SN _ _ (lookup_In _ _ _ Es)), OutO. now rewrite orb_true_r.
        * destruct (lookup (e_stmts e) s) as [m|] eqn:Es; [|discriminate]. inversion Na; subst m.
          destruct (lookup (e_stmts e) s') as [m|] eqn:Es'; [|discriminate]. inversion Nc; subst m.
          destruct (SSorted_before _ _ _ _ _ (proj1 SI) OF) as (n & n' & Hn & Hn' & Lt).
          rewrite Es in Hn. rewrite Es' in Hn'. inversion Hn; inversion Hn'; subst n n'.
          rewrite (SN _ _ (lookup_In _ _ _ Es)). cbn [negb andb]. apply orb_true_iff. left. now apply N.ltb_lt.
      + eapply EnvUnder_ext'; [exact X|exact B'|exact R|lia|exact EU].
      + eapply StmtsNotOut_ext; eauto.
      + intros s Hs. reflexivity.
    - (* Region *)
      intros wids body IH oids b st e st' e' used used' H OD P C Kk. cbn [ord_region] in OD.
      match type of OD with match ?x with _ => _ end = _ => destruct x as [[sc used1]|] eqn:OB; [|discriminate] end.
      inversion OD; subst used1; clear OD.
      apply exec_region_inv in H. destruct H as (st1 & ws & XB & Gw & SO).
      pose proof P as [I A O R]. pose proof C as [FW EU SN].
      pose proof (OpenB_lt _ _ O) as Lb. fold (s_len st) in Lb.
      pose proof O as (Ei & Eo & i & pp & Hp & Ho). destruct (proj1 (proj2 A) _ _ _ _ Hp eq_refl) as [Hi _].
      assert (HPi : s_parent st (b_in b) = Some (b_parent b)) by (rewrite Ei; eapply s_parent_mk; [exact Hi|lia]).
      assert (P0 : Cpre st b (bind_outs e (b_in b) wids)) by (constructor; auto; apply EnvRange_bind_in; [exact R|lia|lia]).
      assert (C0 : Cinv st b (bind_outs e (b_in b) wids)).
      { constructor; [exact FW|now apply EnvUnder_bind_in|].
        intros s n Hin. unfold bind_outs in Hin. rewrite bind_outs_from_stmts in Hin. eauto. }
      assert (S0 : ScopeInv (bind_outs e (b_in b) wids) (b_parent b + 2) [] used).
      { split; [exact Logic.I|]. split; [|intros s []].
        intros s n Hin. unfold bind_outs in Hin. rewrite bind_outs_from_stmts in Hin. eauto. }
      destruct (IH _ _ _ _ _ _ _ _ _ XB OB P0 C0 S0) as ([FW1 EU1 SN1] & SI1 & F1 & Inc1).
      destruct (cpre_stmts _ _ _ _ _ _ XB P0) as ([I1 A1 O1 R1] & K1 & X1 & L1).
      pose proof (set_outputs_same _ _ _ _ SO (OpenB_WB _ _ O1)) as S1.
      pose proof (Inv_Same _ _ S1 I1) as I'.
      destruct (set_outputs_spec _ _ _ _ SO O1) as (ts & new & i1 & pp1 & HW & El' & Hp1 & En').
      assert (B1 : bounded (s_nodes st1) = true) by exact (proj1 (proj2 (proj2 (proj1 I1)))).
      assert (B' : bounded (s_nodes st') = true) by exact (proj1 (proj2 (proj2 (proj1 I')))).
      destruct O1 as (_ & _ & i2 & pp2 & Hp2 & Ho2).
      assert (HPo : s_parent st1 (b_out b) = Some (b_parent b)) by (rewrite Eo; eapply s_parent_mk; [exact Ho2|lia]).
      split; [|split; [|split; [|split; [|split]]]].
      + eapply Fwd_step; [exact (Same_Ext _ _ S1)|exact (proj2 I1)|exact El'| |exact FW1].
        intros e0 Hin _. rewrite (fwd_okb_cnode _ _ e0 (proj1 S1)).
        eapply (WNew_fwd _ _ _ _ _ _ HW (b_parent b) e'); eauto.
        * intros w Hw. eapply get_wires_In; eauto.
        * right. unfold out_at. now rewrite Eo, Ho2.
      + eapply EnvUnder_ext'; [exact (Same_Ext _ _ S1)|exact B'|exact R1| |exact EU1]. lia.
      + eapply StmtsNotOut_ext; [exact (Same_Ext _ _ S1)|exact R1|exact SN1].
      + exact (proj1 (proj2 SI1)).
      + intros s Hs. rewrite (F1 s Hs). unfold bind_outs. now rewrite bind_outs_from_stmts.
      + exact Inc1.
    - (* SNil *)
      intros b st e st' e' scope used scope' used' H OD P C SI. cbn in H, OD. inversion H; inversion OD; subst.
      split; [exact C|]. split; [exact SI|]. split; [intros s Hs; reflexivity|auto].
    - (* SCons *)
      intros s IHs r IHr b st e st' e' scope used scope' used' H OD P C SI. cbn [ord_stmts] in OD.
      match type of OD with match ?x with _ => _ end = _ => destruct x as [[sc1 us1]|] eqn:O1; [|discriminate] end.
      apply exec_SCons_inv in H. destruct H as (st1 & e1 & X1 & X2).
      destruct (IHs _ _ _ _ _ _ _ _ _ X1 O1 P C SI) as (C1 & SI1 & F1 & Inc1).
      destruct (cpre_stmt _ _ _ _ _ _ X1 P) as (P1 & _).
      destruct (IHr _ _ _ _ _ _ _ _ _ X2 OD P1 C1 SI1) as (C2 & SI2 & F2 & Inc2).
      split; [exact C2|]. split; [exact SI2|]. split; [eapply StmtsFresh_trans; eauto|auto].
  Qed.
End AcyMain.

(* ------------------------------------------------------------------ from forward links to the boolean r_acyclic *)
Lemma resolve_ends g e r : resolve g e = Some r -> r_src r = e_src e /\ r_dst r = e_dst e.
Proof.
  unfold resolve. destruct (op_of g (e_src e)) as [so|]; [|discriminate]. destruct (op_of g (e_dst e)) as [do_|]; [|discriminate].
  destruct (match e_soff e with Some x => Some x | None => other_port_out so end) as [a|]; [|discriminate].
  destruct (match e_doff e with Some x => Some x | None => other_port_in do_ end) as [b|]; [|discriminate].
  destruct (kind_out so a); [|discriminate]. intros H. inversion H. auto.
Qed.
Lemma children_parent st p n : memN n (children (to_serial st) p) = true -> s_parent st n = Some p /\ n < s_len st.
Proof.
  intros H. apply memN_In in H. unfold children in H. apply in_flat_map in H. destruct H as ([i x] & Hin & H).
  cbn [fst snd to_serial g_nodes] in *. destruct (N.eqb_spec i 0); cbn [negb andb] in H; [destruct H|].
  destruct (N.eqb_spec (n_parent x) p) as [E|_]; [|destruct H]. destruct H as [<-|[]].
  apply in_indexed in Hin. split; [|eapply nthN_lt; eauto]. rewrite <- E. now apply s_parent_at.
Qed.

Lemma acyclic_of_fwd st : Fwd st -> r_acyclic (to_serial st) = true.
Proof.
  intros FW. unfold r_acyclic. apply forallb_forall. intros [p nd] _. cbn [fst snd]. apply orb_true_iff. right.
  unfold region_acyclic. set (g := to_serial st). set (cs := children g p).
  rewrite (kahn_ranked (fun n => if out_at (s_nodes st) n then s_len st else n)); [reflexivity| |lia].
  intros [s d] Hin. cbn [fst snd]. apply in_flat_map in Hin. destruct Hin as (r & Hr & Hin).
  destruct (memN (r_src r) cs && memN (r_dst r) cs) eqn:M; [|destruct Hin]. destruct Hin as [E|[]]. inversion E; subst s d; clear E.
  apply andb_true_iff in M. destruct M as [M1 M2].
  destruct (children_parent _ _ _ M1) as [P1 L1]. destruct (children_parent _ _ _ M2) as [P2 L2].
  unfold redges in Hr. apply in_flat_map in Hr. destruct Hr as (e' & He' & Hr).
  destruct (resolve g e') as [r'|] eqn:Er; [|destruct Hr]. destruct Hr as [<-|[]].
  destruct (resolve_ends _ _ _ Er) as [Es Ed].
  unfold g in He'. rewrite to_serial_edges in He'. apply in_map_iff in He'. destruct He' as (e & <- & He).
  cbn [ser e_src e_dst] in Es, Ed. rewrite Es, Ed in *.
  assert (F : fwd_okb (s_nodes st) e = true) by (apply FW; [exact He|congruence]).
  unfold fwd_okb in F. apply andb_true_iff in F. destruct F as [F1 F2]. apply negb_true_iff in F1. rewrite F1.
  apply orb_true_iff in F2. destruct (out_at (s_nodes st) (e_dst e)); [exact L1|].
  destruct F2 as [F2|F2]; [now apply N.ltb_lt|discriminate].
Qed.

(* ------------------------------------------------------------------ the theorem *)
Lemma init_Fwd ins : Fwd (st0 ins). Proof. intros e []. Qed.

Theorem exec_prog_forward tys p st : ord_prog p = true -> exec_prog tys p = Ok st -> Fwd st.
Proof.
  destruct p as [ins body]. unfold ord_prog. intros OD H.
  destruct (ord_region body []) as [used'|] eqn:OR; [|discriminate].
  apply exec_prog_inv in H. destruct H as [e' H].
  destruct (exec_forward tys) as (_ & CRr & _).
  assert (P0 : Cpre (st0 ins) b0 e0).
  { constructor; [apply init_Inv|apply init_Abase|apply init_OpenB|apply init_EnvRange]. }
  assert (C0 : Cinv (st0 ins) b0 e0).
  { constructor; [apply init_Fwd|intros a Ha w p []|intros s n []]. }
  destruct (CRr _ _ _ _ _ _ _ _ H OR P0 C0) as (FW & _); [intros s n []|exact FW].
Qed.

Theorem run_acyclic tys p g : ord_prog p = true -> run tys p = Ok g -> r_acyclic g = true.
Proof.
  unfold run. intros OD H. bd H. rename v into st. inversion H; subst; clear H.
  apply acyclic_of_fwd. eapply exec_prog_forward; eauto.
Qed.

(* non-vacuity: the example program of proofs/BuilderTypeP.v has forward order statements; and the premise
   matters: the same builders accept a backward add_state_order, which closes a cycle *)
Example ex2_ord : ord_prog ex2_prog = true.
Proof. vm_compute; reflexivity. Qed.
Definition ex_cyclic : prog :=
  PDfg [0] (Region [1]
    (SCons (SOp 1 ONoop [1] [2])
    (SCons (SOp 2 ONoop [2] [3])
    (SCons (SOrder (RStmt 2) (RStmt 1)) SNil))) [3]).
Example ex_cyclic_refuted : ord_prog ex_cyclic = false /\ wt_prog ex_tys ex_cyclic = true /\
  exists g, run ex_tys ex_cyclic = Ok g /\ r_acyclic g = false.
Proof. split; [vm_compute; reflexivity|]. split; [vm_compute; reflexivity|]. eexists. split; vm_compute; reflexivity. Qed.
Example ex2_all : (wt_prog ex2_tys ex2_prog = true /\ ord_prog ex2_prog = true) /\
  exists g, run ex2_tys ex2_prog = Ok g /\
    valid {| v_tys := ex2_tys; v_main := g; v_subs := [] |} = true /\ length (g_nodes g) = 13%nat /\
    existsb (fun e => negb (optN_eqb (parent_of g (e_src e)) (parent_of g (e_dst e)))) (g_edges g) = true.
Proof. split; [split; [exact (proj1 ex2_runs)|exact ex2_ord]|exact (proj2 ex2_runs)]. Qed.
