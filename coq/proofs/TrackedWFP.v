(* C15 x C01 — soundness of the tracked-level well-formedness premise (spec/TrackedWFS.v):
   a tracked program accepted by `twf` runs to the end in the tracked-builder model (no builder call raises), lies in
   the fragment, and its explicit translation is a well-formed builder program in the sense of C01 (wf_prog).
   Hence (tracked_wf_programs_valid) the HUGR it builds serialises to a valid document — a theorem whose premise
   is a boolean computed from the text of the TRACKED program alone.

   The proof runs four things in lockstep over the program: the checker's symbolic state (tracked table, output
   rows by node name, pending non-copyable wires), the tracked-builder model (Tracked.run), the abstract binding
   history of the specification (TrackedS.explicit; `agree` of proofs/TrackedP.v), and C01's three static checkers
   (wt / lin / ord of spec/BuilderWFS.v) on the statements `to_stmts` makes of the explicit commands.  The static
   environments correspond through the wire numbering: wire_ty G (wenc w) = wty rows w, pend = map wenc pending. *)
From Coq Require Import ZArith NArith List Bool Arith Lia.
Import ListNotations.
From HV Require Import lib.Harness model.Validity model.Builder spec.BuilderWFS model.Tracked spec.TrackedS
  proofs.TrackedP proofs.BuilderFrameP model.TrackedBuilder spec.TrackedWFS proofs.TrackedValidP.
Local Open Scope N_scope.

(* ------------------------------------------------------------------ wires *)
Lemma wire_eqb_spec a b : reflect (a = b) (wire_eqb a b).
Proof.
  destruct a as [n j], b as [n' j']. unfold wire_eqb. cbn [fst snd].
  destruct (N.eqb_spec n n'); destruct (N.eqb_spec j j'); cbn; constructor; congruence.
Qed.
Lemma wenc_eqb a b : (wenc a =? wenc b) = wire_eqb a b.
Proof.
  destruct (wire_eqb_spec a b) as [->|Hne]; [apply N.eqb_refl|].
  apply N.eqb_neq. intros H. apply Hne. now apply wenc_inj.
Qed.
Lemma memN_enc w l : memN (wenc w) (map wenc l) = existsb (wire_eqb w) l.
Proof. unfold memN. induction l as [|x r IH]; cbn; [reflexivity|]. now rewrite IH, wenc_eqb. Qed.
Lemma removeN_enc w l : removeN (wenc w) (map wenc l) = map wenc (filter (fun x => negb (wire_eqb x w)) l).
Proof.
  unfold removeN. induction l as [|x r IH]; cbn; [reflexivity|]. rewrite wenc_eqb.
  destruct (wire_eqb x w); cbn; now rewrite IH.
Qed.

Section Sound.
  Variable tys : list tyinfo.

  (* ---------------------------------------------------------------- the static environments correspond *)
  Definition TyRel (G : tenv) (rows : list row) : Prop := forall w, wire_ty G (wenc w) = wty rows w.

  Lemma wire_tys_enc G rows ws : TyRel G rows -> wire_tys G (map wenc ws) = wtys rows ws.
  Proof. intros H. induction ws as [|w r IH]; cbn; [reflexivity|]. now rewrite H, IH. Qed.

  Lemma use_wires_enc G rows ws : TyRel G rows -> forall pend,
    use_wires tys G (map wenc pend) (map wenc ws) = option_map (map wenc) (consume tys rows pend ws).
  Proof.
    intros H. induction ws as [|w r IH]; intros pend; cbn [map use_wires consume option_map]; [reflexivity|].
    rewrite H. destruct (wty rows w) as [t|]; [|reflexivity].
    destruct (ty_copy tys t); [apply IH|].
    rewrite memN_enc. destruct (existsb (wire_eqb w) pend); [|reflexivity].
    rewrite removeN_enc. apply IH.
  Qed.

  (* ---------------------------------------------------------------- binding the outputs of a new node *)
  Definition keys (n : N) (a k : nat) : list wid := map (fun j => wenc (n, N.of_nat j)) (seq a k).

  Lemma lookup_tbind_dom ws : forall (G : tenv) i outs x,
    lookup (tbind_from G i ws outs) x <> None -> In x ws \/ lookup G x <> None.
  Proof.
    induction ws as [|w r IH]; intros G i outs x H; cbn [tbind_from] in H; [now right|].
    apply IH in H. destruct H as [H|H]; [left; now right|].
    cbn [lookup] in H. destruct (N.eqb_spec x w) as [E|Hne]; [left; left; now symmetry|now right].
  Qed.
  Lemma lookup_tbind_other n outs k : forall a (G : tenv) x,
    ~ In x (keys n a k) -> lookup (tbind_from G (N.of_nat a) (keys n a k) outs) x = lookup G x.
  Proof.
    induction k as [|k IH]; intros a G x H; cbn [keys seq map tbind_from]; [reflexivity|].
    replace (N.of_nat a + 1) with (N.of_nat (S a)) by lia. fold (keys n (S a) k).
    rewrite IH.
    - cbn [lookup]. destruct (N.eqb_spec x (wenc (n, N.of_nat a))) as [->|Hne]; [|reflexivity].
      exfalso. apply H. cbn [keys seq map]. now left.
    - intros Hin. apply H. cbn [keys seq map]. right. exact Hin.
  Qed.
  Lemma lookup_tbind_new n outs k : forall a (G : tenv) j, (a <= j < a + k)%nat ->
    lookup (tbind_from G (N.of_nat a) (keys n a k) outs) (wenc (n, N.of_nat j)) = Some (nthN outs (N.of_nat j)).
  Proof.
    induction k as [|k IH]; intros a G j Hj; [lia|]. cbn [keys seq map tbind_from].
    replace (N.of_nat a + 1) with (N.of_nat (S a)) by lia. fold (keys n (S a) k).
    destruct (Nat.eq_dec j a) as [->|Hne].
    - rewrite lookup_tbind_other.
      + cbn [lookup]. now rewrite N.eqb_refl.
      + unfold keys. intros Hin. apply in_map_iff in Hin. destruct Hin as (j' & E & Hj').
        apply wenc_inj in E. apply in_seq in Hj'. inversion E. lia.
    - apply IH. lia.
  Qed.
  Lemma in_keys n a k x : In x (keys n a k) <-> exists j, (a <= j < a + k)%nat /\ x = wenc (n, N.of_nat j).
  Proof.
    unfold keys. rewrite in_map_iff. split.
    - intros (j & E & Hj). apply in_seq in Hj. exists j. split; [lia|now symmetry].
    - intros (j & Hj & ->). exists j. split; [reflexivity|]. apply in_seq. lia.
  Qed.
  Lemma res_wires_keys n k : res_wires n k = keys n 0 (N.to_nat k). Proof. reflexivity. Qed.

  Lemma wty_app_old rows outs w : fst w < lenN rows -> wty (rows ++ [outs]) w = wty rows w.
  Proof. intros L. unfold wty. now rewrite nthN_app_lt. Qed.
  Lemma wty_some_lt rows w t : wty rows w = Some t -> fst w < lenN rows.
  Proof. unfold wty. destruct (nthN rows (fst w)) eqn:E; [|discriminate]. intros _. eapply nthN_some_lt; eauto. Qed.

  (* freshness: the environment only binds wires of existing nodes *)
  Definition Dom (G : tenv) (rows : list row) : Prop :=
    forall x, lookup G x <> None -> exists w, x = wenc w /\ fst w < lenN rows.

  Lemma TyRel_bind G rows outs : TyRel G rows -> Dom G rows ->
    TyRel (tbind G (res_wires (lenN rows) (lenN outs)) outs) (rows ++ [outs]).
  Proof.
    intros HT HD w. unfold tbind, wire_ty. rewrite res_wires_keys. change 0 with (N.of_nat 0).
    destruct (N.lt_ge_cases (fst w) (lenN rows)) as [L|L].
    - rewrite lookup_tbind_other.
      + rewrite wty_app_old by exact L. exact (HT w).
      + intros Hin. apply in_keys in Hin. destruct Hin as (j & _ & E). apply wenc_inj in E. subst w. cbn [fst] in L. lia.
    - destruct (N.eq_dec (fst w) (lenN rows)) as [E|Hne].
      + destruct w as [n j]. cbn [fst] in *. subst n.
        unfold wty. cbn [fst snd]. rewrite nthN_last by reflexivity.
        destruct (N.lt_ge_cases j (lenN outs)) as [Lj|Lj].
        * replace j with (N.of_nat (N.to_nat j)) at 1 by lia. rewrite lookup_tbind_new by lia.
          rewrite N2Nat.id. now destruct (nthN outs j).
        * rewrite lookup_tbind_other.
          -- rewrite (nthN_none_ge outs j Lj).
             destruct (lookup G (wenc (lenN rows, j))) as [v|] eqn:EL; [|reflexivity].
             destruct (HD (wenc (lenN rows, j))) as (w' & Ew & Lw); [congruence|].
             apply wenc_inj in Ew. subst w'. cbn [fst] in Lw. lia.
          -- intros Hin. apply in_keys in Hin. destruct Hin as (j' & Hj' & E). apply wenc_inj in E. inversion E. lia.
      + rewrite lookup_tbind_other.
        * unfold wty. rewrite nthN_none_ge by (rewrite lenN_app; cbn; lia).
          destruct (lookup G (wenc w)) as [v|] eqn:EL; [|reflexivity].
          destruct (HD (wenc w)) as (w' & Ew & Lw); [congruence|]. apply wenc_inj in Ew. subst w'. lia.
        * intros Hin. apply in_keys in Hin. destruct Hin as (j' & _ & E). apply wenc_inj in E. subst w. cbn [fst] in Hne. lia.
  Qed.

  Lemma Dom_bind G rows outs k : Dom G rows -> Dom (tbind G (res_wires (lenN rows) k) outs) (rows ++ [outs]).
  Proof.
    intros HD x H. unfold tbind in H. apply lookup_tbind_dom in H. rewrite lenN_app. destruct H as [H|H].
    - rewrite res_wires_keys in H. apply in_keys in H. destruct H as (j & _ & ->). eexists. split; [reflexivity|]. cbn. lia.
    - destruct (HD x H) as (w & -> & L). exists w. split; [reflexivity|lia].
  Qed.

  (* ---------------------------------------------------------------- the side conditions of lin_stmt *)
  Lemma NoDup_keys n a k : NoDup (keys n a k).
  Proof.
    revert a. induction k as [|k IH]; intros a; cbn [keys seq map]; constructor.
    - fold (keys n (S a) k). intros Hin. apply in_keys in Hin. destruct Hin as (j & Hj & E). apply wenc_inj in E. inversion E. lia.
    - apply IH.
  Qed.
  Lemma fresh_res G rows k : Dom G rows -> fresh_ws G (res_wires (lenN rows) k) = true.
  Proof.
    intros HD. unfold fresh_ws. apply andb_true_iff. split.
    - destruct (nodupb_spec N.eqb N.eqb_spec (res_wires (lenN rows) k)) as [|Hn]; [reflexivity|].
      exfalso. apply Hn. rewrite res_wires_keys. apply NoDup_keys.
    - apply forallb_forall. intros x Hin. rewrite res_wires_keys in Hin. apply in_keys in Hin. destruct Hin as (j & _ & ->).
      destruct (lookup G (wenc (lenN rows, N.of_nat j))) as [v|] eqn:EL; [|reflexivity].
      destruct (HD (wenc (lenN rows, N.of_nat j))) as (w & Ew & Lw); [congruence|]. apply wenc_inj in Ew. subst w. cbn [fst] in Lw. lia.
  Qed.
  Lemma lenN_res n k : lenN (res_wires n k) = k.
  Proof. unfold res_wires, lenN. rewrite map_length, seq_length. lia. Qed.
  Lemma covers_index (f : N * tyid -> bool) l : forall a,
    forallb (fun x => f x || (fst x <? a + lenN l)) (index_from l a) = true.
  Proof.
    induction l as [|t r IH]; intros a; cbn [index_from forallb]; [reflexivity|].
    apply andb_true_iff. split.
    - cbn [fst]. apply orb_true_iff. right. apply N.ltb_lt. unfold lenN. cbn [length]. lia.
    - replace (a + lenN (t :: r)) with (a + 1 + lenN r) by (unfold lenN; cbn [length]; lia). apply IH.
  Qed.
  Lemma covers_res n outs : covers tys (res_wires n (lenN outs)) outs = true.
  Proof. unfold covers, indexed. rewrite lenN_res. exact (covers_index (fun x => ty_copy tys (snd x)) outs 0). Qed.

  Lemma lin_outs_keys n outs k : forall a,
    lin_outs_from tys (N.of_nat a) (keys n a k) outs = map wenc (fresh_lin tys n (N.of_nat a) k outs).
  Proof.
    induction k as [|k IH]; intros a; cbn [keys seq map lin_outs_from fresh_lin]; [reflexivity|].
    fold (keys n (S a) k). replace (N.of_nat a + 1) with (N.of_nat (S a)) by lia.
    destruct (nthN outs (N.of_nat a)) as [t|]; [|apply IH].
    destruct (ty_copy tys t); [apply IH|]. cbn [map]. now rewrite IH.
  Qed.
  Lemma lin_outs_res n outs : lin_outs tys (res_wires n (lenN outs)) outs = map wenc (new_lin tys n outs).
  Proof.
    unfold lin_outs, new_lin. rewrite res_wires_keys. unfold lenN. rewrite Nat2N.id.
    exact (lin_outs_keys n outs (length outs) 0%nat).
  Qed.

  (* ---------------------------------------------------------------- C01's three checkers, threaded together *)
  Variable specs : list opspec.

  Record Rel (k : nat) (s : tstate) (G : tenv) (pend : list wid) (used : list sid) : Prop := {
    r_len : length (t_rows s) = (2 + k)%nat;
    r_ty : TyRel G (t_rows s);
    r_dom : Dom G (t_rows s);
    r_pend : pend = map wenc (t_pend s);
    r_used : forall id, In id used -> id < lenN (t_rows s) }.

  Definition chk (b : stmts) (o : list wid) (G : tenv) (pend : list wid) (scope used : list sid) : bool :=
    match wt_stmts tys b G, lin_stmts tys b G pend, ord_stmts b scope used with
    | Some G1, Some pend1, Some _ =>
        match wire_tys G1 o, use_wires tys G1 pend1 o with Some _, Some [] => true | _, _ => false end
    | _, _, _ => false
    end.
  Definition Chk (k : nat) (q : list pcmd) G pend scope used : bool :=
    chk (fst (to_stmts specs k q)) (snd (to_stmts specs k q)) G pend scope used.

  Lemma lin_stmts_cons s r G pend :
    lin_stmts tys (SCons s r) G pend =
    match lin_stmt tys s G pend, wt_stmt tys s G with Some p1, Some G1 => lin_stmts tys r G1 p1 | _, _ => None end.
  Proof. reflexivity. Qed.
  Lemma ord_stmts_cons s r scope used :
    ord_stmts (SCons s r) scope used =
    match ord_stmt s scope used with Some (sc, us) => ord_stmts r sc us | None => None end.
  Proof. reflexivity. Qed.
  Lemma wt_stmt_SOp id o args rs G :
    wt_stmt tys (SOp id o args rs) G =
    match wire_tys G args with
    | Some ts => match completed_op tys o ts with
                 | Ok op' => if row_eqb (val_in op') ts && opspec_ok tys o then Some (tbind G rs (val_out op')) else None
                 | Err _ => None
                 end
    | None => None
    end.
  Proof. reflexivity. Qed.
  Lemma lin_stmt_SOp id o args rs G pend :
    lin_stmt tys (SOp id o args rs) G pend =
    match wire_tys G args with
    | Some ts =>
        match completed_op tys o ts, use_wires tys G pend args with
        | Ok op', Some pend1 =>
            if fresh_ws G rs && covers tys rs (val_out op') then Some (lin_outs tys rs (val_out op') ++ pend1) else None
        | _, _ => None
        end
    | None => None
    end.
  Proof. reflexivity. Qed.
  Lemma ord_stmt_SOp id o args rs scope used :
    ord_stmt (SOp id o args rs) scope used = (if memN id used then None else Some (id :: scope, id :: used)).
  Proof. reflexivity. Qed.

  Lemma chk_cons s b o G pend scope used G' pend' sc' us' :
    wt_stmt tys s G = Some G' -> lin_stmt tys s G pend = Some pend' -> ord_stmt s scope used = Some (sc', us') ->
    chk (SCons s b) o G pend scope used = chk b o G' pend' sc' us'.
  Proof. intros H1 H2 H3. unfold chk. now rewrite wt_stmts_cons, lin_stmts_cons, ord_stmts_cons, H1, H2, H3. Qed.

  Lemma Chk_add k op m ws q G pend scope used G' pend' sc' us' :
    wt_stmt tys (add_stmt specs k op ws) G = Some G' -> lin_stmt tys (add_stmt specs k op ws) G pend = Some pend' ->
    ord_stmt (add_stmt specs k op ws) scope used = Some (sc', us') ->
    Chk k (PAdd op m ws :: q) G pend scope used = Chk (S k) q G' pend' sc' us'.
  Proof. intros H1 H2 H3. unfold Chk. rewrite to_stmts_add. cbn [fst snd]. now apply chk_cons. Qed.

  (* one add, statically *)
  Lemma add_static k s G pend used op args ws s' scope :
    Rel k s G pend used ->
    to_wires (t_tr s) args = Some ws ->
    twf_add tys s (spec_at specs k) op args = Some s' ->
    exists G' pend',
      wt_stmt tys (add_stmt specs k op ws) G = Some G' /\
      lin_stmt tys (add_stmt specs k op ws) G pend = Some pend' /\
      ord_stmt (add_stmt specs k op ws) scope used = Some (2 + N.of_nat k :: scope, 2 + N.of_nat k :: used) /\
      Rel (S k) s' G' pend' (2 + N.of_nat k :: used).
  Proof.
    intros [RL RT RD RP RU] HW H. unfold twf_add in H. rewrite HW in H.
    destruct (wtys (t_rows s) ws) as [ts|] eqn:ET; [|discriminate].
    destruct (completed_op tys (spec_at specs k) ts) as [op'|] eqn:EC; [|discriminate].
    destruct (row_eqb (val_in op') ts && opspec_ok tys (spec_at specs k) && (op_out op =? lenN (val_out op'))) eqn:EB; [|discriminate].
    apply andb_true_iff in EB. destruct EB as [EB EO]. apply N.eqb_eq in EO.
    destruct (consume tys (t_rows s) (t_pend s) ws) as [pend1|] eqn:EU; [|discriminate].
    inversion H; subst s'; clear H.
    assert (NM : lenN (t_rows s) = 2 + N.of_nat k) by (unfold lenN; rewrite RL; lia).
    exists (tbind G (res_wires (2 + N.of_nat k) (op_out op)) (val_out op')),
           (lin_outs tys (res_wires (2 + N.of_nat k) (op_out op)) (val_out op') ++ map wenc pend1).
    unfold add_stmt. rewrite wt_stmt_SOp, lin_stmt_SOp, ord_stmt_SOp.
    rewrite (wire_tys_enc G (t_rows s) ws RT), ET, EC, EB.
    rewrite RP, (use_wires_enc G (t_rows s) ws RT), EU. cbn [option_map].
    rewrite <- NM, EO. rewrite (fresh_res G (t_rows s) _ RD), covers_res. cbn [andb].
    split; [reflexivity|]. split; [reflexivity|]. split.
    - destruct (memN (lenN (t_rows s)) used) eqn:EM; [|reflexivity].
      unfold memN in EM. apply existsb_exists in EM. destruct EM as (x & Hx & E). apply N.eqb_eq in E. subst x.
      specialize (RU _ Hx). lia.
    - constructor; cbn [t_rows t_pend t_tr].
      + rewrite app_length, RL. cbn. lia.
      + apply TyRel_bind; assumption.
      + apply Dom_bind; assumption.
      + rewrite map_app, lin_outs_res. reflexivity.
      + intros id [<-|Hin]; rewrite lenN_app; [cbn; lia|]. specialize (RU _ Hin). lia.
  Qed.

  (* ---------------------------------------------------------------- the tracked-builder model does not raise *)
  (* a wire the plain builder accepts: the node exists and has that output *)
  Definition Good (h : hugr) (w : wire) : Prop :=
    src_exists h (fst w) = true /\ exists kk, nout h (fst w) = Some kk /\ snd w < kk.

  Lemma wire_up_good ws : forall h dst i, Forall (Good h) ws ->
    Tracked.wire_up h dst i ws = (mkH (h_nin h) (h_nodes h) (h_links h ++ number_from dst i ws) (h_outset h), None).
  Proof.
    induction ws as [|w r IH]; intros h dst i HF; cbn [Tracked.wire_up number_from].
    - rewrite app_nil_r. now destruct h.
    - inversion HF as [|x l Hw Hr]; subst. destruct Hw as (Hs & kk & Hn & Hk).
      unfold Tracked.wire_up_port. rewrite Hs, Hn. cbn [negb]. destruct (N.ltb_spec (snd w) kk); [|lia].
      rewrite IH.
      + unfold Tracked.add_link. cbn [h_nin h_nodes h_links h_outset]. now rewrite <- app_assoc.
      + eapply Forall_impl; [|exact Hr]. intros x Hx. exact Hx.
  Qed.

  Lemma Good_add_node h op m w : Good h w -> Good (Tracked.add_node h op m) w.
  Proof.
    intros (Hs & kk & Hn & Hk). unfold Good, src_exists, nout, node_count in *.
    cbn [Tracked.add_node h_nodes h_nin h_outset]. rewrite app_length. cbn [length]. apply N.ltb_lt in Hs. split.
    - apply N.ltb_lt. lia.
    - exists kk. split; [|exact Hk].
      destruct (fst w =? NIN) eqn:E0; [exact Hn|]. destruct (fst w =? NOUT) eqn:E1; [exact Hn|].
      apply N.eqb_neq in E0, E1. rewrite nth_error_app1; [exact Hn|]. unfold NIN, NOUT in *. lia.
  Qed.

  Lemma add_op_good h op m ws : Forall (Good h) ws ->
    add_op h op m ws = (mkH (h_nin h) (h_nodes h ++ [(op, m)]) (h_links h ++ number_from (new_name h) 0 ws) (h_outset h), None).
  Proof.
    intros HF. unfold add_op. rewrite wire_up_good; [reflexivity|].
    eapply Forall_impl; [|exact HF]. intros w. apply Good_add_node.
  Qed.

  Variable nin : N.

  Record Sem (k : nat) (s : tstate) (h : hugr) (st : astate) : Prop := {
    s_agree : agree h (t_tr s) st;
    s_cnt : length (h_nodes h) = k;
    s_nin : h_nin h = nin;
    s_good : forall w t, wty (t_rows s) w = Some t -> Good h w }.

  Lemma wtys_good rows h ws : (forall w t, wty rows w = Some t -> Good h w) -> forall ts,
    wtys rows ws = Some ts -> Forall (Good h) ws.
  Proof.
    intros HG. induction ws as [|w r IH]; intros ts H; [constructor|]. cbn [wtys] in H.
    destruct (wty rows w) as [t|] eqn:E; [|discriminate]. destruct (wtys rows r) as [ts'|]; [|discriminate].
    constructor; [eapply HG; eauto|eapply IH; eauto].
  Qed.

  (* one add: the checker's step, the tracked builder's step, the specification's step and C01's checkers *)
  Lemma add_sound k s G pend used h st op m args s' scope :
    Rel k s G pend used -> Sem k s h st ->
    twf_add tys s (spec_at specs k) op args = Some s' ->
    exists ws h' G' pend',
      resolve_args st args = Some ws /\
      t_add h (t_tr s) op m args = (h', t_tr s', None) /\
      Rel (S k) s' G' pend' (2 + N.of_nat k :: used) /\ Sem (S k) s' h' (a_added st args) /\
      forall q, Chk k (PAdd op m ws :: q) G pend scope used =
                Chk (S k) q G' pend' (2 + N.of_nat k :: scope) (2 + N.of_nat k :: used).
  Proof.
    intros HR HS H. pose proof H as H0. unfold twf_add in H0.
    destruct (to_wires (t_tr s) args) as [ws|] eqn:HW; [|discriminate].
    destruct (wtys (t_rows s) ws) as [ts|] eqn:ET; [|discriminate].
    destruct (completed_op tys (spec_at specs k) ts) as [op'|] eqn:EC; [|discriminate].
    destruct (row_eqb (val_in op') ts && opspec_ok tys (spec_at specs k) && (op_out op =? lenN (val_out op'))) eqn:EB; [|discriminate].
    apply andb_true_iff in EB. destruct EB as [_ EO]. apply N.eqb_eq in EO.
    destruct (consume tys (t_rows s) (t_pend s) ws) as [pend1|]; [|discriminate].
    inversion H0; clear H0.
    destruct (add_static k s G pend used op args ws s' scope HR HW H) as (G' & pend' & W1 & W2 & W3 & HR').
    destruct HS as [SA SC SN SG]. pose proof (r_len _ _ _ _ _ HR) as RL.
    assert (NM : lenN (t_rows s) = new_name h) by (unfold new_name, node_count, lenN; rewrite RL, SC; lia).
    assert (GW : Forall (Good h) ws) by (eapply wtys_good; eauto).
    set (h' := mkH (h_nin h) (h_nodes h ++ [(op, m)]) (h_links h ++ number_from (new_name h) 0 ws) (h_outset h)).
    assert (TA : t_add h (t_tr s) op m args = (h', rebind (t_tr s) (new_name h) 0 args, None)).
    { unfold t_add. rewrite HW, (add_op_good h op m ws GW). reflexivity. }
    assert (ER : resolve_args st args = Some ws) by (rewrite <- (to_wires_resolve h (t_tr s) st args SA); exact HW).
    subst s'. cbn [t_tr t_rows].
    exists ws, h', G', pend'. split; [exact ER|]. split; [rewrite NM; exact TA|].
    split; [exact HR'|]. split.
    - pose proof (add_sim h (t_tr s) st op m args SA) as HA. rewrite ER, TA in HA. cbn in HA.
      destruct HA as (_ & _ & _ & HA).
      constructor.
      + cbn [t_tr]. rewrite NM. exact HA.
      + unfold h'. cbn [h_nodes]. rewrite app_length. cbn [length]. lia.
      + exact SN.
      + cbn [t_rows]. intros w t Hw.
        destruct (N.lt_ge_cases (fst w) (lenN (t_rows s))) as [L|L].
        * rewrite wty_app_old in Hw by exact L. exact (Good_add_node h op m w (SG w t Hw)).
        * pose proof (wty_some_lt _ _ _ Hw) as L2. rewrite lenN_app in L2. cbn in L2.
          assert (E : fst w = lenN (t_rows s)) by lia.
          unfold wty in Hw. rewrite E, nthN_last in Hw by reflexivity. apply nthN_some_lt in Hw.
          unfold Good, src_exists, nout, node_count, h'. cbn [h_nodes h_nin h_outset]. rewrite app_length. cbn [length].
          rewrite E, NM. unfold new_name, node_count. split; [apply N.ltb_lt; lia|].
          exists (op_out op). split; [|lia].
          destruct (N.eqb_spec (2 + N.of_nat (length (h_nodes h))) NIN) as [X|_]; [unfold NIN in X; lia|].
          destruct (N.eqb_spec (2 + N.of_nat (length (h_nodes h))) NOUT) as [X|_]; [unfold NOUT in X; lia|].
          replace (N.to_nat (2 + N.of_nat (length (h_nodes h)) - 2)) with (length (h_nodes h)) by lia.
          rewrite nth_error_app2, Nat.sub_diag by lia. reflexivity.
    - intros q. now apply Chk_add.
  Qed.

  (* extend *)
  Lemma coms_sound coms : forall k s G pend used h st k' s' scope,
    Rel k s G pend used -> Sem k s h st ->
    twf_coms tys specs k s coms = Some (k', s') ->
    exists qc st' h' G' pend' scope' used',
      explicit_coms st coms = (qc, true, st') /\
      t_extend h (t_tr s) coms = (h', t_tr s', None) /\
      Rel k' s' G' pend' used' /\ Sem k' s' h' st' /\
      forall q, Chk k (qc ++ q) G pend scope used = Chk k' q G' pend' scope' used'.
  Proof.
    induction coms as [|[op args] r IH]; intros k s G pend used h st k' s' scope HR HS H; cbn [twf_coms] in H.
    - inversion H; subst k' s'. exists [], st, h, G, pend, scope, used.
      split; [reflexivity|]. split; [reflexivity|]. split; [exact HR|]. split; [exact HS|]. reflexivity.
    - destruct (twf_add tys s (spec_at specs k) op args) as [s1|] eqn:EA; [|discriminate].
      destruct (add_sound k s G pend used h st op [] args s1 scope HR HS EA) as (ws & h1 & G1 & pend1 & ER & TA & HR1 & HS1 & HC).
      destruct (IH _ _ _ _ _ _ _ _ _ (2 + N.of_nat k :: scope) HR1 HS1 H)
        as (qc & st' & h' & G' & pend' & scope' & used' & EE & TE & HR' & HS' & HC').
      exists (PAdd op [] ws :: qc), st', h', G', pend', scope', used'. split; [|split; [|split; [exact HR'|split; [exact HS'|]]]].
      + cbn [explicit_coms]. rewrite ER, EE. reflexivity.
      + cbn [t_extend]. rewrite TA. exact TE.
      + intros q. cbn [app]. rewrite HC. apply HC'.
  Qed.

  Lemma Rel_tr k s G pend used tr' : Rel k s G pend used -> Rel k (mkT tr' (t_rows s) (t_pend s)) G pend used.
  Proof. intros [A B C D E]. constructor; assumption. Qed.

  (* every command but the last *)
  Lemma cmd_sound c : forall k s G pend used h st k' s' scope,
    Rel k s G pend used -> Sem k s h st ->
    twf_cmd tys nin specs k s c = Some (k', s') ->
    exists qc st' h' G' pend' scope' used',
      explicit_cmd nin st c = (qc, true, st') /\
      step h (t_tr s) c = (h', t_tr s', None) /\ is_set_outputs c = false /\
      Rel k' s' G' pend' used' /\ Sem k' s' h' st' /\
      forall q, Chk k (qc ++ q) G pend scope used = Chk k' q G' pend' scope' used'.
  Proof.
    intros k s G pend used h st k' s' scope HR HS H. pose proof HS as [SA SC SN SG].
    assert (TR : forall tr' st', agree h tr' st' -> Sem k (mkT tr' (t_rows s) (t_pend s)) h st')
      by (intros tr' st' A; constructor; assumption).
    destruct c as [w|ws| |i|op m args|coms|args| ]; cbn [twf_cmd] in H; try discriminate.
    - inversion H; subst k' s'. exists [], (a_track st w), h, G, pend, scope, used.
      split; [reflexivity|]. split; [reflexivity|]. split; [reflexivity|]. split; [now apply Rel_tr|].
      split; [apply TR; now apply agree_track|reflexivity].
    - inversion H; subst k' s'. exists [], (fold_left a_track ws st), h, G, pend, scope, used.
      split; [reflexivity|]. split; [reflexivity|]. split; [reflexivity|]. split; [now apply Rel_tr|].
      split; [apply TR; now apply agree_track_many|reflexivity].
    - inversion H; subst k' s'. exists [], (fold_left a_track (inputs nin) st), h, G, pend, scope, used.
      split; [reflexivity|]. split; [cbn [step t_tr]; now rewrite SN|]. split; [reflexivity|]. split; [now apply Rel_tr|].
      split; [apply TR; now apply agree_track_many|reflexivity].
    - destruct (tracked_wire (t_tr s) i) as [w|] eqn:ET; [|discriminate]. inversion H; subst k' s'.
      exists [], (a_untrack st i), h, G, pend, scope, used.
      split; [cbn [explicit_cmd]; rewrite <- (tracked_wire_denotes h (t_tr s) st i SA), ET; reflexivity|].
      split; [cbn [step t_tr]; rewrite ET; reflexivity|]. split; [reflexivity|]. split; [now apply Rel_tr|].
      split; [apply TR; eapply agree_untrack; eauto|reflexivity].
    - destruct (twf_add tys s (spec_at specs k) op args) as [s1|] eqn:EA; [|discriminate]. inversion H; subst k' s1.
      destruct (add_sound k s G pend used h st op m args s' scope HR HS EA) as (ws & h1 & G1 & pend1 & ER & TA & HR1 & HS1 & HC).
      exists [PAdd op m ws], (a_added st args), h1, G1, pend1, (2 + N.of_nat k :: scope), (2 + N.of_nat k :: used).
      split; [cbn [explicit_cmd]; rewrite ER; reflexivity|]. split; [exact TA|]. split; [reflexivity|].
      split; [exact HR1|]. split; [exact HS1|exact HC].
    - destruct (coms_sound coms k s G pend used h st k' s' scope HR HS H)
        as (qc & st' & h' & G' & pend' & scope' & used' & EE & TE & HR' & HS' & HC').
      exists qc, st', h', G', pend', scope', used'.
      split; [exact EE|]. split; [exact TE|]. split; [reflexivity|]. split; [exact HR'|]. split; [exact HS'|exact HC'].
  Qed.

  (* the live wires of the table are those of the abstract history (as in the proof of TrackedP.step_sim) *)
  Lemma live_agree h tr st : agree h tr st -> live tr = live_wires st.
  Proof.
    intros (Hn & _ & Ht). unfold live_wires, live. rewrite Hn, Nat2Z.id.
    assert (G : forall k, (k < length tr)%nat -> denotes st (Z.of_nat k) =
                 match nth_error tr k with Some (Some w) => Some w | _ => None end).
    { intros k Hk. unfold denotes. rewrite (Ht (Z.of_nat k)). unfold at_index.
      destruct (Z.ltb_spec (Z.of_nat k) 0); [lia|]. now rewrite Nat2Z.id. }
    clear Hn Ht. revert G. generalize (denotes st). intros f G.
    induction tr as [|o r IH] using rev_ind; [reflexivity|].
    rewrite app_length; cbn. rewrite Nat.add_1_r, seq_S, !flat_map_app. cbn. rewrite app_nil_r.
    f_equal.
    - apply IH. intros k Hk. rewrite G by (rewrite app_length; cbn; lia). now rewrite nth_error_app1.
    - rewrite G by (rewrite app_length; cbn; lia). rewrite nth_error_app2, Nat.sub_diag by lia. cbn.
      destruct o; reflexivity.
  Qed.

  (* the final set_*_outputs *)
  Lemma outs_sound k s G pend used h st ws scope :
    Rel k s G pend used -> Sem k s h st -> twf_outs tys s ws = true ->
    (exists h', Tracked.set_outputs h ws = (h', None)) /\ Chk k [PSetOutputs ws] G pend scope used = true.
  Proof.
    intros [RL RT RD RP RU] [SA SC SN SG] H. unfold twf_outs in H.
    destruct (wtys (t_rows s) ws) as [ts|] eqn:ET; [|discriminate].
    destruct (consume tys (t_rows s) (t_pend s) ws) as [[|x l]|] eqn:EU; try discriminate.
    split.
    - unfold Tracked.set_outputs. rewrite (wire_up_good ws h NOUT 0 (wtys_good _ _ _ SG _ ET)). eauto.
    - unfold Chk, chk. cbn [to_stmts fst snd].
      change (wt_stmts tys SNil G) with (Some G). change (lin_stmts tys SNil G pend) with (Some pend).
      change (ord_stmts SNil scope used) with (Some (scope, used)).
      cbv iota beta. rewrite (wire_tys_enc G (t_rows s) ws RT), ET, RP, (use_wires_enc G (t_rows s) ws RT), EU. reflexivity.
  Qed.

  Lemma from_sound p : forall k s G pend used h st scope,
    Rel k s G pend used -> Sem k s h st ->
    twf_from tys nin specs k s p = true ->
    exists q fin hf trf,
      explicit_from nin st p = (q, true, fin) /\ Tracked.run h (t_tr s) p = (hf, trf, None) /\ tfrag p = true /\
      Chk k q G pend scope used = true.
  Proof.
    induction p as [|c r IH]; intros k s G pend used h st scope HR HS H; [discriminate|].
    destruct r as [|c' r'].
    - (* the last command *)
      cbn [twf_from] in H. pose proof HS as [SA SC SN SG].
      destruct c; cbn [twf_last] in H; try discriminate.
      + destruct (to_wires (t_tr s) args) as [ws|] eqn:EW; [|discriminate].
        destruct (outs_sound k s G pend used h st ws scope HR HS H) as [(h' & ES) HC].
        exists [PSetOutputs ws], st, h', (t_tr s).
        cbn [explicit_from explicit_cmd Tracked.run step]. rewrite <- (to_wires_resolve h (t_tr s) st args SA), EW, ES.
        repeat split. exact HC.
      + destruct (outs_sound k s G pend used h st (live (t_tr s)) scope HR HS H) as [(h' & ES) HC].
        exists [PSetOutputs (live (t_tr s))], st, h', (t_tr s).
        cbn [explicit_from explicit_cmd Tracked.run step]. rewrite <- (live_agree h (t_tr s) st SA), ES.
        repeat split. exact HC.
    - change (twf_from tys nin specs k s (c :: c' :: r')) with
        (match twf_cmd tys nin specs k s c with
         | Some (k', s') => twf_from tys nin specs k' s' (c' :: r')
         | None => false
         end) in H.
      destruct (twf_cmd tys nin specs k s c) as [[k' s']|] eqn:EC; [|discriminate].
      destruct (cmd_sound c k s G pend used h st k' s' scope HR HS EC)
        as (qc & st' & h' & G' & pend' & scope' & used' & EE & ES & NS & HR' & HS' & HC).
      destruct (IH k' s' G' pend' used' h' st' scope' HR' HS' H) as (q & fin & hf & trf & EX & ER & TF & CK).
      exists (qc ++ q), fin, hf, trf. split; [|split; [|split]].
      + change (explicit_from nin st (c :: c' :: r')) with
          (match explicit_cmd nin st c with
           | (q0, true, st0) => let '(q', ok, fin') := explicit_from nin st0 (c' :: r') in (q0 ++ q', ok, fin')
           | (q0, false, st0) => (q0, false, st0)
           end).
        rewrite EE, EX. reflexivity.
      + change (Tracked.run h (t_tr s) (c :: c' :: r')) with
          (match step h (t_tr s) c with
           | (h0, tr0, None) => Tracked.run h0 tr0 (c' :: r')
           | e => e
           end).
        rewrite ES. exact ER.
      + change (tfrag (c :: c' :: r')) with (negb (is_set_outputs c) && tfrag (c' :: r')). now rewrite NS, TF.
      + rewrite HC. exact CK.
  Qed.
End Sound.

(* ------------------------------------------------------------------ the whole program *)
Lemma chk_wf tys ins b o :
  chk tys b o (tbind [] (res_wires NIN (lenN ins)) ins) (lin_outs tys (res_wires NIN (lenN ins)) ins) [] [] = true ->
  wf_prog tys (PDfg ins (Region (res_wires NIN (lenN ins)) b o)) = true.
Proof.
  unfold chk. set (ws := res_wires NIN (lenN ins)). intros H.
  destruct (wt_stmts tys b (tbind [] ws ins)) as [G1|] eqn:EW; [|discriminate].
  destruct (lin_stmts tys b (tbind [] ws ins) (lin_outs tys ws ins)) as [pend1|] eqn:EL; [|discriminate].
  destruct (ord_stmts b [] []) as [[sc us]|] eqn:EO; [|discriminate].
  destruct (wire_tys G1 o) as [ts|] eqn:ET; [|discriminate].
  destruct (use_wires tys G1 pend1 o) as [[|x l]|] eqn:EU; try discriminate.
  unfold wf_prog. apply andb_true_iff. split; [apply andb_true_iff; split|].
  - rewrite wt_prog_eq. fold ws. now rewrite EW, ET.
  - unfold ord_prog.
    change (ord_region (Region ws b o) []) with
      (match ord_stmts b [] [] with Some (_, used') => Some used' | None => None end).
    now rewrite EO.
  - unfold lin_prog.
    change (lin_region tys (Region ws b o) ins []) with
      (fresh_ws [] ws && covers tys ws ins &&
       match lin_stmts tys b (tbind [] ws ins) (lin_outs tys ws ins), wt_stmts tys b (tbind [] ws ins) with
       | Some pend1, Some G1 => match use_wires tys G1 pend1 o with Some [] => true | _ => false end
       | _, _ => false
       end).
    rewrite EL, EW, EU. unfold ws.
    change NIN with (lenN (@nil row)). rewrite (fresh_res [] [] (lenN ins)); [|intros x Hx; now elim Hx].
    change (lenN (@nil row)) with NIN. now rewrite covers_res.
Qed.

(* a tracked program accepted by twf: it lies in the fragment, no builder call raises in the tracked-builder model,
   and its explicit translation is a well-formed builder program in the sense of C01 *)
Theorem twf_sound tys ins specs track p :
  twf tys ins specs track p = true ->
  tfrag p = true /\
  (exists h tr, run_tracked (lenN ins) track p = (h, tr, None)) /\
  wf_prog tys (to_builder ins specs (explicit_prog (lenN ins) track p)) = true.
Proof.
  intros H. unfold twf in H.
  set (s0 := mkT (init_tr (lenN ins) track) [ins; []] (new_lin tys NIN ins)) in *.
  set (G0 := tbind [] (res_wires NIN (lenN ins)) ins).
  assert (T1 : TyRel G0 [ins]).
  { refine (TyRel_bind [] [] ins _ _).
    - intros w. unfold wire_ty, wty, nthN. cbn [lookup]. now destruct (N.to_nat (fst w)).
    - intros x Hx. now elim Hx. }
  assert (D1 : Dom G0 [ins]).
  { refine (Dom_bind [] [] ins (lenN ins) _). intros x Hx. now elim Hx. }
  assert (W2 : forall w, wty [ins; []] w = wty [ins] w).
  { intros [n j]. unfold wty, nthN. cbn [fst snd]. destruct (N.to_nat n) as [|[|n']]; cbn; [reflexivity| |].
    - now destruct (N.to_nat j).
    - now destruct n'. }
  assert (HR : Rel 0 s0 G0 (lin_outs tys (res_wires NIN (lenN ins)) ins) []).
  { constructor; cbn [s0 t_rows t_pend].
    - reflexivity.
    - intros w. rewrite W2. apply T1.
    - intros x Hx. destruct (D1 x Hx) as (w & -> & L). exists w. split; [reflexivity|]. unfold lenN in *. cbn [length] in *. lia.
    - apply lin_outs_res.
    - intros id []. }
  assert (HS : Sem (lenN ins) 0 s0 (init_h (lenN ins)) (a_init (lenN ins) track)).
  { constructor; cbn [s0 t_tr t_rows init_h h_nodes h_nin length].
    - apply agree_init.
    - reflexivity.
    - reflexivity.
    - intros [n j] t Hw. rewrite W2 in Hw. unfold wty, nthN in Hw. cbn [fst snd] in Hw.
      destruct (N.to_nat n) as [|n'] eqn:En; cbn in Hw; [|now destruct n'].
      assert (n = 0) by lia. subst n. apply nthN_some_lt in Hw.
      unfold Good, src_exists, nout. cbn [fst snd h_nin h_nodes node_count length]. split; [reflexivity|].
      exists (lenN ins). split; [reflexivity|exact Hw]. }
  destruct (from_sound tys specs (lenN ins) p 0%nat s0 G0 _ [] _ _ [] HR HS H) as (q & fin & hf & trf & EX & ER & TF & CK).
  split; [exact TF|]. split; [exists hf, trf; exact ER|].
  unfold explicit_prog, explicit. rewrite EX. cbn [fst]. unfold to_builder.
  unfold Chk in CK. destruct (to_stmts specs 0 q) as [b o]. cbn [fst snd] in CK. now apply chk_wf.
Qed.

(* C01's validity theorem for the tracked dataflow builder, with a premise computed from the tracked program alone *)
Theorem tracked_wf_programs_valid tys ins specs track p :
  r_table tys = true ->
  twf tys ins specs track p = true ->
  exists h tr outs ops,
    run_tracked (lenN ins) track p = (h, tr, None) /\
    length ops = length (h_nodes h) /\ OpsOK tys specs ops /\
    Builder.run tys (to_builder ins specs (explicit_prog (lenN ins) track p)) = Ok (doc_of ins outs ops h) /\
    valid {| v_tys := tys; v_main := doc_of ins outs ops h; v_subs := [] |} = true.
Proof.
  intros HT H. destruct (twf_sound tys ins specs track p H) as (TF & (h & tr & HRun) & WF).
  destruct (tracked_programs_valid tys ins specs track p h tr HT TF WF HRun) as (outs & ops & A & B & C & D).
  exists h, tr, outs, ops. auto.
Qed.

(* non-vacuity: the circuit of proofs/TrackedValidP.v is accepted by twf *)
Example circuit_twf : twf circ_tys circ_ins circ_specs false circ_prog = true.
Proof. vm_compute. reflexivity. Qed.

(* the premise is needed: a qubit untracked and never used again.  The tracked builder accepts the program, C01's
   builder model serialises a document, and the validity predicate rejects it (a non-copyable output without a
   link); twf says no. *)
Definition drop_prog : list cmd :=
  [ Add (mkOp 10 2) [] [AI 0%Z; AI 1%Z]; Untrack 1%Z; SetTrackedOutputs ].
Example twf_needed :
  twf circ_tys [0; 0] [OFixed [0; 0] [0; 0]] true drop_prog = false /\
  (exists h tr, run_tracked 2 true drop_prog = (h, tr, None)) /\
  exists g, Builder.run circ_tys (to_builder [0; 0] [OFixed [0; 0] [0; 0]] (explicit_prog 2 true drop_prog)) = Ok g /\
            valid {| v_tys := circ_tys; v_main := g; v_subs := [] |} = false.
Proof.
  split; [vm_compute; reflexivity|]. split; [eexists; eexists; vm_compute; reflexivity|].
  eexists. split; vm_compute; reflexivity.
Qed.
