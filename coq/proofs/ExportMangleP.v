(* C12 — the spelling of function symbols (model/ExportMangle.v): "_<name>_<index>" is injective in the pair
   (name, index) for ALL names, so the export that spells its symbols this way satisfies the specification
   whatever the functions are called; and the specification rejects an export whose two symbol sites disagree
   for one name (the definition of `main` exported under its plain name while calls / loads apply the mangled
   one). *)
From Coq Require Import ZArith NArith List Bool Lia Decimal DecimalZ.
Import ListNotations.
From HV Require Import lib.Harness model.Export model.ExportMangle spec.ExportS spec.ExportCanon proofs.ExportP
  proofs.ExportOrderP proofs.ExportCanonP.
Open Scope N_scope.

(* ---- decimal digits *)
Lemma udigits_range u c : In c (udigits u) -> 48 <= c <= 57.
Proof.
  induction u; cbn [udigits In]; intros H; try (destruct H as [<- | H]; [lia | auto]); contradiction.
Qed.

Lemma udigits_inj : forall u v, udigits u = udigits v -> u = v.
Proof.
  induction u; destruct v; cbn [udigits]; intros H; try discriminate H; try reflexivity;
    injection H as H; f_equal; auto.
Qed.

Lemma udigits_head_not_minus u r : udigits u <> minus_sign :: r.
Proof.
  intros H. assert (Hin : In minus_sign (udigits u)) by (rewrite H; left; reflexivity).
  apply udigits_range in Hin. unfold minus_sign in Hin. lia.
Qed.

Lemma zdigits_no_underscore i : ~ In underscore (zdigits i).
Proof.
  unfold zdigits. destruct (Z.to_int i) as [u | u]; intros H.
  - apply udigits_range in H. unfold underscore in H. lia.
  - destruct H as [H | H]; [discriminate H|]. apply udigits_range in H. unfold underscore in H. lia.
Qed.

Lemma zdigits_inj i j : zdigits i = zdigits j -> i = j.
Proof.
  unfold zdigits. intros H. apply DecimalZ.to_int_inj.
  destruct (Z.to_int i) as [u | u], (Z.to_int j) as [v | v].
  - f_equal. apply udigits_inj. exact H.
  - exfalso. exact (udigits_head_not_minus _ _ H).
  - exfalso. symmetry in H. exact (udigits_head_not_minus _ _ H).
  - f_equal. apply udigits_inj. injection H as H. exact H.
Qed.

(* ---- a string is cut at its LAST underscore: the name may contain any number of them *)
Lemma cut_last {A} (c : A) : forall (n1 n2 d1 d2 : list A),
  ~ In c d1 -> ~ In c d2 -> n1 ++ c :: d1 = n2 ++ c :: d2 -> n1 = n2 /\ d1 = d2.
Proof.
  induction n1 as [|x n1 IH]; intros [|y n2] d1 d2 H1 H2 E; cbn [app] in E.
  - injection E as E. split; [reflexivity | exact E].
  - injection E as Ec E. exfalso. apply H1. rewrite E. apply in_or_app. right. left. reflexivity.
  - injection E as Ec E. exfalso. apply H2. rewrite <- E. apply in_or_app. right. left. reflexivity.
  - injection E as Ex E. destruct (IH n2 d1 d2 H1 H2 E) as [-> ->]. subst. split; reflexivity.
Qed.

(* _mangle_name is injective, whatever the names *)
Theorem mangle_inj n1 i1 n2 i2 : mangle n1 i1 = mangle n2 i2 -> n1 = n2 /\ i1 = i2.
Proof.
  unfold mangle. intros E. injection E as E.
  destruct (cut_last underscore n1 n2 _ _ (zdigits_no_underscore i1) (zdigits_no_underscore i2) E) as [En Ed].
  split; [exact En | exact (zdigits_inj _ _ Ed)].
Qed.

Lemma mangled_symbol_inj nm a b : mangled_symbol nm a = mangled_symbol nm b -> a = b.
Proof. unfold mangled_symbol. intros E. exact (proj2 (mangle_inj _ _ _ _ E)). Qed.

(* names that look alike: `main`, the empty name, a name spelt like the symbol of another function *)
Example ex_mangle_main : mangle [109; 97; 105; 110] 3 = [95; 109; 97; 105; 110; 95; 51].
Proof. vm_compute. reflexivity. Qed.
Example ex_mangle_empty : mangle [] 12 = [95; 95; 49; 50] /\ mangle [] (-1) = [95; 95; 45; 49].
Proof. vm_compute. split; reflexivity. Qed.
Example ex_mangle_of_mangled :                     (* "f" at node 3  vs  "_f_3" at node 3 and "_f" at node 3 *)
  mangle (mangle [102] 3) 3 <> mangle [102] 3 /\ mangle [95; 102] 3 <> mangle [102] 3.
Proof. split; intros H; apply mangle_inj in H; destruct H as [H _]; discriminate H. Qed.

Lemma codes_eqb_spec : forall a b : list N, list_eqb N.eqb a b = true <-> a = b.
Proof.
  intros a b. destruct (list_eqb_spec N.eqb N.eqb_spec a b) as [E | E]; split; intros H; auto; try discriminate H.
  all: try contradiction.
Qed.

(* ---- the export with mangled symbols meets the specification, for every assignment of names to functions *)
Section Mangled.
  Variable h : hugr.
  Variable nm : Z -> list N.
  Hypothesis Hv : valid_b h = true.
  Let ls := h_links h.
  Let g := mangled_symbol nm.

  Lemma mangled_named : export_mangled nm h = named_module h (rep ls) g.
  Proof. reflexivity. Qed.

  Theorem mangled_applied_symbols_defined :
    applied_symbols_defined (list_eqb N.eqb) h (export_mangled nm h) = true.
  Proof.
    exact (model_applied_symbols_defined h (rep ls) g (list_eqb N.eqb) codes_eqb_spec (mangled_symbol_inj nm) Hv).
  Qed.

  Theorem mangled_link_names_b : link_names_iff_connected_b port_eqb h (export_mangled nm h) = true.
  Proof.
    unfold link_names_iff_connected_b. cbv zeta. rewrite mangled_named, (all_occ_export h (rep ls) g Hv).
    rewrite map_map. apply forallb_forall. intros a Ha. apply forallb_forall. intros b Hb.
    apply in_map_iff in Ha, Hb. destruct Ha as [p [<- _]]. destruct Hb as [q [<- _]]. cbn [pf fst snd].
    fold ls. apply eqb_reflx.
  Qed.

  Theorem mangled_single_producer :
    stars_b h = true -> single_producer_or_single_consumer port_eqb h (export_mangled nm h) = true.
  Proof.
    intros Hs. unfold single_producer_or_single_consumer. cbv zeta.
    rewrite mangled_named, (all_occ_export h (rep ls) g Hv). exact Hs.
  Qed.

  (* all seven clauses, as the monitor evaluates them *)
  Theorem mangled_spec :
    valid_order_b h = true -> order_ports_b h = true -> stars_b h = true ->
    spec_b port_eqb (list_eqb N.eqb) h (export_mangled nm h) = true.
  Proof.
    intros Ho Hp Hs. unfold spec_b.
    rewrite mangled_link_names_b, (mangled_single_producer Hs), mangled_applied_symbols_defined.
    rewrite mangled_named.
    rewrite (model_regions_mirror_hierarchy h (rep ls) g Hv), (model_ports_exactly_signature h (rep ls) g Hv),
      (model_order_hints_complete_and_keyed h (rep ls) g Hv Hp Ho), (model_metadata_carried h (rep ls) g Hv).
    reflexivity.
  Qed.
End Mangled.

(* ---- the comparison the correspondence check makes (canon: link names and symbols replaced by the position of
   their first occurrence) does not depend on how the symbols are spelt: node index or mangled string, whatever
   the names.  No validity hypothesis. *)
Theorem mangled_canon (h : hugr) (nm : Z -> list N) :
  canon port_eqb (list_eqb N.eqb) (export_mangled nm h) = canon port_eqb Z.eqb (export h).
Proof.
  unfold export_mangled, export. cbv zeta. rewrite !canon_map. apply map_region_ext_in; [reflexivity|].
  intros s Hs. apply (rank_map2 (list_eqb N.eqb) Z.eqb (mangled_symbol nm) (fun x : Z => x)).
  intros y _. destruct (Z.eqb s y) eqn:E.
  - apply Z.eqb_eq in E. subst y. apply codes_eqb_spec. reflexivity.
  - destruct (list_eqb N.eqb (mangled_symbol nm s) (mangled_symbol nm y)) eqn:E'; [|reflexivity].
    apply codes_eqb_spec, mangled_symbol_inj in E'. subst y. rewrite Z.eqb_refl in E. discriminate E.
Qed.

(* ---- the two symbol sites must agree: a witness.
   module { defn main (node 1) { Input 2; Output 3 };
            defn retry (node 4) { Input 5; Output 6; Call main 7; LoadFunc main 8 } }
   (harness corpus program `main_called`).  Definition site: `main` keeps its plain name, every other function is
   mangled; use site: always mangled. *)
Definition ex_main_called : hugr :=
  mkH (HNode (mkN 0 KModule 0 0 (-1) 0 0 0 [])
        [HNode (mkN 1 KFuncDefn 0 0 (-1) 1 0 0 [])
           [HNode (mkN 2 KInput 0 1 (-1) 0 0 0 []) [];
            HNode (mkN 3 KOutput 1 0 (-1) 0 0 0 []) []];
         HNode (mkN 4 KFuncDefn 0 0 (-1) 2 0 0 [])
           [HNode (mkN 5 KInput 0 1 (-1) 0 0 0 []) [];
            HNode (mkN 6 KOutput 1 0 (-1) 0 0 0 []) [];
            HNode (mkN 7 KCall 1 1 1 0 3 0 []) [];
            HNode (mkN 8 KLoadFunc 0 1 0 0 4 0 []) []]])
      [mkL 2 0 3 0; mkL 1 0 7 1; mkL 5 0 7 0; mkL 7 0 6 0; mkL 1 0 8 0]%Z.

Definition name_main : list N := [109; 97; 105; 110].
Definition name_retry : list N := [114; 101; 116; 114; 121].
Definition ex_names (i : Z) : list N := if Z.eqb i 1 then name_main else name_retry.
(* the definition site of the seeded change: plain name for `main` *)
Definition plain_main_site (s : list N) : list N :=
  if list_eqb N.eqb s (mangle name_main 1) then name_main else s.

Example ex_main_called_valid :
  valid_b ex_main_called = true /\ valid_order_b ex_main_called = true /\ stars_b ex_main_called = true /\
  order_ports_b ex_main_called = true /\ cfg_entries_b ex_main_called = true /\ export_err ex_main_called = false.
Proof. vm_compute. repeat split. Qed.
Example ex_main_called_spec :
  spec_b port_eqb (list_eqb N.eqb) ex_main_called (export_mangled ex_names ex_main_called) = true.
Proof. vm_compute. reflexivity. Qed.

Theorem symbol_sites_must_agree :
  exists h nm gd,
    valid_b h = true /\
    applied_symbols_defined (list_eqb N.eqb) h (export_mangled nm h) = true /\
    applied_symbols_defined (list_eqb N.eqb) h (sites_region gd (fun s => s) (export_mangled nm h)) = false.
Proof.
  exists ex_main_called, ex_names, plain_main_site. vm_compute. repeat split.
Qed.
