(* C12, second pass — proofs:
   (1) the full order-hint clause (clause 6) for the model's export on every HUGR meeting the guard
       valid_b, valid_order_b, order_ports_b: needs the global index lookup
       (`find_info ns (idx c) = Some (info c)` from distinct indices) and distinct indices among siblings;
   (2) totality: under valid_b the export raises exactly when some CFG of the model has no basic block;
   (3) the boolean link-name monitor is complete for the relational statement. *)
From Coq Require Import ZArith List Bool Arith Lia Relations.
Import ListNotations.
From HV Require Import lib.Harness model.Export spec.ExportS proofs.ExportP.
Open Scope Z_scope.

(* ------------------------------------------------------------------ lists *)

Lemma NoDup_app_inv {A} (l l' : list A) :
  NoDup (l ++ l') -> NoDup l /\ NoDup l' /\ (forall x, In x l -> ~ In x l').
Proof.
  induction l as [|a r IH]; cbn [app]; intros H.
  - split; [constructor | split; [exact H | intros x []]].
  - inversion H as [|? ? Hn Hr]; subst. destruct (IH Hr) as (A1 & A2 & A3).
    split; [|split; [exact A2|]].
    + constructor; [|exact A1]. intros Hin. apply Hn. apply in_or_app. left; exact Hin.
    + intros x [<-|Hx]; [intros Hin; apply Hn; apply in_or_app; right; exact Hin | apply A3; exact Hx].
Qed.

Lemma nodup_piece {A B} (f : B -> Z) (g : A -> list B) l c :
  NoDup (map f (flat_map g l)) -> In c l -> NoDup (map f (g c)).
Proof.
  induction l as [|a r IH]; [intros _ []|]. cbn [flat_map]. rewrite map_app. intros H Hc.
  apply NoDup_app_inv in H. destruct H as (H1 & H2 & _).
  destruct Hc as [->|Hc]; [exact H1 | apply IH; assumption].
Qed.

Lemma NoDup_map_filter {A} (f : A -> Z) (p : A -> bool) l : NoDup (map f l) -> NoDup (map f (filter p l)).
Proof.
  induction l as [|a r IH]; [intros; constructor|]. cbn [map filter]. intros H.
  inversion H as [|? ? Hn Hr]; subst. destruct (p a); [|apply IH; exact Hr].
  cbn [map]. constructor; [|apply IH; exact Hr].
  intros Hin. apply Hn. apply in_map_iff in Hin. destruct Hin as [x [Hx Hin]].
  apply in_map_iff. exists x. split; [exact Hx|]. apply filter_In in Hin. tauto.
Qed.

(* a list of optional singletons over distinct values has no duplicates *)
Lemma NoDup_flat_keys {A} (f : A -> Z) (k : A -> list Z) l :
  NoDup (map f l) -> (forall c, In c l -> k c = [f c] \/ k c = []) -> NoDup (flat_map k l).
Proof.
  induction l as [|a r IH]; [intros; constructor|]. cbn [map flat_map]. intros H Hk.
  inversion H as [|? ? Hn Hr]; subst.
  assert (Hrest : NoDup (flat_map k r)) by (apply IH; [exact Hr | intros c Hc; apply Hk; right; exact Hc]).
  destruct (Hk a (or_introl eq_refl)) as [E|E]; rewrite E; cbn [app]; [|exact Hrest].
  constructor; [|exact Hrest]. intros Hin. apply in_flat_map in Hin. destruct Hin as [c [Hc Hin]].
  apply Hn. destruct (Hk c (or_intror Hc)) as [E'|E']; rewrite E' in Hin; [|destruct Hin].
  destruct Hin as [<-|[]]. apply in_map. exact Hc.
Qed.

Lemma find_unique (l : list ninfo) x :
  NoDup (map n_idx l) -> In x l -> find (fun y => Z.eqb (n_idx y) (n_idx x)) l = Some x.
Proof.
  induction l as [|a r IH]; [intros _ []|]. cbn [map find]. intros Hn [->|Hin].
  - rewrite Z.eqb_refl. reflexivity.
  - inversion Hn as [|? ? Ha Hr]; subst. destruct (n_idx a =? n_idx x) eqn:E.
    + apply Z.eqb_eq in E. exfalso. apply Ha. rewrite E. apply in_map. exact Hin.
    + apply IH; assumption.
Qed.

(* ------------------------------------------------------------------ subtrees of the hierarchy *)

Fixpoint subtrees (t : htree) : list htree :=
  match t with HNode i ch => HNode i ch :: flat_map subtrees ch end.

Lemma nodes_subtrees : forall t, nodes_of t = map info (subtrees t).
Proof.
  apply (htree_ind2 (fun t => nodes_of t = map info (subtrees t))).
  intros i ch IH. cbn [nodes_of subtrees map info]. f_equal.
  induction ch as [|c r IHr]; [reflexivity|].
  inversion IH as [|? ? Hc Hr]; subst. cbn [flat_map]. rewrite map_app, <- Hc, <- IHr by exact Hr. reflexivity.
Qed.

Lemma subtrees_self t : In t (subtrees t).
Proof. destruct t; left; reflexivity. Qed.

Lemma subtrees_child t c : In c (children t) -> In c (subtrees t).
Proof.
  destruct t as [i ch]. cbn [children subtrees]. intros H. right. apply in_flat_map.
  exists c. split; [exact H | apply subtrees_self].
Qed.

Lemma subtrees_trans : forall t s u, In s (subtrees t) -> In u (subtrees s) -> In u (subtrees t).
Proof.
  apply (htree_ind2 (fun t => forall s u, In s (subtrees t) -> In u (subtrees s) -> In u (subtrees t))).
  intros i ch IH s u Hs Hu. cbn [subtrees] in Hs. destruct Hs as [<-|Hs]; [exact Hu|].
  apply in_flat_map in Hs. destruct Hs as [c [Hc Hs]]. cbn [subtrees]. right. apply in_flat_map.
  exists c. split; [exact Hc|]. rewrite Forall_forall in IH. apply (IH c Hc s u Hs Hu).
Qed.

Lemma fmk_in {A} keep (f : htree -> list A) ch x :
  In x (fmk keep f ch) -> exists c, In c ch /\ keep (kind_t c) = true /\ In x (f c).
Proof.
  induction ch as [|c r IH]; cbn [fmk]; [intros []|].
  destruct (keep (kind_t c)) eqn:K.
  - intros H. apply in_app_or in H. destruct H as [H|H].
    + exists c. split; [left; reflexivity | split; assumption].
    + destruct (IH H) as [d [Hd Hx]]. exists d. split; [right; exact Hd | exact Hx].
  - intros H. destruct (IH H) as [d [Hd Hx]]. exists d. split; [right; exact Hd | exact Hx].
Qed.

Lemma fmk_incl {A} keep (f : htree -> list A) ch c x :
  In c ch -> keep (kind_t c) = true -> In x (f c) -> In x (fmk keep f ch).
Proof.
  induction ch as [|d r IH]; [intros []|]. cbn [fmk]. intros [->|Hc] K Hx.
  - rewrite K. apply in_or_app. left. exact Hx.
  - destruct (keep (kind_t d)); [apply in_or_app; right|]; apply IH; assumption.
Qed.

(* the model nodes of a tree are among its subtrees *)
Lemma model_nodes_sub : forall t,
  (forall s, In s (model_nodes t) -> In s (subtrees t)) /\
  (forall keep s, In s (fmk keep model_nodes (children t)) -> In s (subtrees t)).
Proof.
  apply (htree_ind2 (fun t =>
    (forall s, In s (model_nodes t) -> In s (subtrees t)) /\
    (forall keep s, In s (fmk keep model_nodes (children t)) -> In s (subtrees t)))).
  intros i ch IH. rewrite Forall_forall in IH.
  assert (P2 : forall keep s, In s (fmk keep model_nodes ch) -> In s (subtrees (HNode i ch))).
  { intros keep s Hs. apply fmk_in in Hs. destruct Hs as [c [Hc [_ Hs]]].
    apply (subtrees_trans _ c); [apply subtrees_child; exact Hc | apply (proj1 (IH c Hc)); exact Hs]. }
  split; [|exact P2].
  intros s Hs. cbn [model_nodes] in Hs. destruct Hs as [<-|Hs]; [apply subtrees_self|].
  destruct (n_kind i); try (exact (P2 _ _ Hs)); try (destruct Hs; fail).
  (* Conditional: the model nodes are those of the regions of the cases *)
  apply in_flat_map in Hs. destruct Hs as [c [Hc Hs]].
  apply (subtrees_trans _ c); [apply subtrees_child; exact Hc|].
  destruct c as [ci cch]. apply (proj2 (IH _ Hc) exported). exact Hs.
Qed.

Lemma sub_nodup : forall t s,
  NoDup (map n_idx (nodes_of t)) -> In s (subtrees t) -> NoDup (map n_idx (nodes_of s)).
Proof.
  apply (htree_ind2 (fun t => forall s, NoDup (map n_idx (nodes_of t)) -> In s (subtrees t) ->
                                        NoDup (map n_idx (nodes_of s)))).
  intros i ch IH s Hn Hs. cbn [subtrees] in Hs. destruct Hs as [<-|Hs]; [exact Hn|].
  apply in_flat_map in Hs. destruct Hs as [c [Hc Hs]]. rewrite Forall_forall in IH.
  apply (IH c Hc); [|exact Hs].
  cbn [nodes_of map] in Hn. inversion Hn as [|? ? _ Hr]; subst. eapply nodup_piece; eassumption.
Qed.

Lemma children_nodup ch : NoDup (map n_idx (flat_map nodes_of ch)) -> NoDup (map idx_t ch).
Proof.
  induction ch as [|c r IH]; [intros; constructor|]. cbn [flat_map map]. rewrite map_app. intros H.
  apply NoDup_app_inv in H. destruct H as (H1 & H2 & H3).
  constructor; [|apply IH; exact H2]. intros Hin. apply in_map_iff in Hin. destruct Hin as [d [Hd Hin]].
  apply (H3 (idx_t c)).
  - destruct c as [ci cch]. left. reflexivity.
  - rewrite <- Hd. apply in_map_iff. exists (info d). split; [reflexivity|]. apply in_flat_map.
    exists d. split; [exact Hin|]. destruct d; left; reflexivity.
Qed.

Lemma exported_not_io k : exported k = true -> is_input k = false /\ is_output k = false.
Proof. destruct k; cbn; intros; try discriminate; split; reflexivity. Qed.

(* ------------------------------------------------------------------ clause 6 in full *)

Section Hints.
  Variable h : hugr.
  Context {L Sy : Type} (f : port -> L) (g : Z -> Sy).
  Hypothesis Hvalid : valid_b h = true.
  Hypothesis Hpaired : order_ports_b h = true.
  Notation root := (h_root h).
  Notation ns := (nodes_of (h_root h)).
  Notation ls := (h_links h).
  Notation E := (E h f g).
  Notation F := (F h f g).
  Notation KPof ch := (map F (filter (fun c => exported (kind_t c)) ch)).

  Lemma root_nodup : NoDup (map n_idx ns).
  Proof.
    destruct (valid_parts h Hvalid) as (_ & _ & Hn & _).
    apply (reflect_iff _ _ (nodupb_spec Z.eqb Z.eqb_spec _)). exact Hn.
  Qed.

  Lemma all_model_nodes_sub s : In s (all_model_nodes h) -> In s (subtrees root).
  Proof. intros Hs. apply (proj2 (model_nodes_sub root) exported). exact Hs. Qed.

  (* the global index lookup *)
  Lemma lookup_sub s : In s (subtrees root) -> find_info ns (idx_t s) = Some (info s).
  Proof.
    intros Hs. unfold find_info, idx_t. apply find_unique; [exact root_nodup|].
    rewrite nodes_subtrees. apply in_map. exact Hs.
  Qed.
  Lemma kind_of_sub s : In s (subtrees root) -> kind_of ns (idx_t s) = kind_t s.
  Proof. intros Hs. unfold kind_of. rewrite (lookup_sub s Hs). reflexivity. Qed.

  Lemma siblings_nodup s : In s (subtrees root) -> NoDup (map idx_t (children s)).
  Proof.
    intros Hs. pose proof (sub_nodup root s root_nodup Hs) as Hn. destruct s as [i ch].
    cbn [nodes_of map children] in *. inversion Hn as [|? ? _ Hr]; subst. apply children_nodup. exact Hr.
  Qed.

  (* what the hint clause needs to know about the children of one dataflow region *)
  Definition regionOK (ch : list htree) : Prop :=
    forallb (fun c => df_child (kind_t c)) ch = true /\ sib_ok h ch = true /\
    NoDup (map idx_t ch) /\ (forall d, In d ch -> kind_of ns (idx_t d) = kind_t d).

  Lemma find_kid_some ch i a :
    find_kid (KPof ch) i = Some a ->
    exists c, In c ch /\ exported (kind_t c) = true /\ idx_t c = i /\ a = F c.
  Proof.
    unfold find_kid. intros H. apply find_some in H. destruct H as [Hin He].
    apply in_map_iff in Hin. destruct Hin as [c [<- Hc]]. apply filter_In in Hc. destruct Hc as [Hc Hx].
    exists c. cbn [ExportP.F fst] in He. apply Z.eqb_eq in He. auto.
  Qed.
  Lemma find_kid_ex ch c :
    In c ch -> exported (kind_t c) = true -> exists a, find_kid (KPof ch) (idx_t c) = Some a.
  Proof.
    intros Hc Hx. destruct (find_kid (KPof ch) (idx_t c)) as [a|] eqn:Ef; [eauto|]. exfalso.
    unfold find_kid in Ef. eapply find_none in Ef; [|apply in_map; apply filter_In; split; eassumption].
    cbn [ExportP.F fst] in Ef. rewrite Z.eqb_refl in Ef. discriminate.
  Qed.

  Lemma keys_of c :
    df_child (kind_t c) = true -> exported (kind_t c) = true -> needs_key ns ls (idx_t c) = true ->
    mem Z.eqb (idx_t c) (e_keys (E c)) = true.
  Proof.
    intros Hd Hx Hk. rewrite E_keys by (apply df_child_good; assumption). rewrite Hk. cbn [mem].
    rewrite Z.eqb_refl. reflexivity.
  Qed.

  Lemma needs_key_src l :
    In l ls -> l_soff l = -1 -> is_output (kind_of ns (l_dst l)) = false -> needs_key ns ls (l_src l) = true.
  Proof.
    intros Hin Ho Hk. unfold needs_key. apply orb_true_iff. left. apply existsb_exists. exists (l_dst l). split.
    - unfold order_succs. apply in_map. apply filter_In. split; [exact Hin|]. rewrite Z.eqb_refl, Ho. reflexivity.
    - rewrite Hk. reflexivity.
  Qed.
  Lemma needs_key_dst l :
    In l ls -> l_doff l = -1 -> is_input (kind_of ns (l_src l)) = false -> needs_key ns ls (l_dst l) = true.
  Proof.
    intros Hin Ho Hk. unfold needs_key. apply orb_true_iff. right. apply existsb_exists. exists (l_src l). split.
    - unfold order_preds. apply in_map. apply filter_In. split; [exact Hin|]. rewrite Z.eqb_refl, Ho. reflexivity.
    - rewrite Hk. reflexivity.
  Qed.

  Lemma hint_in ch c l :
    In c ch -> exported (kind_t c) = true -> In l ls -> l_src l = idx_t c -> l_soff l = -1 ->
    is_output (kind_of ns (l_dst l)) = false -> In (idx_t c, l_dst l) (dfg_hints ns ls ch).
  Proof.
    intros Hc Hx Hl Hs Ho Hk. unfold dfg_hints. apply in_flat_map. exists c. split; [exact Hc|]. rewrite Hx.
    unfold hints_of. apply in_map_iff. exists (l_dst l). split; [reflexivity|]. apply filter_In. split.
    - unfold order_succs. apply in_map. apply filter_In. split; [exact Hl|]. rewrite Hs, Ho, Z.eqb_refl. reflexivity.
    - rewrite Hk. reflexivity.
  Qed.
  Lemma hint_inv ch a b :
    In (a, b) (dfg_hints ns ls ch) ->
    exists c l, In c ch /\ exported (kind_t c) = true /\ a = idx_t c /\ In l ls /\ l_src l = a /\
                l_soff l = -1 /\ l_dst l = b /\ is_output (kind_of ns b) = false.
  Proof.
    intros Hin. unfold dfg_hints in Hin. apply in_flat_map in Hin. destruct Hin as [c [Hc Hin]].
    destruct (exported (kind_t c)) eqn:Ex; [|destruct Hin].
    unfold hints_of in Hin. apply in_map_iff in Hin. destruct Hin as [s0 [Heq Hs0]]. inversion Heq; subst a b.
    apply filter_In in Hs0. destruct Hs0 as [Hs0 Hk]. unfold order_succs in Hs0. apply in_map_iff in Hs0.
    destruct Hs0 as [l [Hd Hl]]. apply filter_In in Hl. destruct Hl as [Hl Hc2]. apply andb_true_iff in Hc2.
    destruct Hc2 as [C1 C2]. apply Z.eqb_eq in C1, C2.
    exists c, l. repeat split; try assumption. apply negb_true_iff in Hk. exact Hk.
  Qed.

  Lemma paired l : In l ls -> (l_soff l = -1 <-> l_doff l = -1).
  Proof.
    intros Hl. pose proof Hpaired as H. unfold order_ports_b in H. rewrite forallb_forall in H.
    specialize (H l Hl). apply eqb_prop in H. rewrite <- !Z.eqb_eq. rewrite H. tauto.
  Qed.

  Lemma hints_complete_fact ch : regionOK ch -> hints_complete h ch (dfgR h f g ch) = true.
  Proof.
    intros (Hdf & _ & _ & Hk). unfold hints_complete, dfgR. cbv zeta. rewrite kid_pairs_fact. cbn [r_hints].
    rewrite forallb_forall in Hdf.
    apply forallb_forall. intros l Hl. destruct (is_order l) eqn:Ho; [|reflexivity].
    destruct (find_kid (KPof ch) (l_src l)) as [a|] eqn:Fa; [|reflexivity].
    destruct (find_kid (KPof ch) (l_dst l)) as [b|] eqn:Fb; [|reflexivity].
    unfold is_order in Ho. apply andb_true_iff in Ho. destruct Ho as [Ho1 Ho2]. apply Z.eqb_eq in Ho1, Ho2.
    destruct (find_kid_some _ _ _ Fa) as (c & Hc & Hxc & Hic & ->).
    destruct (find_kid_some _ _ _ Fb) as (d & Hd & Hxd & Hid & ->).
    destruct (exported_not_io _ Hxc) as [Hci _]. destruct (exported_not_io _ Hxd) as [_ Hdo].
    assert (Kd : is_output (kind_of ns (l_dst l)) = false) by (rewrite <- Hid, (Hk d Hd); exact Hdo).
    assert (Kc : is_input (kind_of ns (l_src l)) = false) by (rewrite <- Hic, (Hk c Hc); exact Hci).
    apply existsb_exists. exists (idx_t c, l_dst l). split.
    - apply hint_in; auto.
    - unfold hint_of. rewrite Fa, Fb. cbn [ExportP.F fst snd]. apply andb_true_iff. split.
      + apply keys_of; [apply Hdf; exact Hc | exact Hxc |]. rewrite Hic. apply needs_key_src; assumption.
      + rewrite <- Hid. apply keys_of; [apply Hdf; exact Hd | exact Hxd |]. rewrite Hid.
        apply needs_key_dst; assumption.
  Qed.

  Lemma hints_keyed_fact ch : regionOK ch -> hints_keyed h ch (dfgR h f g ch) = true.
  Proof.
    intros (Hdf & Hsib & Hnd & Hk). unfold hints_keyed, dfgR. cbv zeta. rewrite kid_pairs_fact. cbn [r_hints].
    rewrite forallb_forall in Hdf. apply andb_true_iff. split.
    - (* keys are distinct *)
      apply (reflect_iff _ _ (nodupb_spec Z.eqb Z.eqb_spec _)).
      rewrite flat_map_concat_map, map_map, <- flat_map_concat_map. cbn [ExportP.F snd].
      apply (NoDup_flat_keys idx_t).
      + apply NoDup_map_filter. exact Hnd.
      + intros c Hc. apply filter_In in Hc. destruct Hc as [Hc Hx].
        rewrite E_keys by (apply df_child_good; [apply Hdf; exact Hc | exact Hx]).
        destruct (needs_key ns ls (idx_t c)); [left | right]; reflexivity.
    - (* every hint is an order edge between two keyed nodes of the region *)
      apply forallb_forall. intros [a b] Hin.
      destruct (hint_inv _ _ _ Hin) as (c & l & Hc & Hxc & -> & Hl & Hs & Ho & Hdst & Kb).
      assert (Ho2 : l_doff l = -1) by (apply (paired l Hl); exact Ho).
      assert (Hord : is_order l = true) by (unfold is_order; rewrite Ho, Ho2; reflexivity).
      (* the successor is an exported sibling *)
      unfold sib_ok in Hsib. rewrite forallb_forall in Hsib. specialize (Hsib c Hc). rewrite Hxc in Hsib.
      rewrite forallb_forall in Hsib. specialize (Hsib l Hl). rewrite Hord, Hs, Z.eqb_refl in Hsib.
      apply existsb_exists in Hsib. destruct Hsib as [d [Hd Hd2]]. apply andb_true_iff in Hd2.
      destruct Hd2 as [Hid Hxd]. apply Z.eqb_eq in Hid.
      assert (Hxd' : exported (kind_t d) = true).
      { apply orb_true_iff in Hxd. destruct Hxd as [Hxd|Hxd]; [exact Hxd|]. exfalso.
        rewrite <- Hdst, <- Hid, (Hk d Hd), Hxd in Kb. discriminate. }
      destruct (exported_not_io _ Hxc) as [Hci _].
      assert (Kc : is_input (kind_of ns (l_src l)) = false) by (rewrite Hs, (Hk c Hc); exact Hci).
      assert (Kd : is_output (kind_of ns (l_dst l)) = false) by (rewrite Hdst; exact Kb).
      destruct (find_kid_ex ch c Hc Hxc) as [a Fa]. destruct (find_kid_ex ch d Hd Hxd') as [b' Fb].
      destruct (find_kid_some _ _ _ Fa) as (c' & Hc' & Hxc' & Hic' & ->).
      destruct (find_kid_some _ _ _ Fb) as (d' & Hd' & Hxd'' & Hid' & ->).
      apply existsb_exists. exists l. split; [exact Hl|]. rewrite Hord. cbn [andb].
      unfold hint_of. rewrite Hs, <- Hid, Fa, Fb. cbn [ExportP.F fst snd]. apply andb_true_iff. split.
      + rewrite <- Hic'. apply keys_of; [apply Hdf; exact Hc' | exact Hxc' |]. rewrite Hic', <- Hs.
        apply needs_key_src; assumption.
      + rewrite <- Hdst, <- Hid, <- Hid'. apply keys_of; [apply Hdf; exact Hd' | exact Hxd'' |].
        rewrite Hid', Hid. apply needs_key_dst; assumption.
  Qed.

  (* the children of a dataflow container of the hierarchy form such a region *)
  Lemma region_of s :
    In s (subtrees root) -> tree_wf s = true -> order_ok h s = true ->
    match kind_t s with KDFG | KLoop | KBlock | KFuncDefn | KCase => True | _ => False end ->
    regionOK (children s).
  Proof.
    intros Hs Hw Ho Hk. repeat split.
    - apply wf_df_children; assumption.
    - unfold order_ok in Ho. destruct (kind_t s); try contradiction; exact Ho.
    - apply siblings_nodup. exact Hs.
    - intros d Hd. apply kind_of_sub. apply (subtrees_trans _ s); [exact Hs | apply subtrees_child; exact Hd].
  Qed.

  Theorem model_order_hints_complete_and_keyed :
    valid_order_b h = true -> order_hints_complete_and_keyed h (named_module h f g) = true.
  Proof.
    intros Hvo. unfold order_hints_complete_and_keyed. apply (clause_by_nodes h f g Hvalid).
    intros s Hin [Hw Hg]. unfold l_hints.
    unfold valid_order_b in Hvo. rewrite forallb_forall in Hvo. specialize (Hvo s Hin).
    apply andb_true_iff in Hvo. destruct Hvo as [Hos Hoc].
    pose proof (all_model_nodes_sub s Hin) as Hsub.
    assert (Hdfg : match kind_t s with KDFG | KLoop | KBlock | KFuncDefn | KCase => True | _ => False end ->
                   hints_complete h (children s) (dfgR h f g (children s)) &&
                   hints_keyed h (children s) (dfgR h f g (children s)) = true).
    { intros Hk. pose proof (region_of s Hsub Hw Hos Hk) as HR.
      rewrite hints_complete_fact, hints_keyed_fact by exact HR. reflexivity. }
    destruct (kind_t s) eqn:K; try reflexivity.
    - rewrite E_regs'. unfold regs_of. unfold kind_t in K. rewrite K. apply Hdfg. exact I.
    - rewrite E_regs'. unfold regs_of. unfold kind_t in K. rewrite K. apply Hdfg. exact I.
    - rewrite E_regs'. unfold regs_of. unfold kind_t in K. rewrite K. apply Hdfg. exact I.
    - (* Conditional: one region per case *)
      rewrite (cond_regs' h f g s Hw K).
      pose proof (wf_children s Hw) as Hc. pose proof (wf_cond_cases s Hw K) as Hk.
      assert (Hsubc : forall c, In c (children s) -> In c (subtrees root)).
      { intros c Hcc. apply (subtrees_trans _ s); [exact Hsub | apply subtrees_child; exact Hcc]. }
      clear Hdfg. induction (children s) as [|c r IH]; [reflexivity|].
      cbn [forallb map] in *. apply andb_true_iff in Hc, Hk, Hoc.
      destruct Hc as [Hc1 Hc2]. destruct Hk as [Hk1 Hk2]. destruct Hoc as [Ho1 Ho2].
      rewrite IH; try assumption; [|intros d Hd; apply Hsubc; right; exact Hd]. rewrite andb_true_r.
      assert (HR : regionOK (children c)).
      { apply region_of; [apply Hsubc; left; reflexivity | exact Hc1 | exact Ho1 |].
        destruct (kind_t c); try discriminate; exact I. }
      rewrite hints_complete_fact, hints_keyed_fact by exact HR. reflexivity.
    - rewrite E_regs'. unfold regs_of. unfold kind_t in K. rewrite K. apply Hdfg. exact I.
  Qed.
End Hints.

(* ------------------------------------------------------------------ totality: where the export raises *)

Section Total.
  Variable h : hugr.
  Notation root := (h_root h).
  Notation ns := (nodes_of (h_root h)).
  Notation ls := (h_links h).

  (* the facts about one model node that keep export_node from raising *)
  Definition node_fine (s : htree) : Prop := static_ok h s = true /\ cfg_entry_ok s = true.

  (* Input, Output, Const and exit blocks are leaves that never raise *)
  Lemma leaf_no_err c :
    tree_wf c = true ->
    match kind_t c with KInput | KOutput | KConst | KExit => True | _ => False end ->
    tree_err ns ls c = false.
  Proof.
    destruct c as [i ch]. unfold kind_t. cbn [info tree_wf tree_err]. intros Hw Hk.
    apply andb_true_iff in Hw. destruct Hw as [Hn _]. unfold node_wf in Hn. unfold node_err.
    destruct (n_kind i); try contradiction; (destruct ch; [reflexivity | discriminate]).
  Qed.

  Lemma not_exported k : exported k = false -> match k with KInput | KOutput | KConst => True | _ => False end.
  Proof. destruct k; cbn; intros; try discriminate; exact I. Qed.

  Lemma existsb_false {A} (p : A -> bool) l : (forall x, In x l -> p x = false) -> existsb p l = false.
  Proof.
    induction l as [|a r IH]; [reflexivity|]. intros H. cbn [existsb]. rewrite (H a (or_introl eq_refl)).
    apply IH. intros x Hx. apply H. right. exact Hx.
  Qed.

  Lemma func_sym_some i :
    match s_static h i with Some f0 => is_func (n_kind f0) = true | None => False end ->
    func_sym ns ls i <> None.
  Proof.
    unfold func_sym. change (static_source ns ls i) with (s_static h i).
    destruct (s_static h i) as [f0|]; [|contradiction]. intros ->. discriminate.
  Qed.

  (* a well-formed subtree all of whose model nodes are fine exports without raising *)
  Lemma tree_no_err : forall t,
    tree_wf t = true -> (forall s, In s (model_nodes t) -> node_fine s) -> kind_t t <> KModule ->
    tree_err ns ls t = false.
  Proof.
    apply (htree_ind2 (fun t => tree_wf t = true -> (forall s, In s (model_nodes t) -> node_fine s) ->
                                kind_t t <> KModule -> tree_err ns ls t = false)).
    intros i ch IH Hwf Hfine Hnm. rewrite Forall_forall in IH.
    pose proof Hwf as Hwf'. cbn [tree_wf] in Hwf'. apply andb_true_iff in Hwf'. destruct Hwf' as [Hn Hch].
    rewrite forallb_forall in Hch.
    destruct (Hfine (HNode i ch) (or_introl eq_refl)) as [Hst Hcfg].
    unfold static_ok, kind_t in Hst. unfold cfg_entry_ok, kind_t in Hcfg. cbn [info children] in Hst, Hcfg.
    unfold kind_t in Hnm. cbn [info] in Hnm.
    cbn [tree_err]. apply orb_false_iff.
    (* children of a dataflow region *)
    assert (Hdf : forallb (fun c => df_child (kind_t c)) ch && at_most_one is_input ch && at_most_one is_output ch = true ->
                  (forall s, In s (fmk exported model_nodes ch) -> node_fine s) ->
                  existsb (fun c => match kind_t c with
                                    | KModule | KExit | KCase | KUnknown => true
                                    | KInput | KOutput => match n_kind i with KModule => true | _ => false end
                                    | _ => false end) ch = false /\
                  existsb (tree_err ns ls) ch = false).
    { intros H Hf. apply andb_true_iff in H. destruct H as [H _]. apply andb_true_iff in H. destruct H as [H _].
      rewrite forallb_forall in H. split; apply existsb_false; intros c Hc; specialize (H c Hc).
      - destruct (kind_t c); try discriminate; try reflexivity; (destruct (n_kind i); try reflexivity; congruence).
      - destruct (exported (kind_t c)) eqn:Ex.
        + apply (IH c Hc); [apply Hch; exact Hc | | intros K; rewrite K in H; discriminate].
          intros s Hs. apply Hf. apply (fmk_incl exported model_nodes ch c s Hc Ex Hs).
        + apply leaf_no_err; [apply Hch; exact Hc|]. apply not_exported in Ex.
          destruct (kind_t c); try contradiction; exact I. }
    cbn [model_nodes] in Hfine. unfold node_wf in Hn. unfold node_err.
    destruct (n_kind i) eqn:K; try congruence;
      try (destruct ch; [split; reflexivity | discriminate Hn]);
      try (apply Hdf; [exact Hn | intros s Hs; apply Hfine; right; exact Hs]).
    - (* CFG *)
      apply andb_true_iff in Hn. destruct Hn as [Hn _]. rewrite forallb_forall in Hn. split.
      + apply orb_false_iff. split.
        * unfold first_such. destruct (find (fun c => is_block (kind_t c)) ch) eqn:Ef; [reflexivity|]. exfalso.
          apply existsb_exists in Hcfg. destruct Hcfg as [c [Hc Hb]].
          apply (find_none _ _ Ef) in Hc. cbv beta in Hc. unfold kind_t in Hc. congruence.
        * apply existsb_false. intros c Hc. rewrite (Hn c Hc). reflexivity.
      + apply existsb_false. intros c Hc. destruct (is_block (kind_t c)) eqn:Eb.
        * apply (IH c Hc); [apply Hch; exact Hc | | intros K'; rewrite K' in Eb; discriminate].
          intros s Hs. apply Hfine. right. apply (fmk_incl is_block model_nodes ch c s Hc Eb Hs).
        * apply leaf_no_err; [apply Hch; exact Hc|]. specialize (Hn c Hc). rewrite Eb in Hn. cbn [orb] in Hn.
          destruct (kind_t c); try discriminate; exact I.
    - (* Conditional: the children are cases *)
      split; [reflexivity|]. rewrite forallb_forall in Hn. apply existsb_false. intros c Hc.
      specialize (Hn c Hc).
      apply (IH c Hc); [apply Hch; exact Hc | | intros K'; rewrite K' in Hn; discriminate].
      intros s Hs. destruct c as [ci cch]. unfold kind_t in Hn. cbn [info] in Hn. cbn [model_nodes] in Hs.
      destruct Hs as [<-|Hs].
      + unfold node_fine, static_ok, cfg_entry_ok, kind_t. cbn [info].
        destruct (n_kind ci); try discriminate. split; reflexivity.
      + destruct (n_kind ci); try discriminate. apply Hfine. right. apply in_flat_map.
        exists (HNode ci cch). split; [exact Hc | exact Hs].
    - (* Call *) destruct ch; [|discriminate Hn]. split; [|reflexivity].
      pose proof (func_sym_some i) as Hf. destruct (func_sym ns ls i); [reflexivity|]. exfalso. apply Hf; [|reflexivity].
      destruct (s_static h i); [|discriminate Hst]. apply andb_true_iff in Hst. tauto.
    - (* LoadFunc *) destruct ch; [|discriminate Hn]. split; [|reflexivity].
      pose proof (func_sym_some i) as Hf. destruct (func_sym ns ls i); [reflexivity|]. exfalso. apply Hf; [|reflexivity].
      destruct (s_static h i); [|discriminate Hst]. apply andb_true_iff in Hst. tauto.
    - (* LoadConst *) destruct ch; [|discriminate Hn]. split; [|reflexivity].
      unfold const_val. change (static_source ns ls i) with (s_static h i).
      destruct (s_static h i); [|discriminate Hst]. rewrite Hst. reflexivity.
  Qed.

  (* when the export raises somewhere, it raises at a node of the hierarchy *)
  Lemma tree_err_sub : forall t s,
    tree_err ns ls t = false -> In s (subtrees t) -> node_err ns ls (info s) (children s) = false.
  Proof.
    apply (htree_ind2 (fun t => forall s, tree_err ns ls t = false -> In s (subtrees t) ->
                                          node_err ns ls (info s) (children s) = false)).
    intros i ch IH s He Hs. cbn [tree_err] in He. apply orb_false_iff in He. destruct He as [He1 He2].
    cbn [subtrees] in Hs. destruct Hs as [<-|Hs]; [exact He1|].
    apply in_flat_map in Hs. destruct Hs as [c [Hc Hs]]. rewrite Forall_forall in IH.
    apply (IH c Hc s); [|exact Hs].
    destruct (tree_err ns ls c) eqn:Ec; [|reflexivity].
    assert (existsb (tree_err ns ls) ch = true) by (apply existsb_exists; exists c; split; assumption). congruence.
  Qed.

  Hypothesis Hvalid : valid_b h = true.

  Lemma tree_err_unfold t :
    tree_err ns ls t = node_err ns ls (info t) (children t) || existsb (tree_err ns ls) (children t).
  Proof. destruct t; reflexivity. Qed.

  Theorem export_total : cfg_entries_b h = true -> export_err h = false.
  Proof.
    intros Hcfg. destruct (valid_parts h Hvalid) as (Hk & Hwf & _ & Hst).
    destruct (root_children_wf h Hvalid) as [Hch Hn].
    unfold export_err. rewrite Hk. cbn [opk_eqb negb orb]. rewrite tree_err_unfold.
    unfold kind_t in Hk. unfold node_wf in Hn. rewrite Hk in Hn. rewrite forallb_forall in Hn, Hch.
    rewrite forallb_forall in Hst. unfold cfg_entries_b in Hcfg. rewrite forallb_forall in Hcfg.
    apply orb_false_iff. split.
    - unfold node_err. rewrite Hk. apply existsb_false. intros c Hc. specialize (Hn c Hc).
      destruct (kind_t c); try discriminate; reflexivity.
    - apply existsb_false. intros c Hc. specialize (Hn c Hc). destruct (exported (kind_t c)) eqn:Ex.
      + apply tree_no_err; [apply Hch; exact Hc | | intros K; rewrite K in Hn; discriminate].
        intros s Hs.
        assert (Hin : In s (all_model_nodes h)).
        { unfold all_model_nodes. apply (fmk_incl exported model_nodes _ c s Hc Ex Hs). }
        split; [apply Hst | apply Hcfg]; exact Hin.
      + apply leaf_no_err; [apply Hch; exact Hc|]. apply not_exported in Ex.
        destruct (kind_t c); try contradiction; exact I.
  Qed.

  (* the added condition is necessary: a valid module on which the export does not raise has an entry
     block in every CFG *)
  Theorem export_total_only_if : export_err h = false -> cfg_entries_b h = true.
  Proof.
    intros He. unfold export_err in He. apply orb_false_iff in He. destruct He as [_ He].
    unfold cfg_entries_b. apply forallb_forall. intros s Hs.
    pose proof (tree_err_sub root s He (all_model_nodes_sub h s Hs)) as Hn.
    unfold cfg_entry_ok. unfold node_err in Hn. unfold kind_t. destruct (n_kind (info s)); try reflexivity.
    apply orb_false_iff in Hn. destruct Hn as [Hn _]. unfold first_such in Hn.
    destruct (find (fun c => is_block (kind_t c)) (children s)) as [c|] eqn:Ef; [|discriminate].
    apply find_some in Ef. apply existsb_exists. exists c. exact Ef.
  Qed.

  Theorem export_total_iff : export_err h = false <-> cfg_entries_b h = true.
  Proof. split; [apply export_total_only_if | apply export_total]. Qed.
End Total.

(* valid_b alone is not enough: module { defn main { Input; Output; CFG { exit } } } is a module
   meeting valid_b, valid_order_b, order_ports_b and stars_b on which export_region_cfg raises
   "CFG ... has no entry block" *)
Definition ex_no_entry : hugr :=
  mkH (HNode (mkN 0 KModule 0 0 (-1) 0 0 0 [])
        [HNode (mkN 1 KFuncDefn 0 0 (-1) 1 0 0 [])
           [HNode (mkN 2 KInput 0 0 (-1) 0 0 0 []) [];
            HNode (mkN 3 KOutput 0 0 (-1) 0 0 0 []) [];
            HNode (mkN 4 KCFG 0 0 (-1) 0 5 0 [])
              [HNode (mkN 5 KExit 1 0 (-1) 0 0 0 []) []]]])
      [].
Theorem valid_not_total :
  exists h, valid_b h = true /\ valid_order_b h = true /\ order_ports_b h = true /\ stars_b h = true /\
            export_err h = true.
Proof. exists ex_no_entry. vm_compute. repeat split. Qed.

(* order_ports_b is needed for the order-hint clause: with a link from an order port to a value port the
   exporter emits a hint that is no state-order edge *)
Definition ex_half_order : hugr :=
  mkH (HNode (mkN 0 KModule 0 0 (-1) 0 0 0 [])
        [HNode (mkN 1 KFuncDefn 0 0 (-1) 1 0 0 [])
           [HNode (mkN 2 KInput 0 0 (-1) 0 0 0 []) [];
            HNode (mkN 3 KOutput 0 0 (-1) 0 0 0 []) [];
            HNode (mkN 4 KExt 0 0 (-1) 0 4 0 []) [];
            HNode (mkN 5 KExt 1 0 (-1) 0 4 0 []) []]])
      [mkL 4 (-1) 5 0].
Theorem hints_need_order_ports :
  exists h, valid_b h = true /\ valid_order_b h = true /\ export_err h = false /\
            order_hints_complete_and_keyed h (export h) = false.
Proof. exists ex_half_order. vm_compute. repeat split. Qed.

(* ------------------------------------------------------------------ the link-name monitor is complete *)

Theorem link_names_b_complete {L Sy} (leqb : L -> L -> bool) h (m : eregion L Sy) :
  link_names_iff_connected leqb h m -> link_names_iff_connected_b leqb h m = true.
Proof.
  unfold link_names_iff_connected_b, link_names_iff_connected. cbv zeta. intros H.
  apply forallb_forall. intros a Ha. apply forallb_forall. intros b Hb.
  apply in_map_iff in Ha, Hb. destruct Ha as [[p n] [<- Hp]]. destruct Hb as [[q n'] [<- Hq]]. cbn [fst snd].
  specialize (H p n q n' Hp Hq).
  destruct (leqb n n') eqn:El; destruct (port_eqb (rep (h_links h) p) (rep (h_links h) q)) eqn:Ep; try reflexivity; exfalso.
  - assert (Hc : conn (h_links h) p q) by (apply H; reflexivity).
    apply rep_spec in Hc. apply port_eqb_spec in Hc. congruence.
  - apply port_eqb_spec in Ep. apply rep_spec in Ep. apply H in Ep. discriminate.
Qed.

Theorem link_names_b_iff {L Sy} (leqb : L -> L -> bool) h (m : eregion L Sy) :
  link_names_iff_connected_b leqb h m = true <-> link_names_iff_connected leqb h m.
Proof. split; [apply link_names_b_sound | apply link_names_b_complete]. Qed.

(* ------------------------------------------------------------------ the theorems about Hugr.to_model *)

Theorem export_order_hints_complete_and_keyed h :
  valid_b h = true -> valid_order_b h = true -> order_ports_b h = true ->
  order_hints_complete_and_keyed h (export h) = true.
Proof.
  intros Hv Ho Hp. exact (model_order_hints_complete_and_keyed h (rep (h_links h)) idZ Hv Hp Ho).
Qed.

Theorem export_no_error h : valid_b h = true -> cfg_entries_b h = true -> to_model h = Some (export h).
Proof. intros Hv Hc. unfold to_model. rewrite (export_total h Hv Hc). reflexivity. Qed.

(* the guards are satisfiable by the example of ExportP (call, order edge) and by a module with a CFG *)
Example ex_guards2 : valid_hints_b ex_hugr = true /\ valid_total_b ex_hugr = true.
Proof. vm_compute. split; reflexivity. Qed.
