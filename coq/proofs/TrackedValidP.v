(* C15 x C01 — the validity theorem of C01 carried over to the tracked dataflow builder.

   1. On the common fragment (adds of leaf operations, one final set_outputs) the plain-builder model of
      model/Tracked.v (node log + link log) and the builder model of model/Builder.v (graph store, typed wiring,
      completion of partial operations, serialisation) build the same graph: whenever the explicit program runs
      through in Tracked.v and its translation `to_builder` is well typed (wt_prog), Builder.run does NOT raise
      and its document is `doc_of` of the log: root, Input, Output, then one child of the root per logged node
      in creation order, and exactly the logged links, port for port, in insertion order (plain_builder_same_graph).
      This is a progress theorem for the flat fragment of Builder.v: C01's own theorems all assume `run = Ok`.
   2. Composition with C15's simulation theorem and C01's validity theorem: tracked_programs_valid. *)
From Coq Require Import ZArith NArith List Bool Arith Lia.
Import ListNotations.
From HV Require Import lib.Harness model.Validity model.Builder spec.BuilderWFS model.Tracked spec.TrackedS
  proofs.TrackedP proofs.BuilderP proofs.BuilderFrameP proofs.BuilderTypeP proofs.BuilderCopyP model.TrackedBuilder.
Local Open Scope N_scope.

(* ------------------------------------------------------------------ the numbering of wires is injective *)
Lemma wenc_inj a b : wenc a = wenc b -> a = b.
Proof.
  destruct a as [n j], b as [n' j']. unfold wenc. cbn [fst snd]. intros H.
  assert (S : n + j = n' + j') by nia.
  assert (J : j = j') by nia.
  f_equal; lia.
Qed.

(* ------------------------------------------------------------------ the store of a flat Dfg *)
Definition nodes_of (ins outs : row) (ops : list vop) : list vnode :=
  child (DFG ins outs) :: child (Input ins) :: child (Output outs) :: map child ops.
Definition b0 : dfb := {| b_parent := 0; b_in := 1; b_out := 2 |}.
Definition sh (w : wire) : N * N := (fst w + 1, snd w).

(* every binding of the interpreter's environment is (wenc (n, j), (n + 1, j)) for an existing node *)
Definition EnvOK (l : list vnode) (e : env) : Prop :=
  forall w p, In (w, p) (e_wires e) -> exists x : wire, w = wenc x /\ p = sh x /\ fst p < lenN l.

(* all nodes but the root are children of the root *)
Definition Flat (l : list vnode) : Prop := forall n nd, nthN l n = Some nd -> n_parent nd = 0.

Lemma Flat_nodes_of ins outs ops : Flat (nodes_of ins outs ops).
Proof.
  intros n nd H. unfold nodes_of, nthN in H.
  destruct (N.to_nat n) as [|[|[|k]]]; cbn in H; try (inversion H; reflexivity).
  apply nth_error_In, in_map_iff in H. destruct H as (o & <- & _). reflexivity.
Qed.
Lemma Flat_app l x : Flat l -> n_parent x = 0 -> Flat (l ++ [x]).
Proof.
  intros F Hx n nd H. unfold nthN in H. destruct (Nat.lt_ge_cases (N.to_nat n) (length l)) as [L|L].
  - rewrite nth_error_app1 in H by exact L. exact (F n nd H).
  - rewrite nth_error_app2 in H by exact L. destruct (N.to_nat n - length l)%nat as [|[|k]]; cbn in H; inversion H.
    now subst.
Qed.

Lemma lenN_app {A} (l r : list A) : lenN (l ++ r) = lenN l + lenN r.
Proof. unfold lenN. rewrite app_length. lia. Qed.
Lemma lenN_nodes_of ins outs ops : lenN (nodes_of ins outs ops) = 3 + lenN ops.
Proof. unfold nodes_of, lenN. cbn [length]. rewrite map_length. lia. Qed.
Lemma nthN_some_lt {A} (l : list A) i x : nthN l i = Some x -> i < lenN l.
Proof. unfold nthN, lenN. intros H. assert (N.to_nat i < length l)%nat by (apply nth_error_Some; congruence). lia. Qed.
Lemma type_at_lt l p t : type_at l p = Some t -> fst p < lenN l.
Proof. unfold type_at. destruct (nthN l (fst p)) eqn:E; [|discriminate]. intros _. eapply nthN_some_lt; eauto. Qed.

(* ------------------------------------------------------------------ resolving the translated arguments *)
Lemma get_wires_enc l e ws : forall ts, EnvOK l e ->
  wire_tys (G_of l e) (map wenc ws) = Some ts ->
  get_wires e (map wenc ws) = Ok (map sh ws) /\ Forall2 (fun p t => type_at l p = Some t) (map sh ws) ts.
Proof.
  induction ws as [|w r IH]; intros ts HE; cbn [map wire_tys get_wires].
  - intros H. inversion H. split; [reflexivity|constructor].
  - unfold wire_ty, get_wire, G_of. rewrite lookup_map_snd. fold (G_of l e).
    destruct (lookup (e_wires e) (wenc w)) as [p|] eqn:EL; [|discriminate]. cbn [option_map bind].
    destruct (type_at l p) as [t|] eqn:ET; [|discriminate].
    destruct (wire_tys (G_of l e) (map wenc r)) as [ts'|] eqn:EW; [|discriminate].
    intros H. inversion H; subst; clear H.
    destruct (IH ts' HE eq_refl) as [G1 G2]. rewrite G1. cbn [bind].
    apply lookup_In in EL. destruct (HE _ _ EL) as (x & Hx & Hp & _). apply wenc_inj in Hx. subst x p.
    split; [reflexivity|]. constructor; assumption.
Qed.

(* ------------------------------------------------------------------ _wire_up inside one flat region *)
Lemma s_parent_flat L K n : Flat L -> 0 < n -> n < lenN L -> s_parent {| s_nodes := L; s_links := K |} n = Some 0.
Proof.
  intros F P Ln. unfold s_parent. destruct (N.eqb_spec n 0); [lia|]. cbn [s_nodes].
  destruct (nthN L n) as [nd|] eqn:E.
  - cbn. now rewrite (F _ _ E).
  - unfold nthN in E. apply nth_error_None in E. unfold lenN in Ln. lia.
Qed.

Lemma wire_up_flat L ws : forall K dst i ts,
  Flat L -> dst + 1 < lenN L ->
  Forall2 (fun p t => type_at L p = Some t) (map sh ws) ts ->
  wire_up_from {| s_nodes := L; s_links := K |} (dst + 1) i (map sh ws) =
  Ok ({| s_nodes := L; s_links := K ++ map shift_link (number_from dst i ws) |}, ts).
Proof.
  intros K dst i ts F Ld. revert K i ts.
  induction ws as [|w r IH]; intros K i ts HT; cbn [map wire_up_from number_from].
  - inversion HT. now rewrite app_nil_r.
  - inversion HT as [|p t ps ts' Hp Hr]; subst. clear HT.
    assert (Lw : fst (sh w) < lenN L) by (eapply type_at_lt; eauto).
    assert (Pw : 0 < fst (sh w)) by (unfold sh; cbn [fst]; lia).
    unfold Builder.wire_up_port, anc_sib. cbn [s_nodes].
    rewrite (s_parent_flat L K (fst (sh w))) by assumption.
    destruct (length L) as [|f] eqn:EL; [unfold lenN in Ld; rewrite EL in Ld; lia|].
    cbn [anc_sib_from]. rewrite (s_parent_flat L K (dst + 1)) by (auto; lia).
    cbn [optN_eqb option_eqb]. rewrite N.eqb_refl. rewrite N.eqb_refl. cbn [bind].
    unfold Builder.add_link, s_len. cbn [s_nodes s_links].
    destruct (N.ltb_spec (fst (sh w)) (lenN L)); [|lia].
    destruct (N.ltb_spec (dst + 1) (lenN L)); [|lia]. cbn [andb bind].
    assert (PT : port_type {| s_nodes := L; s_links := K ++ [{| e_src := fst (sh w); e_soff := Some (snd (sh w));
                    e_dst := dst + 1; e_doff := Some i |}] |} (sh w) = Ok t) by (apply port_type_type_at; exact Hp).
    rewrite PT. cbn [bind fst snd]. rewrite (IH _ _ _ Hr). cbn [bind fst snd].
    rewrite <- app_assoc. reflexivity.
Qed.

(* ------------------------------------------------------------------ the environment after binding the outputs of a node *)
Lemma EnvOK_mono l l' e : lenN l <= lenN l' -> EnvOK l e -> EnvOK l' e.
Proof. intros L H w p Hin. destruct (H w p Hin) as (x & A & B & C). exists x. repeat split; auto. lia. Qed.
Lemma EnvOK_bind_from l name k : forall a e,
  EnvOK l e -> name + 1 < lenN l ->
  EnvOK l (bind_outs_from e (name + 1) (N.of_nat a) (map (fun j => wenc (name, N.of_nat j)) (seq a k))).
Proof.
  induction k as [|k IH]; intros a e HE Ln; cbn [seq map bind_outs_from]; [exact HE|].
  replace (N.of_nat a + 1) with (N.of_nat (S a)) by lia. apply IH; [|exact Ln].
  intros w p Hin. cbn [e_wires] in Hin. destruct Hin as [Hin|Hin]; [|exact (HE w p Hin)].
  inversion Hin; subst. exists (name, N.of_nat a). repeat split. cbn [fst]. exact Ln.
Qed.
Lemma EnvOK_bind l e id name k : EnvOK l e -> name + 1 < lenN l ->
  EnvOK l (bind_outs (bind_stmt e id (name + 1)) (name + 1) (res_wires name k)).
Proof. intros HE Ln. unfold bind_outs, res_wires. apply (EnvOK_bind_from l name (N.to_nat k) 0%nat); [exact HE|exact Ln]. Qed.

Lemma set_nth_app_last {A} (l : list A) x y n : n = length l -> Builder.set_nth (l ++ [x]) n y = l ++ [y].
Proof. intros ->. induction l as [|a l IH]; cbn; [reflexivity|]. now rewrite IH. Qed.
Lemma nodes_of_snoc ins outs ops o : nodes_of ins outs ops ++ [child o] = nodes_of ins outs (ops ++ [o]).
Proof. unfold nodes_of. rewrite map_app. reflexivity. Qed.
Lemma nthN_last {A} (l : list A) x n : n = lenN l -> nthN (l ++ [x]) n = Some x.
Proof. intros ->. unfold nthN, lenN. rewrite Nat2N.id, nth_error_app2 by lia. now rewrite Nat.sub_diag. Qed.

Lemma Forall2_imp {A B} (R1 R2 : A -> B -> Prop) l1 l2 :
  (forall a b, R1 a b -> R2 a b) -> Forall2 R1 l1 l2 -> Forall2 R2 l1 l2.
Proof. intros H F. induction F; constructor; auto. Qed.

(* ------------------------------------------------------------------ one add_op *)
Lemma sop_step tys ins ops K e o ws name k id G' :
  name = 2 + lenN ops ->
  EnvOK (nodes_of ins [] ops) e ->
  wt_stmt tys (SOp id o (map wenc ws) (res_wires name k)) (G_of (nodes_of ins [] ops) e) = Some G' ->
  exists op' ts e',
    completed_op tys o ts = Ok op' /\
    exec_stmt tys (SOp id o (map wenc ws) (res_wires name k)) b0 {| s_nodes := nodes_of ins [] ops; s_links := K |} e =
      Ok ({| s_nodes := nodes_of ins [] (ops ++ [op']); s_links := K ++ map shift_link (number_from name 0 ws) |}, e') /\
    EnvOK (nodes_of ins [] (ops ++ [op'])) e' /\ G' = G_of (nodes_of ins [] (ops ++ [op'])) e'.
Proof.
  intros Hname HE H. set (L := nodes_of ins [] ops) in *.
  assert (LL : lenN L = name + 1) by (unfold L; rewrite lenN_nodes_of; lia).
  cbn [wt_stmt] in H.
  destruct (wire_tys (G_of L e) (map wenc ws)) as [ts|] eqn:EW; [|discriminate].
  destruct (get_wires_enc L e ws ts HE EW) as [GW GT].
  destruct (completed_op tys o ts) as [op'|] eqn:EC; [|discriminate].
  destruct (row_eqb (val_in op') ts && opspec_ok tys o); [|discriminate]. inversion H; subst G'; clear H.
  exists op', ts, (bind_outs (bind_stmt e id (name + 1)) (name + 1) (res_wires name k)).
  split; [exact EC|].
  set (L1 := L ++ [child (initial_op o)]).
  assert (F1 : Flat L1) by (apply Flat_app; [apply Flat_nodes_of|reflexivity]).
  assert (LL1 : name + 1 < lenN L1) by (unfold L1; rewrite lenN_app, LL; cbn; lia).
  assert (GT1 : Forall2 (fun p t => type_at L1 p = Some t) (map sh ws) ts).
  { eapply Forall2_imp; [|exact GT]. intros p t Hp. cbn beta in *. unfold L1. rewrite type_at_app; [exact Hp|].
    eapply type_at_lt; eauto. }
  assert (EN : nodes_of ins [] (ops ++ [op']) = L ++ [child op']) by (symmetry; apply nodes_of_snoc).
  split; [|split].
  - cbn [exec_stmt]. rewrite GW. cbn [bind]. unfold Builder.add_node, s_len, b0. cbn [b_parent s_nodes s_links].
    destruct (N.ltb_spec 0 (lenN L)); [|lia]. cbn [bind fst snd]. rewrite LL.
    unfold Builder.wire_up. change (L ++ [{| n_op := initial_op o; n_parent := 0 |}]) with L1. rewrite (wire_up_flat L1 ws K name 0 ts F1 LL1 GT1). cbn [bind fst snd].
    rewrite EC. cbn [bind]. unfold Builder.set_op. cbn [s_nodes s_links].
    unfold L1. rewrite (nthN_last L (child (initial_op o)) (name + 1)) by (symmetry; exact LL).
    cbn [bind]. rewrite set_nth_app_last by (unfold lenN in LL; lia). cbn [n_parent child].
    rewrite EN. reflexivity.
  - rewrite EN. apply EnvOK_bind.
    + eapply EnvOK_mono; [|exact HE]. rewrite lenN_app. lia.
    + rewrite lenN_app, LL. cbn. lia.
  - rewrite EN. unfold bind_outs, tbind.
    rewrite (G_of_bind_from (L ++ [child op']) (name + 1) (child op') (res_wires name k)
               (nthN_last L (child op') (name + 1) (eq_sym LL))).
    cbn [n_op child]. f_equal.
    transitivity (G_of (L ++ [child op']) e); [|reflexivity].
    symmetry. apply G_of_ext. intros w p Hin. apply type_at_app. destruct (HE w p Hin) as (_ & _ & _ & C). exact C.
Qed.

(* ------------------------------------------------------------------ the adds of an explicit program *)
(* the operation of the k-th added node is the completion of the k-th specification *)
Definition OpsOK (tys : list tyinfo) (specs : list opspec) (ops : list vop) : Prop :=
  forall i o, nth_error ops i = Some o -> exists ts, completed_op tys (spec_at specs i) ts = Ok o.

Lemma OpsOK_snoc tys specs ops o ts : OpsOK tys specs ops -> completed_op tys (spec_at specs (length ops)) ts = Ok o ->
  OpsOK tys specs (ops ++ [o]).
Proof.
  intros H C i x Hi. destruct (Nat.lt_ge_cases i (length ops)) as [L|L].
  - rewrite nth_error_app1 in Hi by exact L. exact (H i x Hi).
  - rewrite nth_error_app2 in Hi by exact L. destruct (i - length ops)%nat as [|[|j]] eqn:E; cbn in Hi; inversion Hi.
    subst x. replace i with (length ops) by lia. exists ts. exact C.
Qed.

Lemma wt_stmts_cons tys s r G :
  wt_stmts tys (SCons s r) G = match wt_stmt tys s G with Some G1 => wt_stmts tys r G1 | None => None end.
Proof. reflexivity. Qed.
Lemma exec_stmts_cons tys s r b st e :
  exec_stmts tys (SCons s r) b st e = (y <- exec_stmt tys s b st e ;; exec_stmts tys r b (fst y) (snd y)).
Proof. reflexivity. Qed.

Definition add_stmt (specs : list opspec) (k : nat) (op : opd) (ws : list wire) : stmt :=
  SOp (2 + N.of_nat k) (spec_at specs k) (map wenc ws) (res_wires (2 + N.of_nat k) (op_out op)).
Lemma to_stmts_add specs k op m ws r :
  to_stmts specs k (PAdd op m ws :: r) =
  (SCons (add_stmt specs k op ws) (fst (to_stmts specs (S k) r)), snd (to_stmts specs (S k) r)).
Proof. cbn [to_stmts]. now destruct (to_stmts specs (S k) r). Qed.

Lemma adds_sim tys ins specs q : forall h ops K e b o G1 hf,
  frag q = true ->
  to_stmts specs (length ops) q = (b, o) ->
  wt_stmts tys b (G_of (nodes_of ins [] ops) e) = Some G1 ->
  prun h q = (hf, None) ->
  length ops = length (h_nodes h) ->
  K = map shift_link (h_links h) ->
  EnvOK (nodes_of ins [] ops) e ->
  OpsOK tys specs ops ->
  exists ops' e' hm ws,
    exec_stmts tys b b0 {| s_nodes := nodes_of ins [] ops; s_links := K |} e =
      Ok ({| s_nodes := nodes_of ins [] ops'; s_links := map shift_link (h_links hm) |}, e') /\
    length ops' = length (h_nodes hm) /\ EnvOK (nodes_of ins [] ops') e' /\ OpsOK tys specs ops' /\
    G1 = G_of (nodes_of ins [] ops') e' /\ o = map wenc ws /\ Tracked.set_outputs hm ws = (hf, None).
Proof.
  induction q as [|c r IH]; intros h ops K e b o G1 hf HF HT HW HP HL HK HE HO; [discriminate|].
  destruct c as [op m ws|ws].
  - (* PAdd *)
    assert (HF' : frag r = true) by (destruct r; [discriminate|exact HF]).
    rewrite to_stmts_add in HT. destruct (to_stmts specs (S (length ops)) r) as [b' o'] eqn:ET.
    change (fst (b', o')) with b' in HT. change (snd (b', o')) with o' in HT. injection HT as <- <-.
    rewrite wt_stmts_cons in HW.
    destruct (wt_stmt tys _ (G_of (nodes_of ins [] ops) e)) as [G'|] eqn:EWS; [|discriminate].
    unfold add_stmt in EWS.
    cbn [prun pstep] in HP. destruct (add_op h op m ws) as [h' [er|]] eqn:EA; [discriminate|].
    destruct (add_records_node_and_links _ _ _ _ _ EA) as [HN HLk].
    destruct (sop_step tys ins ops K e (spec_at specs (length ops)) ws (2 + N.of_nat (length ops)) (op_out op)
                (2 + N.of_nat (length ops)) G' eq_refl HE EWS) as (op' & ts & e' & EC & EX & HE' & HG').
    subst G'.
    assert (LN : length (ops ++ [op']) = S (length ops)) by (rewrite app_length; cbn; lia).
    destruct (IH h' (ops ++ [op']) (K ++ map shift_link (number_from (2 + N.of_nat (length ops)) 0 ws)) e' b' o' G1 hf)
      as (ops' & e'' & hm & wso & EX' & A & B & C & D & E & F); auto.
    + now rewrite LN.
    + rewrite LN, HN, app_length. cbn. lia.
    + rewrite HLk, map_app, HK. f_equal. unfold new_name, node_count. now rewrite HL.
    + eapply OpsOK_snoc; eauto.
    + exists ops', e'', hm, wso. repeat split; auto.
      rewrite exec_stmts_cons. unfold add_stmt. rewrite EX. cbn [bind fst snd]. exact EX'.
  - (* the final set_outputs *)
    destruct r; [|discriminate]. cbn [to_stmts] in HT. inversion HT; subst b o; clear HT.
    cbn [wt_stmts] in HW. inversion HW; subst G1; clear HW.
    cbn [prun pstep] in HP. destruct (Tracked.set_outputs h ws) as [h' [er|]] eqn:ES; [discriminate|].
    cbn [prun] in HP. inversion HP; subst h'; clear HP.
    exists ops, e, h, ws. subst K. repeat split; auto.
Qed.

(* ------------------------------------------------------------------ the whole explicit program *)
Lemma wt_prog_eq tys ins ws b o :
  wt_prog tys (PDfg ins (Region ws b o)) =
  match wt_stmts tys b (tbind [] ws ins) with
  | Some G1 => match wire_tys G1 o with Some _ => true | None => false end
  | None => false
  end.
Proof.
  unfold wt_prog.
  change (wt_region tys (Region ws b o) ins []) with
    (match wt_stmts tys b (tbind [] ws ins) with
     | Some G1 => match wire_tys G1 o with Some ts => Some (G1, ts) | None => None end
     | None => None
     end).
  destruct (wt_stmts tys b (tbind [] ws ins)) as [G1|]; [|reflexivity].
  now destruct (wire_tys G1 o).
Qed.
Lemma exec_prog_eq tys ins ws b o :
  exec_prog tys (PDfg ins (Region ws b o)) =
  (y <- exec_stmts tys b b0 {| s_nodes := nodes_of ins [] []; s_links := [] |}
          (bind_outs {| e_wires := []; e_stmts := [] |} 1 ws) ;;
   ps <- get_wires (snd y) o ;;
   st' <- Builder.set_outputs (fst y) b0 ps ;;
   Ok st').
Proof.
  unfold exec_prog.
  assert (E : init_io (new_store (DFG ins [])) 0 ins = Ok ({| s_nodes := nodes_of ins [] []; s_links := [] |}, b0))
    by reflexivity.
  rewrite E. cbn [bind fst snd].
  change (exec_region tys (Region ws b o) b0 {| s_nodes := nodes_of ins [] []; s_links := [] |} {| e_wires := []; e_stmts := [] |})
    with (y <- exec_stmts tys b b0 {| s_nodes := nodes_of ins [] []; s_links := [] |}
                (bind_outs {| e_wires := []; e_stmts := [] |} (b_in b0) ws) ;;
          ps <- get_wires (snd y) o ;;
          st' <- Builder.set_outputs (fst y) b0 ps ;;
          Ok (st', snd y)).
  change (b_in b0) with 1.
  destruct (exec_stmts tys b _ _ _) as [y|]; [|reflexivity]. cbn [bind].
  destruct (get_wires (snd y) o) as [ps|]; [|reflexivity]. cbn [bind].
  now destruct (Builder.set_outputs (fst y) _ ps).
Qed.

Lemma set_outputs_flat ins ops K ws ts :
  Forall2 (fun p t => type_at (nodes_of ins [] ops) p = Some t) (map sh ws) ts ->
  Builder.set_outputs {| s_nodes := nodes_of ins [] ops; s_links := K |} b0 (map sh ws) =
  Ok {| s_nodes := nodes_of ins ts ops; s_links := K ++ map shift_link (number_from NOUT 0 ws) |}.
Proof.
  intros HT. unfold Builder.set_outputs, Builder.wire_up. change (b_out b0) with (NOUT + 1).
  rewrite (wire_up_flat (nodes_of ins [] ops) ws K NOUT 0 ts (Flat_nodes_of _ _ _)); [|rewrite lenN_nodes_of; unfold NOUT; lia|exact HT].
  reflexivity.
Qed.

Lemma set_outputs_links h ws h' : Tracked.set_outputs h ws = (h', None) ->
  h_links h' = h_links h ++ number_from NOUT 0 ws /\ h_nodes h' = h_nodes h.
Proof.
  intros H. split; [|exact (proj1 (set_outputs_nodes _ _ _ _ H))].
  unfold Tracked.set_outputs in H. destruct (Tracked.wire_up h NOUT 0 ws) as [h1 [er|]] eqn:E; [discriminate|].
  inversion H; subst. cbn [h_links]. exact (wire_up_links _ _ _ _ _ E).
Qed.

Lemma to_serial_flat L ls :
  to_serial {| s_nodes := L; s_links := map shift_link ls |} = {| g_nodes := L; g_edges := map shift_link ls |}.
Proof.
  unfold to_serial. cbn [s_nodes s_links]. f_equal. rewrite map_map. apply map_ext. intros l. reflexivity.
Qed.

(* 1. On the fragment, a well-typed explicit program that runs through in model/Tracked.v runs through in
      model/Builder.v as well, and the document is the node/link log: same nodes in the same order, same links. *)
Theorem plain_builder_same_graph tys ins specs q h :
  frag q = true ->
  wt_prog tys (to_builder ins specs q) = true ->
  run_plain (lenN ins) q = (h, None) ->
  exists outs ops,
    length ops = length (h_nodes h) /\ OpsOK tys specs ops /\
    Builder.run tys (to_builder ins specs q) = Ok (doc_of ins outs ops h).
Proof.
  intros HF HW HR. unfold to_builder in *. destruct (to_stmts specs 0 q) as [b o] eqn:ET.
  rewrite wt_prog_eq in HW.
  destruct (wt_stmts tys b (tbind [] (res_wires NIN (lenN ins)) ins)) as [G1|] eqn:EW; [|discriminate].
  destruct (wire_tys G1 o) as [ts|] eqn:EO; [|discriminate]. clear HW.
  set (e0 := bind_outs {| e_wires := []; e_stmts := [] |} 1 (res_wires NIN (lenN ins))).
  assert (HE0 : EnvOK (nodes_of ins [] []) e0).
  { unfold e0, bind_outs, res_wires.
    apply (EnvOK_bind_from (nodes_of ins [] []) NIN (N.to_nat (lenN ins)) 0%nat).
    - intros w p [].
    - rewrite lenN_nodes_of. cbn. lia. }
  assert (HG0 : tbind [] (res_wires NIN (lenN ins)) ins = G_of (nodes_of ins [] []) e0).
  { unfold e0, bind_outs, tbind.
    rewrite (G_of_bind_from (nodes_of ins [] []) 1 (child (Input ins)) (res_wires NIN (lenN ins)) eq_refl). reflexivity. }
  rewrite HG0 in EW.
  destruct (adds_sim tys ins specs q (init_h (lenN ins)) [] [] e0 b o G1 h HF ET EW HR eq_refl eq_refl HE0)
    as (ops & e' & hm & wso & EX & HL & HE & HO & HG & Ho & HS).
  { intros i x Hi. destruct i; discriminate. }
  subst G1 o.
  destruct (get_wires_enc _ _ _ _ HE EO) as [GW GT].
  destruct (set_outputs_links _ _ _ HS) as [HLk HN].
  exists ts, ops. split; [now rewrite HN|]. split; [exact HO|].
  unfold Builder.run. rewrite exec_prog_eq. fold e0. rewrite EX. cbn [bind fst snd]. rewrite GW. cbn [bind].
  rewrite (set_outputs_flat ins ops _ wso ts GT). cbn [bind].
  rewrite <- map_app, <- HLk, to_serial_flat. reflexivity.
Qed.

(* ------------------------------------------------------------------ the fragment, read off the tracked program *)
Definition is_padd (c : pcmd) : bool := match c with PAdd _ _ _ => true | PSetOutputs _ => false end.
Lemma frag_app_adds a : forall r, forallb is_padd a = true -> frag (a ++ r) = frag r.
Proof.
  induction a as [|c a IH]; intros r H; [reflexivity|]. cbn [forallb] in H. apply andb_true_iff in H. destruct H as [Hc Ha].
  destruct c; [|discriminate]. cbn [app]. change (frag (PAdd op m ws :: a ++ r)) with (frag (a ++ r)). now apply IH.
Qed.
Lemma explicit_coms_adds coms : forall st q ok st', explicit_coms st coms = (q, ok, st') -> forallb is_padd q = true.
Proof.
  induction coms as [|[op args] r IH]; intros st q ok st' H; cbn [explicit_coms] in H.
  - inversion H. reflexivity.
  - destruct (resolve_args st args) as [ws|]; [|inversion H; reflexivity].
    destruct (explicit_coms (a_added st args) r) as [[q1 ok1] st1] eqn:E. inversion H; subst. cbn [forallb is_padd].
    exact (IH _ _ _ _ E).
Qed.
Lemma explicit_cmd_adds nin st c q ok st' : is_set_outputs c = false -> explicit_cmd nin st c = (q, ok, st') ->
  forallb is_padd q = true.
Proof.
  intros Hc H. destruct c; cbn [explicit_cmd] in H; try discriminate; try (inversion H; reflexivity).
  - destruct (denotes st i); inversion H; reflexivity.
  - destruct (resolve_args st args); inversion H; reflexivity.
  - exact (explicit_coms_adds _ _ _ _ _ H).
Qed.
Lemma tfrag_frag nin p : forall st q fin, tfrag p = true -> explicit_from nin st p = (q, true, fin) -> frag q = true.
Proof.
  induction p as [|c r IH]; intros st q fin HT HE; [discriminate|].
  cbn [explicit_from] in HE. destruct (explicit_cmd nin st c) as [[qc okc] st1] eqn:EC.
  destruct okc; [|inversion HE].
  destruct (explicit_from nin st1 r) as [[q' ok'] fin'] eqn:ER. inversion HE; subst; clear HE.
  destruct r as [|c' r'].
  - cbn [explicit_from] in ER. inversion ER; subst. rewrite app_nil_r. cbn [tfrag] in HT.
    destruct c; try discriminate; cbn [explicit_cmd] in EC.
    + destruct (resolve_args st args); inversion EC; reflexivity.
    + inversion EC; reflexivity.
  - change (tfrag (c :: c' :: r')) with (negb (is_set_outputs c) && tfrag (c' :: r')) in HT.
    apply andb_true_iff in HT. destruct HT as [Hc Hr]. apply negb_true_iff in Hc.
    rewrite (frag_app_adds qc q' (explicit_cmd_adds _ _ _ _ _ _ Hc EC)). exact (IH _ _ _ Hr ER).
Qed.

(* ------------------------------------------------------------------ 2. the composition *)
(* Every tracked program of the fragment (no set_*_outputs before the last command, which is one) whose explicit
   translation is well formed in the sense of C01 (wf_prog: wires typed and matching the fixed signatures, non-copyable
   wires consumed exactly once) and which runs to the end in the tracked-builder model: its explicit translation
   runs to the end in C01's builder model, the document is exactly the HUGR the tracked builder built (root, Input,
   Output, the added nodes in creation order as children of the root, the k-th being the completion of the k-th
   operation specification; the links of the tracked builder port for port in insertion order), and the whole
   validity predicate accepts it. *)
Theorem tracked_programs_valid tys ins specs track p h tr :
  r_table tys = true ->
  tfrag p = true ->
  wf_prog tys (to_builder ins specs (explicit_prog (lenN ins) track p)) = true ->
  run_tracked (lenN ins) track p = (h, tr, None) ->
  exists outs ops,
    length ops = length (h_nodes h) /\ OpsOK tys specs ops /\
    Builder.run tys (to_builder ins specs (explicit_prog (lenN ins) track p)) = Ok (doc_of ins outs ops h) /\
    valid {| v_tys := tys; v_main := doc_of ins outs ops h; v_subs := [] |} = true.
Proof.
  intros HT HF HW HR.
  destruct (tracked_simulates_explicit _ _ _ _ _ HR) as (q & fin & HE & HP).
  unfold explicit_prog in *. rewrite HE in *. cbn [fst] in *.
  assert (Fq : frag q = true) by (unfold explicit in HE; exact (tfrag_frag _ _ _ _ _ HF HE)).
  assert (Wt : wt_prog tys (to_builder ins specs q) = true).
  { unfold wf_prog in HW. apply andb_true_iff in HW. destruct HW as [HW _]. apply andb_true_iff in HW. tauto. }
  destruct (plain_builder_same_graph tys ins specs q h Fq Wt HP) as (outs & ops & A & B & C).
  exists outs, ops. repeat split; auto.
  exact (run_valid tys _ _ HT HW C).
Qed.

(* ------------------------------------------------------------------ 3. non-vacuity: a circuit *)
(* TrackedDfg(Bool, Qubit, Qubit, track_inputs=False); track_wires(the two qubits) -> indices 0, 1;
   add(CX(0, 1), metadata); extend(CRz(bit, 1)): an explicit classical wire before the index, so index 1 is rebound
   to output 1 of the new node; add(H(0)); set_tracked_outputs().  Type 0 = qubit (not copyable), 1 = bool. *)
Definition circ_tys : list tyinfo := [TAtom false; TAtom true].
Definition circ_ins : row := [1; 0; 0].
Definition circ_specs : list opspec := [OFixed [0; 0] [0; 0]; OFixed [1; 0] [1; 0]; OFixed [0] [0]].
Definition circ_prog : list cmd :=
  [ TrackWires [(NIN, 1); (NIN, 2)];
    Add (mkOp 10 2) [(1, 7)] [AI 0%Z; AI 1%Z];
    Extend [(mkOp 11 2, [AW (NIN, 0); AI 1%Z])];
    Add (mkOp 12 1) [] [AI 0%Z];
    SetTrackedOutputs ].

Example circuit_example :
  r_table circ_tys = true /\ tfrag circ_prog = true /\
  wf_prog circ_tys (to_builder circ_ins circ_specs (explicit_prog 3 false circ_prog)) = true /\
  exists h tr, run_tracked 3 false circ_prog = (h, tr, None) /\ length (h_nodes h) = 3%nat /\ length (h_links h) = 7%nat /\
    tr = [Some (4, 0); Some (3, 1)] /\
    exists outs ops,
      Builder.run circ_tys (to_builder circ_ins circ_specs (explicit_prog 3 false circ_prog)) = Ok (doc_of circ_ins outs ops h) /\
      outs = [0; 0] /\ ops = [ExtOp [0; 0] [0; 0]; ExtOp [1; 0] [1; 0]; ExtOp [0] [0]] /\
      valid {| v_tys := circ_tys; v_main := doc_of circ_ins outs ops h; v_subs := [] |} = true.
Proof.
  split; [vm_compute; reflexivity|]. split; [vm_compute; reflexivity|]. split; [vm_compute; reflexivity|].
  eexists. eexists. split; [vm_compute; reflexivity|]. split; [reflexivity|]. split; [reflexivity|]. split; [reflexivity|].
  exists [0; 0], [ExtOp [0; 0] [0; 0]; ExtOp [1; 0] [1; 0]; ExtOp [0] [0]].
  split; [vm_compute; reflexivity|]. split; [reflexivity|]. split; [reflexivity|]. vm_compute; reflexivity.
Qed.
