(* C01 — the comparison of run/C01Run.v is an isomorphism check: soundness of model/DocIso.v's iso_check w.r.t.
   spec/DocIsoS.v.  The traversal that proposes the renumbering is not reasoned about: whatever it proposes, a document
   is accepted only if the proposed list IS an isomorphism. *)
From Coq Require Import NArith List Bool Arith Permutation Lia.
Import ListNotations.
From HV Require Import lib.Harness model.Validity model.DocIso spec.DocIsoS.
Local Open Scope N_scope.

Lemma optN_eqb_true : forall a b, optN_eqb a b = true -> a = b.
Proof.
  intros [x|] [y|]; cbn; intros H; try discriminate; try reflexivity.
  apply N.eqb_eq in H. now subst.
Qed.

Lemma edge_eqb_true : forall a b, edge_eqb a b = true -> a = b.
Proof.
  intros [s so d do_] [s' so' d' do'] H. unfold edge_eqb in H. cbn in H.
  apply andb_prop in H as [H H4]. apply andb_prop in H as [H H3]. apply andb_prop in H as [H1 H2].
  apply N.eqb_eq in H1. apply N.eqb_eq in H3. apply optN_eqb_true in H2. apply optN_eqb_true in H4.
  now subst.
Qed.

Lemma remove1_perm {A} (eqb : A -> A -> bool) (Heq : forall a b, eqb a b = true -> a = b) :
  forall x l l', remove1 eqb x l = Some l' -> Permutation l (x :: l').
Proof.
  intros x l. induction l as [|y r IH]; cbn; intros l' H; [discriminate|].
  destruct (eqb x y) eqn:E.
  - apply Heq in E. subst. injection H as <-. apply Permutation_refl.
  - destruct (remove1 eqb x r) as [r'|] eqn:E'; [|discriminate]. injection H as <-.
    eapply Permutation_trans; [apply perm_skip, IH; reflexivity|]. apply perm_swap.
Qed.

Lemma perm_eqb_perm {A} (eqb : A -> A -> bool) (Heq : forall a b, eqb a b = true -> a = b) :
  forall a b, perm_eqb eqb a b = true -> Permutation a b.
Proof.
  intros a. induction a as [|x r IH]; cbn; intros b H.
  - destruct b; [constructor|discriminate].
  - destruct (remove1 eqb x b) as [b'|] eqn:E; [|discriminate].
    apply (remove1_perm eqb Heq) in E. apply IH in H.
    eapply Permutation_trans; [apply perm_skip, H|]. now apply Permutation_sym.
Qed.

Lemma pairsb_nth {A} (P : A -> A -> bool) : forall l, pairsb P l = true ->
  forall i i' x y, (i < i')%nat -> nth_error l i = Some x -> nth_error l i' = Some y -> P x y = true.
Proof.
  intros l. induction l as [|z r IH]; cbn; intros H i i' x y Hlt Hx Hy.
  - destruct i; discriminate.
  - apply andb_prop in H as [Hz Hr]. destruct i' as [|i']; [lia|]. cbn in Hy. destruct i as [|i]; cbn in Hx.
    + injection Hx as <-. rewrite forallb_forall in Hz. apply Hz. eapply nth_error_In; eassumption.
    + apply (IH Hr i i' x y); [lia | exact Hx | exact Hy].
Qed.

Lemma combine_nth_error {A B} : forall (l : list A) (m : list B) i x y,
  nth_error l i = Some x -> nth_error m i = Some y -> nth_error (combine l m) i = Some (x, y).
Proof.
  intros l. induction l as [|a r IH]; intros m i x y Hx Hy; destruct i; cbn in *; try discriminate;
    destruct m as [|b s]; cbn in *; try discriminate.
  - now injection Hx as <-; injection Hy as <-.
  - now apply IH.
Qed.

Lemma lenN_eq {A B} (l : list A) (m : list B) : lenN l =? lenN m = true -> length l = length m.
Proof. unfold lenN. intros H. apply N.eqb_eq in H. now apply Nat2N.inj in H. Qed.

Lemma nth_error_some_of_len {A B} (l : list A) (m : list B) i x :
  length m = length l -> nth_error l i = Some x -> exists y, nth_error m i = Some y.
Proof.
  intros Hlen Hx. assert (Hi : (i < length m)%nat) by (rewrite Hlen; apply nth_error_Some; congruence).
  destruct (nth_error m i) eqn:E; [eauto|]. apply nth_error_None in E. lia.
Qed.

Theorem iso_check_sound (opb : vop -> vop -> bool) pi g h :
  iso_check opb pi g h = true -> DocIso (fun a b => opb a b = true) pi g h.
Proof.
  unfold iso_check. intros H.
  apply andb_prop in H as [H Hedges]. apply andb_prop in H as [H Hsib]. apply andb_prop in H as [H Hnodes].
  apply andb_prop in H as [H Hroot]. apply andb_prop in H as [H Hnodup]. apply andb_prop in H as [H Hrange].
  apply andb_prop in H as [Hlh Hlp].
  apply lenN_eq in Hlh. apply lenN_eq in Hlp.
  constructor.
  - exact Hlh.
  - exact Hlp.
  - intros j Hj. rewrite forallb_forall in Hrange. apply N.ltb_lt. now apply Hrange.
  - destruct (nodupb_spec N.eqb N.eqb_spec pi) as [Hn|]; [exact Hn|discriminate].
  - now apply optN_eqb_true in Hroot.
  - intros i a Ha. unfold nthN in *.
    destruct (nth_error_some_of_len (g_nodes g) pi _ a Hlp Ha) as [j Hj].
    pose proof (combine_nth_error _ _ _ _ _ Ha Hj) as Hc. apply nth_error_In in Hc.
    rewrite forallb_forall in Hnodes. specialize (Hnodes _ Hc). cbn in Hnodes.
    destruct (nth_error (g_nodes h) (N.to_nat j)) as [b|] eqn:Eb; [|discriminate].
    apply andb_prop in Hnodes as [Hop Hpar]. apply optN_eqb_true in Hpar.
    exists j, b. repeat split; assumption.
  - intros i i' a a' j j' Hlt Ha Ha' Hp Hj Hj'. unfold nthN in *.
    pose proof (combine_nth_error _ _ _ _ _ Ha Hj) as Hc. pose proof (combine_nth_error _ _ _ _ _ Ha' Hj') as Hc'.
    pose proof (pairsb_nth _ _ Hsib _ _ _ _ Hlt Hc Hc') as HP. cbn in HP.
    rewrite Hp, N.eqb_refl in HP. cbn in HP. now apply N.ltb_lt.
  - apply (perm_eqb_perm edge_eqb edge_eqb_true). exact Hedges.
Qed.

Theorem graph_isob_sound (opb : vop -> vop -> bool) g h :
  graph_isob opb g h = true -> exists pi, DocIso (fun a b => opb a b = true) pi g h.
Proof. intros H. exists (iso_map g h). now apply iso_check_sound. Qed.

(* ------------------------------------------------------------------ the operation comparison is equality *)
Lemma list_eqb_true {A} (eqb : A -> A -> bool) : (forall a b, eqb a b = true -> a = b) ->
  forall l l', list_eqb eqb l l' = true -> l = l'.
Proof.
  intros He l. induction l as [|x r IH]; intros [|y s] H; cbn in H; try discriminate; [reflexivity|].
  apply andb_prop in H as [Hx Hr]. f_equal; [now apply He | now apply IH].
Qed.
Lemma row_eqb_true : forall a b, row_eqb a b = true -> a = b.
Proof. apply list_eqb_true. intros a b H. now apply N.eqb_eq. Qed.
Lemma rows_eqb_true : forall a b, rows_eqb a b = true -> a = b.
Proof. apply list_eqb_true. exact row_eqb_true. Qed.

Lemma value_eqb_true : forall a b, value_eqb_with N.eqb a b = true -> a = b.
Proof.
  fix IH 1. intros a b. destruct a as [t g vs|t vs|t|t k]; destruct b as [t' g' vs'|t' vs'|t'|t' k']; cbn; try discriminate; intros H.
  - apply andb_prop in H as [H H3]. apply andb_prop in H as [H1 H2]. apply N.eqb_eq in H1. apply N.eqb_eq in H2. subst.
    f_equal. revert vs' H3. induction vs as [|x r IHr]; intros [|y s] H3; try discriminate; [reflexivity|].
    apply andb_prop in H3 as [Hx Hr]. f_equal; [apply IH; exact Hx | apply IHr; exact Hr].
  - apply andb_prop in H as [H1 H3]. apply N.eqb_eq in H1. subst.
    f_equal. revert vs' H3. induction vs as [|x r IHr]; intros [|y s] H3; try discriminate; [reflexivity|].
    apply andb_prop in H3 as [Hx Hr]. f_equal; [apply IH; exact Hx | apply IHr; exact Hr].
  - apply N.eqb_eq in H. now subst.
  - apply andb_prop in H as [H1 H2]. apply N.eqb_eq in H1. apply N.eqb_eq in H2. now subst.
Qed.

Ltac crush H :=
  repeat (let H1 := fresh in apply andb_prop in H as [H H1]; try apply N.eqb_eq in H1; try apply row_eqb_true in H1; try apply rows_eqb_true in H1);
  try apply N.eqb_eq in H; try apply row_eqb_true in H; try apply rows_eqb_true in H; subst; try reflexivity.

Lemma vop_eqb_true : forall a b, vop_eqb_with N.eqb a b = true -> a = b.
Proof.
  intros a b H. destruct a; destruct b; cbn in H; try discriminate; try reflexivity; try (crush H; fail).
  apply value_eqb_true in H. now subst.
Qed.

Lemma DocIso_mono (R R' : vop -> vop -> Prop) pi g h :
  (forall a b, R a b -> R' a b) -> DocIso R pi g h -> DocIso R' pi g h.
Proof.
  intros HR [H1 H2 H3 H4 H5 H6 H7 H8]. constructor; try assumption.
  intros i a Ha. destruct (H6 i a Ha) as (j & b & Hj & Hb & Hop & Hp). exists j, b. repeat split; try assumption.
  now apply HR.
Qed.

(* documents without function constants' side lists (first and second model): the operations of a node and of its image
   are EQUAL *)
Theorem graph_isob_eq_sound g h :
  graph_isob (vop_eqb_with N.eqb) g h = true -> exists pi, DocIso eq pi g h.
Proof.
  intros H. destruct (graph_isob_sound _ _ _ H) as [pi Hpi]. exists pi.
  eapply DocIso_mono; [|exact Hpi]. intros a b. apply vop_eqb_true.
Qed.

(* non-vacuity and the point of it: the same three-level document numbered in index order of creation (the nested
   region's Input / Output after a later sibling of the region) and in pre-order: accepted, with the renumbering
   3 <-> 5, 4 <-> 6 ... ; with two siblings exchanged: refused *)
Definition ex_g : graph :=
  {| g_nodes := [ {| n_op := DFG [] []; n_parent := 0 |}; {| n_op := Input []; n_parent := 0 |};
                  {| n_op := Output []; n_parent := 0 |}; {| n_op := DFG [] []; n_parent := 0 |};
                  {| n_op := ExtOp [] []; n_parent := 0 |};
                  {| n_op := Input []; n_parent := 3 |}; {| n_op := Output []; n_parent := 3 |} ];
     g_edges := [ {| e_src := 1; e_soff := None; e_dst := 3; e_doff := None |};
                  {| e_src := 5; e_soff := None; e_dst := 6; e_doff := None |} ] |}.
Definition ex_h : graph :=
  {| g_nodes := [ {| n_op := DFG [] []; n_parent := 0 |}; {| n_op := Input []; n_parent := 0 |};
                  {| n_op := Output []; n_parent := 0 |}; {| n_op := DFG [] []; n_parent := 0 |};
                  {| n_op := Input []; n_parent := 3 |}; {| n_op := Output []; n_parent := 3 |};
                  {| n_op := ExtOp [] []; n_parent := 0 |} ];
     g_edges := [ {| e_src := 4; e_soff := Some 0; e_dst := 5; e_doff := Some 0 |};
                  {| e_src := 1; e_soff := Some 0; e_dst := 3; e_doff := None |} ] |}.
Definition ex_bad : graph :=
  {| g_nodes := [ {| n_op := DFG [] []; n_parent := 0 |}; {| n_op := Output []; n_parent := 0 |};
                  {| n_op := Input []; n_parent := 0 |}; {| n_op := DFG [] []; n_parent := 0 |};
                  {| n_op := Input []; n_parent := 3 |}; {| n_op := Output []; n_parent := 3 |};
                  {| n_op := ExtOp [] []; n_parent := 0 |} ];
     g_edges := g_edges ex_h |}.
Definition op_tagb (a b : vop) : bool :=
  match a, b with
  | DFG _ _, DFG _ _ | Input _, Input _ | Output _, Output _ | ExtOp _ _, ExtOp _ _ => true
  | _, _ => false
  end.
Example iso_example :
  iso_map ex_g ex_h = [0; 1; 2; 3; 6; 4; 5] /\ graph_isob op_tagb ex_g ex_h = true /\
  graph_isob op_tagb ex_g ex_bad = false /\ graph_isob op_tagb ex_g ex_g = true.
Proof. vm_compute. repeat split; reflexivity. Qed.
