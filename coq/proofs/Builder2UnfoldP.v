(* C01 (third pass) — unfolding equations of the mutual fixpoint exec_*2 of model/Builder2.v, one per constructor
   (each by reflexivity): `cbn` leaves raw `fix` terms for the mutually recursive calls, these equations do not. *)
From Coq Require Import NArith List Bool Arith.
Import ListNotations.
From HV Require Import lib.Harness model.Validity model.Builder model.Builder2.
Local Open Scope N_scope.

Section Unfold.
  Variable tys : list tyinfo.
  Lemma exec_stmt2_TOp id o args rs b st e :
    exec_stmt2 tys (TOp id o args rs) b st e =
        ws <- get_wires e args ;;
        a <- add_node st (initial_op o) (b_parent b) ;;
        x <- wire_up (fst a) (snd a) ws ;;
        op' <- completed_op tys o (snd x) ;;
        st' <- set_op (fst x) (snd a) op' ;;
        Ok (st', bind_outs (bind_stmt e id (snd a)) (snd a) rs).
  Proof. reflexivity. Qed.
  Lemma exec_stmt2_TLoad id v cp r b st e :
    exec_stmt2 tys (TLoad id v cp r) b st e =
        c <- add_node st (Const v) (match cp with CHere => b_parent b | CRoot => 0 end) ;;
        l <- add_node (fst c) (LoadConst (value_ty v)) (b_parent b) ;;
        st' <- add_link (fst l) (snd c) (Some 0) (snd l) (Some 0) ;;
        Ok (st', bind_outs (bind_stmt e id (snd l)) (snd l) [r]).
  Proof. reflexivity. Qed.
  Lemma exec_stmt2_TNested id args body rs b st e :
    exec_stmt2 tys (TNested id args body rs) b st e =
        ws <- get_wires e args ;;
        ts <- wire_types st ws ;;
        d <- add_node st (DFG ts []) (b_parent b) ;;
        io <- init_io (fst d) (snd d) ts ;;
        x <- wire_up (fst io) (snd d) ws ;;
        y <- exec_region2 tys body (snd io) (fst x) e ;;
        Ok (fst y, bind_outs (bind_stmt (snd y) id (snd d)) (snd d) rs).
  Proof. reflexivity. Qed.
  Lemma exec_stmt2_TOrder src dst b st e :
    exec_stmt2 tys (TOrder src dst) b st e =
        a <- node_of b e src ;;
        c <- node_of b e dst ;;
        st' <- add_order_link st a c ;;
        Ok (st', e).
  Proof. reflexivity. Qed.
  Lemma exec_stmt2_TLoop id just rest body rs b st e :
    exec_stmt2 tys (TLoop id just rest body rs) b st e =
        jw <- get_wires e just ;;
        rw <- get_wires e rest ;;
        jt <- wire_types st jw ;;
        rt <- wire_types st rw ;;
        d <- add_node st (TailLoop (jt ++ rt) [] [] (lenN jt)) (b_parent b) ;;
        io <- init_io (fst d) (snd d) (jt ++ rt) ;;
        x <- wire_up (fst io) (snd d) (jw ++ rw) ;;
        y <- exec_region2 tys body (snd io) (fst x) e ;;
        Ok (fst y, bind_outs (bind_stmt (snd y) id (snd d)) (snd d) rs).
  Proof. reflexivity. Qed.
  Lemma exec_stmt2_TCond id cond args cs rs b st e :
    exec_stmt2 tys (TCond id cond args cs rs) b st e =
        cw <- get_wire e cond ;;
        ws <- get_wires e args ;;
        ts <- wire_types st (cw :: ws) ;;
        match ts with
        | t :: others =>
            match nthN tys t with
            | Some (TSum _ rows) =>
                c <- add_node st (Conditional rows others [] t) (b_parent b) ;;
                mk <- make_cases (fst c) (snd c) rows others ;;
                x <- wire_up (fst mk) (snd c) (cw :: ws) ;;
                y <- exec_cases2 tys cs (snd c) (snd mk) None (fst x) e ;;
                let '(st', e', bs, cur) := y in
                if cases_done bs cur then Ok (st', bind_outs (bind_stmt e' id (snd c)) (snd c) rs)
                else Err EIncomplete
            | _ => Err EIncomplete
            end
        | [] => Err EIncomplete
        end.
  Proof. reflexivity. Qed.
  Lemma exec_stmt2_TInsert id sub args rs b st e :
    exec_stmt2 tys (TInsert id sub args rs) b st e =
        y <- exec_prog2 tys sub e ;;
        ws <- get_wires (snd y) args ;;
        m <- insert_hugr st (fst y) (b_parent b) ;;
        match nthN (snd m) 0 with
        | Some r =>
            x <- wire_up (fst m) r ws ;;
            Ok (fst x, bind_outs (bind_stmt (snd y) id r) r rs)
        | None => Err EKey
        end.
  Proof. reflexivity. Qed.
  Lemma exec_stmt2_TCallInd id args rs b st e :
    exec_stmt2 tys (TCallInd id args rs) b st e =
        ws <- get_wires e args ;;
        a <- add_node st (CallIndirect [] [] 0) (b_parent b) ;;
        x <- wire_up (fst a) (snd a) ws ;;
        op' <- completed_callind tys (snd x) ;;
        st' <- set_op (fst x) (snd a) op' ;;
        Ok (st', bind_outs (bind_stmt e id (snd a)) (snd a) rs).
  Proof. reflexivity. Qed.
  Lemma exec_region2_Reg ins body outs b st e :
    exec_region2 tys (Reg ins body outs) b st e =
        y <- exec_stmts2 tys body b st (bind_outs e (b_in b) ins) ;;
        ws <- get_wires (snd y) outs ;;
        st' <- set_outputs2 tys (fst y) b ws ;;
        Ok (st', snd y).
  Proof. reflexivity. Qed.
  Lemma exec_stmts2_TNil  b st e :
    exec_stmts2 tys (TNil) b st e =
 Ok (st, e).
  Proof. reflexivity. Qed.
  Lemma exec_stmts2_TCons s r b st e :
    exec_stmts2 tys (TCons s r) b st e =
 y <- exec_stmt2 tys s b st e ;; exec_stmts2 tys r b (fst y) (snd y).
  Proof. reflexivity. Qed.
  Lemma exec_cases2_CNil  cond bs cur st e :
    exec_cases2 tys (CNil) cond bs cur st e =
 Ok (st, e, bs, cur).
  Proof. reflexivity. Qed.
  Lemma exec_cases2_CCons i r rest cond bs cur st e :
    exec_cases2 tys (CCons i r rest) cond bs cur st e =
        match nthN bs i with
        | Some (cb, false) =>
            y <- exec_region2 tys r cb st e ;;
            ts <- out_types (fst y) cb ;;
            u <- update_outputs (fst y) cond cur ts ;;
            exec_cases2 tys rest cond (set_nth bs (N.to_nat i) (cb, true)) (snd u) (fst u) (snd y)
        | _ => Err EIncomplete
        end.
  Proof. reflexivity. Qed.
  Lemma exec_prog2_QDfg ins body e :
    exec_prog2 tys (QDfg ins body) e =
        io <- init_io (new_store (DFG ins [])) 0 ins ;;
        exec_region2 tys body (snd io) (fst io) e.
  Proof. reflexivity. Qed.
  Lemma exec_prog2_QLoop just rest body e :
    exec_prog2 tys (QLoop just rest body) e =
        io <- init_io (new_store (TailLoop (just ++ rest) [] [] (lenN just))) 0 (just ++ rest) ;;
        exec_region2 tys body (snd io) (fst io) e.
  Proof. reflexivity. Qed.
  Lemma exec_prog2_QCond rows others sumty cs e :
    exec_prog2 tys (QCond rows others sumty cs) e =
        mk <- make_cases (new_store (Conditional rows others [] sumty)) 0 rows others ;;
        y <- exec_cases2 tys cs 0 (snd mk) None (fst mk) e ;;
        let '(st', e', bs, cur) := y in
        if cases_done bs cur then Ok (st', e') else Err EIncomplete.
  Proof. reflexivity. Qed.
End Unfold.
