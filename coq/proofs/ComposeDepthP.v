(* C02 o C05 at any nesting depth: induction over the tower of model/ComposeDepth.v.  The payload hypothesis h_rt of
   C05's value / operation theorems at level n+1 IS the composed C02 round trip at level n; at level 0 it is
   vacuous.  No hypothesis about operations or payloads is left in [roundtrip_any_depth]. *)
From Coq Require Import NArith List Bool Arith Lia Permutation.
Import ListNotations.
From HV Require Import lib.Harness model.Types model.SerialTypes model.Codec model.CodecVals model.CodecOps
  spec.CodecS proofs.CodecP proofs.CodecValsP proofs.CodecOpsP proofs.CodecEqP.
From HV Require Import model.SerialHugr spec.SerialHugrS proofs.SerialHugrP proofs.SerialHugrOnP
  model.ComposeOps proofs.ComposeOpsP model.ComposeDepth.

(* the inner signature of a root the theorem covers is kept, as encoded, by the normal form *)
Lemma inner_ft_nf {H} (h_nf : H -> H) (o : op H) : root_ok o = true ->
  func_to_serial (inner_ft (op_nf H h_nf o)) = func_to_serial (inner_ft o).
Proof.
  destruct o; cbn [root_ok]; try discriminate; intros R; cbn [op_nf inner_ft].
  - apply func_ser_rows.
  - destruct sum; try discriminate. unfold sum_nf, rows_of. cbn [variant_rows].
    change (TSum (map (map ty_nf) rows) :: row_nf other_outputs) with (row_nf (TSum rows :: other_outputs)).
    apply func_ser_rows.
  - apply func_ser_rows.
  - apply func_ser_rows.
  - rewrite <- row_nf_app.
    change (TSum [row_nf just_inputs; row_nf just_outputs] :: row_nf rest) with (row_nf (TSum [just_inputs; just_outputs] :: rest)).
    apply func_ser_rows.
Qed.

Section OpsOk.
  Variables H md : Type.
  Variable h_ok : H -> bool.
  (* the boolean premise on the nodes gives C05's OpOK on every live node *)
  Lemma ops_ok_In (h : hugr (op H) md) : ops_ok_b md h_ok h = true ->
    forall i n, get_node h i = Some n -> op_ok H h_ok (n_op n) = true.
  Proof.
    unfold ops_ok_b, get_node. intros A i n Hn. rewrite forallb_forall in A.
    destruct (nth_error (h_nodes h) i) as [[n'|]|] eqn:E; try discriminate. injection Hn as ->.
    exact (A _ (nth_error_In _ _ E)).
  Qed.
  Lemma ops_ok_OpsIn (h : hugr (op H) md) : ops_ok_b md h_ok h = true -> OpsIn (OpOK H h_ok) h.
  Proof. intros A i n Hn. apply op_ok_OpOK. exact (ops_ok_In h A i n Hn). Qed.
End OpsOk.

Section TowerP.
  Variable md : Type.
  Variable md_nil : md.
  Variable md_is_nil : md -> bool.
  Hypothesis md_nil_is_nil : md_is_nil md_nil = true.
  Hypothesis md_nil_unique : forall m, md_is_nil m = true -> m = md_nil.

  Notation HT := (HT md).
  Notation ST := (ST md).
  Notation encT := (encT md md_is_nil).
  Notation decT := (decT md md_nil).
  Notation nfT := (nfT md md_nil md_is_nil).
  Notation typeT := (typeT md).
  Notation okT := (okT md md_is_nil).
  Notation guardT := (guardT md md_is_nil).

  (* the payload hypothesis of C05's theorems, at level n *)
  Definition RT (n : nat) : Prop := forall h : HT n, okT n h = true ->
    decT n (encT n h) = nfT n h /\ encT n (nfT n h) = encT n h /\
    func_to_serial (typeT n (nfT n h)) = func_to_serial (typeT n h).

  (* the composed round trip at level n, given the payload hypothesis at level n *)
  Lemma level_roundtrip n : RT n -> forall h : hugr (op (HT n)) md,
    guardT n h = true -> ops_ok_b md (okT n) h = true ->
    exists s h', to_serial (c_enc (HT n) (ST n) (encT n)) (c_ndp (HT n)) md_is_nil h = Some s /\
                 from_serial (c_dec (HT n) (ST n) (decT n)) (c_ndp (HT n)) md_nil s = Some h' /\
                 to_serial (c_enc (HT n) (ST n) (encT n)) (c_ndp (HT n)) md_is_nil h' = Some s /\
                 Iso (c_enc (HT n) (ST n) (encT n)) h h' /\
                 (forall i nd, get_node h i = Some nd ->
                    exists nd', get_node h' (rank h i) = Some nd' /\ n_op nd' = op_nf (HT n) (nfT n) (n_op nd)).
  Proof.
    intros IH h G A.
    exact (roundtrip_concrete (HT n) (ST n) (encT n) (decT n) (nfT n) (typeT n) (okT n) IH md md_nil md_is_nil
             md_nil_is_nil md_nil_unique h G (ops_ok_OpsIn _ _ _ h A)).
  Qed.

  Lemma typeT_S n (h : hugr (op (HT n)) md) :
    typeT (S n) h = match get_node h (h_root h) with Some nd => inner_ft (n_op nd) | None => FT [] [] [] end.
  Proof. reflexivity. Qed.

  Lemma tower_step n : RT n -> forall h : hugr (op (HT n)) md,
    guardT n h = true -> ops_ok_b md (okT n) h = true -> root_ok_b md h = true ->
    decT (S n) (encT (S n) h) = nfT (S n) h /\ encT (S n) (nfT (S n) h) = encT (S n) h /\
    func_to_serial (typeT (S n) (nfT (S n) h)) = func_to_serial (typeT (S n) h).
  Proof.
    intros IH h G A R.
    destruct (level_roundtrip n IH h G A) as [s [h' [Hs [Hf [Hs' [HI Hops]]]]]].
    assert (E1 : encT (S n) h = s) by (cbn [ComposeDepth.encT]; now rewrite Hs).
    assert (E2 : nfT (S n) h = h').
    { unfold ComposeDepth.nfT. rewrite E1. cbn [ComposeDepth.decT]. now rewrite Hf. }
    split; [reflexivity|]. split.
    - rewrite E2, E1. cbn [ComposeDepth.encT]. now rewrite Hs'.
    - rewrite E2, (typeT_S n h'), (typeT_S n h). unfold root_ok_b in R.
      destruct (get_node h (h_root h)) as [nd|] eqn:En; [|discriminate].
      destruct (Hops _ _ En) as [nd' [Hnd' Eo]]. destruct HI as [_ _ Hroot _]. rewrite Hroot, Hnd', Eo. now apply inner_ft_nf.
  Qed.

  Theorem tower_rt : forall n, RT n.
  Proof.
    induction n as [|n IH]; [intros []|].
    intros h Hok. change (okT (S n) h) with (guardT n h && ops_ok_b md (okT n) h && root_ok_b md h) in Hok.
    apply andb_true_iff in Hok as [Hok R]. apply andb_true_iff in Hok as [G A].
    exact (tower_step n IH h G A R).
  Qed.

  (* ---- the composed theorem at any nesting depth ---- *)
  Theorem roundtrip_any_depth n (h : hugr (op (HT n)) md) :
    guardT n h = true -> ops_ok_b md (okT n) h = true ->
    exists s h', to_serial (c_enc (HT n) (ST n) (encT n)) (c_ndp (HT n)) md_is_nil h = Some s /\
                 from_serial (c_dec (HT n) (ST n) (decT n)) (c_ndp (HT n)) md_nil s = Some h' /\
                 to_serial (c_enc (HT n) (ST n) (encT n)) (c_ndp (HT n)) md_is_nil h' = Some s /\
                 Iso (c_enc (HT n) (ST n) (encT n)) h h' /\
                 (forall i nd, get_node h i = Some nd ->
                    exists nd', get_node h' (rank h i) = Some nd' /\ n_op nd' = op_nf (HT n) (nfT n) (n_op nd)).
  Proof. exact (level_roundtrip n (tower_rt n) h). Qed.
End TowerP.
