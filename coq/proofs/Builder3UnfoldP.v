(* C01 (fourth pass) — unfolding equations of the mutual fixpoint exec_*3 of model/Builder3.v, one per constructor (each by
   reflexivity): `cbn` leaves raw `fix` terms for the mutually recursive calls, these equations do not.  Generated from the
   text of model/Builder3.v. *)
From Coq Require Import NArith List Bool Arith.
Import ListNotations.
From HV Require Import lib.Harness model.Validity model.Builder model.Builder2 model.Builder3.
Local Open Scope N_scope.

Section Unfold3.
  Variable tys : list tyinfo.
  Variable sigs : list sinfo.
  Lemma exec_stmt3_UOp id o args rs cf b st e :
    exec_stmt3 tys sigs (UOp id o args rs) cf b st e =
        ws <- get_wires (e_env e) args ;;
        a <- add_node st (initial_op o) (b_parent b) ;;
        x <- wire_up3 cf (fst a) (snd a) ws ;;
        op' <- completed_op tys o (snd x) ;;
        st' <- set_op (fst x) (snd a) op' ;;
        Ok (st', bind3 e id (snd a) rs).
  Proof. reflexivity. Qed.

  Lemma exec_stmt3_ULoad id v cp r cf b st e :
    exec_stmt3 tys sigs (ULoad id v cp r) cf b st e =
        c <- add_node st (Const v) (match cp with CHere => b_parent b | CRoot => 0 end) ;;
        l <- add_node (fst c) (LoadConst (value_ty v)) (b_parent b) ;;
        st' <- add_link (fst l) (snd c) (Some 0) (snd l) (Some 0) ;;
        Ok (st', bind3 e id (snd l) [r]).
  Proof. reflexivity. Qed.

  Lemma exec_stmt3_UNested id args body rs cf b st e :
    exec_stmt3 tys sigs (UNested id args body rs) cf b st e =
        ws <- get_wires (e_env e) args ;;
        ts <- wire_types st ws ;;
        d <- add_node st (DFG ts []) (b_parent b) ;;
        io <- init_io (fst d) (snd d) ts ;;
        x <- wire_up3 cf (fst io) (snd d) ws ;;
        y <- exec_region3 tys sigs body false None (snd io) (fst x) e ;;
        Ok (fst y, bind3 (snd y) id (snd d) rs).
  Proof. reflexivity. Qed.

  Lemma exec_stmt3_UOrder src dst cf b st e :
    exec_stmt3 tys sigs (UOrder src dst) cf b st e =
        a <- node_of b (e_env e) src ;;
        c <- node_of b (e_env e) dst ;;
        st' <- add_order_link st a c ;;
        Ok (st', e).
  Proof. reflexivity. Qed.

  Lemma exec_stmt3_ULoop id just rest body rs cf b st e :
    exec_stmt3 tys sigs (ULoop id just rest body rs) cf b st e =
        jw <- get_wires (e_env e) just ;;
        rw <- get_wires (e_env e) rest ;;
        jt <- wire_types st jw ;;
        rt <- wire_types st rw ;;
        d <- add_node st (TailLoop (jt ++ rt) [] [] (lenN jt)) (b_parent b) ;;
        io <- init_io (fst d) (snd d) (jt ++ rt) ;;
        x <- wire_up3 cf (fst io) (snd d) (jw ++ rw) ;;
        y <- exec_region3 tys sigs body false None (snd io) (fst x) e ;;
        Ok (fst y, bind3 (snd y) id (snd d) rs).
  Proof. reflexivity. Qed.

  Lemma exec_stmt3_UCond id cond args cs rs cf b st e :
    exec_stmt3 tys sigs (UCond id cond args cs rs) cf b st e =
        cw <- get_wire (e_env e) cond ;;
        ws <- get_wires (e_env e) args ;;
        ts <- wire_types st (cw :: ws) ;;
        match ts with
        | t :: others =>
            match nthN tys t with
            | Some (TSum _ rows) =>
                c <- add_node st (Conditional rows others [] t) (b_parent b) ;;
                mk <- make_cases (fst c) (snd c) rows others ;;
                x <- wire_up3 cf (fst mk) (snd c) (cw :: ws) ;;
                y <- exec_cases3 tys sigs cs (snd c) (snd mk) None (fst x) e ;;
                let '(st', e', bs, cur) := y in
                if cases_done bs cur then Ok (st', bind3 e' id (snd c) rs) else Err EIncomplete
            | _ => Err EIncomplete
            end
        | [] => Err EIncomplete
        end.
  Proof. reflexivity. Qed.

  Lemma exec_stmt3_UInsert id sub args rs cf b st e :
    exec_stmt3 tys sigs (UInsert id sub args rs) cf b st e =
        y <- exec_prog3 tys sigs sub e ;;
        ws <- get_wires (e_env (snd y)) args ;;
        m <- insert_hugr st (fst y) (b_parent b) ;;
        match nthN (snd m) 0 with
        | Some r =>
            x <- wire_up3 cf (fst m) r ws ;;
            Ok (fst x, bind3 (snd y) id r rs)
        | None => Err EKey
        end.
  Proof. reflexivity. Qed.

  Lemma exec_stmt3_UCallInd id args rs cf b st e :
    exec_stmt3 tys sigs (UCallInd id args rs) cf b st e =
        ws <- get_wires (e_env e) args ;;
        a <- add_node st (CallIndirect [] [] 0) (b_parent b) ;;
        x <- wire_up3 cf (fst a) (snd a) ws ;;
        op' <- completed_callind tys (snd x) ;;
        st' <- set_op (fst x) (snd a) op' ;;
        Ok (st', bind3 e id (snd a) rs).
  Proof. reflexivity. Qed.

  Lemma exec_stmt3_UCall id f args rs inst cf b st e :
    exec_stmt3 tys sigs (UCall id f args rs inst) cf b st e =
        fn <- get_fn e f ;;
        ws <- get_wires (e_env e) args ;;
        sg <- fn_sig sigs st fn ;;
        io <- instantiate sigs sg inst ;;
        a <- add_node st (Call sg (fst io) (snd io)) (b_parent b) ;;
        st1 <- add_link (fst a) fn (Some 0) (snd a) (Some (lenN (fst io))) ;;
        x <- wire_up3 cf st1 (snd a) ws ;;
        Ok (fst x, bind3 e id (snd a) rs).
  Proof. reflexivity. Qed.

  Lemma exec_stmt3_ULoadFn id f r inst fnty cf b st e :
    exec_stmt3 tys sigs (ULoadFn id f r inst fnty) cf b st e =
        fn <- get_fn e f ;;
        sg <- fn_sig sigs st fn ;;
        io <- instantiate sigs sg inst ;;
        a <- add_node st (LoadFunc sg (fst io) (snd io) fnty) (b_parent b) ;;
        st1 <- add_link (fst a) fn (Some 0) (snd a) (Some 0) ;;
        Ok (st1, bind3 e id (snd a) [r]).
  Proof. reflexivity. Qed.

  Lemma exec_stmt3_ULoadC id c r cf b st e :
    exec_stmt3 tys sigs (ULoadC id c r) cf b st e =
        match nthN (e_consts e) c with
        | Some cn =>
            match s_op st cn with
            | Some (Const v) =>
                l <- add_node st (LoadConst (value_ty v)) (b_parent b) ;;
                st' <- add_link (fst l) cn (Some 0) (snd l) (Some 0) ;;
                Ok (st', bind3 e id (snd l) [r])
            | Some _ => Err EIncomplete
            | None => Err EKey
            end
        | None => Err EUnbound
        end.
  Proof. reflexivity. Qed.

  Lemma exec_stmt3_ULocalFn id f params ins douts body cf b st e :
    exec_stmt3 tys sigs (ULocalFn id f params ins douts body) cf b st e =
        o <- new_funcdefn sigs params ins douts ;;
        a <- add_node st o (b_parent b) ;;
        io <- init_io (fst a) (snd a) ins ;;
        y <- exec_region3 tys sigs body false None (snd io) (fst io) e ;;
        Ok (fst y, bind_fn (with_env (snd y) (bind_stmt (e_env (snd y)) id (snd a))) f (snd a)).
  Proof. reflexivity. Qed.

  Lemma exec_stmt3_UCfg id args blocks branches rs cf b st e :
    exec_stmt3 tys sigs (UCfg id args blocks branches rs) cf b st e =
        ws <- get_wires (e_env e) args ;;
        ts <- wire_types st ws ;;
        c <- add_node st (CFG ts []) (b_parent b) ;;
        cb <- init_cfg (fst c) (snd c) ts ;;
        x <- wire_up3 cf (fst cb) (snd c) ws ;;
        y <- exec_blocks3 tys sigs blocks (snd cb) false (fst x) e ;;
        let '(st1, e1, ent) := y in
        z <- do_branches st1 e1 (snd cb) {| cs_outs := None; cs_entry := ent |} branches ;;
        if cfg_done (snd z) then Ok (fst z, bind3 e1 id (snd c) rs) else Err EIncomplete.
  Proof. reflexivity. Qed.

  Lemma exec_region3_Rg ins body outs single cf b st e :
    exec_region3 tys sigs (Rg ins body outs) single cf b st e =
        y <- exec_stmts3 tys sigs body cf b st (with_env e (bind_outs (e_env e) (b_in b) ins)) ;;
        ws <- get_wires (e_env (snd y)) outs ;;
        if single then
          v <- unit_value tys ;;
          c <- add_node (fst y) (Const v) (b_parent b) ;;
          l <- add_node (fst c) (LoadConst (value_ty v)) (b_parent b) ;;
          st1 <- add_link (fst l) (snd c) (Some 0) (snd l) (Some 0) ;;
          st' <- set_outputs3 tys sigs cf st1 b ((snd l, 0) :: ws) ;;
          Ok (st', snd y)
        else
          st' <- set_outputs3 tys sigs cf (fst y) b ws ;;
          Ok (st', snd y).
  Proof. reflexivity. Qed.

  Lemma exec_stmts3_UNil  cf b st e :
    exec_stmts3 tys sigs (UNil) cf b st e = Ok (st, e).
  Proof. reflexivity. Qed.

  Lemma exec_stmts3_UCons s r cf b st e :
    exec_stmts3 tys sigs (UCons s r) cf b st e = y <- exec_stmt3 tys sigs s cf b st e ;; exec_stmts3 tys sigs r cf b (fst y) (snd y).
  Proof. reflexivity. Qed.

  Lemma exec_cases3_KNil  cond bs cur st e :
    exec_cases3 tys sigs (KNil) cond bs cur st e = Ok (st, e, bs, cur).
  Proof. reflexivity. Qed.

  Lemma exec_cases3_KCons i r rest cond bs cur st e :
    exec_cases3 tys sigs (KCons i r rest) cond bs cur st e =
        match nthN bs i with
        | Some (cb, false) =>
            y <- exec_region3 tys sigs r false None cb st e ;;
            ts <- out_types (fst y) cb ;;
            u <- update_outputs (fst y) cond cur ts ;;
            exec_cases3 tys sigs rest cond (set_nth bs (N.to_nat i) (cb, true)) (snd u) (fst u) (snd y)
        | _ => Err EIncomplete
        end.
  Proof. reflexivity. Qed.

  Lemma exec_blocks3_BNil  cb ent st e :
    exec_blocks3 tys sigs (BNil) cb ent st e = Ok (st, e, ent).
  Proof. reflexivity. Qed.

  Lemma exec_blocks3_BCons id k body single bw rest cb ent st e :
    exec_blocks3 tys sigs (BCons id k body single bw rest) cb ent st e =
        x <- match k with
             | BEntry => Ok (st, c_entry cb)
             | BBlock ins =>
                 a <- add_node st (Block ins [] [] 0) (c_node cb) ;;
                 init_io (fst a) (snd a) ins
             | BSucc pred =>
                 p <- get_wire (e_env e) pred ;;
                 ins <- nth_outputs st p ;;
                 a <- add_node st (Block ins [] [] 0) (c_node cb) ;;
                 io <- init_io (fst a) (snd a) ins ;;
                 st1 <- add_link (fst io) (fst p) (Some (snd p)) (snd a) (Some 0) ;;
                 Ok (st1, snd io)
             end ;;
        y <- exec_region3 tys sigs body single (Some (c_node cb)) (snd x) (fst x) e ;;
        let n := b_parent (snd x) in
        exec_blocks3 tys sigs rest cb (ent || match k with BEntry => true | _ => false end) (fst y) (bind3 (snd y) id n bw).
  Proof. reflexivity. Qed.

  Lemma exec_prog3_RDfg ins body e :
    exec_prog3 tys sigs (RDfg ins body) e =
        io <- init_io (new_store (DFG ins [])) 0 ins ;;
        exec_region3 tys sigs body false None (snd io) (fst io) e.
  Proof. reflexivity. Qed.

  Lemma exec_prog3_RLoop just rest body e :
    exec_prog3 tys sigs (RLoop just rest body) e =
        io <- init_io (new_store (TailLoop (just ++ rest) [] [] (lenN just))) 0 (just ++ rest) ;;
        exec_region3 tys sigs body false None (snd io) (fst io) e.
  Proof. reflexivity. Qed.

  Lemma exec_prog3_RCond rows others sumty cs e :
    exec_prog3 tys sigs (RCond rows others sumty cs) e =
        mk <- make_cases (new_store (Conditional rows others [] sumty)) 0 rows others ;;
        y <- exec_cases3 tys sigs cs 0 (snd mk) None (fst mk) e ;;
        let '(st', e', bs, cur) := y in
        if cases_done bs cur then Ok (st', e') else Err EIncomplete.
  Proof. reflexivity. Qed.

  Lemma exec_prog3_RFunc params ins douts body e :
    exec_prog3 tys sigs (RFunc params ins douts body) e =
        o <- new_funcdefn sigs params ins douts ;;
        io <- init_io (new_store o) 0 ins ;;
        exec_region3 tys sigs body false None (snd io) (fst io) e.
  Proof. reflexivity. Qed.

  Lemma exec_prog3_RCfg ins blocks branches e :
    exec_prog3 tys sigs (RCfg ins blocks branches) e =
        cb <- init_cfg (new_store (CFG ins [])) 0 ins ;;
        y <- exec_blocks3 tys sigs blocks (snd cb) false (fst cb) e ;;
        let '(st1, e1, ent) := y in
        z <- do_branches st1 e1 (snd cb) {| cs_outs := None; cs_entry := ent |} branches ;;
        if cfg_done (snd z) then Ok (fst z, e1) else Err EIncomplete.
  Proof. reflexivity. Qed.

  Lemma exec_prog3_RModule consts funcs e :
    exec_prog3 tys sigs (RModule consts funcs) e =
        c <- add_consts consts (new_store Module) e ;;
        d <- decl_funcs sigs funcs (fst c) (snd c) ;;
        let '(st1, e1, bs) := d in
        exec_funcs3 tys sigs funcs bs st1 e1.
  Proof. reflexivity. Qed.
  Lemma exec_funcs3_FNil bs st e : exec_funcs3 tys sigs FNil bs st e = Ok (st, e).
  Proof. reflexivity. Qed.
  Lemma exec_funcs3_FDecl f sg rest b0 bs st e : exec_funcs3 tys sigs (FDecl f sg rest) (b0 :: bs) st e = exec_funcs3 tys sigs rest bs st e.
  Proof. reflexivity. Qed.
  Lemma exec_funcs3_FDefn f params ins douts body rest b bs st e :
    exec_funcs3 tys sigs (FDefn f params ins douts body rest) (Some b :: bs) st e =
      y <- exec_region3 tys sigs body false None b st e ;; exec_funcs3 tys sigs rest bs (fst y) (snd y).
  Proof. reflexivity. Qed.
End Unfold3.
