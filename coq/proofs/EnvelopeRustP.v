(* Proofs for C09, documented header as regenerated data: the constants scanned from
   hugr-core/src/envelope/header.rs (gen/EnvelopeRust.v) and read from hugr.envelope (gen/EnvelopePy.v) are
   the model's; the Rust reader / writer transcribed over the scanned constants and the model's header
   decoder / encoder accept, decode, reject and write the same byte strings.  Re-proved on every run against
   the regenerated constants: every `chk_… = true` below is a computation on them. *)
From Coq Require Import NArith String List Bool Lia Arith.
Import ListNotations.
From HV Require Import lib.Harness model.Envelope proofs.EnvelopeP gen.EnvelopeRust gen.EnvelopePy model.EnvelopeRustM.
Open Scope N_scope.

(* ---- generic *)
Lemma incl_b_spec {A} (eqb : A -> A -> bool) (H : forall a b, reflect (a = b) (eqb a b)) a b :
  incl_b eqb a b = true -> forall x, In x a -> In x b.
Proof.
  unfold incl_b. rewrite forallb_forall. intros Hf x Hx. specialize (Hf x Hx).
  destruct (mem_spec eqb H x b); [assumption|discriminate].
Qed.
Lemma seteq_b_spec {A} (eqb : A -> A -> bool) (H : forall a b, reflect (a = b) (eqb a b)) a b :
  seteq_b eqb a b = true -> forall x, In x a <-> In x b.
Proof.
  unfold seteq_b. intros E. apply andb_prop in E as [E1 E2]. intros x. split; eapply incl_b_spec; eassumption.
Qed.
Lemma name_eqb_spec a b : reflect (a = b) (name_eqb a b).
Proof.
  destruct a as [n v], b as [m w]. unfold name_eqb. cbn [fst snd].
  destruct (String.eqb_spec n m) as [->|Hn]; cbn [andb]; [|constructor; congruence].
  destruct (N.eqb_spec v w) as [->|Hv]; constructor; congruence.
Qed.
Lemma all_formats_complete f : In f all_formats.
Proof. destruct f; cbn; tauto. Qed.
Lemma rust_name_inj f g : rust_name f = rust_name g -> f = g.
Proof. destruct f, g; cbn; intros H; try reflexivity; discriminate H. Qed.
Lemma py_name_inj f g : py_name f = py_name g -> f = g.
Proof. destruct f, g; cbn; intros H; try reflexivity; discriminate H. Qed.
Lemma fmt_value_inj f g : fmt_value f = fmt_value g -> f = g.
Proof. destruct f, g; cbn; intros H; try reflexivity; discriminate H. Qed.

Lemma read_exact_some n d a b : read_exact n d = Some (a, b) -> d = (a ++ b)%list /\ length a = n.
Proof.
  unfold read_exact. destruct (Nat.ltb_spec (length d) n); [discriminate|]. intros [= <- <-].
  split; [symmetry; apply firstn_skipn|]. apply firstn_length_le. assumption.
Qed.
Lemma read_exact_app a b : read_exact (length a) (a ++ b) = Some (a, b).
Proof.
  unfold read_exact. rewrite app_length.
  destruct (Nat.ltb_spec (length a + length b) (length a)); [lia|].
  rewrite firstn_app, Nat.sub_diag, firstn_all, skipn_app, Nat.sub_diag, skipn_all. cbn [firstn skipn].
  rewrite app_nil_r. reflexivity.
Qed.

(* ---- the scanned constants are the model's (computations on the regenerated data) *)
Lemma chk_rust_magic_true : chk_rust_magic = true.      Proof. vm_compute. reflexivity. Qed.
Lemma chk_rust_formats_true : chk_rust_formats = true.  Proof. vm_compute. reflexivity. Qed.
Lemma chk_rust_printable_true : chk_rust_printable = true. Proof. vm_compute. reflexivity. Qed.
Lemma chk_rust_flags_true : chk_rust_flags = true.      Proof. vm_compute. reflexivity. Qed.
Lemma chk_rust_lengths_true : chk_rust_lengths = true.  Proof. vm_compute. reflexivity. Qed.

Theorem rust_magic_is_model : rust_magic = MAGIC.
Proof.
  pose proof chk_rust_magic_true as C. unfold chk_rust_magic in C.
  destruct (bytes_eqb_spec rust_magic MAGIC); [assumption|discriminate].
Qed.

(* the set of known formats and their format bytes *)
Theorem rust_formats_are_model name v :
  In (name, v) rust_formats <-> exists f, name = rust_name f /\ v = fmt_value f.
Proof.
  rewrite (seteq_b_spec name_eqb name_eqb_spec _ _ chk_rust_formats_true (name, v)).
  unfold model_formats. rewrite in_map_iff. split.
  - intros (f & E & _). injection E as <- <-. eauto.
  - intros (f & -> & ->). exists f. split; [reflexivity|apply all_formats_complete].
Qed.

(* the set of ASCII-printable formats *)
Theorem rust_printable_are_model name :
  In name rust_ascii_printable <-> exists f, name = rust_name f /\ ascii_printable f = true.
Proof.
  rewrite (seteq_b_spec String.eqb String.eqb_spec _ _ chk_rust_printable_true name).
  unfold model_printable. rewrite in_map_iff. split.
  - intros (f & <- & Hf). apply filter_In in Hf. exists f. tauto.
  - intros (f & -> & Hf). exists f. split; [reflexivity|]. apply filter_In. split; [apply all_formats_complete|assumption].
Qed.
Theorem rust_ascii_printable_is_model f : rust_variant_ascii_printable (rust_name f) = ascii_printable f.
Proof.
  unfold rust_variant_ascii_printable.
  destruct (mem_spec String.eqb String.eqb_spec (rust_name f) rust_ascii_printable) as [H|H].
  - apply rust_printable_are_model in H as (g & E & Hg). apply rust_name_inj in E. subst g. now rewrite Hg.
  - destruct (ascii_printable f) eqn:E; [|reflexivity]. exfalso. apply H. apply rust_printable_are_model. eauto.
Qed.

(* flag layout *)
Lemma rust_flags_values : rust_flags_base = 64 /\ rust_zstd_mask = 1.
Proof.
  pose proof chk_rust_flags_true as C. unfold chk_rust_flags in C. apply andb_prop in C as [C1 C2].
  split; apply N.eqb_eq; assumption.
Qed.
Theorem rust_flag_layout :
  (forall z : bool, let flags := N.lor rust_flags_base (if z then 1 else 0) in
     N.testbit flags 7 = false /\ N.testbit flags 6 = true /\ N.testbit flags 0 = z /\
     flags = N.lor 64 (if z then 1 else 0)) /\
  (forall fl, negb (N.land fl rust_zstd_mask =? 0) = N.testbit fl 0).
Proof.
  destruct rust_flags_values as [-> ->]. split.
  - intros []; repeat split.
  - intros fl. rewrite land1_odd. symmetry. apply N.bit0_odd.
Qed.

(* field lengths: 8 + 1 + 1 = the ten bytes the model writes; the magic number fills its buffer; the stated
   length, when the doc comment states one, is that sum *)
Lemma rust_lengths_values :
  rust_magic_read_len = 8%nat /\ rust_format_read_len = 1%nat /\ rust_flags_read_len = 1%nat /\
  (forall n, rust_header_len_stated = Some n -> n = 10%nat).
Proof.
  pose proof chk_rust_lengths_true as C. unfold chk_rust_lengths in C.
  apply andb_prop in C as [C C4]. apply andb_prop in C as [C C3]. apply andb_prop in C as [C1 C2].
  apply Nat.eqb_eq in C1, C2, C3. repeat split; try assumption.
  intros n E. rewrite E in C4. apply Nat.eqb_eq in C4. assumption.
Qed.
Theorem rust_header_length h :
  (rust_magic_read_len + rust_format_read_len + rust_flags_read_len)%nat = length (header_to_bytes h) /\
  length rust_magic = rust_magic_read_len /\
  (forall n, rust_header_len_stated = Some n -> n = length (header_to_bytes h)).
Proof.
  destruct rust_lengths_values as (-> & -> & -> & Hs). rewrite rust_magic_is_model.
  assert (L : length (header_to_bytes h) = 10%nat) by (destruct h as [[] []]; reflexivity).
  rewrite L. repeat split. assumption.
Qed.

(* ---- from_repr / `as u8` over the scanned table are the model's fmt_of / fmt_value *)
Lemma rust_from_repr_is_model d : rust_from_repr d = option_map rust_name (fmt_of d).
Proof.
  unfold rust_from_repr. destruct (find _ rust_formats) as [[n v]|] eqn:F; cbn [option_map fst].
  - apply find_some in F as [Hin Heq]. cbn [snd] in Heq. apply N.eqb_eq in Heq. subst v.
    apply rust_formats_are_model in Hin as (f & -> & ->). rewrite fmt_of_value. reflexivity.
  - destruct (fmt_of d) as [f|] eqn:Hf; [|reflexivity]. exfalso. apply fmt_of_some in Hf. subst d.
    assert (Hin : In (rust_name f, fmt_value f) rust_formats) by (apply rust_formats_are_model; eauto).
    apply (find_none _ _ F) in Hin. cbn [snd] in Hin. rewrite N.eqb_refl in Hin. discriminate.
Qed.
Lemma rust_discriminant_is_model f : rust_discriminant (rust_name f) = Some (fmt_value f).
Proof.
  unfold rust_discriminant. destruct (find _ rust_formats) as [[n v]|] eqn:F; cbn [option_map snd].
  - apply find_some in F as [Hin Heq]. cbn [fst] in Heq. apply String.eqb_eq in Heq. subst n.
    apply rust_formats_are_model in Hin as (g & E & ->). apply rust_name_inj in E. now subst g.
  - exfalso. assert (Hin : In (rust_name f, fmt_value f) rust_formats) by (apply rust_formats_are_model; eauto).
    apply (find_none _ _ F) in Hin. cbn [fst] in Hin. rewrite String.eqb_refl in Hin. discriminate.
Qed.

(* ---- the reader: EnvelopeHeader::read over the scanned constants accepts exactly the byte strings the
   model's header_from_bytes accepts, with the same format and the same compression flag *)
Lemma rust_read_ok_shape d v z :
  rust_read d = ROk v z ->
  exists f flags rest, d = (MAGIC ++ [fmt_value f; flags] ++ rest)%list /\ v = rust_name f /\ z = N.odd flags.
Proof.
  unfold rust_read. destruct rust_lengths_values as (-> & -> & -> & _).
  destruct rust_flags_values as [_ ->]. rewrite rust_magic_is_model.
  destruct (read_exact 8 d) as [[magic d1]|] eqn:R1; [|discriminate].
  destruct (bytes_eqb_spec magic MAGIC) as [->|]; cbn [negb]; [|discriminate].
  destruct (read_exact 1 d1) as [[fb d2]|] eqn:R2; [|discriminate].
  rewrite rust_from_repr_is_model.
  destruct (fmt_of (nth 0 fb 0)) as [f|] eqn:Hf; cbn [option_map]; [|discriminate].
  destruct (read_exact 1 d2) as [[fl d3]|] eqn:R3; [|discriminate].
  intros [= <- <-].
  apply read_exact_some in R1 as [-> _]. apply read_exact_some in R2 as [-> L2]. apply read_exact_some in R3 as [-> L3].
  destruct fb as [|x [|? ?]]; try discriminate L2. destruct fl as [|y [|? ?]]; try discriminate L3.
  cbn [nth] in *. apply fmt_of_some in Hf. subst x.
  exists f, y, d3. split; [reflexivity|]. split; [reflexivity|]. apply land1_odd.
Qed.
Lemma rust_read_model_shape f flags rest :
  rust_read (MAGIC ++ [fmt_value f; flags] ++ rest) = ROk (rust_name f) (N.odd flags).
Proof.
  unfold rust_read. destruct rust_lengths_values as (-> & -> & -> & _).
  destruct rust_flags_values as [_ ->]. rewrite rust_magic_is_model.
  change 8%nat with (length MAGIC). rewrite read_exact_app.
  destruct (bytes_eqb_spec MAGIC MAGIC); [|congruence]. cbn [negb].
  change ([fmt_value f; flags] ++ rest)%list with ([fmt_value f] ++ ([flags] ++ rest))%list.
  change 1%nat with (length [fmt_value f]) at 1. rewrite read_exact_app. cbn [nth].
  rewrite rust_from_repr_is_model, fmt_of_value. cbn [option_map].
  change 1%nat with (length [flags]). rewrite read_exact_app. cbn [nth].
  f_equal. apply land1_odd.
Qed.

Theorem rust_reader_accepts_iff d f z :
  rust_read d = ROk (rust_name f) z <-> header_from_bytes d = Ok {| hformat := f; hzstd := z |}.
Proof.
  split.
  - intros H. apply rust_read_ok_shape in H as (g & flags & rest & -> & E & ->). apply rust_name_inj in E. subst g.
    apply header_accepts_iff. cbn [hformat hzstd]. eauto.
  - intros H. apply header_accepts_iff in H as (flags & rest & -> & Hz). cbn [hformat hzstd] in *. subst z.
    apply rust_read_model_shape.
Qed.
(* ... and it never answers with anything but one of the model's formats *)
Theorem rust_reader_only_known d v z : rust_read d = ROk v z -> exists f, v = rust_name f.
Proof. intros H. apply rust_read_ok_shape in H as (f & _ & _ & _ & -> & _). eauto. Qed.
(* ... and rejects exactly what the model rejects with ValueError *)
Theorem rust_reader_rejects_iff d : (exists e, rust_read d = RErr e) <-> header_from_bytes d = Err ValueError.
Proof.
  split.
  - intros [e He]. destruct (header_total d) as [H|[[f z] H]]; [assumption|].
    apply rust_reader_accepts_iff in H. congruence.
  - intros H. destruct (rust_read d) as [v z|e] eqn:R; [|eauto]. exfalso.
    destruct (rust_reader_only_known _ _ _ R) as [f ->]. apply rust_reader_accepts_iff in R. congruence.
Qed.
Theorem rust_reader_rejects d :
  (length d < 10)%nat \/ firstn 8 d <> MAGIC \/ (nth 8 d 0 <> 1 /\ nth 8 d 0 <> 2 /\ nth 8 d 0 <> 63) ->
  exists e, rust_read d = RErr e.
Proof. intros H. apply rust_reader_rejects_iff. apply header_rejects. assumption. Qed.
(* the documented error for an unknown format byte behind the right magic number *)
Theorem rust_reader_unknown_format b rest : fmt_of b = None -> rust_read (MAGIC ++ b :: rest) = RErr (RFormat b).
Proof.
  intros Hb. unfold rust_read. destruct rust_lengths_values as (-> & -> & -> & _). rewrite rust_magic_is_model.
  change 8%nat with (length MAGIC). rewrite read_exact_app.
  destruct (bytes_eqb_spec MAGIC MAGIC); [|congruence]. cbn [negb].
  change (b :: rest) with ([b] ++ rest)%list. change 1%nat with (length [b]) at 1. rewrite read_exact_app. cbn [nth].
  rewrite rust_from_repr_is_model, Hb. reflexivity.
Qed.

(* the header the MODEL writes is read by the Rust reader with the same format and compression flag *)
Theorem rust_reads_model_header h rest :
  rust_read (header_to_bytes h ++ rest) = ROk (rust_name (hformat h)) (hzstd h).
Proof. destruct h as [f z]. apply rust_reader_accepts_iff. apply header_roundtrip. Qed.

(* ---- the writer: EnvelopeHeader::write over the scanned constants writes the model's ten bytes *)
Theorem rust_write_is_model h : rust_write (rust_name (hformat h)) (hzstd h) = Some (header_to_bytes h).
Proof.
  unfold rust_write. rewrite rust_discriminant_is_model. destruct rust_flags_values as [-> _].
  rewrite rust_magic_is_model. reflexivity.
Qed.
Theorem model_reads_rust_header f z w rest :
  rust_write (rust_name f) z = Some w -> header_from_bytes (w ++ rest) = Ok {| hformat := f; hzstd := z |}.
Proof.
  intros H. pose proof (rust_write_is_model {| hformat := f; hzstd := z |}) as E. cbn [hformat hzstd] in E.
  rewrite E in H. injection H as <-. apply header_roundtrip.
Qed.

Section Env.
  Variable package : Type.
  Variable json_payload : package -> bytes.
  Variable compress : N -> bytes -> bytes.
  Variable utf8_ok : bytes -> bool.
  (* every envelope the model makes starts with a header the documented reader accepts, for every configuration *)
  Theorem rust_reads_envelope p c e :
    make_envelope package json_payload compress p c = Ok e ->
    rust_read e = ROk (rust_name (cformat c)) (match czstd c with Some _ => true | None => false end).
  Proof.
    unfold make_envelope. destruct (cformat c) eqn:Ef; try discriminate. intros H.
    match type of H with Ok ?x = Ok _ => assert (He : x = e) by congruence end. subst e. clear H.
    rewrite rust_reads_model_header. unfold make_header. cbn [hformat hzstd]. rewrite Ef. reflexivity.
  Qed.
  (* text encoding is offered only for the formats header.rs calls ASCII-printable *)
  Theorem str_only_rust_printable p c e :
    make_envelope_str package json_payload compress utf8_ok p c = Ok e ->
    rust_variant_ascii_printable (rust_name (cformat c)) = true.
  Proof.
    rewrite rust_ascii_printable_is_model. unfold make_envelope_str.
    destruct (ascii_printable (cformat c)); cbn [negb]; [reflexivity|discriminate].
  Qed.
End Env.

(* ---- Python's module-level constants equal Rust's (through the hand-written table of names only) *)
Lemma chk_py_magic_true : chk_py_magic = true.          Proof. vm_compute. reflexivity. Qed.
Lemma chk_py_formats_true : chk_py_formats = true.      Proof. vm_compute. reflexivity. Qed.
Lemma chk_py_printable_true : chk_py_printable = true.  Proof. vm_compute. reflexivity. Qed.

Theorem python_magic_is_rust : py_magic = rust_magic.
Proof.
  pose proof chk_py_magic_true as C. unfold chk_py_magic in C.
  destruct (bytes_eqb_spec py_magic rust_magic); [assumption|discriminate].
Qed.
Theorem python_formats_are_rust :
  (forall pn v, In (pn, v) py_formats <-> exists f, pn = py_name f /\ rust_discriminant (rust_name f) = Some v) /\
  (forall rn v, In (rn, v) rust_formats -> exists f, rn = rust_name f).
Proof.
  pose proof chk_py_formats_true as C. unfold chk_py_formats in C. apply andb_prop in C as [C1 C2]. split.
  - intros pn v. rewrite (seteq_b_spec name_eqb name_eqb_spec _ _ C1 (pn, v)).
    unfold py_as_rust. rewrite in_flat_map. split.
    + intros (f & _ & Hin). destruct (rust_discriminant (rust_name f)) as [d|] eqn:E; [|destruct Hin].
      destruct Hin as [Hin|[]]. injection Hin as <- <-. eauto.
    + intros (f & -> & E). exists f. split; [apply all_formats_complete|]. rewrite E. now left.
  - intros rn v Hin. rewrite forallb_forall in C2. specialize (C2 _ Hin). cbn [fst] in C2.
    destruct (mem_spec String.eqb String.eqb_spec rn (map rust_name all_formats)) as [H|]; [|discriminate].
    apply in_map_iff in H as (f & <- & _). eauto.
Qed.
Theorem python_printable_are_rust pn :
  In pn py_ascii_printable <-> exists f, pn = py_name f /\ rust_variant_ascii_printable (rust_name f) = true.
Proof.
  rewrite (seteq_b_spec String.eqb String.eqb_spec _ _ chk_py_printable_true pn).
  unfold py_printable_as_rust. rewrite in_map_iff. split.
  - intros (f & <- & Hf). apply filter_In in Hf. exists f. tauto.
  - intros (f & -> & Hf). exists f. split; [reflexivity|]. apply filter_In. split; [apply all_formats_complete|assumption].
Qed.
(* hence Python's constants are the model's, too *)
Corollary python_formats_are_model pn v :
  In (pn, v) py_formats <-> exists f, pn = py_name f /\ v = fmt_value f.
Proof.
  rewrite (proj1 python_formats_are_rust). split; intros (f & -> & H); exists f; (split; [reflexivity|]).
  - rewrite rust_discriminant_is_model in H. congruence.
  - subst v. apply rust_discriminant_is_model.
Qed.

(* non-trivial instances *)
Example rust_read_example :
  rust_read (MAGIC ++ [63; 65; 1; 2; 3]) = ROk "PackageJson" true /\
  rust_read (MAGIC ++ [3; 64]) = RErr (RFormat 3) /\ rust_read (MAGIC ++ [63]) = RErr RIo /\
  rust_read [72; 85; 71; 82; 105; 72; 74; 119; 63; 64] = RErr RMagic /\
  rust_write "Model" true = Some (MAGIC ++ [1; 65]).
Proof. vm_compute. repeat split. Qed.
