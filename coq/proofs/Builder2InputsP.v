(* C01 (third pass) — rule 8 (every value / static input port of every non-root node has exactly one link): the
   counting steps for the builder calls of the extended language (model/Builder2.v), over the store; used by the typed
   induction of proofs/Builder2TypeP.v, which carries `InOnce` (proofs/BuilderInputsP.v) as one more invariant. *)
From Coq Require Import NArith List Bool Arith Lia.
Import ListNotations.
From HV Require Import lib.Harness model.Validity model.Builder model.Builder2 spec.BuilderS spec.BuilderWFS
  proofs.BuilderP proofs.BuilderExtP proofs.BuilderFrameP proofs.BuilderRulesP proofs.BuilderTypeP proofs.BuilderInputsP
  proofs.Builder2UnfoldP proofs.Builder2InvP proofs.Builder2P spec.Builder2WFS proofs.Builder2FrameP.
Local Open Scope N_scope.

Lemma InOnce_nil nodes : (forall i nd, nthN nodes i = Some nd -> i <> 0 -> base_in (n_op nd) = 0) ->
  InOnce {| s_nodes := nodes; s_links := [] |}.
Proof. intros H i nd E Hi off Hoff. cbn [s_nodes] in E. rewrite (H _ _ E Hi) in Hoff. lia. Qed.

(* a leaf node appended, wired, completed *)
Lemma InOnce_leaf st st1 st' ws ts new x :
  InOnce st -> LinksOK st -> WNew st1 (s_len st) 0 ws ts new ->
  s_nodes st' = s_nodes st ++ [x] -> s_links st' = s_links st ++ new -> base_in (n_op x) = lenN ts -> InOnce st'.
Proof.
  intros Q K HW En' El' Hb i nd Ei Hi off Hoff. rewrite El', cnt_app, (WNew_cnt _ _ _ _ _ _ HW).
  rewrite En' in Ei. apply nthN_snoc_inv in Ei. destruct Ei as [Ei|[-> ->]].
  - pose proof (nthN_lt _ _ _ Ei) as Li. fold (s_len st) in Li.
    replace (i =? s_len st) with false by (symmetry; apply N.eqb_neq; lia). cbn [andb]. rewrite N.add_0_r. eauto.
  - fold (s_len st). rewrite N.eqb_refl, (cnt_fresh _ _ _ K) by lia. rewrite Hb in Hoff.
    destruct (N.leb_spec 0 off); [|lia]. destruct (N.ltb_spec off (0 + lenN ts)); [reflexivity|lia].
Qed.

(* a container with its Input / Output nodes appended and wired *)
Lemma InOnce_container st st3 st4 ws ts new co p ti :
  InOnce st -> LinksOK st -> WNew st3 (s_len st) 0 ws ts new ->
  s_nodes st4 = s_nodes st ++ [mk co p; mk (Input ti) (s_len st); mk (Output []) (s_len st)] ->
  s_links st4 = s_links st ++ new -> base_in co = lenN ts -> InOnce st4.
Proof.
  intros Q K HW En4 El4 Hb i nd Ei Hi off Hoff. rewrite El4, cnt_app, (WNew_cnt _ _ _ _ _ _ HW). rewrite En4 in Ei.
  destruct (N.lt_ge_cases i (s_len st)) as [Li|Li].
  - unfold s_len in Li. rewrite nthN_app_lt in Ei by exact Li. rewrite (Q _ _ Ei Hi _ Hoff).
    replace (i =? s_len st) with false by (symmetry; apply N.eqb_neq; unfold s_len; lia). reflexivity.
  - rewrite (cnt_fresh _ _ _ K) by exact Li. unfold s_len in Li. rewrite nthN_app_ge in Ei by exact Li.
    unfold nthN in Ei. destruct (N.to_nat (i - lenN (s_nodes st))) as [|[|[|k]]] eqn:Ek; cbn in Ei.
    + inversion Ei; subst nd. cbn [mk n_op] in Hoff. rewrite Hb in Hoff.
      replace (i =? s_len st) with true by (symmetry; apply N.eqb_eq; unfold s_len; lia). cbn [andb].
      destruct (N.leb_spec 0 off); [|lia]. destruct (N.ltb_spec off (0 + lenN ts)); [reflexivity|lia].
    + inversion Ei; subst nd. cbn in Hoff. lia.
    + inversion Ei; subst nd. cbn in Hoff. lia.
    + destruct k; discriminate.
Qed.

(* load: Const, LoadConst and the static link *)
Lemma InOnce_load st st' c lc :
  InOnce st -> LinksOK st -> base_in (n_op c) = 0 -> base_in (n_op lc) = 1 ->
  s_nodes st' = s_nodes st ++ [c; lc] ->
  s_links st' = s_links st ++ [{| e_src := s_len st; e_soff := Some 0; e_dst := s_len st + 1; e_doff := Some 0 |}] -> InOnce st'.
Proof.
  intros Q K Hc Hl En' El' i nd Ei Hi off Hoff. rewrite El', cnt_app, cnt_single. unfold into. cbn [e_dst e_doff optN_eqb option_eqb].
  rewrite En' in Ei. destruct (N.lt_ge_cases i (s_len st)) as [Li|Li].
  - unfold s_len in Li. rewrite nthN_app_lt in Ei by exact Li. rewrite (Q _ _ Ei Hi _ Hoff).
    replace (s_len st + 1 =? i) with false by (symmetry; apply N.eqb_neq; unfold s_len; lia). reflexivity.
  - rewrite (cnt_fresh _ _ _ K) by exact Li. unfold s_len in Li. rewrite nthN_app_ge in Ei by exact Li.
    unfold nthN in Ei. destruct (N.to_nat (i - lenN (s_nodes st))) as [|[|k]] eqn:Ek; cbn in Ei.
    + inversion Ei; subst nd. rewrite Hc in Hoff. lia.
    + inversion Ei; subst nd. rewrite Hl in Hoff. assert (off = 0) by lia. subst off.
      replace (s_len st + 1 =? i) with true by (symmetry; apply N.eqb_eq; unfold s_len; lia). reflexivity.
    + destruct k; discriminate.
Qed.

Lemma InOnce_order st st' a c : InOnce st -> s_nodes st' = s_nodes st ->
  (s_links st' = s_links st \/ s_links st' = s_links st ++ [olink a c]) -> InOnce st'.
Proof.
  intros Q En' El' i nd Ei Hi off Hoff. rewrite En' in Ei. destruct El' as [->| ->]; [eauto|].
  rewrite cnt_app, (Q _ _ Ei Hi _ Hoff), cnt_single. unfold into, olink. cbn [e_dst e_doff optN_eqb option_eqb].
  now rewrite andb_false_r.
Qed.

(* an operation replaced in place by one with as many value / static inputs; links unchanged *)
Lemma InOnce_set st st' n nd x : InOnce st -> nthN (s_nodes st) n = Some nd -> base_in (n_op x) = base_in (n_op nd) ->
  s_nodes st' = set_nth (s_nodes st) (N.to_nat n) x -> s_links st' = s_links st -> InOnce st'.
Proof.
  intros Q En Hb En' El' i nd' Ei Hi off Hoff. rewrite El'. rewrite En' in Ei. destruct (N.eq_dec i n) as [->|Hne].
  - rewrite nthN_set_nth_eq in Ei by (eapply nthN_lt; eauto). inversion Ei; subst nd'. rewrite Hb in Hoff. eauto.
  - rewrite nthN_set_nth_neq in Ei by exact Hne. eauto.
Qed.

(* DfBase.set_outputs: the Output node gets its ports wired, the container keeps its inputs *)
Lemma InOnce_close st1 st' p pp o o' ts ws new :
  InOnce st1 -> (forall off, cnt (s_links st1) (p + 2) off = 0) ->
  nthN (s_nodes st1) p = Some (mk o pp) -> p + 2 < lenN (s_nodes st1) -> base_in o' = base_in o ->
  WNew st1 (p + 2) 0 ws ts new -> s_links st' = s_links st1 ++ new ->
  s_nodes st' = set_nth (set_nth (s_nodes st1) (N.to_nat (p + 2)) (mk (Output ts) p)) (N.to_nat p) (mk o' pp) -> InOnce st'.
Proof.
  intros Q1 Hz Hp1 Lo Hb HW El' En' i nd Ei' Hi off Hoff. rewrite El', cnt_app, (WNew_cnt _ _ _ _ _ _ HW). rewrite En' in Ei'.
  destruct (N.eq_dec i p) as [->|Hip].
  - rewrite nthN_set_nth_eq in Ei' by (rewrite lenN_set_nth; lia). inversion Ei'; subst nd. cbn [mk n_op] in Hoff.
    replace (p =? p + 2) with false by (symmetry; apply N.eqb_neq; lia). cbn [andb]. rewrite N.add_0_r.
    eapply Q1; [exact Hp1|exact Hi|]. cbn [mk n_op]. now rewrite <- Hb.
  - rewrite nthN_set_nth_neq in Ei' by exact Hip.
    destruct (N.eq_dec i (p + 2)) as [->|Hio].
    + rewrite nthN_set_nth_eq in Ei' by exact Lo. inversion Ei'; subst nd. cbn [mk n_op] in Hoff.
      assert (Hbo : base_in (Output ts) = lenN ts) by (unfold base_in; cbn; lia). rewrite Hbo in Hoff.
      rewrite Hz, N.eqb_refl. cbn [andb].
      destruct (N.leb_spec 0 off); [|lia]. destruct (N.ltb_spec off (0 + lenN ts)); [reflexivity|lia].
    + rewrite nthN_set_nth_neq in Ei' by exact Hio.
      replace (i =? p + 2) with false by (symmetry; apply N.eqb_neq; lia). cbn [andb]. rewrite N.add_0_r. eauto.
Qed.

(* add_conditional: the Conditional node wired, its case blocks without input ports *)
Lemma case_blocks_base_in c others : forall rows pos j nd, nthN (case_blocks c others rows pos) j = Some nd -> base_in (n_op nd) = 0.
Proof.
  induction rows as [|r rest IH]; intros pos j nd H; [unfold nthN in H; destruct (N.to_nat j); discriminate|].
  cbn [case_blocks] in H. destruct (N.eq_dec j 0) as [->|H0]; [cbn in H; inversion H; reflexivity|].
  destruct (N.eq_dec j 1) as [->|H1]; [cbn in H; inversion H; reflexivity|].
  destruct (N.eq_dec j 2) as [->|H2]; [cbn in H; inversion H; reflexivity|].
  replace j with ((j - 3) + 3) in H by lia. rewrite nthN_S3 in H. eapply IH; eauto.
Qed.
Lemma InOnce_cond st st2 st3 ws ts new cnd blocks :
  InOnce st -> LinksOK st -> WNew st2 (s_len st) 0 ws ts new ->
  s_nodes st3 = s_nodes st ++ cnd :: blocks -> s_links st3 = s_links st ++ new ->
  base_in (n_op cnd) = lenN ts -> (forall j nd, nthN blocks j = Some nd -> base_in (n_op nd) = 0) -> InOnce st3.
Proof.
  intros Q K HW En3 El3 Hb Hbl i nd Ei Hi off Hoff. rewrite El3, cnt_app, (WNew_cnt _ _ _ _ _ _ HW). rewrite En3 in Ei.
  destruct (N.lt_ge_cases i (s_len st)) as [Li|Li].
  - unfold s_len in Li. rewrite nthN_app_lt in Ei by exact Li. rewrite (Q _ _ Ei Hi _ Hoff).
    replace (i =? s_len st) with false by (symmetry; apply N.eqb_neq; unfold s_len; lia). reflexivity.
  - rewrite (cnt_fresh _ _ _ K) by exact Li. unfold s_len in Li. rewrite nthN_app_ge in Ei by exact Li.
    destruct (N.eq_dec i (s_len st)) as [->|Hne].
    + unfold s_len in Ei. rewrite N.sub_diag in Ei. cbn in Ei. inversion Ei; subst nd. rewrite Hb in Hoff.
      rewrite N.eqb_refl. cbn [andb]. destruct (N.leb_spec 0 off); [|lia]. destruct (N.ltb_spec off (0 + lenN ts)); [reflexivity|lia].
    + unfold s_len in Hne. replace (i - lenN (s_nodes st)) with ((i - lenN (s_nodes st) - 1) + 1) in Ei by lia. rewrite nthN_S in Ei.
      rewrite (Hbl _ _ Ei) in Hoff. lia.
Qed.

(* Hugr.insert_hugr and the wiring of the inserted root *)
Lemma cnt_shift base es i off : cnt (map (shift_edge base) es) (base + i) off = cnt es i off.
Proof.
  unfold cnt. induction es as [|e es IH]; cbn [map countb]; [reflexivity|]. rewrite IH. f_equal.
  unfold into. cbn [shift_edge e_dst e_doff].
  replace (base + e_dst e =? base + i) with (e_dst e =? i); [reflexivity|].
  destruct (N.eqb_spec (e_dst e) i); symmetry; [apply N.eqb_eq|apply N.eqb_neq]; lia.
Qed.
Lemma cnt_shift_old base es i off : i < base -> cnt (map (shift_edge base) es) i off = 0.
Proof.
  intros L. apply countb_zero. intros e' Hin. apply in_map_iff in Hin. destruct Hin as (e & <- & _).
  unfold into. cbn [shift_edge e_dst]. replace (base + e_dst e =? i) with false; [reflexivity|]. symmetry. apply N.eqb_neq. lia.
Qed.
Lemma InOnce_insert st sti st1 st' parent ws ts new ro :
  InOnce st -> LinksOK st -> InOnce sti -> LinksPos sti -> nthN (s_nodes sti) 0 = Some (mk ro 0) -> base_in ro = lenN ts ->
  s_nodes st1 = s_nodes st ++ map (shiftn (s_len st) parent) (indexed (s_nodes sti)) ->
  s_links st1 = s_links st ++ map (shift_edge (s_len st)) (s_links sti) ->
  WNew st1 (s_len st) 0 ws ts new -> s_nodes st' = s_nodes st1 -> s_links st' = s_links st1 ++ new -> InOnce st'.
Proof.
  intros Q K Qi LPi Hro Hb A B HW En4 El4 i nd Ei Hi off Hoff.
  rewrite El4, B, !cnt_app, (WNew_cnt _ _ _ _ _ _ HW). rewrite En4, A in Ei.
  destruct (N.lt_ge_cases i (s_len st)) as [Li|Li].
  - unfold s_len in Li. rewrite nthN_app_lt in Ei by exact Li. rewrite (Q _ _ Ei Hi _ Hoff).
    rewrite cnt_shift_old by (unfold s_len; exact Li).
    replace (i =? s_len st) with false by (symmetry; apply N.eqb_neq; unfold s_len; lia). reflexivity.
  - rewrite (cnt_fresh _ _ _ K) by exact Li. unfold s_len in Li. rewrite nthN_app_ge in Ei by exact Li.
    rewrite nthN_shifted in Ei. destruct (nthN (s_nodes sti) (i - lenN (s_nodes st))) as [nd0|] eqn:E0; [|discriminate].
    cbn in Ei. inversion Ei; subst nd; clear Ei. unfold shiftn in Hoff. cbn [snd mk n_op] in Hoff.
    replace i with (s_len st + (i - lenN (s_nodes st))) by (unfold s_len; lia). rewrite cnt_shift.
    destruct (N.eq_dec (i - lenN (s_nodes st)) 0) as [Ez|Hnz].
    + rewrite Ez in *. rewrite Hro in E0. inversion E0; subst nd0. cbn [mk n_op] in Hoff. rewrite Hb in Hoff.
      rewrite N.add_0_r, N.eqb_refl. cbn [andb].
      assert (Hz : cnt (s_links sti) 0 off = 0).
      { apply countb_zero. intros e Hin. unfold LinksPos in LPi. rewrite forallb_forall in LPi. specialize (LPi _ Hin).
        apply andb_true_iff in LPi. destruct LPi as [_ P2]. unfold into. apply negb_true_iff in P2. now rewrite P2. }
      rewrite Hz. destruct (N.leb_spec 0 off); [|lia]. destruct (N.ltb_spec off (0 + lenN ts)); [reflexivity|lia].
    + rewrite (Qi _ _ E0 Hnz _ Hoff).
      replace (s_len st + (i - lenN (s_nodes st)) =? s_len st) with false by (symmetry; apply N.eqb_neq; lia). reflexivity.
Qed.
