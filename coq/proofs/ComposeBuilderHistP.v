(* C01 -> C02 with histories: "all HUGRs reachable by builder programs followed by arbitrary add/delete/insert
   mutation histories".  The builder model (model/Builder.v) and the store model of C04 (model/Graph.v) are two
   models of the same Hugr object; they meet at the public view (model/SerialHugr.v).  For any state h0 of the C04
   store that satisfies C04's invariant and whose view is the view of the store a well-typed builder program leaves
   behind, every history without index reuse whose link calls name ports the operations have yields a HUGR that
   round-trips -- for the builder's own operation literal, and through C05's concrete codec for any concretisation.
   The premise `Inv h0 /\ view h0 = bview ... st` is the interface between the two models (the builders act on the
   store through add_node / add_link / add_order_link, which keep C04's invariant; run/C02Run.v ties mutation
   histories applied to builder HUGRs to exactly such a state, rebuilt from the public queries). *)
From Coq Require Import NArith List Bool Arith ZArith Lia Permutation.
Import ListNotations.
From HV Require Import lib.PyDict lib.Harness model.BiMapM model.Graph spec.GraphS proofs.GraphP proofs.GraphInvP.
From HV Require Import model.Types model.SerialTypes model.Codec model.CodecVals model.CodecOps
  proofs.CodecOpsP proofs.CodecDocP proofs.CodecEqP.
From HV Require Import model.SerialHugr spec.SerialHugrS proofs.SerialHugrP proofs.SerialHugrOnP
  model.HugrHist spec.HugrHistS proofs.HugrHistP proofs.ComposeHistP
  model.ComposeOps proofs.ComposeOpsP model.ComposeDepth proofs.ComposeDepthP.
From HV Require model.Validity model.Builder spec.BuilderWFS proofs.BuilderP proofs.BuilderTypeP proofs.BuilderRulesP
  model.ComposeBuilder proofs.ComposeBuilderP proofs.ComposeBuilderOpsP proofs.ComposeReplayP.

Lemma view_AllOps {Op Meta} (P : Op -> Prop) (h : Graph.hugr Op Meta) : OpsIn P (view h) -> AllOps P h.
Proof.
  intros HP n d E. specialize (HP n (vnode d)). rewrite view_get, E in HP. exact (HP eq_refl).
Qed.

Section BuilderHist.
  Variable pc : nat -> nat * nat.
  Notation vop := Validity.vop.
  Notation vid := ComposeBuilderP.vid.
  Notation v_ndp := ComposeBuilder.v_ndp.
  Notation v_vports := ComposeBuilder.v_vports.
  Notation v_sports := ComposeBuilder.v_sports.
  Notation v_has_order := ComposeBuilder.v_has_order.
  Notation unit_is_nil := ComposeBuilder.unit_is_nil.

  (* the builder's own operation literal *)
  Theorem builder_then_history tys p st (h0 : Graph.hugr vop unit) (cs : list (hcmd vop unit)) :
    BuilderWFS.wt_prog tys p = true -> Builder.exec_prog tys p = Builder.Ok st ->
    Inv h0 -> view h0 = ComposeBuilder.bview vop vid pc st ->
    hist_ok h0 cs = true -> hist_on_ports v_vports v_sports v_has_order h0 cs = true ->
    all_return h0 cs = true /\
    exists s h', to_serial vid v_ndp unit_is_nil (view (hrun h0 cs)) = Some s /\
                 from_serial vid v_ndp tt s = Some h' /\ to_serial vid v_ndp unit_is_nil h' = Some s /\
                 Iso vid (view (hrun h0 cs)) h'.
  Proof.
    intros W E HI Ev HH HC.
    apply (state_roundtrip_on vop vop unit vid vid v_ndp tt unit_is_nil v_vports v_sports v_has_order
             ComposeBuilderP.v_ndp_spec eq_refl ComposeBuilderP.unit_nil_unique (fun _ => True)).
    - reflexivity.
    - reflexivity.
    - exact HI.
    - rewrite Ev. exact (ComposeBuilderP.builder_guard pc tys p st W E).
    - exact HH.
    - exact HC.
    - intros k d _. exact I.
    - clear. induction cs as [|c r IH]; constructor; [|exact IH].
      destruct c as [b|? ?|? ? src ?]; cbn; [destruct b; exact I|exact I|].
      split; [exact I|]. induction src as [|b r' IH']; constructor; [destruct b; exact I|exact IH'].
  Qed.

  (* end to end through C05's concrete codec *)
  Variable tyc : Validity.tyid -> ty.
  Variable nm : name.
  Notation conc := (ComposeBuilder.conc E0 tyc nm).
  Notation enc := (c_enc E0 E0 e0).
  Notation dec := (c_dec E0 E0 e0).
  Notation ndp := (c_ndp E0).
  Definition OK0 (o : op E0) : Prop := cop_ok_b E0 e0_ok o = true.

  Theorem builder_then_history_concrete tys p st (h0 : Graph.hugr (op E0) unit) (cs : list (hcmd (op E0) unit)) :
    BuilderWFS.wt_prog tys p = true -> Builder.exec_prog tys p = Builder.Ok st ->
    ComposeBuilderOpsP.ConstsOK E0 tyc nm e0_ok st ->
    Inv h0 -> view h0 = ComposeBuilder.bview (op E0) conc pc st ->
    hist_ok h0 cs = true -> hist_on_ports (c_vports E0 E0 e0) (c_sports E0 E0 e0) (c_has_order E0 E0 e0) h0 cs = true ->
    Forall (cmd_ops OK0) cs ->
    all_return h0 cs = true /\
    exists s h', to_serial enc ndp unit_is_nil (view (hrun h0 cs)) = Some s /\
                 from_serial dec ndp tt s = Some h' /\ to_serial enc ndp unit_is_nil h' = Some s /\
                 Iso enc (view (hrun h0 cs)) h'.
  Proof.
    intros W E HCs HI Ev HH HC F.
    assert (R : Builder.run tys p = Builder.Ok (Builder.to_serial st)) by (unfold Builder.run; now rewrite E).
    destruct (ComposeBuilderOpsP.builder_roundtrip_concrete tyc nm pc tys p _ W R) as [st' [E' K]].
    rewrite E in E'. injection E' as <-. destruct (K HCs) as [G [A _]].
    assert (OKs : forall o, OK0 o -> OpOK E0 e0_ok o).
    { unfold OK0, cop_ok_b. intros o Eo. now apply op_ok_OpOK. }
    apply (state_roundtrip_on (op E0) (sop E0) unit enc dec ndp tt unit_is_nil _ _ _ (c_ndp_spec E0 E0 e0)
             eq_refl ComposeBuilderP.unit_nil_unique OK0).
    - intros o Ho. exact (c_enc_dec_enc E0 E0 e0 e0 e0 e0_type e0_ok e0_rt o (OKs o Ho)).
    - intros o d Ho. exact (c_ndp_dec_enc E0 E0 e0 e0 e0 e0_type e0_ok e0_rt o d (OKs o Ho)).
    - exact HI.
    - rewrite Ev. exact G.
    - exact HH.
    - exact HC.
    - apply view_AllOps. rewrite Ev. intros i nd Hn.
      exact (ops_ok_In E0 unit e0_ok _ A i nd Hn).
    - exact F.
  Qed.
End BuilderHist.

(* ---- the interface premise discharged: the state is the replay of the builder's store (proofs/ComposeReplayP.v) ---- *)
Section BuilderHistTotal.
  Notation vop := Validity.vop.
  Notation vid := ComposeBuilderP.vid.
  Notation v_ndp := ComposeBuilder.v_ndp.
  Notation v_vports := ComposeBuilder.v_vports.
  Notation v_sports := ComposeBuilder.v_sports.
  Notation v_has_order := ComposeBuilder.v_has_order.
  Notation unit_is_nil := ComposeBuilder.unit_is_nil.
  Notation replay := (ComposeReplayP.replay vop vid).
  Notation pc_of := (ComposeReplayP.pc_of vop).

  (* every well-typed builder program that runs, followed by ANY mutation history without index reuse whose link calls
     name ports the operations have *)
  Theorem builder_then_history_total tys p st (cs : list (hcmd vop unit)) :
    BuilderWFS.wt_prog tys p = true -> Builder.exec_prog tys p = Builder.Ok st ->
    (Inv (replay st) /\ free (replay st) = [] /\
     view (replay st) = ComposeBuilder.bview vop vid (pc_of (replay st)) st) /\
    (hist_ok (replay st) cs = true -> hist_on_ports v_vports v_sports v_has_order (replay st) cs = true ->
     all_return (replay st) cs = true /\
     exists s h', to_serial vid v_ndp unit_is_nil (view (hrun (replay st) cs)) = Some s /\
                  from_serial vid v_ndp tt s = Some h' /\ to_serial vid v_ndp unit_is_nil h' = Some s /\
                  Iso vid (view (hrun (replay st) cs)) h').
  Proof.
    intros W E. pose proof (ComposeReplayP.replay_view vop vid st (proj1 (BuilderRulesP.exec_prog_frame tys p st E))) as R.
    split; [exact R|]. destruct R as (HI & _ & Ev). intros HH HC.
    exact (builder_then_history (pc_of (replay st)) tys p st (replay st) cs W E HI Ev HH HC).
  Qed.

  (* the syntactic premise: inside the store's guard, no node added after a node was deleted *)
  Theorem builder_then_history_syntactic tys p st (cs : list (hcmd vop unit)) :
    Builder.exec_prog tys p = Builder.Ok st ->
    hist_in_guard (replay st) cs = true -> no_add_after_delete cs = true -> hist_ok (replay st) cs = true.
  Proof.
    intros E HG HN. pose proof (ComposeReplayP.replay_view vop vid st (proj1 (BuilderRulesP.exec_prog_frame tys p st E))) as (_ & Hf & _).
    exact (no_add_after_delete_ok cs (replay st) Hf HG HN).
  Qed.

  (* ... and end to end through C05's concrete codec, for any concretisation of the builder's literals *)
  Variable tyc : Validity.tyid -> ty.
  Variable nm : name.
  Notation conc := (ComposeBuilder.conc E0 tyc nm).
  Notation creplay := (ComposeReplayP.replay (op E0) conc).
  Theorem builder_then_history_concrete_total tys p st (cs : list (hcmd (op E0) unit)) :
    BuilderWFS.wt_prog tys p = true -> Builder.exec_prog tys p = Builder.Ok st ->
    ComposeBuilderOpsP.ConstsOK E0 tyc nm e0_ok st ->
    (Inv (creplay st) /\ free (creplay st) = [] /\
     view (creplay st) = ComposeBuilder.bview (op E0) conc (ComposeReplayP.pc_of (op E0) (creplay st)) st) /\
    (hist_ok (creplay st) cs = true ->
     hist_on_ports (c_vports E0 E0 e0) (c_sports E0 E0 e0) (c_has_order E0 E0 e0) (creplay st) cs = true ->
     Forall (cmd_ops OK0) cs ->
     all_return (creplay st) cs = true /\
     exists s h', to_serial (c_enc E0 E0 e0) (c_ndp E0) unit_is_nil (view (hrun (creplay st) cs)) = Some s /\
                  from_serial (c_dec E0 E0 e0) (c_ndp E0) tt s = Some h' /\
                  to_serial (c_enc E0 E0 e0) (c_ndp E0) unit_is_nil h' = Some s /\
                  Iso (c_enc E0 E0 e0) (view (hrun (creplay st) cs)) h').
  Proof.
    intros W E HCs.
    pose proof (ComposeReplayP.replay_view (op E0) conc st (proj1 (BuilderRulesP.exec_prog_frame tys p st E))) as R.
    split; [exact R|]. destruct R as (HI & _ & Ev). intros HH HC F.
    exact (builder_then_history_concrete _ tyc nm tys p st (creplay st) cs W E HCs HI Ev HH HC F).
  Qed.
End BuilderHistTotal.

(* ---- non-vacuity: the 13-node builder program of C01_wf_example (0 DFG, 1 Input, 2 Output, 3 Const, 4 LoadConst, 5 nested
   DFG, 6 its Input, 7 its Output, 8-12 leaves), then a history: add a leaf under the nested DFG, link the nested Input to
   it, add an order link to the nested Output, assign metadata, delete the link, add it again, delete the node: the
   premises hold and the final HUGR has a hole at index 13 ---- *)
Module BuilderHistWitness.
  Import Validity.
  Definition st : Builder.store :=
    match Builder.exec_prog BuilderTypeP.ex2_tys BuilderTypeP.ex2_prog with Builder.Ok s => s | Builder.Err _ => Builder.new_store Module end.
  Definition h0 := ComposeReplayP.replay vop ComposeBuilderP.vid st.
  Definition cs : list (hcmd vop unit) :=
    [ HB (AddNode (ExtOp [0%N] [0%N]) (Some 5) None tt);           (* node 13: a new leaf under the nested DFG (node 5) *)
      HB (AddLink (6, 0%Z) (13, 0%Z));                              (* from the nested region's Input (node 6) *)
      HB (AddOrder 13 7);                                           (* order link to the nested Output (node 7) *)
      HSetMeta 13 tt;
      HB (DelLink (6, 0%Z) (13, 0%Z));
      HB (AddLink (6, 0%Z) (13, 0%Z));
      HB (DelNode 13) ].
End BuilderHistWitness.
Lemma builder_history_example :
  BuilderWFS.wt_prog BuilderTypeP.ex2_tys BuilderTypeP.ex2_prog = true /\
  Builder.exec_prog BuilderTypeP.ex2_tys BuilderTypeP.ex2_prog = Builder.Ok BuilderHistWitness.st /\
  hist_ok BuilderHistWitness.h0 BuilderHistWitness.cs = true /\
  hist_on_ports ComposeBuilder.v_vports ComposeBuilder.v_sports ComposeBuilder.v_has_order
                BuilderHistWitness.h0 BuilderHistWitness.cs = true /\
  no_add_after_delete BuilderHistWitness.cs = true /\
  length (h_nodes (view (hrun BuilderHistWitness.h0 BuilderHistWitness.cs))) = 14 /\
  is_live (view (hrun BuilderHistWitness.h0 BuilderHistWitness.cs)) 13 = false /\
  length (h_links (view BuilderHistWitness.h0)) = length (h_links (view (hrun BuilderHistWitness.h0 BuilderHistWitness.cs))).
Proof. repeat split; vm_compute; reflexivity. Qed.
