(* C02 histories over C05's concrete operations, at any nesting depth of function-valued constants:
   Hugr(root_op) followed by any list of public mutator calls without index reuse whose link calls name ports the
   operations have, every operation handed to Hugr / add_node / add_const / insert_hugr inside C05's domain
   (cop_ok_b: op_ok and tag_ok) -- the HUGR the queries show round-trips through the concrete codec.  No hypothesis
   about operations. *)
From Coq Require Import NArith List Bool Arith ZArith Lia Permutation.
Import ListNotations.
From HV Require Import lib.PyDict lib.Harness model.BiMapM model.Graph spec.GraphS proofs.GraphP proofs.GraphInvP.
From HV Require Import model.Types model.SerialTypes model.Codec model.CodecVals model.CodecOps
  proofs.CodecOpsP proofs.CodecEqP.
From HV Require Import model.SerialHugr spec.SerialHugrS proofs.SerialHugrP proofs.SerialHugrOnP
  model.HugrHist spec.HugrHistS proofs.HugrHistP proofs.ComposeHistP
  model.ComposeOps proofs.ComposeOpsP model.ComposeDepth proofs.ComposeDepthP.

Section HistOps.
  Variable md : Type.
  Variable md_nil : md.
  Variable md_is_nil : md -> bool.
  Hypothesis md_nil_is_nil : md_is_nil md_nil = true.
  Hypothesis md_nil_unique : forall m, md_is_nil m = true -> m = md_nil.
  Variable n : nat.

  Notation HTn := (HT md n).
  Notation STn := (ST md n).
  Notation enc := (c_enc HTn STn (encT md md_is_nil n)).
  Notation dec := (c_dec HTn STn (decT md md_nil n)).
  Notation ndp := (c_ndp HTn).
  Notation okb := (cop_ok_b HTn (okT md md_is_nil n)).
  Definition OKn (o : op HTn) : Prop := okb o = true.

  Lemma OKn_OpOK o : OKn o -> OpOK HTn (okT md md_is_nil n) o.
  Proof. unfold OKn, cop_ok_b. intros E. now apply op_ok_OpOK. Qed.

  Theorem history_roundtrip_concrete (o : op HTn) (m : md) (cs : list (hcmd (op HTn) md)) :
    hist_ok (init o m) cs = true ->
    hist_on_ports (vportsT md md_is_nil n) (sportsT md md_is_nil n) (has_orderT md md_is_nil n) (init o m) cs = true ->
    okb o = true -> Forall (cmd_ops OKn) cs ->
    all_return (init o m) cs = true /\
    exists s h', to_serial enc ndp md_is_nil (view (hrun (init o m) cs)) = Some s /\
                 from_serial dec ndp md_nil s = Some h' /\ to_serial enc ndp md_is_nil h' = Some s /\
                 Iso enc (view (hrun (init o m) cs)) h'.
  Proof.
    intros HH HC Ho F. destruct (init_inv o m) as [HI _].
    pose proof (tower_rt md md_nil md_is_nil md_nil_is_nil md_nil_unique n) as RTn.
    apply (state_roundtrip_on (op HTn) (sop STn) md enc dec ndp md_nil md_is_nil _ _ _
             (c_ndp_spec HTn STn (encT md md_is_nil n)) md_nil_is_nil md_nil_unique OKn).
    - intros o' Ho'. exact (c_enc_dec_enc HTn STn _ _ _ _ _ RTn o' (OKn_OpOK o' Ho')).
    - intros o' d Ho'. exact (c_ndp_dec_enc HTn STn _ _ _ _ _ RTn o' d (OKn_OpOK o' Ho')).
    - exact HI.
    - unfold guard_b. rewrite (ord_index_ordered _ HI (init_Ord o m)). cbn [andb].
      apply PE_ports_exist. apply init_PE.
    - exact HH.
    - exact HC.
    - now apply init_AllOps.
    - exact F.
  Qed.
End HistOps.
