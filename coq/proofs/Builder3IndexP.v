(* C01 (fourth pass) — rules 0 (index sanity) and 6 (the root has no edges) for EVERY program of the third builder
   language (model/Builder3.v: functions, modules, control-flow graphs, everything of Builder2), with NO premise:

   W0: parents have smaller indices, link ends exist, no link touches node 0, node 0 is its own parent — kept by every
   primitive step of the graph store (Hugr.add_node refuses a missing parent, add_link a missing end; the builders only
   ever link nodes they created after the root or found in the interpreter's dictionaries, which never name the root). *)
From Coq Require Import NArith List Bool Arith Lia.
Import ListNotations.
From HV Require Import lib.Harness model.Validity model.Builder model.Builder2 model.Builder3 spec.BuilderS
  proofs.BuilderP proofs.BuilderExtP proofs.BuilderFrameP proofs.BuilderRulesP proofs.Builder2UnfoldP proofs.Builder2InvP proofs.Builder2P
  spec.Builder2WFS proofs.Builder2FrameP proofs.Builder3UnfoldP.
Local Open Scope N_scope.

Definition W0 (st : store) : Prop :=
  bounded (s_nodes st) = true /\ LinksOK st /\ LinksPos st /\ root_ok2 (s_nodes st).

Lemma bounded_parents_from : forall (l l' : list vnode) k, map n_parent l = map n_parent l' ->
  forallb (fun x => (fst x =? 0) || (n_parent (snd x) <? fst x)) (index_from l k) =
  forallb (fun x => (fst x =? 0) || (n_parent (snd x) <? fst x)) (index_from l' k).
Proof.
  induction l as [|x l IH]; intros [|y l'] k H; try discriminate; [reflexivity|].
  cbn in H. inversion H as [[H1 H2]]. cbn [index_from forallb fst snd]. now rewrite H1, (IH l' (k + 1) H2).
Qed.
Lemma bounded_parents l l' : map n_parent l = map n_parent l' -> bounded l = bounded l'.
Proof. apply bounded_parents_from. Qed.
Lemma map_set_nth_same {A B} (f : A -> B) : forall (l : list A) n x y, nth_error l n = Some y -> f x = f y -> map f (set_nth l n x) = map f l.
Proof.
  induction l as [|a l IH]; intros [|n] x y H E; cbn in *; try discriminate.
  - inversion H; subst. now rewrite E.
  - now rewrite (IH _ _ _ H E).
Qed.

Lemma W0_pos st : W0 st -> 0 < s_len st.
Proof. intros (_ & _ & _ & (r & rest & Er & _)). unfold s_len. rewrite Er, lenN_cons. lia. Qed.

Lemma W0_add_node st o p st' n : add_node st o p = Ok (st', n) -> W0 st -> W0 st' /\ n = s_len st /\ 0 < n /\ s_len st' = s_len st + 1.
Proof.
  intros H W. pose proof (W0_pos _ W) as P. destruct W as (B & K & LP & R).
  apply add_node_ok in H. destruct H as (Lp & -> & En & El).
  split; [|split; [reflexivity|split; [exact P|rewrite (s_len_app2 _ _ _ En); reflexivity]]].
  split; [rewrite En; now apply bounded_app|]. split; [eapply LinksOK_grow; eauto|]. split; [unfold LinksPos; now rewrite El|].
  rewrite En. now apply root_ok2_app.
Qed.
Lemma W0_set_op st n o st' : set_op st n o = Ok st' -> W0 st -> W0 st' /\ s_len st' = s_len st.
Proof.
  intros H (B & K & LP & R). destruct (set_op_ok _ _ _ _ H) as (nd & Hn & En & El).
  assert (Em : map n_parent (s_nodes st') = map n_parent (s_nodes st)).
  { rewrite En. apply (map_set_nth_same n_parent _ _ _ nd); [exact Hn|reflexivity]. }
  assert (Ll : s_len st' = s_len st) by (unfold s_len; now rewrite En, lenN_set_nth).
  split; [|exact Ll]. split; [rewrite (bounded_parents _ _ Em); exact B|]. split; [|split; [unfold LinksPos; now rewrite El|]].
  - unfold LinksOK. rewrite El, Ll. exact K.
  - destruct R as (r & rest & Er & Hr). rewrite En, Er. destruct (N.to_nat n) as [|k] eqn:Ek; cbn [set_nth].
    + eexists _, _. split; [reflexivity|]. cbn [mk n_parent]. unfold nthN in Hn. rewrite Ek, Er in Hn. cbn in Hn. now inversion Hn; subst.
    + eexists _, _. split; [reflexivity|exact Hr].
Qed.
Lemma W0_add_link st s so d do_ st' : add_link st s so d do_ = Ok st' -> 0 < s -> 0 < d -> W0 st -> W0 st' /\ s_len st' = s_len st.
Proof.
  intros H Ps Pd (B & K & LP & R). destruct (add_link_lt st s so d do_ st' H) as [L1 L2]. apply add_link_ok in H. destruct H as [En El].
  assert (Ll : s_len st' = s_len st) by (now apply s_len_nodes).
  split; [|exact Ll]. split; [now rewrite En|]. split; [|split; [|now rewrite En]].
  - unfold LinksOK. rewrite El, Ll, forallb_app. apply andb_true_iff. split; [exact K|]. cbn. rewrite andb_true_r.
    apply andb_true_iff. split; now apply N.ltb_lt.
  - eapply LinksPos_app; [exact El|exact LP|]. cbn. rewrite andb_true_r. apply andb_true_iff. split; apply negb_true_iff, N.eqb_neq; lia.
Qed.
Lemma W0_order_link st a c st' : add_order_link st a c = Ok st' -> 0 < a -> 0 < c -> W0 st -> W0 st' /\ s_len st' = s_len st.
Proof.
  unfold add_order_link. destruct (existsb _ _); intros H; [inversion H; subst; auto|]. exact (W0_add_link _ _ _ _ _ _ H).
Qed.
Lemma anc_sib_pos3 st s t a : anc_sib st s t = Some a -> 0 < a.
Proof. intros H. pose proof (anc_sib_pos _ _ _ _ H). lia. Qed.
Lemma W0_wire_up_port_blk cfg st node i w st' t : wire_up_port_blk cfg st node i w = Ok (st', t) ->
  0 < fst w -> 0 < node -> W0 st -> W0 st' /\ s_len st' = s_len st.
Proof.
  unfold wire_up_port_blk. intros H Pw Pn W. destruct (anc_sib st (fst w) node) as [a|] eqn:EA.
  - bd H. rename v into st1. bd H. rename v into st2. bd H. inversion H; subst; clear H.
    assert (W1 : W0 st1 /\ s_len st1 = s_len st).
    { destruct (a =? node); [inversion E; subst; auto|]. eapply W0_order_link; eauto. eapply anc_sib_pos3; eauto. }
    destruct W1 as [W1 L1]. destruct (W0_add_link _ _ _ _ _ _ E0 Pw Pn W1) as [W2 L2]. split; [exact W2|lia].
  - destruct (up_to_cfg _ _ _ _); [|discriminate]. bd H. rename v into st2. bd H. inversion H; subst; clear H.
    eapply W0_add_link; eauto.
Qed.
Lemma W0_wire_up_from_blk cfg node : forall ws st i st' ts, wire_up_from_blk cfg st node i ws = Ok (st', ts) ->
  (forall w, In w ws -> 0 < fst w) -> 0 < node -> W0 st -> W0 st' /\ s_len st' = s_len st.
Proof.
  induction ws as [|w r IH]; intros st i st' ts H Hw Pn W; cbn [wire_up_from_blk] in H; [inversion H; subst; auto|].
  bd H. destruct v as [st1 t]. cbn [fst snd] in H. bd H. destruct v as [st2 ts2]. cbn [fst snd] in H. inversion H; subst; clear H.
  destruct (W0_wire_up_port_blk _ _ _ _ _ _ _ E (Hw w (or_introl eq_refl)) Pn W) as [W1 L1].
  destruct (IH _ _ _ _ E0 (fun w' Hw' => Hw w' (or_intror Hw')) Pn W1) as [W2 L2]. split; [exact W2|lia].
Qed.
Lemma W0_wire_up st node ws st' ts : wire_up st node ws = Ok (st', ts) ->
  (forall w, In w ws -> 0 < fst w) -> 0 < node -> W0 st -> W0 st' /\ s_len st' = s_len st.
Proof.
  intros H Hw Pn (B & K & LP & R). pose proof (wire_up_from_frame _ _ _ _ _ _ H) as F.
  apply wire_up_spec in H. destruct H as (En & new & El & HW).
  split; [|now apply s_len_nodes]. split; [now rewrite En|]. split; [exact (proj2 F K)|]. split; [|now rewrite En].
  eapply LinksPos_app; [exact El|exact LP|]. eapply WNew_pos; eauto.
Qed.
Lemma W0_wire_up3 cf st node ws st' ts : wire_up3 cf st node ws = Ok (st', ts) ->
  (forall w, In w ws -> 0 < fst w) -> 0 < node -> W0 st -> W0 st' /\ s_len st' = s_len st.
Proof. destruct cf as [cfg|]; cbn [wire_up3]; [apply W0_wire_up_from_blk|apply W0_wire_up]. Qed.

Definition BPos (b : dfb) : Prop := 0 < b_in b /\ 0 < b_out b.
Lemma W0_init_io st p ins st' b : init_io st p ins = Ok (st', b) -> W0 st -> W0 st' /\ BPos b /\ b_parent b = p /\ s_len st < s_len st'.
Proof.
  intros H W. destruct (init_io_inv _ _ _ _ _ H) as (st1 & i & o & A1 & A2 & ->).
  destruct (W0_add_node _ _ _ _ _ A1 W) as (W1 & -> & P1 & L1). destruct (W0_add_node _ _ _ _ _ A2 W1) as (W2 & -> & P2 & L2).
  split; [exact W2|]. split; [split; assumption|]. split; [reflexivity|lia].
Qed.
Lemma W0_make_cases others : forall rows st c st' bs, make_cases st c rows others = Ok (st', bs) -> W0 st ->
  W0 st' /\ (forall cb f, In (cb, f) bs -> BPos cb) /\ s_len st <= s_len st'.
Proof.
  induction rows as [|r rest IH]; intros st c st' bs H W; cbn [make_cases] in H.
  - inversion H; subst. split; [exact W|]. split; [intros cb f []|lia].
  - bd H. destruct v as [st1 n]. cbn [fst snd] in H. bd H. destruct v as [st3 io]. cbn [fst snd] in H.
    bd H. destruct v as [st4 bs4]. cbn [fst snd] in H. inversion H; subst; clear H.
    destruct (W0_add_node _ _ _ _ _ E W) as (W1 & _ & _ & L1). destruct (W0_init_io _ _ _ _ _ E0 W1) as (W3 & BP & _ & L3).
    destruct (IH _ _ _ _ E1 W3) as (W4 & F4 & L4). split; [exact W4|]. split; [|lia].
    intros cb f [Hin|Hin]; [inversion Hin; subst; exact BP|eauto].
Qed.
Lemma W0_insert_nodes parent : forall l st m i st' m', insert_nodes st parent m l i = Ok (st', m') -> W0 st ->
  (forall x, In x m -> 0 < x) -> W0 st' /\ (forall x, In x m' -> 0 < x).
Proof.
  induction l as [|nd r IH]; intros st m i st' m' H W Hm; cbn [insert_nodes] in H; [inversion H; subst; auto|].
  bd H. bd H. destruct v0 as [st1 n1]. cbn [fst snd] in H. destruct (W0_add_node _ _ _ _ _ E0 W) as (W1 & _ & P1 & _).
  eapply IH; [exact H|exact W1|]. intros x Hx. apply in_app_or in Hx. destruct Hx as [Hx|[<-|[]]]; auto.
Qed.
Lemma W0_insert_links : forall l st m st', insert_links st m l = Ok st' -> (forall x, In x m -> 0 < x) -> W0 st -> W0 st'.
Proof.
  induction l as [|e r IH]; intros st m st' H Hm W; cbn [insert_links] in H; [inversion H; subst; exact W|].
  destruct (nthN m (e_src e)) as [s|] eqn:Es; [|discriminate]. destruct (nthN m (e_dst e)) as [d|] eqn:Ed; [|discriminate]. bd H.
  eapply IH; [exact H|exact Hm|]. eapply W0_add_link; eauto; apply Hm; eapply nthN_In; eauto.
Qed.
Lemma W0_insert_hugr st inner parent st' m : insert_hugr st inner parent = Ok (st', m) -> W0 st ->
  W0 st' /\ forall r, nthN m 0 = Some r -> 0 < r.
Proof.
  intros H W. destruct (insert_hugr_inv _ _ _ _ _ H) as (st1 & E1 & E2).
  destruct (W0_insert_nodes _ _ _ _ _ _ _ E1 W (fun x (F : In x []) => match F with end)) as [W1 Hm].
  split; [eapply W0_insert_links; eauto|]. intros r Hr. apply Hm. eapply nthN_In; eauto.
Qed.
Lemma W0_update_outputs st c cur ts st' cur' : update_outputs st c cur ts = Ok (st', cur') -> W0 st -> W0 st'.
Proof.
  intros H W. destruct (update_outputs_inv _ _ _ _ _ _ H) as [(_ & _ & rows & others & o & s & _ & Es)|(_ & _ & ->)]; [|exact W].
  exact (proj1 (W0_set_op _ _ _ _ Es W)).
Qed.

(* ------------------------------------------------------------------ the interpreter's dictionaries never name the root *)
Definition EnvPos3 (e : env3) : Prop :=
  EnvPos (e_env e) /\ (forall f n, In (f, n) (e_funcs e) -> 0 < n) /\ (forall n, In n (e_consts e) -> 0 < n).
Lemma EnvPos3_bind3 e id n rs : EnvPos3 e -> 0 < n -> EnvPos3 (bind3 e id n rs).
Proof. intros (A & B & C) P. split; [cbn [bind3 with_env e_env]; now apply EnvPos_bind|auto]. Qed.
Lemma EnvPos3_with_in e n ws : EnvPos3 e -> 0 < n -> EnvPos3 (with_env e (bind_outs (e_env e) n ws)).
Proof. intros (A & B & C) P. split; [cbn [with_env e_env]; now apply EnvPos_bind_in|auto]. Qed.
Lemma EnvPos3_bind_fn e f n : EnvPos3 e -> 0 < n -> EnvPos3 (bind_fn e f n).
Proof. intros (A & B & C) P. split; [exact A|]. split; [|exact C]. intros g m [H|H]; [inversion H; subst; exact P|eauto]. Qed.
Lemma get_fn_pos e f n : EnvPos3 e -> get_fn e f = Ok n -> 0 < n.
Proof.
  intros (_ & B & _). unfold get_fn. destruct (lookup (e_funcs e) f) as [m|] eqn:E; [|discriminate]. intros H. inversion H; subst.
  eapply B. eapply lookup_In; eauto.
Qed.

Section Index3.
  Variable tys : list tyinfo.
  Variable sigs : list sinfo.

  Lemma W0_set_outputs3 cf st b ws st' : set_outputs3 tys sigs cf st b ws = Ok st' -> (forall w, In w ws -> 0 < fst w) -> BPos b ->
    W0 st -> W0 st'.
  Proof.
    unfold set_outputs3. intros H Hw [_ Po] W. bd H. destruct v as [st0 ts]. cbn [fst snd] in H. bd H. rename v into st1.
    destruct (s_op st1 (b_parent b)) as [po|]; [|discriminate]. bd H. rename v into po'.
    destruct (W0_wire_up3 _ _ _ _ _ _ E Hw Po W) as [Wa _]. destruct (W0_set_op _ _ _ _ E0 Wa) as [Wb _].
    exact (proj1 (W0_set_op _ _ _ _ H Wb)).
  Qed.

  Record CPos (cb : cfgb) : Prop := { cp_entry : BPos (c_entry cb); cp_exit : 0 < c_exit cb; cp_enode : 0 < b_parent (c_entry cb) }.
  Lemma W0_init_cfg st cfg ins st' cb : init_cfg st cfg ins = Ok (st', cb) -> W0 st -> W0 st' /\ CPos cb /\ c_node cb = cfg.
  Proof.
    unfold init_cfg. intros H W. bd H. destruct v as [st1 n]. cbn [fst snd] in H. bd H. destruct v as [st3 io]. cbn [fst snd] in H.
    bd H. destruct v as [st4 x]. cbn [fst snd] in H. inversion H; subst; clear H.
    destruct (W0_add_node _ _ _ _ _ E W) as (W1 & _ & P1 & _). destruct (W0_init_io _ _ _ _ _ E0 W1) as (W3 & BP & Hp & _).
    destruct (W0_add_node _ _ _ _ _ E1 W3) as (W4 & _ & P4 & _). split; [exact W4|]. split; [|reflexivity].
    constructor; cbn [c_entry c_exit]; [exact BP|exact P4|now rewrite Hp].
  Qed.
  Lemma W0_branch_exit st cb cs p st' cs' : branch_exit st cb cs p = Ok (st', cs') -> 0 < fst p -> CPos cb -> W0 st -> W0 st'.
  Proof.
    unfold branch_exit. intros H Pp [_ Px _] W. bd H. rename v into st1. bd H. rename v into rows.
    destruct (W0_add_link _ _ _ _ _ _ E Pp Px W) as [W1 _].
    destruct (cs_outs cs) as [o|]; [destruct (row_eqb o rows); inversion H; subst; exact W1|].
    bd H. rename v into st2. destruct (W0_set_op _ _ _ _ E1 W1) as [W2 _].
    destruct (s_op st2 (c_node cb)) as [[]|]; try discriminate. bd H. inversion H; subst. exact (proj1 (W0_set_op _ _ _ _ E2 W2)).
  Qed.
  Lemma W0_do_branches : forall l st e cb cs st' cs', do_branches st e cb cs l = Ok (st', cs') -> EnvPos3 e -> CPos cb -> W0 st -> W0 st'.
  Proof.
    induction l as [|br r IH]; intros st e cb cs st' cs' H EP CP W; cbn [do_branches] in H; [inversion H; subst; exact W|].
    bd H. destruct v as [st1 cs1]. cbn [fst snd] in H. eapply IH; [exact H|exact EP|exact CP|].
    unfold do_branch in E. bd E. rename v into p. pose proof (get_wire_pos2 _ _ _ (proj1 EP) E0) as Pp.
    destruct (snd br) as [s|]; [|eapply W0_branch_exit; eauto].
    destruct (lookup (e_stmts (e_env e)) s) as [n|] eqn:En; [|discriminate].
    destruct (n =? c_exit cb); [eapply W0_branch_exit; eauto|]. bd E. inversion E; subst.
    eapply W0_add_link; eauto. apply lookup_In in En. exact (proj2 (proj1 EP) _ _ En).
  Qed.
  Lemma W0_add_consts : forall vs st e st' e', add_consts vs st e = Ok (st', e') -> W0 st -> EnvPos3 e -> W0 st' /\ EnvPos3 e'.
  Proof.
    induction vs as [|v r IH]; intros st e st' e' H W EP; cbn [add_consts] in H; [inversion H; subst; auto|].
    bd H. destruct v0 as [st1 n]. cbn [fst snd] in H. destruct (W0_add_node _ _ _ _ _ E W) as (W1 & _ & P1 & _).
    eapply IH; [exact H|exact W1|]. destruct EP as (A & B & C). split; [exact A|]. split; [exact B|].
    intros m Hm. cbn [bind_const e_consts] in Hm. apply in_app_or in Hm. destruct Hm as [Hm|[<-|[]]]; auto.
  Qed.
  Lemma W0_decl_funcs : forall fs st e st' e' bs, decl_funcs sigs fs st e = Ok (st', e', bs) -> W0 st -> EnvPos3 e ->
    W0 st' /\ EnvPos3 e' /\ forall b, In (Some b) bs -> BPos b.
  Proof.
    induction fs as [|f sg rest IH|f params ins douts body rest IH]; intros st e st' e' bs H W EP; cbn [decl_funcs] in H.
    - inversion H; subst. split; [exact W|]. split; [exact EP|intros b []].
    - bd H. destruct v as [st1 n]. cbn [fst snd] in H. bd H. destruct v as [[st2 e2] bs2]. inversion H; subst; clear H.
      destruct (W0_add_node _ _ _ _ _ E W) as (W1 & _ & P1 & _).
      destruct (IH _ _ _ _ _ E0 W1 (EnvPos3_bind_fn _ _ _ EP P1)) as (W2 & EP2 & F2).
      split; [exact W2|]. split; [exact EP2|]. intros b [Q|Q]; [discriminate Q|eauto].
    - bd H. rename v into o. bd H. destruct v as [st1 n]. cbn [fst snd] in H. bd H. destruct v as [st3 io]. cbn [fst snd] in H.
      bd H. destruct v as [[st4 e4] bs4]. inversion H; subst; clear H.
      destruct (W0_add_node _ _ _ _ _ E0 W) as (W1 & _ & P1 & _). destruct (W0_init_io _ _ _ _ _ E1 W1) as (W3 & BP & _ & _).
      destruct (IH _ _ _ _ _ E2 W3 (EnvPos3_bind_fn _ _ _ EP P1)) as (W4 & EP4 & F4).
      split; [exact W4|]. split; [exact EP4|]. intros b [Q|Q]; [inversion Q; subst; exact BP|eauto].
  Qed.

  Definition I_stmt (s : stmt3) : Prop := forall cf b st e st' e',
    exec_stmt3 tys sigs s cf b st e = Ok (st', e') -> W0 st -> EnvPos3 e -> BPos b -> W0 st' /\ EnvPos3 e'.
  Definition I_region (r : region3) : Prop := forall single cf b st e st' e',
    exec_region3 tys sigs r single cf b st e = Ok (st', e') -> W0 st -> EnvPos3 e -> BPos b -> W0 st' /\ EnvPos3 e'.
  Definition I_stmts (l : stmts3) : Prop := forall cf b st e st' e',
    exec_stmts3 tys sigs l cf b st e = Ok (st', e') -> W0 st -> EnvPos3 e -> BPos b -> W0 st' /\ EnvPos3 e'.
  Definition I_cases (cs : cases3) : Prop := forall c bs cur st e st' e' bs' cur',
    exec_cases3 tys sigs cs c bs cur st e = Ok (st', e', bs', cur') -> W0 st -> EnvPos3 e -> (forall cb f, In (cb, f) bs -> BPos cb) ->
    W0 st' /\ EnvPos3 e'.
  Definition I_blocks (bl : blocks3) : Prop := forall cb ent st e st' e' ent',
    exec_blocks3 tys sigs bl cb ent st e = Ok (st', e', ent') -> W0 st -> EnvPos3 e -> CPos cb -> W0 st' /\ EnvPos3 e'.
  Definition I_prog (p : prog3) : Prop := forall e st' e',
    exec_prog3 tys sigs p e = Ok (st', e') -> EnvPos3 e -> W0 st' /\ EnvPos3 e'.
  Definition I_funcs (fs : funcs3) : Prop := forall bs st e st' e',
    exec_funcs3 tys sigs fs bs st e = Ok (st', e') -> W0 st -> EnvPos3 e -> (forall b, In (Some b) bs -> BPos b) -> W0 st' /\ EnvPos3 e'.

  Scheme stmt3_mut := Induction for stmt3 Sort Prop
    with region3_mut := Induction for region3 Sort Prop
    with stmts3_mut := Induction for stmts3 Sort Prop
    with cases3_mut := Induction for cases3 Sort Prop
    with blocks3_mut := Induction for blocks3 Sort Prop
    with prog3_mut := Induction for prog3 Sort Prop
    with funcs3_mut := Induction for funcs3 Sort Prop.
  Combined Scheme prog3_mutind from stmt3_mut, region3_mut, stmts3_mut, cases3_mut, blocks3_mut, prog3_mut, funcs3_mut.

  Lemma new_store_W0 o : W0 (new_store o).
  Proof. split; [reflexivity|]. split; [reflexivity|]. split; [reflexivity|]. eexists _, _. split; reflexivity. Qed.

  Lemma exec3_index : (forall s, I_stmt s) /\ (forall r, I_region r) /\ (forall l, I_stmts l) /\ (forall cs, I_cases cs) /\
    (forall bl, I_blocks bl) /\ (forall p, I_prog p) /\ (forall fs, I_funcs fs).
  Proof.
    apply prog3_mutind; unfold I_stmt, I_region, I_stmts, I_cases, I_blocks, I_prog, I_funcs.
    - (* UOp *)
      intros id o args rs cf b st e st' e' H W EP BP. rewrite exec_stmt3_UOp in H. bd H. rename v into ws. bd H. destruct v as [st1 n].
      cbn [fst snd] in H. bd H. destruct v as [st2 ts]. cbn [fst snd] in H. bd H. bd H. inversion H; subst; clear H.
      destruct (W0_add_node _ _ _ _ _ E0 W) as (W1 & _ & P1 & _).
      destruct (W0_wire_up3 _ _ _ _ _ _ E1 (get_wires_pos2 _ _ _ (proj1 EP) E) P1 W1) as [W2 _].
      split; [exact (proj1 (W0_set_op _ _ _ _ E3 W2))|now apply EnvPos3_bind3].
    - (* ULoad *)
      intros id v cp r cf b st e st' e' H W EP BP. rewrite exec_stmt3_ULoad in H. bd H. destruct v0 as [st1 c]. cbn [fst snd] in H.
      bd H. destruct v0 as [st2 l]. cbn [fst snd] in H. bd H. inversion H; subst; clear H.
      destruct (W0_add_node _ _ _ _ _ E W) as (W1 & _ & P1 & _). destruct (W0_add_node _ _ _ _ _ E0 W1) as (W2 & _ & P2 & _).
      split; [exact (proj1 (W0_add_link _ _ _ _ _ _ E1 P1 P2 W2))|now apply EnvPos3_bind3].
    - (* UNested *)
      intros id args body IH rs cf b st e st' e' H W EP BP. rewrite exec_stmt3_UNested in H. bd H. rename v into ws. bd H. bd H.
      destruct v0 as [st1 d]. cbn [fst snd] in H. bd H. destruct v0 as [st3 io]. cbn [fst snd] in H. bd H. destruct v0 as [st4 ts4].
      cbn [fst snd] in H. bd H. destruct v0 as [st5 e5]. cbn [fst snd] in H. inversion H; subst; clear H.
      destruct (W0_add_node _ _ _ _ _ E1 W) as (W1 & _ & P1 & _). destruct (W0_init_io _ _ _ _ _ E2 W1) as (W3 & BP3 & _ & _).
      destruct (W0_wire_up3 _ _ _ _ _ _ E3 (get_wires_pos2 _ _ _ (proj1 EP) E) P1 W3) as [W4 _].
      destruct (IH _ _ _ _ _ _ _ E4 W4 EP BP3) as [W5 EP5]. split; [exact W5|now apply EnvPos3_bind3].
    - (* UOrder *)
      intros src dst cf b st e st' e' H W EP [Pi Po]. rewrite exec_stmt3_UOrder in H. bd H. bd H. bd H. inversion H; subst; clear H.
      split; [|exact EP]. eapply (W0_order_link _ _ _ _ E1); eauto; eapply node_of_pos; eauto; exact (proj1 EP).
    - (* ULoop *)
      intros id just rest body IH rs cf b st e st' e' H W EP BP. rewrite exec_stmt3_ULoop in H. bd H. rename v into jw. bd H. rename v into rw.
      bd H. bd H. bd H. destruct v1 as [st1 d]. cbn [fst snd] in H. bd H. destruct v1 as [st3 io]. cbn [fst snd] in H.
      bd H. destruct v1 as [st4 ts4]. cbn [fst snd] in H. bd H. destruct v1 as [st5 e5]. cbn [fst snd] in H. inversion H; subst; clear H.
      destruct (W0_add_node _ _ _ _ _ E3 W) as (W1 & _ & P1 & _). destruct (W0_init_io _ _ _ _ _ E4 W1) as (W3 & BP3 & _ & _).
      assert (Hws : forall w, In w (jw ++ rw) -> 0 < fst w).
      { intros w Hin. apply in_app_or in Hin. destruct Hin; [eapply get_wires_pos2; [exact (proj1 EP)|exact E|]|eapply get_wires_pos2; [exact (proj1 EP)|exact E0|]]; assumption. }
      destruct (W0_wire_up3 _ _ _ _ _ _ E5 Hws P1 W3) as [W4 _].
      destruct (IH _ _ _ _ _ _ _ E6 W4 EP BP3) as [W5 EP5]. split; [exact W5|now apply EnvPos3_bind3].
    - (* UCond *)
      intros id cond args cs IH rs cf b st e st' e' H W EP BP. rewrite exec_stmt3_UCond in H. bd H. rename v into cw. bd H. rename v into ws.
      bd H. destruct v as [|t others]; [discriminate|]. destruct (nthN tys t) as [[cp rows| |]|]; try discriminate.
      bd H. destruct v as [st1 c]. cbn [fst snd] in H. bd H. destruct v as [st2 bs]. cbn [fst snd] in H. bd H. destruct v as [st3 ts3].
      cbn [fst snd] in H. bd H. destruct v as [[[st4 e4] bs'] cur']. destruct (cases_done bs' cur'); [|discriminate]. inversion H; subst; clear H.
      destruct (W0_add_node _ _ _ _ _ E2 W) as (W1 & _ & P1 & _). destruct (W0_make_cases _ _ _ _ _ _ E3 W1) as (W2 & F2 & _).
      assert (Hws : forall w, In w (cw :: ws) -> 0 < fst w).
      { intros w [<-|Hin]; [eapply get_wire_pos2; [exact (proj1 EP)|exact E]|eapply get_wires_pos2; [exact (proj1 EP)|exact E0|exact Hin]]. }
      destruct (W0_wire_up3 _ _ _ _ _ _ E4 Hws P1 W2) as [W3 _].
      destruct (IH _ _ _ _ _ _ _ _ _ E5 W3 EP F2) as [W4 EP4]. split; [exact W4|now apply EnvPos3_bind3].
    - (* UInsert *)
      intros id sub IH args rs cf b st e st' e' H W EP BP. rewrite exec_stmt3_UInsert in H. bd H. destruct v as [sti e1]. cbn [fst snd] in H.
      bd H. rename v into ws. bd H. destruct v as [st1 m]. cbn [fst snd] in H. destruct (nthN m 0) as [r|] eqn:Er; [|discriminate].
      bd H. destruct v as [st2 ts]. cbn [fst snd] in H. inversion H; subst; clear H.
      destruct (IH _ _ _ E EP) as [_ EP1]. destruct (W0_insert_hugr _ _ _ _ _ E1 W) as [W1 Hr].
      destruct (W0_wire_up3 _ _ _ _ _ _ E2 (get_wires_pos2 _ _ _ (proj1 EP1) E0) (Hr _ Er) W1) as [W2 _].
      split; [exact W2|apply EnvPos3_bind3; [exact EP1|exact (Hr _ Er)]].
    - (* UCallInd *)
      intros id args rs cf b st e st' e' H W EP BP. rewrite exec_stmt3_UCallInd in H. bd H. rename v into ws. bd H. destruct v as [st1 n].
      cbn [fst snd] in H. bd H. destruct v as [st2 ts]. cbn [fst snd] in H. bd H. bd H. inversion H; subst; clear H.
      destruct (W0_add_node _ _ _ _ _ E0 W) as (W1 & _ & P1 & _).
      destruct (W0_wire_up3 _ _ _ _ _ _ E1 (get_wires_pos2 _ _ _ (proj1 EP) E) P1 W1) as [W2 _].
      split; [exact (proj1 (W0_set_op _ _ _ _ E3 W2))|now apply EnvPos3_bind3].
    - (* UCall *)
      intros id f args rs inst cf b st e st' e' H W EP BP. rewrite exec_stmt3_UCall in H. bd H. rename v into fn. bd H. rename v into ws.
      bd H. bd H. bd H. destruct v1 as [st1 n]. cbn [fst snd] in H. bd H. rename v1 into st2. bd H. destruct v1 as [st3 ts]. cbn [fst snd] in H.
      inversion H; subst; clear H.
      destruct (W0_add_node _ _ _ _ _ E3 W) as (W1 & _ & P1 & _).
      destruct (W0_add_link _ _ _ _ _ _ E4 (get_fn_pos _ _ _ EP E) P1 W1) as [W2 _].
      destruct (W0_wire_up3 _ _ _ _ _ _ E5 (get_wires_pos2 _ _ _ (proj1 EP) E0) P1 W2) as [W3 _].
      split; [exact W3|now apply EnvPos3_bind3].
    - (* ULoadFn *)
      intros id f r inst fnty cf b st e st' e' H W EP BP. rewrite exec_stmt3_ULoadFn in H. bd H. rename v into fn. bd H. bd H.
      bd H. destruct v1 as [st1 n]. cbn [fst snd] in H. bd H. inversion H; subst; clear H.
      destruct (W0_add_node _ _ _ _ _ E2 W) as (W1 & _ & P1 & _).
      split; [exact (proj1 (W0_add_link _ _ _ _ _ _ E3 (get_fn_pos _ _ _ EP E) P1 W1))|now apply EnvPos3_bind3].
    - (* ULoadC *)
      intros id c r cf b st e st' e' H W EP BP. rewrite exec_stmt3_ULoadC in H. destruct (nthN (e_consts e) c) as [cn|] eqn:Ec; [|discriminate].
      destruct (s_op st cn) as [[]|]; try discriminate. bd H. destruct v0 as [st1 l]. cbn [fst snd] in H. bd H. inversion H; subst; clear H.
      destruct (W0_add_node _ _ _ _ _ E W) as (W1 & _ & P1 & _).
      assert (Pc : 0 < cn) by (apply (proj2 (proj2 EP)); eapply nthN_In; eauto).
      split; [exact (proj1 (W0_add_link _ _ _ _ _ _ E0 Pc P1 W1))|now apply EnvPos3_bind3].
    - (* ULocalFn *)
      intros id f params ins douts body IH cf b st e st' e' H W EP BP. rewrite exec_stmt3_ULocalFn in H. bd H. rename v into o.
      bd H. destruct v as [st1 n]. cbn [fst snd] in H. bd H. destruct v as [st3 io]. cbn [fst snd] in H. bd H. destruct v as [st5 e5].
      cbn [fst snd] in H. inversion H; subst; clear H.
      destruct (W0_add_node _ _ _ _ _ E0 W) as (W1 & _ & P1 & _). destruct (W0_init_io _ _ _ _ _ E1 W1) as (W3 & BP3 & _ & _).
      destruct (IH _ _ _ _ _ _ _ E2 W3 EP BP3) as [W5 EP5]. split; [exact W5|].
      apply EnvPos3_bind_fn; [|exact P1]. destruct EP5 as (A & B & C). split; [|auto].
      cbn [with_env e_env]. destruct A as [A1 A2]. split; [exact A1|]. intros s m [Q|Q]; [inversion Q; subst; exact P1|eauto].
    - (* UCfg *)
      intros id args blocks IH branches rs cf b st e st' e' H W EP BP. rewrite exec_stmt3_UCfg in H. bd H. rename v into ws. bd H.
      bd H. destruct v0 as [st1 c]. cbn [fst snd] in H. bd H. destruct v0 as [st2 cb]. cbn [fst snd] in H. bd H. destruct v0 as [st3 ts3].
      cbn [fst snd] in H. bd H. destruct v0 as [[st4 e4] ent]. bd H. destruct v0 as [st5 cs5]. cbn [fst snd] in H.
      destruct (cfg_done cs5); [|discriminate]. inversion H; subst; clear H.
      destruct (W0_add_node _ _ _ _ _ E1 W) as (W1 & _ & P1 & _). destruct (W0_init_cfg _ _ _ _ _ E2 W1) as (W2 & CP & _).
      destruct (W0_wire_up3 _ _ _ _ _ _ E3 (get_wires_pos2 _ _ _ (proj1 EP) E) P1 W2) as [W3 _].
      destruct (IH _ _ _ _ _ _ _ E4 W3 EP CP) as [W4 EP4].
      split; [eapply W0_do_branches; eauto|now apply EnvPos3_bind3].
    - (* Rg *)
      intros ins body IH outs single cf b st e st' e' H W EP BP. rewrite exec_region3_Rg in H. bd H. destruct v as [st1 e1]. cbn [fst snd] in H.
      bd H. rename v into ws. destruct (IH _ _ _ _ _ _ E W (EnvPos3_with_in _ _ _ EP (proj1 BP)) BP) as [W1 EP1].
      pose proof (get_wires_pos2 _ _ _ (proj1 EP1) E0) as Hws.
      destruct single.
      + bd H. bd H. destruct v0 as [st2 c]. cbn [fst snd] in H. bd H. destruct v0 as [st3 l]. cbn [fst snd] in H. bd H. bd H.
        inversion H; subst; clear H.
        destruct (W0_add_node _ _ _ _ _ E2 W1) as (W2 & _ & P2 & _). destruct (W0_add_node _ _ _ _ _ E3 W2) as (W3 & _ & P3 & _).
        destruct (W0_add_link _ _ _ _ _ _ E4 P2 P3 W3) as [W4 _].
        split; [|exact EP1]. eapply W0_set_outputs3; [exact E5| |exact BP|exact W4]. intros w [<-|Hin]; [exact P3|auto].
      + bd H. inversion H; subst; clear H. split; [|exact EP1]. eapply W0_set_outputs3; eauto.
    - (* UNil *)
      intros cf b st e st' e' H W EP BP. rewrite exec_stmts3_UNil in H. inversion H; subst. auto.
    - (* UCons *)
      intros s IHs r IHr cf b st e st' e' H W EP BP. rewrite exec_stmts3_UCons in H. bd H. destruct v as [st1 e1]. cbn [fst snd] in H.
      destruct (IHs _ _ _ _ _ _ E W EP BP) as [W1 EP1]. eauto.
    - (* KNil *)
      intros c bs cur st e st' e' bs' cur' H W EP F. rewrite exec_cases3_KNil in H. inversion H; subst. auto.
    - (* KCons *)
      intros i r IHr rest IHrest c bs cur st e st' e' bs' cur' H W EP F. rewrite exec_cases3_KCons in H.
      destruct (nthN bs i) as [[cb [|]]|] eqn:Eb; try discriminate. bd H. destruct v as [st1 e1]. cbn [fst snd] in H. bd H. bd H.
      destruct v0 as [st2 cur2]. cbn [fst snd] in H.
      destruct (IHr _ _ _ _ _ _ _ E W EP (F _ _ (nthN_In _ _ _ Eb))) as [W1 EP1].
      eapply IHrest; [exact H|eapply W0_update_outputs; eauto|exact EP1|].
      intros cb' f Hin. apply in_set_nth in Hin. destruct Hin as [Hin|Hin]; [inversion Hin; subst; exact (F _ _ (nthN_In _ _ _ Eb))|eauto].
    - (* BNil *)
      intros cb ent st e st' e' ent' H W EP CP. rewrite exec_blocks3_BNil in H. inversion H; subst. auto.
    - (* BCons *)
      intros id k body IHb single bw rest IHrest cb ent st e st' e' ent' H W EP CP. rewrite exec_blocks3_BCons in H.
      bd H. destruct v as [st1 bb]. cbn [fst snd] in H. bd H. destruct v as [st2 e2]. cbn [fst snd] in H.
      assert (X : W0 st1 /\ BPos bb /\ (0 < b_parent bb \/ k = BEntry)).
      { destruct k as [|ins|pred].
        - inversion E; subst. split; [exact W|]. split; [exact (cp_entry _ CP)|now right].
        - bd E. destruct v as [sta n]. cbn [fst snd] in E. destruct (W0_add_node _ _ _ _ _ E1 W) as (W1 & _ & P1 & _).
          destruct (W0_init_io _ _ _ _ _ E W1) as (W3 & BP3 & Hp & _). split; [exact W3|]. split; [exact BP3|left; now rewrite Hp].
        - bd E. rename v into p. bd E. bd E. destruct v0 as [sta n]. cbn [fst snd] in E. bd E. destruct v0 as [stb io]. cbn [fst snd] in E.
          bd E. inversion E; subst; clear E. destruct (W0_add_node _ _ _ _ _ E3 W) as (W1 & _ & P1 & _).
          destruct (W0_init_io _ _ _ _ _ E4 W1) as (W3 & BP3 & Hp & _).
          destruct (W0_add_link _ _ _ _ _ _ E5 (get_wire_pos2 _ _ _ (proj1 EP) E1) P1 W3) as [W4 _].
          split; [exact W4|]. split; [exact BP3|left; now rewrite Hp]. }
      destruct X as (W1 & BPb & Hpb).
      destruct (IHb _ _ _ _ _ _ _ E0 W1 EP BPb) as [W2 EP2].
      eapply IHrest; [exact H|exact W2| |exact CP]. apply EnvPos3_bind3; [exact EP2|].
      destruct Hpb as [Q|Q]; [exact Q|]. subst k. inversion E; subst. exact (cp_enode _ CP).
    - (* RDfg *)
      intros ins body IH e st' e' H EP. rewrite exec_prog3_RDfg in H. bd H. destruct v as [st0 io]. cbn [fst snd] in H.
      destruct (W0_init_io _ _ _ _ _ E (new_store_W0 _)) as (W1 & BP & _ & _). eauto.
    - (* RLoop *)
      intros just rest body IH e st' e' H EP. rewrite exec_prog3_RLoop in H. bd H. destruct v as [st0 io]. cbn [fst snd] in H.
      destruct (W0_init_io _ _ _ _ _ E (new_store_W0 _)) as (W1 & BP & _ & _). eauto.
    - (* RCond *)
      intros rows others sumty cs IH e st' e' H EP. rewrite exec_prog3_RCond in H. bd H. destruct v as [st1 bs]. cbn [fst snd] in H.
      bd H. destruct v as [[[st4 e4] bs'] cur']. destruct (cases_done bs' cur'); [|discriminate]. inversion H; subst; clear H.
      destruct (W0_make_cases _ _ _ _ _ _ E (new_store_W0 _)) as (W1 & F1 & _). eauto.
    - (* RFunc *)
      intros params ins douts body IH e st' e' H EP. rewrite exec_prog3_RFunc in H. bd H. bd H. destruct v0 as [st0 io]. cbn [fst snd] in H.
      destruct (W0_init_io _ _ _ _ _ E0 (new_store_W0 _)) as (W1 & BP & _ & _). eauto.
    - (* RCfg *)
      intros ins blocks IH branches e st' e' H EP. rewrite exec_prog3_RCfg in H. bd H. destruct v as [st1 cb]. cbn [fst snd] in H.
      bd H. destruct v as [[st2 e2] ent]. bd H. destruct v as [st3 cs3]. cbn [fst snd] in H. destruct (cfg_done cs3); [|discriminate].
      inversion H; subst; clear H. destruct (W0_init_cfg _ _ _ _ _ E (new_store_W0 _)) as (W1 & CP & _).
      destruct (IH _ _ _ _ _ _ _ E0 W1 EP CP) as [W2 EP2]. split; [eapply W0_do_branches; eauto|exact EP2].
    - (* RModule *)
      intros consts funcs IH e st' e' H EP. rewrite exec_prog3_RModule in H. bd H. destruct v as [st1 e1]. cbn [fst snd] in H.
      bd H. destruct v as [[st2 e2] bs]. destruct (W0_add_consts _ _ _ _ _ E (new_store_W0 _) EP) as [W1 EP1].
      destruct (W0_decl_funcs _ _ _ _ _ _ E0 W1 EP1) as (W2 & EP2 & F2). eauto.
    - (* FNil *)
      intros bs st e st' e' H W EP F. rewrite exec_funcs3_FNil in H. inversion H; subst. auto.
    - (* FDecl *)
      intros f sg rest IH bs st e st' e' H W EP F. destruct bs as [|b0 bs]; [discriminate H|]. rewrite exec_funcs3_FDecl in H.
      eapply IH; eauto. intros b Hb. apply F. now right.
    - (* FDefn *)
      intros f params ins douts body IHb rest IH bs st e st' e' H W EP F. destruct bs as [|[b0|] bs]; try discriminate H.
      rewrite exec_funcs3_FDefn in H. bd H. destruct v as [st1 e1]. cbn [fst snd] in H.
      destruct (IHb _ _ _ _ _ _ _ E W EP (F _ (or_introl eq_refl))) as [W1 EP1].
      eapply IH; eauto. intros b Hb. apply F. now right.
  Qed.
End Index3.

(* ------------------------------------------------------------------ the theorems *)
Lemma index_of_W0 st : W0 st -> r_index (to_serial st) = true.
Proof.
  intros (B & K & _ & (r & rest & Er & D1)). unfold r_index, to_serial. cbn [g_nodes g_edges].
  rewrite Er. rewrite <- Er. apply andb_true_iff. split; [apply andb_true_iff; split|].
  - now apply N.eqb_eq.
  - exact B.
  - rewrite forallb_map. cbn [e_src e_dst]. exact K.
Qed.
Lemma EnvPos3_0 : EnvPos3 env3_0.
Proof. split; [split; intros ? ? []|]. split; [intros ? ? []|intros ? []]. Qed.

Theorem run3_index_root tys sigs p g : run3 tys sigs p = Ok g -> r_index g = true /\ r_root_no_edges g = true.
Proof.
  unfold run3. intros H. bd H. destruct v as [st e1]. cbn [fst] in H. inversion H; subst; clear H.
  destruct (exec3_index tys sigs) as (_ & _ & _ & _ & _ & HP & _).
  destruct (HP p _ _ _ E EnvPos3_0) as [W _]. split; [now apply index_of_W0|].
  apply root_no_edges_to_serial. exact (proj1 (proj2 (proj2 W))).
Qed.
(* also for the sub-programs of function-valued constants *)
Theorem run3s_index_root tys sigs p subs g gs : run3s tys sigs p subs = Ok (g, gs) ->
  (r_index g = true /\ r_root_no_edges g = true) /\ forall x, In x gs -> r_index x = true /\ r_root_no_edges x = true.
Proof.
  unfold run3s. intros H. bd H. rename v into g0. bd H. rename v into gs0. inversion H; subst; clear H.
  split; [eapply run3_index_root; eauto|]. clear E. revert gs E0. induction subs as [|q r IH]; intros gs H; cbn [run3_list] in H.
  - inversion H; subst. intros x [].
  - bd H. bd H. inversion H; subst. intros x [<-|Hx]; [eapply run3_index_root; eauto|eauto].
Qed.
