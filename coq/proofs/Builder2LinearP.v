(* C01 (fourth pass) — rule 9 (every out port of non-copyable type of every non-root node has exactly one link) and
   the value-edge half of rule 11 (a link that leaves a non-copyable port joins two siblings) for EVERY program of the
   extended builder language (model/Builder2.v) that is well typed (wt_prog2) and uses its non-copyable wires exactly
   once, in the region that bound them (lin_prog2, spec/Builder2LiveS.v).

   LinInv2 generalises LinInv of proofs/BuilderLinearP.v: the pending wires (the current region's, followed by those
   of the enclosing regions) name, injectively, exactly the non-copyable out ports without a link; every other one has
   exactly one; a SET of nodes is exempt (their out ports are not bound to wires yet): the Input node of a region
   being entered, the container of a region just closed, a Conditional under construction and the Input nodes of its
   cases that are not built yet, the root of a program being inserted.  No live (typed) wire names an exempt node
   (WNot) and no port link leaves one (LinkFree).  Hugr.insert_hugr carries the inner program's accounting over
   unchanged (indices shifted). *)
From Coq Require Import NArith List Bool Arith Lia.
Import ListNotations.
From HV Require Import lib.Harness model.Validity model.Builder model.Builder2 spec.BuilderS spec.BuilderWFS
  proofs.BuilderP proofs.BuilderExtP proofs.BuilderFrameP proofs.BuilderRulesP proofs.BuilderTypeP proofs.BuilderAcyclicP
  proofs.BuilderNonLocalP proofs.BuilderInputsP proofs.BuilderLinearP proofs.BuilderCopyP
  proofs.Builder2UnfoldP proofs.Builder2InvP proofs.Builder2P spec.Builder2WFS
  proofs.Builder2FrameP proofs.Builder2RulesP proofs.Builder2TypeP proofs.Builder2InputsP proofs.Builder2NonLocalP
  spec.Builder2LiveS proofs.Builder2AcyclicP.
Local Open Scope N_scope.

Lemma Aligned_both {A B} (R1 R2 R3 : A -> B -> Prop) la lb : (forall a b, R1 a b -> R2 a b -> R3 a b) ->
  Aligned R1 la lb -> Aligned R2 la lb -> Aligned R3 la lb.
Proof.
  intros H. unfold Aligned. intros A1. induction A1 as [|x y la lb [Hk Hr] _ IH]; intros A2; inversion A2 as [|? ? ? ? [_ Hr2] A2']; subst; constructor.
  - split; [exact Hk|now apply H].
  - now apply IH.
Qed.

Section Lin2Defs.
  Variable tys : list tyinfo.

  (* gp: pending wires; X: nodes whose out ports are not yet accounted for *)
  Record LinInv2 (st : store) (e : env) (gp : list wid) (X : N -> Prop) : Prop := {
    l2_nodup : NoDup gp;
    l2_pend : forall w, In w gp ->
              exists p, wport e w = Some p /\ lin_at tys (s_nodes st) p = true /\ cntf (s_links st) p = 0;
    l2_inj : forall w w' p, In w gp -> In w' gp -> wport e w = Some p -> wport e w' = Some p -> w = w';
    l2_all : forall p, fst p <> 0 -> ~ X (fst p) -> lin_at tys (s_nodes st) p = true ->
             cntf (s_links st) p = 1 \/ exists w, In w gp /\ wport e w = Some p;
    l2_notX : forall w p, In w gp -> wport e w = Some p -> ~ X (fst p) }.

  Lemma LinInv2_weaken st e gp (X X' : N -> Prop) : (forall n, X n -> X' n) ->
    (forall w p, In w gp -> wport e w = Some p -> ~ X' (fst p)) -> LinInv2 st e gp X -> LinInv2 st e gp X'.
  Proof. intros H H' [A B C D E]. constructor; [exact A|exact B|exact C| |exact H']. intros p P0 P1 Hl. apply D; auto. Qed.
  (* a node without non-copyable out ports need not be exempt *)
  Lemma LinInv2_drop st e gp (X X' : N -> Prop) :
    (forall n, X' n -> X n) ->
    (forall p, X (fst p) -> ~ X' (fst p) -> lin_at tys (s_nodes st) p = false) -> LinInv2 st e gp X -> LinInv2 st e gp X'.
  Proof.
    intros HX H [A B C D E]. constructor; [exact A|exact B|exact C| |].
    - intros p P0 P1 Hl. apply D; auto. intros Hx. rewrite (H p Hx P1) in Hl. discriminate.
    - intros w p Hw Hp Hx. exact (E w p Hw Hp (HX _ Hx)).
  Qed.
  Lemma lin_at_lt l p : lin_at tys l p = true -> fst p < lenN l.
  Proof.
    unfold lin_at, type_at. destruct (nthN l (fst p)) eqn:E; [|discriminate]. intros _. eapply nthN_lt; eauto.
  Qed.
  Lemma pend_lt st e gp X w p : LinInv2 st e gp X -> In w gp -> wport e w = Some p -> fst p < s_len st.
  Proof.
    intros [_ B _ _ _] Hw Hp. destruct (B w Hw) as (q & Hq & Hl & _). rewrite Hp in Hq. inversion Hq; subst q. now apply lin_at_lt.
  Qed.

  (* _wire_up of the argument wires: the pending wires among them are consumed *)
  Lemma consume2 st st1 e G args ws pend pend1 rest (X X1 : N -> Prop) new :
    LinInv2 st e (pend ++ rest) X -> (forall n, X n -> X1 n) ->
    (forall p, ~ X1 (fst p) -> lin_at tys (s_nodes st1) p = lin_at tys (s_nodes st) p) ->
    s_links st1 = s_links st ++ new ->
    (forall p, lin_at tys (s_nodes st) p = true -> cntf new p = countb (pair_eq p) ws) ->
    get_wires e args = Ok ws -> use_wires tys G pend args = Some pend1 ->
    (forall a p, In a args -> wport e a = Some p -> lin_w tys G a = lin_at tys (s_nodes st) p) ->
    (forall w p, In w (pend ++ rest) -> wport e w = Some p -> ~ X1 (fst p)) ->
    LinInv2 st1 e (pend1 ++ rest) X1.
  Proof.
    intros [ND PE INJ ALL NX] HX K El Hnew Gw UW HG Hx.
    destruct (use_wires_spec tys _ _ _ _ UW (NoDup_app_l _ _ ND)) as (N1 & I1 & O1).
    assert (Sub : forall w, In w (pend1 ++ rest) -> In w (pend ++ rest)).
    { intros w H. apply in_app_or in H. apply in_or_app. destruct H as [H|H]; [left; now apply I1|now right]. }
    assert (F : forall a p, In a args -> wport e a = Some p -> lin_at tys (s_nodes st) p = true -> In a pend /\ occ a args = 1).
    { intros a p Ha Hp Hl. apply O1; [exact Ha|]. now rewrite (HG a p Ha Hp). }
    assert (Cnew : forall p, lin_at tys (s_nodes st) p = true ->
              cntf new p = countb (fun a => match wport e a with Some q => pair_eq p q | None => false end) args).
    { intros p Hl. rewrite (Hnew p Hl). now apply get_wires_ports. }
    constructor.
    - apply NoDup_app_intro; [exact N1|exact (NoDup_app_r _ _ ND)|].
      intros w H1 H2. apply I1 in H1. exact (NoDup_app_disj _ _ _ ND (proj1 H1) H2).
    - intros w Hw. destruct (PE w (Sub w Hw)) as (p & Hp & Hl & Hc). exists p. split; [exact Hp|]. split.
      + rewrite K; [exact Hl|]. eapply Hx; eauto.
      + rewrite El, cntf_app, Hc, (Cnew p Hl). cbn. apply countb_zero. intros a Ha.
        destruct (wport e a) as [q|] eqn:Eq; [|reflexivity]. apply not_true_iff_false. intros E. apply pair_eq_true in E. subst q.
        destruct (F a p Ha Eq Hl) as [Hap _].
        assert (a = w) by (eapply INJ; eauto; apply in_or_app; now left). subst a.
        apply in_app_or in Hw. destruct Hw as [Hw|Hw].
        * apply I1 in Hw. apply (proj2 Hw). split; [exact Ha|]. now rewrite (HG w p Ha Eq).
        * exact (NoDup_app_disj _ _ _ ND Hap Hw).
    - intros w w' p Hw Hw'. apply INJ; auto.
    - intros p P0 P1 Hl1. rewrite K in Hl1 by exact P1.
      destruct (ALL p P0 (fun Hq => P1 (HX _ Hq)) Hl1) as [Hc|(w & Hw & Hp)].
      + left. rewrite El, cntf_app, Hc, (Cnew p Hl1). replace (countb _ args) with 0; [reflexivity|]. symmetry.
        apply countb_zero. intros a Ha. destruct (wport e a) as [q|] eqn:Eq; [|reflexivity].
        apply not_true_iff_false. intros E. apply pair_eq_true in E. subst q.
        destruct (F a p Ha Eq Hl1) as [Hap _]. destruct (PE a (in_or_app _ _ _ (or_introl Hap))) as (p' & Hp' & _ & Hc').
        rewrite Eq in Hp'. inversion Hp'; subst p'. rewrite Hc in Hc'. discriminate.
      + destruct (in_dec N.eq_dec w (pend1 ++ rest)) as [Hin|Hnin]; [right; eauto|left].
        destruct (PE w Hw) as (p' & Hp' & _ & Hc). rewrite Hp in Hp'. inversion Hp'; subst p'.
        apply in_app_or in Hw. destruct Hw as [Hw|Hw]; [|elim Hnin; apply in_or_app; now right].
        assert (Xa : In w args /\ lin_w tys G w = true).
        { destruct (in_dec N.eq_dec w args) as [Ha|Hna].
          - split; [exact Ha|]. now rewrite (HG w p Ha Hp).
          - elim Hnin. apply in_or_app. left. apply I1. split; [exact Hw|]. intros [Ha _]. contradiction. }
        destruct (O1 _ (proj1 Xa) (proj2 Xa)) as [_ Hocc].
        rewrite El, cntf_app, Hc, (Cnew p Hl1). cbn. rewrite <- Hocc. unfold occ. apply countb_ext_in. intros a Ha.
        destruct (wport e a) as [q|] eqn:Eq.
        * destruct (pair_eq p q) eqn:E.
          -- apply pair_eq_true in E. subst q. destruct (F a p Ha Eq Hl1) as [Hap _].
             assert (a = w) by (eapply INJ; eauto; apply in_or_app; now left). subst a. symmetry. apply N.eqb_refl.
          -- symmetry. apply N.eqb_neq. intros ->. rewrite Hp in Eq. inversion Eq; subst q.
             assert (pair_eq p p = true) by (apply pair_eq_true; reflexivity). congruence.
        * symmetry. apply N.eqb_neq. intros ->. congruence.
    - intros w p Hw Hp. exact (Hx w p (Sub w Hw) Hp).
  Qed.

  (* binding the out ports of the exempt node n to result wires *)
  Lemma bind_lin2 st e e' gp n nd rs (X : N -> Prop) :
    LinInv2 st e gp (fun k => k = n \/ X k) -> n <> 0 -> nthN (s_nodes st) n = Some nd ->
    NoDup rs -> (forall r, In r rs -> wport e r = None) -> covers tys rs (val_out (n_op nd)) = true ->
    (forall j, cntf (s_links st) (n, j) = 0) -> ~ X n ->
    (forall w, ~ In w rs -> wport e' w = wport e w) ->
    (forall j r, nth_error rs j = Some r -> wport e' r = Some (n, N.of_nat j)) ->
    LinInv2 st e' (lin_outs tys rs (val_out (n_op nd)) ++ gp) X.
  Proof.
    intros [ND PE INJ ALL NX] Hn En NDr Fr Cov C0 HnX Eold Enew.
    assert (Hx : forall w p, In w gp -> wport e w = Some p -> fst p <> n).
    { intros w p Hw Hp Q. apply (NX w p Hw Hp). now left. }
    assert (Old : forall w, In w gp -> ~ In w rs).
    { intros w Hw Hr. destruct (PE w Hw) as (p & Hp & _). rewrite (Fr _ Hr) in Hp. discriminate. }
    assert (New : forall r, In r (lin_outs tys rs (val_out (n_op nd))) ->
              exists j t, nth_error rs j = Some r /\ nthN (val_out (n_op nd)) (N.of_nat j) = Some t /\ ty_copy tys t = false).
    { intros r H. apply in_lin_outs_from in H. destruct H as (j & t & H1 & H2 & H3). rewrite N.add_0_l in H2. eauto. }
    constructor.
    - apply NoDup_app_intro; [now apply lin_outs_NoDup|exact ND|].
      intros r H1 H2. apply (Old r H2). eapply lin_outs_incl; eauto.
    - intros w Hw. apply in_app_or in Hw. destruct Hw as [Hw|Hw].
      + destruct (New w Hw) as (j & t & H1 & H2 & H3). exists (n, N.of_nat j). split; [now apply Enew|]. split; [|apply C0].
        unfold lin_at, type_at. cbn [fst snd]. now rewrite En, H2, H3.
      + destruct (PE w Hw) as (p & Hp & Hl & Hc). exists p. rewrite Eold by (now apply Old). auto.
    - intros w w' p Hw Hw' Hp Hp'. apply in_app_or in Hw. apply in_app_or in Hw'.
      destruct Hw as [Hw|Hw], Hw' as [Hw'|Hw'].
      + destruct (New w Hw) as (j & t & H1 & _). destruct (New w' Hw') as (j' & t' & H1' & _).
        rewrite (Enew _ _ H1) in Hp. rewrite (Enew _ _ H1') in Hp'. rewrite <- Hp in Hp'. inversion Hp'.
        assert (j' = j) by lia. subst j'. congruence.
      + destruct (New w Hw) as (j & t & H1 & _). rewrite (Enew _ _ H1) in Hp. inversion Hp; subst p.
        rewrite Eold in Hp' by (now apply Old). elim (Hx _ _ Hw' Hp'). reflexivity.
      + destruct (New w' Hw') as (j & t & H1 & _). rewrite (Enew _ _ H1) in Hp'. inversion Hp'; subst p.
        rewrite Eold in Hp by (now apply Old). elim (Hx _ _ Hw Hp). reflexivity.
      + rewrite Eold in Hp, Hp' by (now apply Old). eapply INJ; eauto.
    - intros p P0 P1 Hl. destruct (N.eq_dec (fst p) n) as [E|Hne].
      + right. destruct p as [i j]. cbn [fst] in E. subst i. unfold lin_at, type_at in Hl. cbn [fst snd] in Hl. rewrite En in Hl.
        destruct (nthN (val_out (n_op nd)) j) as [t|] eqn:Et; [|discriminate]. apply negb_true_iff in Hl.
        unfold covers in Cov. rewrite forallb_forall in Cov. specialize (Cov _ (nthN_in_indexed _ _ _ Et)). cbn [fst snd] in Cov.
        rewrite Hl in Cov. cbn [orb] in Cov. apply N.ltb_lt in Cov. unfold lenN in Cov.
        destruct (nth_error rs (N.to_nat j)) as [r|] eqn:Er; [|apply nth_error_None in Er; lia].
        exists r. split.
        * apply in_or_app. left. apply in_lin_outs_from. exists (N.to_nat j), t. rewrite N.add_0_l, N2Nat.id. auto.
        * rewrite (Enew _ _ Er). now rewrite N2Nat.id.
      + destruct (ALL p P0) as [Hc|(w & Hw & Hp)]; [intros [Q|Q]; [contradiction|exact (P1 Q)]|exact Hl|now left|right].
        exists w. split; [apply in_or_app; now right|]. now rewrite Eold by (now apply Old).
    - intros w p Hw Hp. apply in_app_or in Hw. destruct Hw as [Hw|Hw].
      + destruct (New w Hw) as (j & t & H1 & _). rewrite (Enew _ _ H1) in Hp. inversion Hp; subst p. exact HnX.
      + rewrite Eold in Hp by (now apply Old). intros Q. apply (NX w p Hw Hp). now right.
  Qed.
End Lin2Defs.

(* ------------------------------------------------------------------ no live wire names an exempt node; no port link leaves one *)
Definition Nrel (X : N -> Prop) (p : N * N) (ot : option tyid) : Prop := ot <> None -> ~ X (fst p).
Definition WNot (e : env) (G : tenv) (X : N -> Prop) : Prop := Aligned (Nrel X) (e_wires e) G.
Definition LinkFree (st : store) (X : N -> Prop) : Prop := forall x j, X x -> cntf (s_links st) (x, j) = 0.

Lemma WNot_wire e G X w t p : WNot e G X -> wire_ty G w = Some t -> wport e w = Some p -> ~ X (fst p).
Proof.
  intros H. pose proof (Aligned_lookup _ _ _ H w) as A. unfold wire_ty, wport.
  destruct (lookup (e_wires e) w) as [q|], (lookup G w) as [[t'|]|]; try discriminate; try contradiction.
  intros _ E. inversion E; subst. apply A. discriminate.
Qed.
Lemma WNot_weaken e G (X X' : N -> Prop) : (forall n, X' n -> X n) -> WNot e G X -> WNot e G X'.
Proof. intros H. apply Aligned_impl. intros p ot Hp Hot Hx. exact (Hp Hot (H _ Hx)). Qed.
(* nodes that do not exist yet may be added: typed wires name existing nodes *)
Lemma WNot_new l e G (X X' : N -> Prop) : Wsound l e G -> WNot e G X -> (forall n, X' n -> X n \/ lenN l <= n) -> WNot e G X'.
Proof.
  intros W H HX. apply (Aligned_both (Wrel l) (Nrel X) (Nrel X')); auto.
  intros p ot Hw Hn Hot Hx. destruct (HX _ Hx) as [Q|Q]; [exact (Hn Hot Q)|].
  destruct ot as [t|]; [|now elim Hot]. specialize (Hw t eq_refl). unfold type_at in Hw.
  destruct (nthN l (fst p)) eqn:E; [|discriminate]. apply nthN_lt in E. lia.
Qed.
Lemma WNot_bind_from X n rs outs : ~ X n -> forall e G i, WNot e G X -> WNot (bind_outs_from e n i rs) (tbind_from G i rs outs) X.
Proof.
  intros Hn. induction rs as [|r rest IH]; intros e G i H; cbn [bind_outs_from tbind_from]; [exact H|].
  apply IH. unfold WNot. cbn [e_wires]. constructor; [|exact H]. split; [reflexivity|]. cbn [snd fst]. intros _. exact Hn.
Qed.
Lemma WNot_bind X e G id n rs outs : ~ X n -> WNot e G X -> WNot (bind_outs (bind_stmt e id n) n rs) (tbind G rs outs) X.
Proof. intros Hn H. unfold bind_outs, tbind. now apply WNot_bind_from. Qed.
Lemma WNot_bind_in X e G n rs outs : ~ X n -> WNot e G X -> WNot (bind_outs e n rs) (tbind G rs outs) X.
Proof. intros Hn H. unfold bind_outs, tbind. now apply WNot_bind_from. Qed.
Lemma WNot_kill e G X X' : WNot e G X -> WNot e (killw G) X'.
Proof. intros H. apply (Aligned_kill (Nrel X)); [|exact H]. intros a Hq. now elim Hq. Qed.
Lemma WNot_splice e e1 G Gs S Ss X X1 :
  EnvMono e e1 -> CMono (killw G) (kills S) Gs Ss -> WNot e1 Gs X1 -> WNot e G X -> WNot e1 (splicew Gs G) X.
Proof.
  intros (dw & ds & Ew & Es) [[dG EG] _] W1 W. unfold WNot, splicew, killw.
  eapply (Aligned_splice (Nrel X1) (Nrel X) None); eauto. intros a Hq. now elim Hq.
Qed.

Lemma cntf_in es e a : In e es -> e_soff e = Some a -> 1 <= cntf es (e_src e, a).
Proof.
  intros Hin Ea. induction es as [|x es IH]; [destruct Hin|]. unfold cntf. cbn [countb]. destruct Hin as [->|Hin].
  - assert (Hf : from (e_src e, a) e = true).
    { unfold from. cbn [fst snd]. rewrite N.eqb_refl, Ea. cbn [optN_eqb option_eqb andb]. apply N.eqb_refl. }
    rewrite Hf. set (k := countb (from (e_src e, a)) es). lia.
  - specialize (IH Hin). unfold cntf in IH. set (k := countb (from (e_src e, a)) es) in *. destruct (from (e_src e, a) x); lia.
Qed.
Lemma LinkFree_no_link st X e a : LinkFree st X -> In e (s_links st) -> e_soff e = Some a -> ~ X (e_src e).
Proof. intros F Hin Ea Hx. pose proof (cntf_in _ _ _ Hin Ea). rewrite (F _ a Hx) in H. lia. Qed.

Lemma cntf_shift base es i off : cntf (map (shift_edge base) es) (base + i, off) = cntf es (i, off).
Proof.
  unfold cntf. induction es as [|e l IH]; [reflexivity|]. cbn [map countb]. rewrite IH. f_equal.
  unfold from. cbn [shift_edge e_src e_soff fst snd].
  destruct (N.eqb_spec (base + e_src e) (base + i)), (N.eqb_spec (e_src e) i); try reflexivity; lia.
Qed.
Lemma cntf_shift_old base es i off : i < base -> cntf (map (shift_edge base) es) (i, off) = 0.
Proof.
  intros L. apply countb_zero. intros e' Hin. apply in_map_iff in Hin. destruct Hin as (e & <- & _).
  unfold from. cbn [shift_edge e_src fst]. replace (base + e_src e =? i) with false; [reflexivity|]. symmetry. apply N.eqb_neq. lia.
Qed.

(* ------------------------------------------------------------------ the checker's view and the store's agree on live wires *)
Lemma wire_tys_In G args : forall ts a, wire_tys G args = Some ts -> In a args -> exists t, wire_ty G a = Some t.
Proof.
  induction args as [|w r IH]; intros ts a H Ha; [destruct Ha|]. cbn [wire_tys] in H.
  destruct (wire_ty G w) as [t|] eqn:Et; [|discriminate]. destruct (wire_tys G r) as [ts'|] eqn:Er; [|discriminate].
  destruct Ha as [<-|Ha]; [eauto|eapply IH; eauto].
Qed.
Lemma wire_tys_app G a b : forall ta tb, wire_tys G a = Some ta -> wire_tys G b = Some tb -> wire_tys G (a ++ b) = Some (ta ++ tb).
Proof.
  induction a as [|w r IH]; intros ta tb Ha Hb; cbn [wire_tys app] in *.
  - inversion Ha. exact Hb.
  - destruct (wire_ty G w) as [t|]; [|discriminate]. destruct (wire_tys G r) as [ts'|] eqn:Er; [|discriminate].
    inversion Ha; subst. now rewrite (IH _ _ eq_refl Hb).
Qed.
Lemma get_wires_app e a b : forall wa wb, get_wires e a = Ok wa -> get_wires e b = Ok wb -> get_wires e (a ++ b) = Ok (wa ++ wb).
Proof.
  induction a as [|w r IH]; intros wa wb Ha Hb; cbn [get_wires app] in *.
  - inversion Ha. exact Hb.
  - destruct (get_wire e w) as [p|]; [|discriminate]. cbn [bind] in *. destruct (get_wires e r) as [ps|] eqn:Er; [|discriminate].
    cbn [bind] in *. inversion Ha; subst. now rewrite (IH _ _ eq_refl Hb).
Qed.

Section LinSteps.
  Variable tys : list tyinfo.

  Lemma args_lin l e G args ts : Wsound l e G -> wire_tys G args = Some ts ->
    forall a p, In a args -> wport e a = Some p -> lin_w tys G a = lin_at tys l p.
  Proof.
    intros W WT a p Ha Hp. destruct (wire_tys_In _ _ _ _ WT Ha) as [t Et].
    destruct (Wsound_wire _ _ _ _ _ W Et) as (p' & Ep' & Tp'). unfold get_wire in Ep'. unfold wport in Hp. rewrite Hp in Ep'.
    inversion Ep'; subst p'. unfold lin_w, lin_at. now rewrite Et, Tp'.
  Qed.
  Lemma args_typed l e G args ts ws : Wsound l e G -> wire_tys G args = Some ts -> get_wires e args = Ok ws ->
    forall w, In w ws -> fst w < lenN l /\ exists a t, In a args /\ wport e a = Some w /\ wire_ty G a = Some t.
  Proof.
    intros W WT Gw w Hw. split; [exact (Forall2_type_lt _ _ _ (Wsound_wires _ _ _ W _ _ _ WT Gw) w Hw)|].
    destruct (get_wires_arg _ _ _ Gw _ Hw) as (a & Ha & Hp). destruct (wire_tys_In _ _ _ _ WT Ha) as [t Et]. eauto 6.
  Qed.
  Lemma fresh_ws_aligned l e G rs : Wsound l e G -> fresh_ws G rs = true -> NoDup rs /\ forall r, In r rs -> wport e r = None.
  Proof.
    unfold fresh_ws. intros W H. apply andb_true_iff in H. destruct H as [H1 H2]. split.
    - destruct (nodupb_spec N.eqb N.eqb_spec rs); [assumption|discriminate].
    - intros r Hr. rewrite forallb_forall in H2. specialize (H2 _ Hr). pose proof (Aligned_lookup _ _ _ W r) as A.
      unfold wport. destruct (lookup (e_wires e) r), (lookup G r); try reflexivity; try contradiction; discriminate.
  Qed.

  Record LSt (st : store) (e : env) (G : tenv) (P : N) (pend rest : list wid) (X : N -> Prop) : Prop := {
    ls_inv : LinInv2 tys st e (pend ++ rest) X;
    ls_local : Local st e pend P;
    ls_sib : SibLin tys st;
    ls_not : WNot e G X;
    ls_free : LinkFree st X;
    ls_old : forall n, X n -> n < s_len st }.

  (* the argument wires are wired into a node x1 among freshly appended nodes; Xn: the new nodes that have out ports *)
  Lemma LS_consume st st1 e G P pend pend1 rest (X Xn : N -> Prop) args ws ts new x1 :
    LSt st e G P pend rest X -> Wsound (s_nodes st) e G -> LinksOK st ->
    wire_tys G args = Some ts -> get_wires e args = Ok ws -> use_wires tys G pend args = Some pend1 ->
    Ext st st1 -> s_links st1 = s_links st ++ new ->
    (forall p, fst p < s_len st -> cntf new p = countb (pair_eq p) ws) ->
    (forall x j, Xn x -> cntf new (x, j) = 0) ->
    (forall e0 a, In e0 new -> e_soff e0 = Some a ->
       (e_dst e0 = x1 /\ In (e_src e0, a) ws) \/ lin_at tys (s_nodes st1) (e_src e0, a) = false) ->
    (forall n, Xn n -> s_len st <= n /\ n < s_len st1) ->
    (forall p, ~ Xn (fst p) -> lin_at tys (s_nodes st1) p = lin_at tys (s_nodes st) p) ->
    s_parent st1 x1 = Some P -> s_len st <= s_len st1 ->
    LSt st1 e G P pend1 rest (fun n => Xn n \/ X n).
  Proof.
    intros [LI LC SL WN LF LO] W K WT Gw UW X1 El Hcnt HcXn Hshape HXn Hlin HP1 Ll.
    destruct (use_wires_spec tys _ _ _ _ UW (NoDup_app_l _ _ (l2_nodup _ _ _ _ _ LI))) as (N1 & I1 & O1).
    assert (Hws : forall w, In w ws -> fst w < s_len st /\ ~ X (fst w)).
    { intros w Hw. destruct (args_typed _ _ _ _ _ _ W WT Gw w Hw) as (Lw & a & t & Ha & Hp & Et). split; [exact Lw|].
      eapply WNot_wire; eauto. }
    constructor.
    - apply (consume2 tys st st1 e G args ws pend pend1 rest X (fun n => Xn n \/ X n) new LI);
        [intros n Q; now right| |exact El| |exact Gw|exact UW| |].
      + intros p Hp. apply Hlin. intros Q. apply Hp. now left.
      + intros p Hl. apply Hcnt. now apply lin_at_lt in Hl.
      + eapply args_lin; eauto.
      + intros w p Hw Hp [Q|Q].
        * pose proof (pend_lt _ _ _ _ _ _ _ LI Hw Hp). destruct (HXn _ Q). lia.
        * exact (l2_notX _ _ _ _ _ LI w p Hw Hp Q).
    - eapply Local_ext; [exact X1|]. eapply Local_sub; [|exact LC]. intros w Hw. now apply I1.
    - eapply SL_step; [exact X1|exact K|exact El| | |exact SL].
      + intros e0 a Hin _ Hl. rewrite Hlin in Hl; [exact Hl|]. intros Q. destruct (HXn _ Q) as [Q1 _].
        pose proof (proj1 (LinksOK_in _ _ K Hin)). cbn [fst] in Q1. lia.
      + intros e0 a Hin Ea Hl. destruct (Hshape e0 a Hin Ea) as [[Hd Hw]|Hf]; [|congruence].
        rewrite Hd, HP1. destruct (Hws _ Hw) as [Lw _]. cbn [fst] in Lw.
        rewrite Hlin in Hl by (intros Q; destruct (HXn _ Q) as [Q1 _]; cbn [fst] in Q1; lia).
        destruct (get_wires_arg _ _ _ Gw _ Hw) as (aw & Haw & Hpw).
        assert (Hlw : lin_w tys G aw = true) by (rewrite (args_lin _ _ _ _ _ W WT aw _ Haw Hpw); exact Hl).
        destruct (O1 _ Haw Hlw) as [Hp _]. destruct (LC _ Hp) as (p & Hp' & Hpar). rewrite Hpw in Hp'. inversion Hp'; subst p.
        cbn [fst] in Hpar. eapply parent_ext; eauto.
    - eapply WNot_new; [exact W|exact WN|]. intros n [Q|Q]; [right; exact (proj1 (HXn _ Q))|now left].
    - intros x j Hx. rewrite El, cntf_app. destruct Hx as [Q|Q].
      + rewrite (cntf_fresh _ _ _ K (proj1 (HXn _ Q))), (HcXn _ _ Q). reflexivity.
      + rewrite (LF _ j Q), (Hcnt (x, j) (LO _ Q)), ports_not; [reflexivity|]. intros q Hq E. subst x. exact (proj2 (Hws _ Hq) Q).
    - intros n [Q|Q]; [exact (proj2 (HXn _ Q))|]. pose proof (LO _ Q). lia.
  Qed.

  (* the out ports of node d (just completed) are bound to the result wires *)
  Lemma LS_bind st e5 e' G5 P pend1 rest (X : N -> Prop) d nd rs :
    LinInv2 tys st e5 (pend1 ++ rest) (fun n => n = d \/ X n) -> Local st e5 pend1 P -> SibLin tys st ->
    WNot e5 G5 X -> LinkFree st X -> (forall n, X n -> n < s_len st) ->
    Wsound (s_nodes st) e5 G5 -> ~ X d -> d <> 0 -> nthN (s_nodes st) d = Some nd -> n_parent nd = P ->
    (forall j, cntf (s_links st) (d, j) = 0) ->
    fresh_ws G5 rs = true -> covers tys rs (val_out (n_op nd)) = true ->
    (forall w, ~ In w rs -> wport e' w = wport e5 w) ->
    (forall j r, nth_error rs j = Some r -> wport e' r = Some (d, N.of_nat j)) ->
    WNot e' (tbind G5 rs (val_out (n_op nd))) X ->
    LSt st e' (tbind G5 rs (val_out (n_op nd))) P (lin_outs tys rs (val_out (n_op nd)) ++ pend1) rest X.
  Proof.
    intros LI LC SL WN LF LO W HdX Hd0 En HP C0 FR CV Eold Enew WN'.
    destruct (fresh_ws_aligned _ _ _ _ W FR) as [NDr Fr].
    constructor; auto.
    - rewrite app_assoc_reverse. eapply bind_lin2; eauto.
    - eapply (Local_bind tys st e5 e' pend1 d nd rs); eauto.
  Qed.
End LinSteps.

(* ------------------------------------------------------------------ inversion of the two checkers, together *)
Section WLInv.
  Variable tys : list tyinfo.

  Lemma lin_stmt2_TNested id args body rs G S pend : lin_stmt2 tys (TNested id args body rs) G S pend =
    match wire_tys G args with
    | Some ts =>
        match use_wires tys G pend args, wt_region2 tys body ts G S with
        | Some pend1, Some (G1, _, outs) =>
            if lin_region2 tys body ts G S && fresh_ws G1 rs && covers tys rs outs
            then Some (lin_outs tys rs outs ++ pend1) else None
        | _, _ => None
        end
    | None => None
    end.
  Proof. reflexivity. Qed.
  Lemma lin_stmt2_TLoop id just rest body rs G S pend : lin_stmt2 tys (TLoop id just rest body rs) G S pend =
    match wire_tys G just, wire_tys G rest with
    | Some jt, Some rt =>
        match use_wires tys G pend (just ++ rest), wt_region2 tys body (jt ++ rt) G S with
        | Some pend1, Some (G1, _, t :: _) =>
            match nthN tys t with
            | Some (TSum _ [_; jo]) =>
                if lin_region2 tys body (jt ++ rt) G S && fresh_ws G1 rs && covers tys rs (jo ++ rt)
                then Some (lin_outs tys rs (jo ++ rt) ++ pend1) else None
            | _ => None
            end
        | _, _ => None
        end
    | _, _ => None
    end.
  Proof. reflexivity. Qed.
  Lemma lin_stmt2_TCond id cond args cs rs G S pend : lin_stmt2 tys (TCond id cond args cs rs) G S pend =
    match wire_ty G cond, wire_tys G args with
    | Some t, Some others =>
        match nthN tys t with
        | Some (TSum _ rows) =>
            match use_wires tys G pend (cond :: args), wt_cases2 tys cs rows others G S None with
            | Some pend1, Some (G1, _, Some outs) =>
                if lin_cases2 tys cs rows others G S && fresh_ws G1 rs && covers tys rs outs
                then Some (lin_outs tys rs outs ++ pend1) else None
            | _, _ => None
            end
        | _ => None
        end
    | _, _ => None
    end.
  Proof. reflexivity. Qed.
  Lemma lin_stmt2_TInsert id sub args rs G S pend : lin_stmt2 tys (TInsert id sub args rs) G S pend =
    match wt_progx tys sub (killw G) (kills S) with
    | Some (Gs, _, (_, sout)) =>
        match use_wires tys (splicew Gs G) pend args with
        | Some pend1 =>
            if lin_progx tys sub (killw G) (kills S) && fresh_ws (splicew Gs G) rs && covers tys rs sout
            then Some (lin_outs tys rs sout ++ pend1) else None
        | None => None
        end
    | None => None
    end.
  Proof. reflexivity. Qed.
  Lemma lin_region2_Reg ws body oids ins G S : lin_region2 tys (Reg ws body oids) ins G S =
    fresh_ws G ws && covers tys ws ins &&
    match lin_stmts2 tys body (tbind G ws ins) S (lin_outs tys ws ins), wt_stmts2 tys body (tbind G ws ins) S with
    | Some pend1, Some (G1, _) => match use_wires tys G1 pend1 oids with Some [] => true | _ => false end
    | _, _ => false
    end.
  Proof. reflexivity. Qed.
  Lemma lin_stmts2_TCons s r G S pend : lin_stmts2 tys (TCons s r) G S pend =
    match lin_stmt2 tys s G S pend, wt_stmt2 tys s G S with
    | Some p1, Some (G1, S1) => lin_stmts2 tys r G1 S1 p1
    | _, _ => None
    end.
  Proof. reflexivity. Qed.
  Lemma lin_cases2_CCons i r rest rows others G S : lin_cases2 tys (CCons i r rest) rows others G S =
    match nthN rows i with
    | Some row =>
        lin_region2 tys r (row ++ others) G S &&
        match wt_region2 tys r (row ++ others) G S with
        | Some (G1, S1, _) => lin_cases2 tys rest rows others G1 S1
        | None => false
        end
    | None => false
    end.
  Proof. reflexivity. Qed.

  Lemma wt_stmt2_TNested id args body rs G S : wt_stmt2 tys (TNested id args body rs) G S =
    match wire_tys G args with
    | Some ts => match wt_region2 tys body ts G S with
                 | Some (G', S', outs) => Some (tbind G' rs outs, (id, true) :: S')
                 | None => None
                 end
    | None => None
    end.
  Proof. reflexivity. Qed.
  Lemma wt_stmt2_TLoop id just rest body rs G S : wt_stmt2 tys (TLoop id just rest body rs) G S =
    match wire_tys G just, wire_tys G rest with
    | Some jt, Some rt =>
        match wt_region2 tys body (jt ++ rt) G S with
        | Some (G', S', t :: rt') =>
            match nthN tys t with
            | Some (TSum _ [a; jo]) =>
                if row_eqb a jt && row_eqb rt' rt then Some (tbind G' rs (jo ++ rt), (id, true) :: S') else None
            | _ => None
            end
        | _ => None
        end
    | _, _ => None
    end.
  Proof. reflexivity. Qed.
  Lemma wt_stmt2_TCond id cond args cs rs G S : wt_stmt2 tys (TCond id cond args cs rs) G S =
    match wire_ty G cond, wire_tys G args with
    | Some t, Some others =>
        match nthN tys t with
        | Some (TSum _ rows) =>
            match wt_cases2 tys cs rows others G S None with
            | Some (G', S', Some outs) => Some (tbind G' rs outs, (id, true) :: S')
            | _ => None
            end
        | _ => None
        end
    | _, _ => None
    end.
  Proof. reflexivity. Qed.
  Lemma wt_stmt2_TInsert id sub args rs G S : wt_stmt2 tys (TInsert id sub args rs) G S =
    match wt_progx tys sub (killw G) (kills S) with
    | Some (Gs, Ss, (sin, sout)) =>
        match wire_tys (splicew Gs G) args with
        | Some ts => if row_eqb ts sin then Some (tbind (splicew Gs G) rs sout, (id, true) :: splices Ss S) else None
        | None => None
        end
    | None => None
    end.
  Proof. reflexivity. Qed.
  Lemma wt_region2_Reg ws body outs ins G S : wt_region2 tys (Reg ws body outs) ins G S =
    match wt_stmts2 tys body (tbind G ws ins) S with
    | Some (G1, S1) => match wire_tys G1 outs with Some ts => Some (G1, S1, ts) | None => None end
    | None => None
    end.
  Proof. reflexivity. Qed.
  Lemma wt_stmts2_TCons s r G S : wt_stmts2 tys (TCons s r) G S =
    match wt_stmt2 tys s G S with Some (G1, S1) => wt_stmts2 tys r G1 S1 | None => None end.
  Proof. reflexivity. Qed.
  Lemma wt_cases2_CCons i r rest rows others G S cur : wt_cases2 tys (CCons i r rest) rows others G S cur =
    match nthN rows i with
    | Some row =>
        match wt_region2 tys r (row ++ others) G S with
        | Some (G1, S1, outs) =>
            match cur with
            | None => wt_cases2 tys rest rows others G1 S1 (Some outs)
            | Some o => if row_eqb o outs then wt_cases2 tys rest rows others G1 S1 cur else None
            end
        | None => None
        end
    | None => None
    end.
  Proof. reflexivity. Qed.

  Lemma wt_progx_QDfg ins body G S : wt_progx tys (QDfg ins body) G S =
    match wt_region2 tys body ins G S with Some (G', S', outs) => Some (G', S', (ins, outs)) | None => None end.
  Proof. reflexivity. Qed.
  Lemma wt_progx_QLoop just rest body G S : wt_progx tys (QLoop just rest body) G S =
    match wt_region2 tys body (just ++ rest) G S with
    | Some (G', S', t :: rest') =>
        match nthN tys t with
        | Some (TSum _ [a; jo]) =>
            if row_eqb a just && row_eqb rest' rest then Some (G', S', (just ++ rest, jo ++ rest)) else None
        | _ => None
        end
    | _ => None
    end.
  Proof. reflexivity. Qed.
  Lemma wt_progx_QCond rows others sumty cs G S : wt_progx tys (QCond rows others sumty cs) G S =
    if is_sum_of tys sumty rows then
      match wt_cases2 tys cs rows others G S None with
      | Some (G', S', Some outs) => Some (G', S', (sumty :: others, outs))
      | _ => None
      end
    else None.
  Proof. reflexivity. Qed.
  Lemma lin_progx_QDfg ins body G S : lin_progx tys (QDfg ins body) G S = lin_region2 tys body ins G S.
  Proof. reflexivity. Qed.
  Lemma lin_progx_QLoop just rest body G S : lin_progx tys (QLoop just rest body) G S = lin_region2 tys body (just ++ rest) G S.
  Proof. reflexivity. Qed.
  Lemma lin_progx_QCond rows others sumty cs G S : lin_progx tys (QCond rows others sumty cs) G S = lin_cases2 tys cs rows others G S.
  Proof. reflexivity. Qed.

  Lemma wl_TOp_inv id o args rs G S G' S' pend pend' :
    wt_stmt2 tys (TOp id o args rs) G S = Some (G', S') -> lin_stmt2 tys (TOp id o args rs) G S pend = Some pend' ->
    exists ts op' pend1, wire_tys G args = Some ts /\ completed_op tys o ts = Ok op' /\ val_in op' = ts /\ opspec_ok tys o = true /\
      use_wires tys G pend args = Some pend1 /\ fresh_ws G rs = true /\ covers tys rs (val_out op') = true /\
      G' = tbind G rs (val_out op') /\ S' = (id, true) :: S /\ pend' = lin_outs tys rs (val_out op') ++ pend1.
  Proof.
    intros W L. cbn [wt_stmt2] in W. cbn [lin_stmt2] in L. destruct (wire_tys G args) as [ts|] eqn:EQ1; [|discriminate].
    destruct (completed_op tys o ts) as [op'|] eqn:EQ2; [|discriminate].
    destruct (row_eqb (val_in op') ts && opspec_ok tys o) eqn:CK; [|discriminate]. apply andb_true_iff in CK. destruct CK as [C1 C2].
    destruct (use_wires tys G pend args) as [pend1|] eqn:EQ3; [|discriminate].
    destruct (fresh_ws G rs && covers tys rs (val_out op')) eqn:FC; [|discriminate]. apply andb_true_iff in FC. destruct FC as [F1 F2].
    inversion W; inversion L. exists ts, op', pend1. apply row_eqb_eq in C1. repeat split; auto.
  Qed.
  Lemma wl_TCallInd_inv id args rs G S G' S' pend pend' :
    wt_stmt2 tys (TCallInd id args rs) G S = Some (G', S') -> lin_stmt2 tys (TCallInd id args rs) G S pend = Some pend' ->
    exists ts op' pend1, wire_tys G args = Some ts /\ completed_callind tys ts = Ok op' /\ val_in op' = ts /\
      use_wires tys G pend args = Some pend1 /\ fresh_ws G rs = true /\ covers tys rs (val_out op') = true /\
      G' = tbind G rs (val_out op') /\ S' = (id, true) :: S /\ pend' = lin_outs tys rs (val_out op') ++ pend1.
  Proof.
    intros W L. cbn [wt_stmt2] in W. cbn [lin_stmt2] in L. destruct (wire_tys G args) as [ts|] eqn:EQ4; [|discriminate].
    destruct (completed_callind tys ts) as [op'|] eqn:EQ5; [|discriminate].
    destruct (row_eqb (val_in op') ts) eqn:C1; [|discriminate].
    destruct (use_wires tys G pend args) as [pend1|] eqn:EQ6; [|discriminate].
    destruct (fresh_ws G rs && covers tys rs (val_out op')) eqn:FC; [|discriminate]. apply andb_true_iff in FC. destruct FC as [F1 F2].
    inversion W; inversion L. exists ts, op', pend1. apply row_eqb_eq in C1. repeat split; auto.
  Qed.
  Lemma wl_TLoad_inv id v cp r G S G' S' pend pend' :
    wt_stmt2 tys (TLoad id v cp r) G S = Some (G', S') -> lin_stmt2 tys (TLoad id v cp r) G S pend = Some pend' ->
    value_ok tys [] v = true /\ fresh_ws G [r] = true /\
    G' = tbind G [r] [value_ty v] /\ S' = (id, true) :: S /\ pend' = lin_outs tys [r] [value_ty v] ++ pend.
  Proof.
    intros W L. cbn [wt_stmt2] in W. cbn [lin_stmt2] in L. destruct (value_ok tys [] v) eqn:EQv; [|discriminate].
    destruct (fresh_ws G [r]) eqn:EQf; [|discriminate]. inversion W; inversion L. auto.
  Qed.
  Lemma wl_TNested_inv id args body rs G S G' S' pend pend' :
    wt_stmt2 tys (TNested id args body rs) G S = Some (G', S') -> lin_stmt2 tys (TNested id args body rs) G S pend = Some pend' ->
    exists ts G1 S1 outs pend1, wire_tys G args = Some ts /\ wt_region2 tys body ts G S = Some (G1, S1, outs) /\
      use_wires tys G pend args = Some pend1 /\ lin_region2 tys body ts G S = true /\ fresh_ws G1 rs = true /\
      covers tys rs outs = true /\ G' = tbind G1 rs outs /\ S' = (id, true) :: S1 /\ pend' = lin_outs tys rs outs ++ pend1.
  Proof.
    intros W L. rewrite wt_stmt2_TNested in W. rewrite lin_stmt2_TNested in L. destruct (wire_tys G args) as [ts|] eqn:EQ7; [|discriminate].
    match type of W with match ?x with _ => _ end = _ => destruct x as [[[G1 S1] outs]|] eqn:WR; [|discriminate] end.
    destruct (use_wires tys G pend args) as [pend1|] eqn:EQ8; [|discriminate]. try rewrite WR in L.
    destruct (lin_region2 tys body ts G S && fresh_ws G1 rs && covers tys rs outs) eqn:CK; [|discriminate].
    apply andb_true_iff in CK. destruct CK as [CK C3]. apply andb_true_iff in CK. destruct CK as [C1 C2].
    inversion W; inversion L. exists ts, G1, S1, outs, pend1. repeat split; auto.
  Qed.
  Lemma wl_TLoop_inv id just rest body rs G S G' S' pend pend' :
    wt_stmt2 tys (TLoop id just rest body rs) G S = Some (G', S') -> lin_stmt2 tys (TLoop id just rest body rs) G S pend = Some pend' ->
    exists jt rt G1 S1 t cp jo pend1, wire_tys G just = Some jt /\ wire_tys G rest = Some rt /\
      wt_region2 tys body (jt ++ rt) G S = Some (G1, S1, t :: rt) /\ nthN tys t = Some (TSum cp [jt; jo]) /\
      use_wires tys G pend (just ++ rest) = Some pend1 /\ lin_region2 tys body (jt ++ rt) G S = true /\ fresh_ws G1 rs = true /\
      covers tys rs (jo ++ rt) = true /\ G' = tbind G1 rs (jo ++ rt) /\ S' = (id, true) :: S1 /\
      pend' = lin_outs tys rs (jo ++ rt) ++ pend1.
  Proof.
    intros W L. rewrite wt_stmt2_TLoop in W. rewrite lin_stmt2_TLoop in L.
    destruct (wire_tys G just) as [jt|] eqn:EQ9; [|discriminate]. destruct (wire_tys G rest) as [rt|] eqn:EQ10; [|discriminate].
    match type of W with match ?x with _ => _ end = _ => destruct x as [[[G1 S1] outs]|] eqn:WR; [|discriminate] end.
    destruct outs as [|t rt']; [discriminate|]. destruct (nthN tys t) as [[cp rows| |]|] eqn:Et; try discriminate.
    destruct rows as [|a [|jo [|]]]; try discriminate.
    destruct (row_eqb a jt && row_eqb rt' rt) eqn:CK; [|discriminate]. apply andb_true_iff in CK. destruct CK as [K1 K2].
    apply row_eqb_eq in K1, K2. subst a rt'.
    destruct (use_wires tys G pend (just ++ rest)) as [pend1|] eqn:EQ11; [|discriminate]. try rewrite WR in L. try rewrite Et in L.
    destruct (lin_region2 tys body (jt ++ rt) G S && fresh_ws G1 rs && covers tys rs (jo ++ rt)) eqn:CK; [|discriminate].
    apply andb_true_iff in CK. destruct CK as [CK C3]. apply andb_true_iff in CK. destruct CK as [C1 C2].
    inversion W; inversion L. exists jt, rt, G1, S1, t, cp, jo, pend1. repeat split; auto.
  Qed.
  Lemma wl_TCond_inv id cond args cs rs G S G' S' pend pend' :
    wt_stmt2 tys (TCond id cond args cs rs) G S = Some (G', S') -> lin_stmt2 tys (TCond id cond args cs rs) G S pend = Some pend' ->
    exists t others cp rows G1 S1 outs pend1, wire_ty G cond = Some t /\ wire_tys G args = Some others /\
      nthN tys t = Some (TSum cp rows) /\ wt_cases2 tys cs rows others G S None = Some (G1, S1, Some outs) /\
      use_wires tys G pend (cond :: args) = Some pend1 /\ lin_cases2 tys cs rows others G S = true /\ fresh_ws G1 rs = true /\
      covers tys rs outs = true /\ G' = tbind G1 rs outs /\ S' = (id, true) :: S1 /\ pend' = lin_outs tys rs outs ++ pend1.
  Proof.
    intros W L. rewrite wt_stmt2_TCond in W. rewrite lin_stmt2_TCond in L.
    destruct (wire_ty G cond) as [t|] eqn:EQ12; [|discriminate]. destruct (wire_tys G args) as [others|] eqn:EQ13; [|discriminate].
    destruct (nthN tys t) as [[cp rows| |]|] eqn:Et; try discriminate.
    match type of W with match ?x with _ => _ end = _ => destruct x as [[[G1 S1] [outs|]]|] eqn:WC; try discriminate end.
    destruct (use_wires tys G pend (cond :: args)) as [pend1|] eqn:EQ14; [|discriminate].
    destruct (lin_cases2 tys cs rows others G S && fresh_ws G1 rs && covers tys rs outs) eqn:CK; [|discriminate].
    apply andb_true_iff in CK. destruct CK as [CK C3]. apply andb_true_iff in CK. destruct CK as [C1 C2].
    inversion W; inversion L. exists t, others, cp, rows, G1, S1, outs, pend1. repeat split; auto.
  Qed.
  Lemma wl_TInsert_inv id sub args rs G S G' S' pend pend' :
    wt_stmt2 tys (TInsert id sub args rs) G S = Some (G', S') -> lin_stmt2 tys (TInsert id sub args rs) G S pend = Some pend' ->
    exists Gs Ss sin sout pend1, wt_progx tys sub (killw G) (kills S) = Some (Gs, Ss, (sin, sout)) /\
      wire_tys (splicew Gs G) args = Some sin /\ use_wires tys (splicew Gs G) pend args = Some pend1 /\
      lin_progx tys sub (killw G) (kills S) = true /\ fresh_ws (splicew Gs G) rs = true /\ covers tys rs sout = true /\
      G' = tbind (splicew Gs G) rs sout /\ S' = (id, true) :: splices Ss S /\ pend' = lin_outs tys rs sout ++ pend1.
  Proof.
    intros W L. rewrite wt_stmt2_TInsert in W. rewrite lin_stmt2_TInsert in L.
    match type of W with match ?x with _ => _ end = _ => destruct x as [[[Gs Ss] [sin sout]]|] eqn:WP; [|discriminate] end.
    cbv zeta in W. destruct (wire_tys (splicew Gs G) args) as [ts|] eqn:WT; [|discriminate].
    destruct (row_eqb ts sin) eqn:CK; [|discriminate]. apply row_eqb_eq in CK. subst ts.
    destruct (use_wires tys (splicew Gs G) pend args) as [pend1|] eqn:EQ15; [|discriminate].
    destruct (lin_progx tys sub (killw G) (kills S) && fresh_ws (splicew Gs G) rs && covers tys rs sout) eqn:CK; [|discriminate].
    apply andb_true_iff in CK. destruct CK as [CK C3]. apply andb_true_iff in CK. destruct CK as [C1 C2].
    inversion W; inversion L. exists Gs, Ss, sin, sout, pend1. repeat split; auto.
  Qed.
  Lemma wl_Reg_inv ws body oids ins G S G' S' outs :
    wt_region2 tys (Reg ws body oids) ins G S = Some (G', S', outs) -> lin_region2 tys (Reg ws body oids) ins G S = true ->
    exists pend1, wt_stmts2 tys body (tbind G ws ins) S = Some (G', S') /\ wire_tys G' oids = Some outs /\
      fresh_ws G ws = true /\ covers tys ws ins = true /\
      lin_stmts2 tys body (tbind G ws ins) S (lin_outs tys ws ins) = Some pend1 /\ use_wires tys G' pend1 oids = Some [].
  Proof.
    intros W L. rewrite wt_region2_Reg in W. rewrite lin_region2_Reg in L.
    match type of W with match ?x with _ => _ end = _ => destruct x as [[G1 S1]|] eqn:WB; [|discriminate] end.
    destruct (wire_tys G1 oids) as [o|] eqn:WO; [|discriminate]. inversion W; subst G1 S1 o; clear W.
    apply andb_true_iff in L. destruct L as [L L3]. apply andb_true_iff in L. destruct L as [L1 L2].
    destruct (lin_stmts2 tys body (tbind G ws ins) S (lin_outs tys ws ins)) as [pend1|] eqn:EQ16; [|discriminate].
    destruct (use_wires tys G' pend1 oids) as [[|? ?]|] eqn:UW; try discriminate. exists pend1. repeat split; auto.
  Qed.
  Lemma wl_TCons_inv s r G S G' S' pend pend' :
    wt_stmts2 tys (TCons s r) G S = Some (G', S') -> lin_stmts2 tys (TCons s r) G S pend = Some pend' ->
    exists G1 S1 p1, wt_stmt2 tys s G S = Some (G1, S1) /\ wt_stmts2 tys r G1 S1 = Some (G', S') /\
      lin_stmt2 tys s G S pend = Some p1 /\ lin_stmts2 tys r G1 S1 p1 = Some pend'.
  Proof.
    intros W L. rewrite wt_stmts2_TCons in W. rewrite lin_stmts2_TCons in L.
    match type of W with match ?x with _ => _ end = _ => destruct x as [[G1 S1]|] eqn:W1; [|discriminate] end.
    destruct (lin_stmt2 tys s G S pend) as [p1|] eqn:L1; [|discriminate]. eauto 8.
  Qed.
  Lemma wl_CCons_inv i r rest rows others G S cur G' S' cur' :
    wt_cases2 tys (CCons i r rest) rows others G S cur = Some (G', S', cur') -> lin_cases2 tys (CCons i r rest) rows others G S = true ->
    exists row G1 S1 outs, nthN rows i = Some row /\ wt_region2 tys r (row ++ others) G S = Some (G1, S1, outs) /\
      (cur = None \/ cur = Some outs) /\ wt_cases2 tys rest rows others G1 S1 (Some outs) = Some (G', S', cur') /\
      lin_region2 tys r (row ++ others) G S = true /\ lin_cases2 tys rest rows others G1 S1 = true.
  Proof.
    intros W L. rewrite wt_cases2_CCons in W. rewrite lin_cases2_CCons in L.
    destruct (nthN rows i) as [row|] eqn:EQ17; [|discriminate].
    match type of W with match ?x with _ => _ end = _ => destruct x as [[[G1 S1] outs]|] eqn:WR; [|discriminate] end.
    apply andb_true_iff in L. destruct L as [L1 L2]. exists row, G1, S1, outs.
    destruct cur as [o|].
    - destruct (row_eqb o outs) eqn:Eo; [|discriminate]. apply row_eqb_eq in Eo. subst o. repeat split; auto.
    - repeat split; auto.
  Qed.
End WLInv.

(* ------------------------------------------------------------------ helpers for the induction *)
Lemma WNew_facts st node ws : forall i ts new, WNew st node i ws ts new ->
  (forall p, cntf new p = countb (pair_eq p) ws) /\
  (forall e0 a, In e0 new -> e_soff e0 = Some a -> e_dst e0 = node /\ In (e_src e0, a) ws).
Proof.
  intros i ts new H. split; [intros p; eapply WNew_cntf; eauto|]. intros e0 a Hin Ea.
  destruct (WNew_shape _ _ _ _ _ _ H _ Hin) as [[E _]|(a0 & A & B & C)]; [congruence|].
  rewrite Ea in A. inversion A; subst a0. auto.
Qed.

(* no port link leaves a node whose operation has no value outputs (and is not a constant) *)
Lemma cntf_no_out st n nd j : LinkInv2 st -> nthN (s_nodes st) n = Some nd -> val_out (n_op nd) = [] ->
  (forall v, n_op nd <> Const v) -> cntf (s_links st) (n, j) = 0.
Proof.
  intros LI En Ho Hc. apply countb_zero. intros e Hin. unfold LinkInv2 in LI. rewrite forallb_forall in LI. specialize (LI _ Hin).
  unfold from. cbn [fst snd]. destruct (N.eqb_spec (e_src e) n) as [Es|_]; [|reflexivity]. cbn [andb].
  destruct (e_soff e) as [a|] eqn:Ea; [|reflexivity]. cbn [optN_eqb option_eqb].
  destruct (N.eqb_spec a j) as [->|_]; [|reflexivity]. exfalso.
  unfold link_okb2, op_at in LI. rewrite Es, En, Ea in LI. cbn [option_map] in LI.
  destruct (option_map n_op (nthN (s_nodes st) (e_dst e))) as [do_|]; [|discriminate].
  destruct (e_doff e) as [b0|]; [|discriminate]. rewrite Ho, nthN_nil in LI.
  destruct (n_op nd) eqn:Eo; try discriminate. exact (Hc v eq_refl).
Qed.
Lemma open_op_no_out o ins : open_op o ins -> val_out o = [] /\ forall v, o <> Const v.
Proof. intros [->|[->|(n & ->)]]; split; try reflexivity; intros v Q; discriminate Q. Qed.
Lemma lin_at_no_out tys l n nd j : nthN l n = Some nd -> val_out (n_op nd) = [] -> lin_at tys l (n, j) = false.
Proof. intros En Ho. unfold lin_at, type_at. cbn [fst snd]. now rewrite En, Ho, nthN_nil. Qed.

Lemma case_blocks_val_out c others : forall rows pos j nd, nthN (case_blocks c others rows pos) j = Some nd ->
  val_out (n_op nd) <> [] -> exists k, j = 3 * k + 1 /\ k < lenN rows.
Proof.
  induction rows as [|r rest IH]; intros pos j nd H V; [unfold nthN in H; destruct (N.to_nat j); discriminate|].
  cbn [case_blocks] in H. destruct (N.eq_dec j 0) as [->|H0]; [cbn in H; inversion H; subst; now elim V|].
  destruct (N.eq_dec j 1) as [->|H1]; [exists 0; rewrite lenN_cons; lia|].
  destruct (N.eq_dec j 2) as [->|H2]; [cbn in H; inversion H; subst; now elim V|].
  replace j with ((j - 3) + 3) in H by lia. rewrite nthN_S3 in H. destruct (IH _ _ _ H V) as (k & Hj & Hk).
  exists (k + 1). rewrite lenN_cons. lia.
Qed.
Lemma case_builders_inv : forall rows pos k cb f, nthN (case_builders rows pos) k = Some (cb, f) ->
  k < lenN rows /\ cb = mkb (pos + 3 * k) (pos + 3 * k + 1) (pos + 3 * k + 2) /\ f = false.
Proof.
  intros rows pos k cb f H. assert (L : k < lenN rows) by (rewrite <- (case_builders_len rows pos); eapply nthN_lt; eauto).
  destruct (nthN_some_lt rows k L) as [row Hr]. rewrite (case_builders_nth _ pos _ _ Hr) in H. inversion H. auto.
Qed.

(* the exempt nodes while the cases of a Conditional are built: the Conditional, the Input nodes of the cases not built yet *)
Definition Xc (c : N) (bs : list (dfb * bool)) (X : N -> Prop) : N -> Prop :=
  fun n => (n = c \/ exists k cb, nthN bs k = Some (cb, false) /\ n = b_in cb) \/ X n.

Lemma nthN_set_nth_cases {A} (l : list A) i x k y : nthN (set_nth l (N.to_nat i) x) k = Some y ->
  (k = i /\ y = x) \/ (k <> i /\ nthN l k = Some y).
Proof.
  intros H. destruct (N.eq_dec k i) as [->|Hne].
  - left. split; [reflexivity|]. assert (L : i < lenN l) by (rewrite <- (lenN_set_nth l (N.to_nat i) x); eapply nthN_lt; eauto).
    rewrite nthN_set_nth_eq in H by exact L. now inversion H.
  - right. split; [exact Hne|]. now rewrite nthN_set_nth_neq in H.
Qed.

Section LinMain2.
  Variable tys : list tyinfo.

  Lemma wport_bind_old e id n rs w : ~ In w rs -> wport (bind_outs (bind_stmt e id n) n rs) w = wport e w.
  Proof. intros H. unfold bind_outs. now rewrite bind_from_notin. Qed.
  Lemma wport_bind_new e id n rs j r : NoDup rs -> nth_error rs j = Some r ->
    wport (bind_outs (bind_stmt e id n) n rs) r = Some (n, N.of_nat j).
  Proof. intros ND H. unfold bind_outs. rewrite (bind_from_nth _ _ _ _ _ _ ND H). now rewrite N.add_0_l. Qed.

  (* a leaf node: appended (placeholder op0), wired, completed (op'), its outputs bound *)
  Lemma leaf_lin strict b st e G S st1 st' args ws ts op0 op' new id rs pend pend1 rest X :
    Bpre2 strict st b e G S -> LSt tys st e G (b_parent b) pend rest X ->
    wire_tys G args = Some ts -> get_wires e args = Ok ws -> use_wires tys G pend args = Some pend1 ->
    s_nodes st1 = s_nodes st ++ [mk op0 (b_parent b)] -> WNew st1 (s_len st) 0 ws ts new ->
    s_nodes st' = s_nodes st ++ [mk op' (b_parent b)] -> s_links st' = s_links st ++ new ->
    fresh_ws G rs = true -> covers tys rs (val_out op') = true ->
    LSt tys st' (bind_outs (bind_stmt e id (s_len st)) (s_len st) rs) (tbind G rs (val_out op')) (b_parent b)
        (lin_outs tys rs (val_out op') ++ pend1) rest X /\
    WStable e (bind_outs (bind_stmt e id (s_len st)) (s_len st) rs).
  Proof.
    intros [I R F O EP Ws Ss LI Q0] LS WT Gw UW En1 HW En' El' FR CV.
    destruct (OpenB2_pos _ _ O) as (Pp & _). fold (s_len st) in Pp.
    pose proof (OpenB2_lt _ _ O) as Lb. fold (s_len st) in Lb.
    destruct (WNew_facts _ _ _ _ _ _ HW) as [Hcnt Hshape].
    assert (X1 : Ext st st') by (eapply Ext_app; exact En').
    assert (L' : s_len st' = s_len st + 1) by (rewrite (s_len_app2 _ _ _ En'); reflexivity).
    assert (Hn : nthN (s_nodes st') (s_len st) = Some (mk op' (b_parent b))) by (rewrite En'; unfold s_len; apply nthN_len).
    assert (Hws : forall q, In q ws -> fst q <> s_len st).
    { intros q Hq. destruct (args_typed _ _ _ _ _ _ Ws WT Gw q Hq) as [Lq _]. unfold s_len. lia. }
    assert (W' : Wsound (s_nodes st') e G) by (eapply Wsound_grow; [|exact Ws]; rewrite En'; apply Grow2_app).
    assert (LS1 : LSt tys st' e G (b_parent b) pend1 rest (fun k => k = s_len st \/ X k)).
    { apply (LS_consume tys st st' e G (b_parent b) pend pend1 rest X (fun k => k = s_len st) args ws ts new (s_len st) LS Ws (proj2 I) WT Gw UW X1 El').
      - intros p _. apply Hcnt.
      - intros x j ->. rewrite Hcnt. now apply ports_not.
      - intros e0 a Hin Ea. left. now apply Hshape.
      - intros n ->. lia.
      - intros p Hp. rewrite En'. apply lin_at_app. intros k nd Hk Hl. destruct k as [|[|k]]; cbn in Hk; try discriminate.
        elim Hp. unfold s_len. lia.
      - eapply s_parent_mk; [exact Hn|lia].
      - lia. }
    destruct LS1 as [LI1 LC1 SL1 WN1 LF1 LO1].
    destruct (fresh_ws_aligned _ _ _ _ Ws FR) as [NDr Fr].
    assert (HnX : ~ X (s_len st)) by (intros Q; pose proof (ls_old _ _ _ _ _ _ _ _ LS _ Q); lia).
    split; [|now apply WStable_bind].
    assert (WNx : WNot e G X) by (eapply WNot_weaken; [|exact WN1]; intros n Q; now right).
    assert (LFx : LinkFree st' X) by (intros x j Q; apply LF1; now right).
    assert (LOx : forall n, X n -> n < s_len st') by (intros n Q; apply LO1; now right).
    assert (Hn0 : s_len st <> 0) by lia.
    assert (C0 : forall j, cntf (s_links st') (s_len st, j) = 0) by (intros j; apply LF1; now left).
    apply (LS_bind tys st' e _ G (b_parent b) pend1 rest X (s_len st) (mk op' (b_parent b)) rs LI1 LC1 SL1 WNx LFx LOx W' HnX Hn0 Hn eq_refl C0 FR CV).
    - intros w Hw. now apply wport_bind_old.
    - intros j r Hj. now apply wport_bind_new.
    - apply WNot_bind; [exact HnX|exact WNx].
  Qed.

  (* a container with its Input / Output nodes, appended and wired: the state at the entry of its region *)
  Lemma container_lin strict b st e G S st4 stm args ws ts co ti new pend pend1 rest X :
    Bpre2 strict st b e G S -> LSt tys st e G (b_parent b) pend rest X ->
    wire_tys G args = Some ts -> get_wires e args = Ok ws -> use_wires tys G pend args = Some pend1 ->
    s_nodes st4 = s_nodes st ++ [mk co (b_parent b); mk (Input ti) (s_len st); mk (Output []) (s_len st)] ->
    s_links st4 = s_links st ++ new -> WNew stm (s_len st) 0 ws ts new -> open_op co ti ->
    LSt tys st4 e G (b_parent b) pend1 rest (fun n => n = s_len st + 1 \/ X n).
  Proof.
    intros [I R F O EP Ws Ss LI Q0] LS WT Gw UW En4 El4 HW Hop.
    destruct (OpenB2_pos _ _ O) as (Pp & _). fold (s_len st) in Pp.
    pose proof (OpenB2_lt _ _ O) as Lb. fold (s_len st) in Lb.
    destruct (WNew_facts _ _ _ _ _ _ HW) as [Hcnt Hshape].
    assert (X4 : Ext st st4) by (eapply Ext_app; exact En4).
    assert (L4 : s_len st4 = s_len st + 3) by (rewrite (s_len_app2 _ _ _ En4); reflexivity).
    assert (Hd : nthN (s_nodes st4) (s_len st) = Some (mk co (b_parent b))) by (rewrite En4; unfold s_len; apply nthN_len).
    apply (LS_consume tys st st4 e G (b_parent b) pend pend1 rest X (fun k => k = s_len st + 1) args ws ts new (s_len st) LS Ws (proj2 I) WT Gw UW X4 El4).
    - intros p _. apply Hcnt.
    - intros x j ->. rewrite Hcnt. apply ports_not. intros q Hq. destruct (args_typed _ _ _ _ _ _ Ws WT Gw q Hq) as [Lq _]. unfold s_len. lia.
    - intros e0 a Hin Ea. left. now apply Hshape.
    - intros n ->. lia.
    - intros p Hp. rewrite En4. apply lin_at_app. intros k nd Hk Hl. destruct k as [|[|[|k]]]; cbn in Hk.
      + inversion Hk; subst nd. exact (proj1 (open_op_no_out _ _ Hop)).
      + elim Hp. unfold s_len. lia.
      + inversion Hk; reflexivity.
      + destruct k; discriminate.
    - eapply s_parent_mk; [exact Hd|lia].
    - lia.
  Qed.

  (* DfBase.set_outputs at the end of a region *)
  Lemma close_lin st1 b e1 G1 oids ws outs st' pend1 rest X :
    Inv2 st1 -> OpenB2 (s_nodes st1) b -> Wsound (s_nodes st1) e1 G1 -> LinkInv2 st1 ->
    LSt tys st1 e1 G1 (b_parent b) pend1 rest X ->
    get_wires e1 oids = Ok ws -> wire_tys G1 oids = Some outs -> use_wires tys G1 pend1 oids = Some [] ->
    set_outputs2 tys st1 b ws = Ok st' ->
    LinInv2 tys st' e1 rest (fun n => n = b_parent b \/ X n) /\ SibLin tys st' /\ LinkFree st' X /\
    (forall j, cntf (s_links st') (b_parent b, j) = 0).
  Proof.
    intros I1 O1 W1 LI1 [LI LC SL WN LF LO] Gw WO UW SO.
    pose proof (set_outputs2_same _ _ _ _ _ SO (OpenB2_WB2 _ _ O1)) as S1.
    destruct (set_outputs2_spec _ _ _ _ _ SO O1) as (ts & new & o & ins & pp & o' & HW & El' & Hp1 & Hop & Hs & En').
    destruct (OpenB2_facts _ _ O1) as (Lb & Ei & Eo & _ & HPo & _).
    destruct O1 as (_ & _ & o1 & ins1 & pp1 & Hp1' & Hop1 & Hi1 & Ho1). rewrite Eo in HW.
    destruct (WNew_facts _ _ _ _ _ _ HW) as [Hcnt Hshape].
    destruct (open_op_no_out _ _ Hop) as [Vo Co].
    set (p := b_parent b) in *.
    assert (HT : Forall2 (fun q t => type_at (s_nodes st1) q = Some t) ws outs) by exact (Wsound_wires _ _ _ W1 _ _ _ WO Gw).
    assert (HwsP : forall q, In q ws -> fst q <> p) by (eapply Forall2_type_not_node; [exact HT|exact Hp1|exact Vo]).
    assert (HwsX : forall q, In q ws -> ~ X (fst q)).
    { intros q Hq. destruct (args_typed _ _ _ _ _ _ W1 WO Gw q Hq) as (_ & a & t & Ha & Hpa & Et). eapply WNot_wire; eauto. }
    assert (Hlin : forall q, fst q <> p -> lin_at tys (s_nodes st') q = lin_at tys (s_nodes st1) q).
    { intros q Hq. unfold lin_at, type_at. rewrite En'. rewrite nthN_set_nth_neq by exact Hq.
      destruct (N.eq_dec (fst q) (p + 2)) as [E2|E2].
      - rewrite E2, nthN_set_nth_eq by (fold (s_len st1); lia). rewrite Ho1. cbn. now rewrite !nthN_nil.
      - now rewrite nthN_set_nth_neq by exact E2. }
    assert (C0 : forall j, cntf (s_links st1) (p, j) = 0).
    { intros j. apply (cntf_no_out st1 p (mk o pp) j LI1 Hp1); auto. }
    destruct (use_wires_spec tys _ _ _ _ UW (NoDup_app_l _ _ (l2_nodup _ _ _ _ _ LI))) as (_ & _ & O1u).
    split; [|split; [|split]].
    - apply (consume2 tys st1 st' e1 G1 oids ws pend1 [] rest X (fun n => n = p \/ X n) new LI);
        [intros n Q; now right| |exact El'| |exact Gw|exact UW| |].
      + intros q Hq. apply Hlin. intros Q. apply Hq. now left.
      + intros q _. apply Hcnt.
      + eapply args_lin; eauto.
      + intros w q Hw Hq [Q|Q]; [|exact (l2_notX _ _ _ _ _ LI w q Hw Hq Q)].
        destruct (l2_pend _ _ _ _ _ LI w Hw) as (q' & Hq' & Hl & _). rewrite Hq in Hq'. inversion Hq'; subst q'.
        destruct q as [qn qj]. cbn [fst] in Q. subst qn. rewrite (lin_at_no_out tys _ _ _ qj Hp1 Vo) in Hl. discriminate.
    - eapply SL_step; [exact (Same_Ext _ _ S1)|exact (proj2 I1)|exact El'| | |exact SL].
      + intros e0 a Hin Ea Hl. destruct (N.eq_dec (e_src e0) p) as [Es|Es].
        * exfalso. pose proof (cntf_in _ _ _ Hin Ea) as Q. rewrite Es, C0 in Q. lia.
        * now rewrite Hlin in Hl.
      + intros e0 a Hin Ea Hl. destruct (Hshape e0 a Hin Ea) as [Hd Hw]. rewrite Hd.
        rewrite Hlin in Hl by (exact (HwsP _ Hw)).
        destruct (get_wires_arg _ _ _ Gw _ Hw) as (aw & Haw & Hpw).
        assert (Hlw : lin_w tys G1 aw = true) by (rewrite (args_lin tys _ _ _ _ _ W1 WO aw _ Haw Hpw); exact Hl).
        destruct (O1u _ Haw Hlw) as [Hp _]. destruct (LC _ Hp) as (q & Hq' & Hpar). rewrite Hpw in Hq'. inversion Hq'; subst q.
        cbn [fst] in Hpar. rewrite (parent_ext _ _ _ _ (Same_Ext _ _ S1) Hpar). symmetry. rewrite <- Eo.
        exact (parent_ext _ _ _ _ (Same_Ext _ _ S1) HPo).
    - intros x j Q. rewrite El', cntf_app, (LF _ j Q), Hcnt, ports_not; [reflexivity|]. intros q Hq E. subst x. exact (HwsX _ Hq Q).
    - intros j. rewrite El', cntf_app, C0, Hcnt, (ports_not _ _ _ HwsP). reflexivity.
  Qed.

  (* Hugr.insert_hugr: the inner program's accounting is carried over, indices shifted *)
  Lemma insert_lin st sti st1 parent e e1 G0 G1 P pend rest X :
    s_nodes st1 = s_nodes st ++ map (shiftn (s_len st) parent) (indexed (s_nodes sti)) ->
    s_links st1 = s_links st ++ map (shift_edge (s_len st)) (s_links sti) ->
    LinksOK st -> LinksOK sti -> LinksPos sti -> 0 < s_len sti ->
    LSt tys st e G0 P pend rest X ->
    LinInv2 tys sti e1 [] (fun _ => False) -> SibLin tys sti -> WStable e e1 ->
    Wsound (s_nodes st) e1 G1 -> WNot e1 G1 X ->
    LSt tys st1 e1 G1 P pend rest (fun n => n = s_len st \/ X n).
  Proof.
    intros A B K Ki LPi Pi [LI LC SL _ LF LO] LIi SLi WS W1 WN1.
    set (base := s_len st) in *.
    assert (X1 : Ext st st1) by (eapply Ext_app; exact A).
    assert (L1 : s_len st1 = base + s_len sti) by (unfold s_len; rewrite A, lenN_app, lenN_shifted; reflexivity).
    assert (Hold : forall q, fst q < base -> lin_at tys (s_nodes st1) q = lin_at tys (s_nodes st) q).
    { intros q Lq. unfold lin_at. rewrite A. now rewrite type_at_app. }
    assert (Hnew : forall j k, lin_at tys (s_nodes st1) (base + j, k) = lin_at tys (s_nodes sti) (j, k)).
    { intros j k. unfold lin_at, type_at. cbn [fst snd]. rewrite A. unfold base, s_len. rewrite nthN_app_ge by lia.
      replace (lenN (s_nodes st) + j - lenN (s_nodes st)) with j by lia. rewrite nthN_shifted.
      destruct (nthN (s_nodes sti) j); reflexivity. }
    assert (Hroot : forall j, cntf (s_links sti) (0, j) = 0).
    { intros j. apply countb_zero. intros e0 Hin. unfold LinksPos in LPi. rewrite forallb_forall in LPi. specialize (LPi _ Hin).
      apply andb_true_iff in LPi. destruct LPi as [P1 _]. apply negb_true_iff in P1. unfold from. cbn [fst]. now rewrite P1. }
    assert (Hpe : forall w q, In w (pend ++ rest) -> wport e1 w = Some q -> wport e w = Some q).
    { intros w q Hw Hq. destruct (l2_pend _ _ _ _ _ LI w Hw) as (q' & Hq' & _). rewrite (WS _ _ Hq') in Hq. now inversion Hq; subst. }
    constructor.
    - constructor.
      + exact (l2_nodup _ _ _ _ _ LI).
      + intros w Hw. destruct (l2_pend _ _ _ _ _ LI w Hw) as (q & Hq & Hl & Hc). exists q. split; [now apply WS|].
        pose proof (lin_at_lt _ _ _ Hl) as Lq. fold (s_len st) in Lq. fold base in Lq. split; [now rewrite Hold|].
        rewrite B, cntf_app, Hc. destruct q as [qn qj]. cbn [fst] in Lq. now rewrite cntf_shift_old.
      + intros w w' q Hw Hw' Hq Hq'. eapply (l2_inj _ _ _ _ _ LI); eauto.
      + intros q Q0 Q1 Hl. destruct (N.lt_ge_cases (fst q) base) as [Lq|Gq].
        * rewrite Hold in Hl by exact Lq. destruct (l2_all _ _ _ _ _ LI q Q0) as [Hc|(w & Hw & Hq)]; [intros Q; apply Q1; now right|exact Hl| |].
          -- left. rewrite B, cntf_app, Hc. destruct q as [qn qj]. cbn [fst] in Lq. now rewrite cntf_shift_old.
          -- right. exists w. split; [exact Hw|now apply WS].
        * left. destruct q as [qn qj]. cbn [fst] in *. replace qn with (base + (qn - base)) in * by lia.
          set (j := qn - base) in *. assert (Hj : j <> 0) by (intros E; apply Q1; left; lia).
          rewrite Hnew in Hl. rewrite B, cntf_app, (cntf_fresh _ _ _ K) by (fold base; lia). rewrite cntf_shift.
          destruct (l2_all _ _ _ _ _ LIi (j, qj) Hj (fun F => F) Hl) as [Hc|(w & [] & _)]. exact Hc.
      + intros w q Hw Hq. pose proof (Hpe w q Hw Hq) as Hq0. intros [Q|Q].
        * pose proof (pend_lt _ _ _ _ _ _ _ LI Hw Hq0). fold base in H. lia.
        * exact (l2_notX _ _ _ _ _ LI w q Hw Hq0 Q).
    - eapply Local_stable; [exact WS|]. eapply Local_ext; eauto.
    - eapply SL_step; [exact X1|exact K|exact B| | |exact SL].
      + intros e0 a Hin _ Hl. rewrite Hold in Hl; [exact Hl|]. exact (proj1 (LinksOK_in _ _ K Hin)).
      + intros e' a Hin Ea Hl. apply in_map_iff in Hin. destruct Hin as (e0 & <- & Hin). cbn [shift_edge e_src e_dst e_soff] in *.
        fold base in Hl |- *. rewrite Hnew in Hl. pose proof (SLi e0 a Hin Ea Hl) as Q.
        destruct (LinksOK_in _ _ Ki Hin) as [Ls Ld].
        unfold LinksPos in LPi. rewrite forallb_forall in LPi. specialize (LPi _ Hin). apply andb_true_iff in LPi.
        destruct LPi as [P1 P2]. apply negb_true_iff, N.eqb_neq in P1, P2.
        destruct (s_parent_exists _ _ P1 Ls) as [ps Hps]. destruct (s_parent_exists _ _ P2 Ld) as [pd Hpd].
        pose proof (s_parent_shift st sti st1 parent A _ _ Hps) as Qs. pose proof (s_parent_shift st sti st1 parent A _ _ Hpd) as Qd.
        fold base in Qs, Qd. rewrite Qs, Qd. congruence.
    - eapply WNot_new; [exact W1|exact WN1|]. intros n [->|Q]; [right; unfold base, s_len; lia|now left].
    - intros x j [->|Q]; rewrite B, cntf_app.
      + rewrite (cntf_fresh _ _ _ K) by lia. pose proof (cntf_shift base (s_links sti) 0 j) as Qc. rewrite N.add_0_r in Qc. now rewrite Qc, Hroot.
      + rewrite (LF _ j Q). apply cntf_shift_old. exact (LO _ Q).
    - intros n [->|Q]; [lia|]. pose proof (LO _ Q). lia.
  Qed.

  (* ---------------------------------------------------------------- the induction *)
  Definition LS2 (s : stmt2) : Prop := forall strict b st e st' e' G S G' S' pend pend' rest X,
    exec_stmt2 tys s b st e = Ok (st', e') -> wt_stmt2 tys s G S = Some (G', S') -> lin_stmt2 tys s G S pend = Some pend' ->
    croot_stmt strict s = true -> Bpre2 strict st b e G S -> LSt tys st e G (b_parent b) pend rest X ->
    LSt tys st' e' G' (b_parent b) pend' rest X /\ WStable e e'.
  Definition LR2 (r : region2) : Prop := forall strict b st e st' e' G S G' S' ins outs rest X,
    exec_region2 tys r b st e = Ok (st', e') -> wt_region2 tys r ins G S = Some (G', S', outs) ->
    lin_region2 tys r ins G S = true -> croot_region strict r = true -> Bpre2 strict st b e G S ->
    (exists o pp, nthN (s_nodes st) (b_parent b) = Some (mk o pp) /\ open_op o ins) ->
    LinInv2 tys st e rest (fun n => n = b_in b \/ X n) -> SibLin tys st -> WNot e G X -> LinkFree st X ->
    (forall n, X n -> n < s_len st) -> ~ X (b_in b) -> ~ X (b_parent b) -> (forall j, cntf (s_links st) (b_in b, j) = 0) ->
    LinInv2 tys st' e' rest (fun n => n = b_parent b \/ X n) /\ SibLin tys st' /\ WNot e' G' X /\ LinkFree st' X /\
    WStable e e' /\ (forall j, cntf (s_links st') (b_parent b, j) = 0).
  Definition LL2 (l : stmts2) : Prop := forall strict b st e st' e' G S G' S' pend pend' rest X,
    exec_stmts2 tys l b st e = Ok (st', e') -> wt_stmts2 tys l G S = Some (G', S') -> lin_stmts2 tys l G S pend = Some pend' ->
    croot_stmts strict l = true -> Bpre2 strict st b e G S -> LSt tys st e G (b_parent b) pend rest X ->
    LSt tys st' e' G' (b_parent b) pend' rest X /\ WStable e e'.
  Definition LC2 (cs : cases2) : Prop := forall strict c rows others s pp bs cur st e st' e' bs' cur' G S G' S' cur2 rest X,
    exec_cases2 tys cs c bs cur st e = Ok (st', e', bs', cur') -> wt_cases2 tys cs rows others G S cur = Some (G', S', cur2) ->
    lin_cases2 tys cs rows others G S = true -> croot_cases strict cs = true ->
    Inv2 st -> RootDF strict (s_nodes st) -> Fbase2 st -> EnvPos e -> CasesInv (s_nodes st) c rows others s pp cur bs ->
    c + 1 + 3 * lenN rows <= s_len st -> Wsound (s_nodes st) e G -> Ssound (s_nodes st) e S -> LinkInv2 st -> InOnce st ->
    LinInv2 tys st e rest (Xc c bs X) -> SibLin tys st -> WNot e G (Xc c bs X) -> LinkFree st (Xc c bs X) ->
    (forall n, X n -> n < c) ->
    LinInv2 tys st' e' rest (Xc c bs' X) /\ SibLin tys st' /\ WNot e' G' (Xc c bs' X) /\ LinkFree st' (Xc c bs' X) /\
    WStable e e'.
  Definition LP2 (p : prog2) : Prop := forall e st' e' G S G' S' sin sout,
    exec_prog2 tys p e = Ok (st', e') -> wt_progx tys p G S = Some (G', S', (sin, sout)) -> lin_progx tys p G S = true ->
    croot_ok p = true -> EnvPos e -> Wsound [] e G -> Ssound [] e S ->
    LinInv2 tys st' e' [] (fun _ => False) /\ SibLin tys st' /\ WStable e e'.

  Lemma WStable_refl e : WStable e e. Proof. intros w p H. exact H. Qed.
  Lemma WStable_trans a b c : WStable a b -> WStable b c -> WStable a c.
  Proof. intros H1 H2 w p H. apply H2. now apply H1. Qed.

  (* a statement's container (or inserted root) d has been completed: its outputs are bound *)
  Lemma exit_lin st' e e5 G5 P pend1 rest X d nd id rs :
    LinInv2 tys st' e5 (pend1 ++ rest) (fun n => n = d \/ X n) -> Local st' e5 pend1 P -> SibLin tys st' ->
    WNot e5 G5 X -> LinkFree st' X -> (forall n, X n -> n < d) -> d < s_len st' -> d <> 0 ->
    Wsound (s_nodes st') e5 G5 -> nthN (s_nodes st') d = Some nd -> n_parent nd = P ->
    (forall j, cntf (s_links st') (d, j) = 0) -> fresh_ws G5 rs = true -> covers tys rs (val_out (n_op nd)) = true ->
    WStable e e5 ->
    LSt tys st' (bind_outs (bind_stmt e5 id d) d rs) (tbind G5 rs (val_out (n_op nd))) P
      (lin_outs tys rs (val_out (n_op nd)) ++ pend1) rest X /\ WStable e (bind_outs (bind_stmt e5 id d) d rs).
  Proof.
    intros LI LC SL WN LF LO Ld Hd0 W En HP C0 FR CV WS.
    destruct (fresh_ws_aligned _ _ _ _ W FR) as [NDr Fr].
    assert (HdX : ~ X d) by (intros Q; pose proof (LO _ Q); lia).
    assert (LO' : forall n, X n -> n < s_len st') by (intros n Q; pose proof (LO _ Q); lia).
    split; [|eapply WStable_trans; [exact WS|now apply WStable_bind]].
    apply (LS_bind tys st' e5 _ G5 P pend1 rest X d nd rs LI LC SL WN LF LO' W HdX Hd0 En HP C0 FR CV).
    - intros w Hw. now apply wport_bind_old.
    - intros j r Hj. now apply wport_bind_new.
    - now apply WNot_bind.
  Qed.

  Lemma exec2_linear : (forall s, LS2 s) /\ (forall r, LR2 r) /\ (forall l, LL2 l) /\ (forall cs, LC2 cs) /\ (forall p, LP2 p).
  Proof.
    destruct (exec2_typed tys) as (TSs & TRr & TLl & TCc & TPp).
    apply prog2_mutind; unfold LS2, LR2, LL2, LC2, LP2.
    - (* TOp *)
      intros id o args rs strict b st e st' e' G S G' S' pend pend' rest X H W LN Hc P LS.
      destruct (wl_TOp_inv _ _ _ _ _ _ _ _ _ _ _ W LN) as (ts_s & op_s & pend1 & WT & CS & Hin & OK & UW & FR & CV & -> & -> & ->).
      rewrite exec_TOp_SOp in H. apply SOp_spec in H.
      destruct H as (ws & ts & op' & new & st1 & Gw & Lp & En1 & El1 & HW & C & En' & El' & ->).
      destruct (wired_types2 _ _ _ _ _ _ _ _ _ _ _ _ (bq_W _ _ _ _ _ _ P) Gw WT En1 HW) as [-> HT].
      rewrite C in CS. inversion CS; subst op_s; clear CS.
      exact (leaf_lin strict b st e G S st1 st' args ws ts_s (initial_op o) op' new id rs pend pend1 rest X P LS WT Gw UW En1 HW En' El' FR CV).
    - (* TLoad *)
      intros id v cp r strict b st e st' e' G S G' S' pend pend' rest X H W LN Hc P LS.
      destruct (wl_TLoad_inv _ _ _ _ _ _ _ _ _ _ _ W LN) as (VO & FR & -> & -> & ->).
      pose proof P as [I R F O EP Ws Ss LI Q0].
      destruct (OpenB2_pos _ _ O) as (Pp & _). fold (s_len st) in Pp.
      pose proof (OpenB2_lt _ _ O) as Lb. fold (s_len st) in Lb.
      rewrite exec_TLoad_SLoad in H. apply SLoad_spec in H. destruct H as (En' & El' & ->).
      set (n := s_len st) in *.
      assert (X1 : Ext st st') by (eapply Ext_app; exact En').
      assert (L' : s_len st' = n + 2) by (rewrite (s_len_app2 _ _ _ En'); reflexivity).
      assert (Hcn : nthN (s_nodes st') n = Some (mk (Const v) (match cp with CHere => b_parent b | CRoot => 0 end)))
        by (rewrite En'; unfold n, s_len; apply nthN_len).
      assert (Hn : nthN (s_nodes st') (n + 1) = Some (mk (LoadConst (value_ty v)) (b_parent b))).
      { rewrite En'. rewrite nthN_app_ge by (unfold n, s_len; lia). unfold n, s_len.
        replace (lenN (s_nodes st) + 1 - lenN (s_nodes st)) with 1 by lia. reflexivity. }
      assert (W' : Wsound (s_nodes st') e G) by (eapply Wsound_grow; [|exact Ws]; rewrite En'; apply Grow2_app).
      assert (LS1 : LSt tys st' e G (b_parent b) pend rest (fun k => k = n + 1 \/ X k)).
      { apply (LS_consume tys st st' e G (b_parent b) pend pend rest X (fun k => k = n + 1) [] [] [] _ (n + 1) LS Ws (proj2 I)
                 eq_refl eq_refl eq_refl X1 El').
        - intros p Lp. cbn [countb]. apply countb_zero. intros e0 [<-|[]]. unfold from. cbn [e_src].
          replace (n =? fst p) with false; [reflexivity|]. symmetry. apply N.eqb_neq. fold n in Lp. lia.
        - intros x j ->. apply countb_zero. intros e0 [<-|[]]. unfold from. cbn [e_src fst].
          replace (n =? n + 1) with false; [reflexivity|]. symmetry. apply N.eqb_neq. lia.
        - intros e0 a [<-|[]] _. right. cbn [e_src]. apply (lin_at_no_out tys _ _ _ a Hcn). reflexivity.
        - intros k ->. fold n. lia.
        - intros p Hp. rewrite En'. apply lin_at_app. intros k nd Hk Hl. destruct k as [|[|k]]; cbn in Hk.
          + inversion Hk; reflexivity.
          + elim Hp. unfold n, s_len. lia.
          + destruct k; discriminate.
        - eapply s_parent_mk; [exact Hn|lia].
        - fold n. lia. }
      destruct LS1 as [LI1 LC1 SL1 WN1 LF1 LO1].
      assert (WNx : WNot e G X) by (eapply WNot_weaken; [|exact WN1]; intros k Q; now right).
      assert (LFx : LinkFree st' X) by (intros x j Q; apply LF1; now right).
      assert (C0 : forall j, cntf (s_links st') (n + 1, j) = 0) by (intros j; apply LF1; now left).
      apply (exit_lin st' e e G (b_parent b) pend rest X (n + 1) (mk (LoadConst (value_ty v)) (b_parent b)) id [r]); auto; try lia.
      + intros k Q. pose proof (ls_old _ _ _ _ _ _ _ _ LS _ Q). fold n in H. lia.
      + unfold covers. cbn. now rewrite orb_true_r.
      + apply WStable_refl.
    - (* TNested *)
      intros id args body IH rs strict b st e st' e' G S G' S' pend pend' rest X H W LN Hc P LS.
      destruct (wl_TNested_inv _ _ _ _ _ _ _ _ _ _ _ W LN) as (ts_s & G1 & S1 & outs & pend1 & WT & WR & UW & LRg & FR & CV & -> & -> & ->).
      destruct (exec_TNested_inv _ _ _ _ _ _ _ _ _ _ H)
        as (ws & ts & st1 & d & st2 & i & st3 & o & st4 & ts4 & e5 & Gw & WTy & E1 & E2 & E3 & E4 & E5 & ->).
      pose proof (Wsound_wires _ _ _ (bq_W _ _ _ _ _ _ P) _ _ _ WT Gw) as HT.
      assert (ts = ts_s) by (eapply types_agree2; [exact HT|now apply wire_types_type_at]). subst ts_s.
      pose proof (OpenB2_lt _ _ (bq_open _ _ _ _ _ _ P)) as Lb. fold (s_len st) in Lb.
      destruct (container_spec _ _ _ _ _ _ _ _ _ _ _ _ _ E1 E2 E3 E4) as (new & Lp & Ed & Ei & Eo & En3 & El3 & HW & En4 & El4 & L4).
      destruct (container_typed strict st b e G S ws ts (DFG ts []) ts _ _ _ _ _ _ _ _ P E1 E2 E3 E4 HT
                  (get_wires_pos2 _ _ _ (bq_pos _ _ _ _ _ _ P) Gw) (or_introl eq_refl) eq_refl eq_refl eq_refl eq_refl)
        as (P4 & _ & _ & _ & K4 & _ & -> & Hd).
      subst d i o. rewrite En3 in En4.
      destruct (container_lin strict b st e G S st4 st3 args ws ts (DFG ts []) ts new pend pend1 rest X P LS WT Gw UW En4 El4 HW (or_introl eq_refl))
        as [LI4 LC4 SL4 WN4 LF4 LO4].
      assert (Hop : exists o pp, nthN (s_nodes st4) (s_len st) = Some (mk o pp) /\ open_op o ts).
      { exists (DFG ts []), (b_parent b). split; [exact Hd|now left]. }
      cbn [croot_stmt] in Hc.
      destruct (IH strict _ _ _ _ _ _ _ _ _ _ _ (pend1 ++ rest) X E5 WR LRg Hc P4 Hop LI4 SL4) as (LI' & SL' & WN' & LF' & WS5 & C5).
      { eapply WNot_weaken; [|exact WN4]. intros k Q. now right. }
      { intros x j Q. apply LF4. now right. }
      { intros k Q. apply LO4. now right. }
      { cbn [b_in mkb]. intros Q. pose proof (ls_old _ _ _ _ _ _ _ _ LS _ Q). lia. }
      { cbn [b_parent mkb]. intros Q. pose proof (ls_old _ _ _ _ _ _ _ _ LS _ Q). lia. }
      { intros j. apply LF4. now left. }
      destruct (TRr _ strict _ _ _ _ _ _ _ _ _ _ _ E5 WR Hc P4 Hop) as (W' & _ & _ & _ & Ho' & _).
      destruct (region_pre2 _ _ _ _ _ _ _ _ _ _ E5 Hc P4) as (_ & _ & _ & _ & _ & L' & _ & (o & ins & pp & ts' & o' & Ha & Hopx & Hs & Eb0 & Eb1 & Eb2) & X45).
      cbn [b_parent b_out mkb] in *. rewrite Hd in Ha. inversion Ha; subst o pp; clear Ha. cbn in Hs. inversion Hs; subst o'; clear Hs.
      rewrite Eb2 in Ho'. inversion Ho'; subst ts'; clear Ho'.
      apply (exit_lin st' e e5 G1 (b_parent b) pend1 rest X (s_len st) (mk (DFG ts outs) (b_parent b)) id rs); auto; try lia.
      + eapply Local_stable; [exact WS5|]. eapply Local_ext; eauto.
      + intros k Q. exact (ls_old _ _ _ _ _ _ _ _ LS _ Q).
    - (* TOrder *)
      intros src dst strict b st e st' e' G S G' S' pend pend' rest X H W LN Hc P LS.
      cbn [wt_stmt2] in W. destruct (order_ends_ok src dst && stmt_alive S src && stmt_alive S dst); [|discriminate].
      inversion W; subst G' S'; clear W. cbn [lin_stmt2] in LN. inversion LN; subst pend'; clear LN.
      pose proof P as [I R F O EP Ws Ss LI Q0]. destruct LS as [LIv LC SL WN LF LO].
      rewrite exec_TOrder_SOrder in H. apply SOrder_spec in H. destruct H as (a & c & Na & Nc & En' & El' & ->).
      split; [|apply WStable_refl].
      assert (El : exists new, s_links st' = s_links st ++ new /\ (forall p, cntf new p = 0) /\ forall e0, In e0 new -> e_soff e0 = None).
      { destruct El' as [El'|El']; [exists []; split; [now rewrite app_nil_r|split; [reflexivity|intros e0 []]]|].
        exists [olink a c]. split; [exact El'|]. split; [|intros e0 [<-|[]]; reflexivity].
        intros p. unfold cntf, from, olink. cbn [countb e_src e_soff optN_eqb option_eqb]. now rewrite andb_false_r. }
      destruct El as (new & El & Cn & Sn).
      assert (X1 : Ext st st') by (apply Ext_nodes_eq; exact En').
      constructor.
      + apply (consume2 tys st st' e G [] [] pend pend rest X X new LIv (fun n Q => Q)); [|exact El| |reflexivity|reflexivity| |].
        * intros p _. now rewrite En'.
        * intros p _. now rewrite Cn.
        * intros a0 p [].
        * intros w p Hw Hp. exact (l2_notX _ _ _ _ _ LIv w p Hw Hp).
      + eapply Local_ext; eauto.
      + eapply SL_step; [exact X1|exact (proj2 I)|exact El| | |exact SL].
        * intros e0 a0 Hin _ Hl. now rewrite En' in Hl.
        * intros e0 a0 Hin Ea. rewrite (Sn _ Hin) in Ea. discriminate.
      + exact WN.
      + intros x j Q. now rewrite El, cntf_app, (LF _ j Q), Cn.
      + intros k Q. rewrite (s_len_nodes _ _ En'). now apply LO.
    - (* TLoop *)
      intros id just rest0 body IH rs strict b st e st' e' G S G' S' pend pend' rest X H W LN Hc P LS.
      destruct (wl_TLoop_inv _ _ _ _ _ _ _ _ _ _ _ _ W LN)
        as (jt_s & rt_s & G1 & S1 & t & cp & jo & pend1 & WJ & WR0 & WR & Et & UW & LRg & FR & CV & -> & -> & ->).
      destruct (exec_TLoop_inv _ _ _ _ _ _ _ _ _ _ _ H)
        as (jw & rw & jt & rt & st1 & d & st2 & i & st3 & o & st4 & ts4 & e5 & G1w & G2w & T1 & T2 & E1 & E2 & E3 & E4 & E5 & ->).
      pose proof (Wsound_wires _ _ _ (bq_W _ _ _ _ _ _ P) _ _ _ WJ G1w) as HT1.
      pose proof (Wsound_wires _ _ _ (bq_W _ _ _ _ _ _ P) _ _ _ WR0 G2w) as HT2.
      assert (jt = jt_s) by (eapply types_agree2; [exact HT1|now apply wire_types_type_at]). subst jt_s.
      assert (rt = rt_s) by (eapply types_agree2; [exact HT2|now apply wire_types_type_at]). subst rt_s.
      assert (HT : Forall2 (fun p t => type_at (s_nodes st) p = Some t) (jw ++ rw) (jt ++ rt)) by now apply Forall2_app.
      assert (Hpos : forall w, In w (jw ++ rw) -> 0 < fst w).
      { intros w Hin. apply in_app_or in Hin. pose proof (bq_pos _ _ _ _ _ _ P) as EP0.
        destruct Hin; [eapply (get_wires_pos2 _ _ _ EP0 G1w)|eapply (get_wires_pos2 _ _ _ EP0 G2w)]; assumption. }
      pose proof (wire_tys_app _ _ _ _ _ WJ WR0) as WT. pose proof (get_wires_app _ _ _ _ _ G1w G2w) as Gw.
      pose proof (OpenB2_lt _ _ (bq_open _ _ _ _ _ _ P)) as Lb. fold (s_len st) in Lb.
      destruct (container_spec _ _ _ _ _ _ _ _ _ _ _ _ _ E1 E2 E3 E4) as (new & Lp & Ed & Ei & Eo & En3 & El3 & HW & En4 & El4 & L4).
      destruct (container_typed strict st b e G S (jw ++ rw) (jt ++ rt) (TailLoop (jt ++ rt) [] [] (lenN jt)) (jt ++ rt)
                  _ _ _ _ _ _ _ _ P E1 E2 E3 E4 HT Hpos (or_intror (or_intror (ex_intro _ (lenN jt) eq_refl))) eq_refl eq_refl)
        as (P4 & _ & _ & _ & K4 & _ & -> & Hd).
      { cbn. now rewrite app_nil_r. }
      { reflexivity. }
      subst d i o. rewrite En3 in En4.
      destruct (container_lin strict b st e G S st4 st3 (just ++ rest0) (jw ++ rw) (jt ++ rt) (TailLoop (jt ++ rt) [] [] (lenN jt)) (jt ++ rt)
                  new pend pend1 rest X P LS WT Gw UW En4 El4 HW (or_intror (or_intror (ex_intro _ (lenN jt) eq_refl))))
        as [LI4 LC4 SL4 WN4 LF4 LO4].
      assert (Hop : exists o pp, nthN (s_nodes st4) (s_len st) = Some (mk o pp) /\ open_op o (jt ++ rt)).
      { exists (TailLoop (jt ++ rt) [] [] (lenN jt)), (b_parent b). split; [exact Hd|right; right; eauto]. }
      cbn [croot_stmt] in Hc.
      destruct (IH strict _ _ _ _ _ _ _ _ _ _ _ (pend1 ++ rest) X E5 WR LRg Hc P4 Hop LI4 SL4) as (LI' & SL' & WN' & LF' & WS5 & C5).
      { eapply WNot_weaken; [|exact WN4]. intros k Q. now right. }
      { intros x j Q. apply LF4. now right. }
      { intros k Q. apply LO4. now right. }
      { cbn [b_in mkb]. intros Q. pose proof (ls_old _ _ _ _ _ _ _ _ LS _ Q). lia. }
      { cbn [b_parent mkb]. intros Q. pose proof (ls_old _ _ _ _ _ _ _ _ LS _ Q). lia. }
      { intros j. apply LF4. now left. }
      destruct (TRr _ strict _ _ _ _ _ _ _ _ _ _ _ E5 WR Hc P4 Hop) as (W' & _ & _ & _ & Ho' & _).
      destruct (region_pre2 _ _ _ _ _ _ _ _ _ _ E5 Hc P4) as (_ & _ & _ & _ & _ & L' & _ & (o & ins & pp & ts' & o' & Ha & Hopx & Hs & Eb0 & Eb1 & Eb2) & X45).
      cbn [b_parent b_out mkb] in *. rewrite Hd in Ha. inversion Ha; subst o pp; clear Ha.
      rewrite Eb2 in Ho'. inversion Ho'; subst ts'; clear Ho'.
      cbn in Hs. rewrite Et, firstn_lenN_app, skipn_lenN_app, row_eqb_refl in Hs. inversion Hs; subst o'; clear Hs.
      apply (exit_lin st' e e5 G1 (b_parent b) pend1 rest X (s_len st) (mk (TailLoop jt jo rt t) (b_parent b)) id rs); auto; try lia.
      + eapply Local_stable; [exact WS5|]. eapply Local_ext; eauto.
      + intros k Q. exact (ls_old _ _ _ _ _ _ _ _ LS _ Q).
    - (* TCond *)
      intros id cond args cs IH rs strict b st e st' e' G S G' S' pend pend' rest X H W LN Hc P LS.
      destruct (wl_TCond_inv _ _ _ _ _ _ _ _ _ _ _ _ W LN)
        as (t_s & oth_s & cp_s & rows_s & G1 & S1 & outs & pend1 & WC & WA & Et & WCs & UW & LCs & FR & CV & -> & -> & ->).
      destruct (exec_TCond_inv _ _ _ _ _ _ _ _ _ _ _ H)
        as (cw & ws & t & others & cp & rows & st1 & c & st2 & bs & st3 & ts3 & e4 & bs' & cur' &
            G1w & G2w & WTy & Et' & E1 & E2 & E3 & E4 & Hd & ->).
      pose proof P as [I R F O EP Ws Ss LI Q0]. cbn [croot_stmt] in Hc.
      destruct (Wsound_wire _ _ _ _ _ Ws WC) as (p0 & Ep0 & Tp0). rewrite G1w in Ep0. inversion Ep0; subst p0; clear Ep0.
      pose proof (Wsound_wires _ _ _ Ws _ _ _ WA G2w) as HTa.
      assert (HT : Forall2 (fun p t => type_at (s_nodes st) p = Some t) (cw :: ws) (t_s :: oth_s)) by (constructor; assumption).
      assert (Eq : t :: others = t_s :: oth_s) by (eapply types_agree2; [exact HT|now apply wire_types_type_at]).
      inversion Eq; subst t_s oth_s; clear Eq. rewrite Et in Et'. inversion Et'; subst cp rows_s; clear Et'.
      destruct (OpenB2_pos _ _ O) as (Pp & _). fold (s_len st) in Pp.
      pose proof (OpenB2_lt _ _ O) as Lb. fold (s_len st) in Lb.
      assert (Hpos : forall w, In w (cw :: ws) -> 0 < fst w).
      { intros w [<-|Hin]; [eapply get_wire_pos2; eauto|eapply get_wires_pos2; eauto]. }
      destruct (InvX_add_df _ _ _ _ _ (Some (s_len st)) E1 I (proj1 (OpenB2_WB2 _ _ O)) eq_refl eq_refl eq_refl (or_introl eq_refl))
        as (I1 & X1 & N1 & L1 & _).
      assert (K1 : kindp is_cond (s_nodes st1) c).
      { exists (mk (Conditional rows others [] t) (b_parent b)). split; [|reflexivity]. rewrite L1, N1. unfold s_len. apply nthN_len. }
      rewrite <- N1 in I1.
      destruct (make_cases_inv _ _ _ _ _ _ _ E2 I1 K1 (or_intror eq_refl)) as (I2 & X2 & F2 & Ln & _).
      pose proof (Frame_Same _ _ (wire_up_from_frame _ _ _ _ _ _ E3)) as S3.
      destruct rows as [|r0 rows'].
      { destruct bs; [|unfold lenN in Ln; cbn in Ln; lia].
        destruct (exec_cases2_no_builders _ _ _ _ _ _ _ _ _ _ E4) as [-> ->]. discriminate Hd. }
      pose proof (InvX_Same _ _ _ S3 I2) as I3.
      pose proof (Ext_trans _ _ _ X1 (Ext_trans _ _ _ X2 (Same_Ext _ _ S3))) as X3.
      destruct (make_cases_spec _ _ _ _ _ _ E2) as (_ & _ & Ebs).
      destruct (cond_entry _ _ _ _ _ _ _ _ _ _ _ _ F Pp Hpos E1 E2 E3) as (new & -> & EQ2 & En3 & El3 & HW & L3 & F3 & CI3).
      assert (H1l : s_len st1 = s_len st + 1) by (rewrite (s_len_app2 _ _ _ L1); reflexivity). rewrite H1l in Ebs.
      assert (GR3 : Grow2 (s_nodes st) (s_nodes st3)) by (rewrite En3, EQ2; apply Grow2_app).
      assert (ts3 = t :: others).
      { eapply types_agree2; [|exact (WNew_types2 _ _ _ _ _ _ HW)]. eapply Forall2_type_grow; [|exact HT]. rewrite EQ2. apply Grow2_app. }
      subst ts3.
      assert (Hcn : nthN (s_nodes st3) (s_len st) = Some (mk (Conditional (r0 :: rows') others [] t) (b_parent b))).
      { rewrite En3, EQ2. unfold s_len. apply nthN_len. }
      assert (LI3 : LinkInv2 st3).
      { unfold LinkInv2. rewrite El3, forallb_app. apply andb_true_iff. split; [eapply LinkInv2_grow; eauto|].
        eapply (WNew_link_ok2 _ _ _ _ _ _ HW).
        - exact (proj1 (proj1 I2)).
        - rewrite <- En3. exact (proj1 F3).
        - intros w Hw. pose proof (Forall2_type_lt _ _ _ HT w Hw). unfold s_len. lia.
        - intros k nd _ E. exists nd. split; [now rewrite En3|apply grows2_refl].
        - exists (mk (Conditional (r0 :: rows') others [] t) (b_parent b)). split; [exact Hcn|]. cbn [mk n_op]. intros j t' Hj. now rewrite N.add_0_l. }
      assert (Q3 : InOnce st3).
      { eapply (InOnce_cond st st2 st3); eauto; [exact (proj2 I)|rewrite En3; exact EQ2|reflexivity|].
        intros j nd Ej. eapply case_blocks_base_in; eauto. }
      (* the argument wires are consumed; the Conditional and the Input nodes of its cases are exempt *)
      assert (WT : wire_tys G (cond :: args) = Some (t :: others)) by (cbn [wire_tys]; now rewrite WC, WA).
      assert (Gw : get_wires e (cond :: args) = Ok (cw :: ws)) by (cbn [get_wires]; rewrite G1w; cbn [bind]; rewrite G2w; reflexivity).
      assert (Hbs : forall k cb f, nthN bs k = Some (cb, f) -> k < lenN (r0 :: rows') /\ b_in cb = s_len st + 1 + 3 * k + 1 /\ f = false).
      { intros k cb f Hk. rewrite Ebs in Hk. destruct (case_builders_inv _ _ _ _ _ Hk) as (A1 & -> & A3). auto. }
      assert (X03 : Ext st st3) by exact X3.
      assert (LS3 : LSt tys st3 e G (b_parent b) pend1 rest (Xc (s_len st) bs X)).
      { unfold Xc. apply (LS_consume tys st st3 e G (b_parent b) pend pend1 rest X
                 (fun n => n = s_len st \/ exists k cb, nthN bs k = Some (cb, false) /\ n = b_in cb)
                 (cond :: args) (cw :: ws) (t :: others) new (s_len st) LS Ws (proj2 I) WT Gw UW X03 El3).
        - intros p _. eapply WNew_cntf; eauto.
        - intros x j Hx. rewrite (WNew_cntf _ _ _ _ _ _ HW). apply ports_not. intros q Hq E.
          pose proof (Forall2_type_lt _ _ _ HT q Hq) as Lq. fold (s_len st) in Lq.
          destruct Hx as [->|(k & cb & Hk & ->)]; [lia|]. destruct (Hbs _ _ _ Hk) as (_ & Hb & _). lia.
        - intros e0 a Hin Ea. left. exact (proj2 (WNew_facts _ _ _ _ _ _ HW) e0 a Hin Ea).
        - intros n [->|(k & cb & Hk & ->)]; [lia|]. destruct (Hbs _ _ _ Hk) as (Lk & Hb & _). rewrite lenN_cons in *. lia.
        - intros p Hp. rewrite En3, EQ2. apply lin_at_app. intros k nd Hk Hl. destruct k as [|k]; cbn [nth_error] in Hk.
          + inversion Hk; reflexivity.
          + destruct (list_eq_dec N.eq_dec (val_out (n_op nd)) []) as [V|V]; [exact V|exfalso].
            assert (Hk' : nthN (case_blocks (s_len st) others (r0 :: rows') (s_len st + 1)) (N.of_nat k) = Some nd)
              by (unfold nthN; now rewrite Nat2N.id).
            destruct (case_blocks_val_out _ _ _ _ _ _ Hk' V) as (k0 & Hk0 & Lk0).
            destruct (nthN_some_lt (r0 :: rows') k0 Lk0) as [row0 Hr0].
            apply Hp. right. exists k0, (mkb (s_len st + 1 + 3 * k0) (s_len st + 1 + 3 * k0 + 1) (s_len st + 1 + 3 * k0 + 2)).
            split; [rewrite Ebs; now apply (case_builders_nth _ _ _ row0)|]. cbn [b_in mkb]. unfold s_len in *. lia.
        - rewrite (s_parent_nodes st3 st2 En3). eapply s_parent_mk; [rewrite EQ2; unfold s_len; apply nthN_len|lia].
        - lia. }
      destruct LS3 as [LIv3 LC3 SL3 WN3 LF3 LO3].
      destruct (IH strict _ _ _ _ _ _ _ _ _ _ _ _ _ _ _ _ _ _ (pend1 ++ rest) X E4 WCs LCs Hc I3 (RootDF_ext _ _ _ X3 R) F3 EP CI3 ltac:(lia)
                  (Wsound_grow _ _ _ _ GR3 Ws) (Ssound_grow _ _ _ _ GR3 Ss) LI3 Q3 LIv3 SL3 WN3 LF3)
        as (LI' & SL' & WN' & LF' & WS4).
      { intros n Q. exact (ls_old _ _ _ _ _ _ _ _ LS _ Q). }
      destruct (TCc cs strict _ _ _ _ _ _ _ _ _ _ _ _ _ _ _ _ _ _ E4 WCs Hc I3 (RootDF_ext _ _ _ X3 R) F3 EP CI3 ltac:(lia)
                  (Wsound_grow _ _ _ _ GR3 Ws) (Ssound_grow _ _ _ _ GR3 Ss) LI3 Q3) as (Ecur & W' & _).
      destruct (exec2_frame tys) as (_ & _ & _ & FC & _).
      destruct (FC cs strict _ _ _ _ _ _ _ _ _ _ _ _ _ E4 Hc F3 EP CI3 ltac:(lia)) as (_ & L' & _ & CI' & _ & _).
      destruct (exec2_keeps_invariants tys) as (_ & _ & _ & KC & _).
      destruct (KC cs strict _ _ _ _ _ _ _ _ _ E4 Hc I3 (RootDF_ext _ _ _ X3 R)) as [_ X34].
      { intros cb f Hin. eapply WB2_ext; [apply Same_Ext; exact S3|]. exact (proj1 (F2 _ _ Hin)). }
      unfold cases_done in Hd. apply andb_true_iff in Hd. destruct Hd as [Hall Hsome]. subst cur'.
      pose proof (proj1 CI') as Hc'. cbn beta iota in Hc'.
      assert (Hiff : forall n, Xc (s_len st) bs' X n -> n = s_len st \/ X n).
      { intros n [[Q|(k & cb & Hk & _)]|Q]; [now left| |now right]. pose proof (forallb_snd_nth _ _ _ _ Hall Hk). discriminate. }
      assert (LIc : LinInv2 tys st' e4 (pend1 ++ rest) (fun n => n = s_len st \/ X n)).
      { eapply LinInv2_weaken; [exact Hiff| |exact LI']. intros w p Hw Hp Q. apply (l2_notX _ _ _ _ _ LI' w p Hw Hp).
        destruct Q as [Q|Q]; [left; now left|now right]. }
      apply (exit_lin st' e e4 G1 (b_parent b) pend1 rest X (s_len st) (mk (Conditional (r0 :: rows') others outs t) (b_parent b)) id rs); auto; try lia.
      + eapply Local_stable; [exact WS4|]. eapply Local_ext; eauto.
      + eapply WNot_weaken; [|exact WN']. intros n Q. now right.
      + intros x j Q. apply LF'. now right.
      + intros k Q. exact (ls_old _ _ _ _ _ _ _ _ LS _ Q).
      + intros j. apply LF'. left. now left.
    - (* TInsert *)
      intros id sub IH args rs strict b st e st' e' G S G' S' pend pend' rest X H W LN Hc P LS.
      destruct (wl_TInsert_inv _ _ _ _ _ _ _ _ _ _ _ W LN) as (Gs & Ss0 & sin & sout & pend1 & WP & WT & UW & LPx & FR & CV & -> & -> & ->).
      destruct (exec_TInsert_inv _ _ _ _ _ _ _ _ _ _ H) as (sti & e1 & ws & st1 & m & r & ts & E0 & Gw & E2 & Er & E4 & ->).
      pose proof P as [I R (M & CP & LP) O EP Ws Ss LI Q0]. cbn [croot_stmt] in Hc.
      destruct (IH _ _ _ _ _ _ _ _ _ E0 WP LPx Hc EP (Wsound_kill _ [] _ _ Ws) (Ssound_kill _ [] _ _ Ss)) as (LIi & SLi & WSi).
      destruct (TPp sub _ _ _ _ _ _ _ _ _ E0 WP Hc EP (Wsound_kill _ [] _ _ Ws) (Ssound_kill _ [] _ _ Ss))
        as (Wi & Si & LIi2 & Ti & Qi & ro & Hro & Hin & Hout & Oi & Oo & Hsr).
      destruct (exec2_keeps_invariants tys) as (_ & _ & _ & _ & HP). destruct (HP sub _ _ _ E0 Hc) as [[Gi Li] Ki].
      destruct (exec2_frame tys) as (_ & _ & _ & _ & FP). destruct (FP sub _ _ _ E0 Hc EP) as ((Mi & CPi & LPi) & EP1 & CFi).
      pose proof (proj1 (proj2 (proj2 Gi))) as Bi.
      destruct (insert_hugr_spec _ _ _ _ _ E2 Bi Li) as (A & B & MO & Lm).
      destruct (OpenB2_pos _ _ O) as (Pp & _). fold (s_len st) in Pp.
      pose proof (OpenB2_lt _ _ O) as Lb. fold (s_len st) in Lb.
      assert (Pi : 0 < s_len sti) by (eapply nthN_lt; eauto).
      assert (Hr : r = s_len st) by (rewrite (MO 0) in Er by lia; inversion Er; lia). subst r.
      pose proof (wire_up_spec _ _ _ _ _ E4) as (En4 & new & El4 & HW).
      assert (K1 : LinksOK st1).
      { apply (LinksOK_insert st st1 sti (proj2 I) Li); [|exact B]. unfold s_len. rewrite A, lenN_app, lenN_shifted. reflexivity. }
      assert (GR1 : Grow2 (s_nodes st) (s_nodes st1)) by (rewrite A; apply Grow2_app).
      destruct (Wsound_splice (s_nodes st) (s_nodes sti) e e1 G Gs S Ss0) as (W1 & S1x); auto.
      { exact (proj2 (proj2 (proj2 (proj2 (exec2_env_mono tys)))) _ _ _ _ E0). }
      { exact (proj2 (proj2 (proj2 (proj2 (wt_mono tys)))) _ _ _ _ _ _ WP). }
      assert (WNs : WNot e1 (splicew Gs G) X).
      { eapply (WNot_splice e e1 G Gs S Ss0 X (fun _ => False)).
        - exact (proj2 (proj2 (proj2 (proj2 (exec2_env_mono tys)))) _ _ _ _ E0).
        - exact (proj2 (proj2 (proj2 (proj2 (wt_mono tys)))) _ _ _ _ _ _ WP).
        - revert Wi. apply Aligned_impl. intros p ot _ _ Q. exact Q.
        - exact (ls_not _ _ _ _ _ _ _ _ LS). }
      pose proof (insert_lin st sti st1 (b_parent b) e e1 G (splicew Gs G) (b_parent b) pend rest X A B (proj2 I) Li LPi Pi LS LIi SLi WSi W1 WNs) as LS1.
      assert (Hn1 : nthN (s_nodes st1) (s_len st) = Some (mk ro (b_parent b))).
      { rewrite A. unfold s_len. rewrite nthN_app_ge by lia. rewrite N.sub_diag, nthN_shifted, Hro. reflexivity. }
      assert (W1' : Wsound (s_nodes st1) e1 (splicew Gs G)) by (eapply Wsound_grow; eauto).
      assert (L1 : s_len st1 = s_len st + s_len sti) by (unfold s_len; rewrite A, lenN_app, lenN_shifted; reflexivity).
      assert (LS2' : LSt tys st' e1 (splicew Gs G) (b_parent b) pend1 rest (fun n => False \/ (n = s_len st \/ X n))).
      { apply (LS_consume tys st1 st' e1 (splicew Gs G) (b_parent b) pend pend1 rest (fun n => n = s_len st \/ X n) (fun _ => False)
                 args ws sin new (s_len st) LS1 W1' K1 WT Gw UW (Ext_nodes_eq _ _ En4) El4).
        - intros p _. eapply WNew_cntf; eauto.
        - intros x j [].
        - intros e0 a Hin0 Ea. left. exact (proj2 (WNew_facts _ _ _ _ _ _ HW) e0 a Hin0 Ea).
        - intros n [].
        - intros p _. now rewrite En4.
        - rewrite (s_parent_nodes st' st1 En4). eapply s_parent_mk; [exact Hn1|lia].
        - rewrite (s_len_nodes _ _ En4). lia. }
      destruct LS2' as [LIv2 LC2' SL2 WN2 LF2 LO2].
      assert (LIr : LinInv2 tys st' e1 (pend1 ++ rest) (fun n => n = s_len st \/ X n)).
      { eapply LinInv2_weaken; [|  |exact LIv2].
        - intros n [[]|Q]. exact Q.
        - intros w p Hw Hp Q. apply (l2_notX _ _ _ _ _ LIv2 w p Hw Hp). now right. }
      assert (Hn' : nthN (s_nodes st') (s_len st) = Some (mk ro (b_parent b))) by (rewrite En4; exact Hn1).
      rewrite <- Hout.
      assert (WNx : WNot e1 (splicew Gs G) X) by (eapply WNot_weaken; [|exact WN2]; intros n Q; right; now right).
      assert (LFx : LinkFree st' X) by (intros x j Q; apply LF2; right; now right).
      assert (LOx : forall k, X k -> k < s_len st) by (intros k Q; exact (ls_old _ _ _ _ _ _ _ _ LS _ Q)).
      assert (Ld : s_len st < s_len st') by (rewrite (s_len_nodes _ _ En4); lia).
      assert (Hd0 : s_len st <> 0) by lia.
      assert (W' : Wsound (s_nodes st') e1 (splicew Gs G)) by (rewrite En4; exact W1').
      assert (C0 : forall j, cntf (s_links st') (s_len st, j) = 0) by (intros j; apply LF2; right; now left).
      assert (CV' : covers tys rs (val_out (n_op (mk ro (b_parent b)))) = true) by (cbn [mk n_op]; rewrite Hout; exact CV).
      exact (exit_lin st' e e1 (splicew Gs G) (b_parent b) pend1 rest X (s_len st) (mk ro (b_parent b)) id rs
               LIr LC2' SL2 WNx LFx LOx Ld Hd0 W' Hn' eq_refl C0 FR CV' WSi).
    - (* TCallInd *)
      intros id args rs strict b st e st' e' G S G' S' pend pend' rest X H W LN Hc P LS.
      destruct (wl_TCallInd_inv _ _ _ _ _ _ _ _ _ _ W LN) as (ts_s & op_s & pend1 & WT & CS & Hin & UW & FR & CV & -> & -> & ->).
      apply TCallInd_spec in H. destruct H as (ws & ts & op' & new & st1 & Gw & Lp & En1 & El1 & HW & C & En' & El' & ->).
      destruct (wired_types2 _ _ _ _ _ _ _ _ _ _ _ _ (bq_W _ _ _ _ _ _ P) Gw WT En1 HW) as [-> HT].
      rewrite C in CS. inversion CS; subst op_s; clear CS.
      exact (leaf_lin strict b st e G S st1 st' args ws ts_s (CallIndirect [] [] 0) op' new id rs pend pend1 rest X P LS WT Gw UW En1 HW En' El' FR CV).
    - (* Reg *)
      intros wids body IH oids strict b st e st' e' G S G' S' ins outs rest X H W LN Hc P (o0 & pp0 & Hp0 & Hop0) LIv SL WN LF LO HiX HpX C0.
      destruct (wl_Reg_inv _ _ _ _ _ _ _ _ _ _ W LN) as (pend1 & WB & WO & FR & CV & LB & UW).
      destruct (exec_Reg_inv _ _ _ _ _ _ _ _ _ H) as (st1 & ws & X0 & Gw & SO).
      pose proof P as [I R F O EP Ws Ss LI Q0].
      pose proof O as (Ei & Eo & o1 & ins1 & pp1 & Hp1 & Hop1 & Hi1 & Ho1).
      rewrite Hp0 in Hp1. inversion Hp1; subst o1 pp1; clear Hp1.
      pose proof (open_op_fun _ _ _ Hop0 Hop1) as Ein. subst ins1.
      destruct (OpenB2_pos _ _ O) as (_ & Pi & Po).
      cbn [croot_region] in Hc.
      assert (P0 : Bpre2 strict st b (bind_outs e (b_in b) wids) (tbind G wids ins) S).
      { constructor; auto.
        - now apply EnvPos_bind_in.
        - unfold bind_outs, tbind. rewrite Ei. now apply (Wsound_bind_from _ _ _ wids Hi1).
        - now apply Ssound_bind_in. }
      destruct (fresh_ws_aligned _ _ _ _ Ws FR) as [NDr Fr].
      assert (LS0 : LSt tys st (bind_outs e (b_in b) wids) (tbind G wids ins) (b_parent b) (lin_outs tys wids ins) rest X).
      { rewrite <- (app_nil_r (lin_outs tys wids ins)).
        apply (LS_bind tys st e _ G (b_parent b) [] rest X (b_in b) (mk (Input ins) (b_parent b)) wids LIv); auto.
        - intros w [].
        - lia.
        - rewrite Ei. exact Hi1.
        - intros w Hw. unfold bind_outs. now rewrite bind_from_notin.
        - intros j r Hj. unfold bind_outs. rewrite (bind_from_nth _ _ _ _ _ _ NDr Hj). now rewrite N.add_0_l.
        - now apply WNot_bind_in. }
      destruct (IH strict _ _ _ _ _ _ _ _ _ _ _ rest X X0 WB LB Hc P0 LS0) as (LS1 & WS1).
      destruct (TLl _ strict _ _ _ _ _ _ _ _ _ X0 WB Hc P0) as (W1 & Ss1 & LI1 & _ & _).
      destruct (stmts_pre2 _ _ _ _ _ _ _ _ _ _ X0 Hc P0) as (I1 & R1 & F1 & O1 & EP1 & K1 & L1 & _).
      destruct (close_lin st1 b e' G' oids ws outs st' pend1 rest X I1 O1 W1 LI1 LS1 Gw WO UW SO) as (LI' & SL' & LF' & C').
      split; [exact LI'|]. split; [exact SL'|]. split; [exact (ls_not _ _ _ _ _ _ _ _ LS1)|]. split; [exact LF'|]. split; [|exact C'].
      eapply WStable_trans; [|exact WS1]. now apply WStable_bind_in.
    - (* TNil *)
      intros strict b st e st' e' G S G' S' pend pend' rest X H W LN _ P LS. apply exec_TNil_inv in H. destruct H as [-> ->].
      cbn in W, LN. inversion W; inversion LN; subst. split; [exact LS|apply WStable_refl].
    - (* TCons *)
      intros s IHs r IHr strict b st e st' e' G S G' S' pend pend' rest X H W LN Hc P LS.
      destruct (wl_TCons_inv _ _ _ _ _ _ _ _ _ W LN) as (G1 & S1 & p1 & W1 & W2 & L1 & L2).
      destruct (exec_TCons_inv _ _ _ _ _ _ _ _ H) as (st1 & e1 & X1 & X2).
      cbn [croot_stmts] in Hc. apply andb_true_iff in Hc. destruct Hc as [Hc1 Hc2].
      destruct (IHs strict _ _ _ _ _ _ _ _ _ _ _ rest X X1 W1 L1 Hc1 P LS) as (LS1 & WS1).
      destruct (TSs _ strict _ _ _ _ _ _ _ _ _ X1 W1 Hc1 P) as (Wa & Sa & LIa & Ta & Qa).
      pose proof (stmt_pre2 _ _ _ _ _ _ _ _ _ _ X1 Hc1 P) as Pre1.
      pose proof (Bpre2_of_pre _ _ _ _ _ _ _ Pre1 Wa Sa LIa Qa) as P1.
      destruct (IHr strict _ _ _ _ _ _ _ _ _ _ _ rest X X2 W2 L2 Hc2 P1 LS1) as (LS2' & WS2).
      split; [exact LS2'|eapply WStable_trans; eauto].
    - (* CNil *)
      intros strict c rows others s pp bs cur st e st' e' bs' cur' G S G' S' cur2 rest X H W _ _ I R F EP CI Lb Ws Ss LI Q0 LIv SL WN LF LO.
      apply exec_CNil_inv in H. inversion H; subst. cbn in W. inversion W; subst.
      split; [exact LIv|]. split; [exact SL|]. split; [exact WN|]. split; [exact LF|apply WStable_refl].
    - (* CCons *)
      intros i r IHr rest0 IHrest strict c rows others s pp bs cur st e st' e' bs' cur' G S G' S' cur2 rest X H W LN Hc I R F EP CI Lblk Ws Ss LI Q0 LIv SL WN LF LO.
      destruct (wl_CCons_inv _ _ _ _ _ _ _ _ _ _ _ _ W LN) as (row_s & G1 & S1 & outs & Hrow_s & WR & Hcur & Wrest & LRg & LCrest).
      destruct (exec_CCons_inv _ _ _ _ _ _ _ _ _ _ H) as (cb & st1 & e1 & ts & st2 & cur2d & Hn & X0 & Xo & X2 & X3).
      cbn [croot_cases] in Hc. apply andb_true_iff in Hc. destruct Hc as [Hc1 Hc2].
      destruct (case_open _ _ _ _ _ _ _ _ _ _ CI Hn) as (row & Hrow & Hcb & OBc & Hcase & Lc & Lp).
      rewrite Hrow_s in Hrow. inversion Hrow; subst row_s. clear Hrow. rename Hrow_s into Hrow.
      fold (s_len st) in Lc, Lp.
      assert (P : Bpre2 strict st cb e G S) by (constructor; auto).
      set (bs2 := set_nth bs (N.to_nat i) (cb, true)) in *.
      (* the builders still open: their Input nodes *)
      assert (Hbk : forall k cb0, nthN bs k = Some (cb0, false) -> b_in cb0 = c + 1 + 3 * k + 1 /\ b_in cb0 < s_len st).
      { intros k cb0 Hk. destruct (case_open _ _ _ _ _ _ _ _ _ _ CI Hk) as (rowk & _ & -> & _ & _ & _ & Lpk). cbn [b_in mkb].
        fold (s_len st) in Lpk. split; [reflexivity|lia]. }
      assert (Hsub : forall n, Xc c bs2 X n -> Xc c bs X n).
      { intros n [[Q|(k & cb0 & Hk & Q)]|Q]; [left; now left| |now right]. left. right. exists k, cb0. split; [|exact Q].
        unfold bs2 in Hk. apply nthN_set_nth_cases in Hk. destruct Hk as [[_ Hk]|[_ Hk]]; [discriminate|exact Hk]. }
      assert (Hsup : forall n, Xc c bs X n -> n = b_in cb \/ Xc c bs2 X n).
      { intros n [[Q|(k & cb0 & Hk & Q)]|Q]; [right; left; now left| |right; now right].
        destruct (N.eq_dec k i) as [->|Hne]; [rewrite Hn in Hk; inversion Hk; subst cb0; now left|].
        right. left. right. exists k, cb0. split; [|exact Q]. unfold bs2. now rewrite nthN_set_nth_neq. }
      assert (Hbi : b_in cb = c + 1 + 3 * i + 1) by (subst cb; reflexivity).
      assert (Hbp : b_parent cb = c + 1 + 3 * i) by (subst cb; reflexivity).
      assert (HX2 : forall n, Xc c bs2 X n -> n < s_len st).
      { intros n Q. destruct (Hsub _ Q) as [[->|(k & cb0 & Hk & ->)]|Q']; [lia|exact (proj2 (Hbk _ _ Hk))|]. pose proof (LO _ Q'). lia. }
      assert (Hni : ~ Xc c bs2 X (b_in cb)).
      { intros [[Q|(k & cb0 & Hk & Q)]|Q]; [lia| |pose proof (LO _ Q); lia].
        unfold bs2 in Hk. apply nthN_set_nth_cases in Hk. destruct Hk as [[_ Hk]|[Hne Hk]]; [discriminate|].
        destruct (Hbk _ _ Hk) as [Q1 _]. lia. }
      assert (Hnp : ~ Xc c bs2 X (b_parent cb)).
      { intros [[Q|(k & cb0 & Hk & Q)]|Q]; [lia| |pose proof (LO _ Q); lia].
        unfold bs2 in Hk. apply nthN_set_nth_cases in Hk. destruct Hk as [[_ Hk]|[Hne Hk]]; [discriminate|].
        destruct (Hbk _ _ Hk) as [Q1 _]. lia. }
      assert (LIv0 : LinInv2 tys st e rest (fun n => n = b_in cb \/ Xc c bs2 X n)).
      { eapply LinInv2_weaken; [exact Hsup| |exact LIv]. intros w p Hw Hp Q. apply (l2_notX _ _ _ _ _ LIv w p Hw Hp).
        destruct Q as [Q|Q]; [|now apply Hsub]. left. right. exists i, cb. auto. }
      assert (Hopc : exists o pp0, nthN (s_nodes st) (b_parent cb) = Some (mk o pp0) /\ open_op o (row ++ others)).
      { exists (Case (row ++ others) []), c. rewrite Hbp. split; [exact Hcase|right; left; reflexivity]. }
      destruct (IHr strict _ _ _ _ _ _ _ _ _ _ _ rest (Xc c bs2 X) X0 WR LRg Hc1 P Hopc LIv0 SL) as (LI1 & SL1 & WN1 & LF1 & WS1 & C1); auto.
      { eapply WNot_weaken; [exact Hsub|exact WN]. }
      { intros x j Q. apply LF. now apply Hsub. }
      { intros j. apply LF. left. right. exists i, cb. auto. }
      destruct (TRr _ strict _ _ _ _ _ _ _ _ _ _ _ X0 WR Hc1 P Hopc) as (W1 & Ss1 & LIk1 & T1 & Ho1 & Q1).
      destruct (region_pre2 _ _ _ _ _ _ _ _ _ _ X0 Hc1 P) as (I1 & R1 & F1 & EP1 & KX & L1 & _ & CB & X1).
      destruct (cases_step _ _ _ _ _ _ _ _ _ _ _ _ _ _ _ _ CI Hn Hrow Hcb F1 KX CB Xo X2) as (F2 & L2 & -> & CI2 & K2 & Ecase & Eout & Hdisj).
      rewrite Eout in Ho1. inversion Ho1; subst ts; clear Ho1.
      pose proof (update_outputs_same _ _ _ _ _ _ X2) as S2.
      (* the Case node has no out ports *)
      assert (LI1' : LinInv2 tys st1 e1 rest (Xc c bs2 X)).
      { eapply LinInv2_drop; [| |exact LI1].
        - intros n Q. now right.
        - intros p [Q|Q] Q'; [|contradiction]. destruct p as [pn pj]. cbn [fst] in Q. subst pn.
          apply (lin_at_no_out tys _ _ _ pj Ecase). reflexivity. }
      assert (El2 : s_links st2 = s_links st1) by (destruct Hdisj as [[_ ->]|(_ & _ & _ & ->)]; reflexivity).
      assert (Hlin2 : forall p, fst p <> c -> lin_at tys (s_nodes st2) p = lin_at tys (s_nodes st1) p).
      { intros p Hp. unfold lin_at, type_at. now rewrite K2. }
      assert (LI2' : LinInv2 tys st2 e1 rest (Xc c bs2 X)).
      { apply (consume2 tys st1 st2 e1 G1 [] [] [] [] rest (Xc c bs2 X) (Xc c bs2 X) [] LI1' (fun n Q => Q)); [| | |reflexivity|reflexivity| |].
        - intros p Hp. apply Hlin2. intros E. apply Hp. left. now left.
        - now rewrite El2, app_nil_r.
        - reflexivity.
        - intros a p [].
        - intros w p Hw Hp. exact (l2_notX _ _ _ _ _ LI1' w p Hw Hp). }
      assert (SL2 : SibLin tys st2).
      { eapply (SL_step tys st1 st2 []); [exact (Same_Ext _ _ S2)|exact (proj2 I1)|now rewrite El2, app_nil_r| |intros e0 a []|exact SL1].
        intros e0 a Hin Ea Hl. rewrite Hlin2 in Hl; [exact Hl|]. cbn [fst]. intros E.
        apply (LinkFree_no_link _ _ _ _ LF1 Hin Ea). rewrite E. left. now left. }
      assert (LF2 : LinkFree st2 (Xc c bs2 X)) by (intros x j Q; rewrite El2; now apply LF1).
      assert (GR : Grow2 (s_nodes st1) (s_nodes st2)).
      { destruct Hdisj as [[_ ->]|(_ & Hc1n & En2 & _)]; [apply Grow2_refl|]. rewrite En2. eapply Grow2_set; [exact Hc1n|apply grows2_cond]. }
      assert (LIk2 : LinkInv2 st2) by (unfold LinkInv2; rewrite El2; eapply LinkInv2_grow; eauto).
      assert (Q2 : InOnce st2).
      { destruct Hdisj as [[_ ->]|(_ & Hc1n & En2 & El2')]; [exact Q1|].
        exact (InOnce_set st1 st2 c (mk (Conditional rows others [] s) pp) (mk (Conditional rows others outs s) pp) Q1 Hc1n eq_refl En2 El2'). }
      destruct (IHrest strict _ _ _ _ _ _ _ _ _ _ _ _ _ _ _ _ _ _ rest X X3 Wrest LCrest Hc2 (InvX_Same _ _ _ S2 I1)
                  (RootDF_ext _ _ _ (Same_Ext _ _ S2) R1) F2 EP1 CI2 ltac:(lia)
                  (Wsound_grow _ _ _ _ GR W1) (Ssound_grow _ _ _ _ GR Ss1) LIk2 Q2 LI2' SL2 WN1 LF2 LO)
        as (LI' & SL' & WN' & LF' & WS').
      split; [exact LI'|]. split; [exact SL'|]. split; [exact WN'|]. split; [exact LF'|eapply WStable_trans; eauto].
    - (* QDfg *)
      intros ins body IH e st' e' G S G' S' sin sout H W LN Hc EP Ws Ss. apply exec_QDfg_inv in H. cbn [croot_ok] in Hc.
      rewrite wt_progx_QDfg in W. rewrite lin_progx_QDfg in LN.
      destruct (wt_region2 tys body ins G S) as [[[G1 S1] outs]|] eqn:WR; [|discriminate]. inversion W; subst G' S' sin sout; clear W.
      pose proof (init_Bpre2 (DFG ins []) ins e G S (or_introl eq_refl) eq_refl EP Ws Ss) as P0.
      match type of H with exec_region2 _ _ _ ?st _ = _ => set (st0 := st) in * end.
      assert (Hop : exists o pp, nthN (s_nodes st0) (b_parent (mkb 0 1 2)) = Some (mk o pp) /\ open_op o ins).
      { exists (DFG ins []), 0. split; [reflexivity|now left]. }
      destruct (IH false _ _ _ _ _ _ _ _ _ _ _ [] (fun _ => False) H WR LN Hc P0 Hop) as (LI' & SL' & _ & _ & WS' & _).
      + constructor; [constructor|intros w []|intros w w' p []| |intros w p []].
        intros p P0' P1 Hl. exfalso. unfold lin_at, type_at in Hl. cbn [b_in mkb] in P1. cbn [st0 s_nodes] in Hl.
        unfold nthN in Hl. destruct (N.to_nat (fst p)) as [|[|[|k]]] eqn:Ek; cbn in Hl; try lia.
        * destruct (N.to_nat (snd p)); discriminate.
        * destruct k; discriminate.
      + intros e0 a [].
      + revert Ws. apply Aligned_impl. intros p ot _ _ Q. exact Q.
      + intros x j [].
      + intros n [].
      + intros [].
      + intros [].
      + intros j. reflexivity.
      + split; [|split; [exact SL'|exact WS']].
        destruct LI' as [A B C D E]. constructor; auto. intros p P0' _ Hl. apply D; auto. intros [Q|[]]. cbn [b_parent mkb] in Q. contradiction.
    - (* QLoop *)
      intros just rest0 body IH e st' e' G S G' S' sin sout H W LN Hc EP Ws Ss. apply exec_QLoop_inv in H. cbn [croot_ok] in Hc.
      rewrite wt_progx_QLoop in W. rewrite lin_progx_QLoop in LN.
      destruct (wt_region2 tys body (just ++ rest0) G S) as [[[G1 S1] outs]|] eqn:WR; [|discriminate].
      destruct outs as [|t rt']; [discriminate|]. destruct (nthN tys t) as [[cpy rows| |]|] eqn:Et; try discriminate.
      destruct rows as [|a [|jo [|]]]; try discriminate.
      destruct (row_eqb a just && row_eqb rt' rest0) eqn:CK; [|discriminate]. inversion W; subst G' S' sin sout; clear W.
      pose proof (init_Bpre2 (TailLoop (just ++ rest0) [] [] (lenN just)) (just ++ rest0) e G S
                    (or_intror (or_intror (ex_intro _ (lenN just) eq_refl))) eq_refl EP Ws Ss) as P0.
      match type of H with exec_region2 _ _ _ ?st _ = _ => set (st0 := st) in * end.
      assert (Hop : exists o pp, nthN (s_nodes st0) (b_parent (mkb 0 1 2)) = Some (mk o pp) /\ open_op o (just ++ rest0)).
      { exists (TailLoop (just ++ rest0) [] [] (lenN just)), 0. split; [reflexivity|right; right; eauto]. }
      destruct (IH false _ _ _ _ _ _ _ _ _ _ _ [] (fun _ => False) H WR LN Hc P0 Hop) as (LI' & SL' & _ & _ & WS' & _).
      + constructor; [constructor|intros w []|intros w w' p []| |intros w p []].
        intros p P0' P1 Hl. exfalso. unfold lin_at, type_at in Hl. cbn [b_in mkb] in P1. cbn [st0 s_nodes] in Hl.
        unfold nthN in Hl. destruct (N.to_nat (fst p)) as [|[|[|k]]] eqn:Ek; cbn in Hl; try lia.
        * destruct (N.to_nat (snd p)); discriminate.
        * destruct k; discriminate.
      + intros e0 a0 [].
      + revert Ws. apply Aligned_impl. intros p ot _ _ Q. exact Q.
      + intros x j [].
      + intros n [].
      + intros [].
      + intros [].
      + intros j. reflexivity.
      + split; [|split; [exact SL'|exact WS']].
        destruct LI' as [A B C D E]. constructor; auto. intros p P0' _ Hl. apply D; auto. intros [Q|[]]. cbn [b_parent mkb] in Q. contradiction.
    - (* QCond *)
      intros rows others sumty cs IH e st' e' G S G' S' sin sout H W LN Hc EP Ws Ss. cbn [croot_ok] in Hc.
      rewrite wt_progx_QCond in W. rewrite lin_progx_QCond in LN. destruct (is_sum_of tys sumty rows) eqn:Hsum; [|discriminate].
      destruct (wt_cases2 tys cs rows others G S None) as [[[G1 S1] [outs|]]|] eqn:WCs; try discriminate.
      inversion W; subst G' S' sin sout; clear W.
      destruct (exec_QCond_inv _ _ _ _ _ _ _ _ H) as (st1 & bs & bs' & cur' & E0 & E1 & Hd).
      assert (I0 : InvX (Some 0) (new_store (Conditional rows others [] sumty))).
      { split; [repeat split|reflexivity]. eexists _, _. split; reflexivity. }
      assert (K0 : kindp is_cond (s_nodes (new_store (Conditional rows others [] sumty))) 0) by (eexists; split; reflexivity).
      destruct (make_cases_inv _ _ _ _ _ _ _ E0 I0 K0 (or_intror eq_refl)) as (I1 & X1 & _ & Ln & _).
      destruct (make_cases_spec _ _ _ _ _ _ E0) as (En1 & El1 & ->).
      cbn [new_store s_nodes s_links s_len lenN length N.of_nat app] in En1, El1, E1, Ln.
      change (N.pos (Pos.of_succ_nat 0)) with 1 in *.
      destruct rows as [|r0 rows'].
      { cbn in E1. destruct (exec_cases2_no_builders _ _ _ _ _ _ _ _ _ _ E1) as [-> ->]. discriminate Hd. }
      assert (F1 : Fbase2 st1).
      { split; [|split].
        - rewrite En1. unfold ModelOps2. cbn [forallb mk n_op model_op2 andb]. apply case_blocks_model.
        - rewrite En1. apply (CasePos_cond_block [] (r0 :: rows') others sumty 0). intros j nd E. unfold nthN in E. destruct (N.to_nat j); discriminate.
        - unfold LinksPos. now rewrite El1. }
      assert (CI1 : CasesInv (s_nodes st1) 0 (r0 :: rows') others sumty 0 None (case_builders (r0 :: rows') 1)).
      { rewrite En1. apply (CasesInv_init [] (r0 :: rows') others sumty 0). }
      assert (L1 : s_len st1 = 1 + 3 * lenN (r0 :: rows')).
      { unfold s_len. rewrite En1, lenN_cons, case_blocks_len. lia. }
      assert (LI1 : LinkInv2 st1) by (unfold LinkInv2; now rewrite El1).
      assert (Q1 : InOnce st1).
      { intros i nd Ei Hi off Hoff. rewrite En1 in Ei. replace i with ((i - 1) + 1) in Ei by lia. rewrite nthN_S in Ei.
        rewrite (case_blocks_base_in _ _ _ _ _ _ Ei) in Hoff. lia. }
      set (bs := case_builders (r0 :: rows') 1) in *.
      assert (LIv1 : LinInv2 tys st1 e [] (Xc 0 bs (fun _ => False))).
      { constructor; [constructor|intros w []|intros w w' p []| |intros w p []].
        intros p P0' P1 Hl. exfalso. apply P1. left. right. unfold lin_at, type_at in Hl. rewrite En1 in Hl.
        replace (fst p) with ((fst p - 1) + 1) in Hl by lia. rewrite nthN_S in Hl.
        destruct (nthN (case_blocks 0 others (r0 :: rows') 1) (fst p - 1)) as [nd|] eqn:Ek; [|discriminate].
        assert (V : val_out (n_op nd) <> []) by (intros V; rewrite V, nthN_nil in Hl; discriminate).
        destruct (case_blocks_val_out _ _ _ _ _ _ Ek V) as (k0 & Hk0 & Lk0).
        destruct (nthN_some_lt (r0 :: rows') k0 Lk0) as [row0 Hr0].
        exists k0, (mkb (1 + 3 * k0) (1 + 3 * k0 + 1) (1 + 3 * k0 + 2)). split; [unfold bs; now apply (case_builders_nth _ _ _ row0)|].
        cbn [b_in mkb]. lia. }
      destruct (IH true _ _ _ _ _ _ _ _ _ _ _ _ _ _ _ _ _ _ [] (fun _ => False) E1 WCs LN Hc I1 ltac:(intros Q; discriminate Q) F1 EP CI1 ltac:(lia)
                  (Wsound_nil_any _ _ _ Ws) (Ssound_nil_any _ _ _ Ss) LI1 Q1 LIv1) as (LI' & SL' & _ & _ & WS').
      + intros e0 a Hin. rewrite El1 in Hin. destruct Hin.
      + apply (Aligned_impl (Wrel [])); [|exact Ws]. intros p ot Hw Hot Q. destruct ot as [t|]; [|now elim Hot].
        specialize (Hw t eq_refl). unfold type_at in Hw. rewrite nthN_nil in Hw. discriminate.
      + intros x j _. now rewrite El1.
      + intros n [].
      + unfold cases_done in Hd. apply andb_true_iff in Hd. destruct Hd as [Hall Hsome].
        split; [|split; [exact SL'|exact WS']].
        destruct LI' as [A B C D E]. constructor; auto. intros p P0' _ Hl. apply D; auto.
        intros [[Q|(k & cb & Hk & _)]|[]]; [contradiction|]. pose proof (forallb_snd_nth _ _ _ _ Hall Hk). discriminate.
  Qed.
End LinMain2.
