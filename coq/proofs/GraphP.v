(* Proofs for C04 (link store): the BiMap of sub-ports stays a bijection whose used sub-offsets
   form an initial segment on every port, every operation acts on the multiset of (out-port, in-port)
   links as the sequential specification says, and linked_ports / has_link read that multiset. *)
From Coq Require Import List Bool Arith ZArith Lia Permutation.
Import ListNotations.
From HV Require Import lib.PyDict lib.Harness model.BiMapM spec.BiMapS proofs.BiMapP model.Graph spec.GraphS.

(* ------------------------------------------------------------------ decidable equalities *)
Lemma port_eqb_spec (a b : port) : reflect (a = b) (port_eqb a b).
Proof.
  destruct a as [n o], b as [n' o']. unfold port_eqb. cbn [fst snd].
  destruct (Nat.eqb_spec n n') as [->|Hn]; cbn; [|constructor; congruence].
  destruct (Z.eqb_spec o o') as [->|Ho]; constructor; congruence.
Qed.
Lemma sub_eqb_spec (a b : subport) : reflect (a = b) (sub_eqb a b).
Proof.
  destruct a as [p i], b as [p' i']. unfold sub_eqb. cbn [fst snd].
  destruct (port_eqb_spec p p') as [->|Hn]; cbn; [|constructor; congruence].
  destruct (Nat.eqb_spec i i') as [->|Ho]; constructor; congruence.
Qed.
Lemma link_eqb_spec (a b : port * port) : reflect (a = b) (link_eqb a b).
Proof.
  destruct a as [p q], b as [p' q']. unfold link_eqb. cbn [fst snd].
  destruct (port_eqb_spec p p') as [->|Hn]; cbn; [|constructor; congruence].
  destruct (port_eqb_spec q q') as [->|Ho]; constructor; congruence.
Qed.
Lemma sub_eqb_refl s : sub_eqb s s = true.
Proof. destruct (sub_eqb_spec s s); congruence. Qed.
Lemma next_inj s s' : next s = next s' -> s = s'.
Proof. destruct s, s'. unfold next. cbn. intros [= -> ->]. reflexivity. Qed.
Lemma next_neq s : next s <> s.
Proof. destruct s. unfold next. cbn. intros [= H]. lia. Qed.

(* ------------------------------------------------------------------ dictionaries of sub-ports *)
Definition dict := list (subport * subport).
Definition has (d : dict) (s : subport) : bool := match getS d s with Some _ => true | None => false end.
Definition linksof (d : dict) : list (port * port) := map (fun kv => (fst (fst kv), fst (snd kv))) d.
Definition linksof_bck (d : dict) : list (port * port) := map (fun kv => (fst (snd kv), fst (fst kv))) d.

Lemma getS_dset (d : dict) k v k' : getS (dset sub_eqb d k v) k' = if sub_eqb k' k then Some v else getS d k'.
Proof.
  destruct (sub_eqb_spec k' k) as [->|Hne].
  - apply (dget_dset_same sub_eqb sub_eqb_spec).
  - now apply (dget_dset_other sub_eqb sub_eqb_spec).
Qed.
Lemma getS_ddel (d : dict) k k' : NoDup (keys d) ->
  getS (ddel sub_eqb d k) k' = if sub_eqb k' k then None else getS d k'.
Proof.
  intros Hnd. destruct (sub_eqb_spec k' k) as [->|Hne].
  - now apply (dget_ddel_same sub_eqb sub_eqb_spec).
  - now apply (dget_ddel_other sub_eqb sub_eqb_spec).
Qed.
Lemma dset_fresh (d : dict) k v : getS d k = None -> dset sub_eqb d k v = d ++ [(k, v)].
Proof.
  induction d as [|[k' v'] r IH]; cbn; [reflexivity|].
  destruct (sub_eqb k k'); [discriminate|]. intros H. now rewrite IH.
Qed.
Lemma ddel_perm (d : dict) k v : getS d k = Some v -> Permutation d ((k, v) :: ddel sub_eqb d k).
Proof.
  induction d as [|[k' v'] r IH]; cbn; [discriminate|].
  destruct (sub_eqb_spec k k') as [->|Hne].
  - intros [= ->]. reflexivity.
  - intros H. rewrite perm_swap. constructor. auto.
Qed.
Lemma getS_keys (d : dict) k : getS d k <> None -> In k (keys d).
Proof.
  destruct (getS d k) eqn:E; [|congruence]. intros _. eapply (dget_In sub_eqb sub_eqb_spec); eassumption.
Qed.

(* a run of consecutive sub-offsets of one port, all used, is no longer than the dictionary *)
Lemma run_bounded (d : dict) p i n :
  (forall j, i <= j < i + n -> getS d (p, j) <> None) -> n <= length d.
Proof.
  intros H.
  assert (Hnd : NoDup (map (fun j => (p, j)) (seq i n))).
  { apply FinFun.Injective_map_NoDup; [intros a b [= ->]; reflexivity | apply seq_NoDup]. }
  assert (Hincl : incl (map (fun j => (p, j)) (seq i n)) (keys d)).
  { intros s Hs. apply in_map_iff in Hs. destruct Hs as (j & <- & Hj). apply in_seq in Hj.
    apply getS_keys. apply H. lia. }
  pose proof (NoDup_incl_length Hnd Hincl) as Hl.
  rewrite map_length, seq_length in Hl. unfold keys in Hl. now rewrite map_length in Hl.
Qed.

(* ------------------------------------------------------------------ _unused_sub_offset *)
Lemma unused_from_spec fuel (d : dict) p : forall i s',
  unused_from fuel d (p, i) = Some s' ->
  exists n, s' = (p, n) /\ i <= n /\ (forall j, i <= j < n -> getS d (p, j) <> None) /\ getS d (p, n) = None.
Proof.
  induction fuel as [|f IH]; intros i s'; cbn [unused_from]; [discriminate|].
  destruct (getS d (p, i)) eqn:E.
  - unfold next; cbn [fst snd]. intros H. apply IH in H. destruct H as (n & -> & Hle & Hall & Hn).
    exists n. repeat split; [lia| |assumption].
    intros j Hj. destruct (Nat.eq_dec j i) as [->|]; [congruence|]. apply Hall. lia.
  - intros [= <-]. exists i. repeat split; [lia| |assumption]. intros j Hj. lia.
Qed.
Lemma unused_from_none fuel (d : dict) p : forall i,
  unused_from fuel d (p, i) = None -> forall j, i <= j < i + fuel -> getS d (p, j) <> None.
Proof.
  induction fuel as [|f IH]; intros i; cbn [unused_from]; [intros _ j Hj; lia|].
  destruct (getS d (p, i)) eqn:E; [|discriminate].
  unfold next; cbn [fst snd]. intros H j Hj. destruct (Nat.eq_dec j i) as [->|]; [congruence|].
  apply (IH (S i) H). lia.
Qed.
(* the fuel given by the model always suffices *)
Lemma unused_sub_some (d : dict) p : exists n,
  unused_sub d p = Some (p, n) /\ (forall j, j < n -> getS d (p, j) <> None) /\ getS d (p, n) = None.
Proof.
  unfold unused_sub. destruct (unused_from (S (length d)) d (p, 0)) as [s'|] eqn:E.
  - apply unused_from_spec in E. destruct E as (n & -> & _ & Hall & Hn). exists n. repeat split; [|assumption].
    intros j Hj. apply Hall. lia.
  - exfalso. pose proof (unused_from_none _ _ _ _ E) as H.
    assert (S (length d) <= length d); [|lia]. apply (run_bounded d p 0). intros j Hj. apply H. lia.
Qed.

(* ------------------------------------------------------------------ contiguity *)
(* used sub-offsets of every port are downward closed (hence an initial segment) *)
Definition DC (d : dict) : Prop := forall p j, has d (p, S j) = true -> has d (p, j) = true.
(* the same with one sub-port counted as used although it is not: the hole left by a removal *)
Definition memh (d : dict) (h s : subport) : bool := has d s || sub_eqb s h.
Definition DCh (d : dict) (h : subport) : Prop := forall p j, memh d h (p, S j) = true -> memh d h (p, j) = true.

Lemma DC_ext d d' : (forall s, has d' s = has d s) -> DC d -> DC d'.
Proof. intros E H p j. rewrite !E. apply H. Qed.
Lemma DCh_ext d d' h h' : (forall s, memh d' h' s = memh d h s) -> DCh d h -> DCh d' h'.
Proof. intros E H p j. rewrite !E. apply H. Qed.
Lemma DCh_close d h : has d h = false -> has d (next h) = false -> DCh d h -> DC d.
Proof.
  intros Hh Hn H p j Hs. pose proof (H p j) as H'. unfold memh in H'. rewrite Hs in H'. cbn in H'.
  specialize (H' eq_refl). apply orb_true_iff in H'. destruct H' as [H'|H']; [assumption|].
  destruct (sub_eqb_spec (p, j) h) as [<-|]; [|discriminate]. unfold next in Hn. cbn in Hn. congruence.
Qed.

(* ------------------------------------------------------------------ pairs of inverse dictionaries *)
Definition PB (m o : dict) : Prop :=
  NoDup (keys m) /\ NoDup (keys o) /\ forall k v, getS m k = Some v <-> getS o v = Some k.
Lemma PB_sym m o : PB m o -> PB o m.
Proof. intros (A & B & C). repeat split; try assumption; apply C. Qed.
Lemma Bij_PB (b : lmap) : Bij sub_eqb sub_eqb b <-> PB (fwd b) (bck b).
Proof. reflexivity. Qed.

Lemma has_dset d k v s : has (dset sub_eqb d k v) s = has d s || sub_eqb s k.
Proof. unfold has. rewrite getS_dset. destruct (sub_eqb s k); [now rewrite orb_true_r|now rewrite orb_false_r]. Qed.
Lemma has_ddel d k s : NoDup (keys d) -> has (ddel sub_eqb d k) s = has d s && negb (sub_eqb s k).
Proof. intros H. unfold has. rewrite getS_ddel by assumption. destruct (sub_eqb s k); [now rewrite andb_false_r|now rewrite andb_true_r]. Qed.

(* adding a pair on fresh keys *)
Lemma PB_add m o k v : PB m o -> getS m k = None -> getS o v = None ->
  PB (dset sub_eqb m k v) (dset sub_eqb o v k).
Proof.
  intros (A & B & C) Hk Hv. split; [|split].
  - now apply (nodup_dset sub_eqb sub_eqb_spec).
  - now apply (nodup_dset sub_eqb sub_eqb_spec).
  - intros k' v'. rewrite !getS_dset.
    destruct (sub_eqb_spec k' k) as [->|Hk']; destruct (sub_eqb_spec v' v) as [->|Hv'].
    + tauto.
    + split; [intros [= <-]; congruence|]. intros H. apply C in H. congruence.
    + split; [|intros [= <-]; congruence]. intros H. apply C in H. congruence.
    + apply C.
Qed.
(* removing a pair *)
Lemma PB_del m o k v : PB m o -> getS m k = Some v -> PB (ddel sub_eqb m k) (ddel sub_eqb o v).
Proof.
  intros H Hk. exact (delete_pair_bij sub_eqb sub_eqb sub_eqb_spec sub_eqb_spec {| fwd := m; bck := o |} k v H Hk).
Qed.

Lemma has_true d s : has d s = true <-> getS d s <> None.
Proof. unfold has. destruct (getS d s); split; congruence. Qed.
Lemma has_false d s : has d s = false <-> getS d s = None.
Proof. unfold has. destruct (getS d s); split; congruence. Qed.

(* opening a hole in a contiguous dictionary *)
Lemma DC_open d s : NoDup (keys d) -> DC d -> has d s = true -> DCh (ddel sub_eqb d s) s.
Proof.
  intros Hnd H Hs. apply (DCh_ext d _ s s); [|].
  - intros k. unfold memh. rewrite has_ddel by assumption.
    destruct (sub_eqb_spec k s) as [->|]; cbn; [now rewrite Hs | now rewrite andb_true_r, !orb_false_r].
  - intros p j. unfold memh. intros Hm. apply orb_true_iff in Hm. destruct Hm as [Hm|Hm].
    + now rewrite (H p j Hm).
    + destruct (sub_eqb_spec (p, S j) s) as [<-|]; [|discriminate]. now rewrite (H p j Hs).
Qed.

(* ------------------------------------------------------------------ the shifting loops, generically *)
Fixpoint gshift (fuel : nat) (m o : dict) (hole : subport) : option (dict * dict) :=
  match fuel with
  | 0 => None
  | S f =>
      match getS m (next hole) with
      | None => Some (m, o)
      | Some x => gshift f (dset sub_eqb (ddel sub_eqb m (next hole)) hole x)
                         (dset sub_eqb (ddel sub_eqb o x) x hole) (next hole)
      end
  end.

Section Step.
  Variables (m o : dict) (hole x : subport).
  Hypothesis HPB : PB m o.
  Hypothesis Hhole : getS m hole = None.
  Hypothesis Hnext : getS m (next hole) = Some x.
  Let m' := dset sub_eqb (ddel sub_eqb m (next hole)) hole x.
  Let o' := dset sub_eqb (ddel sub_eqb o x) x hole.

  Lemma step_m1_hole : getS (ddel sub_eqb m (next hole)) hole = None.
  Proof.
    destruct HPB as (A & _). rewrite getS_ddel by assumption.
    destruct (sub_eqb_spec hole (next hole)) as [E|]; [reflexivity|assumption].
  Qed.
  Lemma step_o1_x : getS (ddel sub_eqb o x) x = None.
  Proof. destruct HPB as (_ & B & _). rewrite getS_ddel by assumption. now rewrite sub_eqb_refl. Qed.
  Lemma step_PB : PB m' o'.
  Proof. apply PB_add; [now apply PB_del | exact step_m1_hole | exact step_o1_x]. Qed.
  Lemma step_newhole : getS m' (next hole) = None.
  Proof.
    subst m'. rewrite getS_dset. destruct (sub_eqb_spec (next hole) hole) as [E|_]; [now apply next_neq in E|].
    destruct HPB as (A & _). rewrite getS_ddel by assumption. now rewrite sub_eqb_refl.
  Qed.
  Lemma step_has_m s : has m' s = (has m s && negb (sub_eqb s (next hole))) || sub_eqb s hole.
  Proof. subst m'. destruct HPB as (A & _). rewrite has_dset, has_ddel by assumption. reflexivity. Qed.
  Lemma step_memh s : memh m' (next hole) s = memh m hole s.
  Proof.
    unfold memh. rewrite step_has_m.
    destruct (sub_eqb_spec s (next hole)) as [->|Hn]; cbn.
    - assert (has m (next hole) = true) as -> by (apply has_true; congruence). now rewrite orb_true_r.
    - now rewrite andb_true_r, orb_false_r.
  Qed.
  Lemma step_has_o s : has o' s = has o s.
  Proof.
    subst o'. destruct HPB as (A & B & C). rewrite has_dset, has_ddel by assumption.
    destruct (sub_eqb_spec s x) as [->|]; cbn; [|now rewrite andb_true_r, orb_false_r].
    rewrite andb_false_r. cbn. symmetry. apply has_true. apply C in Hnext. congruence.
  Qed.
  Lemma step_links_m : Permutation (linksof m') (linksof m).
  Proof.
    subst m'. rewrite dset_fresh by exact step_m1_hole. unfold linksof. rewrite map_app. cbn [map].
    rewrite (Permutation_map _ (ddel_perm m (next hole) x Hnext)). cbn [map fst snd next].
    rewrite <- Permutation_cons_append. reflexivity.
  Qed.
  Lemma step_links_o : Permutation (linksof o') (linksof o).
  Proof.
    destruct HPB as (A & B & C). pose proof Hnext as Hx. apply C in Hx.
    subst o'. rewrite dset_fresh by exact step_o1_x. unfold linksof. rewrite map_app. cbn [map].
    rewrite (Permutation_map _ (ddel_perm o x (next hole) Hx)). cbn [map fst snd next].
    rewrite <- Permutation_cons_append. reflexivity.
  Qed.
End Step.

Lemma gshift_ok fuel : forall m o hole m' o',
  PB m o -> getS m hole = None -> DCh m hole -> gshift fuel m o hole = Some (m', o') ->
  PB m' o' /\ DC m' /\ (forall s, has o' s = has o s) /\
  Permutation (linksof m') (linksof m) /\ Permutation (linksof o') (linksof o).
Proof.
  induction fuel as [|f IH]; intros m o hole m' o' HPB Hh HD; cbn [gshift]; [discriminate|].
  destruct (getS m (next hole)) as [x|] eqn:E.
  - intros H. apply IH in H.
    + destruct H as (P1 & P2 & P3 & P4 & P5). split; [assumption|]. split; [assumption|]. split; [|split].
      * intros s. rewrite P3. eapply step_has_o; eassumption.
      * rewrite P4. eapply step_links_m; eassumption.
      * rewrite P5. eapply step_links_o; eassumption.
    + eapply step_PB; eassumption.
    + eapply step_newhole; eassumption.
    + eapply DCh_ext; [|exact HD]. intros s. eapply step_memh; eassumption.
  - intros [= <- <-]. split; [assumption|]. split; [|split; [reflexivity|split; reflexivity]].
    apply (DCh_close m hole); [now apply has_false | now apply has_false | assumption].
Qed.

(* fuel: if the loop runs out, a whole run of later sub-offsets was in use *)
Lemma gshift_none fuel : forall m o hole,
  PB m o -> getS m hole = None -> gshift fuel m o hole = None ->
  forall j, j < fuel -> has m (fst hole, snd hole + 1 + j) = true.
Proof.
  induction fuel as [|f IH]; intros m o hole HPB Hh; cbn [gshift]; [intros _ j Hj; lia|].
  destruct (getS m (next hole)) as [x|] eqn:E; [|discriminate].
  intros H j Hj. destruct j as [|j].
  - apply has_true. unfold next in E. replace (snd hole + 1 + 0) with (S (snd hole)) by lia. congruence.
  - pose proof (IH _ _ _ (step_PB m o hole x HPB Hh E) (step_newhole m o hole x HPB) H j ltac:(lia)) as H'.
    rewrite (step_has_m m o hole x HPB) in H'. cbn [next fst snd] in H'.
    replace (snd hole + 1 + S j) with (S (snd hole) + 1 + j) by lia.
    apply orb_true_iff in H'. destruct H' as [H'|H'].
    + apply andb_true_iff in H'. tauto.
    + destruct (sub_eqb_spec (fst hole, S (snd hole) + 1 + j) hole) as [E'|]; [|discriminate].
      destruct hole as [hp hi]. cbn in E'. injection E' as E'. lia.
Qed.
Lemma gshift_some m o hole : PB m o -> getS m hole = None -> gshift (S (length m)) m o hole <> None.
Proof.
  intros HPB Hh Hnone. pose proof (gshift_none _ _ _ _ HPB Hh Hnone) as H.
  assert (S (length m) <= length m); [|lia].
  apply (run_bounded m (fst hole) (snd hole + 1)). intros j Hj. apply has_true.
  replace j with (snd hole + 1 + (j - (snd hole + 1))) by lia. apply H. lia.
Qed.

(* ------------------------------------------------------------------ the model's loops are the generic ones *)
Definition LInv (b : lmap) : Prop := PB (fwd b) (bck b) /\ DC (fwd b) /\ DC (bck b).

Lemma ins_fresh (b : lmap) k v : getS (bck b) v = None -> getS (fwd b) k = None ->
  bm_insert b k v = {| fwd := dset sub_eqb (fwd b) k v; bck := dset sub_eqb (bck b) v k |}.
Proof. intros H1 H2. unfold insert_left. rewrite H1. rewrite H2. reflexivity. Qed.
Lemma del_left_eq (b : lmap) k v : PB (fwd b) (bck b) -> getS (fwd b) k = Some v ->
  fst (bm_delete_left b k) = {| fwd := ddel sub_eqb (fwd b) k; bck := ddel sub_eqb (bck b) v |}.
Proof. intros HB H. now rewrite (delete_left_present sub_eqb sub_eqb b k v HB H). Qed.
Lemma del_right_eq (b : lmap) k v : PB (fwd b) (bck b) -> getS (bck b) v = Some k ->
  fst (bm_delete_right b v) = {| fwd := ddel sub_eqb (fwd b) k; bck := ddel sub_eqb (bck b) v |}.
Proof. intros HB H. now rewrite (delete_right_present sub_eqb sub_eqb b k v HB H). Qed.

Definition mk_fb (mo : dict * dict) : lmap := {| fwd := fst mo; bck := snd mo |}.
Definition mk_bf (mo : dict * dict) : lmap := {| fwd := snd mo; bck := fst mo |}.

Lemma shift_out_eq fuel : forall m o hole, PB m o -> getS m hole = None ->
  shift_out fuel {| fwd := m; bck := o |} hole = option_map mk_fb (gshift fuel m o hole).
Proof.
  induction fuel as [|f IH]; intros m o hole HPB Hh; cbn [shift_out gshift option_map fwd bck]; [reflexivity|].
  destruct (getS m (next hole)) as [x|] eqn:E; [|reflexivity].
  rewrite (del_left_eq {| fwd := m; bck := o |} (next hole) x HPB E). cbn [fwd bck].
  rewrite ins_fresh; cbn [fwd bck].
  - apply IH; [eapply step_PB; eassumption | eapply step_newhole; eassumption].
  - eapply step_o1_x; eassumption.
  - eapply step_m1_hole; eassumption.
Qed.
Lemma shift_in_eq fuel : forall m o hole, PB o m -> getS o hole = None ->
  shift_in fuel {| fwd := m; bck := o |} hole = option_map mk_bf (gshift fuel o m hole).
Proof.
  induction fuel as [|f IH]; intros m o hole HPB Hh; cbn [shift_in gshift option_map fwd bck]; [reflexivity|].
  destruct (getS o (next hole)) as [x|] eqn:E; [|reflexivity].
  rewrite (del_right_eq {| fwd := m; bck := o |} x (next hole) (PB_sym _ _ HPB) E). cbn [fwd bck].
  rewrite ins_fresh; cbn [fwd bck].
  - apply IH; [eapply step_PB; eassumption | eapply step_newhole; eassumption].
  - eapply step_m1_hole; eassumption.
  - eapply step_o1_x; eassumption.
Qed.

Lemma lm_links_eq (b : lmap) : lm_links b = linksof (fwd b).
Proof. reflexivity. Qed.

(* _delete_sub_link: succeeds on a present key, keeps the invariant, removes exactly that link *)
Lemma delete_sub_link_ok (b : lmap) s t : LInv b -> getS (fwd b) s = Some t ->
  exists b', delete_sub_link b s = (b', Ok) /\ LInv b' /\
             Permutation (lm_links b) ((fst s, fst t) :: lm_links b').
Proof.
  destruct b as [m o]. intros (HPB & HDm & HDo) Hs. cbn [fwd bck] in *.
  pose proof HPB as (Nm & No & Hmo). pose proof Hs as Ht. apply Hmo in Ht.
  unfold delete_sub_link. cbn [fwd]. rewrite Hs. cbv zeta.
  rewrite (del_left_eq {| fwd := m; bck := o |} s t HPB Hs). cbn [fwd bck].
  set (m1 := ddel sub_eqb m s). set (o1 := ddel sub_eqb o t).
  assert (HPB1 : PB m1 o1) by now apply PB_del.
  assert (Hm1s : getS m1 s = None) by (subst m1; rewrite getS_ddel by assumption; now rewrite sub_eqb_refl).
  assert (Ho1t : getS o1 t = None) by (subst o1; rewrite getS_ddel by assumption; now rewrite sub_eqb_refl).
  rewrite shift_out_eq by assumption.
  destruct (gshift (S (length m1)) m1 o1 s) as [[m2 o2]|] eqn:G; [|exfalso; revert G; now apply gshift_some].
  cbn [option_map mk_fb fst snd fwd bck].
  apply gshift_ok in G; [|assumption|assumption|].
  2:{ subst m1. apply DC_open; [assumption|assumption|]. apply has_true. congruence. }
  destruct G as (HPB2 & HD2 & Hhas2 & HL2 & _).
  assert (Ho2t : getS o2 t = None) by (apply has_false; rewrite Hhas2; now apply has_false).
  change (mk_fb (m2, o2)) with {| fwd := m2; bck := o2 |}.
  rewrite shift_in_eq; [|now apply PB_sym|assumption].
  destruct (gshift (S (length o2)) o2 m2 t) as [[o3 m3]|] eqn:G2; [|exfalso; revert G2; apply gshift_some; [now apply PB_sym|assumption]].
  cbn [option_map mk_bf fst snd].
  apply gshift_ok in G2; [|now apply PB_sym|assumption|].
  2:{ eapply (DCh_ext o1 o2 t t).
      - intros k. unfold memh. now rewrite Hhas2.
      - subst o1. apply DC_open; [assumption|assumption|]. apply has_true. congruence. }
  destruct G2 as (HPB3 & HD3 & Hhas3 & _ & HL3).
  eexists. split; [reflexivity|]. split.
  - split; [now apply PB_sym|]. cbn [fwd bck]. split; [|assumption].
    eapply DC_ext; [exact Hhas3|assumption].
  - rewrite !lm_links_eq. cbn [fwd]. rewrite HL3, HL2. subst m1.
    unfold linksof at 1. rewrite (Permutation_map _ (ddel_perm m s t Hs)). reflexivity.
Qed.

(* ------------------------------------------------------------------ add_link on the link map *)
Lemma DC_dset_end (d : dict) p n v :
  DC d -> (forall j, j < n -> getS d (p, j) <> None) -> DC (dset sub_eqb d (p, n) v).
Proof.
  intros HD Hall q j. rewrite !has_dset. intros H. apply orb_true_iff in H. destruct H as [H|H].
  - now rewrite (HD q j H).
  - destruct (sub_eqb_spec (q, S j) (p, n)) as [[= -> <-]|]; [|discriminate].
    assert (has d (p, j) = true) as -> by (apply has_true; apply Hall; lia). reflexivity.
Qed.

Lemma lm_add_ok (b : lmap) src dst : LInv b ->
  exists b', lm_add b src dst = Some b' /\ LInv b' /\ lm_links b' = lm_links b ++ [(src, dst)].
Proof.
  destruct b as [m o]. intros (HPB & HDm & HDo). cbn [fwd bck] in *.
  destruct (unused_sub_some m src) as (n & E1 & A1 & N1).
  destruct (unused_sub_some o dst) as (k & E2 & A2 & N2).
  unfold lm_add. cbn [fwd bck]. rewrite E1, E2. eexists. split; [reflexivity|].
  rewrite ins_fresh by assumption. cbn [fwd bck]. split; [split; [|split]|]; cbn [fwd bck].
  - now apply PB_add.
  - now apply DC_dset_end.
  - now apply DC_dset_end.
  - rewrite !lm_links_eq. cbn [fwd]. rewrite dset_fresh by assumption. unfold linksof. now rewrite map_app.
Qed.

(* ------------------------------------------------------------------ _linked_ports *)
Definition tgt (d : dict) (s : subport) : port := match getS d s with Some t => fst t | None => (0, 0%Z) end.

Lemma linked_from_seq fuel (d : dict) p : forall i n,
  (forall j, i <= j < n -> getS d (p, j) <> None) -> getS d (p, n) = None -> i <= n -> n - i < fuel ->
  linked_from fuel d (p, i) = map (fun j => tgt d (p, j)) (seq i (n - i)).
Proof.
  induction fuel as [|f IH]; intros i n Hall Hn Hle Hf; [lia|]. cbn [linked_from].
  destruct (Nat.eq_dec i n) as [->|Hne].
  - rewrite Hn. now rewrite Nat.sub_diag.
  - destruct (getS d (p, i)) as [t|] eqn:E; [|exfalso; apply (Hall i); [lia|assumption]].
    replace (n - i) with (S (n - S i)) by lia. cbn [seq map]. unfold tgt at 1. rewrite E. f_equal.
    unfold next. cbn [fst snd]. apply IH; try lia; [|assumption]. intros j Hj. apply Hall. lia.
Qed.
Lemma linked_seq (d : dict) p : exists n,
  linked d p = map (fun j => tgt d (p, j)) (seq 0 n) /\
  (forall j, j < n -> getS d (p, j) <> None) /\ getS d (p, n) = None.
Proof.
  destruct (unused_sub_some d p) as (n & _ & Hall & Hn). exists n. split; [|split; assumption].
  unfold linked. rewrite (linked_from_seq _ d p 0 n); try assumption; try lia.
  - now rewrite Nat.sub_0_r.
  - intros j Hj. apply Hall. lia.
  - assert (n <= length d); [|lia]. apply (run_bounded d p 0). intros j Hj. apply Hall. lia.
Qed.

Lemma DC_down (d : dict) p : DC d -> forall j i, i <= j -> has d (p, j) = true -> has d (p, i) = true.
Proof.
  intros HD. induction j as [|j IH]; intros i Hi Hj.
  - replace i with 0 by lia. assumption.
  - destruct (Nat.eq_dec i (S j)) as [->|]; [assumption|]. apply IH; [lia|]. now apply HD.
Qed.
Lemma keys_has (d : dict) k : In k (keys d) -> has d k = true.
Proof.
  intros H. destruct (has d k) eqn:E; [reflexivity|]. apply has_false in E.
  induction d as [|[k' v'] r IH]; cbn in *; [contradiction|].
  destruct (sub_eqb_spec k k') as [->|Hne]; [discriminate|]. destruct H as [H|H]; [congruence|auto].
Qed.

Lemma filter_keys (d : dict) (f : subport -> bool) :
  filter f (keys d) = map fst (filter (fun kv => f (fst kv)) d).
Proof. unfold keys. induction d as [|[k v] r IH]; cbn; [reflexivity|]. destruct (f k); cbn; now rewrite IH. Qed.

(* linked_ports lists, in some order, exactly the entries whose key is a sub-port of the port *)
Lemma linked_perm (d : dict) p : NoDup (keys d) -> DC d ->
  Permutation (linked d p) (map (fun kv => fst (snd kv)) (filter (fun kv => port_eqb (fst (fst kv)) p) d)).
Proof.
  intros Hnd HD. destruct (linked_seq d p) as (n & -> & Hall & Hn).
  set (K := map (fun j => (p, j)) (seq 0 n)).
  set (F := filter (fun k : subport => port_eqb (fst k) p) (keys d)).
  assert (HK : Permutation K F).
  { apply NoDup_Permutation.
    - apply FinFun.Injective_map_NoDup; [intros a b [= ->]; reflexivity | apply seq_NoDup].
    - now apply NoDup_filter.
    - intros [q j]. subst K F. rewrite in_map_iff, filter_In. cbn [fst]. split.
      + intros (j' & [= <- <-] & Hj). apply in_seq in Hj. split; [apply getS_keys; apply Hall; lia|].
        destruct (port_eqb_spec p p); congruence.
      + intros (Hin & Hq). destruct (port_eqb_spec q p) as [->|]; [|discriminate].
        exists j. split; [reflexivity|]. apply in_seq. split; [lia|]. cbn.
        destruct (Nat.lt_ge_cases j n) as [|Hge]; [assumption|]. exfalso.
        apply keys_has in Hin. apply (DC_down d p HD j n Hge) in Hin. apply has_true in Hin. contradiction. }
  replace (map (fun j => tgt d (p, j)) (seq 0 n)) with (map (tgt d) K) by (subst K; now rewrite map_map).
  rewrite (Permutation_map (tgt d) HK). subst F. rewrite filter_keys, map_map.
  apply Permutation_refl'. apply map_ext_in. intros [k v] Hin. apply filter_In in Hin. destruct Hin as [Hin _].
  cbn [fst snd]. unfold tgt. apply (dget_In_iff sub_eqb sub_eqb_spec) in Hin; [|assumption]. now rewrite Hin.
Qed.

(* ------------------------------------------------------------------ queries against the multiset of links *)
Definition lo (L : list (port * port)) (p : port) : list port := map snd (filter (fun l => port_eqb (fst l) p) L).
Definition li (L : list (port * port)) (p : port) : list port := map fst (filter (fun l => port_eqb (snd l) p) L).

Lemma Permutation_filter {A} (f : A -> bool) (l l' : list A) : Permutation l l' -> Permutation (filter f l) (filter f l').
Proof.
  induction 1 as [|x l l' _ IH|x y l|l l' l'' _ IH1 _ IH2]; cbn.
  - constructor.
  - destruct (f x); [now constructor|assumption].
  - destruct (f x), (f y); try reflexivity. apply perm_swap.
  - now rewrite IH1.
Qed.
Lemma filter_map_comm {A B} (g : A -> B) (f : B -> bool) (l : list A) :
  filter f (map g l) = map g (filter (fun x => f (g x)) l).
Proof. induction l as [|x r IH]; cbn; [reflexivity|]. destruct (f (g x)); cbn; now rewrite IH. Qed.
Lemma filter_filter' {A} (f g : A -> bool) (l : list A) :
  filter f (filter g l) = filter (fun x => g x && f x) l.
Proof. induction l as [|x r IH]; cbn; [reflexivity|]. destruct (g x); cbn; [destruct (f x); now rewrite IH|assumption]. Qed.
Lemma filter_id {A} (f : A -> bool) (l : list A) : (forall x, In x l -> f x = true) -> filter f l = l.
Proof.
  induction l as [|x r IH]; cbn; [reflexivity|]. intros H. rewrite (H x) by now left.
  rewrite IH; [reflexivity|]. intros y Hy. apply H. now right.
Qed.

(* the backward dictionary holds the same links *)
Lemma NoDup_keys_NoDup (d : dict) : NoDup (keys d) -> NoDup d.
Proof. unfold keys. apply NoDup_map_inv. Qed.
Lemma bck_links (m o : dict) : PB m o -> Permutation (map (fun kv => (snd kv, fst kv)) o) m.
Proof.
  intros (Nm & No & C). apply NoDup_Permutation.
  - apply FinFun.Injective_map_NoDup; [intros [a b] [a' b'] [= -> ->]; reflexivity | now apply NoDup_keys_NoDup].
  - now apply NoDup_keys_NoDup.
  - intros [k v]. rewrite in_map_iff. split.
    + intros ([v' k'] & [= <- <-] & Hin). cbn.
      apply (dget_In_iff sub_eqb sub_eqb_spec) in Hin; [|assumption]. apply C in Hin.
      now apply (dget_In_pair sub_eqb sub_eqb_spec).
    + intros Hin. exists (v, k). split; [reflexivity|].
      apply (dget_In_iff sub_eqb sub_eqb_spec) in Hin; [|assumption]. apply C in Hin.
      now apply (dget_In_pair sub_eqb sub_eqb_spec).
Qed.

Theorem linked_out_refines (b : lmap) L p : LInv b -> Permutation (lm_links b) L ->
  Permutation (linked (fwd b) p) (lo L p).
Proof.
  intros ((Nm & No & C) & HDm & HDo) HL. rewrite (linked_perm _ p Nm HDm). unfold lo.
  rewrite <- (Permutation_filter _ _ _ HL). rewrite lm_links_eq. unfold linksof.
  rewrite filter_map_comm, map_map. reflexivity.
Qed.
Theorem linked_in_refines (b : lmap) L p : LInv b -> Permutation (lm_links b) L ->
  Permutation (linked (bck b) p) (li L p).
Proof.
  intros (HPB & HDm & HDo) HL. pose proof HPB as (Nm & No & C). rewrite (linked_perm _ p No HDo). unfold li.
  assert (HL' : Permutation (linksof (map (fun kv => (snd kv, fst kv)) (bck b))) L).
  { rewrite <- HL. rewrite lm_links_eq. unfold linksof. apply Permutation_map. now apply bck_links. }
  rewrite <- (Permutation_filter _ _ _ HL'). unfold linksof.
  rewrite map_map, filter_map_comm, map_map. reflexivity.
Qed.

Lemma lo_In L s t : In t (lo L s) <-> In (s, t) L.
Proof.
  unfold lo. rewrite in_map_iff. split.
  - intros ([s' t'] & <- & Hin). apply filter_In in Hin. cbn in Hin. destruct Hin as [Hin E].
    destruct (port_eqb_spec s' s) as [->|]; [assumption|discriminate].
  - intros H. exists (s, t). split; [reflexivity|]. apply filter_In. split; [assumption|]. cbn.
    destruct (port_eqb_spec s s); congruence.
Qed.
Theorem has_link_refines (b : lmap) L s t : LInv b -> Permutation (lm_links b) L ->
  mem port_eqb t (linked (fwd b) s) = mem link_eqb (s, t) L.
Proof.
  intros HI HL. pose proof (linked_out_refines b L s HI HL) as HP.
  destruct (mem_spec port_eqb port_eqb_spec t (linked (fwd b) s)) as [H|H];
    destruct (mem_spec link_eqb link_eqb_spec (s, t) L) as [H'|H']; try reflexivity; exfalso.
  - apply H'. apply lo_In. eapply Permutation_in; eassumption.
  - apply H. apply lo_In in H'. eapply Permutation_in; [symmetry|]; eassumption.
Qed.

(* ------------------------------------------------------------------ delete_link *)
Lemma find_idx_some {A} (eqb : A -> A -> bool) (Heq : forall a b, reflect (a = b) (eqb a b)) (l : list A) q :
  forall i k, find_idx eqb l q i = Some k -> exists j, k = i + j /\ nth_error l j = Some q.
Proof.
  induction l as [|x r IH]; cbn; intros i k; [discriminate|].
  destruct (Heq x q) as [->|].
  - intros [= <-]. exists 0. split; [lia|reflexivity].
  - intros H. apply IH in H. destruct H as (j & -> & Hj). exists (S j). split; [lia|assumption].
Qed.
Lemma find_idx_none {A} (eqb : A -> A -> bool) (Heq : forall a b, reflect (a = b) (eqb a b)) (l : list A) q :
  forall i, find_idx eqb l q i = None -> ~ In q l.
Proof.
  induction l as [|x r IH]; cbn; intros i; [tauto|].
  destruct (Heq x q) as [->|Hne]; [discriminate|]. intros H [E|Hin]; [congruence|]. eapply IH; eassumption.
Qed.

Lemma nth_error_seq0 n j : j < n -> nth_error (seq 0 n) j = Some j.
Proof. intros H. rewrite (nth_error_nth' _ 0) by now rewrite seq_length. now rewrite seq_nth. Qed.

Theorem lm_delete_link_ok (b : lmap) src dst : LInv b ->
  exists b', lm_delete_link b src dst = (b', Ok) /\ LInv b' /\
    ((In (src, dst) (lm_links b) /\ Permutation (lm_links b) ((src, dst) :: lm_links b')) \/
     (~ In (src, dst) (lm_links b) /\ b' = b)).
Proof.
  intros HI. unfold lm_delete_link.
  destruct (find_idx port_eqb (linked (fwd b) src) dst 0) as [i|] eqn:E.
  - apply (find_idx_some port_eqb port_eqb_spec) in E. destruct E as (j & -> & Hj). cbn [plus].
    destruct (linked_seq (fwd b) src) as (n & Hl & Hall & Hn). rewrite Hl in Hj.
    assert (Hjn : j < n).
    { assert (nth_error (map (fun j0 => tgt (fwd b) (src, j0)) (seq 0 n)) j <> None) by congruence.
      apply nth_error_Some in H. now rewrite map_length, seq_length in H. }
    rewrite nth_error_map, nth_error_seq0 in Hj by assumption.
    destruct (getS (fwd b) (src, j)) as [t|] eqn:Et; [|exfalso; now apply (Hall j Hjn)].
    destruct (delete_sub_link_ok b (src, j) t HI Et) as (b' & Hd & HI' & HP).
    exists b'. split; [assumption|]. split; [assumption|]. left. cbn [fst] in HP.
    assert (fst t = dst) as Ht.
    { cbn in Hj. unfold tgt in Hj. rewrite Et in Hj. congruence. }
    rewrite Ht in HP. split; [|assumption]. eapply Permutation_in; [symmetry; exact HP|now left].
  - exists b. split; [reflexivity|]. split; [assumption|]. right. split; [|reflexivity].
    apply (find_idx_none port_eqb port_eqb_spec) in E. intros Hin. apply E.
    eapply Permutation_in; [symmetry; apply (linked_out_refines b (lm_links b) src HI (Permutation_refl _))|].
    now apply lo_In.
Qed.

(* ------------------------------------------------------------------ delete_node on the link map *)
Lemma lm_links_length (b : lmap) : length (lm_links b) = length (fwd b).
Proof. unfold lm_links. now rewrite map_length. Qed.

Lemma clear_out_ok p : forall fuel (b : lmap), LInv b -> length (fwd b) < fuel ->
  exists b', clear_out fuel b p = (b', Ok) /\ LInv b' /\
    Permutation (lm_links b') (filter (fun l => negb (port_eqb (fst l) p)) (lm_links b)).
Proof.
  induction fuel as [|f IH]; intros b HI Hf; [lia|]. cbn [clear_out].
  destruct (getS (fwd b) (p, 0)) as [t|] eqn:E.
  - destruct (delete_sub_link_ok b (p, 0) t HI E) as (b1 & Hd & HI1 & HP). rewrite Hd. cbn [fst] in HP.
    destruct (IH b1 HI1) as (b' & Hc & HI' & HP').
    { apply Permutation_length in HP. cbn in HP. rewrite !lm_links_length in HP. lia. }
    exists b'. split; [assumption|]. split; [assumption|].
    rewrite HP'. rewrite (Permutation_filter _ _ _ HP). cbn [filter fst].
    destruct (port_eqb_spec p p); [reflexivity|congruence].
  - exists b. split; [reflexivity|]. split; [assumption|]. rewrite filter_id; [reflexivity|].
    intros l Hl. rewrite lm_links_eq in Hl. unfold linksof in Hl. apply in_map_iff in Hl.
    destruct Hl as ([[q j] v] & <- & Hin). cbn [fst snd]. destruct (port_eqb_spec q p) as [->|]; [|reflexivity].
    exfalso. destruct HI as ((Nm & _) & HD & _).
    assert (Hh : has (fwd b) (p, j) = true).
    { apply keys_has. change (p, j) with (fst ((p, j), v)). now apply in_map. }
    apply (DC_down _ p HD j 0 ltac:(lia)) in Hh. apply has_true in Hh. contradiction.
Qed.
Lemma clear_in_ok p : forall fuel (b : lmap), LInv b -> length (fwd b) < fuel ->
  exists b', clear_in fuel b p = (b', Ok) /\ LInv b' /\
    Permutation (lm_links b') (filter (fun l => negb (port_eqb (snd l) p)) (lm_links b)).
Proof.
  induction fuel as [|f IH]; intros b HI Hf; [lia|]. cbn [clear_in].
  destruct (getS (bck b) (p, 0)) as [s|] eqn:E.
  - assert (Es : getS (fwd b) s = Some (p, 0)) by (destruct HI as ((_ & _ & C) & _); now apply C).
    destruct (delete_sub_link_ok b s (p, 0) HI Es) as (b1 & Hd & HI1 & HP). rewrite Hd. cbn [fst] in HP.
    destruct (IH b1 HI1) as (b' & Hc & HI' & HP').
    { apply Permutation_length in HP. cbn in HP. rewrite !lm_links_length in HP. lia. }
    exists b'. split; [assumption|]. split; [assumption|].
    rewrite HP'. rewrite (Permutation_filter _ _ _ HP). cbn [filter snd].
    destruct (port_eqb_spec p p); [reflexivity|congruence].
  - exists b. split; [reflexivity|]. split; [assumption|]. rewrite filter_id; [reflexivity|].
    intros l Hl. rewrite lm_links_eq in Hl. unfold linksof in Hl. apply in_map_iff in Hl.
    destruct Hl as ([k [q j]] & <- & Hin). cbn [fst snd]. destruct (port_eqb_spec q p) as [->|]; [|reflexivity].
    exfalso. destruct HI as ((Nm & No & C) & _ & HD).
    apply (dget_In_iff sub_eqb sub_eqb_spec) in Hin; [|assumption]. apply C in Hin.
    assert (Hh : has (bck b) (p, j) = true) by (apply has_true; congruence).
    apply (DC_down _ p HD j 0 ltac:(lia)) in Hh. apply has_true in Hh. contradiction.
Qed.

Lemma clear_ports_ok (clr : lmap -> port -> lmap * res) (sel : port * port -> port) :
  (forall b p, LInv b -> exists b', clr b p = (b', Ok) /\ LInv b' /\
      Permutation (lm_links b') (filter (fun l => negb (port_eqb (sel l) p)) (lm_links b))) ->
  forall ps b, LInv b -> exists b', clear_ports clr b ps = (b', Ok) /\ LInv b' /\
      Permutation (lm_links b') (filter (fun l => negb (mem port_eqb (sel l) ps)) (lm_links b)).
Proof.
  intros Hclr. induction ps as [|p ps IH]; intros b HI; cbn [clear_ports].
  - exists b. split; [reflexivity|]. split; [assumption|]. now rewrite filter_id.
  - destruct (Hclr b p HI) as (b1 & -> & HI1 & HP1). destruct (IH b1 HI1) as (b' & Hc & HI' & HP').
    exists b'. split; [assumption|]. split; [assumption|].
    rewrite HP'. rewrite (Permutation_filter _ _ _ HP1). rewrite filter_filter'.
    apply Permutation_refl'. apply filter_ext. intros l. cbn [mem]. now rewrite negb_orb.
Qed.

Lemma mem_offsets n o k : mem port_eqb (n, o) (map (fun x => (n, x)) (offsets_upto k)) = true <-> (-1 <= o < k)%Z.
Proof.
  destruct (mem_spec port_eqb port_eqb_spec (n, o) (map (fun x => (n, x)) (offsets_upto k))) as [H|H].
  - split; [intros _|reflexivity]. apply in_map_iff in H. destruct H as (x & [= <-] & Hx).
    unfold offsets_upto in Hx. apply in_map_iff in Hx. destruct Hx as (i & <- & Hi). apply in_seq in Hi. lia.
  - split; [discriminate|]. intros Ho. exfalso. apply H. apply in_map. unfold offsets_upto.
    apply in_map_iff. exists (Z.to_nat (o + 1)). split; [lia|]. apply in_seq. lia.
Qed.

(* all links of the node are removed and nothing else, provided its counters cover the offsets in use *)
Theorem lm_clear_node_ok (b : lmap) n nin nout : LInv b ->
  (forall l, In l (lm_links b) ->
     (fst (fst l) = n -> (-1 <= snd (fst l) < nout)%Z) /\ (fst (snd l) = n -> (-1 <= snd (snd l) < nin)%Z)) ->
  exists b', lm_clear_node b n nin nout = (b', Ok) /\ LInv b' /\
    Permutation (lm_links b') (filter (fun l => negb (touches n l)) (lm_links b)).
Proof.
  intros HI Hcov. unfold lm_clear_node.
  destruct (clear_ports_ok (fun b p => clear_in (S (length (fwd b))) b p) snd
              (fun b p HI => clear_in_ok p _ b HI (Nat.lt_succ_diag_r _))
              (map (fun o => (n, o)) (offsets_upto nin)) b HI) as (b1 & -> & HI1 & HP1).
  destruct (clear_ports_ok (fun b p => clear_out (S (length (fwd b))) b p) fst
              (fun b p HI => clear_out_ok p _ b HI (Nat.lt_succ_diag_r _))
              (map (fun o => (n, o)) (offsets_upto nout)) b1 HI1) as (b' & -> & HI' & HP').
  exists b'. split; [reflexivity|]. split; [assumption|].
  rewrite HP'. rewrite (Permutation_filter _ _ _ HP1). rewrite filter_filter'.
  apply Permutation_refl'. apply filter_ext_in. intros [[sn so] [tn to]] Hl. specialize (Hcov _ Hl).
  cbn [fst snd] in *. unfold touches. cbn [fst snd]. destruct Hcov as [Hs Ht].
  destruct (Nat.eqb_spec tn n) as [->|Hnt]; destruct (Nat.eqb_spec sn n) as [->|Hns]; cbn.
  - rewrite (proj2 (mem_offsets n to nin) (Ht eq_refl)). reflexivity.
  - rewrite (proj2 (mem_offsets n to nin) (Ht eq_refl)). reflexivity.
  - rewrite (proj2 (mem_offsets n so nout) (Hs eq_refl)). now rewrite andb_false_r.
  - assert (E1 : mem port_eqb (tn, to) (map (fun o => (n, o)) (offsets_upto nin)) = false).
    { destruct (mem_spec port_eqb port_eqb_spec (tn, to) (map (fun o => (n, o)) (offsets_upto nin))) as [H|]; [|reflexivity].
      apply in_map_iff in H. destruct H as (x & [= ->] & _). congruence. }
    assert (E2 : mem port_eqb (sn, so) (map (fun o => (n, o)) (offsets_upto nout)) = false).
    { destruct (mem_spec port_eqb port_eqb_spec (sn, so) (map (fun o => (n, o)) (offsets_upto nout))) as [H|]; [|reflexivity].
      apply in_map_iff in H. destruct H as (x & [= ->] & _). congruence. }
    now rewrite E1, E2.
Qed.
