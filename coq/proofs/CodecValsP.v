(* Proofs for C05, value layer, parametric in the payload of function-valued constants: the round trip
   holds for every value whose embedded HUGRs round-trip (Section hypothesis, discharged level by level in
   proofs/CodecDocP.v). *)
From Coq Require Import NArith List Bool Arith Lia.
Import ListNotations.
From HV Require Import lib.Harness model.Types model.SerialTypes model.Codec model.CodecVals spec.CodecS proofs.CodecP.

Lemma map_comp_F {A B C} (f : A -> B) (g : B -> C) (n : A -> C) l :
  Forall (fun x => g (f x) = n x) l -> map g (map f l) = map n l.
Proof. induction 1 as [|x r Hx _ IH]; cbn; congruence. Qed.
Lemma Forall_and_inv {A} (P Q : A -> Prop) l : Forall (fun x => P x /\ Q x) l -> Forall P l /\ Forall Q l.
Proof. induction 1 as [|x r [Hp Hq] _ [IH IH']]; split; constructor; auto. Qed.

Section ValsP.
  Variables H SH : Type.
  Variable h_enc : H -> SH.
  Variable h_dec : SH -> H.
  Variable h_nf : H -> H.
  Variable h_type : H -> functype.
  Variable h_ok : H -> bool.
  (* the embedded HUGR round-trips: decodes to its normal form, which encodes to the same document and has
     the same (encoded) function type *)
  Hypothesis h_rt : forall h, h_ok h = true ->
    h_dec (h_enc h) = h_nf h /\ h_enc (h_nf h) = h_enc h /\ func_to_serial (h_type (h_nf h)) = func_to_serial (h_type h).

  Notation value := (value H).
  Notation to_serial := (value_to_serial H SH h_enc).
  Notation deser := (value_deserialize H SH h_dec).
  Notation nf := (value_nf H h_nf).
  Notation ok := (value_ok H h_ok).
  Notation type_of := (type_of H h_type).

  Definition value_rt (v : value) : Prop :=
    deser (to_serial v) = nf v /\ to_serial (nf v) = to_serial v /\
    ty_to_serial (type_of (nf v)) = ty_to_serial (type_of v) /\ tbound (type_of (nf v)) = tbound (type_of v).

  Lemma vals_rt l : Forall (fun x => ok x = true -> value_rt x) l -> forallb ok l = true ->
    map deser (map to_serial l) = map nf l /\ map to_serial (map nf l) = map to_serial l /\
    map ty_to_serial (map type_of (map nf l)) = map ty_to_serial (map type_of l) /\
    row_b (map type_of (map nf l)) = row_b (map type_of l).
  Proof.
    induction 1 as [|x r Hx _ IH]; cbn; [repeat split|]. intro O. apply andb_prop in O as [O1 O2].
    destruct (Hx O1) as (A & B & C & D), (IH O2) as (A' & B' & C' & D'). now rewrite A, A', B, B', C, C', D, D'.
  Qed.

  Lemma value_roundtrip_all : forall v, ok v = true -> value_rt v.
  Proof.
    intro v. induction v using value_ind2; intro O; cbn [value_ok] in O; unfold value_rt;
      cbn [value_to_serial value_deserialize value_nf CodecVals.type_of].
    - apply andb_prop in O as [O O3]. apply andb_prop in O as [O1 O2].
      destruct (vals_rt vals H0 O3) as (A & B & _ & _), (ty_AB typ) as [A' B'].
      destruct (ty_roundtrip_all typ O2) as (_ & _ & C & _). now rewrite A, B, A', B', C.
    - destruct (vals_rt vals H0 O) as (A & B & C & D). rewrite A, B. repeat split.
      + cbn. now rewrite C.
      + rewrite !tbound_sum. cbn [rows_b]. now rewrite D.
    - destruct (h_rt h O) as (A & B & C). rewrite A, B. repeat split.
      unfold func_as_ty, func_to_serial in *. cbn in *. now inversion C.
    - destruct (ty_AB t) as [A B], (ty_roundtrip_all t O) as (_ & _ & C & _). now rewrite A, B, C.
  Qed.

  (* ---- sugar values against the general sum value ---- *)
  Notation sugar := (sugar_val H h_type).
  Notation general := (general_val H h_type).
  Notation canon := (value_canon H h_type).
  Lemma sugar_values_eq_all : forall s,
    canon (sugar s) = canon (general s) /\                                   (* Python == *)
    ty_canon (type_of (sugar s)) = ty_canon (type_of (general s)) /\         (* same type *)
    tbound (type_of (sugar s)) = tbound (type_of (general s)) /\             (* same bound *)
    match s with VgUnitSum _ _ | VgTuple _ => True | _ => sugar s = general s end.
  Proof.
    intros [tag n|vals|tys|vals rt|lt vals|vals]; cbn [sugar_val general_val CodecVals.type_of value_canon]; repeat split.
    - cbn. now rewrite canon_unit_rows.
    - cbn. now rewrite canon_unit_rows.
    - now rewrite tbound_unit_rows.
    - cbn. now rewrite map_map.
  Qed.

  (* ---- converse: a serial value this library did not produce ---- *)
  Variable sh_norm : SH -> SH.
  Variable sh_wf : SH -> bool.
  Hypothesis h_rs : forall sh, sh_wf sh = true -> h_enc (h_dec sh) = sh_norm sh.
  Fixpoint svalue_norm (s : svalue SH) : svalue SH :=
    match s with
    | SVFunction sh => SVFunction (sh_norm sh)
    | SVTuple vs => SVTuple (map svalue_norm vs)
    | SVSum tag typ vs => SVSum tag typ (map svalue_norm vs)
    | _ => s
    end.
  Fixpoint svalue_wf (s : svalue SH) : bool :=
    match s with
    | SVFunction sh => sh_wf sh
    | SVTuple vs | SVSum _ _ vs => forallb svalue_wf vs
    | _ => true
    end.
  Lemma value_reserial_all : forall s, svalue_wf s = true -> to_serial (deser s) = svalue_norm s.
  Proof.
    intro s. induction s using svalue_ind2; intro W; cbn [svalue_wf] in W;
      cbn [value_to_serial value_deserialize svalue_norm].
    - destruct (ty_reserial_all t) as [A _]. now rewrite A.
    - now rewrite h_rs.
    - f_equal. rewrite map_map. apply map_ext_ok with (ok := svalue_wf); assumption.
    - destruct (ty_reserial_all typ) as [A _]. rewrite A. f_equal. rewrite map_map.
      apply map_ext_ok with (ok := svalue_wf); assumption.
  Qed.
End ValsP.
