(* C01 (second pass) — rule 8: every value / static input port of every non-root node has exactly one link, for
   every well-typed program (spec/BuilderWFS.v: wt_prog) of the modelled builder language whose builder calls do
   not raise.  `_wire_up` wires the ports 0, 1, ... of the node being added once each, and for a well-typed
   program that is exactly the input row of the completed operation; placeholders (Output [], DFG ins []) have
   no unwired input at a statement boundary. *)
From Coq Require Import NArith List Bool Arith Lia.
Import ListNotations.
From HV Require Import lib.Harness model.Validity model.Builder spec.BuilderS spec.BuilderWFS
  proofs.BuilderP proofs.BuilderExtP proofs.BuilderFrameP proofs.BuilderRulesP proofs.BuilderTypeP.
Local Open Scope N_scope.

(* ------------------------------------------------------------------ counting the links into a port *)
Definition into (i off : N) (e : edge) : bool := (e_dst e =? i) && optN_eqb (e_doff e) (Some off).
Definition cnt (es : list edge) (i off : N) : N := countb (into i off) es.
Definition InOnce (st : store) : Prop := forall i nd, nthN (s_nodes st) i = Some nd -> i <> 0 ->
  forall off, off < base_in (n_op nd) -> cnt (s_links st) i off = 1.

Lemma countb_app {A} (f : A -> bool) a b : countb f (a ++ b) = countb f a + countb f b.
Proof. induction a as [|x a IH]; cbn [app countb]; [reflexivity|]. rewrite IH. lia. Qed.
Lemma countb_zero {A} (f : A -> bool) l : (forall x, In x l -> f x = false) -> countb f l = 0.
Proof.
  induction l as [|x l IH]; intros H; cbn [countb]; [reflexivity|]. rewrite (H x (or_introl eq_refl)), IH; [reflexivity|].
  intros y Hy. apply H. now right.
Qed.
Lemma cnt_app a b i off : cnt (a ++ b) i off = cnt a i off + cnt b i off.
Proof. apply countb_app. Qed.

Lemma cnt_single e i off : cnt [e] i off = if into i off e then 1 else 0.
Proof. unfold cnt. cbn [countb]. destruct (into i off e); reflexivity. Qed.

Lemma WNew_cnt st node ws : forall i0 ts new, WNew st node i0 ws ts new -> forall i off,
  cnt new i off = if (i =? node) && (i0 <=? off) && (off <? i0 + lenN ts) then 1 else 0.
Proof.
  intros i0 ts new H. induction H; intros j off.
  - unfold cnt. cbn [countb]. change (lenN (@nil tyid)) with 0. rewrite N.add_0_r.
    destruct (j =? node); cbn [andb]; [|reflexivity].
    destruct (N.leb_spec i off), (N.ltb_spec off i); cbn [andb]; try reflexivity; lia.
  - rewrite cnt_app. assert (Hpre : cnt pre j off = 0).
    { destruct H0 as [->|[-> _]]; [reflexivity|]. unfold cnt, into, olink. cbn [countb e_dst e_doff optN_eqb option_eqb].
      now rewrite andb_false_r. }
    rewrite Hpre. unfold cnt at 1. cbn [countb]. fold (cnt rest j off). rewrite IHWNew.
    unfold into, vlink. cbn [e_dst e_doff optN_eqb option_eqb]. rewrite lenN_cons.
    destruct (N.eqb_spec node j) as [->|Hne].
    + rewrite N.eqb_refl. cbn [andb].
      destruct (N.eqb_spec i off), (N.leb_spec (i + 1) off), (N.ltb_spec off (i + 1 + lenN ts)), (N.leb_spec i off),
        (N.ltb_spec off (i + (lenN ts + 1))); cbn; lia.
    + replace (j =? node) with false by (symmetry; apply N.eqb_neq; congruence). reflexivity.
Qed.

Lemma cnt_fresh st n off : LinksOK st -> s_len st <= n -> cnt (s_links st) n off = 0.
Proof.
  intros K L. apply countb_zero. intros e Hin. destruct (LinksOK_in _ _ K Hin) as [_ Ld].
  unfold into. replace (e_dst e =? n) with false; [reflexivity|]. symmetry. apply N.eqb_neq. lia.
Qed.
(* a fine link never enters a port of an Output [] placeholder *)
Lemma cnt_placeholder st n p off : LinkInv st -> nthN (s_nodes st) n = Some (mk (Output []) p) -> cnt (s_links st) n off = 0.
Proof.
  intros LI En. apply countb_zero. intros e Hin. unfold LinkInv in LI. rewrite forallb_forall in LI. specialize (LI _ Hin).
  unfold into. destruct (N.eqb_spec (e_dst e) n) as [Ed|_]; [|reflexivity]. cbn [andb].
  destruct (e_doff e) as [b|] eqn:Eb; [|reflexivity]. exfalso.
  unfold link_okb, op_at in LI. rewrite Ed, En, Eb in LI. cbn [option_map mk n_op] in LI.
  destruct (option_map n_op (nthN (s_nodes st) (e_src e))) as [so|]; [|discriminate].
  destruct (e_soff e) as [a|]; [|discriminate]. cbn [val_in df_sig] in LI. rewrite nthN_nil in LI.
  destruct (nthN (val_out so) a); destruct so; discriminate.
Qed.

Lemma completed_base_in tys o ts op' : completed_op tys o ts = Ok op' -> base_in op' = lenN (val_in op').
Proof.
  intros C. pose proof (completed_canon tys _ _ _ C) as Hc. unfold base_in.
  assert (S : static_in op' = None) by (destruct op', o; cbn in Hc; try discriminate; reflexivity).
  rewrite S. cbn. lia.
Qed.

(* for a well-typed add_op the completed operation's input row is the list of recorded wire types *)
Lemma SOp_arity tys id o args rs G G' st e ws ts st1 x n new op' :
  wt_stmt tys (SOp id o args rs) G = Some G' -> G_of (s_nodes st) e = G -> EnvRange st e ->
  get_wires e args = Ok ws -> s_nodes st1 = s_nodes st ++ [x] -> WNew st1 n 0 ws ts new ->
  completed_op tys o ts = Ok op' -> val_in op' = ts.
Proof.
  intros W EG R Gw En1 HW C. cbn [wt_stmt] in W.
  destruct (wire_tys G args) as [ts_s|] eqn:WT; [|discriminate].
  destruct (completed_op tys o ts_s) as [op_s|] eqn:CS; [|discriminate].
  destruct (row_eqb (val_in op_s) ts_s && opspec_ok tys o) eqn:CK; [|discriminate].
  apply andb_true_iff in CK. destruct CK as [CK1 _].
  assert (ts = ts_s).
  { eapply (types_agree (s_nodes st) (s_nodes st1) ws).
    - eapply wire_tys_types; eauto. now rewrite EG.
    - eapply WNew_types2; eauto.
    - intros p Hp. rewrite En1. apply type_at_app. apply (get_wires_pos _ _ _ _ R Gw _ Hp). }
  subst ts_s. rewrite C in CS. inversion CS; subst op_s. now apply row_eqb_eq.
Qed.

Section InputsMain.
  Variable tys : list tyinfo.

  Definition ES (s : stmt) : Prop := forall b st e st' e' G G',
    exec_stmt tys s b st e = Ok (st', e') -> wt_stmt tys s G = Some G' -> Bpre tys st b e G -> InOnce st -> InOnce st'.
  Definition ER (r : region) : Prop := forall b st e st' e' G G' ins outs pp,
    exec_region tys r b st e = Ok (st', e') -> wt_region tys r ins G = Some (G', outs) -> Bpre tys st b e G ->
    nthN (s_nodes st) (b_parent b) = Some (mk (DFG ins []) pp) -> InOnce st -> InOnce st'.
  Definition EL (l : stmts) : Prop := forall b st e st' e' G G',
    exec_stmts tys l b st e = Ok (st', e') -> wt_stmts tys l G = Some G' -> Bpre tys st b e G -> InOnce st -> InOnce st'.

  Lemma exec_inputs_once : (forall s, ES s) /\ (forall r, ER r) /\ (forall l, EL l).
  Proof.
    destruct (exec_typed tys) as (TSs & TRr & TLl).
    apply prog_mutind; unfold ES, ER, EL.
    - (* SOp *)
      intros id o args rs b st e st' e' G G' H W P Q.
      pose proof P as [I A O R Nn SK EG LI NO].
      pose proof H as H0. apply SOp_spec in H0.
      destruct H0 as (ws & ts & op' & new & st1 & Gw & Lp & En1 & El1 & HW & C & En' & El' & _).
      pose proof (SOp_arity _ _ _ _ _ _ _ _ _ _ _ _ _ _ _ _ W EG R Gw En1 HW C) as Har.
      intros i nd Ei Hi off Hoff. rewrite El', cnt_app, (WNew_cnt _ _ _ _ _ _ HW).
      rewrite En' in Ei. apply nthN_snoc_inv in Ei. destruct Ei as [Ei|[-> ->]].
      + pose proof (nthN_lt _ _ _ Ei) as Li. fold (s_len st) in Li.
        replace (i =? s_len st) with false by (symmetry; apply N.eqb_neq; lia). cbn [andb]. rewrite N.add_0_r. eauto.
      + fold (s_len st). rewrite N.eqb_refl, (cnt_fresh _ _ _ (proj2 I)) by lia. cbn [mk n_op] in Hoff.
        rewrite (completed_base_in _ _ _ _ C), Har in Hoff.
        destruct (N.leb_spec 0 off); [|lia]. destruct (N.ltb_spec off (0 + lenN ts)); [reflexivity|lia].
    - (* SLoad *)
      intros id v cp r b st e st' e' G G' H W P Q.
      pose proof P as [I A O R Nn SK EG LI NO].
      pose proof H as H0. apply SLoad_spec in H0. destruct H0 as (En' & El' & _).
      intros i nd Ei Hi off Hoff. rewrite El', cnt_app, cnt_single. unfold into. cbn [e_dst e_doff optN_eqb option_eqb].
      rewrite En' in Ei.
      destruct (N.lt_ge_cases i (s_len st)) as [Li|Li].
      + unfold s_len in Li. rewrite nthN_app_lt in Ei by exact Li. rewrite (Q _ _ Ei Hi _ Hoff).
        replace (s_len st + 1 =? i) with false by (symmetry; apply N.eqb_neq; unfold s_len; lia). reflexivity.
      + rewrite (cnt_fresh _ _ _ (proj2 I)) by exact Li. unfold s_len in Li. rewrite nthN_app_ge in Ei by exact Li.
        unfold nthN in Ei. destruct (N.to_nat (i - lenN (s_nodes st))) as [|[|k]] eqn:Ek; cbn in Ei.
        * inversion Ei; subst nd. cbn in Hoff. lia.
        * inversion Ei; subst nd. cbn in Hoff. assert (off = 0) by lia. subst off.
          replace (s_len st + 1 =? i) with true by (symmetry; apply N.eqb_eq; unfold s_len; lia). reflexivity.
        * destruct k; discriminate.
    - (* SNested *)
      intros id args body IH rs b st e st' e' G G' H W P Q.
      pose proof P as [I A O R Nn SK EG LI NO].
      pose proof (TSs _ _ _ _ _ _ _ _ H W P) as P'.
      (* re-enter the typed induction's bookkeeping for the region *)
      cbn [wt_stmt] in W.
      destruct (wire_tys G args) as [ts_s|] eqn:WT; [|discriminate].
      match type of W with match ?x with _ => _ end = _ => destruct x as [[G1 outs]|] eqn:WR; [|discriminate] end.
      apply SNested_spec in H.
      destruct H as (ws & ts & new & st3 & st4 & e5 & Gw & T & Lp & En3 & El3 & HW & En4 & El4 & X & _).
      assert (ts = ts_s).
      { eapply (types_agree (s_nodes st) (s_nodes st3) ws).
        - eapply wire_tys_types; eauto. now rewrite EG.
        - eapply WNew_types2; eauto.
        - intros p Hp. rewrite En3. apply type_at_app. apply (get_wires_pos _ _ _ _ R Gw _ Hp). }
      subst ts_s.
      destruct (nested_entry _ _ _ _ _ _ _ _ I A O R (get_wires_pos _ _ _ _ R Gw) En3 HW En4 El4) as (I4 & A4 & O4 & R4 & L4).
      set (d := s_len st) in *.
      assert (GR4 : Grow (s_nodes st) (s_nodes st4)) by (rewrite En4, En3; apply Grow_app).
      assert (Hd : nthN (s_nodes st4) d = Some (mk (DFG ts []) (b_parent b))) by (rewrite En4, En3; apply nthN_len).
      assert (P4 : Bpre tys st4 {| b_parent := d; b_in := d + 1; b_out := d + 2 |} e G).
      { constructor; auto.
        - intros w p Hin. cbn [b_parent]. pose proof (proj1 R _ _ Hin). fold d in H. lia.
        - eapply StmtsOK_grow; eauto.
        - rewrite <- EG. apply G_of_ext. intros w p Hin. rewrite En4, En3. apply type_at_app. apply (proj1 R _ _ Hin).
        - unfold LinkInv. rewrite El4, forallb_app. apply andb_true_iff. split; [eapply LinkInv_grow; eauto|].
          eapply WNew_link_ok; [exact HW| | | |].
          + rewrite <- En4. exact (proj1 I4).
          + rewrite <- En4. exact (proj1 A4).
          + rewrite <- En4. apply Grow_refl.
          + exists (mk (DFG ts []) (b_parent b)). split; [exact Hd|]. intros j t Hj. now rewrite N.add_0_l.
        - unfold NodesOK. rewrite En4, En3, forallb_app. apply andb_true_iff. split; [exact NO|reflexivity]. }
      eapply (IH _ _ _ _ _ _ _ _ _ _ X WR P4 Hd).
      intros i nd Ei Hi off Hoff. rewrite El4, cnt_app, (WNew_cnt _ _ _ _ _ _ HW).
      rewrite En4, En3 in Ei.
      destruct (N.lt_ge_cases i d) as [Li|Li].
      + unfold d, s_len in Li. rewrite nthN_app_lt in Ei by exact Li. rewrite (Q _ _ Ei Hi _ Hoff).
        replace (i =? d) with false by (symmetry; apply N.eqb_neq; unfold d, s_len; lia). reflexivity.
      + rewrite (cnt_fresh _ _ _ (proj2 I)) by exact Li. unfold d, s_len in Li. rewrite nthN_app_ge in Ei by exact Li.
        unfold nthN in Ei. destruct (N.to_nat (i - lenN (s_nodes st))) as [|[|[|k]]] eqn:Ek; cbn in Ei.
        * inversion Ei; subst nd. cbn [mk n_op] in Hoff.
          assert (Hb : base_in (DFG ts []) = lenN ts) by (unfold base_in; cbn; lia). rewrite Hb in Hoff.
          replace (i =? d) with true by (symmetry; apply N.eqb_eq; unfold d, s_len; lia). cbn [andb].
          destruct (N.leb_spec 0 off); [|lia]. destruct (N.ltb_spec off (0 + lenN ts)); [reflexivity|lia].
        * inversion Ei; subst nd. cbn in Hoff. lia.
        * inversion Ei; subst nd. cbn in Hoff. lia.
        * destruct k; discriminate.
    - (* SOrder *)
      intros src dst b st e st' e' G G' H W P Q.
      apply SOrder_spec in H. destruct H as (a & c & Na & Nc & En' & El' & _).
      intros i nd Ei Hi off Hoff. rewrite En' in Ei. destruct El' as [->| ->]; [eauto|].
      rewrite cnt_app, (Q _ _ Ei Hi _ Hoff), cnt_single. unfold into, olink. cbn [e_dst e_doff optN_eqb option_eqb].
      now rewrite andb_false_r.
    - (* Region *)
      intros wids body IH oids b st e st' e' G G' ins outs pp H W P Hp Q. cbn [wt_region] in W.
      match type of W with match ?x with _ => _ end = _ => destruct x as [G1|] eqn:WB; [|discriminate] end.
      destruct (wire_tys G1 oids) as [outs_s|] eqn:WO; [|discriminate]. inversion W; subst G' outs_s; clear W.
      apply exec_region_inv in H. destruct H as (st1 & ws & X & Gw & SO).
      pose proof P as [I A O R Nn SK EG LI NO].
      pose proof O as (Ei & Eo & _).
      pose proof (OpenB_lt _ _ O) as Lb. fold (s_len st) in Lb.
      destruct (proj1 (proj2 A) _ _ _ _ Hp eq_refl) as [Hin _].
      assert (P0 : Bpre tys st b (bind_outs e (b_in b) wids) (tbind G wids ins)).
      { constructor; auto.
        - apply EnvRange_bind_in; [exact R|lia|lia].
        - apply WiresNot_bind_in; [exact Nn|lia].
        - now apply StmtsOK_bind_in.
        - unfold bind_outs. rewrite Ei. rewrite (G_of_bind_from _ _ _ wids Hin). cbn [mk n_op val_out df_sig].
          unfold tbind. now rewrite EG. }
      pose proof (IH _ _ _ _ _ _ _ X WB P0 Q) as Q1.
      destruct (stmts_pre tys _ _ _ _ _ _ _ X P0) as [K1 L1].
      pose proof (TLl _ _ _ _ _ _ _ _ X WB P0) as [I1 A1 O1 R1 Nn1 SK1 EG1 LI1 NO1].
      destruct (set_outputs_spec _ _ _ _ SO O1) as (ts & new & i1 & pp' & HW & El' & Hp1 & En').
      destruct O1 as (_ & _ & i2 & pp2 & Hp2 & Ho2).
      set (p := b_parent b) in *. rewrite Eo in HW.
      assert (Lo : p + 2 < lenN (s_nodes st1)) by (eapply nthN_lt; eauto).
      intros i nd Ei' Hi off Hoff. rewrite El', cnt_app, (WNew_cnt _ _ _ _ _ _ HW). rewrite En' in Ei'.
      destruct (N.eq_dec i p) as [->|Hip].
      + rewrite nthN_set_nth_eq in Ei' by (rewrite lenN_set_nth; lia). inversion Ei'; subst nd. cbn [mk n_op] in Hoff.
        replace (p =? p + 2) with false by (symmetry; apply N.eqb_neq; lia). cbn [andb]. rewrite N.add_0_r.
        eapply Q1; [exact Hp1|exact Hi|]. exact Hoff.
      + rewrite nthN_set_nth_neq in Ei' by exact Hip.
        destruct (N.eq_dec i (p + 2)) as [->|Hio].
        * rewrite nthN_set_nth_eq in Ei' by exact Lo. inversion Ei'; subst nd. cbn [mk n_op] in Hoff.
          assert (Hb : base_in (Output ts) = lenN ts) by (unfold base_in; cbn; lia). rewrite Hb in Hoff.
          rewrite (cnt_placeholder _ _ _ _ LI1 Ho2), N.eqb_refl. cbn [andb].
          destruct (N.leb_spec 0 off); [|lia]. destruct (N.ltb_spec off (0 + lenN ts)); [reflexivity|lia].
        * rewrite nthN_set_nth_neq in Ei' by exact Hio.
          replace (i =? p + 2) with false by (symmetry; apply N.eqb_neq; lia). cbn [andb]. rewrite N.add_0_r. eauto.
    - (* SNil *)
      intros b st e st' e' G G' H W P Q. cbn in H. now inversion H; subst.
    - (* SCons *)
      intros s IHs r IHr b st e st' e' G G' H W P Q. cbn [wt_stmts] in W.
      match type of W with match ?x with _ => _ end = _ => destruct x as [G1|] eqn:W1; [|discriminate] end.
      apply exec_SCons_inv in H. destruct H as (st1 & e1 & X1 & X2).
      eapply IHr; [exact X2|exact W|exact (TSs _ _ _ _ _ _ _ _ X1 W1 P)|eapply IHs; eauto].
  Qed.
End InputsMain.

(* ------------------------------------------------------------------ from the store to the resolved edges of the document *)
Lemma link_ok_resolve st e : link_okb (s_nodes st) e = true ->
  exists r do_, resolve (to_serial st) (ser st e) = Some r /\ r_dst r = e_dst e /\ s_op st (e_dst e) = Some do_ /\
    r_do r = match e_doff e with Some b => b | None => base_in do_ end.
Proof.
  unfold link_okb, resolve, op_of, op_at, ser, constrain_out, constrain_in, s_op, to_serial.
  cbn [g_nodes e_src e_dst e_soff e_doff].
  destruct (option_map n_op (nthN (s_nodes st) (e_src e))) as [so|]; [|discriminate].
  destruct (option_map n_op (nthN (s_nodes st) (e_dst e))) as [do_|] eqn:Ed; [|discriminate].
  destruct (e_soff e) as [a|], (e_doff e) as [b|]; try discriminate.
  - destruct (nthN (val_out so) a) as [t|] eqn:Ea.
    + destruct (nthN (val_in do_) b) as [t'|] eqn:Eb.
      * intros _. rewrite (proj1 (kind_out_value _ _ _ Ea)). eexists _, do_. repeat split.
      * destruct so; try discriminate. cbn in Ea. rewrite nthN_nil in Ea. discriminate.
    + destruct so; try discriminate. destruct do_; try discriminate. intros H.
      apply andb_true_iff in H. destruct H as [H H3]. apply andb_true_iff in H. destruct H as [H1 H2].
      apply N.eqb_eq in H1. subst a. cbn. eexists _, _. repeat split.
  - intros H. apply andb_true_iff in H. destruct H as [H1 H2].
    rewrite (proj1 (kind_out_order _ H1)). eexists _, do_. repeat split.
Qed.

Lemma links_into_cnt st i nd off : LinkInv st -> nthN (s_nodes st) i = Some nd -> off < base_in (n_op nd) ->
  links_into (redges (to_serial st)) i off = cnt (s_links st) i off.
Proof.
  intros LI En Hoff. unfold redges, cnt, links_into. rewrite to_serial_edges. unfold LinkInv in LI.
  induction (s_links st) as [|e l IH]; [reflexivity|]. cbn [forallb] in LI. apply andb_true_iff in LI. destruct LI as [Le Ll].
  cbn [map flat_map countb]. rewrite countb_app, (IH Ll).
  destruct (link_ok_resolve _ _ Le) as (r & do_ & Hr & Hd & Ho & Hdo). rewrite Hr. cbn [countb]. rewrite N.add_0_r.
  f_equal. unfold into. rewrite Hd, Hdo. destruct (N.eqb_spec (e_dst e) i) as [Ei|_]; [|reflexivity]. cbn [andb].
  destruct (e_doff e) as [b|]; [reflexivity|]. cbn [optN_eqb option_eqb].
  rewrite Ei in Ho. unfold s_op in Ho. rewrite En in Ho. cbn in Ho. inversion Ho; subst do_.
  destruct (N.eqb_spec (base_in (n_op nd)) off); [lia|reflexivity].
Qed.

Lemma in_upto k off : In off (upto k) -> off < N.of_nat k.
Proof.
  induction k as [|k IH]; cbn [upto]; [intros []|]. intros H. apply in_app_or in H. destruct H as [H|[<-|[]]]; [|lia].
  specialize (IH H). lia.
Qed.

Lemma inputs_once_of st : LinkInv st -> InOnce st -> r_inputs_once (to_serial st) = true.
Proof.
  intros LI Q. unfold r_inputs_once. apply forallb_forall. intros [i nd] Hin. cbn [fst snd].
  apply in_indexed in Hin. cbn [to_serial g_nodes] in Hin.
  destruct (N.eqb_spec i 0) as [|Hi]; [reflexivity|]. cbn [orb]. apply forallb_forall. intros off Hoff.
  apply in_upto in Hoff. rewrite N2Nat.id in Hoff. apply N.eqb_eq.
  rewrite (links_into_cnt _ _ _ _ LI Hin Hoff). eapply Q; eauto.
Qed.

(* ------------------------------------------------------------------ the theorem *)
Theorem run_inputs_once tys p g : wt_prog tys p = true -> run tys p = Ok g -> r_inputs_once g = true.
Proof.
  unfold run. intros W H. bd H. rename v into st. inversion H; subst; clear H.
  destruct (exec_prog_typed _ _ _ W E) as [LI _]. apply inputs_once_of; [exact LI|].
  destruct p as [ins body]. unfold wt_prog in W.
  destruct (wt_region tys body ins []) as [[G' outs]|] eqn:WR; [|discriminate].
  apply exec_prog_inv in E. destruct E as [e' E].
  destruct (exec_inputs_once tys) as (_ & ERr & _).
  eapply (ERr _ _ _ _ _ _ _ _ _ _ _ E WR (init_Bpre tys ins) eq_refl).
  intros i nd Ei Hi off Hoff. unfold nthN in Ei. cbn [st0 s_nodes] in Ei.
  destruct (N.to_nat i) as [|[|[|k]]] eqn:Ek; cbn in Ei; try lia; try (destruct k; discriminate);
    inversion Ei; subst nd; cbn in Hoff; lia.
Qed.
