(* Proofs for C05, document layer: loading and re-saving a serial document this library did not produce keeps
   every node operation (up to the defaults [sop_norm] fills in), every edge (null order offsets made
   explicit) and all metadata.  Parametric in the documents embedded in function-valued constants: the
   hypothesis [h_rs] on the payload is this file's own conclusion one nesting level down. *)
From Coq Require Import NArith List Bool Arith Lia Permutation.
Import ListNotations.
From HV Require Import lib.Harness model.Types model.SerialTypes model.Codec model.CodecVals model.CodecOps model.CodecDoc
  spec.CodecS proofs.CodecP proofs.CodecValsP proofs.CodecOpsP.

Section DocP.
  Variables H SH : Type.
  Variable h_enc : H -> SH.
  Variable h_dec : SH -> H.
  Variable h_nf : H -> H.
  Variable h_type : H -> functype.
  Variable h_ok : H -> bool.
  Variable sh_norm : SH -> SH.
  Variable sh_wf : SH -> bool.
  Hypothesis h_rs : forall sh, sh_wf sh = true -> h_enc (h_dec sh) = sh_norm sh.

  Notation sopn := (sop_norm_h SH sh_norm).
  Notation load_nodes := (load_nodes H SH h_dec).
  Notation save_nodes := (save_nodes H SH h_enc).
  Notation wf := (sop_wf SH sh_wf).

  Lemma nodes_rt m : forall l idx, forallb wf l = true -> save_nodes idx (load_nodes m idx l) = map sopn l.
  Proof.
    induction l as [|s r IH]; intros idx W; cbn [CodecDoc.load_nodes CodecDoc.save_nodes map]; [reflexivity|].
    cbn in W. apply andb_prop in W as [W1 W2]. rewrite (IH _ W2). f_equal. cbn [n_op n_parent].
    rewrite <- (op_reserial_all H SH h_enc h_dec sh_norm sh_wf h_rs s W1). f_equal.
    destruct (N.eqb_spec (sop_parent SH s) (N.of_nat idx)) as [E|E]; congruence.
  Qed.

  Lemma offset_rt ns p d :
    option_map (fun o => constrain_offset H h_type ns (fst p) o d) (get_offset H h_type ns p d) =
    option_map Some (norm_offset H h_type ns p d).
  Proof.
    destruct p as [n off]. unfold get_offset, norm_offset, constrain_offset. cbn [fst].
    destruct (match op_at H ns n with Some o => num_df_ports H h_type o d | None => None end) as [k|] eqn:E;
      destruct off as [x|]; cbn [option_map]; rewrite ?E; try reflexivity.
    destruct (N.eqb_spec x k) as [->|Ne]; cbn; now rewrite ?E.
  Qed.

  Lemma edges_rt ns : forall l, save_edges H h_type ns (load_edges H h_type ns l) = norm_edges H h_type ns l.
  Proof.
    induction l as [|[s t] r IH]; [reflexivity|]. cbn [load_edges norm_edges].
    pose proof (offset_rt ns s Outgoing) as Es. pose proof (offset_rt ns t Incoming) as Et.
    destruct (get_offset H h_type ns s Outgoing) as [a|], (norm_offset H h_type ns s Outgoing) as [a'|]; cbn in Es; try discriminate;
    destruct (get_offset H h_type ns t Incoming) as [b|], (norm_offset H h_type ns t Incoming) as [b'|]; cbn in Et; try discriminate;
      try exact IH.
    unfold save_edges in *. cbn [map]. rewrite IH. inversion Es; inversion Et. destruct s, t; cbn in *. congruence.
  Qed.

  Lemma meta_rt m : forall l idx, save_meta H (load_nodes m idx l) = Some (norm_meta m idx (length l)).
  Proof.
    unfold save_meta. induction l as [|s r IH]; intro idx; cbn [CodecDoc.load_nodes map length norm_meta]; [reflexivity|].
    specialize (IH (S idx)). inversion IH as [E]. cbn [n_meta]. now rewrite E.
  Qed.

  (* loading and re-saving a foreign document *)
  Theorem doc_reserial_all : forall s, forallb wf (sd_nodes SH s) = true ->
    to_serial H SH h_enc h_type (from_serial H SH h_dec h_type s) = sdoc_norm H SH h_dec h_type sopn s.
  Proof.
    intros [ns es m] W. unfold to_serial, from_serial, sdoc_norm. cbn [h_nodes h_links sd_nodes sd_edges sd_meta] in *.
    now rewrite (nodes_rt m ns 0 W), edges_rt, meta_rt.
  Qed.

  (* ... and nothing is lost on the way: one output edge per input edge, between the same nodes, with every
     offset that was given kept and every null offset replaced by a number *)
  Definition edge_kept (e e' : sport * sport) : Prop :=
    fst (fst e') = fst (fst e) /\ fst (snd e') = fst (snd e) /\
    (forall x, snd (fst e) = Some x -> snd (fst e') = Some x) /\ (forall x, snd (snd e) = Some x -> snd (snd e') = Some x) /\
    snd (fst e') <> None /\ snd (snd e') <> None.
  Theorem doc_edges_kept : forall s, edges_wf H SH h_dec h_type s = true ->
    Forall2 edge_kept (sd_edges SH s) (sd_edges SH (sdoc_norm H SH h_dec h_type sopn s)).
  Proof.
    intros [ns es m]. unfold edges_wf, sdoc_norm. cbn [sd_nodes sd_edges sd_meta].
    generalize (load_nodes m 0 ns) as L. intro L. induction es as [|[a b] r IH]; cbn [forallb norm_edges]; [constructor|].
    intro W. apply andb_prop in W as [W1 W2].
    destruct a as [an ao], b as [bn bo].
    destruct (norm_offset H h_type L (an, ao) Outgoing) as [x|] eqn:Ea; [|discriminate].
    destruct (norm_offset H h_type L (bn, bo) Incoming) as [y|] eqn:Eb; [|discriminate].
    constructor; [|auto]. unfold edge_kept. cbn. unfold norm_offset in Ea, Eb.
    repeat split; try discriminate; intros z Hz; subst; congruence.
  Qed.
  (* ---- the order of the `edges` array is not promised.  [sdoc_same]: the same document up to the order of its
     edge list; [edges_kept_ms]: every input edge has its own output edge (a matching of the two multisets),
     wherever it stands.  The statements hold for EVERY implementation choice of the emission order [ord]. ---- *)
  Definition sdoc_same (a b : sdoc SH) : Prop :=
    sd_nodes SH a = sd_nodes SH b /\ Permutation (sd_edges SH a) (sd_edges SH b) /\ sd_meta SH a = sd_meta SH b.
  Definition edges_kept_ms (ein eout : list (sport * sport)) : Prop :=
    exists l, Permutation l eout /\ Forall2 edge_kept ein l.

  Theorem doc_reserial_any_order : forall ord, (forall l, Permutation (ord l) l) ->
    forall s, forallb wf (sd_nodes SH s) = true ->
      sdoc_same (to_serial_ord H SH h_enc h_type ord (from_serial H SH h_dec h_type s)) (sdoc_norm H SH h_dec h_type sopn s).
  Proof.
    intros ord Hord s W. pose proof (doc_reserial_all s W) as E. destruct s as [ns es m].
    unfold to_serial_ord, to_serial, from_serial, sdoc_norm, sdoc_same in *.
    cbn [h_nodes h_links sd_nodes sd_edges sd_meta] in *. injection E as E1 E2 E3.
    split; [exact E1|]. split; [|unfold save_meta; now rewrite E3]. rewrite Hord, E2. reflexivity.
  Qed.
  Theorem doc_edges_kept_perm : forall s out, edges_wf H SH h_dec h_type s = true ->
    Permutation out (sd_edges SH (sdoc_norm H SH h_dec h_type sopn s)) -> edges_kept_ms (sd_edges SH s) out.
  Proof.
    intros s out W P. exists (sd_edges SH (sdoc_norm H SH h_dec h_type sopn s)). split; [now symmetry|].
    now apply doc_edges_kept.
  Qed.
  Theorem doc_edges_kept_any_order : forall ord, (forall l, Permutation (ord l) l) ->
    forall s, forallb wf (sd_nodes SH s) = true -> edges_wf H SH h_dec h_type s = true ->
      edges_kept_ms (sd_edges SH s) (sd_edges SH (to_serial_ord H SH h_enc h_type ord (from_serial H SH h_dec h_type s))).
  Proof.
    intros ord Hord s W We. apply doc_edges_kept_perm; [assumption|].
    now destruct (doc_reserial_any_order ord Hord s W) as (_ & P & _).
  Qed.
  (* the positional statement is the instance [ord := fun l => l] *)
  Lemma to_serial_ord_id : forall h, to_serial_ord H SH h_enc h_type (fun l => l) h = to_serial H SH h_enc h_type h.
  Proof. reflexivity. Qed.

  (* metadata: every node's dictionary is kept (an absent one and {} are both written as null) *)
  Theorem doc_meta_kept : forall s idx, idx < length (sd_nodes SH s) ->
    get_meta (sd_meta SH (sdoc_norm H SH h_dec h_type sopn s)) idx = get_meta (sd_meta SH s) idx.
  Proof.
    intros [ns es m] idx. unfold sdoc_norm. cbn [sd_nodes sd_edges sd_meta]. 
    assert (G : forall n base i, i < n -> nth_error (norm_meta m base n) i =
              Some (if N.eqb (get_meta m (base + i)) empty_meta then None else Some (get_meta m (base + i)))).
    { induction n as [|n IH]; intros base i Hi; [lia|]. destruct i as [|i]; cbn [norm_meta nth_error].
      - now rewrite Nat.add_0_r.
      - rewrite IH by lia. now rewrite Nat.add_succ_r. }
    intro Hi. unfold get_meta at 1. rewrite (G _ 0 idx Hi). cbn [Nat.add].
    destruct (N.eqb_spec (get_meta m idx) empty_meta) as [E|E]; congruence.
  Qed.
End DocP.

(* ---- the boolean multiset comparison the run module uses means [Permutation] ---- *)
Lemma remove1_perm {A} (eqb : A -> A -> bool) (Heq : forall a b, eqb a b = true -> a = b) x :
  forall l l', remove1 eqb x l = Some l' -> Permutation l (x :: l').
Proof.
  induction l as [|y r IH]; intros l' E; cbn in E; [discriminate|].
  destruct (eqb x y) eqn:Exy.
  - apply Heq in Exy. inversion E. subst. reflexivity.
  - destruct (remove1 eqb x r) as [r'|] eqn:Er; [|discriminate]. inversion E. subst.
    rewrite (IH r' eq_refl). apply perm_swap.
Qed.
Lemma perm_eqb_sound {A} (eqb : A -> A -> bool) (Heq : forall a b, eqb a b = true -> a = b) :
  forall a b, perm_eqb eqb a b = true -> Permutation a b.
Proof.
  induction a as [|x r IH]; intros b E; cbn in E.
  - destruct b; [constructor|discriminate].
  - destruct (remove1 eqb x b) as [b'|] eqn:Eb; [|discriminate].
    rewrite (remove1_perm eqb Heq x b b' Eb). constructor. now apply IH.
Qed.
(* ... and it accepts everything the positional comparison accepted *)
Lemma list_eqb_perm_eqb {A} (eqb : A -> A -> bool) : forall a b, list_eqb eqb a b = true -> perm_eqb eqb a b = true.
Proof.
  induction a as [|x r IH]; intros [|y s] E; cbn in *; try discriminate; [reflexivity|].
  apply andb_prop in E as [E1 E2]. rewrite E1. now apply IH.
Qed.
Lemma sport_eqb_eq : forall a b, sport_eqb a b = true -> a = b.
Proof.
  intros [an [ao|]] [bn [bo|]]; unfold sport_eqb, pair_eqb, option_eqb; cbn; intro E;
    apply andb_prop in E as [E1 E2]; try discriminate; apply N.eqb_eq in E1; subst; [|reflexivity].
  apply N.eqb_eq in E2. now subst.
Qed.
Lemma edge_eqb_eq : forall a b, edge_eqb a b = true -> a = b.
Proof.
  intros [a1 a2] [b1 b2]. unfold edge_eqb, pair_eqb. cbn. intro E. apply andb_prop in E as [E1 E2].
  apply sport_eqb_eq in E1, E2. now subst.
Qed.
Theorem edges_sameb_sound : forall a b, edges_sameb a b = true -> Permutation a b.
Proof. exact (perm_eqb_sound edge_eqb edge_eqb_eq). Qed.
Theorem sdoc_eqb_sameb : forall SH sh_eqb (a b : sdoc SH), sdoc_eqb SH sh_eqb a b = true -> sdoc_sameb SH sh_eqb a b = true.
Proof.
  intros SH sh_eqb a b E. unfold sdoc_eqb, sdoc_sameb in *.
  apply andb_prop in E as [E E3]. apply andb_prop in E as [E1 E2]. rewrite E1, E3.
  unfold edges_sameb, edge_eqb. now rewrite (list_eqb_perm_eqb _ _ _ E2).
Qed.
(* what a passing monitor clause means: the re-saved document compares equal to [sdoc_norm s] with its edges taken
   as a multiset  =>  every edge of the input has its own edge in the output, between the same nodes, given offsets
   unchanged, null offsets filled in; and there are no other edges *)
Theorem doc_monitor_sound : forall H SH (h_dec : SH -> H) h_type sh_norm sh_eqb s (reser : sdoc SH),
  edges_wf H SH h_dec h_type s = true ->
  sdoc_sameb SH sh_eqb reser (sdoc_norm H SH h_dec h_type (sop_norm_h SH sh_norm) s) = true ->
  edges_kept_ms (sd_edges SH s) (sd_edges SH reser).
Proof.
  intros H SH h_dec h_type sh_norm sh_eqb s reser W E. unfold sdoc_sameb in E.
  apply andb_prop in E as [E _]. apply andb_prop in E as [_ E]. apply edges_sameb_sound in E.
  exact (doc_edges_kept_perm H SH h_dec h_type sh_norm s _ W E).
Qed.

(* ---- nesting depth 0: documents without function-valued constants (the payload type is empty, so every
   hypothesis on it holds): the theorems above and the value / operation round trips, unconditionally ---- *)
Definition E0 := Empty_set.
Definition e0 (x : E0) : E0 := x.
Definition e0_type (x : E0) : functype := match x with end.
Definition e0_ok (x : E0) : bool := true.
Lemma e0_rt : forall h : E0, e0_ok h = true ->
  e0 (e0 h) = e0 h /\ e0 (e0 h) = e0 h /\ func_to_serial (e0_type (e0 h)) = func_to_serial (e0_type h).
Proof. intros []. Qed.
Lemma e0_rs : forall sh : E0, e0_ok sh = true -> e0 (e0 sh) = e0 sh.
Proof. intros []. Qed.

(* non-vacuity of the order-free statements: a foreign document whose edges are not listed by source port (crossed
   wires, then an order edge the hugr-rs way), re-saved by an implementation that lists the links in another order
   ([rev], a permutation): the document written differs from the one [to_serial] writes position by position, is the
   same document with the edges taken as a multiset, and every input edge is kept *)
Definition ex_doc : sdoc E0 :=
  SDoc [SDFG 0 (SFunc [SQubit; SQubit] [SQubit; SQubit] []); SInput 0 [SQubit; SQubit]; SOutput 0 [SQubit; SQubit]]
       [((1, Some 1), (2, Some 0)); ((1, Some 0), (2, Some 1)); ((1, None), (2, None))]%N None.
Definition e0_eqb (a b : E0) : bool := true.
Example reserial_any_order_example :
  let out := to_serial_ord E0 E0 e0 e0_type (@rev _) (from_serial E0 E0 e0 e0_type ex_doc) in
  let nrm := sdoc_norm E0 E0 e0 e0_type (sop_norm_h E0 e0) ex_doc in
  forallb (sop_wf E0 e0_ok) (sd_nodes E0 ex_doc) = true /\ edges_wf E0 E0 e0 e0_type ex_doc = true /\
  sdoc_eqb E0 e0_eqb out nrm = false /\ sdoc_sameb E0 e0_eqb out nrm = true /\
  sd_edges E0 out = [((1, Some 2), (2, Some 2)); ((1, Some 0), (2, Some 1)); ((1, Some 1), (2, Some 0))]%N /\
  edges_kept_ms (sd_edges E0 ex_doc) (sd_edges E0 out).
Proof.
  cbv zeta. repeat split; try (vm_compute; reflexivity).
  apply (doc_edges_kept_any_order E0 E0 e0 e0 e0_type e0 e0_ok e0_rs (@rev _)).
  - intro l. symmetry. apply Permutation_rev.
  - vm_compute; reflexivity.
  - vm_compute; reflexivity.
Qed.

(* ---- nesting depth n+1 from depth n: the tower of documents ---- *)
Fixpoint SDocT (n : nat) : Type := match n with O => Empty_set | S k => sdoc (SDocT k) end.
Fixpoint HugrT (n : nat) : Type := match n with O => Empty_set | S k => hugr (HugrT k) end.
Fixpoint typeT (n : nat) : HugrT n -> functype :=
  match n with
  | O => fun x => match x with end
  | S k => fun h => match h_nodes (HugrT k) h with
                    | nd :: _ => match f_inner (op_facts (HugrT k) (typeT k) (n_op (HugrT k) nd)) with
                                 | Some _ => match n_op (HugrT k) nd with
                                             | ODFG i o d => FT i o d
                                             | OFuncDefn _ i _ o | OCase i o => FT i o []
                                             | _ => FT [] [] []
                                             end
                                 | None => FT [] [] []
                                 end
                    | [] => FT [] [] []
                    end
  end.
Fixpoint decT (n : nat) : SDocT n -> HugrT n :=
  match n with
  | O => fun x => x
  | S k => from_serial (HugrT k) (SDocT k) (decT k) (typeT k)
  end.
Fixpoint encT (n : nat) : HugrT n -> SDocT n :=
  match n with
  | O => fun x => x
  | S k => to_serial (HugrT k) (SDocT k) (encT k) (typeT k)
  end.
Fixpoint wfT (n : nat) : SDocT n -> bool :=
  match n with
  | O => fun _ => true
  | S k => fun s => forallb (sop_wf (SDocT k) (wfT k)) (sd_nodes (SDocT k) s)
  end.
Fixpoint normT (n : nat) : SDocT n -> SDocT n :=
  match n with
  | O => fun x => x
  | S k => sdoc_norm (HugrT k) (SDocT k) (decT k) (typeT k) (sop_norm_h (SDocT k) (normT k))
  end.
(* induction on the nesting depth: a document of any depth, function constants embedding documents embedding
   function constants ..., re-saves to its normalised self *)
Theorem doc_reserial_depth : forall n (s : SDocT n), wfT n s = true -> encT n (decT n s) = normT n s.
Proof.
  induction n as [|n IH]; intros s W; [destruct s|].
  cbn [encT decT normT wfT] in *. apply doc_reserial_all with (sh_wf := wfT n); assumption.
Qed.
