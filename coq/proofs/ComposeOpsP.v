(* C02 o C05: the operation-level hypotheses of the C02 round-trip theorems discharged by the C05 codec theorems.
   model/ComposeOps.v instantiates enc / dec / ndp / vports / sports / has_order of model/SerialHugr.v with the
   concrete operations of model/CodecOps.v; here
     - c_ndp is C05's CodecDoc.num_df_ports (the model of ops._num_dataflow_ports C05's correspondence ties);
     - ndp_spec (the helper agrees with the reader's contract applied to the encoded operation) for ALL operations;
     - enc_dec_enc and ndp_dec_enc for the operations satisfying C05's OpOK, from C05's op_roundtrip_all;
     - the composed round trip, generic in the payload of function-valued constants (hypothesis h_rt, the one
       C05's own theorems carry), then closed at nesting depth 0 (no function-valued constants: E0). *)
From Coq Require Import NArith List Bool Arith Lia Permutation.
Import ListNotations.
From HV Require Import lib.Harness model.Types model.SerialTypes model.Codec model.CodecVals model.CodecOps model.CodecDoc
  spec.CodecS proofs.CodecP proofs.CodecValsP proofs.CodecOpsP proofs.CodecDocP.
From HV Require Import model.SerialHugr spec.SerialHugrS proofs.SerialHugrP proofs.SerialHugrOnP model.ComposeOps.

(* ------------------------------------------------------------------ the parent field *)
Section Parent.
  Variables H SH : Type.
  Variable h_enc : H -> SH.
  Variable h_dec : SH -> H.
  (* <Op>._to_serial(parent) is the parent-less encoding with the parent put in: nothing else depends on it *)
  Lemma to_serial_set_parent (o : op H) p : op_to_serial H SH h_enc o p = set_parent SH (c_enc H SH h_enc o) p.
  Proof. destruct o; reflexivity. Qed.
  Lemma sop_parent_set (s : sop SH) p : sop_parent SH (set_parent SH s p) = p.
  Proof. destruct s; reflexivity. Qed.
  (* deserialize() does not read the parent *)
  Lemma deserialize_set_parent (s : sop SH) p : op_deserialize H SH h_dec (set_parent SH s p) = op_deserialize H SH h_dec s.
  Proof. destruct s; reflexivity. Qed.
  Lemma set_parent_set (s : sop SH) p q : set_parent SH (set_parent SH s p) q = set_parent SH s q.
  Proof. destruct s; reflexivity. Qed.
End Parent.

(* ------------------------------------------------------------------ port counts *)
Section Ports.
  Variables H SH : Type.
  Variable h_enc : H -> SH.
  Variable h_type : H -> functype.
  Notation ndp := (c_ndp H).
  Notation has_order := (c_has_order H SH h_enc).
  Notation vports := (c_vports H SH h_enc).
  Notation sports := (c_sports H SH h_enc).

  Definition cdir (d : SerialHugr.dir) : CodecDoc.dir := match d with DIn => Incoming | DOut => Outgoing end.

  (* the transcription of ops._num_dataflow_ports in model/ComposeOps.v is the function C05 models and ties *)
  Lemma c_ndp_num_df_ports (o : op H) d : option_map N.of_nat (ndp o d) = num_df_ports H h_type o (cdir d).
  Proof.
    unfold c_ndp, num_df_ports, nlen.
    destruct o; cbn [df_sig op_facts f_outer sig2 encs option_map]; try reflexivity;
      try (destruct d; cbn [cdir option_map]; unfold encs; rewrite ?map_length, ?app_length; cbn [length];
           f_equal; lia).
    - (* Tag *) destruct (nth_error (rows_of sum) (N.to_nat tag)); [|reflexivity].
      destruct d; cbn [cdir option_map sig2]; unfold encs; rewrite ?map_length; f_equal; cbn [length]; lia.
  Qed.

  (* ndp_spec: ops._num_dataflow_ports is the number of value + static ports the reader's contract gives the
     encoded operation, for exactly the operations the contract gives an order port -- for every operation *)
  Lemma c_ndp_spec (o : op H) d : ndp o d = if has_order o then Some (vports o d + sports o d) else None.
  Proof.
    unfold c_ndp, c_has_order, c_vports, c_sports, c_enc.
    destruct o; cbn [df_sig op_to_serial reader_ports fst snd func_to_serial sf_input sf_output mkfunc ft_in ft_out];
      try reflexivity;
      try (destruct d; unfold row_ser; rewrite ?map_length, ?app_length; cbn [length]; f_equal; lia).
    - (* Tag *) unfold rows_ser. rewrite nth_error_map.
      destruct (nth_error (rows_of sum) (N.to_nat tag)); cbn [option_map fst snd]; [|reflexivity].
      destruct d; rewrite ?map_length; cbn [length]; f_equal; lia.
  Qed.

  (* tag_ok says exactly that the helper returns on a Tag *)
  Lemma tag_ok_ndp tag s : tag_ok H (OTag tag s) = true <-> ndp (OTag tag s) DOut = Some 1.
  Proof.
    unfold tag_ok, c_ndp. cbn [df_sig]. split.
    - intros L. apply Nat.ltb_lt in L. destruct (nth_error (rows_of s) (N.to_nat tag)) eqn:E; [reflexivity|].
      apply nth_error_None in E. lia.
    - destruct (nth_error (rows_of s) (N.to_nat tag)) eqn:E; [|discriminate]. intros _. apply Nat.ltb_lt.
      apply nth_error_Some. congruence.
  Qed.
End Ports.

(* ------------------------------------------------------------------ C03's theorems, hypothesis discharged *)
Lemma concrete_wire_format (H SH : Type) (h_enc : H -> SH) (md : Type) (md_nil : md) (md_is_nil : md -> bool)
  (h : SerialHugr.hugr (op H) md) :
  guard_b (c_vports H SH h_enc) (c_sports H SH h_enc) (c_has_order H SH h_enc) h = true ->
  exists s, SerialHugr.to_serial (c_enc H SH h_enc) (c_ndp H) md_is_nil h = Some s /\
    rank h (h_root h) = 0 /\ IndexSane s /\
    s_edges s = map (expected_edge (c_vports H SH h_enc) (c_sports H SH h_enc) h) (h_links h).
Proof.
  intros G.
  destruct (to_serial_total (op H) (sop SH) md (c_enc H SH h_enc) (c_ndp H) md_nil md_is_nil _ _ _ (c_ndp_spec H SH h_enc) h G) as [s Hs].
  exists s. split; [exact Hs|].
  destruct (serial_index_sane (op H) (sop SH) md (c_enc H SH h_enc) (c_ndp H) md_nil md_is_nil _ _ _ (c_ndp_spec H SH h_enc) h s G Hs) as [A B].
  split; [exact A|]. split; [exact B|].
  exact (serial_port_addressing (op H) (sop SH) md (c_enc H SH h_enc) (c_ndp H) md_nil md_is_nil _ _ _ (c_ndp_spec H SH h_enc) h s G Hs).
Qed.

(* ------------------------------------------------------------------ the operation-level facts from C05 *)
Section Facts.
  Variables H SH : Type.
  Variable h_enc : H -> SH.
  Variable h_dec : SH -> H.
  Variable h_nf : H -> H.
  Variable h_type : H -> functype.
  Variable h_ok : H -> bool.
  Hypothesis h_rt : forall h, h_ok h = true ->
    h_dec (h_enc h) = h_nf h /\ h_enc (h_nf h) = h_enc h /\ func_to_serial (h_type (h_nf h)) = func_to_serial (h_type h).

  Notation enc := (c_enc H SH h_enc).
  Notation dec := (c_dec H SH h_dec).
  Notation ndp := (c_ndp H).
  Notation OK := (OpOK H h_ok).

  (* decoding the encoding gives the normal form (C05_op_roundtrip) *)
  Lemma c_dec_enc o : OK o -> dec (enc o) = op_nf H h_nf o.
  Proof. intros W. exact (proj1 (op_roundtrip_all H SH h_enc h_dec h_nf h_type h_ok h_rt o 0%N W)). Qed.
  (* enc_dec_enc *)
  Lemma c_enc_dec_enc o : OK o -> enc (dec (enc o)) = enc o.
  Proof.
    intros W. rewrite (c_dec_enc o W).
    exact (proj1 (proj2 (op_roundtrip_all H SH h_enc h_dec h_nf h_type h_ok h_rt o 0%N W))).
  Qed.
  (* the helper's count is a function of C05's derived facts and of the operation kind, both kept by the normal form *)
  Lemma c_ndp_nf o d : ndp (op_nf H h_nf o) d = ndp o d.
  Proof.
    unfold c_ndp.
    destruct o; cbn [op_nf df_sig]; try reflexivity;
      try (destruct d; unfold row_nf; cbn [func_nf ft_in ft_out length]; rewrite ?map_length, ?app_length, ?map_length; reflexivity).
    - (* Tag *) rewrite sum_nf_rows, nth_error_map.
      destruct (nth_error (rows_of sum) (N.to_nat tag)); cbn [option_map]; [|reflexivity].
      destruct d; rewrite ?map_length; reflexivity.
  Qed.
  (* ndp_dec_enc *)
  Lemma c_ndp_dec_enc o d : OK o -> ndp (dec (enc o)) d = ndp o d.
  Proof. intros W. rewrite (c_dec_enc o W). apply c_ndp_nf. Qed.

  (* ---- the composed theorem, generic in the payload ---- *)
  Variable md : Type.
  Variable md_nil : md.
  Variable md_is_nil : md -> bool.
  Hypothesis md_nil_is_nil : md_is_nil md_nil = true.
  Hypothesis md_nil_unique : forall m, md_is_nil m = true -> m = md_nil.

  Notation hugr := (SerialHugr.hugr (op H) md).
  Notation guard := (guard_b (c_vports H SH h_enc) (c_sports H SH h_enc) (c_has_order H SH h_enc)).
  Notation to_s := (SerialHugr.to_serial enc ndp md_is_nil).
  Notation from_s := (SerialHugr.from_serial dec ndp md_nil).

  (* the nodes of the document are what `self[node]._to_serial(Node(rekey[parent]))` returns: the serial class of the
     operation with the renumbered parent (the root: itself) in its parent field -- the device "enc = encoding with the
     parent slot at 0, parent kept beside it" loses nothing *)
  Lemma concrete_doc_nodes (h : hugr) s : guard h = true -> to_s h = Some s ->
    forall k i, nth_error (lives h) k = Some i ->
      exists n, get_node h i = Some n /\
        option_map (sop_of_snode SH) (nth_error (s_nodes s) k) =
          Some (op_to_serial H SH h_enc (SerialHugr.n_op n)
                  (N.of_nat (rank h (match SerialHugr.n_parent n with Some p => p | None => i end)))).
  Proof.
    intros G Hs k i Hk.
    destruct (to_serial_doc (op H) (sop SH) md enc ndp md_nil md_is_nil _ _ _ (c_ndp_spec H SH h_enc) h s G Hs) as [_ Dn _ _].
    destruct (Dn k i Hk) as [n [Hn Hy]]. exists n. split; [exact Hn|]. rewrite Hy. cbn [option_map].
    unfold sop_of_snode, snode_of, parent_or_self. cbn [s_op s_parent]. now rewrite <- to_serial_set_parent.
  Qed.

  Theorem roundtrip_concrete (h : hugr) : guard h = true -> OpsIn OK h ->
    exists s h', to_s h = Some s /\ from_s s = Some h' /\ to_s h' = Some s /\ Iso enc h h' /\
      (forall i n, get_node h i = Some n ->
         exists n', get_node h' (rank h i) = Some n' /\ SerialHugr.n_op n' = op_nf H h_nf (SerialHugr.n_op n)).
  Proof.
    intros G HP.
    destruct (to_serial_total (op H) (sop SH) md enc ndp md_nil md_is_nil _ _ _ (c_ndp_spec H SH h_enc) h G) as [s Hs].
    destruct (roundtrip_iso_on (op H) (sop SH) md enc dec ndp md_nil md_is_nil _ _ _ (c_ndp_spec H SH h_enc)
                md_nil_unique OK c_enc_dec_enc c_ndp_dec_enc h s G HP Hs) as [h' [Hf [HI Hops]]].
    exists s, h'. split; [exact Hs|]. split; [exact Hf|]. split; [|split; [exact HI|]].
    - destruct (roundtrip_fixpoint_on (op H) (sop SH) md enc dec ndp md_nil md_is_nil _ _ _ (c_ndp_spec H SH h_enc)
                  md_nil_is_nil OK c_enc_dec_enc h s G HP Hs) as [h2 [Hf2 Hs2]].
      rewrite Hf in Hf2. now injection Hf2 as <-.
    - intros i n Hn. destruct (Hops i n Hn) as [n' [Hn' Eo]]. exists n'. split; [exact Hn'|].
      rewrite Eo. apply c_dec_enc. exact (HP i n Hn).
  Qed.
End Facts.
