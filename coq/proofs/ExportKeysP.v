(* C12, second pass — order-hint keys are labels, not node indices.
   The specification (spec/ExportS.v, clause 6) only relates hints, keys and order edges; the model
   (model/Export.v) happens to use the node index as the key of a node, like hugr-core.  Here:
   relabelling all keys of an exported tree by an injective function changes neither the comparison of the
   correspondence check (canon_keys) nor clause 6, so clause 6 holds for the export under any injective
   labelling of the keyed nodes (e.g. a per-export counter). *)
From Coq Require Import ZArith List Bool Arith Lia.
Import ListNotations.
From HV Require Import lib.Harness model.Export spec.ExportS spec.ExportCanon proofs.ExportP proofs.ExportOrderP
  proofs.ExportCanonP.
Open Scope Z_scope.

Lemma forallb_ext {A} (p q : A -> bool) l : (forall x, p x = q x) -> forallb p l = forallb q l.
Proof. intros H. induction l as [|a r IH]; [reflexivity|]. cbn [forallb]. rewrite H, IH. reflexivity. Qed.
Lemma existsb_ext {A} (p q : A -> bool) l : (forall x, p x = q x) -> existsb p l = existsb q l.
Proof. intros H. induction l as [|a r IH]; [reflexivity|]. cbn [existsb]. rewrite H, IH. reflexivity. Qed.

Section Relabel.
  Context {L Sy : Type} (kappa : Z -> Z).
  Definition rl_hint (ab : Z * Z) : Z * Z := (kappa (fst ab), kappa (snd ab)).
  Fixpoint rl_node (e : enode L Sy) : enode L Sy :=
    match e with
    | ENode op sg i o regs keys meta =>
        ENode op sg i o
              (map (fun r => match r with
                             | ERegion k s t ch h => ERegion k s t (map rl_node ch) (map rl_hint h)
                             end) regs)
              (map kappa keys) meta
    end.
  Definition rl_region (r : eregion L Sy) : eregion L Sy :=
    match r with ERegion k s t ch h => ERegion k s t (map rl_node ch) (map rl_hint h) end.

  Lemma rl_node_unfold op sg i o regs keys meta :
    rl_node (ENode op sg i o regs keys meta) = ENode op sg i o (map rl_region regs) (map kappa keys) meta.
  Proof. reflexivity. Qed.
  Lemma ck_node_unfold kl op sg i o (regs : list (eregion L Sy)) keys meta :
    ck_node kl (ENode op sg i o regs keys meta) = ENode op sg i o (map canon_keys regs) (map (rk kl) keys) meta.
  Proof. reflexivity. Qed.

  Lemma rl_keys e : e_keys (rl_node e) = map kappa (e_keys e).
  Proof. destruct e. reflexivity. Qed.
  Lemma rl_regs e : e_regs (rl_node e) = map rl_region (e_regs e).
  Proof. destruct e. reflexivity. Qed.
  Lemma rl_keys_list ch : flat_map e_keys (map rl_node ch) = map kappa (flat_map e_keys ch).
  Proof.
    induction ch as [|c r IH]; [reflexivity|]. cbn [map flat_map]. rewrite map_app, rl_keys, IH. reflexivity.
  Qed.

  Hypothesis kappa_inj : forall a b, kappa a = kappa b -> a = b.

  Lemma kappa_eqb a b : Z.eqb (kappa a) (kappa b) = Z.eqb a b.
  Proof.
    destruct (Z.eqb_spec a b) as [->|Hne]; [apply Z.eqb_refl|].
    apply Z.eqb_neq. intros H. apply Hne. apply kappa_inj. exact H.
  Qed.

  Lemma rk_kappa kl k : rk (map kappa kl) (kappa k) = rk kl k.
  Proof.
    unfold rk. f_equal.
    rewrite (rank_map2 Z.eqb Z.eqb kappa (fun z => z) k kl), map_id; [reflexivity|].
    intros y _. apply kappa_eqb.
  Qed.
  Lemma rk_hint_kappa kl ab : rk_hint (map kappa kl) (rl_hint ab) = rk_hint kl ab.
  Proof. unfold rk_hint, rl_hint. cbn [fst snd]. rewrite !rk_kappa. reflexivity. Qed.

  (* the key renaming of the correspondence check removes an injective relabelling *)
  Lemma ck_rl : forall e kl, ck_node (map kappa kl) (rl_node e) = ck_node kl e.
  Proof.
    apply (enode_ind2 (fun e => forall kl, ck_node (map kappa kl) (rl_node e) = ck_node kl e)
                      (fun r => canon_keys (rl_region r) = canon_keys r)).
    - intros op sg i o regs keys meta IH kl. rewrite rl_node_unfold, !ck_node_unfold, !map_map. f_equal.
      + apply map_map_Forall. exact IH.
      + apply map_ext. intros k. apply rk_kappa.
    - intros k s t ch h IH. cbn [rl_region canon_keys]. cbv zeta. rewrite rl_keys_list, !map_map. f_equal.
      + apply map_map_Forall. revert IH. apply Forall_impl. intros e He. apply He.
      + apply map_ext. intros ab. apply rk_hint_kappa.
  Qed.

  Theorem canon_keys_relabel (m : eregion L Sy) : canon_keys (rl_region m) = canon_keys m.
  Proof.
    destruct m as [k s t ch h]. cbn [rl_region canon_keys]. cbv zeta. rewrite rl_keys_list, !map_map. f_equal.
    - apply map_ext. intros e. apply ck_rl.
    - apply map_ext. intros ab. apply rk_hint_kappa.
  Qed.

  (* ---- clause 6 does not see an injective relabelling *)
  Definition FR (p : htree * enode L Sy) : htree * enode L Sy := (fst p, rl_node (snd p)).

  Lemma zipk_rl {A} keep (f : htree -> enode L Sy -> list A) (G : A -> A) ch :
    Forall (fun c => forall e, f c (rl_node e) = map G (f c e)) ch ->
    forall es, zipk keep f ch (map rl_node es) = map G (zipk keep f ch es).
  Proof.
    induction ch as [|c r IH]; intros HF es; [reflexivity|].
    inversion HF as [|? ? Hc Hr]; subst. cbn [zipk]. destruct (keep (kind_t c)).
    - destruct es as [|e es']; [reflexivity|]. cbn [map]. rewrite map_app, Hc, IH by exact Hr. reflexivity.
    - apply IH. exact Hr.
  Qed.

  Lemma r_ch_rl r : r_ch (rl_region r) = map rl_node (r_ch r).
  Proof. destruct r. reflexivity. Qed.
  Lemma r_hints_rl r : r_hints (rl_region r) = map rl_hint (r_hints r).
  Proof. destruct r. reflexivity. Qed.

  Lemma pairs_rl : forall t,
    (forall e, pairs t (rl_node e) = map FR (pairs t e)) /\
    (forall keep es, zipk keep pairs (children t) (map rl_node es) = map FR (zipk keep pairs (children t) es)).
  Proof.
    apply (htree_ind2 (fun t =>
      (forall e, pairs t (rl_node e) = map FR (pairs t e)) /\
      (forall keep es, zipk keep pairs (children t) (map rl_node es) = map FR (zipk keep pairs (children t) es)))).
    intros i ch IH. cbn [children].
    assert (P2 : forall keep es, zipk keep pairs ch (map rl_node es) = map FR (zipk keep pairs ch es)).
    { intros keep es. apply zipk_rl. revert IH. apply Forall_impl. intros c [Hc _]. exact Hc. }
    split; [|exact P2].
    intros e. cbn [pairs map]. unfold FR at 1. cbn [fst snd]. f_equal. rewrite rl_regs.
    destruct (n_kind i); try reflexivity;
      try (destruct (e_regs e) as [|r rs]; [reflexivity|]; cbn [map]; rewrite r_ch_rl; apply P2).
    (* Conditional *)
    rewrite Forall_forall in IH. clear P2. revert IH. generalize (e_regs e). induction ch as [|c l' IHl]; intros rs IH; [reflexivity|].
    destruct rs as [|r rs']; [reflexivity|]. cbn [map]. rewrite map_app. f_equal.
    - destruct c as [ci cch]. rewrite r_ch_rl. apply (proj2 (IH (HNode ci cch) (or_introl eq_refl))).
    - apply IHl. intros d Hd. apply IH. right. exact Hd.
  Qed.

  Lemma kid_pairs_rl keep ch r : kid_pairs keep ch (rl_region r) = map FR (kid_pairs keep ch r).
  Proof.
    unfold kid_pairs. rewrite r_ch_rl. apply zipk_rl. apply Forall_forall. intros c _ e. reflexivity.
  Qed.

  Lemma find_kid_rl KP i : find_kid (map FR KP) i = option_map FR (find_kid KP i).
  Proof.
    unfold find_kid. induction KP as [|q r IH]; [reflexivity|]. cbn [map find]. unfold FR at 1. cbn [fst].
    destruct (idx_t (fst q) =? i); [reflexivity | exact IH].
  Qed.

  Lemma mem_kappa a l : mem Z.eqb (kappa a) (map kappa l) = mem Z.eqb a l.
  Proof. induction l as [|x r IH]; [reflexivity|]. cbn [map mem]. rewrite kappa_eqb, IH. reflexivity. Qed.

  (* ---- dropping the keys no hint mentions (prune_keys) commutes with an injective relabelling *)
  Lemma pk_node_unfold used op sg i o (regs : list (eregion L Sy)) keys meta :
    pk_node used (ENode op sg i o regs keys meta) = ENode op sg i o (map prune_keys regs) (keep_used used keys) meta.
  Proof. reflexivity. Qed.
  Lemma hint_keys_rl hh : hint_keys (map rl_hint hh) = map kappa (hint_keys hh).
  Proof. unfold hint_keys. induction hh as [|ab r IH]; [reflexivity|]. cbn [map flat_map app]. rewrite IH. reflexivity. Qed.
  Lemma keep_used_kappa used keys : keep_used (map kappa used) (map kappa keys) = map kappa (keep_used used keys).
  Proof.
    unfold keep_used. induction keys as [|k r IH]; [reflexivity|]. cbn [map filter]. rewrite mem_kappa, IH.
    destruct (mem Z.eqb k used); reflexivity.
  Qed.
  Lemma pk_rl : forall e used, pk_node (map kappa used) (rl_node e) = rl_node (pk_node used e).
  Proof.
    apply (enode_ind2 (fun e => forall used, pk_node (map kappa used) (rl_node e) = rl_node (pk_node used e))
                      (fun r => prune_keys (rl_region r) = rl_region (prune_keys r))).
    - intros op sg i o regs keys meta IH used.
      rewrite rl_node_unfold, !pk_node_unfold, rl_node_unfold, !map_map, keep_used_kappa. f_equal.
      revert IH. induction regs as [|r rs IHr]; intros IH; [reflexivity|].
      inversion IH as [|? ? Hr Hrs]; subst. cbn [map]. rewrite Hr, IHr by exact Hrs. reflexivity.
    - intros k s t ch hh IH. cbn [rl_region prune_keys]. rewrite hint_keys_rl, !map_map. f_equal.
      revert IH. induction ch as [|e es IHe]; intros IH; [reflexivity|].
      inversion IH as [|? ? He Hes]; subst. cbn [map]. rewrite He, IHe by exact Hes. reflexivity.
  Qed.
  Theorem prune_keys_relabel (m : eregion L Sy) : prune_keys (rl_region m) = rl_region (prune_keys m).
  Proof.
    destruct m as [k s t ch hh]. cbn [rl_region prune_keys]. rewrite hint_keys_rl, !map_map. f_equal.
    apply map_ext. intros e. apply pk_rl.
  Qed.

  Lemma hint_of_rl KP l hint : hint_of (map FR KP) l (rl_hint hint) = hint_of KP l hint.
  Proof.
    unfold hint_of. rewrite !find_kid_rl.
    destruct (find_kid KP (l_src l)) as [a|]; [|reflexivity]. destruct (find_kid KP (l_dst l)) as [b|]; [|reflexivity].
    cbn [option_map]. unfold FR, rl_hint. cbn [fst snd]. rewrite !rl_keys, !mem_kappa. reflexivity.
  Qed.

  Lemma existsb_map {A B} (g : A -> B) (p : B -> bool) l : existsb p (map g l) = existsb (fun x => p (g x)) l.
  Proof. induction l as [|a r IH]; [reflexivity|]. cbn [map existsb]. rewrite IH. reflexivity. Qed.

  Lemma nodupb_kappa l : nodupb Z.eqb (map kappa l) = nodupb Z.eqb l.
  Proof. induction l as [|x r IH]; [reflexivity|]. cbn [map nodupb]. rewrite mem_kappa, IH. reflexivity. Qed.

  Lemma keys_of_pairs_rl KP :
    flat_map (fun q : htree * enode L Sy => e_keys (snd q)) (map FR KP) =
    map kappa (flat_map (fun q => e_keys (snd q)) KP).
  Proof.
    induction KP as [|q r IH]; [reflexivity|]. cbn [map flat_map]. unfold FR at 1. cbn [snd].
    rewrite map_app, rl_keys, IH. reflexivity.
  Qed.

  Variable h : hugr.

  Lemma hints_complete_rl ch r : hints_complete h ch (rl_region r) = hints_complete h ch r.
  Proof.
    unfold hints_complete. cbv zeta. rewrite kid_pairs_rl, r_hints_rl. apply forallb_ext. intros l.
    destruct (is_order l); [|reflexivity]. rewrite !find_kid_rl.
    destruct (find_kid (kid_pairs exported ch r) (l_src l)) as [a|]; [|reflexivity].
    destruct (find_kid (kid_pairs exported ch r) (l_dst l)) as [b|]; [|reflexivity].
    cbn [option_map]. rewrite existsb_map. apply existsb_ext. intros hint. apply hint_of_rl.
  Qed.

  Lemma hints_keyed_rl ch r : hints_keyed h ch (rl_region r) = hints_keyed h ch r.
  Proof.
    unfold hints_keyed. cbv zeta. rewrite kid_pairs_rl, r_hints_rl, keys_of_pairs_rl, nodupb_kappa. f_equal.
    rewrite forallb_map. apply forallb_ext. intros hint. apply existsb_ext. intros l. rewrite hint_of_rl. reflexivity.
  Qed.

  Lemma l_hints_rl t e : l_hints h t (rl_node e) = l_hints h t e.
  Proof.
    unfold l_hints. rewrite rl_regs.
    destruct (kind_t t); try reflexivity;
      try (destruct (e_regs e) as [|r rs]; [reflexivity|]; cbn [map];
           rewrite hints_complete_rl, hints_keyed_rl; reflexivity).
    (* Conditional *)
    generalize (e_regs e). induction (children t) as [|c l' IH]; intros rs; [reflexivity|].
    destruct rs as [|r rs']; [reflexivity|]. cbn [map]. rewrite hints_complete_rl, hints_keyed_rl, IH. reflexivity.
  Qed.

  Theorem order_hints_relabel m :
    order_hints_complete_and_keyed h (rl_region m) = order_hints_complete_and_keyed h m.
  Proof.
    unfold order_hints_complete_and_keyed, all_pairs. rewrite r_ch_rl.
    rewrite (proj2 (pairs_rl (h_root h)) exported). rewrite forallb_map. apply forallb_ext. intros p.
    unfold FR. cbn [fst snd]. apply l_hints_rl.
  Qed.
End Relabel.

(* relabelling keys commutes with renaming names and symbols *)
Section RelabelCanon.
  Context {L Sy : Type} (kappa : Z -> Z).

  Lemma names_rl : forall e : enode L Sy, names_node (rl_node kappa e) = names_node e.
  Proof.
    apply (enode_ind2 (fun e => names_node (rl_node kappa e) = names_node e)
                      (fun r => rnames (rl_region kappa r) = rnames r)).
    - intros op sg i o regs keys meta IH. rewrite rl_node_unfold, !names_node_unfold. do 2 f_equal.
      rewrite (fm_commute (rl_region kappa) rnames rnames (fun x => x) regs), map_id; [reflexivity|].
      revert IH. apply Forall_impl. intros r Hr. rewrite map_id. exact Hr.
    - intros k s t ch h IH. cbn [rl_region rnames]. do 2 f_equal.
      rewrite (fm_commute (rl_node kappa) names_node names_node (fun x => x) ch), map_id; [reflexivity|].
      revert IH. apply Forall_impl. intros e He. rewrite map_id. exact He.
  Qed.
  Lemma syms_rl : forall e : enode L Sy, syms_node (rl_node kappa e) = syms_node e.
  Proof.
    apply (enode_ind2 (fun e => syms_node (rl_node kappa e) = syms_node e)
                      (fun r => rsyms (rl_region kappa r) = rsyms r)).
    - intros op sg i o regs keys meta IH. rewrite rl_node_unfold, !syms_node_unfold. f_equal.
      rewrite (fm_commute (rl_region kappa) rsyms rsyms (fun x => x) regs), map_id; [reflexivity|].
      revert IH. apply Forall_impl. intros r Hr. rewrite map_id. exact Hr.
    - intros k s t ch h IH. cbn [rl_region rsyms].
      rewrite (fm_commute (rl_node kappa) syms_node syms_node (fun x => x) ch), map_id; [reflexivity|].
      revert IH. apply Forall_impl. intros e He. rewrite map_id. exact He.
  Qed.

  Context {L' Sy' : Type} (f : L -> L') (g : Sy -> Sy').
  Lemma map_rl : forall e : enode L Sy, map_node f g (rl_node kappa e) = rl_node kappa (map_node f g e).
  Proof.
    apply (enode_ind2 (fun e => map_node f g (rl_node kappa e) = rl_node kappa (map_node f g e))
                      (fun r => map_region f g (rl_region kappa r) = rl_region kappa (map_region f g r))).
    - intros op sg i o regs keys meta IH. rewrite rl_node_unfold, !map_node_unfold, rl_node_unfold, !map_map.
      f_equal. apply map_map_Forall. exact IH.
    - intros k s t ch h IH. cbn [rl_region map_region]. rewrite !map_map. f_equal. apply map_map_Forall. exact IH.
  Qed.
  Lemma map_region_rl (r : eregion L Sy) : map_region f g (rl_region kappa r) = rl_region kappa (map_region f g r).
  Proof.
    destruct r as [k s t ch h]. cbn [rl_region map_region]. rewrite !map_map. f_equal.
    apply map_ext. intros e. apply map_rl.
  Qed.
End RelabelCanon.

Lemma canon_rl {L Sy} (leqb : L -> L -> bool) (seqb : Sy -> Sy -> bool) kappa (m : eregion L Sy) :
  canon leqb seqb (rl_region kappa m) = rl_region kappa (canon leqb seqb m).
Proof.
  destruct m as [k s t ch h]. unfold canon. cbn [rl_region]. cbv zeta.
  assert (E1 : forall l : list (enode L Sy), flat_map names_node (map (rl_node kappa) l) = flat_map names_node l).
  { induction l as [|e r IH]; [reflexivity|]. cbn [map flat_map]. rewrite names_rl, IH. reflexivity. }
  assert (E2 : forall l : list (enode L Sy), flat_map syms_node (map (rl_node kappa) l) = flat_map syms_node l).
  { induction l as [|e r IH]; [reflexivity|]. cbn [map flat_map]. rewrite syms_rl, IH. reflexivity. }
  rewrite E1, E2.
  exact (map_region_rl kappa _ _ (ERegion k s t ch h)).
Qed.

(* the comparison of the correspondence check does not see an injective relabelling of the keys *)
Theorem canon_full_relabel {L Sy} (leqb : L -> L -> bool) (seqb : Sy -> Sy -> bool) kappa (m : eregion L Sy) :
  (forall a b, kappa a = kappa b -> a = b) ->
  canon_full leqb seqb (rl_region kappa m) = canon_full leqb seqb m.
Proof. intros Hk. unfold canon_full. rewrite canon_rl. apply canon_keys_relabel. exact Hk. Qed.

(* the same for the comparison the correspondence check makes since unused keys are dropped (canon_cmp) *)
Theorem canon_cmp_relabel {L Sy} (leqb : L -> L -> bool) (seqb : Sy -> Sy -> bool) kappa (m : eregion L Sy) :
  (forall a b, kappa a = kappa b -> a = b) ->
  canon_cmp leqb seqb (rl_region kappa m) = canon_cmp leqb seqb m.
Proof.
  intros Hk. unfold canon_cmp. rewrite canon_rl, (prune_keys_relabel kappa Hk). apply canon_keys_relabel. exact Hk.
Qed.

(* a key that no hint of its region mentions is invisible to that comparison: putting extra keys (not used by
   the hints of the region) on the children of the module region does not change canon_cmp's pruning *)
Lemma keep_used_app used extra keys :
  (forall k, In k extra -> mem Z.eqb k used = false) -> keep_used used (keys ++ extra) = keep_used used keys.
Proof.
  intros H. unfold keep_used. rewrite filter_app.
  assert (E : filter (fun k => mem Z.eqb k used) extra = []).
  { induction extra as [|k r IH]; [reflexivity|]. cbn [filter]. rewrite (H k (or_introl eq_refl)).
    apply IH. intros k' Hk'. apply H. right. exact Hk'. }
  rewrite E, app_nil_r. reflexivity.
Qed.

(* clause 6 for the export under any injective labelling of the keyed nodes *)
Theorem export_order_hints_any_labelling (kappa : Z -> Z) h :
  (forall a b, kappa a = kappa b -> a = b) ->
  valid_b h = true -> valid_order_b h = true -> order_ports_b h = true ->
  order_hints_complete_and_keyed h (rl_region kappa (export h)) = true.
Proof.
  intros Hk Hv Ho Hp. rewrite (order_hints_relabel kappa Hk h). apply export_order_hints_complete_and_keyed; assumption.
Qed.

(* and the correspondence's comparison is the same for every such labelling *)
Theorem canon_full_any_labelling (kappa : Z -> Z) h :
  (forall a b, kappa a = kappa b -> a = b) ->
  canon_full port_eqb Z.eqb (rl_region kappa (export h)) = canon_full port_eqb Z.eqb (export h).
Proof. intros Hk. apply canon_full_relabel. exact Hk. Qed.
